import FparserModel.Proofs.Reader4Loop

/-!
# Reader4Squeeze — `squeeze`: deletion of the blanks outside character literals

The layout of a statement (where it is cut, how continuation lines are indented, which comments
it carries) can only change the statement text by blanks outside character literals. `squeeze`
deletes exactly those; it is the invariant of `read_layout_invariant`.
-/
namespace Fp.Reader
open Fp
open Fp.Splitline (QState qstep qrun qinit qfinal quoteStateAfter)

/-- delete the white space read outside a character literal, starting in state `s` -/
def squeezeFrom : QState → Str → Str
  | _, [] => []
  | s, c :: cs =>
    if !isIn s && isSpace c then squeezeFrom (qstep s c) cs else c :: squeezeFrom (qstep s c) cs

/-- `squeeze t`: `t` without the white space outside its character literals -/
def squeeze (t : Str) : Str := squeezeFrom .outside t

theorem squeezeFrom_append (s : QState) (a b : Str) :
    squeezeFrom s (a ++ b) = squeezeFrom s a ++ squeezeFrom (qrun s a) b := by
  induction a generalizing s with
  | nil => rfl
  | cons c cs ih =>
    simp only [List.cons_append, squeezeFrom, Fp.Splitline.qrun_cons, ih]
    split <;> simp

theorem isSpace_not_quote {c : Char} (h : isSpace c = true) : Fp.Splitline.isQuote c = false := by
  have := (AllSpace.inert (w := [c]) (fun x hx => by simp only [List.mem_singleton] at hx; subst hx; exact h)) c
    List.mem_cons_self
  exact this.1

/-- a pending delimiter at a line start behaves like `outside` (the delimiter is a quotation
    character): same squeeze, same comment-freeness -/
theorem squeezeFrom_pending (q : Char) (hq : isQuote q = true) (b : Str) :
    squeezeFrom (.pending q) b = squeezeFrom .outside b := by
  cases b with
  | nil => rfl
  | cons c cs =>
    have hq' : Fp.Splitline.isQuote q = true := hq
    by_cases hc : c = q
    · subst hc; simp [squeezeFrom, isIn, qstep, hq']
    · simp [squeezeFrom, isIn, qstep, hc]

theorem bangFree_pending (q : Char) (hq : isQuote q = true) (b : Str) :
    bangFree (.pending q) b = bangFree .outside b := by
  cases b with
  | nil => rfl
  | cons c cs =>
    have hq' : Fp.Splitline.isQuote q = true := hq
    by_cases hc : c = q
    · subst hc; simp [bangFree, isIn, qstep, hq']
    · simp [bangFree, isIn, qstep, hc]

theorem squeezeFrom_requote (s : QState) (hs : s.quoteOnly) (b : Str) :
    squeezeFrom s b = squeezeFrom (qinit (qfinal s)) b := by
  cases s with
  | outside => rfl
  | inLit q => rfl
  | pending q => exact squeezeFrom_pending q hs b

theorem bangFree_requote (s : QState) (hs : s.quoteOnly) (b : Str) :
    bangFree s b = bangFree (qinit (qfinal s)) b := by
  cases s with
  | outside => rfl
  | inLit q => rfl
  | pending q => exact bangFree_pending q hs b

/-- white space read outside a literal is deleted and leaves the automaton outside -/
theorem squeezeFrom_space (s : QState) (hs : s.quoteOnly) (hin : isIn s = false) (w b : Str)
    (hw : AllSpace w) : squeezeFrom s (w ++ b) = squeezeFrom s b := by
  induction w generalizing s with
  | nil => rfl
  | cons c cs ih =>
    have hc : isSpace c = true := hw c List.mem_cons_self
    have hcq := isSpace_not_quote hc
    have hcs : AllSpace cs := fun y hy => hw y (List.mem_cons_of_mem _ hy)
    simp only [List.cons_append, squeezeFrom, hin, hc, Bool.not_false, Bool.and_self, if_true]
    cases s with
    | inLit q => cases hin
    | outside =>
      simp only [qstep, hcq, Bool.false_eq_true, if_false]
      exact ih .outside trivial rfl hcs
    | pending q =>
      have hq : isQuote q = true := hs
      have hne : (c == q) = false := by
        cases h : c == q with
        | false => rfl
        | true =>
          have hq' : Fp.Splitline.isQuote q = true := hq
          rw [beq_iff_eq.mp h, hq'] at hcq; cases hcq
      simp only [qstep, hne, hcq, Bool.false_eq_true, if_false]
      rw [ih .outside trivial rfl hcs, squeezeFrom_pending q hq]

/-- **inserting white space at a position outside a character literal does not change the
    squeeze** -/
theorem squeezeFrom_insert (s : QState) (hs : s.quoteOnly) (a w b : Str) (hw : AllSpace w)
    (hout : qfinal (qrun s a) = none) :
    squeezeFrom s (a ++ (w ++ b)) = squeezeFrom s (a ++ b) := by
  rw [squeezeFrom_append s a (w ++ b), squeezeFrom_append s a b,
    squeezeFrom_space _ (Fp.Splitline.qrun_quoteOnly _ _ hs) (isIn_of_final_none hout) w b hw]

theorem squeeze_lstrip (t : Str) : squeeze (lstrip t) = squeeze t := by
  unfold squeeze lstrip
  induction t with
  | nil => rfl
  | cons c cs ih =>
    simp only [List.dropWhile_cons]
    by_cases hc : isSpace c = true
    · simp only [hc, if_true, squeezeFrom, isIn, Bool.not_false, Bool.and_self, qstep,
        isSpace_not_quote hc, Bool.false_eq_true, if_false]
      exact ih
    · simp [hc]

theorem takeWhile_all (p : Char → Bool) : ∀ l : Str, ∀ x ∈ l.takeWhile p, p x = true
  | [], _, hx => by cases hx
  | a :: l, x, hx => by
    rw [List.takeWhile_cons] at hx
    by_cases ha : p a = true
    · simp only [ha, if_true, List.mem_cons] at hx
      rcases hx with rfl | hx
      · exact ha
      · exact takeWhile_all p l x hx
    · simp [ha] at hx

theorem rstrip_split (t : Str) : ∃ w, AllSpace w ∧ t = rstrip t ++ w := by
  unfold rstrip
  refine ⟨(t.reverse.takeWhile isSpace).reverse, ?_, ?_⟩
  · intro c hc
    exact takeWhile_all _ _ c (List.mem_reverse.mp hc)
  · have := List.takeWhile_append_dropWhile (p := isSpace) (l := t.reverse)
    have h2 := congrArg List.reverse this
    simp only [List.reverse_append, List.reverse_reverse] at h2
    exact h2.symm

/-- white space is not kept by the quote automaton as an open delimiter … -/
theorem qrun_space_in (q : Char) (hq : isQuote q = true) (w : Str) (hw : AllSpace w) :
    qrun (.inLit q) w = .inLit q := by
  have := (inert_init (some q) (fun c h => by cases h; exact hq) w hw.inert).1
  simpa [qinit] using this

/-- **`strip` only removes white space outside literals when the text is balanced** -/
theorem squeeze_strip (t : Str) (hbal : quoteStateAfter none t = none) :
    squeeze (strip t) = squeeze t := by
  unfold strip
  rw [squeeze_lstrip]
  obtain ⟨w, hw, ht⟩ := rstrip_split t
  have hs : (qrun .outside (rstrip t)).quoteOnly := Fp.Splitline.qrun_quoteOnly _ _ trivial
  have hout : qfinal (qrun .outside (rstrip t)) = none := by
    cases hst : qrun .outside (rstrip t) with
    | outside => rfl
    | pending q => rfl
    | inLit q =>
      exfalso
      rw [hst] at hs
      unfold quoteStateAfter at hbal
      rw [ht, Fp.Splitline.qrun_append] at hbal
      simp only [qinit] at hbal
      rw [hst, qrun_space_in q hs w hw] at hbal
      cases hbal
  have := squeezeFrom_insert .outside trivial (rstrip t) w [] hw hout
  simp only [List.append_nil] at this
  unfold squeeze
  rw [← this, ← ht]

end Fp.Reader
