import FparserModel.Proofs.BlockStream

/-!
# M-D — property theorems (every class table, every oracle, every fuel, every state)

All theorems are about `Fp.Block.run` / `Fp.Block.eval`, the functions the driver executes.

Boundary predicates (decidable on a run; reported by the driver as "ghost events"):

* `D st' = D st`            no *drop* event (`seqDrop`, `hookDrop`, `progDrop`, `noMatchDrop`)
  was logged between `st` and `st'` — the places where the code loses consumed items;
* `leaks st'.log = leaks st.log`   no *leak* event (`scopeLeak`, `main0Leak`, `emptyScopeName`).

Each boundary is reachable in the pinned tree or one of its variants (`Quirks`); the witnesses
below are `decide`d on concrete small tables.
-/
namespace Fp.Block

/-! ## a. no-match restores the reader;  b. the frontier of a tree is what was consumed -/

/-- FULL STATEMENT (false on the pinned tree, see `seq_drop_witness`):
    `run env fuel c st = (.none, st') → st'.stream.all = st.stream.all`. -/
theorem fail_restores (env : Env) (fuel : Nat) (c : Cls) (st st' : St)
    (h : run env fuel c st = (.none, st')) (hd : D st' = D st) :
    st'.stream.all = st.stream.all := by
  unfold run fresh at h
  simp only [Prod.mk.injEq] at h
  have := (eval_A env fuel).spec c [] st _ _ _ rfl
  rw [h.1, h.2] at this
  exact this hd

/-- a `NoMatchError` also leaves the reader as it was (this is what lets every caller treat
it as "no match") -/
theorem nomatch_restores (env : Env) (fuel : Nat) (c : Cls) (st st' : St)
    (h : run env fuel c st = (.raise .noMatch, st')) (hd : D st' = D st) :
    st'.stream.all = st.stream.all := by
  unfold run fresh at h
  simp only [Prod.mk.injEq] at h
  have := (eval_A env fuel).spec c [] st _ _ _ rfl
  rw [h.1, h.2] at this
  exact this hd

/-- FULL STATEMENT (false: `program0_drops_witness`): every item consumed is a leaf of the
tree, in order, exactly once. -/
theorem frontier_eq_consumed (env : Env) (fuel : Nat) (c : Cls) (st st' : St) (t : Tree)
    (h : run env fuel c st = (.tree t, st')) (hd : D st' = D st) :
    st.stream.all = t.frontier ++ st'.stream.all := by
  unfold run fresh at h
  simp only [Prod.mk.injEq] at h
  have := (eval_A env fuel).spec c [] st _ _ _ rfl
  rw [h.1, h.2] at this
  exact this hd

/-- drop events are never undone, so "no drop" for the whole run is "no drop" anywhere in it -/
theorem drops_monotone (env : Env) (fuel : Nat) (c : Cls) (st : St) :
    D st ≤ D (run env fuel c st).2 :=
  D_mono (run_rel (logExt_ok env) fuel c st)

/-! ## c. scopes -/

/-- PARTIAL: unless a leak event is logged, the chain of open scopes (current scope, its
parent, …, as table identities) is the same after the call — for EVERY outcome, including
every exception.  FULL STATEMENT ("for outcomes tree/none/raise Syntax the current scope is
unchanged") is false on the pinned tree: `internal_syntax_leaks_witness`,
`main0_leaks_witness`. -/
theorem scope_balanced_partial (env : Env) (fuel : Nat) (c : Cls) (st : St)
    (hl : leaks (run env fuel c st).2.log = leaks st.log) :
    (run env fuel c st).2.sym.chain = st.sym.chain :=
  (run_rel (scopeR_ok env) fuel c st).2 hl

theorem leaks_monotone (env : Env) (fuel : Nat) (c : Cls) (st : St) :
    leaks st.log ≤ leaks (run env fuel c st).2.log :=
  (run_rel (logExt_ok env) fuel c st).leaks_le

/-! ## d. an unmatched statement is never read past -/

/-- If no class matches item `g` (and it is not a comment), then whatever is called and
whatever happens, `g` stays in the stream with exactly `post` behind it, and at most the
items up to and including `g` are ever pulled from the source.  (`pulled` is a high-water
mark, so the bound holds throughout the run.) -/
theorem no_read_past_unmatched (env : Env) (fuel : Nat) (c : Cls) (st : St) (g : Item)
    (pre post : List Item) (hu : Unmatched env g)
    (hb : st.stream.buf = []) (hr : st.stream.rest = pre ++ g :: post) :
    (run env fuel c st).2.stream.pulled ≤ st.stream.pulled + pre.length + 1 ∧
    ∃ pre', (run env fuel c st).2.stream.all = pre' ++ g :: post := by
  have h := run_rel (guardR_ok env g post hu) fuel c st
  have hg : Guarded g post st.stream := by
    refine ⟨⟨pre, by simp [Stream.all, hb, hr]⟩, ?_⟩
    rw [hr]; simp; omega
  obtain ⟨⟨pre', hp⟩, hlen⟩ := h.1 hg
  have hsum := h.2
  refine ⟨?_, pre', hp⟩
  rw [hr] at hsum
  simp at hsum
  omega

/-- … hence a tree can only be returned with `g` still unconsumed behind it -/
theorem unmatched_not_in_tree (env : Env) (fuel : Nat) (c : Cls) (st st' : St) (g : Item)
    (pre post : List Item) (t : Tree) (hu : Unmatched env g)
    (hb : st.stream.buf = []) (hr : st.stream.rest = pre ++ g :: post)
    (h : run env fuel c st = (.tree t, st')) (hd : D st' = D st) :
    ∃ pre', pre = t.frontier ++ pre' := by
  have h1 := frontier_eq_consumed env fuel c st st' t h hd
  obtain ⟨_, pre', hp⟩ := no_read_past_unmatched env fuel c st g pre post hu hb hr
  rw [h] at hp
  simp only at hp
  rw [hp] at h1
  simp only [Stream.all, hb, hr, List.nil_append] at h1
  -- pre ++ g :: post = frontier ++ pre' ++ g :: post
  have : pre ++ (g :: post) = (t.frontier ++ pre') ++ (g :: post) := by
    rw [h1]; simp
  exact ⟨pre', List.append_cancel_right this⟩

/-! ## witnesses on a concrete small table -/

namespace W

/-- classes: 0 Program, 1 Unit (alt), 2 Sub (block), 3 Sub_Stmt, 4 End_Sub, 5 Stmt, 6 cpp,
7 Main0, 8 Comment, 9 Directive, 10 Include, 11 Seq (no-restore sequence), 12 Wrap (alt) -/
def kind : Cls → Kind
  | 0 => .program 1 7 []
  | 1 => .alt [2]
  | 2 => .block { start := some 3, subs := [5], end_ := some 4, endAll := [4] } []
  | 6 => .cpp []
  | 7 => .main0 { start := none, subs := [5], end_ := some 4, endAll := [4] } 1 []
  | 8 => .comment
  | 9 => .directive
  | 11 => .seqNR [3, 5] []
  | 12 => .alt [11, 3]
  | _ => .leaf

def tbl (q : Quirks) : Table :=
  { kind := kind, isa := fun c => [c], comment := 8, directive := 9, includeStmt := 10,
    cppFn := 6, labelDo := [], endDo := 99, endDoStmt := 99, continueStmt := 99, elseIf := 99,
    else_ := 99, endIf := 99, maskedElsewhere := 99, elsewhere := 99, endWhere := 99,
    quirks := q }

def line (i : Nat) : Item := { id := i, kind := .line, directive := false }

def subInfo (n : Name) : NodeInfo :=
  { cls := 3, isa := [3], scoping := true, scopeName := some n, hasName := true, name := some n }
def endInfo (n : Option Name) : NodeInfo :=
  { cls := 4, isa := [4], hasName := true, name := n }
def stmtInfo : NodeInfo := { cls := 5, isa := [5] }

def env (q : Quirks) (orc : Oracle) : Env :=
  { tbl := tbl q, orc := orc, processDirectives := false, blank := fun p => p == 0,
    blankEof := false }

def ans (r : LeafRes) : LeafAns := { res := r }

/-- `subroutine a / x = sin(1., 2.)`: the statement raises `InternalSyntaxError` -/
def orcInternal : Oracle := fun i c =>
  match i, c with
  | 0, 3 => ans (.matched (subInfo 5))
  | 1, 5 => ans (.raise .internalSyntax)
  | _, _ => ans .none

/-- `x = 1` where `x = 1` raises `FortranSyntaxError` inside `Main_Program0` -/
def orcMain0 : Oracle := fun i c =>
  match i, c with
  | 0, 5 => ans (.raise .syntax)
  | _, _ => ans .none

/-- `subroutine s / end subroutine q` -/
def orcExit : Oracle := fun i c =>
  match i, c with
  | 0, 3 => ans (.matched (subInfo 5))
  | 1, 4 => ans (.matched (endInfo (some 6)))
  | _, _ => ans .none

/-- `subroutine a / end subroutine a / i = 1 / end` -/
def orcDrop : Oracle := fun i c =>
  match i, c with
  | 0, 3 => ans (.matched (subInfo 5))
  | 1, 4 => ans (.matched (endInfo (some 5)))
  | 2, 5 => ans (.matched stmtInfo)
  | 3, 4 => ans (.matched (endInfo none))
  | _, _ => ans .none

def items (n : Nat) : List Item := (List.range n).map line

def outKind : Outcome → Nat
  | .tree _ => 0 | .none => 1 | .raise .noMatch => 2 | .raise .syntax => 3
  | .raise .internalSyntax => 4 | .raise .systemExit => 5 | .raise .other => 6
  | .raise .outOfFuel => 7

def res (q : Quirks) (orc : Oracle) (c : Cls) (n : Nat) : Outcome × St :=
  run (env q orc) 12 c (St.init (items n))

end W

open W in
/-- F-C09-2 on the unrepaired variant: `Program.__new__` reports `FortranSyntaxError`
(converted from `InternalSyntaxError`) and the scope of the subroutine is still open. -/
theorem internal_syntax_leaks_witness :
    outKind (res {} orcInternal 0 2).1 = 3 ∧ (res {} orcInternal 0 2).2.sym.chain = [0] := by
  decide

open W in
/-- … repaired by catching `InternalSyntaxError` in the clean-up handler -/
theorem internal_syntax_repaired_witness :
    outKind (res { catchInternalSyntax := true } orcInternal 0 2).1 = 3 ∧
    (res { catchInternalSyntax := true } orcInternal 0 2).2.sym.chain = [] ∧
    (res { catchInternalSyntax := true } orcInternal 0 2).2.sym.forest.length = 0 := by
  decide

open W in
/-- F-C09-1 on the unrepaired variant: `Main_Program0.match` has no `finally` -/
theorem main0_leaks_witness :
    outKind (res {} orcMain0 0 1).1 = 3 ∧ (res {} orcMain0 0 1).2.sym.chain = [0] := by
  decide

open W in
theorem main0_repaired_witness :
    outKind (res { main0Finally := true } orcMain0 0 1).1 = 3 ∧
    (res { main0Finally := true } orcMain0 0 1).2.sym.chain = [] ∧
    (res { main0Finally := true } orcMain0 0 1).2.sym.forest.length = 0 := by
  decide

open W in
/-- F-C06-1 / F-C09-3: differing names on `subroutine`/`end subroutine` end in `SystemExit`
(the `reader.error` path, logged as `sysExit`), and the table of the subroutine stays -/
theorem sysexit_witness :
    outKind (res {} orcExit 0 2).1 = 5 ∧
    (res {} orcExit 0 2).2.sym.forest.length = 1 ∧
    (res {} orcExit 0 2).2.log.contains (.ghost .sysExit) = true := by
  decide

open W in
/-- F-C02-1 / F-C08-1: `Program.match` falls back to `Main_Program0`, the first unit is
dropped: four items consumed, only the last two are in the tree. -/
theorem program0_drops_witness :
    outKind (res {} orcDrop 0 4).1 = 0 ∧
    (match (res {} orcDrop 0 4).1 with
      | .tree t => t.frontier.map (·.id) | _ => []) = [2, 3] ∧
    (res {} orcDrop 0 4).2.stream.all = [] ∧
    D (res {} orcDrop 0 4).2 = 1 := by
  decide

open W in
/-- the shared-DO defect ("todo: restore reader"): class 11 consumes item 0, fails on item 1
and returns None without restoring; the alternative 3 then sees item 1. -/
theorem seq_drop_witness :
    outKind (res {} orcDrop 12 2).1 = 2 ∧
    (res {} orcDrop 12 2).2.stream.all.map (·.id) = [1] ∧
    D (res {} orcDrop 12 2).2 = 1 := by
  decide

open W in
/-- … repaired (`seqRestores`): the stream is given back and the alternative matches item 0 -/
theorem seq_repaired_witness :
    outKind (res { seqRestores := true } orcDrop 12 2).1 = 0 ∧
    (res { seqRestores := true } orcDrop 12 2).2.stream.all.map (·.id) = [1] ∧
    D (res { seqRestores := true } orcDrop 12 2).2 = 0 := by
  decide

/-! ## non-vacuity -/

open W in
/-- a run satisfying the hypotheses of `frontier_eq_consumed` with a non-trivial tree:
`subroutine a / end subroutine a` -/
example : (∃ t, (res {} orcDrop 0 2).1 = .tree t ∧ t.frontier.map (·.id) = [0, 1]) ∧
    D (res {} orcDrop 0 2).2 = D (St.init (items 2)) ∧
    leaks (res {} orcDrop 0 2).2.log = leaks (St.init (items 2)).log := by
  refine ⟨⟨_, rfl, ?_⟩, ?_, ?_⟩ <;> decide

open W in
/-- runs satisfying the hypotheses of `fail_restores` / `nomatch_restores`: the subroutine
block, resp. the unit rule, on a lone unmatched line (two `get`s and two `put`s happened) -/
example : outKind (res {} (fun _ _ => ans .none) 5 1).1 = 1 ∧
    outKind (res {} (fun _ _ => ans .none) 1 1).1 = 2 ∧
    D (res {} (fun _ _ => ans .none) 1 1).2 = 0 ∧
    (res {} (fun _ _ => ans .none) 1 1).2.stream.all.map (·.id) = [0] ∧
    (res {} (fun _ _ => ans .none) 1 1).2.stream.pulled = 1 := by
  decide

open W in
/-- an instance of `Unmatched`: item 1 of `orcExit`'s world restricted to class 3 … is matched
by class 4, so instead take the all-`none` oracle: every line item is unmatched -/
example : Unmatched (env {} (fun _ _ => ans .none)) (line 0) :=
  ⟨by decide, fun _ => Or.inl rfl⟩

end Fp.Block
