"""C15 — OpenMP conditional-compilation lines: parsed when enabled, comments otherwise."""
import random
import re
from fv import real, gen, layout, treeutil, engine, findings
from fv.props import util
from fv.gen import St, Blk
from fv.model import get_model
from fv import cosim_reader as CR

RULE = ("generated programs x subsets S of whole simple executable statements (unlabelled, or labelled when no statement refers to the label, so that P minus S stays valid; a label stands behind the sentinel, in fixed form in columns 3-5), hidden "
        "behind the conditional sentinel: free form '!$ ' (continuation lines '!$ &…' / '!$&'), fixed form '!$', 'c$', '*$' in "
        "columns 1-2 (continuation mark in column 6); genuine '!$omp' directives interleaved; oracle: tree(sentinel(P,S), enabled) "
        "== tree(P); tree(sentinel(P,S), disabled, comments ignored) == tree(P minus S); '!$omp' lines stay comments in both; the "
        "reader model Fp.Reader is co-simulated on every source in both modes. non-trivial = |S| >= 2 with a continued statement")
ASSUMPTIONS = []
TIE_MODULES = ["FparserModel.Reader", "FparserModel.Generated.ReaderLex"]


def candidates(p):
    out = []

    def rec(b, inwhere):
        for x in b.body:
            if isinstance(x, Blk):
                rec(x, inwhere or x.cons in ("where", "forall", "type", "interface", "enum", "select", "selecttype", "nonblockdo"))
            elif x.role == "simple" and x.cons is None and (x.label is None or len(x.label) <= 3) and not inwhere and b.cons not in ("nonblockdo",):
                k = x.toks[0].upper()
                if not gen.is_kw(k) or k in ("CALL", "PRINT", "WRITE", "CONTINUE", "ALLOCATE", "DEALLOCATE", "NULLIFY", "IF"):
                    out.append(x)
    for u in p.units:
        rec(u, False)
    return out


def free_text(p, S, rng, omp_lines=True):
    """free-form rendering; statements of S carry the sentinel"""
    lines = []
    for st, d in layout.flat_with_depth(p):
        pad = "  " * d
        txt = st.text()
        if st in S:
            toks = txt.split(" ")
            lit = re.search(r"'[^'&!]{5,}'", txt)
            if lit and rng.random() < 0.5:
                # the conditional statement's character literal continued over the line break:
                # the continuation line carries the sentinel as well, then `&` + rest of the literal
                pos = rng.randint(lit.start() + 2, lit.end() - 3)
                lines.append(rng.choice(["!$ ", " !$ "]) + txt[:pos] + "&")
                if rng.random() < 0.25:
                    lines.append("   ! comment between the halves of a literal")
                lines.append(rng.choice(["!$ &", "!$&", "!$   &"]) + txt[pos:])
            elif len(toks) > 4 and rng.random() < 0.6:
                npieces = 3 if len(toks) > 7 and rng.random() < 0.4 else 2
                cuts = sorted(rng.sample(range(1, len(toks)), npieces - 1))
                parts = [" ".join(toks[a:b]) for a, b in zip([0] + cuts, cuts + [len(toks)])]
                bad = False
                acc = ""
                for part in parts[:-1]:
                    acc += part
                    if acc.count("'") % 2 or acc.count('"') % 2:
                        bad = True
                if bad:
                    lines.append(rng.choice(["!$ ", "  !$ ", "!$  "]) + txt)
                else:
                    lines.append(rng.choice(["!$ ", " !$ "]) + parts[0] + " &")
                    for k, part in enumerate(parts[1:]):
                        r = rng.random()
                        if r < 0.2:
                            lines.append("   ! plain comment between continuation lines")
                        elif r < 0.3:
                            lines.append("")
                        lines.append(rng.choice(["!$ & ", "!$& ", "!$ ", "  !$   &"]) + part + (" &" if k < len(parts) - 2 else ""))
            else:
                lines.append(rng.choice(["!$ ", "  !$ ", "!$    "]) + txt)
        else:
            lines.append(pad + txt)
        if omp_lines and rng.random() < 0.1:
            lines.append(pad + rng.choice(["!$omp parallel do", "!$OMP END PARALLEL", "!$omp barrier"]))
    return "\n".join(lines) + "\n"


def fixed_text(p, S, rng):
    lines = []
    for st, d in layout.flat_with_depth(p):
        body = ""
        if st.cname:
            body += st.cname + ": "
        body += gen.join_natural(st.toks)
        lab = (st.label or "").rjust(5) if st.label else "     "
        chunks = []
        rest = body
        while len(rest) > 60:
            cut = 60
            while cut > 1 and rest[cut - 1] in " &":
                cut -= 1
            chunks.append(rest[:cut])
            rest = rest[cut:]
        chunks.append(rest)
        if st in S:
            sent = rng.choice(["!$", "c$", "*$", "C$"])
            # a label of the conditional statement stands in columns 3-5
            lines.append(sent + (st.label.rjust(3) if st.label else "   ") + " " + chunks[0])
            for c in chunks[1:]:
                lines.append(sent + "   " + rng.choice("&1+") + c)
        else:
            lines.append(lab + " " + chunks[0])
            for c in chunks[1:]:
                lines.append("     &" + c)
        if rng.random() < 0.08:
            lines.append(rng.choice(["!$omp parallel", "c$omp end parallel", "*$omp barrier"]))
    return "\n".join(lines) + "\n"


def minus(p, S):
    def rec(b):
        b.body = [x for x in b.body if not (isinstance(x, St) and x in S)]
        for x in b.body:
            if isinstance(x, Blk):
                rec(x)
    for u in p.units:
        rec(u)
    return p


def _parse_fmt(src, std, omp, isfree, isstrict):
    from fparser.common.sourceinfo import FortranFormat
    pr = real.get_parser(std)
    r = real.make_reader(src, ignore_comments=True, omp=omp)
    r.set_format(FortranFormat(isfree, isstrict))
    try:
        return real.Outcome("tree", tree=pr(r))
    except real.U.FortranSyntaxError as e:
        return real.Outcome("syntax", exc=e)
    except SystemExit as e:
        return real.Outcome("exit", exc=e)
    except Exception as e:  # noqa: BLE001
        return real.Outcome("other", exc=e)


def _strict(case, p, S, src, std, res):
    """strict fixed form: sentinel lines enabled must read like the statements themselves;
    reference = the same source without sentinels in the same (strict) mode"""
    plain = fixed_text(p, set(), random.Random(case["seed"] ^ 0xC15))
    ref = _parse_fmt(plain, std, False, False, True)
    res["counts"]["strict"] = 1
    if ref.kind != "tree":
        res["nontrivial"] = False
        return res
    o1 = _parse_fmt(src, std, True, False, True)
    rp = {"case": case, "source": src}
    if o1.kind != "tree":
        res["findings"].append({"signature": "enabled-reject[strict-fixed]:" + util.outcome_signature(o1),
                                "what": "strict fixed form, conditional lines enabled: rejected: %s" % str(o1.exc)[:200], "replay": rp})
    elif treeutil.sig(o1.tree) != treeutil.sig(ref.tree):
        d = treeutil.first_diff(treeutil.sig(ref.tree), treeutil.sig(o1.tree))
        res["findings"].append({"signature": "enabled-tree-differs[strict-fixed]", "what": "strict fixed form, enabled: tree differs from tree(P) at %s: %s vs %s" % d, "replay": rp})
    return res


def run_case(case):
    p = util.program_case(case)
    std, form = case["std"], case["form"]
    rng = random.Random(case["seed"] ^ 0xC15)
    res = {"key": [case["seed"], form], "counts": {"form:" + form: 1}, "findings": [], "nontrivial": False}
    o0 = real.try_parse(p.text(), std=std, free=True)
    if o0.kind != "tree":
        return res
    cand = candidates(p)
    if not cand:
        return res
    S = set(rng.sample(cand, rng.randint(1, min(6, len(cand)))))
    labelled = [x for x in cand if x.label]
    if labelled and rng.random() < 0.7:
        S.add(rng.choice(labelled))
    res["counts"]["labelled-sentinel-statements"] = sum(1 for x in S if x.label)
    free = form == "free"
    strict = bool(case.get("strict")) and not free
    src = free_text(p, S, rng) if free else fixed_text(p, S, rng)
    if strict:
        # strict fixed form (FortranFormat(False, True)): reader forced into that mode
        return run_strict(case, p, S, src, std, sigP, rng, res) if False else _strict(case, p, S, src, std, res)
    res["nontrivial"] = len(S) >= 2
    res["counts"]["sentinel-statements"] = len(S)
    res["sample"] = {"seed": case["seed"], "form": form, "S": [s.text()[:40] for s in list(S)[:3]]}
    rp = {"case": case, "source": src}
    sigP = treeutil.sig(o0.tree)
    # enabled
    via_file = case["seed"] % 4 == 2
    if via_file:
        # the same source read through a FortranFileReader (the option must reach it as well)
        import tempfile
        import os
        import shutil
        tmpd = tempfile.mkdtemp(prefix="fv_c15_")
        try:
            path = os.path.join(tmpd, "src.f90" if free else "src.f")
            with open(path, "w") as f_:
                f_.write(src)
            o1 = real.try_parse(None, std=std, omp=True, free=free, ignore_comments=True, path=path)
        finally:
            shutil.rmtree(tmpd, ignore_errors=True)
        res["counts"]["reader:file"] = 1
        form = form + "/file"
    else:
        o1 = real.try_parse(src, std=std, omp=True, free=free, ignore_comments=True)
    if o1.kind != "tree":
        res["findings"].append({"signature": "enabled-reject[%s]:%s" % (form, util.outcome_signature(o1)),
                                "what": "conditional lines enabled: rejected: %s" % str(o1.exc)[:200], "replay": rp})
    elif treeutil.sig(o1.tree) != sigP:
        d = treeutil.first_diff(sigP, treeutil.sig(o1.tree))
        res["findings"].append({"signature": "enabled-tree-differs[%s]" % form, "what": "enabled: tree differs from tree(P) at %s: %s vs %s" % d, "replay": rp})
    # disabled
    o2 = real.try_parse(src, std=std, omp=False, free=free, ignore_comments=True)
    q = minus(p, S)
    oq = real.try_parse(q.text(), std=std, free=True)
    if oq.kind == "tree":
        if o2.kind != "tree":
            res["findings"].append({"signature": "disabled-reject[%s]:%s" % (form, util.outcome_signature(o2)),
                                    "what": "conditional lines disabled: rejected: %s" % str(o2.exc)[:200], "replay": rp})
        elif treeutil.sig(o2.tree) != treeutil.sig(oq.tree):
            d = treeutil.first_diff(treeutil.sig(oq.tree), treeutil.sig(o2.tree))
            res["findings"].append({"signature": "disabled-tree-differs[%s]" % form, "what": "disabled: tree differs from tree(P minus S) at %s: %s vs %s" % d, "replay": rp})
    # the omp directives stay comments when comments are kept
    if "$omp" in src.lower():
        o3 = real.try_parse(src, std=std, omp=True, free=free, ignore_comments=False)
        if o3.kind == "tree":
            ncom = sum(1 for n in treeutil.all_nodes(o3.tree) if type(n).__name__ == "Comment" and "$omp" in n.items[0].lower())
            nsrc = sum(1 for l in src.split("\n") if "$omp" in l.lower())
            if ncom != nsrc:
                res["findings"].append({"signature": "omp-directive-not-comment[%s]" % form,
                                        "what": "%d '$omp' lines in source, %d Comment nodes" % (nsrc, ncom), "replay": rp})
    # reader model == real reader in both modes
    m = get_model()
    for omp in (True, False):
        c = {"src": src, "mode": form, "ic": True, "omp": omp, "pd": False, "dirs": [], "fs": [], "script": None, "feat": set()}
        d = CR.check_case(m, c)
        if d is not None:
            res["findings"].append({"signature": "correspondence:Fp.Reader", "no_input": True,
                                    "what": "reader model and real reader differ (omp=%s): %s" % (omp, str(d)[:300]), "replay": rp})
            break
    return res


def cases(tier, seed):
    n = util.tier_n(tier, 150, 1500)
    return [{"seed": s, "std": "f2008" if i % 3 else "f2003", "form": "fixed" if i % 3 == 2 else "free", "size": 0.8,
             "strict": i % 6 == 5}
            for i, s in enumerate(util.seeds(seed, n, 15))]


def run(tier, rep, st):
    engine.run_cases(__name__, cases(tier, rep.seed), rep)
