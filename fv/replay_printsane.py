"""Replay of the kernel witness `program_empty_witness` (Props/PrintSane.lean) on the real parser:
Program(reader) on an input without any statement returns a Program node with EMPTY content, which
prints as "" (BlockBase.tofortran: `if not self.content: return ""`).  Every other block class of a
parsed tree has a non-empty content (checked on a few sources here; the theorem covers all)."""
import sys
from fv import repo
repo.activate()
from fparser.two.parser import ParserFactory
from fparser.two.utils import BlockBase, walk
from fparser.common.readfortran import FortranStringReader

SPECIAL = ("Where_Construct", "If_Construct", "Case_Construct", "Block_Label_Do_Construct",
           "Action_Term_Do_Construct")

def main():
    ok = True
    for std in ("f2003", "f2008"):
        p = ParserFactory().create(std=std)
        for src, ign in [("", True), ("\n\n", True), ("! only a comment\n", True)]:
            t = p(FortranStringReader(src, ignore_comments=ign))
            empty = type(t).__name__ == "Program" and list(t.content) == [] and str(t) == ""
            print(std, repr(src), "ignore_comments=%s" % ign, "->", repr(t), "str=%r" % str(t),
                  "EMPTY Program" if empty else "")
            ok &= empty
        # comments kept: the comment is the content
        t = p(FortranStringReader("! only a comment\n", ignore_comments=False))
        print(std, "comment kept ->", repr(t))
        ok &= len(t.content) == 1
        src = ("subroutine s(a)\n integer a\n if (a>0) then\n a=1\n end if\n select case (a)\n end select\n"
               " where (b>0)\n end where\n do 10 i=1,2\n10 continue\n do 20 i=1,2\n do 20 j=1,2\n20 a=a+1\n"
               " type t\n integer x\n end type\nend subroutine\n")
        t = p(FortranStringReader(src, ignore_comments=False))
        for node in walk(t, BlockBase):
            n = len(node.content)
            name = type(node).__name__
            need = 2 if name in SPECIAL else 1
            print("  %-28s len(content)=%d (>= %d)" % (name, n, need))
            ok &= n >= need
    print("RESULT:", "PASS" if ok else "FAIL")
    return 0 if ok else 1

if __name__ == "__main__":
    sys.exit(main())
