import FparserModel.Wire
import FparserModel.Splitline
import FparserModel.SourceInfo
import FparserModel.Generated.TokenLex
/-!
driver commands of the tokeniser / format-detection slice (trusted glue, no theorems)

    splitquote  line stop lower      → stop' (kind text)*          kind = P | Q, stop = "" for None
    splitparen  line open close      → (kind text)*                kind = P | B (ParenString)
    srm         line lower [legacy|repaired] → status text applied (key value)*   status = ok | keyerror
    srcinfo     source               → free | fixed
    tokenlex    table-name           → mismatches total first-bad   (Generated/TokenLex tables)
-/
namespace FpDriver.Splitline
open Fp Fp.Wire Fp.Splitline

def ok (fs : List String) : String := "\t".intercalate ("OK" :: fs)

def stopOf (h : String) : Option Char := (decL h).head?
def flagOf (h : String) : Bool := dec h == "1"

def handle (cmd : String) (args : List String) : Option String :=
  match cmd, args with
  | "splitquote", [line, stop, lower] =>
    let r := splitquote (decL line) (stopOf stop) (flagOf lower)
    let segs := r.1.flatMap fun s =>
      match s with
      | .plain t => [enc "P", encL t]
      | .quoted t => [enc "Q", encL t]
    some (ok ((match r.2 with | some c => encL [c] | none => "") :: segs))
  | "splitparen", [line, po, pc] =>
    let o := decL po
    let c := decL pc
    if o.length != c.length then some ("ERR\t" ++ enc "AssertionError")
    else
      let r := splitparen (decL line) (o.zip c)
      some (ok (r.flatMap fun s =>
        match s with
        | .plain t => [enc "P", encL t]
        | .paren t => [enc "B", encL t]))
  | "srm", line :: lower :: disc =>
    let d := match disc.map dec with
      | ["repaired"] => Discipline.repaired
      | ["legacy"] => Discipline.legacy
      | _ => discipline
    match stringReplaceMapWith d (decL line) (flagOf lower) with
    | none => some (ok [enc "keyerror"])
    | some r =>
      some (ok (enc "ok" :: encL r.text :: encL (applyMap r.map r.text)
        :: r.map.flatMap fun kv => [encL kv.1, encL kv.2]))
  | "srcinfo", [src] =>
    some (ok [enc (if Fp.SourceInfo.detect (decL src) then "free" else "fixed")])
  | "tokenlex", [name] =>
    match Fp.TokenLex.check (dec name) with
    | some (bad, total, first) => some (ok [enc (toString bad), enc (toString total), enc first])
    | none => some ("ERR\t" ++ enc "unknown table")
  | _, _ => none

end FpDriver.Splitline
