import FparserModel.IoStmt
import FparserModel.Proofs.CombiBasic
import FparserModel.Proofs.SplitlineSrm2Found
/-!
Basic toolkit of the IoStmt proofs: the token text `toks`, the oracle hypotheses, inversion of
`runSlots`, "the string processing itself does not raise".
-/
namespace Fp.IoStmt
open Fp Fp.Splitline
open Fp.Combi (noBlank noBlank_append noBlank_strip noBlank_lstrip noBlank_rstrip noBlank_blanks)

variable {Node : Type}

/-! ## the blank- and case-insensitive token text -/

/-- THE tokenisation of the `*_tostr_match_tokens` theorems: white space deleted, letters folded
    to upper case.  Two texts with the same `toks` have the same characters in the same order up
    to blanks and the case of letters: nothing dropped, nothing invented, order kept. -/
def toks (s : Str) : Str := upper (noBlank s)

theorem upper_append (a b : Str) : upper (a ++ b) = upper a ++ upper b := by simp [upper]

theorem toks_append (a b : Str) : toks (a ++ b) = toks a ++ toks b := by
  simp [toks, noBlank_append, upper_append]

theorem toks_nil : toks [] = [] := rfl

theorem toks_cons (c : Char) (s : Str) : toks (c :: s) = toks [c] ++ toks s := by
  rw [← toks_append]; rfl

theorem toks_strip (s : Str) : toks (strip s) = toks s := by simp [toks, noBlank_strip]
theorem toks_lstrip (s : Str) : toks (lstrip s) = toks s := by simp [toks, noBlank_lstrip]
theorem toks_rstrip (s : Str) : toks (rstrip s) = toks s := by simp [toks, noBlank_rstrip]

theorem toks_blanks {w : Str} (h : ∀ c ∈ w, isSpace c = true) : toks w = [] := by
  simp [toks, noBlank_blanks h, upper]

theorem toks_of_noBlank {a b : Str} (h : noBlank a = noBlank b) : toks a = toks b := by
  simp [toks, h]

theorem upperC_space (c : Char) : isSpace (upperC c) = isSpace c := by
  unfold upperC
  split
  · rename_i h
    have h1 : isSpace c = false := by
      obtain ⟨n, hn⟩ : ∃ n, c.toNat = n := ⟨_, rfl⟩
      have : ∀ d : Char, 'a' ≤ d ∧ d ≤ 'z' → isSpace d = false := by
        intro d hd
        have h1 : 97 ≤ d.toNat := hd.1
        have h2 : d.toNat ≤ 122 := hd.2
        simp only [isSpace, Bool.or_eq_false_iff, beq_eq_false_iff_ne, ne_eq]
        refine ⟨⟨⟨⟨⟨⟨⟨⟨⟨?_, ?_⟩, ?_⟩, ?_⟩, ?_⟩, ?_⟩, ?_⟩, ?_⟩, ?_⟩, ?_⟩ <;>
          (intro e; subst e; revert h1 h2; decide)
      exact this c h
    have h2 : isSpace (Char.ofNat (c.toNat - 32)) = false := by
      have h1' : 97 ≤ c.toNat := h.1
      have h2' : c.toNat ≤ 122 := h.2
      have aux : ∀ m, m < 91 → 65 ≤ m → isSpace (Char.ofNat m) = false := by decide
      exact aux _ (by omega) (by omega)
    rw [h1, h2]
  · rfl

/-- upper-casing commutes with deleting blanks -/
theorem noBlank_upper (s : Str) : noBlank (upper s) = upper (noBlank s) := by
  induction s with
  | nil => rfl
  | cons c cs ih =>
    simp only [upper, List.map_cons, noBlank, List.filter_cons, upperC_space] at ih ⊢
    split
    · simp [ih]
    · exact ih

theorem toks_upper (s : Str) : toks (upper s) = toks s := by
  simp [toks, noBlank_upper, Fp.Norm.upper_idem]

/-- a keyword prefix: `string[:n].upper() == KW` means the text starts with the keyword up to case -/
theorem toks_of_kwIs {kw s : Str} (h : kwIs kw s = true) :
    toks s = toks kw ++ toks (s.drop kw.length) := by
  have h1 : upper (s.take kw.length) = kw := by simpa [kwIs] using h
  conv => lhs; rw [← List.take_append_drop kw.length s]
  rw [toks_append, ← toks_upper (s.take kw.length), h1]

/-! ## parentheses -/

/-- `(` counts +1, `)` counts -1 -/
def net : Str → Int
  | [] => 0
  | c :: cs => (if c == '(' then 1 else if c == ')' then -1 else 0) + net cs

theorem net_append (a b : Str) : net (a ++ b) = net a + net b := by
  induction a with
  | nil => simp [net]
  | cons c cs ih => simp [net, ih]; omega

theorem upperC_paren (c : Char) : (upperC c == '(') = (c == '(') ∧ (upperC c == ')') = (c == ')') := by
  unfold upperC
  split
  · rename_i h
    have h1' : 97 ≤ c.toNat := h.1
    have h2' : c.toNat ≤ 122 := h.2
    have a1 : (c == '(') = false := by
      simp only [beq_eq_false_iff_ne, ne_eq]; intro e; subst e; revert h1'; decide
    have a2 : (c == ')') = false := by
      simp only [beq_eq_false_iff_ne, ne_eq]; intro e; subst e; revert h1'; decide
    have aux : ∀ m, m < 91 → 65 ≤ m → (Char.ofNat m == '(') = false ∧ (Char.ofNat m == ')') = false := by
      decide
    have := aux (c.toNat - 32) (by omega) (by omega)
    rw [a1, a2, this.1, this.2]; exact ⟨rfl, rfl⟩
  · exact ⟨rfl, rfl⟩

/-- the parenthesis balance is a function of the token text -/
theorem net_toks (s : Str) : net (toks s) = net s := by
  induction s with
  | nil => rfl
  | cons c cs ih =>
    unfold toks at ih ⊢
    simp only [noBlank, List.filter_cons]
    split
    · simp only [upper, List.map_cons, net, (upperC_paren c).1, (upperC_paren c).2]
      simp only [upper, noBlank] at ih
      rw [ih]
    · rename_i hsp
      have hsp' : isSpace c = true := by simpa using hsp
      have h1 : (c == '(') = false := by
        simp only [beq_eq_false_iff_ne, ne_eq]; intro e; subst e; revert hsp'; decide
      have h2 : (c == ')') = false := by
        simp only [beq_eq_false_iff_ne, ne_eq]; intro e; subst e; revert hsp'; decide
      simp only [net, h1, h2]
      simp only [noBlank] at ih
      rw [ih]; simp

theorem net_eq_of_toks {a b : Str} (h : toks a = toks b) : net a = net b := by
  rw [← net_toks a, ← net_toks b, h]

/-! ## oracle hypotheses -/

/-- the children keep the tokens of the text they accept (what the `*_tostr_match_tokens`
    theorems of the child classes state) -/
def OracleTok (o : Oracle Node) : Prop :=
  ∀ c t n, o.call c t = .ok n → toks (o.str n) = toks t

/-- the children do not let an exception escape -/
def OracleTotal (o : Oracle Node) : Prop := ∀ c t e, o.call c t ≠ .raises e

/-- the children re-match from their printed text -/
def OracleRT (o : Oracle Node) (c : ClassId) (n : Node) : Prop := o.call c (o.str n) = .ok n

/-! ## `Res` -/

@[simp] theorem Res.bind_ok {α β : Type} (a : α) (f : α → Res β) : (Res.ok a).bind f = f a := rfl
@[simp] theorem Res.bind_noMatch {α β : Type} (f : α → Res β) : (Res.noMatch : Res α).bind f = .noMatch := rfl
@[simp] theorem Res.bind_raises {α β : Type} (e : Exc) (f : α → Res β) :
    (Res.raises e : Res α).bind f = .raises e := rfl
@[simp] theorem Res.map_ok {α β : Type} (a : α) (f : α → β) : (Res.ok a).map f = .ok (f a) := rfl
@[simp] theorem Res.map_noMatch {α β : Type} (f : α → β) : (Res.noMatch : Res α).map f = .noMatch := rfl
@[simp] theorem Res.map_raises {α β : Type} (e : Exc) (f : α → β) :
    (Res.raises e : Res α).map f = .raises e := rfl

theorem Res.bind_eq_ok {α β : Type} {x : Res α} {f : α → Res β} {b : β} (h : x.bind f = .ok b) :
    ∃ a, x = .ok a ∧ f a = .ok b := by
  cases x with
  | ok a => exact ⟨a, rfl, h⟩
  | noMatch => cases h
  | raises e => cases h

theorem Res.map_eq_ok {α β : Type} {x : Res α} {f : α → β} {b : β} (h : x.map f = .ok b) :
    ∃ a, x = .ok a ∧ f a = b := by
  cases x with
  | ok a => exact ⟨a, rfl, by simpa [Res.map] using h⟩
  | noMatch => cases h
  | raises e => cases h

theorem Res.bind_eq_raises {α β : Type} {x : Res α} {f : α → Res β} {e : Exc}
    (h : x.bind f = .raises e) : x = .raises e ∨ ∃ a, x = .ok a ∧ f a = .raises e := by
  cases x with
  | ok a => exact .inr ⟨a, rfl, h⟩
  | noMatch => cases h
  | raises e' => exact .inl (by simpa using h)

theorem Res.map_eq_raises {α β : Type} {x : Res α} {f : α → β} {e : Exc}
    (h : x.map f = .raises e) : x = .raises e := by
  cases x with
  | ok a => cases h
  | noMatch => cases h
  | raises e' => simpa using h

/-- `tok` raises only the `KeyError` of `string_replace_map` -/
theorem tok_raises {l : Str} {e : Exc} (h : tok l = .raises e) :
    e = .keyError ∧ Combi.tokenise l = none := by
  unfold tok at h
  split at h
  · cases h
  · rename_i hn; cases h; exact ⟨rfl, hn⟩

theorem tok_ok {l : Str} {r : SrmResult} (h : tok l = .ok r) : Combi.tokenise l = some r := by
  unfold tok at h
  split at h
  · rename_i r' hr; cases h; exact hr
  · cases h

theorem tok_ne_noMatch (l : Str) : tok l ≠ .noMatch := by
  unfold tok; split <;> simp

/-! ## `runSlots` inversion -/

theorem runSlots_nil (o : Oracle Node) : runSlots o [] = .ok [] := rfl

theorem runSlots_cons_ok {o : Oracle Node} {s : Slot} {ss : List Slot} {items : List (Item Node)}
    (h : runSlots o (s :: ss) = .ok items) :
    ∃ i is, items = i :: is ∧ runSlot o s = .ok i ∧ runSlots o ss = .ok is := by
  simp only [runSlots] at h
  split at h
  · rename_i i hi
    split at h
    · rename_i is his
      cases h
      exact ⟨i, is, rfl, hi, his⟩
    · cases h
    · cases h
  · cases h
  · cases h

theorem runSlots_nil_ok {o : Oracle Node} {items : List (Item Node)} (h : runSlots o [] = .ok items) :
    items = [] := by cases h; rfl

theorem runSlot_none_ok {o : Oracle Node} {i : Item Node} (h : runSlot o .none = .ok i) : i = .none := by
  cases h; rfl

theorem runSlot_str_ok {o : Oracle Node} {t : Str} {i : Item Node} (h : runSlot o (.str t) = .ok i) :
    i = .str t := by cases h; rfl

theorem runSlot_child_ok {o : Oracle Node} {c : ClassId} {t : Str} {i : Item Node}
    (h : runSlot o (.child c t) = .ok i) : ∃ n, i = .node n ∧ o.call c t = .ok n := by
  simp only [runSlot] at h
  obtain ⟨n, h1, h2⟩ := Res.map_eq_ok h
  exact ⟨n, h2.symm, h1⟩

theorem runSlot_fail (o : Oracle Node) (i : Item Node) : runSlot o .fail ≠ .ok i := by simp [runSlot]
theorem runSlot_raise (o : Oracle Node) (e : Exc) (i : Item Node) : runSlot o (.raise e) ≠ .ok i := by
  simp [runSlot]

/-- an exception escaping from `runSlots` was raised by a child or is an explicit `Slot.raise` -/
theorem runSlots_raises {o : Oracle Node} {slots : List Slot} {e : Exc}
    (h : runSlots o slots = .raises e) :
    Slot.raise e ∈ slots ∨ ∃ c t, Slot.child c t ∈ slots ∧ o.call c t = .raises e := by
  induction slots with
  | nil => cases h
  | cons s ss ih =>
    simp only [runSlots] at h
    split at h
    · split at h
      · cases h
      · cases h
      · rename_i e' he'
        cases h
        rcases ih he' with h1 | ⟨c, t, h1, h2⟩
        · exact .inl (List.mem_cons_of_mem _ h1)
        · exact .inr ⟨c, t, List.mem_cons_of_mem _ h1, h2⟩
    · cases h
    · rename_i e' he'
      cases h
      cases s with
      | none => cases he'
      | str t => cases he'
      | child c t =>
        simp only [runSlot] at he'
        exact .inr ⟨c, t, by simp, Res.map_eq_raises he'⟩
      | fail => cases he'
      | raise e'' =>
        simp only [runSlot] at he'
        cases he'
        exact .inl (by simp)

/-- the text printed for the item of a child slot keeps the tokens of the text handed over -/
theorem toks_item_of_child {o : Oracle Node} (ho : OracleTok o) {c : ClassId} {t : Str} {i : Item Node}
    (h : runSlot o (.child c t) = .ok i) : toks (i.text o) = toks t := by
  obtain ⟨n, rfl, hn⟩ := runSlot_child_ok h
  exact ho c t n hn

/-! ## the tokeniser hypotheses -/

/-- the two decidable hypotheses of `srm_roundtrip_partial` (Props/SplitlineSrm2.lean) on the text
    handed to `string_replace_map`: no `F2PY` in it, and no exponent constant found by the second
    loop ends in `_`, `F`, `F2`, `F2P` -/
def SrmOK (l : Str) : Prop :=
  Free l ∧ FoundsEndOK (expConsts (phase1Text discipline l false))

instance (l : Str) : Decidable (SrmOK l) := by unfold SrmOK; exact inferInstance

end Fp.IoStmt
