import FparserModel.Proofs.Tree3Last
import FparserModel.Proofs.Tree3CopyTree
import FparserModel.Proofs.Tree3Build
import FparserModel.Props.Tree2
import FparserModel.Generated.Tree3Proto
/-!
# C10 / C18, third part: the construction discipline and copies started anywhere

* `BottomUp evs root` (FparserModel/Tree3.lean) - the event history obeys the construction
  discipline of `Base.__new__` (incl. the re-use of cached statement objects after an
  abandoned block attempt and the one "steal" of `Equivalence_Set.match`) and `root` is a
  live parentless object at the end.  It is a decidable predicate (a checker), co-simulated
  against the recorded real histories by `fv/cosim_tree3.py`.
* From it, WITHOUT further hypotheses: the tree below `root` is well formed.
* `deepcopy` / `pickle` started at ANY node of a well-formed tree copy the WHOLE tree.
-/
namespace Fp.Tree3
open Fp.Tree

/-! ## C10: the discipline implies a well-formed tree -/

/-- **bottomup_parents_consistent** (C10) - the hypotheses `LastAttachedBy` / `LastReset` of
    `parents_consistent` are now DERIVED: for every history that obeys the construction
    discipline, every node `n` listed (through nested tuples / lists) by a container `c`
    reachable from the root has `n.parent is c`, that assignment is the last one that touched
    `n.parent` (`LastAttachedBy`), `root.parent is None`; i.e. the arena is a well-formed tree
    (`TreeWF`). -/
theorem bottomup_parents_consistent (evs : List Ev) (root : Nat) (h : BottomUp evs root) :
    TreeWF (run [] evs) root
    ∧ (∀ c nd n, Reach (run [] evs) root c → (run [] evs)[c]? = some nd → n ∈ spList nd.children →
        parentOf (run [] evs) n = some c ∧ LastAttachedBy evs n c)
    ∧ parentOf (run [] evs) root = none := by
  obtain ⟨s, inv, ha, hr, hp, hd⟩ := bottomUp_inv h
  have wf : TreeWF s.a root := treeWF inv hr hp hd
  rw [ha] at wf
  refine ⟨wf, fun c nd n hc hnd hn => ?_, wf.root_parent⟩
  have := wf.parent_ok c nd n hc hnd hn
  exact ⟨this, lastAttachedBy_of_parent evs n c this⟩

/-- **bottomup_no_shared_node** (C10): under the discipline the finite unfolding of the arena
    below the root exists (no cycle, no dangling id), its pre-order lists no node twice, no
    container lists a node twice, and no node is listed by two containers of the tree. -/
theorem bottomup_no_shared_node (evs : List Ev) (root : Nat) (h : BottomUp evs root) :
    ∃ t, absNode (run [] evs) (root + 1) root = some t ∧ t.pre.Nodup
      ∧ (∀ c nd, Reach (run [] evs) root c → (run [] evs)[c]? = some nd → (spList nd.children).Nodup)
      ∧ (∀ c1 c2 nd1 nd2 n, Reach (run [] evs) root c1 → Reach (run [] evs) root c2 →
          (run [] evs)[c1]? = some nd1 → (run [] evs)[c2]? = some nd2 →
          n ∈ spList nd1.children → n ∈ spList nd2.children → c1 = c2) := by
  obtain ⟨s, inv, ha, hr, hp, hd⟩ := bottomUp_inv h
  have wf : TreeWF s.a root := treeWF inv hr hp hd
  obtain ⟨t, ht⟩ := abs_exists inv hr hp hd (root + 1) root (by omega) .refl
  rw [ha] at wf ht
  refine ⟨t, ht, wf_pre_nodup _ root _ t wf ht, wf.kids_nodup, ?_⟩
  intro c1 c2 nd1 nd2 n h1 h2 g1 g2 m1 m2
  have e1 := wf.parent_ok c1 nd1 n h1 g1 m1
  have e2 := wf.parent_ok c2 nd2 n h2 g2 m2
  rw [e1] at e2
  exact Option.some.inj e2

/-- **bottomup_get_root** (C10): `get_root()` of every node of the tree is the root (the
    `while current.parent` loop terminates: parents are younger objects). -/
theorem bottomup_get_root (evs : List Ev) (root : Nat) (h : BottomUp evs root) :
    ∀ n, Reach (run [] evs) root n → getRoot (run [] evs) n = some root := by
  obtain ⟨s, inv, ha, hr, hp, hd⟩ := bottomUp_inv h
  intro n hn
  rw [← ha] at hn ⊢
  obtain ⟨k, hch, hk⟩ := up_chain inv hr hp hd n hn
  exact getRootF_of_chain _ n root k hch _ (by omega)

/-- **bottomup_walk** (C10): under the discipline `walk(root)` visits every node of the tree
    exactly once, in left-to-right pre-order. -/
theorem bottomup_walk (evs : List Ev) (root : Nat) (h : BottomUp evs root) :
    ∃ t, absNode (run [] evs) (root + 1) root = some t
      ∧ walkIds (run [] evs) root = t.pre ∧ (walkIds (run [] evs) root).Nodup
      ∧ ∀ n, n ∈ walkIds (run [] evs) root ↔ Reach (run [] evs) root n := by
  obtain ⟨t, ht, _⟩ := bottomup_no_shared_node evs root h
  exact ⟨t, ht, walk_preorder _ root _ t ht (bottomup_parents_consistent evs root h).1⟩

/-- **build_bottomUp** (C10): the ordinary construction of ANY term - children first, left to
    right, each by its own `__new__`/`__init__`; then `object.__new__`, `_set_parent(obj, result)`,
    `obj.init(*result)`, `__init__` of the container (`build`, FparserModel/Tree3.lean) - obeys
    the discipline, with the last object as root; hence its arena is a well-formed tree. -/
theorem build_bottomUp (t : Term) :
    BottomUp (build 0 t) (t.size - 1) ∧ TreeWF (run [] (build 0 t)) (t.size - 1) :=
  ⟨build_bottomUp' t, (bottomup_parents_consistent _ _ (build_bottomUp' t)).1⟩

/-- `build` on `c9(c1, c5(c2, c3), c4)`: the events, and the resulting walk -/
example :
    let t : Term := .mk 9 [.mk 1 [], .mk 5 [.mk 2 [], .mk 3 []], .mk 4 []]
    (build 0 t).length = 24 ∧ t.size - 1 = 5 ∧ walkIds (run [] (build 0 t)) 5 = [5, 0, 3, 1, 2, 4]
    ∧ (List.range 6).map (parentOf (run [] (build 0 t))) = [some 5, some 3, some 3, some 5, some 5, none] := by
  refine ⟨by decide, by decide, by decide, by decide⟩

/-! ### non-vacuity: histories shaped like the real ones -/

/-- `x = 1` inside `program p … end program p`, the ordinary construction: children first,
    then `alloc`, `attach`, `children`, `reset` of the container (ids = order of first sight) -/
def hPlain : List Ev :=
  [.alloc 1, .children 0 [.str "p"], .reset 0,                       -- Name
   .alloc 2, .attach 1 [.str "PROGRAM", .node 0], .children 1 [.str "PROGRAM", .node 0], .reset 1,
   .reset 1,                                                         -- delegation chain: `__init__` twice
   .alloc 1, .reset 2, .alloc 3, .reset 3,
   .alloc 4, .attach 4 [.node 2, .str "=", .node 3], .children 4 [.node 2, .str "=", .node 3], .reset 4,
   .alloc 5, .reset 5,
   .alloc 6, .attach 6 [.lst [.node 1, .node 4, .node 5]], .children 6 [.node 1, .node 4, .node 5], .reset 6]

example : BottomUp hPlain 6 := by decide

/-- re-use (`p31`: `do 10 … / b1: block … end block b1 / 10 x = 1`): the BLOCK construct 3 is
    built inside an attempt that is then abandoned; the cached statement objects 1, 2 are handed
    out again (`reset`) and a new container 4 attaches them.  3 is dead; the tree below 5 is fine. -/
def hReuse : List Ev :=
  [.alloc 10, .reset 0, .alloc 11, .reset 1, .alloc 12, .reset 2,
   .alloc 20, .attach 3 [.lst [.node 1, .node 2]], .children 3 [.node 1, .node 2], .reset 3,
   -- the attempt holding 3 is abandoned; re-parse
   .reset 1, .reset 2,
   .alloc 20, .attach 4 [.lst [.node 1, .node 2]], .children 4 [.node 1, .node 2], .reset 4,
   .alloc 30, .attach 5 [.lst [.node 0, .node 4]], .children 5 [.node 0, .node 4], .reset 5]

example : BottomUp hReuse 5 ∧ ¬ BottomUp hReuse 3
    ∧ walkIds (run [] hReuse) 5 = [5, 0, 4, 1, 2]
    ∧ (List.range 6).map (parentOf (run [] hReuse)) = [some 5, some 4, some 4, none, some 5, none] := by
  refine ⟨by decide, by decide, by decide, by decide⟩

/-- steal (`Equivalence_Set.match`): `tmp = Equivalence_Object_List(line)` (node 2 = `[n0, n1]`),
    `obj = tmp.items[0]; tmp.items = tmp.items[1:]` (children event), `return obj, tmp`. -/
def hSteal : List Ev :=
  [.alloc 1, .reset 0, .alloc 1, .reset 1,
   .alloc 2, .attach 2 [.str ",", .tup [.node 0, .node 1]], .children 2 [.node 0, .node 1], .reset 2,
   .children 2 [.node 1],
   .alloc 3, .attach 3 [.node 0, .node 2], .children 3 [.node 0, .node 2], .reset 3]

example : BottomUp hSteal 3 ∧ walkIds (run [] hSteal) 3 = [3, 0, 2, 1] := by
  refine ⟨by decide, by decide⟩

/-! ### what the discipline rules out (each is a history the checker rejects, with the index of
    the first offending event, and the damage in the final arena) -/

def firstBad (evs : List Ev) : Option Nat := (buFirstBad {} 0 evs).map (·.1)

/-- (a) a combinator re-using ONE node object for two list entries (`SequenceBase.match`
    caching textually equal entries; `Program.match` appending a unit object twice): the
    attach lists node 0 twice; `walk` visits it twice. -/
theorem shared_entry_witness :
    let evs : List Ev := [.alloc 1, .reset 0, .alloc 2, .attach 1 [.str ",", .tup [.node 0, .node 0]],
                          .children 1 [.node 0, .node 0], .reset 1]
    firstBad evs = some 3 ∧ ¬ BottomUp evs 1 ∧ walkIds (run [] evs) 1 = [1, 0, 0] := by
  refine ⟨by decide, by decide, by decide⟩

/-- (b) the history of `stale_parent_witness` (Props/Tree.lean): node 0, listed by container 1
    of the final tree, is attached LATER by an abandoned container 2 without having been
    released: rejected at that attach (event 7); in the final arena `0.parent` is 2. -/
theorem stale_parent_rejected :
    let evs : List Ev := [.alloc 0, .reset 0, .alloc 1, .reset 1, .attach 1 [.node 0],
                          .children 1 [.node 0],
                          .alloc 2, .attach 2 [.tup [.node 0, .none]], .reset 2]
    firstBad evs = some 7 ∧ ¬ BottomUp evs 1 ∧ parentOf (run [] evs) 0 = some 2 := by
  refine ⟨by decide, by decide, by decide⟩

/-- (c) a re-used statement object whose OLD container stays in the tree (a cache hit without
    the abandonment): container 1 keeps listing node 0 although `0.parent` is 2; the root 3
    lists the dead container 1: rejected at the attach of the root (event 12). -/
theorem reuse_keeps_old_container_rejected :
    let evs : List Ev := [.alloc 0, .reset 0, .alloc 1, .attach 1 [.node 0], .children 1 [.node 0], .reset 1,
                          .reset 0, .alloc 1, .attach 2 [.node 0], .children 2 [.node 0], .reset 2,
                          .alloc 2, .attach 3 [.lst [.node 1, .node 2]], .children 3 [.node 1, .node 2], .reset 3]
    firstBad evs = some 12 ∧ ¬ BottomUp evs 3
    ∧ spList (((run [] evs)[1]?).map (·.children) |>.getD []) = [0] ∧ parentOf (run [] evs) 0 = some 2 := by
  refine ⟨by decide, by decide, by decide, by decide⟩

/-- (d) `init` storing a node that `_set_parent` never saw (children not attached) -/
theorem unattached_child_rejected :
    let evs : List Ev := [.alloc 0, .reset 0, .alloc 1, .attach 1 [.str "x"], .children 1 [.node 0], .reset 1]
    firstBad evs = some 4 ∧ parentOf (run [] evs) 0 = none := by
  refine ⟨by decide, by decide⟩

/-- (e) a second `_set_parent` on a container that already has children (children attached
    after construction) -/
theorem late_attach_rejected :
    let evs : List Ev := [.alloc 0, .reset 0, .alloc 0, .reset 1, .alloc 1, .attach 2 [.node 0],
                          .children 2 [.node 0], .reset 2, .attach 2 [.node 1]]
    firstBad evs = some 8 := by
  decide

/-! ## C18: copies started at any node -/

/-- **deepcopy_inner_iso** (C18) - removes the restriction of `deepcopy_iso` to the root.
    For a well-formed tree all of whose classes support the protocol and ANY node `n` of it:
    `copy.deepcopy(n)` succeeds (the copy runs up the `parent` links and down again; the
    built-in fuel is enough); the copy of `n` is the first new object; exactly one new object
    per node of the WHOLE tree is allocated; the original objects are unchanged; the copy `φ m`
    of every node `m` has the class and the child sequence of `m` with every node renamed by
    `φ`, and `parent` = the copy of `m.parent`; `φ` is injective with fresh values (id-disjoint);
    the copy is again a well-formed tree of the same shape (`t.mapIds φ`), `walk` of the copied
    root lists the copies in the original order, and the copy of `n` is in it. -/
theorem deepcopy_inner_iso (facts : Nat → CopyFacts) (a : Arena) (root h : Nat) (t : RTree)
    (ht : absNode a h root = some t) (wf : TreeWF a root)
    (hok : ∀ n ∈ t.pre, ∀ nd, a[n]? = some nd → (facts nd.cls).ok = true)
    (n : Nat) (hn : n ∈ t.pre) :
    ∃ a' φ, deepcopy facts a n = .ok (a', φ n) ∧ φ n = a.length
      ∧ a'.length = a.length + t.pre.length
      ∧ (∀ i, i < a.length → a'[i]? = a[i]?)
      ∧ (∀ m ∈ t.pre, ∀ nd, a[m]? = some nd → a'[φ m]? = some (expNode φ nd))
      ∧ (∀ m ∈ t.pre, a.length ≤ φ m ∧ φ m < a'.length)
      ∧ (∀ m1 ∈ t.pre, ∀ m2 ∈ t.pre, φ m1 = φ m2 → m1 = m2)
      ∧ (∀ m ∈ t.pre, parentOf a' (φ m) = (parentOf a m).map φ)
      ∧ absNode a' h (φ root) = some (t.mapIds φ)
      ∧ TreeWF a' (φ root)
      ∧ walkIds a' (φ root) = t.pre.map φ
      ∧ Reach a' (φ root) (φ n) := by
  obtain ⟨st, core⟩ := copy_tree_core facts a root h t ht wf hok n hn
  have hent : ∀ m ∈ t.pre, ∀ nd, a[m]? = some nd →
      (a ++ st.out)[phi st.memo m]? = some (expNode (phi st.memo) nd) := by
    intro m hm nd hnd
    obtain ⟨i, _, hphi, hfill⟩ := core.cover m hm
    rw [hphi, List.getElem?_append_right (by omega)]
    simpa using hfill nd hnd
  have hrange : ∀ m ∈ t.pre, a.length ≤ phi st.memo m ∧ phi st.memo m < (a ++ st.out).length := by
    intro m hm
    obtain ⟨i, hi, hphi, _⟩ := core.cover m hm
    have := (List.getElem?_eq_some_iff.1 hi).1
    rw [hphi, List.length_append, core.lenO, ← core.lenM]
    omega
  have hinj : ∀ m1 ∈ t.pre, ∀ m2 ∈ t.pre, phi st.memo m1 = phi st.memo m2 → m1 = m2 := by
    intro m1 h1 m2 h2 he
    obtain ⟨i1, g1, p1, _⟩ := core.cover m1 h1
    obtain ⟨i2, g2, p2, _⟩ := core.cover m2 h2
    have : i1 = i2 := by omega
    subst this
    rw [g1] at g2
    simpa using g2
  obtain ⟨hpar, habs, hwf, hwalk⟩ := copy_tree_of_entries a (a ++ st.out) (phi st.memo) root h t ht wf hent hinj
  refine ⟨a ++ st.out, phi st.memo, ?_, core.start, by simp [core.lenO],
    fun i hi => List.getElem?_append_left hi, hent, hrange, hinj, hpar, habs, hwf, hwalk, ?_⟩
  · unfold deepcopy
    simp only [core.run, core.start]
  · have : phi st.memo n ∈ (t.mapIds (phi st.memo)).pre := by
      rw [pre_mapIds]; exact List.mem_map.2 ⟨n, hn, rfl⟩
    exact pre_reach _ h _ _ habs _ this

/-- `pickleRoundTrip` succeeds only with the result of `deepcopy` (any arena, any start) -/
theorem pickle_ok_imp_deepcopy (facts : Nat → CopyFacts) (a : Arena) (n : Nat) (r : Arena × Nat)
    (h : pickleRoundTrip facts a n = .ok r) : deepcopy facts a n = .ok r := by
  unfold pickleRoundTrip at h
  split at h
  · cases h
  · exact h

/-- **pickle_eq_deepcopy** (C18): on a well-formed tree whose classes support the protocol the
    two protocols coincide, from every start node: `pickle.loads(pickle.dumps(n))` yields
    exactly the arena and the id that `copy.deepcopy(n)` yields.  (The only difference between
    the two is the ORDER OF FAILURES when a class does not support the protocol: `dumps` calls
    every `__getnewargs__` before the first `__new__` - `pickle_differs_witness`.) -/
theorem pickle_eq_deepcopy (facts : Nat → CopyFacts) (a : Arena) (root h : Nat) (t : RTree)
    (ht : absNode a h root = some t) (wf : TreeWF a root)
    (hok : ∀ n ∈ t.pre, ∀ nd, a[n]? = some nd → (facts nd.cls).ok = true)
    (n : Nat) (hn : n ∈ t.pre) :
    pickleRoundTrip facts a n = deepcopy facts a n := by
  have hok' : ∀ n ∈ t.pre, ∀ nd, a[n]? = some nd →
      ((fun c => { facts c with newAccepts := true }) nd.cls).ok = true := by
    intro m hm nd hnd
    have := hok m hm nd hnd
    unfold CopyFacts.ok at this ⊢
    simp only [Bool.and_eq_true] at this
    simp [this.1]
  obtain ⟨a1, φ1, h1, _⟩ := deepcopy_inner_iso (fun c => { facts c with newAccepts := true }) a root h t ht wf hok' n hn
  unfold pickleRoundTrip
  simp only [h1]

/-- the exact difference: with a class that has no `.string` (10) and one whose `__new__`
    rejects the arguments (11), started at node 1: `deepcopy` fails at the first bad object in
    copy order (`TypeError`), `pickle` reports the missing `.string` (`AttributeError`). -/
theorem pickle_differs_witness :
    errOf (deepcopy cpBad cpA 1) = some (.newRejects 11)
    ∧ errOf (pickleRoundTrip cpBad cpA 1) = some (.noString 10) := by
  refine ⟨by decide, by decide⟩

/-- **copy_preserves_labels** (C18): with the reader items in the state, `copy.deepcopy(n)`
    (`deepcopy3`; its arena and id are those of `deepcopy`) gives every copy the label and the
    construct name of its original, leaves the originals' items alone, and the labels / names
    met by `walk` of the copied root are those met by `walk` of the original root, in order. -/
theorem copy_preserves_labels (facts : Nat → CopyFacts) (T : T3) (root h : Nat) (t : RTree)
    (ht : absNode T.a h root = some t) (wf : TreeWF T.a root)
    (hok : ∀ n ∈ t.pre, ∀ nd, T.a[n]? = some nd → (facts nd.cls).ok = true)
    (n : Nat) (hn : n ∈ t.pre) :
    ∃ T' memo, deepcopy3 facts T n = .ok (T', phi memo n, memo)
      ∧ deepcopy facts T.a n = .ok (T'.a, phi memo n)
      ∧ (∀ i, i < T.a.length → infoOf T'.inf i = infoOf T.inf i)
      ∧ (∀ m ∈ t.pre, infoOf T'.inf (phi memo m) = infoOf T.inf m)
      ∧ walkInfos T' (phi memo root) = walkInfos T root := by
  obtain ⟨st, core⟩ := copy_tree_core facts T.a root h t ht wf hok n hn
  have hd' : deepcopy facts T.a n = .ok (T.a ++ st.out, phi st.memo n) := by
    unfold deepcopy; simp only [core.run, core.start]
  have hinf : ∀ m ∈ t.pre,
      infoOf ((List.range T.a.length).map (infoOf T.inf) ++ st.memo.map (fun p => infoOf T.inf p.1))
        (phi st.memo m) = infoOf T.inf m := by
    intro m hm
    obtain ⟨i, hi, hphi, _⟩ := core.cover m hm
    rw [hphi]
    unfold infoOf
    rw [List.getElem?_append_right (by simp)]
    simp [hi]
  refine ⟨⟨T.a ++ st.out, (List.range T.a.length).map (infoOf T.inf) ++ st.memo.map (fun p => infoOf T.inf p.1)⟩,
    st.memo, ?_, hd', ?_, hinf, ?_⟩
  · unfold deepcopy3
    simp only [core.run, core.start]
  · intro i hi
    show infoOf (_ ++ _) i = _
    unfold infoOf
    rw [List.getElem?_append_left (by simpa using hi)]
    simp [hi]
  · have hwalk2 := (copy_tree_of_entries T.a (T.a ++ st.out) (phi st.memo) root h t ht wf
      (fun m hm nd hnd => by
        obtain ⟨i, _, hphi, hfill⟩ := core.cover m hm
        rw [hphi, List.getElem?_append_right (by omega)]
        simpa using hfill nd hnd)
      (fun m1 h1 m2 h2 he => by
        obtain ⟨i1, g1, p1, _⟩ := core.cover m1 h1
        obtain ⟨i2, g2, p2, _⟩ := core.cover m2 h2
        have : i1 = i2 := by omega
        subst this
        rw [g1] at g2
        simpa using g2)).2.2.2
    unfold walkInfos
    simp only []
    rw [hwalk2, (walk_preorder T.a root h t ht wf).1, List.map_map]
    apply List.map_congr_left
    intro m hm
    exact hinf m hm

/-! ### non-vacuity (the tree `wA` of Props/Tree2.lean, copied from the INNER node 2) -/

def wInf : Infos := [some ⟨none, none⟩, some ⟨some 10, some "outer"⟩, none, some ⟨some 20, none⟩, none]

/-- (id of the copy, root of the copy, the memo in allocation order) -/
def w3Sum (r : T3 × Nat × List (Nat × Nat)) : Nat × Option Nat × List (Nat × Nat) :=
  (r.2.1, getRoot r.1.a r.2.1, r.2.2)

def labelsOf (l : List (Option Info)) : List (Option Nat) := l.map fun o => o.bind (·.label)

/-- the model really computes it: started at the expression node 2 the copy is allocated in the
    order 2, 1 (its statement), 4 (the root), 0, 3; the copied root is 7, and walking it meets the
    labels of the original walk -/
example : (okOf (deepcopy3 cpOk ⟨wA, wInf⟩ 2)).map w3Sum
    = some (5, some 7, [(2, 5), (1, 6), (4, 7), (0, 8), (3, 9)])
    ∧ (okOf (deepcopy3 cpOk ⟨wA, wInf⟩ 2)).map (fun r => (walkIds r.1.a 7, labelsOf (walkInfos r.1 7)))
        = some ([7, 8, 6, 5, 9], [none, none, some 10, none, some 20])
    ∧ labelsOf (walkInfos ⟨wA, wInf⟩ 4) = [none, none, some 10, none, some 20] := by
  refine ⟨by decide, by decide, by decide⟩

/-- `deepcopy_inner_iso`, `pickle_eq_deepcopy`, `copy_preserves_labels` instantiated on `wA` from
    the inner node 2 -/
example : ∃ a' φ, deepcopy cpOk wA 2 = .ok (a', φ 2) ∧ φ 2 = 5 ∧ a'.length = 10 ∧ TreeWF a' (φ 4)
    ∧ walkIds a' (φ 4) = wT.pre.map φ := by
  obtain ⟨a', φ, h1, h2, h3, _, _, _, _, _, _, h4, h5, _⟩ :=
    deepcopy_inner_iso cpOk wA 4 3 wT wA_abs wA_wf (fun _ _ _ _ => rfl) 2 (by decide)
  exact ⟨a', φ, h1, h2, h3, h4, h5⟩

example : pickleRoundTrip cpOk wA 2 = deepcopy cpOk wA 2 :=
  pickle_eq_deepcopy cpOk wA 4 3 wT wA_abs wA_wf (fun _ _ _ _ => rfl) 2 (by decide)

example : ∃ T' memo, deepcopy3 cpOk ⟨wA, wInf⟩ 2 = .ok (T', phi memo 2, memo)
    ∧ walkInfos T' (phi memo 4) = walkInfos ⟨wA, wInf⟩ 4 := by
  obtain ⟨T', memo, h1, _, _, _, h2⟩ :=
    copy_preserves_labels cpOk ⟨wA, wInf⟩ 4 3 wT wA_abs wA_wf (fun _ _ _ _ => rfl) 2 (by decide)
  exact ⟨T', memo, h1, h2⟩

/-! ## the LIVE obligations on the pinned tree (generated tables) -/

open Fp.Generated.Tree3 in
/-- **protocol_default_generated** (C18): every rule class of the live repository (utils,
    Fortran2003, Fortran2008, C99Preprocessor and everything reachable as a subclass of
    `Base`) goes through the default `copyreg.__reduce_ex__` path that `deepcopy` / `pickleRoundTrip`
    model: no `__reduce__` / `__reduce_ex__` / `__getstate__` / `__setstate__` / `__deepcopy__` /
    `__copy__` / `__getnewargs_ex__` / `__slots__` anywhere in its MRO, `cls.__new__(cls,
    *cls.__getnewargs__(obj))` binds with `_deepcopy=True`, and `Base.__init__` is the
    `__init__` in effect.  (Adding a `__getstate__` or `__reduce__` to one class, or changing a
    constructor signature so that `__getnewargs__` no longer fits, flips the generated table and
    breaks this `decide`.) -/
theorem protocol_default_generated : ∀ c ∈ classes, c.ok = true := by
  decide +kernel

open Fp.Generated.Tree3 in
/-- **construct_generated** (C10): the code the events model has the modelled shape:
    `_set_parent` assigns `item.parent = parent_node` unconditionally for `Base` items and
    recurses into lists / tuples; `Base.__init__` is `self.parent = None`; `Base.__new__` does
    `object.__new__`, `_set_parent(obj, result)`, `obj.init(*result)`, `return obj` in this
    order; these are the only call site of `_set_parent` and the only assignments to `.parent`;
    `parent` is not a class attribute. -/
theorem construct_generated : construct.ok = true := by
  decide

/-- a class with a `__getstate__` (or a `__new__` that no longer binds) is not `ok`; a
    conditional `_set_parent` / a class-level `parent` is not `ok` -/
theorem proto_fails_witness :
    (ProtoFacts.ok ⟨"X", false, 3, true, true, "Base", "Base"⟩ = false)
    ∧ (ProtoFacts.ok ⟨"Y", true, 3, false, true, "Base", "Y"⟩ = false)
    ∧ (ConstructFacts.ok ⟨false, true, true, true, 2, 2, true, true⟩ = false) := by
  refine ⟨by decide, by decide, by decide⟩

end Fp.Tree3

#print axioms Fp.Tree3.bottomup_parents_consistent
#print axioms Fp.Tree3.bottomup_no_shared_node
#print axioms Fp.Tree3.bottomup_get_root
#print axioms Fp.Tree3.bottomup_walk
#print axioms Fp.Tree3.build_bottomUp
#print axioms Fp.Tree3.deepcopy_inner_iso
#print axioms Fp.Tree3.pickle_eq_deepcopy
#print axioms Fp.Tree3.copy_preserves_labels
#print axioms Fp.Tree3.protocol_default_generated
#print axioms Fp.Tree3.construct_generated
