"""./check setup | ./check Cxx quick|thorough | ./check Cxx --replay <file>"""
import importlib
import json
import os
import sys
import time

from fv import common


def setup():
    t0 = time.time()
    ok, msgs = common.run_extractors_subprocess()
    for m in msgs:
        print(m)
    common.write_audit_file()
    okb, log, wall = common.lake_build()
    print(log[-3000:] if not okb else "lake build ok (%.0fs)" % wall)
    print("setup done in %.0fs" % (time.time() - t0))
    return 0 if (ok and okb) else 1


def run_property(prop, tier):
    os.environ["VERIF_TIER"] = tier
    mod = importlib.import_module("fv.props.%s" % prop.lower())
    rep = common.Report(prop, tier, level=getattr(mod, "LEVEL", "proof"))
    rep.rule = getattr(mod, "RULE", "")
    rep.assumptions = list(getattr(mod, "ASSUMPTIONS", []))
    # 1. proof obligations: translator + build + audit
    st = common.proof_state(prop, tuple(getattr(mod, "TIE_MODULES", [])))
    rep.use_theorems(st)
    if st.get("leanchecker"):
        rep.coverage["leanchecker"] = st["leanchecker"]
    proof_broken = list(st["broken"]) if not st["ok"] else []
    # 2. correspondence + direct oracle (the property module)
    mod.run(tier, rep, st)
    # 3. a broken obligation with no failing input found
    if proof_broken and not rep.violations:
        rep.violation("proof-obligation:" + prop, "; ".join(proof_broken)[:1000],
                      {"broken": proof_broken, "log": st["log"][-4000:]}, no_input=True)
    rc = rep.finish(getattr(mod, "extra_coverage", lambda r: None)(rep))
    if getattr(rep, "harness_errors", 0) and rc == 0:
        print("HARNESS-ERROR: %d case(s) crashed inside the harness (see evidence)" % rep.harness_errors)
        for e in rep.coverage.get("harness_errors", [])[:2]:
            print(e)
        return 2
    return rc


def replay(prop, path):
    mod = importlib.import_module("fv.props.%s" % prop.lower())
    with open(path) as f:
        r = json.load(f)
    rep = common.Report(prop, "quick")
    if hasattr(mod, "replay"):
        return mod.replay(r, rep)
    case = r.get("case")
    if case is None:
        print("replay file has no case: it names a broken obligation:", r.get("what"))
        return 1
    res = mod.run_case(case)
    for f_ in res.get("findings", []):
        print("REPRODUCED %s: %s" % (f_["signature"], f_["what"][:500]))
    if not res.get("findings"):
        print("not reproduced (property holds on this case now)")
    return 1 if res.get("findings") else 0


def main(argv):
    if len(argv) < 2:
        print(__doc__)
        return 2
    if argv[1] == "setup":
        return setup()
    prop = argv[1].upper()
    if len(argv) >= 4 and argv[2] == "--replay":
        return replay(prop, argv[3])
    tier = argv[2] if len(argv) > 2 else os.environ.get("VERIF_TIER", "quick")
    return run_property(prop, tier)


if __name__ == "__main__":
    sys.exit(main(sys.argv))
