import FparserModel.Proofs.BlockInv

/-!
# M-D proofs, part 3: no-match restores the stream; a tree's frontier is what was consumed

Both hold for every table, oracle, fuel and state on runs that log no *drop* event
(`seqDrop`, `hookDrop`, `progDrop` — the three places where the code provably loses items).
-/
namespace Fp.Block

def isDrop : Ev → Bool
  | .ghost .seqDrop => true
  | .ghost .hookDrop => true
  | .ghost .progDrop => true
  | .ghost .noMatchDrop => true
  | _ => false

/-- number of drop events in the log of a state -/
def D (s : St) : Nat := (s.log.filter isDrop).length

theorem D_mono {a b : St} (h : LogExt a b) : D a ≤ D b := by
  obtain ⟨new, e⟩ := h
  simp [D, e, List.filter_append]

theorem D_ev_nondrop (s : St) (e : Ev) (h : isDrop e = false) : D (s.ev e) = D s := by
  simp [D, St.ev, List.filter_cons, h]

theorem D_ev_drop (s : St) (e : Ev) (h : isDrop e = true) : D (s.ev e) = D s + 1 := by
  simp [D, St.ev, List.filter_cons, h]

@[simp] theorem D_put (s : St) (x : Item) : D (s.put x) = D s := by
  simp [D, St.put, List.filter_cons, isDrop]
@[simp] theorem D_get (s : St) : D s.get.2 = D s := by
  simp [D, St.get, List.filter_cons, isDrop]
@[simp] theorem D_enter (s : St) (n : Name) : D (s.enter n) = D s := by
  simp [D, St.enter, List.filter_cons, isDrop]
@[simp] theorem D_exit (s : St) : D s.exit.2 = D s := by
  simp [D, List.filter_cons, isDrop]
@[simp] theorem D_remove (s : St) (n : Name) : D (s.remove n).2 = D s := by
  simp [D, List.filter_cons, isDrop]

abbrev St.all (s : St) : List Item := s.stream.all

@[simp] theorem St.put_all (s : St) (x : Item) : (s.put x).all = x :: s.all := by
  simp [St.all, St.put, Stream.put, Stream.all]
@[simp] theorem St.ev_all (s : St) (e : Ev) : (s.ev e).all = s.all := rfl
@[simp] theorem St.enter_all (s : St) (n : Name) : (s.enter n).all = s.all := rfl
@[simp] theorem St.exit_all (s : St) : s.exit.2.all = s.all := by simp [St.all]
@[simp] theorem St.remove_all (s : St) (n : Name) : (s.remove n).2.all = s.all := by simp [St.all]

theorem St.get_none_all {s s1 : St} (h : s.get = (none, s1)) : s1.all = s.all ∧ s1.all = [] := by
  have := Stream.get_none (St.get_eq h)
  simp [St.all, this.1, this.2.1]

theorem St.get_some_all {s s1 : St} {x : Item} (h : s.get = (some x, s1)) :
    s.all = x :: s1.all := (Stream.get_some (St.get_eq h)).1

theorem St.get_D {s s1 : St} {o : Option Item} (h : s.get = (o, s1)) : D s1 = D s := by
  have := D_get s; rw [h] at this; exact this

theorem frontierL_append (xs ys : List Tree) :
    frontierL (xs ++ ys) = frontierL xs ++ frontierL ys := by
  induction xs with
  | nil => simp [frontierL]
  | cons t ts ih => simp [frontierL, ih]

theorem frontierL_rev_cons (t : Tree) (rc : List Tree) :
    frontierL (t :: rc).reverse = frontierL rc.reverse ++ t.frontier := by
  simp [frontierL_append, frontierL]

mutual
theorem restore_all (t : Tree) (s : St) :
    (restore t s).all = t.frontier ++ s.all ∧ D (restore t s) = D s := by
  cases t with
  | leaf c i info => simp [restore, Tree.frontier]
  | node c ks =>
    simp only [restore, Tree.frontier]
    have := restoreRev_all ks (s.ev (.ghost .abandon))
    rw [D_ev_nondrop _ _ rfl] at this
    exact this
theorem restoreRev_all (ts : List Tree) (s : St) :
    (restoreRev ts s).all = frontierL ts ++ s.all ∧ D (restoreRev ts s) = D s := by
  cases ts with
  | nil => simp [restoreRev, frontierL]
  | cons t ts =>
    simp only [restoreRev, frontierL]
    have h1 := restoreRev_all ts s
    have h2 := restore_all t (restoreRev ts s)
    rw [h2.1, h2.2, h1.1, h1.2]; simp
end

theorem restoreRc_all (rc : List Tree) (s : St) :
    (restoreRc rc s).all = frontierL rc.reverse ++ s.all ∧ D (restoreRc rc s) = D s := by
  induction rc generalizing s with
  | nil => simp [restoreRc, frontierL]
  | cons t ts ih =>
    simp only [restoreRc]
    have h1 := restore_all t s
    have h2 := ih (restore t s)
    rw [h2.1, h2.2, h1.1, h1.2, frontierL_rev_cons]; simp

/-- the spec of a call that yields an `Outcome` -/
def ASpec (s : St) (o : Outcome) (s' : St) : Prop :=
  D s' = D s →
    match o with
    | .none => s'.all = s.all
    | .tree t => s.all = t.frontier ++ s'.all
    | .raise .noMatch => s'.all = s.all
    | .raise _ => True

/-- the same for a `match` method -/
def MSpec (s : St) (r : MRes) (s' : St) : Prop :=
  D s' = D s →
    match r with
    | .none => s'.all = s.all
    | .tuple content => s.all = frontierL content ++ s'.all
    | .raise .noMatch => s'.all = s.all
    | .raise _ => True

/-- accumulated content (newest first) accounts for everything consumed since `s0` -/
def Acc (s0 : St) (rc : List Tree) (st : St) : Prop := s0.all = frontierL rc.reverse ++ st.all

theorem Acc.push {s0 st st' : St} {rc : List Tree} {t : Tree} (h : Acc s0 rc st)
    (ht : st.all = t.frontier ++ st'.all) : Acc s0 (t :: rc) st' := by
  unfold Acc at *; rw [h, ht, frontierL_rev_cons]; simp

theorem Acc.same {s0 st st' : St} {rc : List Tree} (h : Acc s0 rc st) (ht : st'.all = st.all) :
    Acc s0 rc st' := by
  unfold Acc at *; rw [h, ht]

theorem Acc.nil (s : St) : Acc s [] s := by simp [Acc, frontierL]

theorem Acc.extend {s0 st st' : St} {rc c0 : List Tree} (h : Acc s0 rc st)
    (ht : st.all = frontierL c0 ++ st'.all) : Acc s0 (c0.reverse ++ rc) st' := by
  unfold Acc at *
  rw [h, ht]
  simp [frontierL_append]


/-- a call that logs no drop event and satisfies `ASpec` -/
def Clean (s : St) (o : Outcome) (s' : St) : Prop := ASpec s o s' ∧ D s' = D s

theorem Clean.none_then {s s1 s2 : St} {o : Outcome} (h1 : Clean s .none s1) (h2 : Clean s1 o s2) :
    Clean s o s2 := by
  obtain ⟨a1, d1⟩ := h1; obtain ⟨a2, d2⟩ := h2
  refine ⟨fun _ => ?_, by rw [d2, d1]⟩
  have e1 : s1.all = s.all := a1 d1
  have := a2 d2
  revert this
  cases o with
  | raise e => cases e <;> simp_all
  | _ => simp_all

theorem Clean.refl (s : St) : Clean s .none s := ⟨fun _ => rfl, rfl⟩

macro "inj2" h:ident : tactic =>
  `(tactic| (simp only [Prod.mk.injEq] at $h:ident; obtain ⟨h1, h2⟩ := $h:ident; subst h1; subst h2))
macro "inj3" h:ident : tactic =>
  `(tactic| (simp only [Prod.mk.injEq] at $h:ident; obtain ⟨h1, h2, h3⟩ := $h:ident
             subst h1; subst h2; subst h3))

@[simp] theorem D_seen (s : St) (x : List (Nat × Cls)) :
    D { stream := s.stream, sym := s.sym, seen := x, log := s.log } = D s := rfl

variable {env : Env}

theorem leafNew_A {c : Cls} {pc : List Cls} {s : St} {o : Outcome} {pc' : List Cls} {s' : St}
    (heq : leafNew env c pc s = (o, pc', s')) : Clean s o s' := by
  unfold leafNew at heq
  split at heq
  · rename_i s1 hg
    inj3 heq
    exact ⟨fun _ => (St.get_none_all hg).1, St.get_D hg⟩
  · rename_i it s1 hg
    have ha := St.get_some_all hg
    have hd := St.get_D hg
    split at heq
    · inj3 heq
      exact ⟨fun _ => by simp [ha], by simp [hd]⟩
    · simp only at heq
      have hq : D (s1.ev (.query it.id c)) = D s := by rw [D_ev_nondrop _ _ rfl, hd]
      split at heq
      · split at heq
        · inj3 heq
          exact ⟨fun _ => by simp [Tree.frontier, ha], hq⟩
        · inj3 heq
          exact ⟨fun _ => by simp [ha], by simp [hq]⟩
      · split at heq
        · inj3 heq
          exact ⟨fun _ => by simp [Tree.frontier, ha, St.all], hq⟩
        · inj3 heq
          refine ⟨fun _ => ?_, by simpa [D, St.put, isDrop, List.filter_cons] using hq⟩
          have : s.stream.all = it :: s1.stream.all := ha
          simp [St.all, St.put, Stream.put, Stream.all] at this ⊢
          exact this.symm
        · inj3 heq
          refine ⟨fun _ => ?_, by simpa [D, St.put, isDrop, List.filter_cons] using hq⟩
          have : s.stream.all = it :: s1.stream.all := ha
          simp [St.all, St.put, Stream.put, Stream.all] at this ⊢
          exact this.symm
        · rename_i e hne _
          inj3 heq
          refine ⟨fun _ => ?_, hq⟩
          cases e <;> first | trivial | exact absurd rfl (hne _)

theorem leafFresh_A {c : Cls} {s : St} {o : Outcome} {s' : St}
    (heq : leafFresh env c s = (o, s')) : Clean s o s' := by
  unfold leafFresh at heq
  inj2 heq
  exact leafNew_A (pc' := (leafNew env c [c] s).2.1) rfl

theorem commentNew_A {s : St} {o : Outcome} {s' : St} (heq : commentNew env s = (o, s')) :
    Clean s o s' := by
  unfold commentNew at heq
  split at heq
  · rename_i s1 hg; inj2 heq
    exact ⟨fun _ => (St.get_none_all hg).1, St.get_D hg⟩
  · rename_i it s1 hg
    have ha := St.get_some_all hg
    have hd := St.get_D hg
    split at heq
    · inj2 heq; exact ⟨fun _ => by simp [Tree.frontier, ha], hd⟩
    · inj2 heq; exact ⟨fun _ => by simp [ha], by simp [hd]⟩

theorem directiveNew_A {s : St} {o : Outcome} {s' : St} (heq : directiveNew env s = (o, s')) :
    Clean s o s' := by
  unfold directiveNew at heq
  split at heq
  · rename_i s1 hg; inj2 heq
    exact ⟨fun _ => (St.get_none_all hg).1, St.get_D hg⟩
  · rename_i it s1 hg
    have ha := St.get_some_all hg
    have hd := St.get_D hg
    split at heq
    · split at heq
      · inj2 heq; exact ⟨fun _ => by simp [Tree.frontier, ha], hd⟩
      · inj2 heq; exact ⟨fun _ => by simp [ha], by simp [hd]⟩
    · inj2 heq; exact ⟨fun _ => by simp [ha], by simp [hd]⟩

theorem firstLeaf_A {cs : List Cls} {s : St} {o : Outcome} {s' : St}
    (heq : firstLeaf env cs s = (o, s')) : Clean s o s' := by
  induction cs generalizing s with
  | nil => simp only [firstLeaf] at heq; inj2 heq; exact Clean.refl _
  | cons c cs ih =>
    simp only [firstLeaf] at heq
    split at heq
    · rename_i s1 h1
      exact (leafFresh_A h1).none_then (ih heq)
    · exact leafFresh_A heq

theorem cppNew_A {cs : List Cls} {s : St} {o : Outcome} {s' : St}
    (heq : cppNew env cs s = (o, s')) : Clean s o s' := by
  unfold cppNew at heq
  split at heq
  · rename_i s1 hg; inj2 heq
    exact ⟨fun _ => (St.get_none_all hg).1, St.get_D hg⟩
  · rename_i it s1 hg
    have ha := St.get_some_all hg
    have hd := St.get_D hg
    have hp : Clean s .none (s1.put it) := ⟨fun _ => by simp [ha], by simp [hd]⟩
    simp only at heq
    split at heq
    · exact hp.none_then (firstLeaf_A heq)
    · inj2 heq; exact hp

theorem cidRest_A {s : St} {o : Outcome} {s' : St} (heq : cidRest env s = (o, s')) :
    Clean s o s' := by
  unfold cidRest at heq
  split at heq
  · rename_i s2 h1
    split at heq
    · rename_i s3 h2
      exact (commentNew_A h1).none_then ((leafFresh_A h2).none_then (cppNew_A heq))
    · exact (commentNew_A h1).none_then (leafFresh_A heq)
  · exact commentNew_A heq

theorem cidOne_A {s : St} {o : Outcome} {s' : St} (heq : cidOne env s = (o, s')) :
    Clean s o s' := by
  unfold cidOne at heq
  split at heq
  · split at heq
    · rename_i s1 h1; exact (directiveNew_A h1).none_then (cidRest_A heq)
    · exact directiveNew_A heq
  · exact cidRest_A heq

theorem addCID_A {k : Nat} {rc : List Tree} {s s0 : St} {r : Except Exc (List Tree)} {s' : St}
    (h0 : Acc s0 rc s) (heq : addCID env k rc s = (r, s')) :
    D s' = D s ∧ ∀ rc', r = .ok rc' → Acc s0 rc' s' := by
  induction k generalizing rc s with
  | zero => simp only [addCID] at heq; inj2 heq; exact ⟨rfl, fun _ h => by cases h⟩
  | succ k ih =>
    simp only [addCID] at heq
    split at heq
    · rename_i t s1 h1
      have hc := cidOne_A h1
      have := ih (h0.push (hc.1 hc.2)) heq
      exact ⟨by rw [this.1, hc.2], this.2⟩
    · rename_i s1 h1
      have hc := cidOne_A h1
      inj2 heq
      exact ⟨hc.2, fun rc' h => by cases h; exact h0.same (hc.1 hc.2)⟩
    · rename_i e s1 h1
      have hc := cidOne_A h1
      inj2 heq
      exact ⟨hc.2, fun _ h => by cases h⟩

theorem addCID_D {k : Nat} {rc : List Tree} {s : St} {r : Except Exc (List Tree)} {s' : St}
    (heq : addCID env k rc s = (r, s')) : D s' = D s := by
  induction k generalizing rc s with
  | zero => simp only [addCID] at heq; inj2 heq; rfl
  | succ k ih =>
    simp only [addCID] at heq
    split at heq
    · rename_i t s1 h1
      rw [ih heq, (cidOne_A h1).2]
    · rename_i s1 h1; inj2 heq; exact (cidOne_A h1).2
    · rename_i e s1 h1; inj2 heq; exact (cidOne_A h1).2

/-- what is assumed of the recursive call -/
structure FA (f : F) : Prop where
  log : FRel LogExt f
  spec : ∀ c s o s', f c s = (o, s') → ASpec s o s'

structure GA (g : G) : Prop where
  log : GRel LogExt g
  spec : ∀ c pc s o pc' s', g c pc s = (o, pc', s') → ASpec s o s'

theorem fresh_A {g : G} (hg : GA g) : FA (fresh g) :=
  ⟨fresh_rel hg.log, fun c s o s' h => by
    unfold fresh at h; inj2 h; exact hg.spec c [] s _ (g c [] s).2.1 _ rfl⟩

theorem callCatch_A {f : F} (hf : FA f) {c : Cls} {s : St} {o : Outcome} {s' : St}
    (heq : callCatch f c s = (o, s')) : ASpec s o s' ∧ LogExt s s' := by
  have hl := callCatch_rel hf.log c s
  rw [heq] at hl
  refine ⟨?_, hl⟩
  unfold callCatch at heq
  split at heq
  · rename_i s1 h1; inj2 heq; exact fun hd => hf.spec _ _ _ _ h1 hd
  · exact hf.spec _ _ _ _ heq

/-! ### leaf-level calls never raise `NoMatchError` (it is converted to "no match") -/

def NoNM (o : Outcome) : Prop := o ≠ .raise .noMatch

theorem leafNew_nm {c : Cls} {pc : List Cls} {s : St} {o : Outcome} {pc' : List Cls} {s' : St}
    (heq : leafNew env c pc s = (o, pc', s')) : NoNM o := by
  unfold leafNew at heq
  split at heq
  · inj3 heq; simp [NoNM]
  · split at heq
    · inj3 heq; simp [NoNM]
    · simp only at heq
      split at heq
      · split at heq <;> (inj3 heq; simp [NoNM])
      · split at heq
        · inj3 heq; simp [NoNM]
        · inj3 heq; simp [NoNM]
        · inj3 heq; simp [NoNM]
        · rename_i e hne _
          inj3 heq
          intro h; injection h with h; exact hne h

theorem leafFresh_nm {c : Cls} {s : St} {o : Outcome} {s' : St}
    (heq : leafFresh env c s = (o, s')) : NoNM o := by
  unfold leafFresh at heq; inj2 heq
  exact leafNew_nm (pc' := (leafNew env c [c] s).2.1) (s' := (leafNew env c [c] s).2.2) rfl

theorem firstLeaf_nm {cs : List Cls} {s : St} {o : Outcome} {s' : St}
    (heq : firstLeaf env cs s = (o, s')) : NoNM o := by
  induction cs generalizing s with
  | nil => simp only [firstLeaf] at heq; inj2 heq; simp [NoNM]
  | cons c cs ih =>
    simp only [firstLeaf] at heq
    split at heq
    · exact ih heq
    · exact leafFresh_nm heq

theorem cppNew_nm {cs : List Cls} {s : St} {o : Outcome} {s' : St}
    (heq : cppNew env cs s = (o, s')) : NoNM o := by
  unfold cppNew at heq
  split at heq
  · inj2 heq; simp [NoNM]
  · simp only at heq
    split at heq
    · exact firstLeaf_nm heq
    · inj2 heq; simp [NoNM]

theorem commentNew_nm {s : St} {o : Outcome} {s' : St} (heq : commentNew env s = (o, s')) :
    NoNM o := by
  unfold commentNew at heq
  split at heq
  · inj2 heq; simp [NoNM]
  · split at heq <;> (inj2 heq; simp [NoNM])

theorem directiveNew_nm {s : St} {o : Outcome} {s' : St} (heq : directiveNew env s = (o, s')) :
    NoNM o := by
  unfold directiveNew at heq
  split at heq
  · inj2 heq; simp [NoNM]
  · split at heq
    · split at heq <;> (inj2 heq; simp [NoNM])
    · inj2 heq; simp [NoNM]

theorem cidRest_nm {s : St} {o : Outcome} {s' : St} (heq : cidRest env s = (o, s')) : NoNM o := by
  unfold cidRest at heq
  split at heq
  · split at heq
    · exact cppNew_nm heq
    · exact leafFresh_nm heq
  · exact commentNew_nm heq

theorem cidOne_nm {s : St} {o : Outcome} {s' : St} (heq : cidOne env s = (o, s')) : NoNM o := by
  unfold cidOne at heq
  split at heq
  · split at heq
    · exact cidRest_nm heq
    · exact directiveNew_nm heq
  · exact cidRest_nm heq

theorem addCID_nm {k : Nat} {rc : List Tree} {s : St} {e : Exc} {s' : St}
    (heq : addCID env k rc s = (.error e, s')) : e ≠ .noMatch := by
  induction k generalizing rc s with
  | zero =>
    simp only [addCID, Prod.mk.injEq, Except.error.injEq] at heq
    obtain ⟨rfl, _⟩ := heq; simp
  | succ k ih =>
    simp only [addCID] at heq
    split at heq
    · exact ih heq
    · simp at heq
    · rename_i e' s1 h1
      have := cidOne_nm h1
      simp only [Prod.mk.injEq, Except.error.injEq] at heq
      obtain ⟨rfl, _⟩ := heq
      intro h; exact this (by rw [h])

theorem callCatch_nm {f : F} {c : Cls} {s : St} {o : Outcome} {s' : St}
    (heq : callCatch f c s = (o, s')) : NoNM o := by
  unfold callCatch at heq
  split at heq
  · inj2 heq; simp [NoNM]
  · rename_i hne
    intro h
    subst h
    exact hne _ heq

/-! ### `BlockBase.match` -/

abbrev L (env : Env) := logExt_ok env

theorem hookLead_A {fuel : Nat} {s : St} {r : Except Exc (List Tree)} {s' : St}
    (heq : hookLead env fuel s = (r, s')) :
    D s' = D s ∧ LogExt s s' ∧ (∀ e, r = .error e → e ≠ .noMatch) ∧
      ∀ lead, r = .ok lead → Acc s lead s' := by
  unfold hookLead at heq
  split at heq
  · have hl : LogExt s s' := by
      have := addCID_rel (logExt_ok env) fuel [] s; rw [heq] at this; exact this
    refine ⟨addCID_D heq, hl, ?_, (addCID_A (Acc.nil s) heq).2⟩
    intro e he; subst he; exact addCID_nm heq
  · inj2 heq
    refine ⟨rfl, LogExt.refl _, ?_, ?_⟩
    · intro e he; cases he
    · intro lead he; cases he; exact Acc.nil _

theorem doHook_A {f : F} (hf : FA f) {fuel : Nat} {cfg : Cfg} {v : LoopVars} {s : St}
    {r : HookRes} {s' : St} (heq : doHook env f fuel cfg v s = (r, s')) (hD : D s' = D s) :
    match r with
    | .proceed => s'.all = s.all
    | .append ts => s.all = frontierL ts.reverse ++ s'.all
    | .raise _ => True := by
  unfold doHook at heq
  split at heq
  · split at heq
    · rename_i e s0 h0
      inj2 heq; trivial
    · rename_i lead s0 h0
      obtain ⟨d0, l0, _, ha0⟩ := hookLead_A h0
      have hacc := ha0 lead rfl
      split at heq
      · inj2 heq; trivial
      · rename_i sc _
        split at heq
        · inj2 heq; trivial
        · rename_i s1 h1
          inj2 heq
          have hr := restoreRc_all lead s1
          rw [hr.2] at hD
          have := hf.spec _ _ _ _ h1 (by omega)
          simp only at this ⊢
          rw [hr.1, this]; exact hacc.symm
        · rename_i t s1 h1
          have hl1 : LogExt s0 s1 := by have := hf.log sc s0; rw [h1] at this; exact this
          have hm := D_mono hl1
          split at heq
          · split at heq
            · inj2 heq; trivial
            · split at heq
              · inj2 heq
                have := hf.spec _ _ _ _ h1 (by omega)
                simp only at this ⊢
                have h2 := hacc.push this
                unfold Acc at h2; exact h2
              · inj2 heq
                have hr := restore_all t s1
                have hr2 := restoreRc_all lead (restore t s1)
                rw [hr2.2, hr.2] at hD
                have := hf.spec _ _ _ _ h1 (by omega)
                simp only at this ⊢
                rw [hr2.1, hr.1, ← this]; exact hacc.symm
          · inj2 heq
            have hr2 := restoreRc_all lead (s1.ev (Ev.ghost Ghost.hookDrop))
            rw [hr2.2, D_ev_drop _ _ rfl] at hD
            omega
  · inj2 heq; rfl

/-- `endLabelCheck` only sets the python variable `start_label` -/
theorem endLabelCheck_rc {cfg : Cfg} {sinf : Option NodeInfo} {inf : NodeInfo} {v v2 : LoopVars}
    {b : Bool} (h : endLabelCheck cfg sinf inf v = .ok (v2, b)) : v2.rc = v.rc := by
  unfold endLabelCheck at h
  split at h
  · split at h
    · cases h
    · split at h
      · cases h
      · split at h
        · cases h
        · simp only [Except.ok.injEq, Prod.mk.injEq] at h
          rw [← h.1]
  · simp only [Except.ok.injEq, Prod.mk.injEq] at h
    rw [← h.1]

def StepSpec (t : Tree) (v : LoopVars) (s1 : St) (st : Step) (s2 : St) : Prop :=
  match st with
  | .abort => s2.all = frontierL (t :: v.rc).reverse ++ s1.all ∧ D s2 = D s1
  | .raise _ => s2 = s1
  | .done v2 => s2 = s1 ∧ v2.rc = t :: v.rc
  | .again _ v2 => s2 = s1 ∧ v2.rc = t :: v.rc

theorem abort_state_A (t : Tree) (v : LoopVars) (s1 : St) :
    (restoreRc v.rc (restore t s1)).all = frontierL (t :: v.rc).reverse ++ s1.all ∧
    D (restoreRc v.rc (restore t s1)) = D s1 := by
  have h1 := restore_all t s1
  have h2 := restoreRc_all v.rc (restore t s1)
  refine ⟨?_, by rw [h2.2, h1.2]⟩
  rw [h2.1, h1.1, frontierL_rev_cons]; simp

theorem matchedStep_S {cfg : Cfg} {startT : Option Tree} {sn : Option (Option Name)} {i : Nat}
    {v : LoopVars} {t : Tree} {s1 : St} {st : Step} {s2 : St}
    (heq : matchedStep env cfg startT sn i v t s1 = (st, s2)) : StepSpec t v s1 st s2 := by
  unfold matchedStep at heq
  simp only at heq
  split at heq
  · inj2 heq; rfl
  · inj2 heq; exact abort_state_A t v s1
  · split at heq
    · inj2 heq; rfl
    · split at heq
      · split at heq
        · inj2 heq; rfl
        · rename_i v2 hlab
          have hv := endLabelCheck_rc hlab
          split at heq
          · inj2 heq; exact abort_state_A t v s1
          · inj2 heq; exact ⟨rfl, hv⟩
        · rename_i v2 hlab
          have hv := endLabelCheck_rc hlab
          split at heq
          · inj2 heq; rfl
          · inj2 heq; exact ⟨rfl, hv⟩
      · inj2 heq; exact ⟨rfl, rfl⟩

theorem matchedStep_A {cfg : Cfg} {startT : Option Tree} {sn : Option (Option Name)} {i : Nat}
    {v : LoopVars} {t : Tree} {s1 : St} {st : Step} {s2 : St}
    (heq : matchedStep env cfg startT sn i v t s1 = (st, s2)) :
    match st with
    | .abort => s2.all = frontierL (t :: v.rc).reverse ++ s1.all ∧ D s2 = D s1
    | .raise _ => s2 = s1
    | .done v2 => s2 = s1 ∧ v2.rc = t :: v.rc
    | .again _ v2 => s2 = s1 ∧ v2.rc = t :: v.rc := by
  have := matchedStep_S heq
  unfold StepSpec at this
  cases st <;> exact this

/-- what the loop of `BlockBase.match` guarantees -/
def LoopSpec (s0 : St) (res : LoopRes) (sL : St) : Prop :=
  match res with
  | .done v _ => Acc s0 v.rc sL
  | .abort => sL.all = s0.all
  | .raise _ => True

theorem blockLoop_A {f : F} (hf : FA f) {cfg : Cfg} {classes : List Cls} {startT : Option Tree}
    {sn : Option (Option Name)} {s0 : St} {k i : Nat} {v : LoopVars} {s : St} {res : LoopRes}
    {s' : St} (hacc : Acc s0 v.rc s)
    (heq : blockLoop env f cfg classes startT sn k i v s = (res, s')) (hD : D s' = D s) :
    LoopSpec s0 res s' := by
  induction k generalizing i v s with
  | zero => simp only [blockLoop] at heq; inj2 heq; trivial
  | succ k ih =>
    simp only [blockLoop] at heq
    split at heq
    · inj2 heq; exact hacc
    · rename_i cls _
      split at heq
      · inj2 heq; trivial
      · rename_i ts s1 h1
        have l1 : LogExt s s1 := by
          have := doHook_rel (L env) hf.log k cfg v s; rw [h1] at this; exact this
        have l2 : LogExt s1 s' := by
          have := blockLoop_rel (L env) hf.log cfg classes startT sn k i { v with rc := ts ++ v.rc } s1
          rw [heq] at this; exact this
        have m1 := D_mono l1; have m2 := D_mono l2
        have hh := doHook_A hf h1 (by omega)
        have hacc2 : Acc s0 (ts ++ v.rc) s1 := by
          have := Acc.extend (c0 := ts.reverse) hacc (by simpa using hh)
          simpa using this
        exact ih (v := { v with rc := ts ++ v.rc }) hacc2 heq (by omega)
      · rename_i sa h1
        have l1 : LogExt s sa := by
          have := doHook_rel (L env) hf.log k cfg v s; rw [h1] at this; exact this
        have m1 := D_mono l1
        split at heq
        · inj2 heq; trivial
        · rename_i sb h2
          have hc := callCatch_A hf h2
          have m2 := D_mono hc.2
          have l3 : LogExt sb s' := by
            have := blockLoop_rel (L env) hf.log cfg classes startT sn k (i + 1) v sb
            rw [heq] at this; exact this
          have m3 := D_mono l3
          have hh := doHook_A hf h1 (by omega)
          have hcc := hc.1 (by omega)
          simp only at hh hcc
          exact ih ((hacc.same hh).same hcc) heq (by omega)
        · rename_i t sb h2
          have hc := callCatch_A hf h2
          have m2 := D_mono hc.2
          have hh := doHook_A hf h1
          split at heq
          · inj2 heq; trivial
          · rename_i sc h3
            inj2 heq
            have hm := matchedStep_A h3
            simp only at hm
            have hh' := hh (by omega)
            have hcc := hc.1 (by omega)
            simp only at hh' hcc
            simp only [LoopSpec]
            rw [hm.1]
            have : Acc s0 (t :: v.rc) sb := (hacc.same hh').push hcc
            exact this.symm
          · rename_i v2 sc h3
            inj2 heq
            have hm := matchedStep_A h3
            simp only at hm
            obtain ⟨rfl, hv⟩ := hm
            have hh' := hh (by omega)
            have hcc := hc.1 (by omega)
            simp only at hh' hcc
            simp only [LoopSpec]
            rw [hv]
            exact (hacc.same hh').push hcc
          · rename_i i2 v2 sc h3
            have hm := matchedStep_A h3
            simp only at hm
            obtain ⟨rfl, hv⟩ := hm
            have l3 : LogExt sc s' := by
              have := blockLoop_rel (L env) hf.log cfg classes startT sn k i2 v2 sc
              rw [heq] at this; exact this
            have m3 := D_mono l3
            have hh' := hh (by omega)
            have hcc := hc.1 (by omega)
            simp only at hh' hcc
            exact ih (v := v2) (by rw [hv]; exact (hacc.same hh').push hcc) heq (by omega)

@[simp] theorem ghostIf_all (b : Bool) (g : Ghost) (s : St) : (ghostIf b g s).all = s.all := by
  unfold ghostIf; split <;> rfl

@[simp] theorem enterState_all (tn : Option Name) (s : St) : (enterState tn s).all = s.all := by
  unfold enterState; split <;> simp

theorem D_ghostIf_nondrop (b : Bool) (g : Ghost) (s : St) (h : isDrop (.ghost g) = false) :
    D (ghostIf b g s) = D s := by
  unfold ghostIf; split
  · exact D_ev_nondrop _ _ h
  · rfl

@[simp] theorem D_enterState (tn : Option Name) (s : St) : D (enterState tn s) = D s := by
  unfold enterState; split
  · rw [D_ghostIf_nondrop _ _ _ rfl, D_enter, D_ghostIf_nondrop _ _ _ rfl]
  · rfl

theorem D_condExit (b : Bool) (s : St) : D (condExit b s).2 = D s := by
  unfold condExit; split <;> simp
theorem condExit_all (b : Bool) (s : St) : (condExit b s).2.all = s.all := by
  unfold condExit; split <;> simp
theorem D_condRemove (b : Bool) (n : Option Name) (s : St) : D (condRemove b n s).2 = D s := by
  unfold condRemove; split <;> simp
theorem condRemove_all (b : Bool) (n : Option Name) (s : St) : (condRemove b n s).2.all = s.all := by
  unfold condRemove; split <;> simp

/-- spec of the start phase -/
def StartSpec (s : St) (r : StartRes) (s1 : St) : Prop :=
  match r with
  | .ret .none => s1.all = s.all
  | .ret (.raise e) => e ≠ .noMatch
  | .ret (.tuple _) => False
  | .go rc _ _ _ _ => Acc s rc s1

theorem blockStart_A {f : F} (hf : FA f) {fuel : Nat} {cfg : Cfg} {s : St} {r : StartRes} {s1 : St}
    (heq : blockStart env f fuel cfg s = (r, s1)) (hD : D s1 = D s) : StartSpec s r s1 := by
  unfold blockStart at heq
  split at heq
  · inj2 heq; exact Acc.nil _
  · rename_i sc _
    split at heq
    · rename_i e sa h1
      inj2 heq
      exact addCID_nm h1
    · rename_i rc0 sa h1
      have ha := addCID_A (Acc.nil s) h1
      split at heq
      · rename_i e sb h2
        inj2 heq
        have := callCatch_nm h2
        intro h; exact this (by rw [h])
      · rename_i sb h2
        inj2 heq
        have hc := callCatch_A hf h2
        have hr := restoreRc_all rc0 sb
        rw [hr.2] at hD
        have hcc := hc.1 (by omega)
        simp only at hcc
        have hacc := ha.2 rc0 rfl
        simp only [StartSpec]
        rw [hr.1, hcc]; exact hacc.symm
      · rename_i t sb h2
        have hc := callCatch_A hf h2
        split at heq
        · inj2 heq; simp [StartSpec]
        · split at heq
          · inj2 heq; simp [StartSpec]
          · inj2 heq
            simp only [StartSpec]
            rw [D_enterState] at hD
            have hcc := hc.1 (by omega)
            simp only at hcc
            have hacc := (ha.2 rc0 rfl).push hcc
            unfold Acc at hacc ⊢
            rw [enterState_all]; exact hacc

/-- result spec of a `match` relative to the state `s0` it started from -/
def MRel (s0 : St) (r : MRes) (s' : St) : Prop :=
  match r with
  | .none => s'.all = s0.all
  | .tuple content => s0.all = frontierL content ++ s'.all
  | .raise .noMatch => s'.all = s0.all
  | .raise _ => True

theorem blockTail_A {cfg : Cfg} {startT : Option Tree} {tn : Option Name} {v : LoopVars}
    {fe : Bool} {s0 s3 : St} {r : MRes} {s' : St} (hacc : Acc s0 v.rc s3)
    (heq : blockTail env cfg startT tn v fe s3 = (r, s')) : MRel s0 r s' := by
  unfold blockTail at heq
  split at heq
  · split at heq
    · inj2 heq; trivial
    · rename_i s4 h1
      inj2 heq
      have h4 : s4.all = s3.all := by
        have := condRemove_all (truthy tn) tn s3; rw [h1] at this; exact this
      simp only [MRel]
      rw [(restoreRc_all v.rc s4).1, h4]; exact hacc.symm
  · split at heq
    · rename_i hemp
      inj2 heq
      simp only [MRel]
      have : v.rc = [] := by simpa using hemp
      unfold Acc at hacc; rw [this] at hacc; simpa [frontierL] using hacc.symm
    · split at heq
      · inj2 heq; exact hacc
      · inj2 heq; trivial
      · split at heq
        · split at heq <;> (inj2 heq; trivial)
        · inj2 heq; trivial
      · split at heq
        · split at heq <;> (inj2 heq; trivial)
        · inj2 heq; trivial

theorem blockFinish_A {cfg : Cfg} {startT : Option Tree} {tn : Option Name} {res : LoopRes}
    {s0 sL : St} {r : MRes} {s' : St} (hl : LoopSpec s0 res sL)
    (heq : blockFinish env cfg startT tn res sL = (r, s')) (hD : D s' = D sL) : MRel s0 r s' := by
  unfold blockFinish at heq
  split at heq
  · rename_i e
    split at heq
    · rename_i hc
      unfold blockCleanup at heq
      split at heq
      · inj2 heq; trivial
      · split at heq
        · inj2 heq; trivial
        · inj2 heq
          simp only [MRel]
          cases e <;> first | trivial | simp at hc
    · inj2 heq
      simp only [MRel]
      cases e with
      | noMatch =>
        exfalso
        simp only [beq_self_eq_true, ghostIf, if_true] at hD
        rw [D_ev_drop _ _ rfl] at hD
        have : D (if truthy tn = true then sL.ev (Ev.ghost Ghost.scopeLeak) else sL) = D sL := by
          split
          · exact D_ev_nondrop _ _ rfl
          · rfl
        omega
      | _ => trivial
  · inj2 heq
    simp only [MRel, ghostIf_all]; exact hl
  · rename_i v fe
    split at heq
    · inj2 heq; trivial
    · rename_i s3 h1
      have h3 : s3.all = sL.all := by
        have := condExit_all (truthy tn) sL; rw [h1] at this; exact this
      exact blockTail_A (hl.same h3) heq

theorem blockFinish_log (cfg : Cfg) (startT : Option Tree) (tn : Option Name) (res : LoopRes)
    (sL : St) : LogExt sL (blockFinish env cfg startT tn res sL).2 := by
  unfold blockFinish
  have hr := fun b n s => condRemove_rel (L env) b n s
  have he : ∀ b s, LogExt s (condExit b s).2 := by
    intro b s; unfold condExit; split
    · exact ⟨[Ev.exit], by simp⟩
    · exact LogExt.refl _
  have hg := fun b g s => ghostIf_log b g s
  split
  · split
    · unfold blockCleanup
      have := he (truthy tn) sL
      split
      · rename_i s3 h1; rw [h1] at this; exact this
      · rename_i s3 h1; rw [h1] at this
        have h2 := hr (truthy tn) tn s3
        split
        · rename_i s4 h3; rw [h3] at h2; exact this.trans h2
        · rename_i s4 h3; rw [h3] at h2; exact this.trans h2
    · exact (hg _ _ _).trans (hg _ _ _)
  · exact hg _ _ _
  · have := he (truthy tn) sL
    split
    · rename_i s3 h1; rw [h1] at this; exact this
    · rename_i s3 h1; rw [h1] at this
      exact this.trans (blockTail_rel (L env) _ _ _ _ _ _)

theorem blockMatch_A {f : F} (hf : FA f) {fuel : Nat} {cfg : Cfg} {s : St} {r : MRes} {s' : St}
    (heq : blockMatch env f fuel cfg s = (r, s')) (hD : D s' = D s) : MRel s r s' := by
  unfold blockMatch at heq
  split at heq
  · rename_i r0 s1 h1
    inj2 heq
    have := blockStart_A hf h1 hD
    cases r0 with
    | none => exact this
    | tuple c => exact absurd this id
    | raise e =>
      simp only [StartSpec] at this
      cases e <;> first | trivial | exact absurd rfl this
  · rename_i rc0 startT tn sl sn s1 h1
    simp only at heq
    have ls : ∃ s2, LogExt s s2 ∧ s1 = enterState tn s2 := blockStart_rel (L env) hf.log _ _ _ _ _ h1
    obtain ⟨s2, l02, rfl⟩ := ls
    generalize hlr : blockLoop env f cfg (blockClasses env cfg) startT sn fuel 0
      (loopVars0 cfg rc0 sl) (enterState tn s2) = lr at heq
    obtain ⟨res, sL⟩ := lr
    simp only at heq
    have l2L : LogExt (enterState tn s2) sL := by
      have := blockLoop_rel (L env) hf.log cfg (blockClasses env cfg) startT sn fuel 0
        (loopVars0 cfg rc0 sl) (enterState tn s2)
      rw [hlr] at this; exact this
    have lL' : LogExt sL s' := by
      have := blockFinish_log (env := env) cfg startT tn res sL
      rw [heq] at this; exact this
    have m1 := D_mono l02; have m2 := D_mono l2L; have m3 := D_mono lL'
    have d2 : D (enterState tn s2) = D s2 := D_enterState _ _
    have hs := blockStart_A hf h1 (by omega)
    simp only [StartSpec] at hs
    have hloop := blockLoop_A hf (v := loopVars0 cfg rc0 sl) hs hlr (by omega)
    exact blockFinish_A hloop heq (by omega)

theorem MRel.toMSpec {s : St} {r : MRes} {s' : St} (h : D s' = D s → MRel s r s') : MSpec s r s' := by
  intro hd
  have := h hd
  unfold MRel at this
  cases r with
  | none => exact this
  | tuple c => exact this
  | raise e => cases e <;> exact this

theorem manyLoop_A (env : Env) {f : F} (hf : FA f) {c : Cls} {k : Nat} {rc : List Tree} {s0 s : St} {r : MRes}
    {s' : St} (hacc : Acc s0 rc s) (heq : manyLoop f c k rc s = (r, s')) (hD : D s' = D s) :
    MRel s0 r s' := by
  induction k generalizing rc s with
  | zero => simp only [manyLoop] at heq; inj2 heq; trivial
  | succ k ih =>
    simp only [manyLoop] at heq
    split at heq
    · rename_i e s1 h1
      inj2 heq
      have := callCatch_nm h1
      simp only [MRel]
      cases e <;> first | trivial | exact absurd rfl this
    · rename_i s1 h1
      have hc := callCatch_A hf h1
      inj2 heq
      have hcc := hc.1 hD
      simp only at hcc
      split
      · rename_i hemp
        have : rc = [] := by simpa using hemp
        subst this
        simp only [MRel]
        unfold Acc at hacc
        simp [frontierL] at hacc
        rw [hcc]; exact hacc.symm
      · simp only [MRel]
        exact hacc.same hcc
    · rename_i t s1 h1
      have hc := callCatch_A hf h1
      have m1 := D_mono hc.2
      have l2 : LogExt s1 s' := by
        have := manyLoop_rel (L env) hf.log c k (t :: rc) s1; rw [heq] at this; exact this
      have m2 := D_mono l2
      have hcc := hc.1 (by omega)
      simp only at hcc
      exact ih (hacc.push hcc) heq (by omega)

theorem seqNR_A (env : Env) {f : F} (hf : FA f) {q : Quirks} {cs : List Cls} {rc : List Tree} {s0 s : St}
    {r : MRes} {s' : St} (hacc : Acc s0 rc s) (heq : seqNR q f cs rc s = (r, s'))
    (hD : D s' = D s) : MRel s0 r s' := by
  induction cs generalizing rc s with
  | nil => simp only [seqNR] at heq; inj2 heq; exact hacc
  | cons c cs ih =>
    simp only [seqNR] at heq
    split at heq
    · split at heq
      · rename_i e s1 h1
        inj2 heq
        have := callCatch_nm h1
        simp only [MRel]
        cases e <;> first | trivial | exact absurd rfl this
      · rename_i s1 h1
        have hc := callCatch_A hf h1
        inj2 heq
        have hr := restoreRc_all rc s1
        rw [hr.2] at hD
        have hcc := hc.1 hD
        simp only at hcc
        simp only [MRel]
        rw [hr.1, hcc]; exact hacc.symm
      · rename_i t s1 h1
        have hc := callCatch_A hf h1
        have m1 := D_mono hc.2
        have l2 : LogExt s1 s' := by
          have := seqNR_log env hf.log q cs (t :: rc) s1; rw [heq] at this; exact this
        have m2 := D_mono l2
        have hcc := hc.1 (by omega)
        simp only at hcc
        exact ih (hacc.push hcc) heq (by omega)
    · split at heq
      · rename_i e s1 h1
        inj2 heq
        have l1 : LogExt s s1 := by have := hf.log c s; rw [h1] at this; exact this
        have m1 := D_mono l1
        cases hrc : rc with
        | nil =>
          subst hrc
          simp only [List.isEmpty_nil, Bool.not_true, ghostIf, Bool.false_eq_true, if_false] at hD ⊢
          have := hf.spec _ _ _ _ h1 hD
          simp only [MRel]
          unfold Acc at hacc; simp [frontierL] at hacc
          cases e <;> first | trivial | (simp only at this; rw [this]; exact hacc.symm)
        | cons t0 rc0 =>
          subst hrc
          exfalso
          simp only [List.isEmpty_cons, Bool.not_false, ghostIf, if_true] at hD
          rw [D_ev_drop _ _ rfl] at hD
          omega
      · rename_i s1 h1
        inj2 heq
        have l1 : LogExt s s1 := by have := hf.log c s; rw [h1] at this; exact this
        have m1 := D_mono l1
        cases hrc : rc with
        | nil =>
          subst hrc
          simp only [List.isEmpty_nil, Bool.not_true, ghostIf, Bool.false_eq_true, if_false] at hD ⊢
          have := hf.spec _ _ _ _ h1 hD
          simp only [MRel]
          unfold Acc at hacc; simp [frontierL] at hacc
          simp only at this; rw [this]; exact hacc.symm
        | cons t0 rc0 =>
          subst hrc
          exfalso
          simp only [List.isEmpty_cons, Bool.not_false, ghostIf, if_true] at hD
          rw [D_ev_drop _ _ rfl] at hD
          omega
      · rename_i t s1 h1
        have l1 : LogExt s s1 := by have := hf.log c s; rw [h1] at this; exact this
        have m1 := D_mono l1
        have l2 : LogExt s1 s' := by
          have := seqNR_log env hf.log q cs (t :: rc) s1; rw [heq] at this; exact this
        have m2 := D_mono l2
        have hcc := hf.spec _ _ _ _ h1 (by omega)
        simp only at hcc
        exact ih (hacc.push hcc) heq (by omega)

theorem MRel.shift {s0 s1 : St} {r : MRes} {s' : St} (h : MRel s1 r s') (e : s1.all = s0.all) :
    MRel s0 r s' := by
  unfold MRel at *
  cases r with
  | none => rw [← e]; exact h
  | tuple c => rw [← e]; exact h
  | raise x => cases x <;> first | trivial | (rw [← e]; exact h)

theorem MRel.shift' {s0 : St} {r : MRes} {s' s'' : St} (h : MRel s0 r s') (e : s''.all = s'.all) :
    MRel s0 r s'' := by
  unfold MRel at *
  cases r with
  | none => rw [e]; exact h
  | tuple c => rw [e]; exact h
  | raise x => cases x <;> first | trivial | (rw [e]; exact h)

theorem main0Match_A {f : F} (hf : FA f) {fuel : Nat} {cfg : Cfg} {scope : Name} {s : St}
    {r : MRes} {s' : St} (heq : main0Match env f fuel cfg scope s = (r, s')) (hD : D s' = D s) :
    MRel s r s' := by
  have lall : LogExt s s' := by
    have := main0Match_rel (L env) hf.log fuel cfg scope s
    rw [heq] at this; exact this
  unfold main0Match at heq
  have dsp : D (ghostIf (s.sym.clashes scope) Ghost.nameClash s) = D s :=
    D_ghostIf_nondrop _ _ _ rfl
  have asp : (ghostIf (s.sym.clashes scope) Ghost.nameClash s).all = s.all := ghostIf_all _ _ _
  generalize ghostIf (s.sym.clashes scope) Ghost.nameClash s = sp at heq dsp asp
  generalize hb : blockMatch env f fuel cfg (sp.enter scope) = br at heq
  obtain ⟨r0, s2⟩ := br
  have lb : LogExt (sp.enter scope) s2 := by
    have := blockMatch_rel (L env) hf.log fuel cfg (sp.enter scope); rw [hb] at this; exact this
  have mb := D_mono lb
  have de : D (sp.enter scope) = D s := by rw [D_enter, dsp]
  -- every continuation only performs exit/remove/ghost(main0Leak): D and `all` are those of s2
  have hx : ∀ s3, s2.exit = (true, s3) ∨ s2.exit = (false, s3) → D s3 = D s2 ∧ s3.all = s2.all := by
    intro s3 h
    have a := St.exit_all s2; have d := D_exit s2
    rcases h with h | h <;> (rw [h] at a d; exact ⟨d, a⟩)
  have hrm : ∀ s3 s4 b, s3.remove scope = (b, s4) → D s4 = D s3 ∧ s4.all = s3.all := by
    intro s3 s4 b h
    have a := St.remove_all s3 scope; have d := D_remove s3 scope
    rw [h] at a d; exact ⟨d, a⟩
  have key : D s' = D s2 ∧ s'.all = s2.all ∧ (r = r0 ∨ r = .raise .other) := by
    cases r0 with
    | raise e =>
      simp only at heq
      split at heq
      · inj2 heq
        exact ⟨D_ev_nondrop _ _ rfl, rfl, Or.inl rfl⟩
      split at heq
      · split at heq
        · rename_i s3 h1
          inj2 heq
          have := hx s3 (Or.inr h1)
          exact ⟨this.1, this.2, Or.inr rfl⟩
        · rename_i s3 h1
          have h3 := hx s3 (Or.inl h1)
          split at heq
          · rename_i s4 h2
            inj2 heq
            have h4 := hrm _ _ _ h2
            exact ⟨by rw [h4.1, h3.1], by rw [h4.2, h3.2], Or.inr rfl⟩
          · rename_i s4 h2
            inj2 heq
            have h4 := hrm _ _ _ h2
            exact ⟨by rw [h4.1, h3.1], by rw [h4.2, h3.2], Or.inl rfl⟩
      · inj2 heq
        exact ⟨D_ev_nondrop _ _ rfl, rfl, Or.inl rfl⟩
    | none =>
      simp only at heq
      split at heq
      · rename_i s3 h1
        inj2 heq
        have := hx s3 (Or.inr h1)
        exact ⟨this.1, this.2, Or.inr rfl⟩
      · rename_i s3 h1
        have h3 := hx s3 (Or.inl h1)
        split at heq
        · rename_i s4 h2
          inj2 heq
          have h4 := hrm _ _ _ h2
          exact ⟨by rw [h4.1, h3.1], by rw [h4.2, h3.2], Or.inr rfl⟩
        · rename_i s4 h2
          inj2 heq
          have h4 := hrm _ _ _ h2
          exact ⟨by rw [h4.1, h3.1], by rw [h4.2, h3.2], Or.inl rfl⟩
    | tuple c =>
      simp only at heq
      split at heq
      · rename_i s3 h1
        inj2 heq
        have := hx s3 (Or.inr h1)
        exact ⟨this.1, this.2, Or.inr rfl⟩
      · rename_i s3 h1
        have h3 := hx s3 (Or.inl h1)
        inj2 heq
        exact ⟨h3.1, h3.2, Or.inl rfl⟩
  obtain ⟨kd, ka, kr⟩ := key
  have hbm := blockMatch_A hf hb (by omega)
  have hbm' : MRel s r0 s2 := hbm.shift (by rw [St.enter_all, asp])
  rcases kr with rfl | rfl
  · exact hbm'.shift' ka
  · trivial

def PSpec (q : Quirks) (s0 : St) (r : PRes) (s' : St) : Prop :=
  match r with
  | .done rc' => Acc s0 rc' s'
  | .retNone => s'.all = s0.all
  | .fail rc' .noMatch => if q.programContinues then s'.all = s0.all else Acc s0 rc' s'
  | .fail _ _ => True

def USpec (q : Quirks) (s0 : St) (u : UnitStep) (s' : St) : Prop :=
  match u with
  | .go rc1 => Acc s0 rc1 s'
  | .stop r => PSpec q s0 r s'

theorem unitStep_A {f : F} (hf : FA f) {fuel : Nat} {unit main0 : Cls} {rc : List Tree}
    {s0 s : St} {u : UnitStep} {s' : St} (hacc : Acc s0 rc s)
    (heq : unitStep env f fuel unit main0 rc s = (u, s')) (hD : D s' = D s) :
    USpec env.tbl.quirks s0 u s' := by
  have lall : LogExt s s' := by
    have := unitStep_rel (L env) hf.log fuel unit main0 rc s; rw [heq] at this; exact this
  unfold unitStep at heq
  split at heq
  · rename_i e s1 h1
    have l1 : LogExt s s1 := by have := hf.log unit s; rw [h1] at this; exact this
    have m1 := D_mono l1
    split at heq
    · rename_i hc
      simp only [Bool.and_eq_true, beq_iff_eq] at hc
      obtain ⟨rfl, hq⟩ := hc
      have df : D (s1.ev (Ev.ghost Ghost.fallback)) = D s1 := D_ev_nondrop _ _ rfl
      generalize hb : blockMatch env f fuel (fallbackCfg main0) (s1.ev (Ev.ghost Ghost.fallback))
        = br at heq
      obtain ⟨r2, s2⟩ := br
      have l2 : LogExt (s1.ev (Ev.ghost Ghost.fallback)) s2 := by
        have := blockMatch_rel (L env) hf.log fuel (fallbackCfg main0)
          (s1.ev (Ev.ghost Ghost.fallback))
        rw [hb] at this; exact this
      have m2 := D_mono l2
      cases r2 with
      | tuple c0 =>
        simp only at heq
        inj2 heq
        have e1 : s1.all = s.all := hf.spec _ _ _ _ h1 (by omega)
        have hb' := blockMatch_A hf hb (by omega)
        simp only [MRel, St.ev_all] at hb'
        simp only [USpec]
        exact Acc.extend (hacc.same e1) hb'
      | none =>
        simp only at heq
        inj2 heq
        have l3 := D_mono (ghostIf_log (!rc.isEmpty) Ghost.progDrop s2)
        cases hrc : rc with
        | cons t0 rc1 =>
          exfalso
          subst hrc
          simp only [List.isEmpty_cons, Bool.not_false, ghostIf, if_true] at hD
          rw [D_ev_drop _ _ rfl] at hD
          omega
        | nil =>
          subst hrc
          simp only [List.isEmpty_nil, Bool.not_true, ghostIf, Bool.false_eq_true, if_false] at hD ⊢
          have e1 : s1.all = s.all := hf.spec _ _ _ _ h1 (by omega)
          have hb' := blockMatch_A hf hb (by omega)
          simp only [MRel, St.ev_all] at hb'
          simp only [USpec, PSpec]
          unfold Acc at hacc; simp [frontierL] at hacc
          rw [hb', e1]; exact hacc.symm
      | raise e2 =>
        simp only at heq
        inj2 heq
        simp only [USpec, PSpec]
        cases e2 with
        | noMatch =>
          simp only [hq, if_true]
          cases hrc : rc with
          | cons t0 rc1 =>
            exfalso
            subst hrc
            simp only [beq_self_eq_true, List.isEmpty_cons, Bool.not_false, Bool.and_self,
              ghostIf, if_true] at hD
            rw [D_ev_drop _ _ rfl] at hD
            omega
          | nil =>
            subst hrc
            simp only [List.isEmpty_nil, Bool.not_true, Bool.and_false, ghostIf,
              Bool.false_eq_true, if_false] at hD ⊢
            have e1 : s1.all = s.all := hf.spec _ _ _ _ h1 (by omega)
            have hb' := blockMatch_A hf hb (by omega)
            simp only [MRel, St.ev_all] at hb'
            unfold Acc at hacc; simp [frontierL] at hacc
            rw [hb', e1]; exact hacc.symm
        | _ => trivial
    · rename_i hc
      inj2 heq
      simp only [USpec, PSpec]
      cases e with
      | noMatch =>
        have hq : env.tbl.quirks.programContinues = false := by
          simpa using hc
        simp only [hq, Bool.false_eq_true, if_false]
        exact hacc.same (hf.spec _ _ _ _ h1 hD)
      | _ => trivial
  · rename_i o s1 hne h1
    inj2 heq
    have := hf.spec _ _ _ _ h1 hD
    simp only [USpec]
    cases o with
    | none => exact hacc.same this
    | tree t => exact hacc.push this
    | raise e => exact (hne e rfl).elim

theorem programLoop_A {f : F} (hf : FA f) {unit main0 : Cls} {fuel k : Nat} {rc : List Tree}
    {s0 s : St} {r : PRes} {s' : St} (hacc : Acc s0 rc s)
    (heq : programLoop env f unit main0 fuel k rc s = (r, s')) (hD : D s' = D s) :
    PSpec env.tbl.quirks s0 r s' := by
  induction k generalizing rc s with
  | zero => simp only [programLoop] at heq; inj2 heq; trivial
  | succ k ih =>
    simp only [programLoop] at heq
    split at heq
    · rename_i r1 s1 h1
      inj2 heq
      exact unitStep_A hf hacc h1 hD
    · rename_i rc1 s1 h1
      have l1 : LogExt s s1 := by
        have := unitStep_rel (L env) hf.log fuel unit main0 rc s; rw [h1] at this; exact this
      have m1 := D_mono l1
      split at heq
      · rename_i e s2 h2
        inj2 heq
        have := addCID_nm h2
        cases e <;> first | trivial | exact absurd rfl this
      · rename_i rc2 s2 h2
        have d2 : D s2 = D s1 := addCID_D h2
        split at heq
        · rename_i s3 h3
          inj2 heq
          have d3 := St.get_D h3
          have a3 := (St.get_none_all h3).1
          have hu : USpec env.tbl.quirks s0 (.go rc1) s1 := unitStep_A hf hacc h1 (by omega)
          have := (addCID_A hu h2).2 rc2 rfl
          simp only [PSpec]
          exact this.same a3
        · rename_i it s3 h3
          have d3 := St.get_D h3
          have a3 := St.get_some_all h3
          have l4 : LogExt (s3.put it) s' := by
            have := programLoop_rel (L env) hf.log unit main0 fuel k rc2 (s3.put it)
            rw [heq] at this; exact this
          have m4 := D_mono l4
          have dp : D (s3.put it) = D s3 := D_put _ _
          have hu : USpec env.tbl.quirks s0 (.go rc1) s1 := unitStep_A hf hacc h1 (by omega)
          have hacc2 := (addCID_A hu h2).2 rc2 rfl
          have hacc3 : Acc s0 rc2 (s3.put it) := hacc2.same (by simp [a3])
          exact ih hacc3 heq (by omega)

theorem programMatch_A {f : F} (hf : FA f) {fuel : Nat} {unit main0 : Cls} {s : St} {r : MRes}
    {s' : St} (heq : programMatch env f fuel unit main0 s = (r, s')) (hD : D s' = D s) :
    MRel s r s' := by
  unfold programMatch at heq
  split at heq
  · rename_i e s1 h1
    inj2 heq
    have := addCID_nm h1
    cases e <;> first | trivial | exact absurd rfl this
  · rename_i rc0 s1 h1
    have d1 := addCID_D h1
    have hacc0 := (addCID_A (Acc.nil s) h1).2 rc0 rfl
    split at heq
    · rename_i rc s2 h2
      inj2 heq
      have := programLoop_A hf hacc0 h2 (by omega)
      simp only [PSpec] at this
      simp only [MRel]
      exact this
    · rename_i s2 h2
      inj2 heq
      have := programLoop_A hf hacc0 h2 (by omega)
      simp only [PSpec] at this
      simp only [MRel]
      exact this
    · rename_i rc e s2 h2
      have l2 : LogExt s1 s2 := by
        have := programLoop_rel (L env) hf.log unit main0 fuel fuel rc0 s1
        rw [h2] at this; exact this
      have m2 := D_mono l2
      split at heq
      · rename_i hc
        simp only [Bool.and_eq_true, beq_iff_eq, Bool.not_eq_true'] at hc
        obtain ⟨rfl, hq⟩ := hc
        generalize hs3 : ghostIf (!rc.isEmpty) Ghost.progDrop (s2.ev (Ev.ghost Ghost.fallback)) = s3
          at heq
        have l3 : LogExt s3 s' := by
          have := blockMatch_rel (L env) hf.log fuel (fallbackCfg main0) s3
          rw [heq] at this; exact this
        have m3 := D_mono l3
        have df : D (s2.ev (Ev.ghost Ghost.fallback)) = D s2 := D_ev_nondrop _ _ rfl
        cases hrc : rc with
        | cons t0 rc1 =>
          exfalso
          subst hrc
          simp only [List.isEmpty_cons, Bool.not_false, ghostIf, if_true] at hs3
          subst hs3
          have : D ((s2.ev (Ev.ghost Ghost.fallback)).ev (Ev.ghost Ghost.progDrop)) = D s2 + 1 := by
            rw [D_ev_drop _ _ rfl, df]
          omega
        | nil =>
          subst hrc
          simp only [List.isEmpty_nil, Bool.not_true, ghostIf, Bool.false_eq_true, if_false] at hs3
          subst hs3
          have hp := programLoop_A hf hacc0 h2 (by omega)
          simp only [PSpec, hq, Bool.false_eq_true, if_false] at hp
          have e2 : (s2.ev (Ev.ghost Ghost.fallback)).all = s.all := by
            unfold Acc at hp; simp [frontierL] at hp; simpa using hp.symm
          have hb := blockMatch_A hf heq (by omega)
          exact hb.shift e2
      · rename_i hc
        inj2 heq
        simp only [MRel]
        cases e with
        | noMatch =>
          have hq : env.tbl.quirks.programContinues = true := by simpa using hc
          have hp := programLoop_A hf hacc0 h2 (by omega)
          simp only [PSpec, hq, if_true] at hp
          exact hp
        | _ => trivial

def ARel (s0 : St) (o : Outcome) (s' : St) : Prop :=
  match o with
  | .none => s'.all = s0.all
  | .tree t => s0.all = t.frontier ++ s'.all
  | .raise .noMatch => s'.all = s0.all
  | .raise _ => True

theorem ASpec.rel {s : St} {o : Outcome} {s' : St} (h : ASpec s o s') (hD : D s' = D s) :
    ARel s o s' := h hD

theorem ARel.shift {s0 s1 : St} {o : Outcome} {s' : St} (h : ARel s1 o s') (e : s1.all = s0.all) :
    ARel s0 o s' := by
  unfold ARel at *
  cases o with
  | none => rw [← e]; exact h
  | tree t => rw [← e]; exact h
  | raise x => cases x <;> first | trivial | (rw [← e]; exact h)

theorem altLoop_A {g : G} (hg : GA g) {ds pc : List Cls} {s0 s : St} {o : Outcome}
    {pc' : List Cls} {s' : St} (h0 : s.all = s0.all)
    (heq : altLoop env g ds pc s = (o, pc', s')) (hD : D s' = D s) : ARel s0 o s' := by
  induction ds generalizing pc s with
  | nil =>
    simp only [altLoop] at heq
    inj3 heq
    unfold blankRule
    split
    · exact h0
    · exact h0
  | cons d ds ih =>
    simp only [altLoop] at heq
    split at heq
    · exact ih h0 heq hD
    · split at heq
      · rename_i t pc1 s1 h1
        inj3 heq
        exact ((hg.spec _ _ _ _ _ _ h1).rel hD).shift h0
      · rename_i pc1 s1 h1
        have l1 : LogExt s s1 := by have := hg.log d pc s; rw [h1] at this; exact this
        have l2 : LogExt s1 s' := by
          have := altLoop_rel (L env) hg.log ds pc1 s1; rw [heq] at this; exact this
        have m1 := D_mono l1; have m2 := D_mono l2
        have : s1.all = s.all := (hg.spec _ _ _ _ _ _ h1).rel (by omega)
        exact ih (by rw [this, h0]) heq (by omega)
      · rename_i pc1 s1 h1
        have l1 : LogExt s s1 := by have := hg.log d pc s; rw [h1] at this; exact this
        have l2 : LogExt s1 s' := by
          have := altLoop_rel (L env) hg.log ds pc1 s1; rw [heq] at this; exact this
        have m1 := D_mono l1; have m2 := D_mono l2
        have : s1.all = s.all := (hg.spec _ _ _ _ _ _ h1).rel (by omega)
        exact ih (by rw [this, h0]) heq (by omega)
      · rename_i e pc1 s1 hne h1
        inj3 heq
        cases e <;> first | trivial | exact (hne _ _ rfl).elim

theorem finish_A {g : G} (hg : GA g) {c : Cls} {subs : List Cls} {r : MRes} {s s1 : St}
    {pc : List Cls} {o : Outcome} {pc' : List Cls} {s' : St}
    (hr : D s1 = D s → MRel s r s1) (hl : LogExt s s1)
    (heq : finish env g c subs (r, s1) pc = (o, pc', s')) : ASpec s o s' := by
  intro hD
  show ARel s o s'
  unfold finish at heq
  split at heq
  · rename_i content sa hh
    inj3 heq
    simp only [Prod.mk.injEq] at hh
    obtain ⟨rfl, rfl⟩ := hh
    have := hr hD
    simp only [MRel] at this
    simp only [ARel, Tree.frontier]; exact this
  · rename_i sa hh
    simp only [Prod.mk.injEq] at hh
    obtain ⟨rfl, rfl⟩ := hh
    have l2 : LogExt s1 s' := by
      have := altLoop_rel (L env) hg.log subs pc s1; rw [heq] at this; exact this
    have m1 := D_mono hl; have m2 := D_mono l2
    have h1 := hr (by omega)
    simp only [MRel] at h1
    exact altLoop_A hg h1 heq (by omega)
  · rename_i sa hh
    simp only [Prod.mk.injEq] at hh
    obtain ⟨rfl, rfl⟩ := hh
    have l2 : LogExt s1 s' := by
      have := altLoop_rel (L env) hg.log subs pc s1; rw [heq] at this; exact this
    have m1 := D_mono hl; have m2 := D_mono l2
    have h1 := hr (by omega)
    simp only [MRel] at h1
    exact altLoop_A hg h1 heq (by omega)
  · rename_i e sa hne hh
    simp only [Prod.mk.injEq] at hh
    obtain ⟨rfl, rfl⟩ := hh
    inj3 heq
    cases e <;> first | trivial | exact (hne _ rfl).elim

theorem eval_log (env : Env) (fuel : Nat) : GRel LogExt (eval env fuel) := eval_rel (L env) fuel

theorem eval_A (env : Env) (fuel : Nat) : GA (eval env fuel) := by
  induction fuel with
  | zero =>
    refine ⟨eval_log env 0, fun c pc s o pc' s' heq => ?_⟩
    simp only [eval] at heq; inj3 heq; intro _; trivial
  | succ fuel ih =>
    refine ⟨eval_log env (fuel + 1), fun c pc s o pc' s' heq => ?_⟩
    have hf : FA (fresh (eval env fuel)) := fresh_A ih
    simp only [eval] at heq
    split at heq
    · exact (leafNew_A heq).1
    · intro hD
      exact altLoop_A ih rfl heq hD
    · rename_i cfg subs _
      generalize hb : blockMatch env (fresh (eval env fuel)) fuel cfg s = br at heq
      obtain ⟨r, s1⟩ := br
      exact finish_A ih (fun hd => blockMatch_A hf hb hd)
        (by have := blockMatch_rel (L env) hf.log fuel cfg s; rw [hb] at this; exact this) heq
    · rename_i item subs _
      generalize hb : manyLoop (fresh (eval env fuel)) item fuel [] s = br at heq
      obtain ⟨r, s1⟩ := br
      exact finish_A ih (fun hd => manyLoop_A env hf (Acc.nil s) hb hd)
        (by have := manyLoop_rel (L env) hf.log item fuel [] s; rw [hb] at this; exact this) heq
    · rename_i cs subs _
      generalize hb : seqNR env.tbl.quirks (fresh (eval env fuel)) cs [] s = br at heq
      obtain ⟨r, s1⟩ := br
      exact finish_A ih (fun hd => seqNR_A env hf (Acc.nil s) hb hd)
        (by have := seqNR_log env hf.log env.tbl.quirks cs [] s; rw [hb] at this; exact this) heq
    · rename_i cfg scope subs _
      generalize hb : main0Match env (fresh (eval env fuel)) fuel cfg scope s = br at heq
      obtain ⟨r, s1⟩ := br
      exact finish_A ih (fun hd => main0Match_A hf hb hd)
        (by have := main0Match_rel (L env) hf.log fuel cfg scope s; rw [hb] at this; exact this) heq
    · rename_i unit main0 subs _
      generalize hb : programMatch env (fresh (eval env fuel)) fuel unit main0 s = br at heq
      obtain ⟨r, s1⟩ := br
      generalize hfin : finish env (eval env fuel) c subs (r, s1) [c] = fr at heq
      obtain ⟨o1, pc1, s2⟩ := fr
      inj3 heq
      have := finish_A ih (fun hd => programMatch_A hf hb hd)
        (by have := programMatch_rel (L env) hf.log fuel unit main0 s; rw [hb] at this; exact this) hfin
      intro hD
      show ARel s (programConvert o1) (programExit env s (programConvert o1) s2)
      cases o1 with
      | none => exact this hD
      | tree t => exact this hD
      | raise e => cases e <;> trivial
    · inj3 heq
      exact (commentNew_A (o := (commentNew env s).1) (s' := (commentNew env s).2) rfl).1
    · inj3 heq
      exact (directiveNew_A (o := (directiveNew env s).1) (s' := (directiveNew env s).2) rfl).1
    · rename_i cs _
      inj3 heq
      exact (cppNew_A (o := (cppNew env cs s).1) (s' := (cppNew env cs s).2) rfl).1

end Fp.Block
