import FparserModel.Py

/-!
# Norm — independent free-form lexer `lexF` and the C02 token normaliser `norm`

`lexF` is written from the Fortran free-form lexical rules, *not* from fparser's code:
it is the independent observer used to compare the source with the text printed from
the parse tree.  `norm` applies exactly the canonicalisations the fparser2 printer was
measured to perform (see `fv/cosim_norm.py` for the calibration and the negative
controls) and nothing else:

* every token outside a character literal is upper-cased (`pre`);
* compound keywords are split to one spelling (`ENDIF` → `END IF`, `GOTO` → `GO TO`,
  `INOUT` → `IN OUT`, `ELSEWHERE` → `ELSE WHERE`, …) (`pre`);
* deletions (`pass`): `::` at parenthesis depth 0; `KIND =` directly after
  `INTEGER|REAL|COMPLEX|LOGICAL|CHARACTER (`; `LEN =`/`KIND =` inside a `CHARACTER(…)`
  selector; `UNIT =` directly after `CLOSE|REWIND|ENDFILE|BACKSPACE|FLUSH|WAIT|OPEN|INQUIRE (`;
  the empty `( )` that ends a `CALL x`, `ENTRY x` or `SUBROUTINE x` (also before `BIND`);
  the comma before a `/` in `NAMELIST`, after a `/` in `DATA`, after the label list of a
  computed `GO TO (…)`; every comma of a `FORMAT` item list.

`norm` never deletes anything but operator tokens and the three keywords `KIND LEN UNIT`
(`droppable`), which is what `Props/Norm.lean` proves.  `.EQ.` and `==` are *not* unified.
No Mathlib.
-/
namespace Fp.Norm
open Fp

inductive Tok
  | name (s : Str)    -- identifier or keyword
  | num (s : Str)     -- numeric literal incl. exponent and kind suffix
  | boz (s : Str)     -- B'01' O"17" Z'FF'
  | chr (s : Str)     -- character literal, verbatim: optional kind prefix, delimiters, body
  | dot (s : Str)     -- .EQ. .AND. .TRUE. .FALSE._4 .MYOP.
  | op (s : Str)      -- operator / punctuation
  | label (s : Str)   -- statement label (digits at statement start)
  | fch (c : Char)    -- one character of a FORMAT item list (see `fmtx`)
  | eos               -- statement boundary (newline or `;`)
  deriving DecidableEq, Repr, Inhabited

/-! ## lexer -/

def isBlank (c : Char) : Bool := c == ' ' || c == '\t' || c == '\r'
def isQuote (c : Char) : Bool := c == '\'' || c == '"'
def isNameStart (c : Char) : Bool := c.isAlpha || c == '_'

/-- input just after a `.`: `letters+ .` follows → number of letters -/
def dottedLen (s : Str) : Option Nat :=
  let w := s.takeWhile Char.isAlpha
  if w.length > 0 && (s.drop w.length).head? == some '.' then some w.length else none

/-- optional `_kind` -/
def scanKind (s : Str) : Str × Str :=
  match s with
  | '_' :: r =>
    let k := r.takeWhile isWord
    if k.isEmpty then ([], s) else ('_' :: k, r.drop k.length)
  | _ => ([], s)

def isExpLetter (c : Char) : Bool :=
  c == 'e' || c == 'E' || c == 'd' || c == 'D' || c == 'q' || c == 'Q'

/-- optional exponent `[eEdDqQ][+-]?digits` -/
def scanExp (s : Str) : Str × Str :=
  match s with
  | e :: r =>
    if isExpLetter e then
      let sg : Str × Str := match r with
        | '+' :: r' => (['+'], r')
        | '-' :: r' => (['-'], r')
        | _ => ([], r)
      let ds := sg.2.takeWhile isDigit
      if ds.isEmpty then ([], s) else (e :: sg.1 ++ ds, sg.2.drop ds.length)
    else ([], s)
  | [] => ([], s)

/-- numeric literal: digits [. digits] [exponent] [_kind]; a `.` that starts a dotted
    operator (`1.eq.2`) is not consumed -/
def scanNum (s : Str) : Str × Str :=
  let d1 := s.takeWhile isDigit
  let r1 := s.drop d1.length
  let fr : Str × Str := match r1 with
    | '.' :: r =>
      if (dottedLen r).isSome then ([], r1)
      else
        let d2 := r.takeWhile isDigit
        ('.' :: d2, r.drop d2.length)
    | _ => ([], r1)
  let ex := scanExp fr.2
  let kd := scanKind ex.2
  (d1 ++ fr.1 ++ ex.1 ++ kd.1, kd.2)

/-- input just after an `&`: only blanks up to the newline → text after the newline -/
def trailingAmp (s : Str) : Option Str :=
  match s.dropWhile isBlank with
  | '\n' :: r => some r
  | _ => none

/-- body of a character literal after the opening delimiter `q` (doubled delimiter kept,
    `&`-continuation inside the literal removed); result = body incl. closing delimiter -/
def scanChr (q : Char) : Nat → Str → Str → Str × Str
  | 0, s, acc => (acc.reverse, s)
  | _+1, [], acc => (acc.reverse, [])
  | n+1, c :: cs, acc =>
    if c == q then
      match cs with
      | c2 :: cs2 =>
        if c2 == q then scanChr q n cs2 (q :: q :: acc) else ((q :: acc).reverse, cs)
      | [] => ((q :: acc).reverse, [])
    else if c == '\n' then (acc.reverse, c :: cs)
    else if c == '&' then
      match trailingAmp cs with
      | some r =>
        match r.dropWhile isBlank with
        | '&' :: r' => scanChr q n r' acc
        | _ => scanChr q n r acc
      | none => scanChr q n cs (c :: acc)
    else scanChr q n cs (c :: acc)

def isBozLetter (w : Str) : Bool :=
  w == ['b'] || w == ['B'] || w == ['o'] || w == ['O'] || w == ['z'] || w == ['Z']
  || w == ['x'] || w == ['X']

/-- two-character operators that are lexed as one token -/
def isOp2 (a b : Char) : Bool :=
  (a == '*' && b == '*') || (a == '=' && b == '=') || (a == '/' && b == '=')
  || (a == '<' && b == '=') || (a == '>' && b == '=') || (a == '=' && b == '>')

/-- lexer modes: `bol` no token yet in this statement, `cont` after a trailing `&`,
    `mid` inside a statement -/
inductive Mode | bol | cont | mid
  deriving DecidableEq, Repr

def lexGo : Nat → Mode → Str → List Tok
  | 0, _, _ => []
  | _+1, m, [] => if m == .mid then [.eos] else []
  | n+1, m, c :: cs =>
    if isBlank c then lexGo n m cs
    else if c == '!' then lexGo n m (cs.dropWhile (· != '\n'))
    else if c == '\n' || c == ';' then
      if m == .mid then .eos :: lexGo n .bol cs
      else if c == ';' && m == .cont then lexGo n .bol cs
      else lexGo n m cs
    else if c == '&' then
      if m == .mid then
        match cs.dropWhile isBlank with
        | [] => lexGo n .cont cs
        | c2 :: _ => if c2 == '\n' || c2 == '!' then lexGo n .cont cs else lexGo n .mid cs
      else if m == .cont then lexGo n .mid cs
      else lexGo n m cs
    else if isQuote c then
      let b := scanChr c (cs.length + 1) cs []
      .chr (c :: b.1) :: lexGo n .mid b.2
    else if c.isDigit || (c == '.' && (cs.head?.map Char.isDigit).getD false) then
      if m == .bol && c.isDigit then
        let d := (c :: cs).takeWhile isDigit
        .label d :: lexGo n .mid ((c :: cs).drop d.length)
      else
        let t := scanNum (c :: cs)
        match t.2 with
        | '_' :: q :: r' =>
          if isQuote q then
            let b := scanChr q (r'.length + 1) r' []
            .chr (t.1 ++ '_' :: q :: b.1) :: lexGo n .mid b.2
          else .num t.1 :: lexGo n .mid t.2
        | _ => .num t.1 :: lexGo n .mid t.2
    else if c == '.' then
      match dottedLen cs with
      | some k =>
        let kd := scanKind (cs.drop (k + 1))
        .dot ('.' :: cs.take k ++ '.' :: kd.1) :: lexGo n .mid kd.2
      | none => .op ['.'] :: lexGo n .mid cs
    else if isNameStart c then
      let w := (c :: cs).takeWhile isWord
      let r := (c :: cs).drop w.length
      match r with
      | q :: r' =>
        if isQuote q && (w.getLast? == some '_' || isBozLetter w) then
          let b := scanChr q (r'.length + 1) r' []
          (if isBozLetter w then Tok.boz (w ++ q :: b.1) else Tok.chr (w ++ q :: b.1))
            :: lexGo n .mid b.2
        else .name w :: lexGo n .mid r
      | [] => .name w :: lexGo n .mid r
    else
      match cs with
      | c2 :: cs2 =>
        if isOp2 c c2 then .op [c, c2] :: lexGo n .mid cs2 else .op [c] :: lexGo n .mid cs
      | [] => .op [c] :: lexGo n .mid cs

/-- the free-form lexer -/
def lexF (s : Str) : List Tok := lexGo (s.length + 1) .bol s

/-! ## FORMAT item lists are compared character by character -/

def tokText : Tok → Str
  | .name s => s | .num s => s | .boz s => s | .chr s => s | .dot s => s | .op s => s
  | .label s => s | .fch c => [c] | .eos => ['\n']

def explode : Tok → List Tok
  | .chr s => [.chr s]
  | .fch c => [.fch c]
  | .eos => [.eos]
  | t => (tokText t).map .fch

def isFormatKw (s : Str) : Bool := upper s == "FORMAT".toList

/-- `label FORMAT item-list` : every token of the item list except character literals is
    replaced by its characters (`fch`), so that `1PE10.3` and `1P, E10.3` meet -/
def fmtxGo : Bool → Bool → List Tok → List Tok
  | _, _, [] => []
  | _, _, .eos :: rest => .eos :: fmtxGo true false rest
  | true, false, .label l :: .name f :: rest =>
    if isFormatKw f then .label l :: .name f :: fmtxGo false true rest
    else .label l :: .name f :: fmtxGo false false rest
  | _, true, t :: rest => explode t ++ fmtxGo false true rest
  | _, false, t :: rest => t :: fmtxGo false false rest

def fmtx (ts : List Tok) : List Tok := fmtxGo true false ts

/-! ## normaliser, part 1: case folding and compound keywords (context free) -/

def S (s : String) : Str := s.toList

/-- compound keywords and their split spelling -/
def splitTbl : List (Str × List Str) := [
  (S "ENDIF", [S "END", S "IF"]), (S "ENDDO", [S "END", S "DO"]),
  (S "ENDPROGRAM", [S "END", S "PROGRAM"]), (S "ENDSUBROUTINE", [S "END", S "SUBROUTINE"]),
  (S "ENDFUNCTION", [S "END", S "FUNCTION"]), (S "ENDMODULE", [S "END", S "MODULE"]),
  (S "ENDSUBMODULE", [S "END", S "SUBMODULE"]), (S "ENDTYPE", [S "END", S "TYPE"]),
  (S "ENDINTERFACE", [S "END", S "INTERFACE"]), (S "ENDSELECT", [S "END", S "SELECT"]),
  (S "ENDWHERE", [S "END", S "WHERE"]), (S "ENDFORALL", [S "END", S "FORALL"]),
  (S "ENDASSOCIATE", [S "END", S "ASSOCIATE"]), (S "ENDBLOCK", [S "END", S "BLOCK"]),
  (S "ENDBLOCKDATA", [S "END", S "BLOCK", S "DATA"]), (S "ENDCRITICAL", [S "END", S "CRITICAL"]),
  (S "ENDENUM", [S "END", S "ENUM"]), (S "ENDPROCEDURE", [S "END", S "PROCEDURE"]),
  (S "ELSEIF", [S "ELSE", S "IF"]), (S "ELSEWHERE", [S "ELSE", S "WHERE"]),
  (S "GOTO", [S "GO", S "TO"]), (S "SELECTCASE", [S "SELECT", S "CASE"]),
  (S "SELECTTYPE", [S "SELECT", S "TYPE"]), (S "INOUT", [S "IN", S "OUT"]),
  (S "DOUBLEPRECISION", [S "DOUBLE", S "PRECISION"]), (S "DOUBLECOMPLEX", [S "DOUBLE", S "COMPLEX"]),
  (S "BLOCKDATA", [S "BLOCK", S "DATA"])]

def lookupSplit (s : Str) : Option (List Str) := (splitTbl.find? (·.1 == s)).map (·.2)

/-- one token → its case-folded, keyword-split form.  Character literals are untouched. -/
def pre1 : Tok → List Tok
  | .name s =>
    match lookupSplit (upper s) with
    | some parts => parts.map .name
    | none => [.name (upper s)]
  | .num s => [.num (upper s)]
  | .boz s => [.boz (upper s)]
  | .dot s => [.dot (upper s)]
  | .op s => [.op s]
  | .label s => [.label s]
  | .fch c => [.fch (upperC c)]
  | .chr s => [.chr s]
  | .eos => [.eos]

def pre (ts : List Tok) : List Tok := ts.flatMap pre1

/-! ## normaliser, part 2: context-dependent deletions -/

/-- the only tokens `norm` may delete -/
def droppable : Tok → Bool
  | .op _ => true
  | .fch c => c == ','
  | .name s => s == S "KIND" || s == S "LEN" || s == S "UNIT"
  | _ => false

def typeKw (s : Str) : Bool :=
  s == S "INTEGER" || s == S "REAL" || s == S "COMPLEX" || s == S "LOGICAL" || s == S "CHARACTER"

def unitKw (s : Str) : Bool :=
  s == S "CLOSE" || s == S "REWIND" || s == S "ENDFILE" || s == S "BACKSPACE" || s == S "FLUSH"
  || s == S "WAIT" || s == S "OPEN" || s == S "INQUIRE"

def isOp (t : Tok) (c : Char) : Bool := t == .op [c]
def isName (t : Tok) (s : Str) : Bool := t == .name s
def nameSat (t : Tok) (p : Str → Bool) : Bool := match t with | .name s => p s | _ => false

/-- scan state of the deletion pass (reset at every statement boundary) -/
structure St where
  depth : Nat := 0          -- open ( and [
  p1 : Tok := .eos          -- previous token of the statement
  p2 : Tok := .eos          -- the one before
  head : Bool := true       -- only a label seen so far
  nml : Bool := false       -- NAMELIST statement
  dat : Bool := false       -- DATA statement
  dropEq : Bool := false    -- the `=` after a deleted KIND/LEN/UNIT
  dropRp : Bool := false    -- the `)` after a deleted `(`
  callm : Nat := 0          -- 1: after CALL/ENTRY + designator names, 2: after SUBROUTINE + name
  chsel : Option Nat := none -- depth of the tokens inside a CHARACTER( ) selector
  gt : Nat := 0             -- 1 GO, 2 GO TO, 3 inside the label list, 4 just after it
  deriving Repr

/-- does the pass want to delete `t` (next tokens `n1 n2`)? -/
def wants (st : St) (t n1 n2 : Tok) : Bool :=
  match t with
  | .name s =>
    isOp n1 '=' &&
      ((s == S "KIND" && isOp st.p1 '(' && nameSat st.p2 typeKw)
       || ((s == S "KIND" || s == S "LEN") && st.chsel == some st.depth
            && (isOp st.p1 '(' || isOp st.p1 ','))
       || (s == S "UNIT" && isOp st.p1 '(' && nameSat st.p2 unitKw))
  | .op [c] =>
    if c == ':' then st.depth == 0 && (isOp n1 ':' || isOp st.p1 ':')
    else if c == '=' then st.dropEq
    else if c == '(' then
      st.callm > 0 && st.depth == 0 && isOp n1 ')'
        && (n2 == .eos || (st.callm == 2 && isName n2 (S "BIND")))
    else if c == ')' then st.dropRp
    else if c == ',' then
      st.depth == 0 && ((st.nml && isOp n1 '/') || (st.dat && isOp st.p1 '/') || st.gt == 4)
    else false
  | .fch c => c == ','
  | _ => false

def upd (st : St) (t : Tok) (dropped : Bool) : St :=
  match t with
  | .eos => {}
  | _ =>
    let opens := isOp t '(' || isOp t '['
    let closes := isOp t ')' || isOp t ']'
    let depth' := if opens then st.depth + 1 else if closes then st.depth - 1 else st.depth
    let isLabel := match t with | .label _ => true | _ => false
    let callm' :=
      if st.depth == 0 && (isName t (S "CALL") || isName t (S "ENTRY")) then 1
      else if st.depth == 0 && isName t (S "SUBROUTINE") then 2
      else if st.depth > 0 then st.callm
      else match t with
        | .name _ => st.callm
        | _ => if isOp t '%' || isOp t '(' || isOp t ')' then st.callm else 0
    let chsel' :=
      if isOp t '(' && isName st.p1 (S "CHARACTER") then some (st.depth + 1)
      else if closes && st.chsel == some st.depth then none
      else st.chsel
    let gt' :=
      if isName t (S "GO") then 1
      else if st.gt == 1 && isName t (S "TO") then 2
      else if st.gt == 2 && isOp t '(' && st.depth == 0 then 3
      else if st.gt == 3 then (if isOp t ')' && st.depth == 1 then 4 else 3)
      else 0
    { depth := depth', p1 := t, p2 := st.p1,
      head := st.head && isLabel,
      nml := st.nml || (st.head && isName t (S "NAMELIST")),
      dat := st.dat || (st.head && isName t (S "DATA")),
      dropEq := dropped && (match t with | .name _ => true | _ => false),
      dropRp := dropped && isOp t '(',
      callm := callm', chsel := chsel', gt := gt' }

/-- one left-to-right deletion pass -/
def passGo : St → List Tok → List Tok
  | _, [] => []
  | st, t :: rest =>
    let d := droppable t && wants st t (rest.headD .eos) ((rest.drop 1).headD .eos)
    if d then passGo (upd st t true) rest else t :: passGo (upd st t false) rest

def pass (ts : List Tok) : List Tok := passGo {} ts

/-- apply `pass` until nothing is deleted any more (`pass` only deletes, so the length
    tells) -/
def fixpass : Nat → List Tok → List Tok
  | 0, ts => ts
  | n+1, ts =>
    let ts' := pass ts
    if ts'.length == ts.length then ts else fixpass n ts'

/-- the normaliser -/
def norm (ts : List Tok) : List Tok :=
  let p := pre ts
  fixpass (p.length + 1) p

/-- the comparison key of a text: lex, FORMAT item lists to characters, normalise -/
def canon (s : Str) : List Tok := norm (fmtx (lexF s))

/-! ## printing -/

def showTok : Tok → Str
  | .name s => 'n' :: ':' :: s
  | .num s => '#' :: ':' :: s
  | .boz s => 'z' :: ':' :: s
  | .chr s => 'c' :: ':' :: s
  | .dot s => 'd' :: ':' :: s
  | .op s => 'o' :: ':' :: s
  | .label s => 'l' :: ':' :: s
  | .fch c => ['f', ':', c]
  | .eos => [';']

def showToks (ts : List Tok) : Str := (ts.map showTok).intersperse [' '] |>.flatten

/-- first index where two token lists differ -/
def firstDiff : List Tok → List Tok → Nat → Option (Nat × Option Tok × Option Tok)
  | [], [], _ => none
  | a :: _, [], i => some (i, some a, none)
  | [], b :: _, i => some (i, none, some b)
  | a :: as, b :: bs, i => if a == b then firstDiff as bs (i + 1) else some (i, some a, some b)

end Fp.Norm
