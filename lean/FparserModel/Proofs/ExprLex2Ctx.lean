import FparserModel.Proofs.ExprLex2Canon

/-!
Locality of the scanners: how `dotWord`, `tokAt`, `matchAt` react when the text behind the
inspected place is cut off (`x ++ y` → `x`) and when the look-behind character is forgotten.
-/
set_option linter.unusedSimpArgs false
namespace Fp.ExprLex
open Fp Fp.Expr

/-! ### `dropWhile` / `takeWhile` and `++` -/

theorem dw_app_ne {α} (p : α → Bool) : ∀ (l y : List α), l.dropWhile p ≠ [] →
    (l ++ y).dropWhile p = l.dropWhile p ++ y ∧ (l ++ y).takeWhile p = l.takeWhile p
  | [], _, h => absurd rfl h
  | a :: l, y, h => by
    by_cases hp : p a = true
    · simp only [List.dropWhile_cons, hp, ↓reduceIte] at h
      have := dw_app_ne p l y h
      simp [List.dropWhile_cons, List.takeWhile_cons, hp, this]
    · simp [List.dropWhile_cons, List.takeWhile_cons, hp]

theorem dw_app_nil {α} (p : α → Bool) : ∀ (l y : List α), l.dropWhile p = [] →
    (l ++ y).dropWhile p = y.dropWhile p
  | [], _, _ => rfl
  | a :: l, y, h => by
    by_cases hp : p a = true
    · simp only [List.dropWhile_cons, hp, ↓reduceIte] at h
      simp [List.dropWhile_cons, hp, dw_app_nil p l y h]
    · simp [List.dropWhile_cons, hp] at h

theorem dw_last {α} (p : α → Bool) : ∀ (l : List α) (a : α), l.dropWhile p = [a] → l.getLast? = some a
  | [], _, h => by simp at h
  | b :: l, a, h => by
    by_cases hp : p b = true
    · simp only [List.dropWhile_cons, hp, ↓reduceIte] at h
      have := dw_last p l a h
      cases l with
      | nil => simp at h
      | cons c l' => simpa [List.getLast?_cons_cons] using this
    · simp only [List.dropWhile_cons, hp] at h
      simp only [Bool.false_eq_true, ↓reduceIte, List.cons.injEq] at h
      rw [h.1, h.2]; rfl

/-! ### `dotWord` -/

def dotRest (r : Str) : Str := dropSp ((dropSp r).dropWhile isAlpha)
def dotLet (r : Str) : Str := (dropSp r).takeWhile isAlpha

theorem dotWord_cons (r : Str) :
    dotWord ('.' :: r) =
      match dotRest r with
      | '.' :: _ => if dotLet r = [] then none else some (upper (dotLet r), r.length - (dotRest r).length + 2)
      | _ => none := rfl

theorem dotWord_notdot (c : Char) (r : Str) (h : c ≠ '.') : dotWord (c :: r) = none := by
  unfold dotWord
  split
  · rename_i heq; simp only [List.cons.injEq] at heq; exact absurd heq.1 h
  · rfl

theorem dotWord_nil : dotWord [] = none := rfl

theorem dotRest_le (r : Str) : (dotRest r).length ≤ r.length :=
  Nat.le_trans (dropSp_length_le _) (Nat.le_trans (dropWhile_length_le _ _) (dropSp_length_le _))

theorem dotRest_app (r y : Str) (h : dotRest r ≠ []) :
    dotRest (r ++ y) = dotRest r ++ y ∧ dotLet (r ++ y) = dotLet r := by
  unfold dotRest dotLet dropSp at *
  have h2 : (r.dropWhile isSpace).dropWhile isAlpha ≠ [] := by
    intro h0; rw [h0] at h; exact h rfl
  have h1 : r.dropWhile isSpace ≠ [] := by
    intro h0; rw [h0] at h2; exact h2 rfl
  obtain ⟨e1, _⟩ := dw_app_ne isSpace r y h1
  obtain ⟨e2, e3⟩ := dw_app_ne isAlpha (r.dropWhile isSpace) y h2
  obtain ⟨e4, _⟩ := dw_app_ne isSpace ((r.dropWhile isSpace).dropWhile isAlpha) y h
  rw [e1, e2, e3, e4]
  exact ⟨rfl, rfl⟩

theorem dotRest_short (r y : Str) (h : dotRest r = []) : (dotRest (r ++ y)).length ≤ y.length := by
  unfold dotRest dropSp at *
  by_cases h1 : r.dropWhile isSpace = []
  · rw [dw_app_nil isSpace r y h1]
    exact Nat.le_trans (dropWhile_length_le _ _) (Nat.le_trans (dropWhile_length_le _ _) (dropWhile_length_le _ _))
  · rw [(dw_app_ne isSpace r y h1).1]
    by_cases h2 : (r.dropWhile isSpace).dropWhile isAlpha = []
    · rw [dw_app_nil isAlpha _ y h2]
      exact Nat.le_trans (dropWhile_length_le _ _) (dropWhile_length_le _ _)
    · rw [(dw_app_ne isAlpha _ y h2).1, dw_app_nil isSpace _ y h]
      exact dropWhile_length_le _ _

theorem dotWord_ext (x y w : Str) (n : Nat) (h : dotWord x = some (w, n)) :
    dotWord (x ++ y) = some (w, n) := by
  cases x with
  | nil => simp [dotWord_nil] at h
  | cons c r =>
    by_cases hc : c = '.'
    · subst hc
      rw [dotWord_cons] at h
      rw [List.cons_append, dotWord_cons]
      split at h
      · rename_i tl hr
        have hne : dotRest r ≠ [] := by rw [hr]; simp
        obtain ⟨e1, e2⟩ := dotRest_app r y hne
        rw [e1, e2, hr]
        simp only [List.cons_append]
        split at h
        · cases h
        · rename_i hw
          simp only [hw, ↓reduceIte]
          simp only [Option.some.injEq, Prod.mk.injEq] at h ⊢
          refine ⟨h.1, ?_⟩
          have := dotRest_le r
          rw [hr] at this h
          simp only [List.length_cons, List.length_append] at this h ⊢
          omega
      · cases h
    · rw [dotWord_notdot c r hc] at h; cases h

theorem dotWord_cut (x y w : Str) (n : Nat) (h : dotWord (x ++ y) = some (w, n)) (hn : n ≤ x.length) :
    dotWord x = some (w, n) := by
  have hb := dotWord_bound _ _ _ h
  cases x with
  | nil => simp at hn; omega
  | cons c r =>
    by_cases hc : c = '.'
    · subst hc
      rw [List.cons_append, dotWord_cons] at h
      rw [dotWord_cons]
      split at h
      · rename_i tl hr
        split at h
        · cases h
        · rename_i hw
          simp only [Option.some.injEq, Prod.mk.injEq] at h
          have hle := dotRest_le (r ++ y)
          have hne : dotRest r ≠ [] := by
            intro h0
            have := dotRest_short r y h0
            rw [hr] at this hle h
            simp only [List.length_cons, List.length_append] at this hle h hn
            omega
          obtain ⟨e1, e2⟩ := dotRest_app r y hne
          rw [e1] at hr
          rw [e2] at hw h
          cases hd : dotRest r with
          | nil => exact absurd hd hne
          | cons d tl' =>
            rw [hd] at hr
            simp only [List.cons_append, List.cons.injEq] at hr
            rw [hr.1]
            simp only [hw, ↓reduceIte, Option.some.injEq, Prod.mk.injEq]
            refine ⟨h.1, ?_⟩
            have h2 := h.2
            rw [e1, hd] at h2
            simp only [List.length_cons, List.length_append] at h2 ⊢
            have := dotRest_le r
            rw [hd] at this
            simp only [List.length_cons] at this
            omega
      · cases h
    · rw [List.cons_append, dotWord_notdot c _ hc] at h; cases h

theorem dotIn_ext (q : Pat) (x y : Str) (n : Nat) (h : dotIn q x = some n) : dotIn q (x ++ y) = some n := by
  unfold dotIn at h ⊢
  cases hd : dotWord x with
  | none => simp [hd] at h
  | some wn =>
    obtain ⟨w, m⟩ := wn
    rw [hd] at h
    rw [dotWord_ext x y w m hd]
    exact h

theorem dotIn_cut (q : Pat) (x y : Str) (n : Nat) (h : dotIn q (x ++ y) = some n) (hn : n ≤ x.length) :
    dotIn q x = some n := by
  unfold dotIn at h ⊢
  cases hd : dotWord (x ++ y) with
  | none => simp [hd] at h
  | some wn =>
    obtain ⟨w, m⟩ := wn
    rw [hd] at h
    simp only at h
    split at h
    · rename_i hin
      simp only [Option.some.injEq] at h
      subst h
      rw [dotWord_cut x y w m hd hn]
      simp [hin]
    · cases h

end Fp.ExprLex
