import FparserModel.Proofs.Reader3TermSemiSrm

/-!
# Reader3TermSemiLine — the line-level operations of the reader introduce no `;`

`Clean r`: no `;` character in any pending source line, in any pushed-back line, nor in the
`Line` text of any buffered item (comment items are unconstrained: their text is never
tokenised). `get_single_line`, `get_next_line`, `handle_inline_comment`, label / construct-name
extraction, the OpenMP sentinel replacement and `freeStep` preserve `NS` / `Clean`.
-/
namespace Fp.Reader
open Fp

structure Clean (r : Rd) : Prop where
  src : ∀ l ∈ r.src, NS l
  filo : ∀ l ∈ r.filo, NS l
  fifo : ∀ it ∈ r.fifo, ItemNS it

/-- result of an operation that returns an item -/
structure CPost (p : Res Item × Rd) : Prop where
  st : Clean p.2
  item : ∀ x, p.1 = .ok x → ItemNS x

theorem Clean.setFree {r : Rd} (h : Clean r) (b : Bool) : Clean { r with isFree := b } :=
  ⟨h.src, h.filo, h.fifo⟩

theorem Clean.append {r : Rd} (h : Clean r) (xs : List Item) (hx : ∀ x ∈ xs, ItemNS x) :
    Clean { r with fifo := r.fifo ++ xs } :=
  ⟨h.src, h.filo, fun it hit => by
    rcases List.mem_append.mp hit with h1 | h1
    · exact h.fifo it h1
    · exact hx it h1⟩

theorem Clean.dropFifo {r : Rd} (h : Clean r) (x : Item) (rest : List Item) (hf : r.fifo = x :: rest) :
    Clean { r with fifo := rest } ∧ ItemNS x :=
  ⟨⟨h.src, h.filo, fun it hit => h.fifo it (by rw [hf]; exact List.mem_cons_of_mem _ hit)⟩,
   h.fifo x (by rw [hf]; exact List.mem_cons_self)⟩

theorem replaceSentinelFixed_ns (l : Str) (h : NS l) : NS (replaceSentinelFixed l).1 := by
  unfold replaceSentinelFixed
  split
  · exact NS.cons (by decide) (NS.cons (by decide) (h.drop 2))
  · exact h

theorem pull_ns (a b : Bool) : ∀ (src : List Str) (lc : Nat) (ls : List Str), (∀ l ∈ src, NS l) →
    (∀ l ∈ (pull a b src lc ls).2.1, NS l) ∧ (∀ l, (pull a b src lc ls).1 = some l → NS l)
  | [], lc, ls, _ => by
    simp only [pull]
    exact ⟨fun _ hl => (by cases hl), fun _ hl => (by cases hl)⟩
  | l :: rest, lc, ls, h => by
    have hrest : ∀ x ∈ rest, NS x := fun x hx => h x (List.mem_cons_of_mem _ hx)
    have hl2 : NS (if a = true then (replaceSentinelFixed (cook l)).1 else cook l) := by
      have hc := NS.cook (h l List.mem_cons_self)
      split
      · exact replaceSentinelFixed_ns _ hc
      · exact hc
    unfold pull
    simp only []
    generalize (if a = true then (replaceSentinelFixed (cook l)).1 else cook l) = l2 at hl2
    split
    · exact pull_ns a b rest _ _ hrest
    · exact ⟨hrest, fun x hx => by
        simp only [Option.some.injEq] at hx; subst hx; exact hl2⟩

theorem getSingleLine_clean (r : Rd) (h : Clean r) :
    Clean (getSingleLine r).2 ∧ ∀ l, (getSingleLine r).1 = some l → NS l := by
  unfold getSingleLine
  cases hf : r.filo with
  | cons l f =>
    have hfl := h.filo
    rw [hf] at hfl
    refine ⟨⟨h.src, fun x hx => hfl x (List.mem_cons_of_mem _ hx), h.fifo⟩, fun x hx => ?_⟩
    simp only [Option.some.injEq] at hx; subst hx
    exact hfl _ List.mem_cons_self
  | nil =>
    simp only []
    by_cases hc : r.closed = true
    · simp only [hc, if_true]
      exact ⟨h, fun _ hx => by cases hx⟩
    · have hc' : r.closed = false := by simpa using hc
      simp only [hc', Bool.false_eq_true, if_false]
      have hp := pull_ns (r.omp && !r.isFree) (r.ignoreComments && !r.isFree) r.src r.linecount
        r.linesRev h.src
      cases hq : pull (r.omp && !r.isFree) (r.ignoreComments && !r.isFree) r.src r.linecount r.linesRev with
      | mk o rest1 =>
        obtain ⟨src', lc', ls'⟩ := rest1
        rw [hq] at hp
        simp only [] at hp
        cases o with
        | none =>
          exact ⟨⟨hp.1, fun _ hx => (by cases hx), h.fifo⟩, fun _ hx => (by cases hx)⟩
        | some l =>
          exact ⟨⟨hp.1, fun _ hx => (by cases hx), h.fifo⟩, fun x hx => hp.2 x hx⟩

theorem getNextLine_clean (r : Rd) (h : Clean r) : Clean (getNextLine r).2 := by
  unfold getNextLine
  have hg := getSingleLine_clean r h
  cases hq : getSingleLine r with
  | mk o r1 =>
    rw [hq] at hg
    cases o with
    | none => exact hg.1
    | some l =>
      simp only [putSingleLine]
      refine ⟨hg.1.src, fun x hx => ?_, hg.1.fifo⟩
      rcases List.mem_cons.mp hx with rfl | hx
      · exact hg.2 _ rfl
      · exact hg.1.filo x hx

/-! ### handle_inline_comment -/

theorem hicWalk_ns : ∀ (segs : List Seg) (acc nc c : Str), SegsNS segs → NS acc →
    hicWalk segs acc = some (nc, c) → NS nc
  | [], _, _, _, _, _, h => by simp [hicWalk] at h
  | .quoted s :: rest, acc, nc, c, h1, h2, h => by
    simp only [hicWalk] at h
    exact hicWalk_ns rest _ nc c (fun g hg => h1 g (List.mem_cons_of_mem _ hg))
      (h2.append (h1 _ List.mem_cons_self)) h
  | .plain s :: rest, acc, nc, c, h1, h2, h => by
    have hs : NS s := h1 _ List.mem_cons_self
    unfold hicWalk at h
    split at h
    · exact hicWalk_ns rest _ nc c (fun g hg => h1 g (List.mem_cons_of_mem _ hg)) (h2.append hs) h
    · simp only [Option.some.injEq, Prod.mk.injEq] at h
      rw [← h.1]
      exact h2.append (hs.take _)

theorem hicQuick_ns (line : Str) (n : Nat) (q : Option Char) (h : Hic)
    (hq : hicQuick line n q = some h) (hl : NS line) :
    NS h.line ∧ ∀ x ∈ h.comments, ItemNS x := by
  unfold hicQuick at hq
  cases q with
  | some c => simp at hq
  | none =>
    cases hf : find line '!' with
    | none => rw [hf] at hq; simp at hq
    | some idx =>
      rw [hf] at hq
      simp only [] at hq
      simp at hq
      obtain ⟨_, _, rfl⟩ := hq
      refine ⟨hl.take _, fun x hx => ?_⟩
      simp only [List.mem_singleton] at hx
      subst hx
      exact ItemNS.comment _ _ _ _

theorem hicSlow_ns (line : Str) (n : Nat) (q : Option Char) (hl : NS line) :
    NS (hicSlow line n q).line ∧ ∀ x ∈ (hicSlow line n q).comments, ItemNS x := by
  unfold hicSlow
  have hs := NS.splitquote line q hl
  simp only []
  split
  · rename_i nc comment hw
    refine ⟨hicWalk_ns _ [] nc comment hs NS.nil hw, fun x hx => ?_⟩
    simp only [List.mem_singleton] at hx
    subst hx
    exact ItemNS.comment _ _ _ _
  · refine ⟨NS.flatten fun s hsm => ?_, fun x hx => by cases hx⟩
    obtain ⟨g, hg, rfl⟩ := List.mem_map.mp hsm
    exact hs g hg

theorem hic_ns (line : Str) (n : Nat) (q : Option Char) (hl : NS line) :
    NS (handleInlineComment line n q).line ∧ ∀ x ∈ (handleInlineComment line n q).comments, ItemNS x := by
  unfold handleInlineComment
  split
  · exact ⟨hl, fun x hx => by cases hx⟩
  · split
    · rename_i r hr; exact hicQuick_ns line n q r hr hl
    · exact hicSlow_ns line n q hl

/-! ### label, construct name, sentinels -/

theorem labelRe_ns (line ds rest : Str) (h : labelRe line = some (ds, rest)) (hl : NS line) : NS rest := by
  unfold labelRe at h
  simp only [] at h
  split at h
  · cases h
  · split at h
    · split at h
      · cases h
      · simp only [Option.some.injEq, Prod.mk.injEq] at h
        rw [← h.2]; exact hl.lstrip.drop _
    · simp only [Option.some.injEq, Prod.mk.injEq] at h
      rw [← h.2]; exact hl.lstrip.drop _

theorem extractLabel_ns (line : Str) (hl : NS line) : NS (extractLabel line).2 := by
  unfold extractLabel
  split
  · rename_i ds rest hr
    exact (labelRe_ns line ds rest hr hl).lstrip
  · exact hl

theorem nameRe_ns (line w rest : Str) (h : nameRe line = some (w, rest)) (hl : NS line) : NS rest := by
  unfold nameRe at h
  simp only [] at h
  split at h
  · cases h
  · split at h
    · rename_i a2 heq
      have ha2 : NS a2 := by
        have : NS (':' :: a2) := by rw [← heq]; exact (hl.lstrip.drop _).lstrip
        exact this.tail
      split at h
      · simp only [Option.some.injEq, Prod.mk.injEq] at h
        rw [← h.2]; exact ha2.lstrip
      · split at h
        · simp only [Option.some.injEq, Prod.mk.injEq] at h
          rw [← h.2]; exact ha2.lstrip
        · cases h
    · cases h

theorem extractName_ns (line : Str) (hl : NS line) : NS (extractName line).2 := by
  unfold extractName
  split
  · rename_i w rest hr
    exact nameRe_ns line w rest hr hl
  · exact hl

theorem fixedName_ns (line : Str) (hl : NS line) : NS (fixedName line).2 := by
  unfold fixedName
  split
  · rename_i n rest hr
    exact (hl.take 6).append (nameRe_ns _ n rest hr (hl.drop 6))
  · exact hl

theorem replaceSentinelFree_ns (line : Str) (hl : NS line) : NS (replaceSentinelFree line).1 := by
  unfold replaceSentinelFree
  simp only []
  split
  · rename_i rest heq
    have hd : NS ('!' :: '$' :: ' ' :: rest) := by rw [← heq]; exact hl.drop _
    exact (hl.takeWhile _).append
      (NS.cons (by decide) (NS.cons (by decide) (NS.cons (by decide) hd.tail.tail.tail)))
  · exact hl

theorem replaceSentinelFreeCont_ns (line : Str) (hl : NS line) : NS (replaceSentinelFreeCont line).1 := by
  unfold replaceSentinelFreeCont
  simp only []
  split
  · rename_i rest heq
    have hd : NS ('!' :: '$' :: rest) := by rw [← heq]; exact hl.drop _
    exact (hl.takeWhile _).append (NS.cons (by decide) (NS.cons (by decide) hd.tail.tail))
  · exact hl

theorem freeStep_ns (started : Bool) (line : Str) (n : Nat) (q : Option Char) (label : Option Nat)
    (name : Option Str) (hl : NS line) :
    NS (freeStep started line n q label name).piece ∧
    ∀ x ∈ (freeStep started line n q label name).h.comments, ItemNS x := by
  unfold freeStep
  simp only []
  have hlab : NS (if started = true then (label, line) else extractLabel line).2 := by
    split
    · exact hl
    · exact extractLabel_ns line hl
  generalize (if started = true then (label, line) else extractLabel line) = lab at hlab
  have hnam : NS (if started = true then (name, lab.2) else extractName lab.2).2 := by
    split
    · exact hlab
    · exact extractName_ns _ hlab
  generalize (if started = true then (name, lab.2) else extractName lab.2) = nam at hnam
  have hh := hic_ns nam.2 n q hnam
  generalize handleInlineComment nam.2 n q = h at hh
  split
  · refine ⟨?_, hh.2⟩
    simp only []
    repeat' split
    all_goals first | exact hh.1 | exact hh.1.take _
  · exact ⟨(hh.1.take _).drop _, hh.2⟩

end Fp.Reader
