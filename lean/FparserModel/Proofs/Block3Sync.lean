import FparserModel.Proofs.BlockForest

/-!
# M-D proofs, part 13 (C16): the chain of open scopes is what the `enter`/`exit` events say

`replay new names`: the names of the open chain after the events `new` (newest first), starting
from the chain `names`.  `ChainR`: every class call extends the log by some `new`, and — unless
a `rollback` is among them — the names of the open chain afterwards are `replay new` of the
names before.  It is a `RelOK` instance, so it holds for every call of every class.
-/
namespace Fp.Block

/-- effect of one event on the names of the open chain (innermost first) -/
def stepEv (e : Ev) (names : List Name) : List Name :=
  match e with
  | .enter n => n :: names
  | .exit => names.tail
  | _ => names

/-- effect of a piece of log, newest event first -/
def replay : List Ev → List Name → List Name
  | [], names => names
  | e :: l, names => stepEv e (replay l names)

theorem replay_append (a b : List Ev) (names : List Name) :
    replay (a ++ b) names = replay a (replay b names) := by
  induction a with
  | nil => rfl
  | cons e l ih => simp [replay, ih]

def isRollback : Ev → Bool
  | .rollback => true
  | _ => false

/-- neither scope nor rollback events -/
def quietEv : Ev → Bool
  | .enter _ => false
  | .exit => false
  | .rollback => false
  | _ => true

theorem replay_quiet {l : List Ev} (h : ∀ e ∈ l, quietEv e = true) (names : List Name) :
    replay l names = names := by
  induction l with
  | nil => rfl
  | cons e l ih =>
    have he := h e (by simp)
    simp only [replay, ih (fun x hx => h x (by simp [hx]))]
    cases e <;> simp_all [stepEv, quietEv]

def St.names (s : St) : List Name := s.sym.stack.map (·.name)

/-- the chain follows the log -/
def ChainR (s s' : St) : Prop :=
  ∃ new, s'.log = new ++ s.log ∧
    (new.any isRollback = false → s'.names = replay new s.names)

/-- the tables are untouched and only quiet events are logged -/
def QuietR (s s' : St) : Prop :=
  s'.sym = s.sym ∧ ∃ new, s'.log = new ++ s.log ∧ ∀ e ∈ new, quietEv e = true

theorem quiet_prim : PrimOK QuietR where
  refl := fun _ => ⟨rfl, [], rfl, by simp⟩
  trans := by
    intro a b c h1 h2
    obtain ⟨e1, n1, l1, q1⟩ := h1
    obtain ⟨e2, n2, l2, q2⟩ := h2
    refine ⟨e2.trans e1, n2 ++ n1, by rw [l2, l1]; simp, ?_⟩
    intro e he
    simp only [List.mem_append] at he
    rcases he with he | he
    · exact q2 e he
    · exact q1 e he
  get := fun s => ⟨rfl, [Ev.get (s.stream.get.1.map (·.id))], rfl, by simp [quietEv]⟩
  put := fun s x => ⟨rfl, [Ev.put x.id], rfl, by simp [quietEv]⟩
  ev := fun s i c => ⟨rfl, [Ev.query i c], rfl, by simp [quietEv]⟩
  seen := fun _ _ => ⟨rfl, [], rfl, by simp⟩

theorem QuietR.chain {s s' : St} (h : QuietR s s') : ChainR s s' := by
  obtain ⟨e, new, l, q⟩ := h
  refine ⟨new, l, fun _ => ?_⟩
  rw [replay_quiet q]
  unfold St.names; rw [e]

theorem ChainR.refl (s : St) : ChainR s s := ⟨[], rfl, fun _ => rfl⟩

theorem ChainR.trans {a b c : St} (h1 : ChainR a b) (h2 : ChainR b c) : ChainR a c := by
  obtain ⟨n1, l1, r1⟩ := h1
  obtain ⟨n2, l2, r2⟩ := h2
  refine ⟨n2 ++ n1, by rw [l2, l1]; simp, ?_⟩
  intro h
  simp only [List.any_append, Bool.or_eq_false_iff] at h
  rw [replay_append, r2 h.1, r1 h.2]

/-- one logged event whose effect on the names is that of `stepEv` -/
theorem ChainR.step {s s' : St} (e : Ev) (hl : s'.log = e :: s.log) (hr : isRollback e = false)
    (hn : s'.names = stepEv e s.names) : ChainR s s' :=
  ⟨[e], hl, fun _ => by simp [replay, hn]⟩

theorem names_enter (s : St) (n : Name) : (s.enter n).names = n :: s.names := by
  unfold St.names St.enter SymTabs.enter
  cases hs : s.sym.stack with
  | nil =>
    simp only
    split <;> simp
  | cons f fs => simp

theorem names_exit (s : St) : s.exit.2.names = s.names.tail := by
  unfold St.names St.exit SymTabs.exit
  cases hs : s.sym.stack with
  | nil => simp [St.ev, hs]
  | cons g rest =>
    cases rest with
    | nil => simp
    | cons f fs => simp

theorem names_remove (s : St) (n : Name) : (s.remove n).2.names = s.names := by
  unfold St.names St.remove
  cases hr : s.sym.remove n with
  | none => simp [St.ev]
  | some y =>
    simp only
    unfold SymTabs.remove at hr
    cases hs : s.sym.stack with
    | nil =>
      simp only [hs] at hr
      split at hr
      · cases hr; simp [hs]
      · cases hr
    | cons f fs =>
      simp only [hs] at hr
      split at hr
      · cases hr; simp
      · split at hr
        · cases hr; simp [hs]
        · cases hr

theorem chainR_ok (env : Env) : RelOK env ChainR where
  refl := ChainR.refl
  trans := ChainR.trans
  put := fun s x => (quiet_prim.put s x).chain
  ev := fun s g _ => ChainR.step (.ghost g) rfl rfl rfl
  leaf := fun c pc s => (leafNew_prim quiet_prim c pc s).chain
  comment := fun s => (commentNew_prim quiet_prim.toPrimOK0 s).chain
  directive := fun s => (directiveNew_prim quiet_prim.toPrimOK0 s).chain
  peek := fun s => (peek_prim quiet_prim.toPrimOK0 s).chain
  remove := fun s n =>
    ChainR.step (.remove n) (by simp) rfl (by rw [names_remove]; rfl)
  exit := by
    intro s n s' h
    have h0 : ChainR s (s.enter n) := ChainR.step (.enter n) rfl rfl (names_enter s n)
    have h2 : ChainR s' s'.exit.2 := ChainR.step .exit (by simp) rfl (names_exit s')
    exact (h0.trans h).trans h2
  leak := by
    intro s n s' g _ h
    have h0 : ChainR s (s.enter n) := ChainR.step (.enter n) rfl rfl (names_enter s n)
    exact (h0.trans h).trans (ChainR.step (.ghost g) rfl rfl rfl)
  empty := by
    intro s s' h
    have h0 : ChainR s (s.enter 0) := ChainR.step (.enter 0) rfl rfl (names_enter s 0)
    have h1 : ChainR (s.enter 0) ((s.enter 0).ev (.ghost .emptyScopeName)) :=
      ChainR.step (.ghost .emptyScopeName) rfl rfl rfl
    exact (h0.trans h1).trans h
  rollback := by
    intro s s' h
    obtain ⟨new, l, _⟩ := h
    refine ⟨Ev.rollback :: new, by simp [l], ?_⟩
    intro hh
    simp [isRollback] at hh
  enter_exit_ok := trivial

/-- the names of the open chain are the replay of the whole log from no open scope -/
def Sync (s : St) : Prop := s.names = replay s.log []

theorem ChainR.sync {s s' : St} (h : ChainR s s') (hs : Sync s)
    (hr : ∀ new, s'.log = new ++ s.log → new.any isRollback = false) : Sync s' := by
  obtain ⟨new, l, r⟩ := h
  unfold Sync at *
  rw [r (hr new l), l, replay_append, hs]

end Fp.Block
