import FparserModel.Header
import FparserModel.Proofs.IoStmtBasic
import FparserModel.Proofs.IoStmtSeg
import FparserModel.Proofs.IoStmtHead
import FparserModel.Proofs.IoStmtLayoutCtl
import FparserModel.Proofs.IoStmtLayoutMisc
import FparserModel.Proofs.IoStmtFixpoint
/-!
Subroutine_Stmt / Function_Stmt / Entry_Stmt: the three opening statements that go through
`string_replace_map`.  `*_tostr_match_tokens_partial`, C1242, witnesses, totality.
-/
set_option linter.unusedSimpArgs false
set_option linter.unusedVariables false
namespace Fp.Header
open Fp Fp.Splitline Fp.IoStmt
open Fp.Combi (noBlank)

variable {Node : Type}

/-! ## `KW.search`, `pattern.name.match` -/

theorem p_searchCI_spec (kw : Str) : ∀ (l pre post : Str), searchCI kw l = some (pre, post) →
    ∃ k, l = pre ++ k ++ post ∧ upper k = kw ∧ k.length = kw.length
  | [], pre, post, h => by
    unfold searchCI at h
    split at h
    · rename_i he; cases h
      have : kw = [] := by simpa using he
      subst this; exact ⟨[], rfl, rfl, rfl⟩
    · cases h
  | c :: cs, pre, post, h => by
    unfold searchCI at h
    split at h
    · rename_i he
      cases h
      have he' : upper ((c :: cs).take kw.length) = kw := by simpa using he
      refine ⟨(c :: cs).take kw.length, by simp, he', ?_⟩
      have := congrArg List.length he'
      simpa [upper] using this
    · split at h
      · rename_i p hp
        cases h
        obtain ⟨k, e, hk⟩ := p_searchCI_spec kw cs p.1 p.2 hp
        exact ⟨k, by rw [e]; simp, hk⟩
      · cases h

theorem p_head_dropWhile (p : Char → Bool) : ∀ (l : Str) (c : Char),
    (l.dropWhile p).head? = some c → p c = false
  | [], c, h => by simp at h
  | x :: l, c, h => by
    rw [List.dropWhile_cons] at h
    split at h
    · exact p_head_dropWhile p l c h
    · rename_i hx
      simp only [List.head?_cons, Option.some.injEq] at h
      subst h; simpa using hx

theorem p_nameMatch_spec {line nm rest : Str} (h : nameMatch line = some (nm, rest)) :
    line = nm ++ rest ∧ (∀ c, rest.head? = some c → isWord c = false) := by
  unfold nameMatch at h
  split at h
  · cases h
  · rename_i c cs
    split at h
    · cases h
      refine ⟨by simp [List.takeWhile_append_dropWhile], ?_⟩
      intro d hd
      have := p_head_dropWhile isNameChar cs d hd
      simp only [isNameChar, Bool.or_eq_false_iff] at this
      exact this.1
    · cases h

/-! ## pieces without a placeholder key -/

theorem p_two_mem_key {k : Str} (h : IsKey k) : '2' ∈ k := by
  obtain ⟨n, h | h | h⟩ := h <;> subst h <;>
    simp [strKey, realKey, exprKey, strPrefix, realPrefix, exprPrefix]

theorem p_valJoin_no2 {m : Map} : ∀ ts : List Tok, WFk m ts → '2' ∉ rawJoin ts →
    valJoin ts = rawJoin ts
  | [], _, _ => rfl
  | .chunk s :: ts, hw, h => by
    rw [rawJoin_cons] at h
    have ih := p_valJoin_no2 ts hw (fun hh => h (List.mem_append_right _ hh))
    simp only [valJoin, rawJoin, List.map_cons, List.flatten_cons, Tok.raw, Tok.val] at ih ⊢
    rw [ih]
  | .key k v :: ts, hw, h => by
    exfalso; rw [rawJoin_cons] at h
    exact h (List.mem_append_left _ (p_two_mem_key hw.1.isKey))

/-- every placeholder key contains the digit `2` (of `F2PY`): a piece without it is its own
    expansion -/
theorem p_applyMap_no2 {m : Map} {X : Str} (h : Seg m X) (h2 : '2' ∉ X) : applyMap m X = X := by
  obtain ⟨ts, e, hw⟩ := h
  subst e
  rw [applyMap_toks ts hw]
  exact p_valJoin_no2 ts hw.1 h2

theorem p_no2_of_upper {k kw : Str} (h : upper k = kw) (hkw : '2' ∉ kw) : '2' ∉ k := by
  intro hm
  apply hkw
  rw [← h]
  unfold upper
  exact List.mem_map.mpr ⟨'2', hm, by decide⟩

/-! ## the cut hypothesis -/

def p_nonWordO : Option Char → Bool
  | some c => !isWord c
  | none => true

/-- the DECIDABLE hypothesis of the `_partial` theorems of Subroutine_Stmt / Function_Stmt: in the
    tokenised text of `s`, the FIRST case-insensitive occurrence of the keyword is delimited (the
    character before it, if any, and the character after it, if any, are not word characters),
    and the name found after it contains no placeholder key (`Subroutine_Name(m.group())` receives
    the raw tokenised text, NOT `repmap` of it). -/
def p_HeadCutOK (kw : Str) (s : Str) : Bool :=
  match Combi.tokenise s with
  | none => true
  | some r =>
    match searchCI kw r.text with
    | none => true
    | some (pre, post) =>
      p_nonWordO pre.getLast? && p_nonWordO post.head? &&
      (match nameMatch (lstrip post) with
       | none => true
       | some (nm, _) => applyMap r.map nm == nm)

theorem p_bnd_left {A B : Str} (h : p_nonWordO A.getLast? = true) : Bnd A B := by
  cases hl : A.getLast? with
  | none => exact .inl (List.getLast?_eq_none_iff.mp hl)
  | some c =>
    rw [hl] at h
    exact .inr (.inr (.inl ⟨c, hl, by simpa [p_nonWordO] using h⟩))

theorem p_bnd_right {A B : Str} (h : ∀ c, B.head? = some c → isWord c = false) : Bnd A B := by
  cases B with
  | nil => exact .inr (.inl rfl)
  | cons c B => exact .inr (.inr (.inr ⟨c, rfl, h c rfl⟩))

theorem p_bnd_right' {A B : Str} (h : p_nonWordO B.head? = true) : Bnd A B := by
  apply p_bnd_right
  intro c hc
  rw [hc] at h
  simpa [p_nonWordO] using h

/-- `prefix KW name rest` as a token text -/
theorem p_head_decomp {m : Map} {text kw pre post nm rest : Str} (hseg : Seg m text)
    (hsr : searchCI kw text = some (pre, post)) (hkw : '2' ∉ kw)
    (hb1 : p_nonWordO pre.getLast? = true) (hb2 : p_nonWordO post.head? = true)
    (hnm : nameMatch (lstrip post) = some (nm, rest)) (hid : applyMap m nm = nm) :
    Seg m pre ∧ Seg m rest ∧
      toks (applyMap m text) =
        toks (applyMap m pre) ++ (toks kw ++ (toks nm ++ toks (applyMap m rest))) := by
  obtain ⟨k, e, hk, _⟩ := p_searchCI_spec kw _ _ _ hsr
  subst e
  rw [List.append_assoc] at hseg ⊢
  obtain ⟨sp, skp, e1⟩ := Seg.split hseg (p_bnd_left hb1)
  obtain ⟨sk, spost, e2⟩ := Seg.split skp (p_bnd_right' hb2)
  have e3 := p_applyMap_no2 sk (p_no2_of_upper hk hkw)
  obtain ⟨sl, e4⟩ := Seg.lstrip spost
  obtain ⟨e5, hrest⟩ := p_nameMatch_spec hnm
  rw [e5] at sl e4
  obtain ⟨_, srest, e6⟩ := Seg.split sl (p_bnd_right hrest)
  refine ⟨sp, srest, ?_⟩
  rw [e1, e2, e3, toks_append, toks_append, ← toks_of_noBlank e4, e6, hid, toks_append,
    ← toks_upper k, hk]

/-- `( args ) rest` as a token text -/
theorem p_parens {m : Map} {X pre2 post2 : Str} (hseg : Seg m X) (hst : startsC '(' X = true)
    (hcut : Combi.cutFirst ')' X = some (pre2, post2)) :
    Seg m (strip (pre2.drop 1)) ∧ Seg m (lstrip post2) ∧
      toks (applyMap m X) = toks "(".toList ++ (toks (applyMap m (strip (pre2.drop 1))) ++
        (toks ")".toList ++ toks (applyMap m (lstrip post2)))) := by
  obtain ⟨htext, _⟩ := Combi.cutFirst_spec _ _ _ hcut
  obtain ⟨pre', rfl⟩ := head_of_append_cons (c := '(') (d := ')') (by decide)
    (by simpa [startsC] using hst) htext
  subst htext
  obtain ⟨s1, s2, e1⟩ := Seg.sep isWord_rparen hseg
  obtain ⟨s3, e2⟩ := Seg.drop1 isWord_lparen s1
  obtain ⟨s4, e3⟩ := Seg.strip s3
  obtain ⟨s5, e4⟩ := Seg.lstrip s2
  have hd : List.drop 1 ('(' :: pre') = pre' := rfl
  rw [hd]
  refine ⟨s4, s5, ?_⟩
  rw [e1, e2, consR, consL]
  simp only [toks_append]
  rw [toks_of_noBlank e3, toks_of_noBlank e4]
  simp only [List.append_assoc]

/-- an optional child: `X(repmap(x)) if x else None` -/
theorem p_opt_item {o : Oracle Node} (ho : OracleTok o) {m : Map} {x : Str} {c : ClassId}
    {i : Item Node}
    (h : runSlot o (if x.isEmpty then Slot.none else .child c (applyMap m x)) = .ok i) :
    (i = .none ∧ toks (applyMap m x) = []) ∨
      (∃ n, i = .node n ∧ toks (o.str n) = toks (applyMap m x)) := by
  split at h
  · rename_i he
    have : x = [] := by simpa using he
    subst this
    exact .inl ⟨runSlot_none_ok h, by rw [applyMap_empty]; rfl⟩
  · obtain ⟨n, rfl, hn⟩ := runSlot_child_ok h
    exact .inr ⟨n, rfl, ho _ _ _ hn⟩

/-! ## Subroutine_Stmt -/

/-- what an optional item contributes to the printed text (`None` prints nothing) -/
def p_optText (o : Oracle Node) : Item Node → Str
  | .none => []
  | i => i.text o

theorem p_k1 : toks "SUBROUTINE ".toList = toks "SUBROUTINE".toList := by decide
theorem p_k2 : toks " SUBROUTINE ".toList = toks "SUBROUTINE".toList := by decide
theorem p_k3 : toks " ".toList = [] := by decide
theorem p_k4 : toks "()".toList = toks "(".toList ++ toks ")".toList := by decide
theorem p_k5 : toks "FUNCTION ".toList = toks "FUNCTION".toList := by decide
theorem p_k6 : toks " FUNCTION ".toList = toks "FUNCTION".toList := by decide
theorem p_k7 : toks "ENTRY ".toList = toks "ENTRY".toList := by decide
theorem p_n1 : net "SUBROUTINE ".toList = 0 := by decide
theorem p_n2 : net " SUBROUTINE ".toList = 0 := by decide
theorem p_n3 : net " ".toList = 0 := by decide
theorem p_n4 : net "(".toList = 1 := by decide
theorem p_n5 : net ")".toList = -1 := by decide
theorem p_n6 : net "FUNCTION ".toList = 0 := by decide
theorem p_n7 : net " FUNCTION ".toList = 0 := by decide
theorem p_n8 : net "()".toList = 0 := by decide
theorem p_n9 : net "ENTRY ".toList = 0 := by decide

/-
FULL STATEMENT (fails on the real code, see the witnesses below: the keyword search is not anchored
and the name is handed over without `repmap`):
  matchSubroutine o s = .ok items → SrmOK s →
    ∃ t, tostrSubroutine o.base items = .ok t ∧ (toks t = toks s ∨ "() dropped") ∧ …
-/

/-- **Subroutine_Stmt**: `[prefix] SUBROUTINE name [( [args] )] [binding]`.  The printed text has
    the tokens of the input, except that an EMPTY argument list `()` is dropped: then (and only
    then: `items[2]` is `None` and the input had parentheses) the tokens of the input are those of
    the output with `()` inserted after the name. -/
theorem Subroutine_Stmt_tostr_match_tokens_partial (o : HOracle Node) (ho : OracleTok o.base)
    (s : Str) (items : List (Item Node)) (hm : matchSubroutine o s = .ok items) (hs : SrmOK s)
    (hc : p_HeadCutOK "SUBROUTINE".toList s = true) :
    ∃ t, tostrSubroutine o.base items = .ok t ∧
      (toks t = toks s ∨
        ∃ p n b t0, items = [p, n, .none, b] ∧
          tostrSubroutine o.base [p, n, .none, .none] = .ok t0 ∧
          toks t = toks t0 ++ toks (p_optText o.base b) ∧
          toks s = toks t0 ++ toks "()".toList ++ toks (p_optText o.base b)) ∧
      ((∀ i ∈ items, net (i.text o.base) = 0) → net t = 0) := by
  unfold matchSubroutine at hm
  obtain ⟨items', hm1, hm2⟩ := Res.bind_eq_ok hm
  split at hm2
  case isFalse => cases hm2
  cases hm2
  obtain ⟨slots, hp, hr⟩ := Res.bind_eq_ok hm1
  unfold planSubroutine at hp
  obtain ⟨r, htok, hp⟩ := Res.bind_eq_ok hp
  have htk := tok_ok htok
  obtain ⟨hseg, hexp⟩ := seg_of_tokenise hs htk
  have hL : toks s = toks (applyMap r.map r.text) := (toks_of_noBlank hexp).symm
  unfold p_HeadCutOK at hc
  rw [htk] at hc
  dsimp only at hc hp
  split at hp
  · cases hp
  rename_i pre post hsr
  rw [hsr] at hc
  dsimp only at hc hp
  split at hp
  · cases hp
    obtain ⟨i, j, rfl, hi, hj⟩ := run2 hr
    exact absurd hj (runSlot_fail _ _)
  rename_i nm rest hnm
  rw [hnm] at hc
  simp only [Bool.and_eq_true, beq_iff_eq] at hc
  obtain ⟨⟨hb1, hb2⟩, hid⟩ := hc
  obtain ⟨spre, srest, eT⟩ := p_head_decomp hseg hsr (by decide) hb1 hb2 hnm hid
  obtain ⟨sl2, el2⟩ := Seg.lstrip srest
  have ePre := toks_of_noBlank (Seg.rstrip spre).2
  have eR := toks_of_noBlank el2
  split at hp
  · rename_i hst
    split at hp
    · cases hp
      obtain ⟨i, j, k, rfl, hi, hj, hk⟩ := run3 hr
      exact absurd hk (runSlot_fail _ _)
    rename_i pre2 post2 hcut
    cases hp
    obtain ⟨sd, sb, eP⟩ := p_parens sl2 hst hcut
    obtain ⟨i, j, k, l, rfl, hi, hj, hk, hl⟩ := run4 hr
    have hj' := toks_item_of_child ho hj
    obtain ⟨nn, rfl, _⟩ := runSlot_child_ok hj
    simp only [Item.text] at hj'
    have hS : toks s = toks (applyMap r.map (rstrip pre)) ++ (toks "SUBROUTINE".toList ++ (toks nm ++
        (toks "(".toList ++ (toks (applyMap r.map (strip (pre2.drop 1))) ++
        (toks ")".toList ++ toks (applyMap r.map (lstrip post2))))))) := by
      rw [hL, eT, ← eR, eP, ePre]
    unfold prefixSlot at hi
    dsimp only at hi
    rcases p_opt_item ho hk with ⟨rfl, ek⟩ | ⟨n3, rfl, ek⟩
    · rcases p_opt_item ho hi with ⟨rfl, ei⟩ | ⟨n1, rfl, ei⟩ <;>
        rcases p_opt_item ho hl with ⟨rfl, el⟩ | ⟨n4, rfl, el⟩ <;>
        refine ⟨_, rfl, .inr ⟨_, _, _, _, rfl, rfl, ?_, ?_⟩, ?_⟩ <;>
        first
        | (intro hb
           simp only [List.mem_cons, List.not_mem_nil, or_false, forall_eq_or_imp, forall_eq] at hb
           obtain ⟨h1, h2, h3, h4⟩ := hb
           simp only [Item.text] at h1 h2 h3 h4
           simp only [Item.text, net_append, p_n1, p_n2, p_n3, p_n4, p_n5, p_n8, h1, h2, h3, h4]
           omega)
        | (rw [hS]
           simp only [Item.text, p_optText, toks_append, p_k1, p_k2, p_k3, p_k4, hj', ei, ek, el,
             List.append_assoc, List.nil_append, List.append_nil, toks_nil]
           done)
        | (simp only [Item.text, p_optText, toks_append, p_k1, p_k2, p_k3, p_k4, hj', ei, ek, el,
             List.append_assoc, List.nil_append, List.append_nil, toks_nil]
           done)
    · rcases p_opt_item ho hi with ⟨rfl, ei⟩ | ⟨n1, rfl, ei⟩ <;>
        rcases p_opt_item ho hl with ⟨rfl, el⟩ | ⟨n4, rfl, el⟩ <;>
        refine ⟨_, rfl, .inl ?_, ?_⟩ <;>
        first
        | (intro hb
           simp only [List.mem_cons, List.not_mem_nil, or_false, forall_eq_or_imp, forall_eq] at hb
           obtain ⟨h1, h2, h3, h4⟩ := hb
           simp only [Item.text] at h1 h2 h3 h4
           simp only [Item.text, net_append, p_n1, p_n2, p_n3, p_n4, p_n5, p_n8, h1, h2, h3, h4]
           omega)
        | (rw [hS]
           simp only [Item.text, p_optText, toks_append, p_k1, p_k2, p_k3, p_k4, hj', ei, ek, el,
             List.append_assoc, List.nil_append, List.append_nil, toks_nil]
           done)
        | (simp only [Item.text, p_optText, toks_append, p_k1, p_k2, p_k3, p_k4, hj', ei, ek, el,
             List.append_assoc, List.nil_append, List.append_nil, toks_nil]
           done)
  · cases hp
    obtain ⟨i, j, k, l, rfl, hi, hj, hk, hl⟩ := run4 hr
    have hj' := toks_item_of_child ho hj
    obtain ⟨nn, rfl, _⟩ := runSlot_child_ok hj
    simp only [Item.text] at hj'
    have := runSlot_none_ok hk; subst this
    have hS : toks s = toks (applyMap r.map (rstrip pre)) ++ (toks "SUBROUTINE".toList ++ (toks nm ++
        toks (applyMap r.map (lstrip rest)))) := by
      rw [hL, eT, ← eR, ePre]
    unfold prefixSlot at hi
    dsimp only at hi
    have ek : True := trivial
    rcases p_opt_item ho hi with ⟨rfl, ei⟩ | ⟨n1, rfl, ei⟩ <;>
      rcases p_opt_item ho hl with ⟨rfl, el⟩ | ⟨n4, rfl, el⟩ <;>
      refine ⟨_, rfl, .inl ?_, ?_⟩ <;>
      first
      | (intro hb
         simp only [List.mem_cons, List.not_mem_nil, or_false, forall_eq_or_imp, forall_eq] at hb
         obtain ⟨h1, h2, h3, h4⟩ := hb
         simp only [Item.text] at h1 h2 h3 h4
         simp only [Item.text, net_append, p_n1, p_n2, p_n3, p_n4, p_n5, p_n8, h1, h2, h3, h4]
         omega)
      | (rw [hS]
         simp only [Item.text, p_optText, toks_append, p_k1, p_k2, p_k3, p_k4, hj', ei, ek, el,
           List.append_assoc, List.nil_append, List.append_nil, toks_nil]
         done)
      | (simp only [Item.text, p_optText, toks_append, p_k1, p_k2, p_k3, p_k4, hj', ei, ek, el,
           List.append_assoc, List.nil_append, List.append_nil, toks_nil]
         done)

/-! ## Function_Stmt -/

/-- **Function_Stmt**: `[prefix] FUNCTION name ( [args] ) [suffix]`.  The parentheses are required
    in the input and always printed: the printed text has exactly the tokens of the input. -/
theorem Function_Stmt_tostr_match_tokens_partial (o : HOracle Node) (ho : OracleTok o.base)
    (s : Str) (items : List (Item Node)) (hm : matchFunction o s = .ok items) (hs : SrmOK s)
    (hc : p_HeadCutOK "FUNCTION".toList s = true) :
    ∃ t, tostrFunction o.base items = .ok t ∧ toks t = toks s ∧
      ((∀ i ∈ items, net (i.text o.base) = 0) → net t = 0) := by
  unfold matchFunction at hm
  obtain ⟨items', hm1, hm2⟩ := Res.bind_eq_ok hm
  split at hm2
  case isFalse => cases hm2
  cases hm2
  obtain ⟨slots, hp, hr⟩ := Res.bind_eq_ok hm1
  unfold planFunction at hp
  obtain ⟨r, htok, hp⟩ := Res.bind_eq_ok hp
  have htk := tok_ok htok
  obtain ⟨hseg, hexp⟩ := seg_of_tokenise hs htk
  have hL : toks s = toks (applyMap r.map r.text) := (toks_of_noBlank hexp).symm
  unfold p_HeadCutOK at hc
  rw [htk] at hc
  dsimp only at hc hp
  split at hp
  · cases hp
  rename_i pre post hsr
  rw [hsr] at hc
  dsimp only at hc hp
  split at hp
  · cases hp
    obtain ⟨i, j, rfl, hi, hj⟩ := run2 hr
    exact absurd hj (runSlot_fail _ _)
  rename_i nm rest hnm
  rw [hnm] at hc
  simp only [Bool.and_eq_true, beq_iff_eq] at hc
  obtain ⟨⟨hb1, hb2⟩, hid⟩ := hc
  obtain ⟨spre, srest, eT⟩ := p_head_decomp hseg hsr (by decide) hb1 hb2 hnm hid
  obtain ⟨sl2, el2⟩ := Seg.lstrip srest
  have ePre := toks_of_noBlank (Seg.rstrip spre).2
  have eR := toks_of_noBlank el2
  split at hp
  · cases hp
    obtain ⟨i, j, k, rfl, hi, hj, hk⟩ := run3 hr
    exact absurd hk (runSlot_fail _ _)
  rename_i hst
  have hst' : startsC '(' (lstrip rest) = true := by simpa using hst
  split at hp
  · cases hp
    obtain ⟨i, j, k, rfl, hi, hj, hk⟩ := run3 hr
    exact absurd hk (runSlot_fail _ _)
  rename_i pre2 post2 hcut
  cases hp
  obtain ⟨sd, sb, eP⟩ := p_parens sl2 hst' hcut
  obtain ⟨i, j, k, l, rfl, hi, hj, hk, hl⟩ := run4 hr
  have hj' := toks_item_of_child ho hj
  obtain ⟨nn, rfl, _⟩ := runSlot_child_ok hj
  simp only [Item.text] at hj'
  have hS : toks s = toks (applyMap r.map (rstrip pre)) ++ (toks "FUNCTION".toList ++ (toks nm ++
      (toks "(".toList ++ (toks (applyMap r.map (strip (pre2.drop 1))) ++
      (toks ")".toList ++ toks (applyMap r.map (lstrip post2))))))) := by
    rw [hL, eT, ← eR, eP, ePre]
  unfold prefixSlot at hi
  dsimp only at hi
  rcases p_opt_item ho hk with ⟨rfl, ek⟩ | ⟨n3, rfl, ek⟩ <;>
    rcases p_opt_item ho hi with ⟨rfl, ei⟩ | ⟨n1, rfl, ei⟩ <;>
    rcases p_opt_item ho hl with ⟨rfl, el⟩ | ⟨n4, rfl, el⟩ <;>
    refine ⟨_, rfl, ?_, ?_⟩ <;>
    first
    | (intro hb
       simp only [List.mem_cons, List.not_mem_nil, or_false, forall_eq_or_imp, forall_eq] at hb
       obtain ⟨h1, h2, h3, h4⟩ := hb
       simp only [Item.text] at h1 h2 h3 h4
       simp only [Item.text, net_append, p_n6, p_n7, p_n3, p_n4, p_n5, p_n8, h1, h2, h3, h4]
       omega)
    | (rw [hS]
       simp only [Item.text, p_optText, toks_append, p_k5, p_k6, p_k3, p_k4, hj', ei, ek, el,
         List.append_assoc, List.nil_append, List.append_nil, toks_nil]
       done)

/-! ## Entry_Stmt -/

/-- the text handed to `string_replace_map` by `Entry_Stmt.match` (`"(" + rest`) satisfies the two
    tokeniser hypotheses -/
def p_EntrySrmOK (s : Str) : Prop :=
  match Combi.cutFirst '(' (lstrip (s.drop 5)) with
  | none => True
  | some (_, post) => SrmOK ('(' :: post)

instance (s : Str) : Decidable (p_EntrySrmOK s) := by
  unfold p_EntrySrmOK; split <;> infer_instance

/-- **Entry_Stmt**: `ENTRY name [( [args] ) [suffix]]`.  With parentheses in the input the printed
    text has the tokens of the input; WITHOUT (`entry e`) the printer INVENTS `()`: the printed
    tokens are those of the input followed by `()`. -/
theorem Entry_Stmt_tostr_match_tokens_partial (o : HOracle Node) (ho : OracleTok o.base)
    (s : Str) (items : List (Item Node))
    (hm : (planEntry s).bind (runSlots o.base) = .ok items) (hs : p_EntrySrmOK s) :
    ∃ t, tostrEntry o.base items = .ok t ∧
      ((Combi.cutFirst '(' (lstrip (s.drop 5)) = none → toks t = toks s ++ toks "()".toList) ∧
       (Combi.cutFirst '(' (lstrip (s.drop 5)) ≠ none → toks t = toks s)) ∧
      ((∀ i ∈ items, net (i.text o.base) = 0) → net t = 0) := by
  obtain ⟨slots, hp, hr⟩ := Res.bind_eq_ok hm
  unfold planEntry at hp
  split at hp
  · cases hp
  rename_i hkw
  have hkw' : kwIs "ENTRY".toList s = true := kwIs_of_not (by simpa using hkw)
  have hS0 : toks s = toks "ENTRY".toList ++ toks (lstrip (s.drop 5)) := by
    rw [toks_of_kwIs hkw', toks_lstrip]; rfl
  dsimp only at hp
  unfold p_EntrySrmOK at hs
  split at hp
  · rename_i hcf
    cases hp
    obtain ⟨i, j, k, rfl, hi, hj, hk⟩ := run3 hr
    have hi' := toks_item_of_child ho hi
    obtain ⟨n1, rfl, _⟩ := runSlot_child_ok hi
    have := runSlot_none_ok hj; subst this
    have := runSlot_none_ok hk; subst this
    simp only [Item.text] at hi'
    refine ⟨_, rfl, ⟨fun _ => ?_, fun h => absurd hcf h⟩, ?_⟩
    · rw [hS0]
      simp only [Item.text, toks_append, p_k7, hi', List.append_assoc]
    · intro hb
      have h1 := hb (.node n1) (by simp)
      simp only [Item.text] at h1
      simp only [Item.text, net_append, p_n9, p_n8, h1]
      omega
  · rename_i pre post hcf
    rw [hcf] at hs
    dsimp only at hs
    obtain ⟨hline, _⟩ := Combi.cutFirst_spec _ _ _ hcf
    have hne : Combi.cutFirst '(' (lstrip (s.drop 5)) ≠ none := by rw [hcf]; simp
    split at hp
    · cases hp
      obtain ⟨i, j, rfl, hi, hj⟩ := run2 hr
      exact absurd hj (runSlot_raise _ _ _)
    · cases hp
      obtain ⟨i, j, rfl, hi, hj⟩ := run2 hr
      exact absurd hj (runSlot_fail _ _)
    · rename_i r htok
      have htk := tok_ok htok
      obtain ⟨hseg, hexp⟩ := seg_of_tokenise hs htk
      have hhead := srm_head htk (c := '(') (by decide) (by decide) rfl
      split at hp
      · cases hp
        obtain ⟨i, j, rfl, hi, hj⟩ := run2 hr
        exact absurd hj (runSlot_fail _ _)
      rename_i pre2 post2 hcut
      obtain ⟨sd, sb, eP⟩ := p_parens hseg (by simpa [startsC] using hhead) hcut
      have hS : toks s = toks "ENTRY".toList ++ (toks (rstrip pre) ++
          (toks "(".toList ++ (toks (applyMap r.map (strip (pre2.drop 1))) ++
          (toks ")".toList ++ toks (applyMap r.map (lstrip post2)))))) := by
        rw [hS0, hline, toks_append, ← toks_of_noBlank hexp, eP, toks_rstrip]
      split at hp
      · cases hp
        obtain ⟨i, j, k, rfl, hi, hj, hk⟩ := run3 hr
        have hi' := toks_item_of_child ho hi
        obtain ⟨n1, rfl, _⟩ := runSlot_child_ok hi
        have hk' := toks_item_of_child ho hk
        obtain ⟨n3, rfl, _⟩ := runSlot_child_ok hk
        simp only [Item.text] at hi' hk'
        rcases p_opt_item ho hj with ⟨rfl, ej⟩ | ⟨n2, rfl, ej⟩ <;>
          refine ⟨_, rfl, ⟨fun h => absurd h hne, fun _ => ?_⟩, ?_⟩ <;>
          first
          | (intro hb
             simp only [List.mem_cons, List.not_mem_nil, or_false, forall_eq_or_imp, forall_eq] at hb
             obtain ⟨h1, h2, h3⟩ := hb
             simp only [Item.text] at h1 h2 h3
             simp only [Item.text, net_append, p_n9, p_n3, p_n4, p_n5, p_n8, h1, h2, h3]
             omega)
          | (rw [hS]
             simp only [Item.text, toks_append, p_k7, p_k3, p_k4, hi', hk', ej,
               List.append_assoc, List.nil_append, List.append_nil, toks_nil]
             done)
      · rename_i hemp
        have hemp' : lstrip post2 = [] := by simpa using hemp
        have hB : toks (applyMap r.map (lstrip post2)) = [] := by
          rw [hemp', applyMap_empty]; rfl
        cases hp
        obtain ⟨i, j, k, rfl, hi, hj, hk⟩ := run3 hr
        have hi' := toks_item_of_child ho hi
        obtain ⟨n1, rfl, _⟩ := runSlot_child_ok hi
        have := runSlot_none_ok hk; subst this
        simp only [Item.text] at hi'
        rcases p_opt_item ho hj with ⟨rfl, ej⟩ | ⟨n2, rfl, ej⟩ <;>
          refine ⟨_, rfl, ⟨fun h => absurd h hne, fun _ => ?_⟩, ?_⟩ <;>
          first
          | (intro hb
             simp only [List.mem_cons, List.not_mem_nil, or_false, forall_eq_or_imp, forall_eq] at hb
             obtain ⟨h1, h2, h3⟩ := hb
             simp only [Item.text] at h1 h2 h3
             simp only [Item.text, net_append, p_n9, p_n3, p_n4, p_n5, p_n8, h1, h2, h3]
             omega)
          | (rw [hS]
             simp only [Item.text, toks_append, p_k7, p_k3, p_k4, hi', hB, ej,
               List.append_assoc, List.nil_append, List.append_nil, toks_nil]
             done)

/-! ## C1242 -/

/-- C1242 (Subroutine_Stmt): an `ELEMENTAL` prefix together with a binding spec is rejected -/
theorem c1242_rejects (o : HOracle Node) (s : Str) (p b : Node) (n d : Item Node)
    (h : (planSubroutine s).bind (runSlots o.base) = .ok [.node p, n, d, .node b])
    (he : o.elemental p = true) : matchSubroutine o s = .noMatch := by
  unfold matchSubroutine
  rw [h]
  simp [c1242Sub, he]

/-- C1242 (Function_Stmt): an `ELEMENTAL` prefix together with a suffix that contains a
    `Language_Binding_Spec` is rejected -/
theorem c1242_rejects_function (o : HOracle Node) (s : Str) (p sf : Node) (n d : Item Node)
    (h : (planFunction s).bind (runSlots o.base) = .ok [.node p, n, d, .node sf])
    (he : o.elemental p = true) (hb : o.binding sf = true) : matchFunction o s = .noMatch := by
  unfold matchFunction
  rw [h]
  simp [c1242Fun, he, hb]

/-- the check changes nothing otherwise (Subroutine_Stmt) -/
theorem c1242_only_then (o : HOracle Node) (s : Str) :
    (∀ items, (planSubroutine s).bind (runSlots o.base) = .ok items →
      (¬ ∃ p n d b, items = [.node p, n, d, .node b] ∧ o.elemental p = true) →
      matchSubroutine o s = .ok items) ∧
    ((planSubroutine s).bind (runSlots o.base) = .noMatch → matchSubroutine o s = .noMatch) ∧
    (∀ e, (planSubroutine s).bind (runSlots o.base) = .raises e →
      matchSubroutine o s = .raises e) := by
  refine ⟨?_, ?_, ?_⟩
  · intro items h hne
    unfold matchSubroutine
    rw [h]
    have : c1242Sub o items = true := by
      unfold c1242Sub
      split
      · rename_i p x y b
        cases he : o.elemental p
        · rfl
        · exact absurd ⟨p, x, y, b, rfl, he⟩ hne
      · rfl
    simp [this]
  · intro h; unfold matchSubroutine; rw [h]; rfl
  · intro e h; unfold matchSubroutine; rw [h]; rfl

/-- the check changes nothing otherwise (Function_Stmt) -/
theorem c1242_only_then_function (o : HOracle Node) (s : Str) :
    (∀ items, (planFunction s).bind (runSlots o.base) = .ok items →
      (¬ ∃ p n d sf, items = [.node p, n, d, .node sf] ∧ o.elemental p = true ∧
        o.binding sf = true) →
      matchFunction o s = .ok items) ∧
    ((planFunction s).bind (runSlots o.base) = .noMatch → matchFunction o s = .noMatch) ∧
    (∀ e, (planFunction s).bind (runSlots o.base) = .raises e →
      matchFunction o s = .raises e) := by
  refine ⟨?_, ?_, ?_⟩
  · intro items h hne
    unfold matchFunction
    rw [h]
    have : c1242Fun o items = true := by
      unfold c1242Fun
      split
      · rename_i p x y b
        cases he : o.elemental p
        · simp
        · cases hb : o.binding b
          · simp
          · exact absurd ⟨p, x, y, b, rfl, he, hb⟩ hne
      · rfl
    simp [this]
  · intro h; unfold matchFunction; rw [h]; rfl
  · intro e h; unfold matchFunction; rw [h]; rfl

/-! ## witnesses -/

/-- the echo oracle: every child accepts its text and prints it back; `elemental`/`binding` look
    for the word in the text handed over -/
def p_echoH : HOracle Str :=
  { base := { call := fun _ t => .ok t, str := id, head := fun _ => none, rhsStr := fun _ => [],
              heads := fun _ => [], isDataEdit := fun _ => false },
    elemental := fun t => (searchCI "ELEMENTAL".toList t).isSome,
    binding := fun t => (searchCI "BIND".toList t).isSome,
    pointer := fun _ => false }

theorem p_echo_tok : OracleTok p_echoH.base := by
  intro c t n h
  cases h
  rfl

/-- `subroutine s()` prints `SUBROUTINE s`: the empty parentheses are dropped -/
theorem p_witness_sub_parens_dropped :
    matchSubroutine p_echoH "subroutine s()".toList = .ok [.none, .node "s".toList, .none, .none] ∧
    tostrSubroutine p_echoH.base [.none, .node "s".toList, .none, .none] = .ok "SUBROUTINE s".toList := by
  decide +kernel

/-- FINDING: the keyword search is not anchored: `puresubroutine s` is accepted with prefix `pure` -/
theorem p_witness_sub_glued_prefix :
    matchSubroutine p_echoH "puresubroutine s".toList =
      .ok [.node "pure".toList, .node "s".toList, .none, .none] ∧
    p_HeadCutOK "SUBROUTINE".toList "puresubroutine s".toList = false := by
  decide +kernel

/-- FINDING: `subroutinefoo` is accepted as the subroutine `foo` -/
theorem p_witness_sub_glued_name :
    matchSubroutine p_echoH "subroutinefoo".toList = .ok [.none, .node "foo".toList, .none, .none] ∧
    p_HeadCutOK "SUBROUTINE".toList "subroutinefoo".toList = false := by
  decide +kernel

/-- FINDING (violates the full statement): the name is handed over WITHOUT `repmap`:
    `subroutine 1.0e5` is accepted as the subroutine `F2PY_REAL_CONSTANT_1_` -/
theorem p_witness_sub_key_leaks :
    matchSubroutine p_echoH "subroutine 1.0e5".toList =
      .ok [.none, .node "F2PY_REAL_CONSTANT_1_".toList, .none, .none] ∧
    SrmOK "subroutine 1.0e5".toList ∧
    p_HeadCutOK "SUBROUTINE".toList "subroutine 1.0e5".toList = false ∧
    toks "SUBROUTINE F2PY_REAL_CONSTANT_1_".toList ≠ toks "subroutine 1.0e5".toList := by
  decide +kernel

theorem p_witness_fun_key_leaks :
    matchFunction p_echoH "function 1.0e5()".toList =
      .ok [.none, .node "F2PY_REAL_CONSTANT_1_".toList, .none, .none] ∧
    SrmOK "function 1.0e5()".toList ∧
    p_HeadCutOK "FUNCTION".toList "function 1.0e5()".toList = false := by
  decide +kernel

/-- `function f` (no parentheses) is rejected; `function f()` prints `FUNCTION f()` -/
theorem p_witness_fun_needs_parens :
    matchFunction p_echoH "function f".toList = .noMatch ∧
    matchFunction p_echoH "function f()".toList = .ok [.none, .node "f".toList, .none, .none] ∧
    tostrFunction p_echoH.base [.none, .node "f".toList, .none, .none] = .ok "FUNCTION f()".toList := by
  decide +kernel

/-- `entry e` prints `ENTRY e()`: the parentheses are invented -/
theorem p_witness_entry_parens_invented :
    (planEntry "entry e".toList).bind (runSlots p_echoH.base) = .ok [.node "e".toList, .none, .none] ∧
    tostrEntry p_echoH.base [.node "e".toList, .none, .none] = .ok "ENTRY e()".toList := by
  decide +kernel

/-- C1242 at work: `elemental subroutine s() bind(c)` is rejected, `pure …` is not -/
theorem p_witness_c1242 :
    matchSubroutine p_echoH "elemental subroutine s() bind(c)".toList = .noMatch ∧
    matchSubroutine p_echoH "pure subroutine s() bind(c)".toList =
      .ok [.node "pure".toList, .node "s".toList, .none, .node "bind(c)".toList] ∧
    matchFunction p_echoH "elemental function f() bind(c)".toList = .noMatch ∧
    matchFunction p_echoH "elemental function f() result(r)".toList =
      .ok [.node "elemental".toList, .node "f".toList, .none, .node "result(r)".toList] := by
  decide +kernel

/-! non-vacuity of the theorems above -/

example : ∃ t, tostrSubroutine p_echoH.base [.node "pure".toList, .node "s".toList,
    .node "a, b".toList, .node "bind(c)".toList] = .ok t :=
  (Subroutine_Stmt_tostr_match_tokens_partial p_echoH p_echo_tok
    "pure subroutine s(a, b) bind(c)".toList _ (by decide +kernel) (by decide +kernel)
    (by decide +kernel)).imp fun _ h => h.1

example : ∃ t, tostrSubroutine p_echoH.base [.none, .node "s".toList, .none, .none] = .ok t :=
  (Subroutine_Stmt_tostr_match_tokens_partial p_echoH p_echo_tok
    "subroutine s()".toList _ (by decide +kernel) (by decide +kernel)
    (by decide +kernel)).imp fun _ h => h.1

example : ∃ t, tostrFunction p_echoH.base [.node "integer".toList, .node "f".toList,
    .node "x".toList, .node "result(r)".toList] = .ok t :=
  (Function_Stmt_tostr_match_tokens_partial p_echoH p_echo_tok
    "integer function f(x) result(r)".toList _ (by decide +kernel) (by decide +kernel)
    (by decide +kernel)).imp fun _ h => h.1

example : ∃ t, tostrEntry p_echoH.base [.node "e".toList, .node "a".toList,
    .node "result(r)".toList] = .ok t :=
  (Entry_Stmt_tostr_match_tokens_partial p_echoH p_echo_tok
    "entry e (a) result(r)".toList _ (by decide +kernel) (by decide +kernel)).imp fun _ h => h.1

example : ∃ t, tostrEntry p_echoH.base [.node "e".toList, .none, .none] = .ok t :=
  (Entry_Stmt_tostr_match_tokens_partial p_echoH p_echo_tok
    "entry e".toList _ (by decide +kernel) (by decide +kernel)).imp fun _ h => h.1

example : matchSubroutine p_echoH "elemental subroutine s() bind(c)".toList = .noMatch :=
  c1242_rejects p_echoH _ "elemental".toList "bind(c)".toList (.node "s".toList) .none
    (by decide +kernel) (by decide +kernel)

example : matchFunction p_echoH "elemental function f() bind(c)".toList = .noMatch :=
  c1242_rejects_function p_echoH _ "elemental".toList "bind(c)".toList (.node "f".toList) .none
    (by decide +kernel) (by decide +kernel) (by decide +kernel)

/-! ## totality -/

/-- `Subroutine_Stmt.match` up to the child calls raises only the `KeyError` of the tokeniser -/
theorem planSubroutine_total (s : Str) (e : Exc) (h : planSubroutine s = .raises e) :
    e = .keyError ∧ Combi.tokenise s = none := by
  unfold planSubroutine at h
  rcases Res.bind_eq_raises h with h1 | ⟨r, _, h2⟩
  · exact tok_raises h1
  · exfalso
    dsimp only at h2
    split at h2
    · cases h2
    split at h2
    · cases h2
    split at h2
    · split at h2
      · cases h2
      · cases h2
    · cases h2

theorem planFunction_total (s : Str) (e : Exc) (h : planFunction s = .raises e) :
    e = .keyError ∧ Combi.tokenise s = none := by
  unfold planFunction at h
  rcases Res.bind_eq_raises h with h1 | ⟨r, _, h2⟩
  · exact tok_raises h1
  · exfalso
    dsimp only at h2
    split at h2
    · cases h2
    split at h2
    · cases h2
    split at h2
    · cases h2
    split at h2
    · cases h2
    · cases h2

/-- `Entry_Stmt.match` up to the child calls never raises by itself: the tokeniser's `KeyError`
    surfaces AFTER the `Entry_Name` child call (as `Slot.raise`) -/
theorem planEntry_total (s : Str) (e : Exc) : planEntry s ≠ .raises e := by
  intro h
  unfold planEntry at h
  split at h
  · cases h
  dsimp only at h
  split at h
  · cases h
  split at h
  · cases h
  · cases h
  · split at h
    · cases h
    · split at h <;> cases h

theorem p_planSubroutine_noRaise (s : Str) (slots : List Slot) (h : planSubroutine s = .ok slots)
    (e : Exc) : Slot.raise e ∉ slots := by
  unfold planSubroutine at h
  obtain ⟨r, _, h⟩ := Res.bind_eq_ok h
  simp only [prefixSlot] at h
  repeat' split at h
  all_goals first | (cases h; done) | (cases h; simp)

theorem p_planFunction_noRaise (s : Str) (slots : List Slot) (h : planFunction s = .ok slots)
    (e : Exc) : Slot.raise e ∉ slots := by
  unfold planFunction at h
  obtain ⟨r, _, h⟩ := Res.bind_eq_ok h
  simp only [prefixSlot] at h
  repeat' split at h
  all_goals first | (cases h; done) | (cases h; simp)

/-- **Subroutine_Stmt.match is total** over total children: the only exception is the `KeyError`
    of `string_replace_map` -/
theorem Subroutine_Stmt_total (o : HOracle Node) (hot : OracleTotal o.base) (s : Str) (e : Exc)
    (h : matchSubroutine o s = .raises e) : e = .keyError ∧ Combi.tokenise s = none := by
  unfold matchSubroutine at h
  rcases Res.bind_eq_raises h with h1 | ⟨items, _, h2⟩
  · rcases Res.bind_eq_raises h1 with h3 | ⟨slots, hp, hr⟩
    · exact planSubroutine_total s e h3
    · exfalso
      rcases runSlots_raises hr with hm | ⟨c, t, _, hc⟩
      · exact p_planSubroutine_noRaise s slots hp e hm
      · exact hot c t e hc
  · exfalso
    split at h2 <;> cases h2

theorem Function_Stmt_total (o : HOracle Node) (hot : OracleTotal o.base) (s : Str) (e : Exc)
    (h : matchFunction o s = .raises e) : e = .keyError ∧ Combi.tokenise s = none := by
  unfold matchFunction at h
  rcases Res.bind_eq_raises h with h1 | ⟨items, _, h2⟩
  · rcases Res.bind_eq_raises h1 with h3 | ⟨slots, hp, hr⟩
    · exact planFunction_total s e h3
    · exfalso
      rcases runSlots_raises hr with hm | ⟨c, t, _, hc⟩
      · exact p_planFunction_noRaise s slots hp e hm
      · exact hot c t e hc
  · exfalso
    split at h2 <;> cases h2

theorem p_planEntry_raise (s : Str) (slots : List Slot) (h : planEntry s = .ok slots) (e : Exc)
    (hm : Slot.raise e ∈ slots) :
    e = .keyError ∧ ∃ pre post, Combi.cutFirst '(' (lstrip (s.drop 5)) = some (pre, post) ∧
      Combi.tokenise ('(' :: post) = none := by
  unfold planEntry at h
  split at h
  · cases h
  dsimp only at h
  split at h
  · cases h; simp at hm
  rename_i pre post hcf
  split at h
  · rename_i e' htok
    cases h
    have : e = e' := by simpa using hm
    subst this
    exact ⟨(tok_raises htok).1, pre, post, hcf, (tok_raises htok).2⟩
  · cases h; simp at hm
  · exfalso
    repeat' split at h
    all_goals first | (cases h; done) | (cases h; simp at hm)

/-- **Entry_Stmt.match is total** over total children, except for the `KeyError` of
    `string_replace_map` on `"(" + rest` -/
theorem Entry_Stmt_total (o : Oracle Node) (hot : OracleTotal o) (s : Str) (e : Exc)
    (h : (planEntry s).bind (runSlots o) = .raises e) :
    e = .keyError ∧ ∃ pre post, Combi.cutFirst '(' (lstrip (s.drop 5)) = some (pre, post) ∧
      Combi.tokenise ('(' :: post) = none := by
  rcases Res.bind_eq_raises h with h3 | ⟨slots, hp, hr⟩
  · exact absurd h3 (planEntry_total s e)
  · rcases runSlots_raises hr with hm | ⟨c, t, _, hc⟩
    · exact p_planEntry_raise s slots hp e hm
    · exact absurd hc (hot c t e)

/-- under the tokeniser hypotheses nothing is raised at all -/
theorem Subroutine_Stmt_total_srmOK (o : HOracle Node) (hot : OracleTotal o.base) (s : Str)
    (hs : SrmOK s) (e : Exc) : matchSubroutine o s ≠ .raises e := by
  intro h
  obtain ⟨r, hr⟩ := tokenise_some_of_srmOK hs
  rw [(Subroutine_Stmt_total o hot s e h).2] at hr
  cases hr

theorem Function_Stmt_total_srmOK (o : HOracle Node) (hot : OracleTotal o.base) (s : Str)
    (hs : SrmOK s) (e : Exc) : matchFunction o s ≠ .raises e := by
  intro h
  obtain ⟨r, hr⟩ := tokenise_some_of_srmOK hs
  rw [(Function_Stmt_total o hot s e h).2] at hr
  cases hr

theorem Entry_Stmt_total_srmOK (o : Oracle Node) (hot : OracleTotal o) (s : Str)
    (hs : p_EntrySrmOK s) (e : Exc) : (planEntry s).bind (runSlots o) ≠ .raises e := by
  intro h
  obtain ⟨_, pre, post, hcf, hn⟩ := Entry_Stmt_total o hot s e h
  unfold p_EntrySrmOK at hs
  rw [hcf] at hs
  obtain ⟨r, hr⟩ := tokenise_some_of_srmOK hs
  rw [hn] at hr
  cases hr

theorem p_echo_total : OracleTotal p_echoH.base := by
  intro c t e h
  cases h

example (e : Exc) : matchSubroutine p_echoH "pure subroutine s(a, b) bind(c)".toList ≠ .raises e :=
  Subroutine_Stmt_total_srmOK p_echoH p_echo_total _ (by decide +kernel) e
example (e : Exc) : matchFunction p_echoH "integer function f(x) result(r)".toList ≠ .raises e :=
  Function_Stmt_total_srmOK p_echoH p_echo_total _ (by decide +kernel) e
example (e : Exc) : (planEntry "entry e (a) result(r)".toList).bind (runSlots p_echoH.base) ≠ .raises e :=
  Entry_Stmt_total_srmOK p_echoH.base p_echo_total _ (by decide +kernel) e

/-! ## C01: what Subroutine_Stmt prints is matched again (shapes without a prefix) -/

/-- `pattern.abs_name`: a letter followed by word characters / `$` -/
def p_isNameB : Str → Bool
  | [] => false
  | c :: cs => isAlpha c && cs.all isNameChar

theorem p_takeWhile_all (p : Char → Bool) : ∀ (cs rest : Str), cs.all p = true →
    (∀ c, rest.head? = some c → p c = false) →
    (cs ++ rest).takeWhile p = cs ∧ (cs ++ rest).dropWhile p = rest
  | [], [], _, _ => by simp
  | [], x :: r, _, h => by
    have := h x rfl
    simp [List.takeWhile_cons, List.dropWhile_cons, this]
  | c :: cs, rest, ha, h => by
    have ha' : p c = true ∧ cs.all p = true := by simpa using ha
    have ih := p_takeWhile_all p cs rest ha'.2 h
    simp only [List.cons_append, List.takeWhile_cons, List.dropWhile_cons, ha'.1, if_true]
    exact ⟨by rw [ih.1], ih.2⟩

theorem p_nameMatch_name {N rest : Str} (hN : p_isNameB N = true)
    (hrest : ∀ c, rest.head? = some c → isNameChar c = false) :
    nameMatch (N ++ rest) = some (N, rest) := by
  cases N with
  | nil => cases hN
  | cons c cs =>
    have h' : isAlpha c = true ∧ cs.all isNameChar = true := by simpa [p_isNameB] using hN
    obtain ⟨e1, e2⟩ := p_takeWhile_all isNameChar cs rest h'.2 hrest
    simp only [List.cons_append, nameMatch, h'.1, if_true, e1, e2]

theorem p_alpha_not_space {c : Char} (h : isAlpha c = true) : isSpace c = false := by
  cases hs : isSpace c
  · rfl
  · exfalso
    rcases isSpace_cases hs with h' | h' | h' | h' | h' | h' | h' | h' | h' | h' <;> subst h' <;>
      exact absurd h (by decide)

theorem p_lstrip_name {N : Str} (hN : p_isNameB N = true) (rest : Str) :
    lstrip (N ++ rest) = N ++ rest := by
  cases N with
  | nil => cases hN
  | cons c cs =>
    have h' : isAlpha c = true ∧ cs.all isNameChar = true := by simpa [p_isNameB] using hN
    exact Combi.lstrip_cons_nonspace _ (p_alpha_not_space h'.1)

theorem p_searchCI_head (kw rest : Str) (hk : upper kw = kw) (hne : kw ≠ []) :
    searchCI kw (kw ++ rest) = some ([], rest) := by
  cases kw with
  | nil => exact absurd rfl hne
  | cons c k =>
    have h1 : (c :: (k ++ rest)).take (c :: k).length = c :: k := by
      simpa using List.take_left' (l₁ := c :: k) (l₂ := rest) rfl
    have h2 : (c :: (k ++ rest)).drop (c :: k).length = rest := by
      simpa using List.drop_left' (l₁ := c :: k) (l₂ := rest) rfl
    show searchCI (c :: k) (c :: (k ++ rest)) = _
    unfold searchCI
    rw [h1, h2, hk]
    simp

theorem p_planSubroutine_printed1 (N : Str) (hN : p_isNameB N = true)
    (ht : TokId ("SUBROUTINE ".toList ++ N)) :
    planSubroutine ("SUBROUTINE ".toList ++ N) =
      .ok [.none, .child C.Subroutine_Name N, .none, .none] := by
  unfold planSubroutine
  rw [tok_id ht]
  have e : "SUBROUTINE ".toList ++ N = "SUBROUTINE".toList ++ (' ' :: N) := rfl
  simp only [Res.bind_ok]
  rw [e, p_searchCI_head _ _ (by decide) (by decide)]
  have e2 : lstrip (' ' :: N) = N ++ [] := by
    rw [Combi.lstrip_space_cons, List.append_nil]
    simpa using p_lstrip_name hN []
  simp only [e2]
  rw [p_nameMatch_name hN (by simp)]
  simp +decide [prefixSlot, startsC]

theorem p_planSubroutine_printed2 (N D : Str) (hN : p_isNameB N = true)
    (hl : lstrip D = D) (hr : rstrip D = D) (hD0 : D ≠ []) (hD : ')' ∉ D)
    (ht : TokId ("SUBROUTINE ".toList ++ N ++ "(".toList ++ D ++ ")".toList)) :
    planSubroutine ("SUBROUTINE ".toList ++ N ++ "(".toList ++ D ++ ")".toList) =
      .ok [.none, .child C.Subroutine_Name N, .child C.Dummy_Arg_List D, .none] := by
  unfold planSubroutine
  rw [tok_id ht]
  have e : "SUBROUTINE ".toList ++ N ++ "(".toList ++ D ++ ")".toList =
      "SUBROUTINE".toList ++ (' ' :: (N ++ '(' :: (D ++ ')' :: []))) := by
    simp
  simp only [Res.bind_ok]
  rw [e, p_searchCI_head _ _ (by decide) (by decide)]
  have e2 : lstrip (' ' :: (N ++ '(' :: (D ++ ')' :: []))) = N ++ '(' :: (D ++ ')' :: []) := by
    rw [Combi.lstrip_space_cons]
    exact p_lstrip_name hN _
  simp only [e2]
  rw [p_nameMatch_name hN (by simp +decide)]
  have e3 : lstrip ('(' :: (D ++ ')' :: [])) = '(' :: (D ++ ')' :: []) :=
    Combi.lstrip_cons_nonspace _ (by decide)
  simp only [e3]
  rw [cutFirst_par D [] hD]
  simp +decide [prefixSlot, startsC, Combi.strip_self hl hr, hD0, Combi.applyMap_nil]

/-- **Subroutine_Stmt** `SUBROUTINE name`: printed and matched again gives the same items -/
theorem Subroutine_Stmt_match_tostr_fixpoint (o : HOracle Node) (n : Node)
    (hrt : OracleRT o.base C.Subroutine_Name n) (hN : p_isNameB (o.base.str n) = true)
    (ht : TokId ("SUBROUTINE ".toList ++ o.base.str n)) :
    ∃ t, tostrSubroutine o.base [.none, .node n, .none, .none] = .ok t ∧
      matchSubroutine o t = .ok [.none, .node n, .none, .none] := by
  refine ⟨_, rfl, ?_⟩
  simp only [Item.text]
  unfold matchSubroutine
  rw [p_planSubroutine_printed1 _ hN ht]
  simp [runSlots, run_child o.base hrt, c1242Sub]

/-- **Subroutine_Stmt** `SUBROUTINE name(args)` -/
theorem Subroutine_Stmt_match_tostr_fixpoint_args (o : HOracle Node) (n d : Node)
    (hrt : OracleRT o.base C.Subroutine_Name n) (hrd : OracleRT o.base C.Dummy_Arg_List d)
    (hN : p_isNameB (o.base.str n) = true)
    (hl : lstrip (o.base.str d) = o.base.str d) (hr : rstrip (o.base.str d) = o.base.str d)
    (hD0 : o.base.str d ≠ []) (hD : ')' ∉ o.base.str d)
    (ht : TokId ("SUBROUTINE ".toList ++ o.base.str n ++ "(".toList ++ o.base.str d ++ ")".toList)) :
    ∃ t, tostrSubroutine o.base [.none, .node n, .node d, .none] = .ok t ∧
      matchSubroutine o t = .ok [.none, .node n, .node d, .none] := by
  refine ⟨_, rfl, ?_⟩
  simp only [Item.text]
  unfold matchSubroutine
  rw [p_planSubroutine_printed2 _ _ hN hl hr hD0 hD ht]
  simp [runSlots, run_child o.base hrt, run_child o.base hrd, c1242Sub]

example : ∃ t, tostrSubroutine p_echoH.base [.none, .node "s".toList, .none, .none] = .ok t ∧
    matchSubroutine p_echoH t = .ok [.none, .node "s".toList, .none, .none] :=
  Subroutine_Stmt_match_tostr_fixpoint p_echoH "s".toList rfl (by decide) (by decide +kernel)

example : ∃ t, tostrSubroutine p_echoH.base [.none, .node "s".toList, .node "a".toList, .none] = .ok t ∧
    matchSubroutine p_echoH t = .ok [.none, .node "s".toList, .node "a".toList, .none] :=
  Subroutine_Stmt_match_tostr_fixpoint_args p_echoH "s".toList "a".toList rfl rfl (by decide)
    (by decide) (by decide) (by decide) (by decide) (by decide +kernel)

/-- the name condition is necessary: a "name" node printing `s t` comes back as name `s` and
    binding `t` -/
theorem p_witness_fixpoint_name_needed :
    tostrSubroutine p_echoH.base [.none, .node "s t".toList, .none, .none] = .ok "SUBROUTINE s t".toList ∧
    matchSubroutine p_echoH "SUBROUTINE s t".toList =
      .ok [.none, .node "s".toList, .none, .node "t".toList] := by
  decide +kernel

/-- `)` in the printed arguments is cut at: the condition `')' ∉ args` is necessary -/
theorem p_witness_fixpoint_paren_needed :
    tostrSubroutine p_echoH.base [.none, .node "s".toList, .node "a)(b".toList, .none] =
      .ok "SUBROUTINE s(a)(b)".toList ∧
    matchSubroutine p_echoH "SUBROUTINE s(a)(b)".toList =
      .ok [.none, .node "s".toList, .node "a".toList, .node "(b)".toList] := by
  decide +kernel

end Fp.Header

#print axioms Fp.Header.p_searchCI_spec
#print axioms Fp.Header.p_nameMatch_spec
#print axioms Fp.Header.p_applyMap_no2
#print axioms Fp.Header.Subroutine_Stmt_tostr_match_tokens_partial
#print axioms Fp.Header.Function_Stmt_tostr_match_tokens_partial
#print axioms Fp.Header.Entry_Stmt_tostr_match_tokens_partial
#print axioms Fp.Header.c1242_rejects
#print axioms Fp.Header.c1242_rejects_function
#print axioms Fp.Header.c1242_only_then
#print axioms Fp.Header.c1242_only_then_function
#print axioms Fp.Header.p_witness_sub_parens_dropped
#print axioms Fp.Header.p_witness_sub_glued_prefix
#print axioms Fp.Header.p_witness_sub_glued_name
#print axioms Fp.Header.p_witness_sub_key_leaks
#print axioms Fp.Header.p_witness_fun_key_leaks
#print axioms Fp.Header.p_witness_fun_needs_parens
#print axioms Fp.Header.p_witness_entry_parens_invented
#print axioms Fp.Header.p_witness_c1242
#print axioms Fp.Header.planSubroutine_total
#print axioms Fp.Header.planFunction_total
#print axioms Fp.Header.planEntry_total
#print axioms Fp.Header.Subroutine_Stmt_total
#print axioms Fp.Header.Function_Stmt_total
#print axioms Fp.Header.Entry_Stmt_total
#print axioms Fp.Header.Subroutine_Stmt_total_srmOK
#print axioms Fp.Header.Function_Stmt_total_srmOK
#print axioms Fp.Header.Entry_Stmt_total_srmOK
#print axioms Fp.Header.Subroutine_Stmt_match_tostr_fixpoint
#print axioms Fp.Header.Subroutine_Stmt_match_tostr_fixpoint_args
#print axioms Fp.Header.p_witness_fixpoint_name_needed
#print axioms Fp.Header.p_witness_fixpoint_paren_needed
