import FparserModel.Proofs.ReaderWalk
import FparserModel.Proofs.ReaderFree
import FparserModel.Proofs.ReaderJoin

/-!
# ReaderStep — generic glue between `get_source_item`, `_next` and `drain`

* `nextRaw_mono`          : `_next`'s fuel is irrelevant once an answer other than `stop` is produced
* `next1_of_getSourceItem`: an item produced by `get_source_item` that is neither an ignored
                            comment nor `;`-split is what `_next` returns
* `next1_skip*`           : an ignored comment is skipped
* `Reads`                 : `k` successive successful `get_single_line` calls
* `strip_ne_nil`          : a string with a non-blank character does not strip to `""`
-/
namespace Fp.Reader
open Fp

theorem nextRaw_mono : ∀ (n : Nat) (r : Rd) (p : Res Item × Rd),
    nextRaw n r = p → p.1 ≠ .stop → nextRaw (n + 1) r = p
  | 0, r, p, h, hs => by
    simp only [nextRaw] at h; subst h; exact absurd rfl hs
  | n + 1, r, p, h, hs => by
    unfold nextRaw at h ⊢
    simp only [] at h ⊢
    cases hp : (popOrRead r).1 with
    | ok it =>
      rw [hp] at h; simp only [] at h ⊢
      by_cases hc : (it.isComment && (popOrRead r).2.ignoreComments) = true
      · rw [if_pos hc] at h ⊢; exact nextRaw_mono n _ p h hs
      · rw [if_neg hc] at h ⊢; exact h
    | stop => rw [hp] at h; exact h
    | err => rw [hp] at h; exact h
    | exit => rw [hp] at h; exact h
    | unsup => rw [hp] at h; exact h

theorem nextRaw_mono_add (n k : Nat) (r : Rd) (p : Res Item × Rd)
    (h : nextRaw n r = p) (hs : p.1 ≠ .stop) : nextRaw (n + k) r = p := by
  induction k with
  | zero => exact h
  | succ k ih => exact nextRaw_mono (n + k) r p ih hs

theorem nextRaw_mono_le {n m : Nat} (r : Rd) (p : Res Item × Rd)
    (h : nextRaw n r = p) (hs : p.1 ≠ .stop) (hle : n ≤ m) : nextRaw m r = p := by
  obtain ⟨k, rfl⟩ := Nat.exists_eq_add_of_le hle
  exact nextRaw_mono_add n k r p h hs

theorem NoSemi.comment (t : Str) (s e : Nat) (b : Bool) : NoSemi (.comment t s e b) :=
  fun _ _ _ _ _ h => by simp [Item.lineView] at h

/-- a buffered item that is not an ignored comment and has no `;` is what `_next` returns -/
theorem next1_pop (r : Rd) (it : Item) (f : List Item) (hfifo : r.fifo = it :: f)
    (hc : (it.isComment && r.ignoreComments) = false) (hsemi : NoSemi it) :
    next1 r = (.ok it, { r with fifo := f }) := by
  obtain ⟨n, hn⟩ := nextRawFuel_pos r
  have hraw : nextRaw (nextRawFuel r) r = (.ok it, { r with fifo := f }) := by
    rw [hn]
    unfold nextRaw popOrRead
    simp only [hfifo, hc, Bool.false_eq_true, if_false]
  exact next1_of_nextRaw r _ it _ hraw (splitSemicolon_stable it _ hsemi)

theorem next1Loop_mono : ∀ (n : Nat) (r : Rd) (p : Res Item × Rd),
    next1Loop n r = p → p.1 ≠ .stop → next1Loop (n + 1) r = p
  | 0, r, p, h, hs => by
    simp only [next1Loop] at h; subst h; exact absurd rfl hs
  | n + 1, r, p, h, hs => by
    unfold next1Loop at h ⊢
    simp only [] at h ⊢
    cases hp : (nextRaw (nextRawFuel r) r).1 with
    | ok it =>
      rw [hp] at h; simp only [] at h ⊢
      cases hq : splitSemicolon it (nextRaw (nextRawFuel r) r).2 with
      | some q => rw [hq] at h; exact h
      | none => rw [hq] at h; simp only [] at h ⊢; exact next1Loop_mono n _ p h hs
    | stop => rw [hp] at h; exact h
    | err => rw [hp] at h; exact h
    | exit => rw [hp] at h; exact h
    | unsup => rw [hp] at h; exact h

theorem next1Loop_mono_le {n m : Nat} (r : Rd) (p : Res Item × Rd)
    (h : next1Loop n r = p) (hs : p.1 ≠ .stop) (hle : n ≤ m) : next1Loop m r = p := by
  obtain ⟨k, rfl⟩ := Nat.exists_eq_add_of_le hle
  induction k with
  | zero => exact h
  | succ k ih => exact next1Loop_mono (n + k) r p (ih (by omega)) hs

/-- `_next` is determined by the first round of its comment-skipping loop -/
theorem next1_eq_of_nextRaw_eq (r r' : Rd) (h : nextRaw (nextRawFuel r) r = nextRaw (nextRawFuel r') r')
    (hle : nextRawFuel r' ≤ nextRawFuel r)
    (x : Item) (r'' : Rd) (hn : next1 r' = (.ok x, r'')) : next1 r = (.ok x, r'') := by
  obtain ⟨n, hnf⟩ := nextRawFuel_pos r
  obtain ⟨n', hnf'⟩ := nextRawFuel_pos r'
  unfold next1 at hn ⊢
  rw [show next1Loop (nextRawFuel r') r' = next1Loop (n' + 1) r' from by rw [hnf']] at hn
  rw [show next1Loop (nextRawFuel r) r = next1Loop (n + 1) r from by rw [hnf]]
  unfold next1Loop at hn ⊢
  rw [h]
  simp only [] at hn ⊢
  cases hp : (nextRaw (nextRawFuel r') r').1 with
  | ok it =>
    rw [hp] at hn; simp only [] at hn ⊢
    cases hq : splitSemicolon it (nextRaw (nextRawFuel r') r').2 with
    | some q => rw [hq] at hn; exact hn
    | none =>
      rw [hq] at hn; simp only [] at hn ⊢
      exact next1Loop_mono_le _ _ hn (by simp) (by omega)
  | stop => rw [hp] at hn; simp only [] at hn; rw [hn] at hp; cases hp
  | err => rw [hp] at hn; simp only [] at hn; rw [hn] at hp; cases hp
  | exit => rw [hp] at hn; simp only [] at hn; rw [hn] at hp; cases hp
  | unsup => rw [hp] at hn; simp only [] at hn; rw [hn] at hp; cases hp

theorem next1_ok_nextRaw_ne_stop (r : Rd) (x : Item) (r'' : Rd) (hn : next1 r = (.ok x, r'')) :
    (nextRaw (nextRawFuel r) r).1 ≠ .stop := by
  obtain ⟨n, hnf⟩ := nextRawFuel_pos r
  unfold next1 at hn
  rw [show next1Loop (nextRawFuel r) r = next1Loop (n + 1) r from by rw [hnf]] at hn
  unfold next1Loop at hn
  simp only [] at hn
  intro hp
  rw [hp] at hn
  simp only [] at hn
  rw [hn] at hp; cases hp

/-- an ignored comment produced by `get_source_item` is skipped -/
theorem next1_skip (r r' r'' : Rd) (it x : Item) (hfifo : r.fifo = [])
    (hg : getSourceItem r = (.ok it, r'))
    (hc : (it.isComment && r'.ignoreComments) = true)
    (hfuel : nextRawFuel r' < nextRawFuel r)
    (hn : next1 r' = (.ok x, r'')) : next1 r = (.ok x, r'') := by
  obtain ⟨n, hnf⟩ := nextRawFuel_pos r
  refine next1_eq_of_nextRaw_eq r r' ?_ (by omega) x r'' hn
  rw [hnf]
  have h1 : nextRaw (n + 1) r = nextRaw n r' := by
    conv => lhs; unfold nextRaw popOrRead
    simp only [hfifo, hg, hc, if_true]
  rw [h1]
  exact nextRaw_mono_le r' _ rfl (next1_ok_nextRaw_ne_stop r' x r'' hn) (by omega)

/-- an ignored buffered comment is skipped -/
theorem next1_skip_pop (r r'' : Rd) (it x : Item) (f : List Item) (hfifo : r.fifo = it :: f)
    (hc : (it.isComment && r.ignoreComments) = true)
    (hn : next1 { r with fifo := f } = (.ok x, r'')) : next1 r = (.ok x, r'') := by
  have hF : nextRawFuel r = nextRawFuel { r with fifo := f } + 1 := by
    simp only [nextRawFuel, hfifo, List.length_cons]; omega
  refine next1_eq_of_nextRaw_eq r _ ?_ (by omega) x r'' hn
  rw [hF]
  conv => lhs; unfold nextRaw popOrRead
  simp only [hfifo, hc, if_true]

/-! ### successive `get_single_line` calls -/

/-- `Reads r ls r'`: `ls.length` successive `get_single_line` calls on `r` succeed, return the
    lines `ls` and leave the reader in state `r'` -/
inductive Reads : Rd → List Str → Rd → Prop where
  | nil (r : Rd) : Reads r [] r
  | cons {r r1 r' : Rd} {l : Str} {ls : List Str} :
      getSingleLine r = (some l, r1) → Reads r1 ls r' → Reads r (l :: ls) r'

/-- a successful `get_single_line` uses up at least one pending physical line -/
theorem getSingleLine_measure (r r1 : Rd) (l : Str) (h : getSingleLine r = (some l, r1)) :
    r1.src.length + r1.filo.length + 1 ≤ r.src.length + r.filo.length := by
  unfold getSingleLine at h
  cases hf : r.filo with
  | cons l0 f =>
    rw [hf] at h
    simp only [Prod.mk.injEq, Option.some.injEq] at h
    obtain ⟨_, rfl⟩ := h
    simp only [List.length_cons]; omega
  | nil =>
    rw [hf] at h
    simp only [] at h
    by_cases hc : r.closed = true
    · simp [hc] at h
    · have hc' : r.closed = false := by simpa using hc
      simp only [hc', Bool.false_eq_true, if_false] at h
      obtain ⟨k, _, _, h3, h4⟩ := pull_spec (r.omp && !r.isFree) (r.ignoreComments && !r.isFree)
        r.src r.linecount r.linesRev
      cases hp : pull (r.omp && !r.isFree) (r.ignoreComments && !r.isFree) r.src r.linecount r.linesRev with
      | mk o rest1 =>
        obtain ⟨src', lc', ls'⟩ := rest1
        rw [hp] at h h3 h4
        cases o with
        | none => simp at h
        | some l' =>
          simp only [Prod.mk.injEq, Option.some.injEq] at h
          obtain ⟨_, rfl⟩ := h
          have := h3 rfl
          simp only [List.length_nil] at h4 ⊢
          omega

theorem Reads.measure {r r' : Rd} {ls : List Str} (h : Reads r ls r') :
    r'.src.length + r'.filo.length + ls.length ≤ r.src.length + r.filo.length := by
  induction h with
  | nil r => simp
  | cons hg _ ih =>
    have := getSingleLine_measure _ _ _ hg
    simp only [List.length_cons]; omega

theorem Reads.cast {r a b : Rd} {ls : List Str} (h : Reads r ls a) (e : a = b) : Reads r ls b :=
  e ▸ h

/-- free form, nothing pushed back: reading `ls.length` lines returns the cooked lines -/
theorem Reads.free : ∀ (ls rest : List Str) (r : Rd), r.src = ls ++ rest → r.filo = [] →
    r.closed = false → r.isFree = true →
    Reads r (ls.map cook) { r with src := rest, linecount := r.linecount + ls.length,
                                    linesRev := (ls.map cook).reverse ++ r.linesRev }
  | [], rest, r, hs, _, _, _ => by
    have : ({ r with src := rest, linecount := r.linecount + ([] : List Str).length,
                     linesRev := (([] : List Str).map cook).reverse ++ r.linesRev } : Rd) = r := by
      cases r; simp only [List.nil_append] at hs; subst hs; rfl
    rw [this]; exact Reads.nil r
  | l :: ls, rest, r, hs, h1, h2, h3 => by
    have hg := getSingleLine_free r l (ls ++ rest) h1 h2 h3 (by simpa using hs)
    have ih := Reads.free ls rest { r with src := ls ++ rest, linecount := r.linecount + 1,
                                           linesRev := cook l :: r.linesRev } rfl h1 h2 h3
    refine Reads.cons hg (Reads.cast ih ?_)
    simp only [List.length_cons, List.map_cons, List.reverse_cons, List.append_assoc,
      List.singleton_append, Rd.mk.injEq, true_and, and_true]
    omega

/-! ### strip -/

theorem dropWhile_nil_all (p : Char → Bool) : ∀ l : Str, l.dropWhile p = [] → ∀ x ∈ l, p x = true
  | [], _, x, hx => by cases hx
  | a :: l, h, x, hx => by
    rw [List.dropWhile_cons] at h
    by_cases ha : p a = true
    · rw [if_pos ha] at h
      rcases List.mem_cons.mp hx with rfl | hx
      · exact ha
      · exact dropWhile_nil_all p l h x hx
    · rw [if_neg ha] at h; cases h

theorem strip_eq_nil_iff_all (s : Str) : strip s = [] → ∀ c ∈ s, isSpace c = true := by
  intro h c hc
  unfold strip lstrip rstrip at h
  have h := dropWhile_nil_all _ _ h
  -- every char of `rstrip s` is blank, hence `rstrip s` is empty, hence `s` is all blank
  have h2 : List.dropWhile isSpace s.reverse = [] := by
    cases hd : List.dropWhile isSpace s.reverse with
    | nil => rfl
    | cons y ys =>
      have hy : isSpace y = true := h y (by rw [hd]; simp)
      have hne : List.dropWhile isSpace s.reverse ≠ [] := by rw [hd]; simp
      have := List.head_dropWhile_not isSpace hne
      simp only [hd, List.head_cons] at this
      rw [hy] at this; cases this
  exact dropWhile_nil_all _ _ h2 c (List.mem_reverse.mpr hc)

theorem strip_ne_nil {s : Str} {c : Char} (hc : c ∈ s) (hn : isSpace c = false) : strip s ≠ [] :=
  fun h => by rw [strip_eq_nil_iff_all s h c hc] at hn; cases hn

end Fp.Reader
