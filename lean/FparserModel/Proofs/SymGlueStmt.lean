import FparserModel.Proofs.SymGlueSim
/-!
Statement-level lemmas for `Props/SymGlue.lean`: what a USE statement / a type declaration
leaves in the table of the current scope, and how runs compose.  No Mathlib.
-/
namespace Fp.SymGlue
open Fp Fp.SymTab

/-! ## paths -/

theorem chainFrom_of_getAt : ∀ (rel : Rel) (t u : Table), getAt t rel = some u →
    ∃ init, chainFrom t rel = some (init ++ [u.loc]) := by
  intro rel
  induction rel with
  | nil => intro t u h; simp [getAt] at h; subst h; exact ⟨[], rfl⟩
  | cons i is ih =>
    intro t u h
    simp only [getAt] at h
    cases hc : t.children[i]? with
    | none => simp [hc] at h
    | some c =>
      simp only [hc] at h
      obtain ⟨init, hi⟩ := ih c u h
      exact ⟨t.loc :: init, by simp [chainFrom, hc, hi]⟩

theorem chain_of_tableAt (s : Tables) (p : Path) (t : Table) (h : s.tableAt p = some t) :
    ∃ rest, s.chain p = some (t.loc :: rest) := by
  unfold Tables.tableAt at h
  unfold Tables.chain
  cases hq : dGet s.tops p.1 with
  | none => simp [hq] at h
  | some tt =>
    simp only [hq] at h
    obtain ⟨init, hi⟩ := chainFrom_of_getAt _ _ _ h
    exact ⟨init.reverse, by simp [hi]⟩

theorem tableAt_updTable_same (s : Tables) (p : Path) (f : Table → Table) :
    (s.updTable p f).tableAt p = (s.tableAt p).map f := by
  unfold Tables.updTable Tables.tableAt
  cases hq : dGet s.tops p.1 with
  | none => simp [hq]
  | some t => simp [dGet_dSet_same, getAt_updAt_same]

/-! ## USE -/

/-- after `add_use_symbols(mod, only, rename)` the table has a `ModuleUse` for the lower-cased
    module name which holds every lower-cased local name of the statement -/
theorem addUse_records (l : Local) (mod : Str) (only : Option (List (Str × Option Str)))
    (rename : Option (List (Str × Str))) :
    ∃ m, dGet (l.addUseSymbols mod only rename).mods (lower mod) = some m
      ∧ (∀ x ∈ useNames only rename, x ∈ m.symbols)
      ∧ (only.isNone = true → m.wildcard = true) := by
  have hname := new_name mod only rename
  cases hg : dGet l.mods (ModUse.new mod only rename).name with
  | none =>
    refine ⟨ModUse.new mod only rename, ?_, ?_, ?_⟩
    · rw [addUse_mods_none l mod only rename hg, ← hname, dGet_dSet_same]
    · intro x hx; exact (mem_new_symbols mod only rename x).2 hx
    · intro h; rw [new_wildcard]; exact h
  | some old =>
    refine ⟨old.update (ModUse.new mod only rename), ?_, ?_, ?_⟩
    · rw [addUse_mods_some l mod only rename old hg, ← hname, dGet_dSet_same]
    · intro x hx
      rw [mem_update_symbols]
      exact Or.inr ((new_sets_sub mod only rename x).2 hx)
    · intro h; rw [update_wildcard, new_wildcard, h]; simp

theorem only_entry_local (es : List OEntry) (e : OEntry) (n : Str) (he : e ∈ es)
    (hn : e.localName = some n) : lower n ∈ useLocals (.only es) := by
  simp only [useLocals, List.mem_map, List.mem_filterMap]
  exact ⟨n, ⟨e, he, hn⟩, rfl⟩

theorem rename_entry_local (es : List REntry) (e : REntry) (n : Str) (he : e ∈ es)
    (hn : e.localName = some n) : lower n ∈ useLocals (.renames es) := by
  simp only [useLocals, List.mem_map, List.mem_filterMap]
  exact ⟨n, ⟨e, he, hn⟩, rfl⟩

/-! ## declarations -/

/-- the table data after recording all entities of one declaration -/
def declLocal (ptype : Str) (ents : List Entity) (l : Local) : Local :=
  ents.foldl (fun l e => recordSym l e.name ptype) l

theorem declLocal_flags (ptype : Str) : ∀ (ents : List Entity) (l : Local),
    (declLocal ptype ents l).checking = l.checking ∧ (declLocal ptype ents l).mods = l.mods
    ∧ (declLocal ptype ents l).name = l.name ∧ (declLocal ptype ents l).submod = l.submod := by
  intro ents
  induction ents with
  | nil => intro l; exact ⟨rfl, rfl, rfl, rfl⟩
  | cons e r ih =>
    intro l
    have := ih (recordSym l e.name ptype)
    simpa [declLocal, recordSym] using this

theorem declLocal_syms (ptype : Str) : ∀ (ents : List Entity) (l : Local),
    (∀ e ∈ ents, dGet (declLocal ptype ents l).syms (lower e.name) = some ⟨lower e.name, lower ptype⟩)
    ∧ (∀ n, n ∉ ents.map (fun e => lower e.name) → dGet (declLocal ptype ents l).syms n = dGet l.syms n) := by
  intro ents
  induction ents with
  | nil => intro l; exact ⟨by simp, fun _ _ => rfl⟩
  | cons e r ih =>
    intro l
    obtain ⟨ih1, ih2⟩ := ih (recordSym l e.name ptype)
    have hstep : declLocal ptype (e :: r) l = declLocal ptype r (recordSym l e.name ptype) := rfl
    constructor
    · intro e' he'
      rw [hstep]
      rcases List.mem_cons.1 he' with h | h
      · subst h
        by_cases hin : lower e'.name ∈ r.map (fun e => lower e.name)
        · obtain ⟨e2, he2, hn2⟩ := List.mem_map.1 hin
          have := ih1 e2 he2
          rw [hn2] at this
          exact this
        · rw [ih2 _ hin]
          simp [recordSym, dGet_dSet_same]
      · exact ih1 e' h
    · intro n hn
      rw [hstep]
      have h1 : n ∉ r.map (fun e => lower e.name) := fun h => hn (by simp [h])
      have h2 : lower e.name ≠ n := fun h => hn (by simp [h])
      rw [ih2 n h1]
      simp [recordSym, dGet_dSet_ne _ _ _ _ h2]

theorem addSyms_spec (ptype : Str) (p : Path) : ∀ (ents : List Entity) (s : Tables) (t : Table),
    s.cur = some p → s.tableAt p = some t → t.loc.checking = false →
    ∃ s', addSyms s ptype ents = .ok s' ∧ s'.cur = some p
      ∧ s'.tableAt p = some (.mk (declLocal ptype ents t.loc) t.children) := by
  intro ents
  induction ents with
  | nil =>
    intro s t hc ht _
    exact ⟨s, rfl, hc, by rw [ht]; cases t; rfl⟩
  | cons e r ih =>
    intro s t hc ht hchk
    have h1 : addSym s e.name ptype
        = .ok (s.updTable p (fun u => .mk (recordSym t.loc e.name ptype) u.children)) := by
      simp only [addSym, hc, ht, addDataSymbol_unchecked _ _ _ hchk]
    have hc1 : (s.updTable p (fun u => .mk (recordSym t.loc e.name ptype) u.children)).cur = some p := by
      rw [updTable_cur]; exact hc
    have ht1 : (s.updTable p (fun u => .mk (recordSym t.loc e.name ptype) u.children)).tableAt p
        = some (.mk (recordSym t.loc e.name ptype) t.children) := by
      rw [tableAt_updTable_same, ht]; rfl
    obtain ⟨s', h2, h3, h4⟩ := ih _ _ hc1 ht1 hchk
    exact ⟨s', by simp only [addSyms, h1]; exact h2, h3, h4⟩

/-! ## references do not touch the tables -/

theorem logRef_tabs (std : Std) (st st' : St) (r : Ref) (h : logRef std st r = .ok st') :
    st'.tabs = st.tabs ∧ ∃ k, st'.log = st.log ++ [k] := by
  unfold logRef at h
  cases hr : resolve st.tabs std r with
  | error a => simp [hr] at h
  | ok k =>
    simp only [hr, Except.ok.injEq] at h
    subst h
    exact ⟨rfl, k, rfl⟩

theorem logInner_tabs (std : Std) : ∀ (ents : List Entity) (st st' : St),
    logInner std st ents = .ok st' → st'.tabs = st.tabs ∧ ∃ ks, st'.log = st.log ++ ks := by
  intro ents
  induction ents with
  | nil =>
    intro st st' h
    simp only [logInner, Except.ok.injEq] at h
    subst h; exact ⟨rfl, [], by simp⟩
  | cons e r ih =>
    intro st st' h
    cases he : e.inner with
    | none => simp only [logInner, he] at h; exact ih st st' h
    | some rf =>
      simp only [logInner, he] at h
      cases h1 : logRef std st rf with
      | error a => simp [h1] at h
      | ok st1 =>
        simp only [h1] at h
        obtain ⟨ht, k, hk⟩ := logRef_tabs std st st1 rf h1
        obtain ⟨ht2, ks, hks⟩ := ih st1 st' h
        exact ⟨by rw [ht2, ht], k :: ks, by rw [hks, hk]; simp⟩

/-! ## composition of runs -/

theorem execStmt_log (std : Std) (st st' : St) (s : Stmt) (h : execStmt std st s = .ok st') :
    ∃ ks, st'.log = st.log ++ ks := by
  cases s with
  | use mod tail =>
    simp only [execStmt, Except.ok.injEq] at h
    subst h; exact ⟨[], by simp⟩
  | decl ts ents =>
    simp only [execStmt] at h
    cases h1 : logInner std st ents with
    | error a => simp [h1] at h
    | ok st1 =>
      obtain ⟨_, ks, hks⟩ := logInner_tabs std ents st st1 h1
      simp only [h1] at h
      cases ts with
      | derived t =>
        simp only [Except.ok.injEq] at h
        subst h; exact ⟨ks, hks⟩
      | intrinsic text =>
        simp only [] at h
        cases h2 : addSyms st1.tabs text ents with
        | error a => simp [h2] at h
        | ok t =>
          simp only [h2, Except.ok.injEq] at h
          subst h; exact ⟨ks, hks⟩
  | assign r =>
    obtain ⟨_, k, hk⟩ := logRef_tabs std st st' r h
    exact ⟨[k], hk⟩
  | silent k n =>
    simp only [execStmt, Except.ok.injEq] at h
    subst h; exact ⟨[], by simp⟩

theorem run_log (std : Std) : ∀ (sk : Sk) (st st' : St), run std sk st = .ok st' →
    ∃ ks, st'.log = st.log ++ ks := by
  intro sk
  induction sk with
  | nil =>
    intro st st' h
    simp only [run, Except.ok.injEq] at h
    subst h; exact ⟨[], by simp⟩
  | stmt s rest ih =>
    intro st st' h
    simp only [run] at h
    cases h1 : execStmt std st s with
    | error a => simp [h1] at h
    | ok st1 =>
      simp only [h1] at h
      obtain ⟨k1, hk1⟩ := execStmt_log std st st1 s h1
      obtain ⟨k2, hk2⟩ := ih st1 st' h
      exact ⟨k1 ++ k2, by rw [hk2, hk1]; simp⟩
  | scope k name body rest ihb ihr =>
    intro st st' h
    simp only [run] at h
    by_cases hstd : scopeInStd std k = true
    · simp only [hstd, Bool.not_true, Bool.false_eq_true, ↓reduceIte] at h
      cases h1 : run std body { st with tabs := st.tabs.enterScope (scopeName k name) (k == .submodule) } with
      | error a => simp [h1] at h
      | ok st2 =>
        simp only [h1] at h
        cases h2 : st2.tabs.exitScope with
        | error e => simp [h2] at h
        | ok t3 =>
          simp only [h2] at h
          obtain ⟨k1, hk1⟩ := ihb _ st2 h1
          obtain ⟨k2, hk2⟩ := ihr _ st' h
          exact ⟨k1 ++ k2, by rw [hk2]; simp only []; rw [hk1]; simp⟩
    · have : scopeInStd std k = false := by simpa using hstd
      simp [this] at h

/-- the run of `sk` followed by `later` is the run of `later` from where `sk` ends -/
theorem run_append (std : Std) (later : Sk) : ∀ (sk : Sk) (st : St),
    run std (sk.append later) st
      = match run std sk st with
        | .ok st1 => run std later st1
        | .error a => .error a := by
  intro sk
  induction sk with
  | nil => intro st; rfl
  | stmt s rest ih =>
    intro st
    simp only [Sk.append, run]
    cases execStmt std st s with
    | error a => rfl
    | ok st1 => exact ih st1
  | scope k name body rest _ ihr =>
    intro st
    simp only [Sk.append, run]
    by_cases hstd : scopeInStd std k = true
    · simp only [hstd, Bool.not_true, Bool.false_eq_true, ↓reduceIte]
      cases run std body { st with tabs := st.tabs.enterScope (scopeName k name) (k == .submodule) } with
      | error a => rfl
      | ok st2 =>
        simp only []
        cases st2.tabs.exitScope with
        | error e => rfl
        | ok t3 => exact ihr _
    · have : scopeInStd std k = false := by simpa using hstd
      simp [this]

end Fp.SymGlue
