"""Co-simulation of the Incl08 slice (C17 at class level).

    python -m fv.cosim_incl08 --seed S --n N        (prints statistics, RESULT: PASS/FAIL, exit 0/1)

For every rule name the Fortran 2008 grammar overrides (from the live classes, `extract_incl08.collect()`):

 A. CLASS-LEVEL DIFFERENTIAL real 2003 class vs real 2008 class on texts harvested from generated programs
    (`node.string` of every node whose class is overridden), a shape generator per rule, the probes of the leaf
    slices and token mutants: accepted by 2003 => accepted by 2008 with equal str() (case-folded outside character
    literals only when an F2008-only intrinsic name occurs).  The deviations of the pinned tree are classified
    EXACTLY (anything else fails): Open_Stmt constraints C903/C904/C906 (the model's OpenOK), Procedure_Stmt
    without MODULE (text), the dead exec-generated *_List classes that raise NameError.
 B. 2008-ONLY SHAPES per rule: accepted by the real 2008 class, rejected by the real 2003 class, classified by the
    MODEL's closed forms (incl08.shape star / concurrent, incl08.kvkey + incl08.lookup, incl08.match), and each
    in a small program: rejected by the real 2003 PARSER, accepted by the 2008 parser.
 C. MODEL vs REAL on both standards: incl08.match (Attr_Spec, Component_Attr_Spec), incl08.stop (Stop_Code: own
    match / Level_3_Expr / fallback, real class object Fortran2003.Stop_Code under both registries) and the
    both-standard models of the leaf slices through their own checkers (fv.cosim_iostmt.Checker,
    fv.cosim_header.Checker) on the overridden classes.
 D. INTRINSICS: every F2003 intrinsic name x every admissible argument count (min, min+1, max) through
    Intrinsic_Function_Reference of both standards: accepted by 2003 => accepted by 2008, same text.
 E. NEGATIVE CONTROL (every run): in-process mutations of the real code of exactly the kinds the slice must catch
    must each be reported by A/B/D, and a flipped driver answer by C.
"""
import argparse
import collections
import os
import random
import re
import signal
import sys
import time

from fv import repo

repo.activate()

from fparser.two import utils as U                     # noqa: E402
from fparser.two import Fortran2003 as F3              # noqa: E402
from fparser.two import Fortran2008 as F8              # noqa: E402
from fparser.two.parser import ParserFactory           # noqa: E402
from fparser.common.readfortran import FortranStringReader  # noqa: E402
from fv import model as fvmodel                        # noqa: E402

try:
    from fv import extract_incl08 as X
except ImportError:                                     # private working copy
    import extract_incl08 as X

STDS = ("f2003", "f2008")
BLOCKS = {"Action_Term_Do_Construct", "Block_Label_Do_Construct", "Block_Nonlabel_Do_Construct"}
DEAD_NAMEERROR = {"Actual_Arg_Spec_List", "Allocation_List", "Component_Decl_List", "Entity_Decl_List"}
F08_INTR = ("ERF", "GAMMA", "SHIFTL", "SHIFTR", "SHIFTA")
DEAD = set()


class CaseTimeout(BaseException):
    pass


def _alarm(signum, frame):
    signal.setitimer(signal.ITIMER_REAL, 0.5)
    raise CaseTimeout()


class time_limit:
    def __init__(self, seconds=2.0):
        self.s = seconds

    def __enter__(self):
        self.old = signal.signal(signal.SIGALRM, _alarm)
        signal.setitimer(signal.ITIMER_REAL, self.s)

    def __exit__(self, *a):
        signal.setitimer(signal.ITIMER_REAL, 0)
        signal.signal(signal.SIGALRM, self.old)
        return False


_CUR = [None]


def set_std(std):
    if _CUR[0] != std:
        ParserFactory().create(std=std)
        _CUR[0] = std


def admissible(s):
    return isinstance(s, str) and 0 < len(s) <= 200 and "F2PY" not in s.upper() and s.isascii() and "\n" not in s \
        and s.count("(") < 12


def run_cls(cls, text):
    """('ok', str) | ('nomatch',) | ('raises', ExcName)"""
    try:
        with time_limit(2.0):
            obj = cls(text)
            if obj is None:
                return ("nomatch",)
            return ("ok", str(obj))
    except U.NoMatchError:
        return ("nomatch",)
    except CaseTimeout:
        return ("timeout",)
    except Exception as e:   # noqa: BLE001
        return ("raises", type(e).__name__)


def fold(text):
    out, q = [], None
    for c in text:
        if q:
            out.append(c)
            if c == q:
                q = None
        else:
            if c in "'\"":
                q = c
            out.append(c.lower())
    return "".join(out)


def has_f08_intrinsic(text):
    u = text.upper()
    return any(re.search(r"\b%s\s*\(" % n, u) for n in F08_INTR)


def parse(src, std):
    set_std(std)
    try:
        with time_limit(5.0):
            t = F3.Program(FortranStringReader(src, ignore_comments=False))
            return ("ok", str(t))
    except CaseTimeout:
        return ("timeout",)
    except (U.FortranSyntaxError, U.NoMatchError) as e:
        return ("syntax", str(e)[:80])
    except SystemExit:
        return ("exit",)
    except Exception as e:   # noqa: BLE001
        return ("raises", type(e).__name__)
    finally:
        _CUR[0] = std


# ---------------------------------------------------------------------------------------------- samples

ONLY08 = {
    "Connect_Spec": ["newunit = lun", "NEWUNIT=u", "NewUnit = a(1)"],
    "Alloc_Opt": ["mold = b", "MOLD=a(1)", "Mold = x%y"],
    "Format_Item": ["*(i5)", "*(i5, 1x)", "* ( a, i3 )", "*(2(i3))"],
    "Loop_Control": ["concurrent (i = 1:n)", ", concurrent (i=1:n, j=1:m)", "CONCURRENT (i=1:n, a(i) > 0)"],
    "Attr_Spec": ["contiguous", "CONTIGUOUS", "codimension[*]", "codimension [:]"],
    "Component_Attr_Spec": ["contiguous", "Contiguous", "codimension[:]"],
    "Action_Stmt": ["error stop", "error stop 1", "ERROR STOP 'bad'"],
    "Action_Stmt_C201": ["error stop 3"],
    "If_Stmt": ["if (a) error stop 'neg'"],
    "Procedure_Stmt": ["procedure :: a", "module procedure :: a, b", " procedure a"],
    "Proc_Decl": ["p => f", "q => my_target"],
    "Open_Stmt": ["open(newunit=lun, file='f.dat')", "open (file = 'f', newunit = u, status = 'old')"],
    "Allocate_Stmt": ["allocate (a(10), mold = b)", "allocate(a, stat=ierr, mold=b)"],
    "Label_Do_Stmt": ["do 10 concurrent (i = 1:n)"],
    "Nonlabel_Do_Stmt": ["do concurrent (i = 1:n)", "do, concurrent (i=1:n)"],
    "Type_Declaration_Stmt": ["real, contiguous, pointer :: a(:)", "real, codimension[*] :: x"],
    "Data_Component_Def_Stmt": ["real, pointer, contiguous :: v(:)", "real, allocatable, codimension[:] :: c"],
    "Intrinsic_Name": ["erf", "GAMMA", "shiftl", "ShiftR", "shifta"],
    "Format_Item_List": [],
    "Connect_Spec_List": ["newunit=u, file='x'"],
    "Alloc_Opt_List": ["stat=i, mold=b"],
    "Attr_Spec_List": ["pointer, contiguous"],
    "Component_Attr_Spec_List": ["pointer, contiguous"],
    "Executable_Construct": ["error stop"],
}
PROGRAMS08 = {
    "Connect_Spec": "program p\n  open (newunit = lun, file = 'f.dat')\nend program p\n",
    "Alloc_Opt": "program p\n  allocate (a(10), mold = b)\nend program p\n",
    "Format_Item": "program p\n10 format (*(i5, 1x))\nend program p\n",
    "Loop_Control": "program p\n  do concurrent (i = 1:n)\n    a(i) = 0\n  end do\nend program p\n",
    "Label_Do_Stmt": "program p\n  do 10 concurrent (i = 1:n)\n    a(i) = 0\n10 continue\nend program p\n",
    "Attr_Spec": "subroutine s(a)\n  real, contiguous, pointer :: a(:)\nend subroutine s\n",
    "Type_Declaration_Stmt": "program p\n  real, codimension[*] :: x\nend program p\n",
    "Component_Attr_Spec": "module m\n  type t\n    real, pointer, contiguous :: v(:)\n  end type t\nend module m\n",
    "Data_Component_Def_Stmt": "module m\n  type t\n    real, allocatable, codimension[:] :: c\n  end type t\nend module m\n",
    "Action_Stmt": "program p\n  error stop 'bad'\nend program p\n",
    "If_Stmt": "program p\n  if (x > 0) error stop 'neg'\nend program p\n",
    "Procedure_Stmt": "module m\n  interface g\n    procedure :: a\n  end interface\nend module m\n",
    "Proc_Decl": "program p\n  procedure(f), pointer :: q => f\nend program p\n",
    "Executable_Construct": "program p\n  block\n    integer :: k\n    k = 1\n  end block\n  critical\n    x = 1\n  end critical\nend program p\n",
    "Program_Unit": "submodule (parent_m) sm\ncontains\n  subroutine s\n  end subroutine s\nend submodule sm\n",
}
SHAPES03 = {
    "Connect_Spec": ["10", "unit=10", "file='x'", "err = 99", "iostat=ios", "STATUS = 'old'", "iomsg=m", "recl=80", "convert='big_endian'", "form=f", "bogus=1", "=1", "unit ="],
    "Alloc_Opt": ["stat=ierr", "errmsg = msg", "source = b", "SOURCE=a(1:2)", "bogus=1", "stat="],
    "Format_Item": ["i5", "2i5", "2(i5)", "a", "f10.3", "3(a, i3)", "1x", "(i5)", "e12.4e2", "2 (i5)", "*", "", " "],
    "Loop_Control": ["i = 1, n", "i = 1, n, 2", ", i = 1, 10", "while (a < b)", ", while (x)", "concurrent_idx = 1, n", "concurrent = 1, 2", "while_v = 1, 3", "i = 1", "x"],
    "Attr_Spec": ["pointer", "allocatable", "SAVE", "intent(in)", "dimension(3)", "private", "bind(c)", "target", "Volatile", "value", "optional", "bogus"],
    "Component_Attr_Spec": ["pointer", "allocatable", "dimension(:)", "private", "public", "save"],
    "Action_Stmt": ["x = 1", "call s(a)", "stop", "stop 1", "stop 'a'", "goto 10", "continue", "return", "if (a) x = 1", "print *, x", "write(*,*) x", "allocate(a(3))", "open(10)", "exit", "cycle", "nullify(p)", "p => q", "where (a > 0) a = 0", "forall (i=1:n) a(i) = 0", "end function", "read(5,*) x", "deallocate(a)", "close(10)", "rewind 10", "error = 1", "errorstop = 2"],
    "Action_Stmt_C201": ["x = 1", "stop", "continue", "call s"],
    "Do_Term_Action_Stmt": ["x = 1", "if (a) x = 1", "call s(a)", "print *, i", "continue", "stop", "goto 10", "write(*,*) i", "a(i) = b(i)"],
    "If_Stmt": ["if (a) x = 1", "if (a > b) call s(a)", "if (x) stop", "if (a) if (b) x = 1", "if (a) goto 10", "if(a)print *, x", "if (a) end function"],
    "Procedure_Stmt": ["module procedure a", "module procedure a, b", "procedure a", "MODULE PROCEDURE x", "moduleprocedure a", "module procedure"],
    "Proc_Decl": ["p => null()", "q=>null ( )", "p", "p => "],
    "Open_Stmt": ["open(10)", "open(unit=10, file='x')", "open(10, file='x', status='old')", "open(file='x')", "open(10, unit=10)", "open(10, err=1, err=2)", "open(unit=1, unit=2)", "open()", "open(10"],
    "Allocate_Stmt": ["allocate(a(3))", "allocate(a(3), stat=i)", "allocate(real :: a(3))", "allocate(a, source=b)", "allocate(a(n), b(m), stat=i, errmsg=m)"],
    "Label_Do_Stmt": ["do 10", "do 10 i = 1, n", "do 10, i = 1, n", "do 10 while (a)"],
    "Nonlabel_Do_Stmt": ["do", "do i = 1, n", "do while (a)", "do, i = 1, 3", "do concurrent_idx = 1, n"],
    "Type_Declaration_Stmt": ["real :: x", "integer, pointer :: p", "real, dimension(3), save :: a", "character(len=3) c", "type(t), allocatable :: v(:)", "real x(3)"],
    "Data_Component_Def_Stmt": ["real :: x", "integer, pointer :: p", "real, allocatable :: a(:)", "real, dimension(3) :: a"],
    "Intrinsic_Name": ["sin", "COS", "max", "dabs", "foo", "maxloc"],
    "Intrinsic_Function_Reference": ["sin(x)", "max(a, b, c)", "maxloc(a)", "abs(-1)", "dble(x)", "cmplx(a, b, kind=8)", "sin()", "foo(x)"],
    "Stop_Code": ["1", "12345", "123456", "'abc'", "abc", "-1", "a//b", "0", "007", "\"x\"", "1.0", ""],
    "Format_Item_List": ["i5, a", "2(i3), 1x", "i5 /", "a, :, i3"],
    "Connect_Spec_List": ["10, file='x'", "unit=10"],
    "Alloc_Opt_List": ["stat=i", "stat=i, errmsg=m"],
    "Attr_Spec_List": ["pointer", "pointer, save", "dimension(3), target"],
    "Component_Attr_Spec_List": ["pointer", "pointer, dimension(:)"],
    "Procedure_Name_List": ["a", "a, b"],
    "Entity_Decl_List": ["a", "a(3), b = 1"], "Component_Decl_List": ["a", "a(3), b"],
    "Allocation_List": ["a(3)", "a, b(2)"], "Actual_Arg_Spec_List": ["a", "a, k=b"],
    "Scalar_Int_Expr": ["1", "i + 1", "n"], "Scalar_Logical_Expr": ["a", ".true.", "a > b"],
    "Scalar_Default_Char_Expr": ["'a'", "c // d"], "Scalar_Int_Variable": ["i", "a(1)", "x%y"],
    "Procedure_Name": ["a"], "Procedure_Entity_Name": ["p"], "Do_Construct_Name": ["lp"],
    "Executable_Construct": ["x = 1", "call s", "stop"], "Executable_Construct_C201": ["x = 1"],
    "Program_Unit": [],
}


def tokens_of(s):
    return re.findall(r"[A-Za-z_][A-Za-z0-9_]*|\d+|'[^']*'|\S", s)


def mutants(rng, s, k=3):
    toks = tokens_of(s)
    out = []
    if len(toks) < 2:
        return out
    for _ in range(k):
        i = rng.randrange(len(toks))
        kind = rng.randrange(3)
        if kind == 0:
            t = toks[:i] + toks[i + 1:]
        elif kind == 1:
            t = toks[:i] + [toks[i]] + toks[i:]
        else:
            t = toks[:i] + [rng.choice(["(", ")", ",", "=", "::", "*", "concurrent", "while", "module"])] + toks[i:]
        out.append(" ".join(t))
    return out


def harvest(seed, n, deadline, want):
    from fv import gen
    out = collections.defaultdict(set)
    parsed = 0
    for i in range(n):
        if time.time() > deadline:
            break
        try:
            with time_limit(5.0):
                src = gen.gen_program(seed * 100003 + i, std="f2003").text()
        except BaseException:   # noqa: BLE001
            continue
        r = None
        set_std("f2003")
        try:
            with time_limit(5.0):
                tree = F3.Program(FortranStringReader(src))
        except BaseException:   # noqa: BLE001
            continue
        parsed += 1
        for node in U.walk(tree):
            nm = type(node).__name__
            if nm in want and isinstance(getattr(node, "string", None), str) and admissible(node.string):
                out[nm].add(node.string)
            # the texts handed to match-less rules: an action statement is an Action_Stmt text etc.
            if isinstance(node, U.StmtBase) and isinstance(getattr(node, "string", None), str) and admissible(node.string):
                if nm in ACTION_NAMES:
                    out["Action_Stmt"].add(node.string)
                    out["Executable_Construct"].add(node.string)
                    out["Do_Term_Action_Stmt"].add(node.string)
    return out, parsed


ACTION_NAMES = set(F3.Action_Stmt.subclass_names)


# ---------------------------------------------------------------------------------------------- part A

class Diff:
    def __init__(self, mdl):
        self.m = mdl
        self.st = collections.Counter()
        self.bad = []
        self.known = collections.Counter()
        self.known_ex = {}

    def fail(self, msg):
        self.st["violations"] += 1
        if len(self.bad) < 50:
            self.bad.append(msg)

    def open_ok(self, text):
        """the model's OpenOK over the keywords of the connect-spec list (kvKey of each piece)"""
        m = re.match(r"\s*open\s*\((.*)\)\s*$", text, re.I | re.S)
        if not m:
            return True
        pieces = [p.strip() for p in U_split_top(m.group(1))]
        heads = []
        for p in pieces:
            r = self.m.ask("incl08.kvkey", p)
            heads.append(r[1] if r[0] == "some" else "UNIT")
        return len(set(heads)) == len(heads) and (("UNIT" in heads) != ("NEWUNIT" in heads))

    def check(self, name, c3, c8, text):
        set_std("f2003")
        r3 = run_cls(c3, text)
        set_std("f2008")
        r8 = run_cls(c8, text)
        self.st["pairs"] += 1
        if "timeout" in (r3[0], r8[0]):
            self.st["timeouts"] += 1
            return r3, r8
        if r3[0] != "ok":
            if r8[0] == "ok":
                self.st["only08"] += 1
            return r3, r8
        self.st["accepted03"] += 1
        if r8[0] != "ok":
            if name in DEAD_NAMEERROR and r8 == ("raises", "NameError"):
                self.known["dead *_List class of the 2008 package raises NameError (Combi finding; unreachable)"] += 1
            elif name in DEAD:
                self.known["dead override (never reached under f2008): the exec-generated 2008 %s differs from the hand-written 2003 class" % name] += 1
                self.known_ex.setdefault("dead " + name, text)
            elif name in ("Open_Stmt",) or (name.startswith("Action_Stmt") or name in ("Executable_Construct", "Executable_Construct_C201", "Do_Term_Action_Stmt", "If_Stmt")) and re.search(r"\bopen\s*\(", text, re.I):
                m = re.search(r"open\s*\(.*\)", text, re.I | re.S)
                if m and not self.open_ok(m.group(0)):
                    self.known["F-C17-2 Open_Stmt: the 2008 class enforces C903/C904/C906, the 2003 class does not"] += 1
                    self.known_ex.setdefault("open", text)
                else:
                    self.fail("%s(%r): accepted by 2003 (%r), 2008 -> %r" % (name, text, r3[1], r8))
            else:
                self.fail("%s(%r): accepted by the 2003 class (%r), the 2008 class -> %r" % (name, text, r3[1], r8))
            return r3, r8
        if r3[1] == r8[1]:
            self.st["same_text"] += 1
        elif has_f08_intrinsic(text) and fold(r3[1]) == fold(r8[1]):
            self.st["same_text_mod_intrinsic_case"] += 1
        elif name == "Procedure_Stmt" and not text.lstrip().upper().startswith("MODULE") \
                and r3[1] == "MODULE " + r8[1].replace(" ::", ""):
            self.known["F-C17-3 Procedure_Stmt: `procedure a` printed MODULE PROCEDURE a by 2003, PROCEDURE a by 2008"] += 1
            self.known_ex.setdefault("procedure", text)
        else:
            self.fail("%s(%r): text differs: 2003 %r, 2008 %r" % (name, text, r3[1], r8[1]))
        return r3, r8


def U_split_top(s):
    out, depth, cur, q = [], 0, [], None
    for c in s:
        if q:
            cur.append(c)
            if c == q:
                q = None
            continue
        if c in "'\"":
            q = c
        elif c in "([":
            depth += 1
        elif c in ")]":
            depth -= 1
        if c == "," and depth == 0:
            out.append("".join(cur))
            cur = []
        else:
            cur.append(c)
    out.append("".join(cur))
    return out


# ---------------------------------------------------------------------------------------------- part B

def check_only08(df, rows):
    """2008-only shapes: class level and parser level; the model's closed forms classify them"""
    m = df.m
    n = 0
    for name, texts in sorted(ONLY08.items()):
        if name not in rows:
            continue
        c3, c8 = rows[name]
        for t in texts:
            n += 1
            set_std("f2003")
            r3 = run_cls(c3, t)
            set_std("f2008")
            r8 = run_cls(c8, t)
            if r8[0] != "ok":
                df.fail("2008-only shape %s(%r) is not accepted by the 2008 class: %r" % (name, t, r8))
            if r3[0] == "ok" and not (name == "Procedure_Stmt" and "::" in t):
                df.fail("2008-only shape %s(%r) is ACCEPTED by the 2003 class: %r" % (name, t, r3[1]))
            # the model's characterisation
            if name == "Format_Item" and m.ask("incl08.shape", "star", t) != ["1"]:
                df.fail("model: isStarItem(%r) is false" % t)
            if name == "Loop_Control" and m.ask("incl08.shape", "concurrent", t) != ["1"]:
                df.fail("model: isConcurrent(%r) is false" % t)
            if name in ("Connect_Spec", "Alloc_Opt"):
                tab = "connect" if name == "Connect_Spec" else "allocOpt"
                k = m.ask("incl08.kvkey", t)
                l3 = m.ask("incl08.lookup", "f2003", tab, k[1]) if k[0] == "some" else ["?"]
                l8 = m.ask("incl08.lookup", "f2008", tab, k[1]) if k[0] == "some" else ["?"]
                if l3 != ["none"] or l8[0] != "some":
                    df.fail("model: keyword of %r looked up as %r (2003) / %r (2008)" % (t, l3, l8))
            if name in ("Attr_Spec", "Component_Attr_Spec") and not t.lower().startswith("codim"):
                if m.ask("incl08.match", "f2003", name, t) != ["nomatch"] or m.ask("incl08.match", "f2008", name, t)[0] != "ok":
                    df.fail("model: incl08.match %s %r" % (name, t))
    for name, src in sorted(PROGRAMS08.items()):
        n += 1
        p3 = parse(src, "f2003")
        p8 = parse(src, "f2008")
        if p8[0] != "ok":
            df.fail("program with the 2008-only construct of %s rejected by the 2008 parser: %r" % (name, p8))
        if p3[0] == "ok":
            df.fail("program with the 2008-only construct of %s ACCEPTED by the 2003 parser" % name)
    return n


# ---------------------------------------------------------------------------------------------- part C

def check_model_words(df, samples):
    m = df.m
    n = 0
    for name in ("Attr_Spec", "Component_Attr_Spec"):
        for std in STDS:
            set_std(std)
            cls = getattr(F8 if std == "f2008" else F3, name)
            for t in samples:
                n += 1
                try:
                    r = cls.match(t)
                except Exception as e:   # noqa: BLE001
                    r = ("raises", type(e).__name__)
                real = ["nomatch"] if r is None else ["ok", r[0]]
                if m.ask("incl08.match", std, name, t) != real:
                    df.fail("model vs real %s %s.match(%r): model %r real %r" % (std, name, t, m.ask("incl08.match", std, name, t), real))
    return n


def check_stop_code(df, texts):
    """Fortran2003.Stop_Code (the class object both standards use): own match / Level_3_Expr / fallback"""
    m = df.m
    n = 0
    for std in STDS:
        set_std(std)
        for t in texts:
            if not admissible(t):
                continue
            n += 1
            l3 = run_cls(F3.Level_3_Expr, t)[0] == "ok"
            alts = U.Base.subclasses.get("Stop_Code", [])
            alt = any(run_cls(a, t)[0] == "ok" for a in alts)
            r = run_cls(F3.Stop_Code, t)
            mod = m.ask("incl08.stop", t, "ok" if l3 else "nomatch", "ok" if alt else "nomatch")
            want = "nomatch" if r[0] != "ok" else None
            if (mod[0] == "nomatch") != (r[0] != "ok"):
                df.fail("Stop_Code %s (%r): model %r, real %r (Level_3_Expr %s, fallback %s)" % (std, t, mod, r, l3, alt))
            if mod[0] == "own" and r[0] == "ok" and r[1] != t:
                df.fail("Stop_Code %s (%r): own match prints %r" % (std, t, r[1]))
            lab = m.ask("incl08.shape", "label", t) == ["1"]
            if lab != bool(re.fullmatch(r"\d{1,5}", t)):
                df.fail("model isLabel(%r) = %s" % (t, lab))
    return n


def check_leaf_models(df, samples, deadline):
    """the both-standard models of the leaf slices on the overridden classes (their own checkers)"""
    n = 0
    out = []
    try:
        from fv import cosim_iostmt as CI
        ck = CI.Checker(df.m)
        names = [x for x in ("Loop_Control", "Format_Item", "Open_Stmt", "Connect_Spec", "Alloc_Opt", "If_Stmt",
                             "Allocate_Stmt", "Label_Do_Stmt", "Nonlabel_Do_Stmt", "Connect_Spec_List", "Alloc_Opt_List")
                 if x in CI.MODELLED]
        for std in STDS:
            CI.set_std(std)
            _CUR[0] = std
            for name in names:
                for t in samples.get(name, [])[:40]:
                    if time.time() > deadline:
                        break
                    if not CI.admissible(t):
                        continue
                    try:
                        with CI.time_limit(2.0):
                            ck.check(std, name, t)
                        n += 1
                    except CI.CaseTimeout:
                        pass
        out.append("IoStmt models on overridden classes: %d samples, %d disagreements" % (ck.stats["samples"], ck.stats["disagree"]))
        for b in ck.bad[:10]:
            df.fail("IoStmt model vs real: " + b)
    except ImportError as e:
        out.append("fv.cosim_iostmt not importable (%s): leaf models not re-checked here" % e)
    try:
        from fv import cosim_header as CH
        ck = CH.Checker(df.m)
        for std in STDS:
            CH.set_std(std)
            _CUR[0] = std
            for name in ("Procedure_Stmt", "Proc_Decl"):
                for t in samples.get(name, [])[:40]:
                    if time.time() > deadline or not CH.admissible(t):
                        continue
                    try:
                        with CH.time_limit(2.0):
                            ck.check(std, name, t)
                        n += 1
                    except CH.CaseTimeout:
                        pass
        out.append("Header models on overridden classes: %d samples, %d disagreements" % (ck.stats["samples"], ck.stats["disagree"]))
        for b in ck.bad[:10]:
            df.fail("Header model vs real: " + b)
    except ImportError as e:
        out.append("fv.cosim_header not importable (%s)" % e)
    _CUR[0] = None
    return n, out


# ---------------------------------------------------------------------------------------------- part D

def check_intrinsics(df, lo=0, hi=None):
    I = F3.Intrinsic_Name
    table = dict(I.generic_function_names)
    for sp, g in I.specific_function_names.items():
        table.setdefault(sp, table.get(g, {"min": 1, "max": 1}))
    names = sorted(table)[lo:hi]
    n = 0
    for nm in names:
        a, b = table[nm]["min"], table[nm]["max"]
        counts = sorted(set(x for x in (a, a + 1, b) if x is not None and a <= x and (b is None or x <= b) and x <= 8))
        for k in counts:
            text = "%s(%s)" % (nm.lower(), ", ".join("a%d" % j for j in range(1, k + 1)))
            n += 1
            df.check("Intrinsic_Function_Reference", F3.Intrinsic_Function_Reference, F8.Intrinsic_Function_Reference, text)
            set_std("f2003")
            r3 = run_cls(F3.Intrinsic_Function_Reference, text)
            if r3[0] != "ok":
                df.st["intrinsic_rejected_by_2003"] += 1
    return n


# ---------------------------------------------------------------------------------------------- part E

class Patch:
    def __init__(self, obj, attr, value):
        self.obj, self.attr, self.value = obj, attr, value

    def __enter__(self):
        self.had = self.attr in self.obj.__dict__
        self.old = self.obj.__dict__.get(self.attr)
        setattr(self.obj, self.attr, self.value)
        _CUR[0] = None

    def __exit__(self, *a):
        if self.had:
            setattr(self.obj, self.attr, self.old)
        else:
            delattr(self.obj, self.attr)
        _CUR[0] = None
        return False


class SubclassesPatch:
    """drop an alternative from a rule of the f2008 registry (re-applied after every create)"""

    def __init__(self, rule, drop):
        self.rule, self.drop = rule, drop

    def __enter__(self):
        self.orig = ParserFactory._setup
        rule, drop, orig = self.rule, self.drop, self.orig

        def _setup(this, classes):
            orig(this, classes)
            if not any(c.__module__.startswith("fparser.two.Fortran2008.") for _, c in classes):
                return                                   # create("f2003"): untouched
            U.Base.subclasses[rule] = [c for c in U.Base.subclasses.get(rule, []) if c.__name__ != drop]
        ParserFactory._setup = _setup
        _CUR[0] = None

    def __exit__(self, *a):
        ParserFactory._setup = self.orig
        _CUR[0] = None
        return False


class _Flipped:
    def __init__(self, m):
        self.m = m

    def ask(self, *a):
        r = self.m.ask(*a)
        if a[0] == "incl08.match":
            return ["nomatch"] if r[0] == "ok" else ["ok", "X"]
        if a[0] == "incl08.shape":
            return ["0"] if r == ["1"] else ["1"]
        return r


def negative_control(mdl, rows):
    lines = []
    good = True

    def expect(label, fn):
        nonlocal good
        df = Diff(mdl)
        fn(df)
        hit = df.st["violations"] > 0
        lines.append("  control %-78s %s" % (label, "reported (%d)" % df.st["violations"] if hit else "NOT REPORTED"))
        good = good and hit

    # 1. the 2008 Loop_Control tests the CONCURRENT prefix before the 2003 forms
    def lc_first(string):
        line = string.lstrip()
        od = None
        if line.startswith(","):
            line = line[1:].lstrip()
            od = ","
        if line[:10].upper() == "CONCURRENT":
            return (None, None, od, F3.Forall_Header(line[10:].lstrip().rstrip()))
        r = F3.Loop_Control.match(string)
        return r + (None,) if r else None
    with Patch(F8.Loop_Control, "match", staticmethod(lc_first)):
        expect("Loop_Control(2008) tests CONCURRENT before the 2003 forms",
               lambda df: df.check("Loop_Control", F3.Loop_Control, F8.Loop_Control, "concurrent_idx = 1, n"))
    # 2. a keyword kept but bound to the wrong value class
    with Patch(F8.Alloc_Opt, "_keyword_pairs", [("STAT", F3.Stat_Variable), ("ERRMSG", F3.Errmsg_Variable),
                                                ("SOURCE", F3.Errmsg_Variable), ("MOLD", F3.Source_Expr)]):
        expect("Alloc_Opt(2008): SOURCE= carries Errmsg_Variable",
               lambda df: df.check("Alloc_Opt", F3.Alloc_Opt, F8.Alloc_Opt, "source = a + 1"))
    # 3. a 2008 override drops an alternative of the class it replaces
    with SubclassesPatch("Do_Term_Action_Stmt", "If_Stmt"):      # the optimised list the removal propagates to
        expect("Action_Stmt_C816 without If_Stmt (labelled DO ending on a logical IF)",
               lambda df: df.check("Do_Term_Action_Stmt", F3.Do_Term_Action_Stmt, F8.Do_Term_Action_Stmt, "if (a) x = 1"))
    # 4. a 2003 list extended in place by the 2008 module
    old = list(F3.Component_Attr_Spec.attributes)
    F3.Component_Attr_Spec.attributes.append("CONTIGUOUS")
    try:
        expect("Fortran2003.Component_Attr_Spec.attributes extended in place (CONTIGUOUS)",
               lambda df: check_only08(df, {"Component_Attr_Spec": rows["Component_Attr_Spec"]}))
    finally:
        F3.Component_Attr_Spec.attributes[:] = old
    # 5. an intrinsic's minimum argument count raised in the 2008 table
    g8 = dict(F8.Intrinsic_Name.generic_function_names)
    g8["MAXLOC"] = {"min": 2, "max": F3.Intrinsic_Name.generic_function_names["MAXLOC"]["max"]}
    with Patch(F8.Intrinsic_Name, "generic_function_names", g8):
        expect("F2008 intrinsic table: MAXLOC needs >= 2 arguments",
               lambda df: check_intrinsics(df))
    # 6. a 2008-only keyword added to the 2003 table
    kv3 = F3.Connect_Spec.__dict__["_keyword_value_list"]
    f3kv = kv3.__func__

    def kv_new(cls):
        return f3kv(cls) + [("NEWUNIT", F3.File_Unit_Number)]
    with Patch(F3.Connect_Spec, "_keyword_value_list", classmethod(kv_new)):
        expect("NEWUNIT in the 2003 Connect_Spec table",
               lambda df: check_only08(df, {"Connect_Spec": rows["Connect_Spec"]}))
    # 7. the driver gives a wrong answer
    expect("flipped driver answers (incl08.match / incl08.shape)",
           lambda df: (setattr(df, "m", _Flipped(mdl)), check_model_words(df, ["pointer", "contiguous", "x"]),
                       check_only08(df, {"Format_Item": rows["Format_Item"]})))
    _CUR[0] = None
    return good, lines


# ---------------------------------------------------------------------------------------------- run

def run(seed, n, exe=None, verbose=False, max_seconds=None):
    t0 = time.time()
    budget = max_seconds if max_seconds is not None else 14 + 0.2 * n
    deadline = t0 + budget
    mdl = fvmodel.Model(exe) if exe else fvmodel.get_model()
    d = X.collect()
    set_std("f2008")
    rows = {}
    for r in d["rows"]:
        c3 = getattr(F3, r["rule"])
        c8 = getattr(F8, r["name08"])
        if r["match"] == 4:
            # the 2008 class has no match and nothing names it: every caller names the 2003 class object
            # (Stop_Code: Stop_Stmt.match and the 2008 Error_Stop_Stmt.match); only the name-keyed fallback
            # list differs between the standards
            c8 = c3
        if r["dead"]:
            DEAD.add(r["rule"])
        rows[r["rule"]] = (c3, c8)
    model_rules = mdl.ask("incl08.rules")
    model_names = model_rules[: len(model_rules) // 2]
    print("overridden rules (live): %d; renamed: %s; model knows %d" % (len(rows), d["renamed"], len(model_names)))
    ok = True
    if sorted(model_names) != sorted(rows):
        print("  OVERRIDE SET differs from the model's overrideKinds: live-only %s, model-only %s"
              % (sorted(set(rows) - set(model_names)), sorted(set(model_names) - set(rows))))
        ok = False
    good, lines = negative_control(mdl, rows)
    print("negative control:")
    for l in lines:
        print(l)
    ok = ok and good
    rng = random.Random(seed)
    want = set(rows) | {"Action_Stmt"}
    harvested, parsed = harvest(seed, max(2, n // 8), t0 + 0.3 * budget, want)
    samples = {}
    for name in rows:
        base = list(SHAPES03.get(name, [])) + sorted(harvested.get(name, ()))
        r2 = random.Random("%s|%s" % (seed, name))
        r2.shuffle(base)
        base = base[: 30 + n // 2]
        seen, lst = set(), []
        for b in base:
            for t in [b] + mutants(r2, b, 2) + [b.upper()]:
                if t not in seen and admissible(t):
                    seen.add(t)
                    lst.append(t)
        samples[name] = lst[: 60 + n]
    df = Diff(mdl)
    # A
    for name in sorted(rows):
        if name in BLOCKS:
            continue
        c3, c8 = rows[name]
        for t in samples[name]:
            if time.time() > deadline - 0.35 * budget:
                break
            df.check(name, c3, c8, t)
    # B
    nb = check_only08(df, rows)
    # C
    words = ["pointer", "Allocatable", "contiguous", "CONTIGUOUS", "save", "intent", "x", "", " pointer", "pointer ", "codimension",
             "dimension", "target", "value", "volatile", "asynchronous", "external", "intrinsic", "optional", "parameter", "protected"]
    nc = check_model_words(df, words + [w.upper() for w in words])
    ns = check_stop_code(df, SHAPES03["Stop_Code"] + sorted(harvested.get("Stop_Code", ()))[:20])
    nl, leaf_lines = check_leaf_models(df, samples, deadline - 0.1 * budget)
    # D
    ni = check_intrinsics(df)
    st = df.st
    print("programs harvested: %d; class-level pairs: %d (accepted by 2003: %d; same text %d, same modulo intrinsic case %d; "
          "accepted by 2008 only: %d; timeouts %d)" % (parsed, st["pairs"], st["accepted03"], st["same_text"],
                                                       st["same_text_mod_intrinsic_case"], st["only08"], st["timeouts"]))
    print("2008-only shapes and programs: %d; model word lists: %d; Stop_Code: %d; leaf-model samples: %d; intrinsic references: %d "
          "(rejected by 2003 itself: %d)" % (nb, nc, ns, nl, ni, st["intrinsic_rejected_by_2003"]))
    for l in leaf_lines:
        print("  " + l)
    print("known deviations of the pinned tree (classified exactly, not failures):")
    for k, v in sorted(df.known.items()):
        print("  %5d  %s" % (v, k))
    for k, v in sorted(df.known_ex.items()):
        print("         e.g. %s: %r" % (k, v))
    print("violations: %d" % st["violations"])
    for b in df.bad:
        print("   " + b)
    print("elapsed %.1f s" % (time.time() - t0))
    ok = ok and st["violations"] == 0 and st["pairs"] > 0
    print("RESULT: %s" % ("PASS" if ok else "FAIL"))
    return 0 if ok else 1


def main(argv=None):
    ap = argparse.ArgumentParser()
    ap.add_argument("--seed", type=int, default=0)
    ap.add_argument("--n", type=int, default=40)
    ap.add_argument("--exe", default=os.environ.get("FV_MODEL_EXE"))
    ap.add_argument("--max-seconds", type=float, default=None)
    ap.add_argument("-v", "--verbose", action="store_true")
    a = ap.parse_args(argv)
    return run(a.seed, a.n, a.exe, a.verbose, a.max_seconds)


if __name__ == "__main__":
    sys.exit(main())
