import FparserModel.Py

/-!
# One — fparser1's block nesting (`BeginStatement.fill` / `process_subitem`,
`EndStatement.process_item`, `EndDo.process_item`, `Do.process_subitem`)

Input: the statement lines of a source, each classified by the harness
(`fv/cosim_norm.py: classify`) as opener of a block kind, END line, single-line IF or
simple statement of some category.  `nest1` mirrors how `fill()` collects statements
until the matching END:

* an END line closes the innermost open block iff the END class of that block matches
  it (`endMatch`: a bare `END` only for program units) and `process_item` keeps it valid
  (`endValid`: name equal ignoring case; for DO the strict label / name checks of
  `EndDo.process_item`);
* an END line that does not validly close the innermost block matches no statement class:
  `handle_unknown_item_and_raise` → `AnalyzeError` (`Err.nopattern`);
* end of input inside a block is only a warning ("failed to find the end of block"): all
  open blocks are closed without END;
* `DO <label>`: the line carrying the label ends the block after being added to it; if
  the enclosing block is a DO with the same label the line is *put back* for that block
  and the inner block ends without holding it (HEAD of the real code; before the fix the
  line was added to both blocks — `fillLegacy`, `Props/One.lean: legacy_shared_label_dup_witness`).
  The third component of the result says whether a put-back happened;
* every block kind accepts only the openers / statement categories of its `get_classes()`.
No Mathlib.
-/
namespace Fp.One
open Fp

inductive Kind
  | top | program | subroutine | function | module | blockdata | interface | type
  | ifthen | do_ | select | where_ | forall_ | associate | enum
  deriving DecidableEq, Repr, Inhabited

/-- statement categories that decide which blocks accept a simple statement -/
inductive Cat
  | assign      -- assignment (also allowed in WHERE / FORALL)
  | exec        -- other action statement, FORMAT, DATA, ENTRY
  | spec        -- specification / declaration statement
  | els         -- ELSE, ELSE IF
  | cas         -- CASE, TYPE IS, CLASS IS
  | elsw        -- ELSEWHERE
  | cont        -- CONTAINS
  | enumr       -- ENUMERATOR
  deriving DecidableEq, Repr, Inhabited

inductive Body
  | opn (k : Kind) (name : Str) (endlabel : Option Nat)  -- name: unit name / construct name / ""
  | cls (k : Option Kind) (name : Str)                   -- END [kind [name]]
  | ifs                                                  -- IF (e) action-stmt
  | smp (cat : Cat)
  deriving DecidableEq, Repr, Inhabited

structure Line where
  id : Nat
  label : Option Nat
  body : Body
  deriving DecidableEq, Repr, Inhabited

/-- a block's content: a forest in "linked" form (no nested inductive) -/
inductive Forest
  | nil
  | leaf (l : Line) (next : Forest)                  -- simple statement or END statement
  | if1 (l : Line) (next : Forest)                   -- `If` block holding its one action statement
  | blk (l : Line) (kids : Forest) (next : Forest)   -- opener with content
  deriving DecidableEq, Repr, Inhabited

/-- the statement lines in print order (`BeginStatement.tofortran`: opener then content) -/
def flatten : Forest → List Line
  | .nil => []
  | .leaf l nx => l :: flatten nx
  | .if1 l nx => l :: flatten nx
  | .blk l kids nx => l :: (flatten kids ++ flatten nx)

def Forest.size : Forest → Nat
  | .nil => 0
  | .leaf _ nx => nx.size + 1
  | .if1 _ nx => nx.size + 1
  | .blk _ kids nx => kids.size + nx.size + 1

inductive Err
  | nopattern (id : Nat) (k : Kind)   -- "no parse pattern found for … in <k> block"
  | fuel
  deriving DecidableEq, Repr, Inhabited

structure Ctx where
  kind : Kind
  name : Str := []                  -- construct name if any, else block name
  endlabel : Option Nat := none     -- `DO <label>` (a zero label is falsy in the Python)
  parentDo : Option Nat := none     -- endlabel of the parent when the parent is a DO
  deriving DecidableEq, Repr, Inhabited

def isUnit (k : Kind) : Bool :=
  k == .program || k == .subroutine || k == .function || k == .module || k == .blockdata

def isExecConstruct (k : Kind) : Bool :=
  k == .ifthen || k == .do_ || k == .select || k == .where_ || k == .forall_ || k == .associate

def isDeclConstruct (k : Kind) : Bool := k == .type || k == .enum || k == .interface
def isSubprogram (k : Kind) : Bool := k == .subroutine || k == .function

/-- `get_classes()` restricted to block openers -/
def allowedOpen (parent child : Kind) : Bool :=
  match parent with
  | .top => child != .top
  | .program | .subroutine | .function =>
    isDeclConstruct child || isExecConstruct child || isSubprogram child
  | .module => isDeclConstruct child || isSubprogram child
  | .blockdata => isDeclConstruct child
  | .interface => isSubprogram child
  | .ifthen | .do_ | .select | .associate => isExecConstruct child
  | .where_ => child == .where_
  | .forall_ => child == .where_ || child == .forall_
  | .type | .enum => false

/-- `get_classes()` restricted to simple statements, by category -/
def allowedSimple (parent : Kind) (c : Cat) : Bool :=
  match parent with
  | .top | .program | .subroutine | .function =>
    c == .assign || c == .exec || c == .spec || c == .cont
  | .module => c == .spec || c == .cont
  | .blockdata => c == .spec
  | .interface => c == .spec
  | .type => c == .spec || c == .cont
  | .ifthen => c == .assign || c == .exec || c == .els
  | .do_ | .associate => c == .assign || c == .exec
  | .select => c == .assign || c == .exec || c == .cas
  | .where_ => c == .assign || c == .elsw
  | .forall_ => c == .assign
  | .enum => c == .enumr

/-- single-line `IF (e) stmt` is an action statement -/
def allowedIf (parent : Kind) : Bool :=
  allowedSimple parent .exec

/-- `end_stmt_cls.match(line)` -/
def endMatch (c : Ctx) (k : Option Kind) : Bool :=
  match k with
  | some k' => k' == c.kind && c.kind != .top
  | none => isUnit c.kind

/-- `EndDo.process_item`: strict label and name checks -/
def endDoOk (c : Ctx) (l : Line) (nm : Str) : Bool :=
  (match c.endlabel with
   | some e => l.label == some e
   | none => true)
  && (if c.name != [] then nm == c.name else nm == [])

/-- the END line `l` validly closes the block `c` (`stmt.isvalid` after `process_item`) -/
def endValid (c : Ctx) (l : Line) : Bool :=
  match l.body with
  | .cls k nm =>
    endMatch c k
      && (c.kind != .do_ || endDoOk c l nm)
      && (nm == [] || lower nm == lower c.name)
  | _ => false

def truthy (x : Option Nat) : Option Nat :=
  match x with
  | some 0 => none
  | y => y

def childCtx (c : Ctx) (k : Kind) (name : Str) (el : Option Nat) : Ctx :=
  { kind := k, name := name, endlabel := truthy el,
    parentDo := if c.kind == .do_ then c.endlabel else none }

/-- `Do.process_subitem`: the line carries this DO's end label -/
def hit (c : Ctx) (l : Line) : Bool :=
  c.kind == .do_ && c.endlabel.isSome && l.label == c.endlabel

/-- … and the parent is a DO with the same label: `put_item(item)` -/
def shared (c : Ctx) (l : Line) : Bool := hit c l && c.parentDo == c.endlabel

/-- `BeginStatement.fill`: content of the block `c` read from `ls`.
    Result: content, remaining lines, whether a line was put back.

    `Do.process_subitem` runs first: when the line carries this DO's end label and the
    enclosing block is a DO with the same end label, the line is put back for the enclosing
    loop and this block ends WITHOUT holding it (`self.put_item(item); return True`). -/
def fill : Nat → Ctx → List Line → Except Err (Forest × List Line × Bool)
  | 0, _, _ => .error .fuel
  | _+1, _, [] => .ok (.nil, [], false)
  | f+1, c, l :: ls =>
    if shared c l then .ok (.nil, l :: ls, true)
    else
    let h := hit c l
    if endValid c l then .ok (.leaf l .nil, ls, false)
    else
      match l.body with
      | .opn k name el =>
        if allowedOpen c.kind k then
          match fill f (childCtx c k name el) ls with
          | .error e => .error e
          | .ok (kids, rest, s1) =>
            if h then .ok (.blk l kids .nil, rest, s1)
            else
              match fill f c rest with
              | .error e => .error e
              | .ok (nx, rest', s2) => .ok (.blk l kids nx, rest', s1 || s2)
        else .error (.nopattern l.id c.kind)
      | .ifs =>
        if allowedIf c.kind then
          if h then .ok (.if1 l .nil, ls, false)
          else
            match fill f c ls with
            | .error e => .error e
            | .ok (nx, rest, s2) => .ok (.if1 l nx, rest, s2)
        else .error (.nopattern l.id c.kind)
      | .smp cat =>
        if allowedSimple c.kind cat then
          if h then .ok (.leaf l .nil, ls, false)
          else
            match fill f c ls with
            | .error e => .error e
            | .ok (nx, rest, s2) => .ok (.leaf l nx, rest, s2)
        else .error (.nopattern l.id c.kind)
      | .cls _ _ => .error (.nopattern l.id c.kind)

/-- The algorithm before the fix "fparser1 duplicated the statement that terminates DO loops
    sharing a label" (kept for the legacy witness in `Props/One.lean`): the shared terminal
    line was put back AND added to the inner block. -/
def fillLegacy : Nat → Ctx → List Line → Except Err (Forest × List Line × Bool)
  | 0, _, _ => .error .fuel
  | _+1, _, [] => .ok (.nil, [], false)
  | f+1, c, l :: ls =>
    let h := hit c l
    let sh := shared c l
    let ls' := if sh then l :: ls else ls
    if endValid c l then .ok (.leaf l .nil, ls', sh)
    else
      match l.body with
      | .opn k name el =>
        if allowedOpen c.kind k then
          match fillLegacy f (childCtx c k name el) ls' with
          | .error e => .error e
          | .ok (kids, rest, s1) =>
            if h then .ok (.blk l kids .nil, rest, sh || s1)
            else
              match fillLegacy f c rest with
              | .error e => .error e
              | .ok (nx, rest', s2) => .ok (.blk l kids nx, rest', sh || s1 || s2)
        else .error (.nopattern l.id c.kind)
      | .ifs =>
        if allowedIf c.kind then
          if h then .ok (.if1 l .nil, ls', sh)
          else
            match fillLegacy f c ls' with
            | .error e => .error e
            | .ok (nx, rest, s2) => .ok (.if1 l nx, rest, sh || s2)
        else .error (.nopattern l.id c.kind)
      | .smp cat =>
        if allowedSimple c.kind cat then
          if h then .ok (.leaf l .nil, ls', sh)
          else
            match fillLegacy f c ls' with
            | .error e => .error e
            | .ok (nx, rest, s2) => .ok (.leaf l nx, rest, sh || s2)
        else .error (.nopattern l.id c.kind)
      | .cls _ _ => .error (.nopattern l.id c.kind)

def topCtx : Ctx := { kind := .top }

def fuelFor (ls : List Line) : Nat := (ls.length + 1) * (ls.length + 2)

/-- `BeginSource(…).fill(end_flag=True)` over the whole source -/
def nest1 (ls : List Line) : Except Err (Forest × Bool) :=
  match fill (fuelFor ls) topCtx ls with
  | .error e => .error e
  | .ok (t, _, s) => .ok (t, s)

def nest1Legacy (ls : List Line) : Except Err (Forest × Bool) :=
  match fillLegacy (fuelFor ls) topCtx ls with
  | .error e => .error e
  | .ok (t, _, s) => .ok (t, s)

def Forest.isNil : Forest → Bool
  | .nil => true
  | _ => false

/-- `wf c t`: `t` is a possible complete content of a block opened in context `c`: every
    statement is accepted by its block, every block is closed by its valid END line or by
    the line carrying its DO label, no earlier line would close it, and no DO label is
    shared with the enclosing DO.  (Top level: closed by end of input.) -/
def wf (c : Ctx) : Forest → Bool
  | .nil => c.kind == .top
  | .leaf l nx =>
    !shared c l &&
      (if endValid c l then nx.isNil
       else match l.body with
         | .smp cat => allowedSimple c.kind cat && (if hit c l then nx.isNil else wf c nx)
         | _ => false)
  | .if1 l nx =>
    !shared c l && !endValid c l && l.body == .ifs && allowedIf c.kind
      && (if hit c l then nx.isNil else wf c nx)
  | .blk l kids nx =>
    !shared c l && !endValid c l
      && (match l.body with
          | .opn k name el => allowedOpen c.kind k && wf (childCtx c k name el) kids
          | _ => false)
      && (if hit c l then nx.isNil else wf c nx)

/-- a whole source whose blocks are all properly ended -/
def WellEnded (t : Forest) : Prop := wf topCtx t = true

instance (t : Forest) : Decidable (WellEnded t) := by unfold WellEnded; infer_instance

/-- number of blocks closed by end of input instead of an END / label line (each logs
    "failed to find the end of block") -/
def lastIsNil : Forest → Bool
  | .nil => true
  | .leaf _ nx => match nx with | .nil => false | _ => lastIsNil nx
  | .if1 _ nx => lastIsNil nx
  | .blk _ _ nx => match nx with | .nil => false | _ => lastIsNil nx

/-! ## printing -/

def showKind : Kind → String
  | .top => "BeginSource" | .program => "Program" | .subroutine => "Subroutine"
  | .function => "Function" | .module => "Module" | .blockdata => "BlockData"
  | .interface => "Interface" | .type => "Type" | .ifthen => "IfThen" | .do_ => "Do"
  | .select => "Select" | .where_ => "Where" | .forall_ => "Forall"
  | .associate => "Associate" | .enum => "Enum"

def showForest : Forest → String
  | .nil => ""
  | .leaf l nx => " " ++ toString l.id ++ showForest nx
  | .if1 l nx => " (" ++ toString l.id ++ " " ++ toString l.id ++ ")" ++ showForest nx
  | .blk l kids nx => " (" ++ toString l.id ++ showForest kids ++ ")" ++ showForest nx

end Fp.One
