import FparserModel.Props.Tree
import FparserModel.Proofs.Tree3BottomUp
/-!
# The last assignment determines the parent: converse of `parent_of_lastAttachedBy`
(holds for EVERY history, bottom-up or not)
-/
namespace Fp.Tree3
open Fp.Tree

theorem lastAttachedBy_of_parent : ∀ (evs : List Ev) (n c : Nat),
    parentOf (run [] evs) n = some c → LastAttachedBy evs n c := by
  intro evs
  induction evs using List.reverseRecOn with
  | nil => intro n c h; simp [run, parentOf] at h
  | append_singleton init e ih =>
    intro n c h
    rw [run_append] at h
    have hs : run (run [] init) [e] = step (run [] init) e := rfl
    rw [hs] at h
    by_cases ht : e.touches n = false
    · rw [parentOf_step_untouched _ _ _ ht] at h
      obtain ⟨pre, items, post, rfl, hn, hl, hpost⟩ := ih n c h
      refine ⟨pre, items, post ++ [e], by simp, hn, hl, fun ev hev => ?_⟩
      rcases List.mem_append.1 hev with h1 | h1
      · exact hpost ev h1
      · simp only [List.mem_singleton] at h1; subst h1; exact ht
    · cases e with
      | alloc cls => simp [Ev.touches] at ht
      | children m items => simp [Ev.touches] at ht
      | reset m =>
        simp only [Ev.touches, Bool.not_eq_false, beq_iff_eq] at ht
        subst ht
        simp only [step, parentOf_setParent, true_and] at h
        split at h
        · cases h
        · rw [par_unalloc _ _ (by omega)] at h; cases h
      | attach p items =>
        simp only [Ev.touches, Bool.not_eq_false, List.contains_eq_mem, decide_eq_true_eq] at ht
        simp only [step, parentOf_foldl_setParent, ht, true_and] at h
        split at h
        · rename_i hl
          cases h
          exact ⟨init, items, [], rfl, ht, hl, by simp⟩
        · rw [par_unalloc _ _ (by omega)] at h; cases h

end Fp.Tree3
