import FparserModel.Proofs.ExprLexSegs

/-! segments ↔ pieces ↔ tokens -/
namespace Fp.ExprLex
open Fp Fp.Expr

/-- split the segment list at the LAST word of pattern `q` -/
def splitLastSeg (q : Pat) : List Seg → Option (List Seg × TK × Str × List Seg)
  | [] => none
  | x :: rest =>
    match splitLastSeg q rest with
    | some (L, k, m, R) => some (x :: L, k, m, R)
    | none =>
      match x with
      | .word k m => if inCls k q then some ([], k, m, rest) else none
      | .gap _ => none

/-- split the segment list at the FIRST word of pattern `q` -/
def splitFirstSeg (q : Pat) : List Seg → Option (List Seg × TK × Str × List Seg)
  | [] => none
  | .gap s :: rest =>
    match splitFirstSeg q rest with
    | some (L, k, m, R) => some (.gap s :: L, k, m, R)
    | none => none
  | .word k m :: rest =>
    if inCls k q then some ([], k, m, rest)
    else match splitFirstSeg q rest with
      | some (L, k', m', R) => some (.word k m :: L, k', m', R)
      | none => none

def wordsNE : List Seg → Prop
  | [] => True
  | .gap _ :: rest => wordsNE rest
  | .word _ s :: rest => s ≠ [] ∧ wordsNE rest

theorem wordsNE_of_check : ∀ (sg : List Seg) (prev : Option Char), checkSegs prev sg = true → wordsNE sg
  | [], _, _ => trivial
  | .gap _ :: rest, prev, h => by
    simp only [checkSegs, Bool.and_eq_true] at h
    exact wordsNE_of_check rest _ h.2
  | .word _ s :: rest, prev, h => by
    simp only [checkSegs, Bool.and_eq_true] at h
    exact ⟨(segOK_word h.1).1, wordsNE_of_check rest _ h.2⟩

theorem pieces_join (q : Pat) : ∀ (sg : List Seg) (cur : Str), joinS (piecesOf q sg cur) = cur.reverse ++ flat sg
  | [], cur => by simp [piecesOf, joinS, flat_nil]
  | .gap s :: rest, cur => by
    rw [piecesOf, pieces_join q rest, flat_cons]; simp [Seg.text]
  | .word k s :: rest, cur => by
    rw [piecesOf]
    split
    · have := pieces_join q rest []
      simp only [joinS, List.reverse_nil, List.nil_append] at this
      simp [joinS, this, flat_cons, Seg.text]
    · rw [pieces_join q rest, flat_cons]; simp [Seg.text]

theorem pieces_ne_nil (q : Pat) : ∀ (sg : List Seg) (cur : Str), piecesOf q sg cur ≠ []
  | [], cur => by simp [piecesOf]
  | .gap s :: rest, cur => by rw [piecesOf]; exact pieces_ne_nil q rest _
  | .word k s :: rest, cur => by
    rw [piecesOf]; split
    · simp
    · exact pieces_ne_nil q rest _

theorem pieces_noQ (q : Pat) : ∀ (sg : List Seg) (cur : Str), splitLastSeg q sg = none →
    piecesOf q sg cur = [cur.reverse ++ flat sg]
  | [], cur, _ => by simp [piecesOf, flat_nil]
  | .gap s :: rest, cur, h => by
    have hr : splitLastSeg q rest = none := by
      cases hr : splitLastSeg q rest with
      | none => rfl
      | some x => obtain ⟨L, k, m, R⟩ := x; simp [splitLastSeg, hr] at h
    rw [piecesOf, pieces_noQ q rest _ hr, flat_cons]; simp [Seg.text]
  | .word k s :: rest, cur, h => by
    have hr : splitLastSeg q rest = none := by
      cases hr : splitLastSeg q rest with
      | none => rfl
      | some x => obtain ⟨L, k, m, R⟩ := x; simp [splitLastSeg, hr] at h
    have hk : inCls k q = false := by
      cases hk : inCls k q with
      | false => rfl
      | true => simp [splitLastSeg, hr, hk] at h
    rw [piecesOf]; simp only [hk, Bool.false_eq_true, ↓reduceIte]
    rw [pieces_noQ q rest _ hr, flat_cons]; simp [Seg.text]

theorem pieces_split (q : Pat) : ∀ (sg : List Seg) (cur : Str) (L : List Seg) (k : TK) (m : Str) (R : List Seg),
    splitLastSeg q sg = some (L, k, m, R) →
    sg = L ++ .word k m :: R ∧ inCls k q = true ∧ splitLastSeg q R = none ∧
    piecesOf q sg cur = piecesOf q L cur ++ [m, flat R]
  | [], _, _, _, _, _, h => by simp [splitLastSeg] at h
  | x :: rest, cur, L, k, m, R, h => by
    cases hr : splitLastSeg q rest with
    | some y =>
      obtain ⟨L', k', m', R'⟩ := y
      simp only [splitLastSeg, hr, Option.some.injEq, Prod.mk.injEq] at h
      obtain ⟨rfl, rfl, rfl, rfl⟩ := h
      cases x with
      | gap s =>
        obtain ⟨h1, h2, h3, h4⟩ := pieces_split q rest (s.reverse ++ cur) L' k' m' R' hr
        exact ⟨by rw [h1]; simp, h2, h3, by rw [piecesOf, h4, piecesOf]⟩
      | word k0 s =>
        by_cases hk : inCls k0 q = true
        · obtain ⟨h1, h2, h3, h4⟩ := pieces_split q rest [] L' k' m' R' hr
          refine ⟨by rw [h1]; simp, h2, h3, ?_⟩
          rw [piecesOf, piecesOf]; simp only [hk, ↓reduceIte]; rw [h4]; simp
        · obtain ⟨h1, h2, h3, h4⟩ := pieces_split q rest (s.reverse ++ cur) L' k' m' R' hr
          refine ⟨by rw [h1]; simp, h2, h3, ?_⟩
          have hk' : inCls k0 q = false := by simpa using hk
          rw [piecesOf, piecesOf]; simp only [hk', Bool.false_eq_true, ↓reduceIte]; rw [h4]
    | none =>
      cases x with
      | gap s => simp [splitLastSeg, hr] at h
      | word k0 s =>
        by_cases hk : inCls k0 q = true
        · simp only [splitLastSeg, hr, hk, ↓reduceIte, Option.some.injEq, Prod.mk.injEq] at h
          obtain ⟨rfl, rfl, rfl, rfl⟩ := h
          refine ⟨by simp, hk, hr, ?_⟩
          simp only [piecesOf, hk, ↓reduceIte]
          rw [pieces_noQ q _ [] hr]
          simp
        · simp [splitLastSeg, hr, hk] at h

end Fp.ExprLex

namespace Fp.ExprLex
open Fp Fp.Expr

/-- "two words of pattern `q` with nothing between them", as a state machine over the
segments; `K` gives the value at the end of the list from the state (`e` = the previous word
is a `q`-word and nothing, not even a blank, has been read since) -/
def glK (q : Pat) (K : Bool → Bool) : Bool → List Seg → Bool
  | e, [] => K e
  | e, .gap s :: rest => glK q K (e && s == []) rest
  | e, .word k _ :: rest => if inCls k q then e || glK q K true rest else glK q K false rest

theorem rev_app_nil (s cur : Str) : ((s.reverse ++ cur) == []) = ((cur == []) && (s == [])) := by
  cases s <;> cases cur <;> simp

theorem beq_nil_false {s : Str} (h : s ≠ []) : (s == []) = false := by
  cases s with
  | nil => exact absurd rfl h
  | cons a t => rfl

theorem pieces_anyEmpty (q : Pat) : ∀ (sg : List Seg) (cur : Str), wordsNE sg →
    (piecesOf q sg cur).any (· == []) = glK q id (cur == []) sg
  | [], cur, _ => by cases cur <;> simp [piecesOf, glK]
  | .gap s :: rest, cur, h => by
    rw [piecesOf, pieces_anyEmpty q rest _ h, glK, rev_app_nil]
  | .word k s :: rest, cur, h => by
    rw [piecesOf, glK]
    split
    · simp only [List.any_cons, pieces_anyEmpty q rest [] h.2, beq_nil_false h.1, Bool.false_or]
      cases cur <;> simp
    · rw [pieces_anyEmpty q rest _ h.2, rev_app_nil, beq_nil_false h.1]; simp

theorem pieces_innerEmpty (q : Pat) : ∀ (sg : List Seg) (cur : Str), wordsNE sg →
    ((piecesOf q sg cur).drop 1).any (· == []) = glK q id false sg
  | [], cur, _ => by simp [piecesOf, glK]
  | .gap s :: rest, cur, h => by
    rw [piecesOf, pieces_innerEmpty q rest _ h, glK]; simp
  | .word k s :: rest, cur, h => by
    rw [piecesOf, glK]
    split
    · simp only [List.drop_succ_cons, List.drop_zero, List.any_cons, pieces_anyEmpty q rest [] h.2,
        beq_nil_false h.1, Bool.false_or]
      simp
    · rw [pieces_innerEmpty q rest _ h.2]

theorem glK_noQ (q : Pat) : ∀ (R : List Seg) (e : Bool), splitLastSeg q R = none →
    glK q (fun _ => false) e R = false
  | [], _, _ => rfl
  | .gap s :: rest, e, h => by
    have hr : splitLastSeg q rest = none := by
      cases hr : splitLastSeg q rest with
      | none => rfl
      | some x => obtain ⟨L, k, m, R⟩ := x; simp [splitLastSeg, hr] at h
    rw [glK]; exact glK_noQ q rest _ hr
  | .word k s :: rest, e, h => by
    have hr : splitLastSeg q rest = none := by
      cases hr : splitLastSeg q rest with
      | none => rfl
      | some x => obtain ⟨L, k, m, R⟩ := x; simp [splitLastSeg, hr] at h
    have hk : inCls k q = false := by
      cases hk : inCls k q with
      | false => rfl
      | true => simp [splitLastSeg, hr, hk] at h
    rw [glK]; simp only [hk, Bool.false_eq_true, ↓reduceIte]; exact glK_noQ q rest _ hr

theorem glK_split (q : Pat) (k : TK) (m : Str) (R : List Seg) (hk : inCls k q = true)
    (hR : splitLastSeg q R = none) : ∀ (L : List Seg) (e : Bool),
    glK q (fun _ => false) e (L ++ .word k m :: R) = glK q id e L
  | [], e => by
    simp only [List.nil_append, glK, hk, ↓reduceIte, glK_noQ q R true hR]; simp
  | .gap s :: rest, e => by
    simp only [List.cons_append, glK]; exact glK_split q k m R hk hR rest _
  | .word k' s :: rest, e => by
    simp only [List.cons_append, glK]
    split
    · rw [glK_split q k m R hk hR rest _]
    · exact glK_split q k m R hk hR rest _

end Fp.ExprLex

namespace Fp.ExprLex
open Fp Fp.Expr

/-! ### tokens of words -/

theorem tokOf_notParen (k : TK) (g : Bool) : (tokOf k g).isParen = false ∧ step 0 (tokOf k g) = 0 := by
  cases k <;> simp only [tokOf] <;> (try exact ⟨rfl, rfl⟩)
  split <;> exact ⟨rfl, rfl⟩

theorem tokOf_glued (k : TK) (g : Bool) : (tokOf k g).glued = g := by
  cases k <;> simp only [tokOf] <;> (try rfl)
  split <;> rfl

/-- a word is a token of class `cls` iff the pattern of `cls` is one of its patterns -/
theorem test_tokOf (cls : OpCls) (q : Pat) (h : patOf cls = some q) (k : TK) (g : Bool) :
    cls.test (tokOf k g) = inCls k q := by
  cases cls
  case none => simp [patOf] at h
  all_goals
    simp only [patOf, Option.some.injEq] at h
    subst h
    cases k
    case dotted w =>
      simp only [tokOf, inCls]
      cases dotClass w <;> simp [DC.inPat, OpCls.test, T.isDotted, Op.isDotted]
    all_goals rfl

theorem test_atom (cls : OpCls) (i : Nat) (g : Bool) : cls.test (.atom i false g) = false := by
  cases cls <;> rfl

theorem excluded_tokOf (w : Str) (g : Bool) :
    (tokOf (.dotted w) g).excluded = (dotClass w != .other) := by
  simp only [tokOf]
  split <;> simp_all [T.excluded]

/-- glue state after a list of segments -/
def glueAfter : Bool → List Seg → Bool
  | g, [] => g
  | g, .gap s :: rest =>
    if strip s = [] then glueAfter (g && s == []) rest else glueAfter (!endsBlank s) rest
  | _, .word _ _ :: rest => glueAfter true rest

theorem toksOf_append : ∀ (L R : List Seg) (g : Bool),
    toksOf g (L ++ R) = toksOf g L ++ toksOf (glueAfter g L) R
  | [], R, g => rfl
  | .gap s :: rest, R, g => by
    simp only [List.cons_append, toksOf, glueAfter]
    split
    · exact toksOf_append rest R _
    · simp [toksOf_append rest R]
  | .word k s :: rest, R, g => by
    simp [toksOf, glueAfter, toksOf_append rest R]

def allNP (ts : List T) : Prop := ∀ t ∈ ts, T.isParen t = false

theorem step_np {t : T} (h : T.isParen t = false) : step 0 t = 0 := by
  cases t <;> simp_all [T.isParen, step]

theorem toksOf_np : ∀ (sg : List Seg) (g : Bool), allNP (toksOf g sg)
  | [], _ => by intro t h; simp [toksOf] at h
  | .gap s :: rest, g => by
    simp only [toksOf]
    split
    · exact toksOf_np rest _
    · intro t h
      rcases List.mem_cons.mp h with rfl | h
      · rfl
      · exact toksOf_np rest _ t h
  | .word k s :: rest, g => by
    intro t h
    simp only [toksOf] at h
    rcases List.mem_cons.mp h with rfl | h
    · exact (tokOf_notParen k g).1
    · exact toksOf_np rest _ t h

/-! ### `gluedPair` -/

def gpA (p : T → Bool) (prevQ : Bool) (ts : List T) : Bool :=
  (prevQ && (match ts with | t :: _ => p t && t.glued | [] => false)) || gluedPair p ts 0

theorem gpA_nil (p : T → Bool) (b : Bool) : gpA p b [] = false := by simp [gpA, gluedPair]

theorem gpA_cons (p : T → Bool) (prevQ : Bool) (t : T) (ts : List T) (h : allNP (t :: ts)) :
    gpA p prevQ (t :: ts) = ((prevQ && (p t && t.glued)) || gpA p (p t) ts) := by
  have ht : T.isParen t = false := h t (List.mem_cons_self ..)
  cases ts with
  | nil => simp [gpA, gluedPair]
  | cons t2 rest =>
    have ht2 : T.isParen t2 = false := h t2 (by simp)
    simp only [gpA, gluedPair, step_np ht, ht, ht2]
    cases p t <;> cases p t2 <;> cases t2.glued <;> simp

theorem gluedPair_toks (cls : OpCls) (q : Pat) (hq : patOf cls = some q) :
    ∀ (sg : List Seg) (g prevQ : Bool),
    gpA cls.test prevQ (toksOf g sg) = glK q (fun _ => false) (prevQ && g) sg
  | [], g, b => by simp [toksOf, gpA_nil, glK]
  | .gap s :: rest, g, b => by
    simp only [toksOf, glK]
    split
    · rw [gluedPair_toks cls q hq rest _ b, Bool.and_assoc]
    · rename_i hb
      have hs : (s == []) = false := by
        cases s with
        | nil => simp [strip, lstrip, rstrip] at hb
        | cons a t => rfl
      rw [gpA_cons _ _ _ _ (by
        have := toksOf_np (.gap s :: rest) g
        simpa only [toksOf, hb, ↓reduceIte] using this)]
      rw [test_atom, gluedPair_toks cls q hq rest _ false, hs]
      simp
  | .word k s :: rest, g, b => by
    simp only [toksOf, glK]
    rw [gpA_cons _ _ _ _ (by
      have := toksOf_np (.word k s :: rest) g
      simpa only [toksOf] using this)]
    rw [test_tokOf cls q hq, tokOf_glued, gluedPair_toks cls q hq rest true]
    cases inCls k q <;> simp

theorem gluedPair_eq (cls : OpCls) (q : Pat) (hq : patOf cls = some q) (sg : List Seg) (g : Bool) :
    gluedPair cls.test (toksOf g sg) 0 = glK q (fun _ => false) false sg := by
  have := gluedPair_toks cls q hq sg g false
  simpa [gpA] using this

end Fp.ExprLex

namespace Fp.ExprLex
open Fp Fp.Expr

/-! ### `splitLast` / `splitFirst` -/

def tokSplit (g : Bool) : List Seg × TK × Str × List Seg → List T × T × List T
  | (L, k, _, R) => (toksOf g L, tokOf k (glueAfter g L), toksOf true R)

theorem splitLast_toks (cls : OpCls) (q : Pat) (hq : patOf cls = some q) :
    ∀ (sg : List Seg) (g : Bool),
    splitLast cls.test (toksOf g sg) 0 = (splitLastSeg q sg).map (tokSplit g)
  | [], g => rfl
  | .gap s :: rest, g => by
    simp only [toksOf]
    split
    · rename_i hb
      rw [splitLast_toks cls q hq rest _, splitLastSeg]
      cases splitLastSeg q rest with
      | none => rfl
      | some x =>
        obtain ⟨L, k, m, R⟩ := x
        simp [tokSplit, toksOf, glueAfter, hb]
    · rename_i hb
      rw [splitLast, show step 0 (T.atom (idOf (strip s)) false (g && !startsBlank s)) = 0 from rfl,
        splitLast_toks cls q hq rest _, splitLastSeg]
      cases splitLastSeg q rest with
      | none => simp [test_atom]
      | some x =>
        obtain ⟨L, k, m, R⟩ := x
        simp [tokSplit, toksOf, glueAfter, hb]
  | .word k s :: rest, g => by
    simp only [toksOf]
    rw [splitLast, (tokOf_notParen k g).2, splitLast_toks cls q hq rest true, splitLastSeg]
    cases splitLastSeg q rest with
    | none =>
      simp only [Option.map_none, (tokOf_notParen k g).1, test_tokOf cls q hq]
      cases inCls k q <;> simp [tokSplit, toksOf, glueAfter]
    | some x =>
      obtain ⟨L, k', m, R⟩ := x
      simp [tokSplit, toksOf, glueAfter]

theorem splitFirst_toks (cls : OpCls) (q : Pat) (hq : patOf cls = some q) :
    ∀ (sg : List Seg) (g : Bool),
    splitFirst cls.test (toksOf g sg) 0 = (splitFirstSeg q sg).map (tokSplit g)
  | [], g => rfl
  | .gap s :: rest, g => by
    simp only [toksOf]
    split
    · rename_i hb
      rw [splitFirst_toks cls q hq rest _, splitFirstSeg]
      cases splitFirstSeg q rest with
      | none => rfl
      | some x =>
        obtain ⟨L, k, m, R⟩ := x
        simp [tokSplit, toksOf, glueAfter, hb]
    · rename_i hb
      rw [splitFirst, show step 0 (T.atom (idOf (strip s)) false (g && !startsBlank s)) = 0 from rfl,
        splitFirst_toks cls q hq rest _, splitFirstSeg]
      cases splitFirstSeg q rest with
      | none => simp [test_atom]
      | some x =>
        obtain ⟨L, k, m, R⟩ := x
        simp [tokSplit, toksOf, glueAfter, hb, test_atom]
  | .word k s :: rest, g => by
    simp only [toksOf]
    rw [splitFirst, (tokOf_notParen k g).2, splitFirst_toks cls q hq rest true, splitFirstSeg]
    simp only [(tokOf_notParen k g).1, test_tokOf cls q hq]
    cases hk : inCls k q
    · cases splitFirstSeg q rest with
      | none => simp
      | some x =>
        obtain ⟨L, k', m, R⟩ := x
        simp [tokSplit, toksOf, glueAfter]
    · simp [tokSplit, toksOf, glueAfter]

end Fp.ExprLex
