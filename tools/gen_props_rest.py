"""`python tools/gen_props_rest.py <lean dir>` regenerates FparserModel/Props/Rest.lean and theorems/Rest.json from
the Proofs/Rest*.lean files (statements are copied verbatim; the header / footer texts are below)."""
import json
import os
import re
import sys

ROOT = sys.argv[1] if len(sys.argv) > 1 else os.path.join(os.path.dirname(os.path.dirname(os.path.abspath(__file__))), "lean")
P = os.path.join(ROOT, "FparserModel", "Proofs")
FILES = ["RestPlain", "RestPlain2", "RestSrm", "RestFmt", "RestUse", "RestTotal", "RestFixpoint", "RestUnbalanced"]
src = {}
for f in FILES:
    fp = os.path.join(P, f + ".lean")
    if os.path.exists(fp):
        src[f] = open(fp, encoding="utf-8").read()


def find_stmt(name):
    """-> (file, binders text, conclusion text)"""
    for f, text in src.items():
        m = re.search(r"^theorem %s\b" % re.escape(name), text, re.M)
        if not m:
            continue
        i = m.end()
        depth = 0
        j = i
        colon = None
        while j < len(text):
            ch = text[j]
            if ch == "'" and j + 2 < len(text) and text[j + 2] == "'":
                j += 3
                continue
            if ch == "'" and text.startswith("'\\''", j):
                j += 4
                continue
            if ch == '"':
                k = j + 1
                while text[k] != '"':
                    k += 2 if text[k] == "\\" else 1
                j = k + 1
                continue
            if ch in "([{⟨":
                depth += 1
            elif ch in ")]}⟩":
                depth -= 1
            elif depth == 0 and (text.startswith(":=", j) or text.startswith("\n  |", j)):
                break
            elif depth == 0 and ch == ":" and colon is None and not text.startswith(":=", j):
                colon = j
            j += 1
        binders = text[i:colon].strip()
        concl = text[colon + 1:j].strip()
        return f, binders, concl
    raise KeyError(name)


def binder_names(binders):
    names = []
    depth = 0
    cur = ""
    groups = []
    binders = re.sub(r"'\\''", "'x'", binders)
    binders = re.sub(r"'[()\[\]{}:]'", "'x'", binders)
    binders = re.sub(r'"[^"]*"', '"x"', binders)
    for ch in binders:
        if ch in "({[":
            if depth == 0:
                cur = ch
            else:
                cur += ch
            depth += 1
        elif ch in ")}]":
            depth -= 1
            cur += ch
            if depth == 0:
                groups.append(cur)
                cur = ""
        elif depth > 0:
            cur += ch
    for g in groups:
        if g[0] != "(":
            continue
        body = g[1:-1]
        d = 0
        for k, ch in enumerate(body):
            if ch in "([{":
                d += 1
            elif ch in ")]}":
                d -= 1
            elif ch == ":" and d == 0:
                names += body[:k].split()
                break
    return names


T = []


def add(proof, props, serves, strength, note):
    T.append((proof, props, serves, strength, note))


SRM = ("hypothesis SrmOK on the text handed to string_replace_map (decidable; = the two hypotheses of srm_roundtrip_partial: no F2PY, "
       "no exponent constant ending in _/F/F2/F2P) - outside it string_replace_map itself loses text (witnesses srm_roundtrip_fails_* "
       "of Props/SplitlineSrm2.lean)")
a = ["C02", "C08"]

# ---- token theorems
add("pos_tostr_match_tokens", "Position_Stmt_tostr_match_tokens", a, "full",
    "FLUSH / BACKSPACE / ENDFILE / REWIND (kw = the keyword): `KW unit` and `KW(spec-list)` are printed with the tokens of the input")
add("pos_rejects_unclosed", "Position_Stmt_rejects_unclosed", ["C08"], "full",
    "after `KW (` the LAST character must be `)`: a FLUSH statement missing its `)` is rejected (no match), never accepted with the last character of the spec list taken for the parenthesis")
add("positionSpec_tostr_match_tokens", "Position_Spec_tostr_match_tokens", a, "full",
    "Position_Spec = Flush_Spec (same table, same code): exact relation keyed on whether the keyword loop found a match; otherwise `UNIT =` is INVENTED")
add("waitSpec_tostr_match_tokens", "Wait_Spec_tostr_match_tokens", a, "full", "as Position_Spec (table END/EOR/ERR, IOSTAT, IOMSG, ID, UNIT)")
add("return_tostr_match_tokens", "Return_Stmt_tostr_match_tokens", a, "full", "RETURN [expr]; `returnx` is accepted as RETURN x (tokens kept)")
add("bind_tostr_match_tokens", "Bind_Stmt_tostr_match_tokens", a, "full",
    "exact relation: with a `::` the tokens are kept; without one the statement is cut at the first `)` WHICH IS DROPPED and `::` is printed in its place (latent: the real Language_Binding_Spec rejects the truncated text, so `BIND(C) x` is never accepted)")
add("bind_drops_paren", "Bind_Stmt_drops_paren", ["C02", "C08"], "witness",
    "model-level witness on the echo oracle: `bind(c) x` -> `bind(c :: x`; replayed: the real code makes the child call Language_Binding_Spec('bind(c')")
add("target_tostr_match_tokens", "Target_Stmt_tostr_match_tokens", a, "full", "exact relation: the optional `::` is always printed")
for p_, q_, n_ in [("typeParamDecl", "Type_Param_Decl", ""), ("enumerator", "Enumerator", "no emptiness checks: the children see the empty text"),
                   ("stmtFunction", "Stmt_Function_Stmt", "both forms; `f() = e` is printed `f () = e`"),
                   ("whereConstruct", "Where_Construct_Stmt", ""), ("declTypeSpec", "Declaration_Type_Spec", "TYPE(spec) / CLASS(spec) / CLASS(*)"),
                   ("rename", "Rename", "both forms (a => b, OPERATOR(.x.) => OPERATOR(.y.))")]:
    add(p_ + "_tostr_match_tokens", q_ + "_tostr_match_tokens", a, "full", n_)
add("include_tostr_match_tokens", "Include_Stmt_tostr_match_tokens", a, "full", "exact relation: the quote character is normalised to `'`")
add("include_normalises_quote", "Include_Stmt_normalises_quote", ["C02"], "witness", "`include \"a.h\"` is printed `INCLUDE 'a.h'` (replayed on the real class)")
add("deferredShape_tostr_match_tokens", "Deferred_Shape_Spec_tostr_match_tokens", a, "full", "")
add("definedOp_tostr_match_tokens", "Defined_Op_tostr_match_tokens", a, "full", "the printed text is the stripped, upper-cased input")
add("exprKind_pass", "ExprKind_pass", a, "full", "Char_Expr / Default_Char_Expr / Int_Expr / Logical_Expr / Numeric_Expr: the result IS the object returned by Expr(string), and its class is not excluded")
add("exprKind_tostr_match_tokens", "ExprKind_tostr_match_tokens", a, "full", "")
add("stopCode_tostr_match_tokens", "Stop_Code_tostr_match_tokens", a, "full", "a label prints as itself; otherwise the Level_3_Expr object is passed through")
add("intrinsicTypeSpec_tostr_match_tokens", "Intrinsic_Type_Spec_tostr_match_tokens", a, "full", "the keyword loop with try/except; DOUBLE  PRECISION is printed with one blank")
add("shapeSpec_tostr_match_tokens", "Shape_Spec_tostr_match_tokens", a, "partial", "Allocate_Shape_Spec / Explicit_Shape_Spec (the child classes are parameters); " + SRM)
add("ioImpliedDoControl_tostr_match_tokens", "Io_Implied_Do_Control_tostr_match_tokens", a, "partial", SRM)
add("ioImpliedDo_tostr_match_tokens", "Io_Implied_Do_tostr_match_tokens", a, "partial", SRM)
add("assumedSize_tostr_match_tokens", "Assumed_Size_Spec_tostr_match_tokens", a, "partial", "SrmOK needed in the `lower : *` branch only; " + SRM)
add("typeParamDef_tostr_match_tokens", "Type_Param_Def_Stmt_tostr_match_tokens", a, "partial", SRM)
add("crayPointerDecl_tostr_match_tokens", "Cray_Pointer_Decl_tostr_match_tokens", a, "partial", SRM)
add("crayPointerStmt_tostr_match_tokens", "Cray_Pointer_Stmt_tostr_match_tokens", a, "full", "WORDClsBase instance behind the `cray-pointer` extension test")
add("targetEntityDecl_tostr_match_tokens", "Target_Entity_Decl_tostr_match_tokens", a, "partial",
    "Entity_Decl.match(string, target=True); SrmOK needed only when an array spec follows the name; " + SRM)

OPTIONAL = [
    ("positionEditDesc_tostr_match_tokens", "Position_Edit_Desc_tostr_match_tokens", a, "full", ""),
    ("dataEditDesc_tostr_match_tokens", "Data_Edit_Desc_tostr_match_tokens", a, "full", "all branches (I/B/O/Z [.m], L, A, DT ['lit'] [(v-list)])"),
    ("dataEditDescC1002_tostr_match_tokens", "Data_Edit_Desc_C1002_tostr_match_tokens", a, "full", "F/D w.d, E/EN/ES/G w.d[Ee]; the children see upper-cased text"),
    ("formatItemC1002_tostr_match_tokens", "Format_Item_C1002_tostr_match_tokens", a, "partial", "exact relation: a comma is INVENTED between the two parts; " + SRM),
    ("formatItemC1002_invents_comma", "Format_Item_C1002_invents_comma", ["C02"], "witness", "`:a` is printed `:, a` (replayed on the real class: `:, A`)"),
    ("hollerith_tostr_match_tokens", "Hollerith_Item_tostr_match_tokens", a, "full", ""),
    ("hollerith_count_blanks_lost", "Hollerith_Item_count_blanks", ["C02"], "witness", "`1 2Habcdefghijkl` is printed `12Habcdefghijkl` (same tokens)"),
    ("use_tostr_match_tokens", "Use_Stmt_tostr_match_tokens", a, "full",
     "UNCONDITIONAL since the repair of Use_Stmt._match (`elif line[:idx].strip(): return None`): every accepted form of USE [[, nature] ::] name [, rename-list | , ONLY: [only-list]] keeps its tokens (before: a text between USE and `::` not starting with `,` was dropped; hypothesis useNatOK)"),
    ("use_rejects_text_before_colons", "Use_Stmt_rejects_text_before_colons", ["C02", "C08"], "witness",
     "REGRESSION for the repair: `use x :: m`, `use (a + :: m`, `use intrinsic :: iso_c_binding` are rejected (were accepted with the text dropped); `use :: m` and `use, intrinsic :: m` still accepted; replayed on the real class and through the parser"),
]
for e in OPTIONAL:
    try:
        find_stmt(e[0])
        add(*e)
    except KeyError:
        pass

# ---- C06
c6 = ["C06"]
TOTAL = [
    ("matchOf_total", "match_total", c6, "full",
     "EVERY modelled class: an exception escaping from `match` is the KeyError of string_replace_map's un-nesting loop, was raised inside a child call, or is the IndexError of Data_Edit_Desc.match(\"\") (`string[0]`; latent: `format(2)` is a syntax error, no rule hands the empty string over). Cray_Pointer_Decl and Data_Edit_Desc_C1002 lost their IndexError with the repairs of /repo (regression witnesses planCrayPointerDecl_empty_pointee_regression, planDataEditDescC1002_bare_letter_regression)"),
]
for e in TOTAL:
    try:
        find_stmt(e[0])
        add(*e)
    except KeyError:
        pass
# every other theorem of RestTotal / RestFixpoint is exported under its own name
AUTO_NOTES = {"RestTotal": (c6, "full", ""), "RestFixpoint": (["C01"], "partial",
              "printing is re-matchable and stable: the printed text is matched by the same class with the SAME items; the children re-match from their printed text; side conditions on the children's texts as stated")}
done = {t[0] for t in T}
EXCLUDE = {"run_pair_raises", "tokAfter_totalK", "wordRows_total", "natureScan_total", "useTail_total", "planOf_match_total",
           "planDataEditDesc_cons_total"}
for f in ("RestTotal", "RestFixpoint"):
    if f not in src:
        continue
    for m in re.finditer(r"^theorem ([A-Za-z0-9_']+)", src[f], re.M):
        nm = m.group(1)
        if nm in done or nm in EXCLUDE:
            continue
        if not re.search(r"(_total|_raises|_not_raises|_indexError|_fixpoint|_partial|_witness|_needed|_escapes|_no_raise|_regression)", nm):
            continue
        serves, strength, note = AUTO_NOTES[f]
        st = strength
        if re.search(r"(_witness|_escapes|_needed|_regression)", nm) or ": by decide" in src[f][m.start():m.start() + 600].split("\ntheorem")[0][-20:]:
            st = "witness" if re.search(r"(_witness|_escapes|_needed|_regression)", nm) else strength
        if "_partial" in nm:
            st = "partial"
        add(nm, nm, serves, st, note)
        done.add(nm)

# ---- rejects_unbalanced: hand-written ones
add("pos_rejects_unbalanced", "Position_Stmt_rejects_unbalanced", ["C08"], "full", "FLUSH / BACKSPACE / ENDFILE / REWIND (net kw = 0)")
add("specTable_rejects_unbalanced", "Spec_Table_rejects_unbalanced", ["C08"], "full", "Position_Spec / Flush_Spec / Wait_Spec")
add("bind_rejects_unbalanced_partial", "Bind_Stmt_rejects_unbalanced_partial", ["C08"], "partial",
    "FULL STATEMENT FALSE (witness Bind_Stmt_unbalanced_accepted): hypothesis BindColons (the text contains `::`)")
add("bind_unbalanced_accepted", "Bind_Stmt_unbalanced_accepted", ["C08"], "witness", "model-level: `bind c) x` accepted with balanced children")
add("target_rejects_unbalanced", "Target_Stmt_rejects_unbalanced", ["C08"], "full", "")
add("use_rejects_unbalanced", "Use_Stmt_rejects_unbalanced", ["C08"], "full", "unconditional since the repair of Use_Stmt._match")
add("use_unbalanced_rejected", "Use_Stmt_unbalanced_rejected", ["C08"], "witness", "REGRESSION: `use (a + :: m` (unbalanced parenthesis before the `::`) is rejected; replayed through the real parser: FortranSyntaxError")
add("include_rejects_unbalanced", "Include_Stmt_rejects_unbalanced", ["C08"], "full", "")

UNB = [("return", "Return_Stmt"), ("typeParamDecl", "Type_Param_Decl"), ("enumerator", "Enumerator"), ("stmtFunction", "Stmt_Function_Stmt"),
       ("whereConstruct", "Where_Construct_Stmt"), ("declTypeSpec", "Declaration_Type_Spec"), ("rename", "Rename"),
       ("intrinsicTypeSpec", "Intrinsic_Type_Spec"), ("shapeSpec", "Shape_Spec"), ("ioImpliedDoControl", "Io_Implied_Do_Control"),
       ("ioImpliedDo", "Io_Implied_Do"), ("assumedSize", "Assumed_Size_Spec"), ("typeParamDef", "Type_Param_Def_Stmt"),
       ("crayPointerDecl", "Cray_Pointer_Decl"), ("crayPointerStmt", "Cray_Pointer_Stmt"), ("targetEntityDecl", "Target_Entity_Decl"),
       ("positionEditDesc", "Position_Edit_Desc"), ("dataEditDesc", "Data_Edit_Desc"), ("dataEditDescC1002", "Data_Edit_Desc_C1002"),
       ("hollerith", "Hollerith_Item")]

HEADER = '''/-!
# Rest — the remaining hand-written rule classes of Fortran2003.py: C01, C02, C06, C08 at the class level

The model (`FparserModel/Rest.lean`) mirrors `match` and the separately written `tostr` of the 41 classes with an own
`match` that no other slice pins (see `Generated/RestTables.lean` for the inventory and the completeness obligation
`all_handwritten_methods_pinned`).  Children are OPAQUE (`Oracle`).  All theorems are for EVERY string and every oracle.

* `X_tostr_match_tokens` (C02, C08): `match` accepted ⟹ `tostr` does not raise and `toks printed = toks input` (`toks` deletes
  white space and folds case), or the EXACT relation where the real code changes the token text (`UNIT =` invented by the
  position specs, `::` invented by TARGET, the quote of INCLUDE normalised, a comma invented by Format_Item_C1002, the `)`
  REPLACED by `::` in a BIND statement without `::`), each with a `decide` witness replayed on the real code by
  `fv/cosim_rest.py`.  Classes that go through `string_replace_map` carry the decidable hypothesis `SrmOK`.
* `X_rejects_unbalanced` (C08): accepted and the children print balanced texts ⟹ the statement is balanced.
* `match_total` (C06): which exceptions can escape (one own IndexError left: `Data_Edit_Desc.match("")`, latent; the two reachable ones
  were repaired in /repo: regression witnesses).
* `X_match_tostr_fixpoint` (C01): the printed text is matched again with the same items, under explicit side conditions.

The theorems are proved in `Proofs/Rest*.lean`; this file states them (same statements) and gives non-vacuity examples.
GENERATED by tools/gen_props_rest.py.
-/
namespace Fp.Rest.Props
open Fp Fp.Splitline Fp.IoStmt Fp.Rest
open Fp.Combi (noBlank)

variable {Node : Type}
'''

FOOTER = '''/-! ## non-vacuity: the hypotheses are satisfiable on real statements (toy oracle `echoOracle`: every child accepts
    and prints its text) -/

theorem echo_tok : OracleTok echoOracle := by
  intro c t n h
  have : n = t := by simpa [echoOracle] using h.symm
  subst this; rfl

example : (planPos kwFlush "flush(unit = 10, iostat = i)".toList).bind (runSlots echoOracle)
    = .ok [.none, .node "unit = 10, iostat = i".toList] := by decide
example : (planPos kwRewind "REWIND 10".toList).bind (runSlots echoOracle) = .ok [.node "10".toList, .none] := by decide
example : (planPos kwFlush "flush(10".toList).bind (runSlots echoOracle) = .noMatch := by decide
example : startsC '(' (lstrip ("flush(10".toList.drop kwFlush.length)) = true ∧
    endsC ')' (lstrip ("flush(10".toList.drop kwFlush.length)) = false := by decide
example : matchPositionSpec echoOracle "iostat = i".toList = .ok [.str "IOSTAT".toList, .node "i".toList] := by decide
example : matchWaitSpec echoOracle "10".toList = .ok [.str "UNIT".toList, .node "10".toList] := by decide
example : (planReturn "return n + 1".toList).bind (runSlots echoOracle) = .ok [.node "n + 1".toList] := by decide
example : (planBind "bind(c) :: a, b".toList).bind (runSlots echoOracle)
    = .ok [.node "bind(c)".toList, .node "a, b".toList] ∧ BindColons "bind(c) :: a, b".toList := by decide
example : (planTarget "target a(10), b".toList).bind (runSlots echoOracle) = .ok [.node "a(10), b".toList] := by decide
example : (planTypeParamDef "integer(kind=4), kind :: k = 3".toList).bind (runSlots echoOracle)
    = .ok [.node "(kind=4)".toList, .node "kind".toList, .node "k = 3".toList] ∧
      SrmOK (lstrip ("integer(kind=4), kind :: k = 3".toList.drop 7)) := by decide +kernel
example : (planStmtFunction "f(x, y) = x + y".toList).bind (runSlots echoOracle)
    = .ok [.node "f".toList, .node "x, y".toList, .node "x + y".toList] := by decide
example : (planRename "operator(.a.) => operator(.b.)".toList).bind (runSlots echoOracle)
    = .ok [.str "OPERATOR".toList, .node ".a.".toList, .node ".b.".toList] := by decide
example : (planIoImpliedDo "(a(i), i = 1, n)".toList).bind (runSlots echoOracle)
    = .ok [.node "a(i)".toList, .node "i = 1, n".toList] ∧ SrmOK (strip (inner "(a(i), i = 1, n)".toList)) := by decide +kernel
example : matchIntrinsicTypeSpec echoOracle "double   precision".toList = .ok [.str "DOUBLE PRECISION".toList, .none] := by decide
example : planCrayPointerDecl "(a,)".toList = .noMatch := by decide
example : planDataEditDescC1002 "E".toList = .noMatch := by decide
example : matchUse echoOracle "use, intrinsic :: iso_c_binding, only: c_int".toList
    = .ok [.node "intrinsic".toList, .str "::".toList, .node "iso_c_binding".toList, .str ", ONLY:".toList, .node "c_int".toList] := by decide
example : planDataEditDesc [] = .raises .indexError := by decide
'''

out = []
imports = ["FparserModel.Proofs." + f for f in FILES if f in src]
out.append("\n".join("import " + i for i in imports) + "\n")
out.append(HEADER)
entries = []
axioms = []
for proof, props, serves, strength, note in T:
    try:
        f, binders, concl = find_stmt(proof)
    except KeyError:
        print("MISSING", proof)
        continue
    names = binder_names(binders)
    out.append("theorem %s %s :\n    %s :=\n  _root_.Fp.Rest.%s %s\n" % (props, binders, concl, proof, " ".join(names)))
    stmt = re.sub(r"\s+", " ", (binders + " : " + concl)).strip()
    entries.append({"name": "Fp.Rest.Props." + props, "file": "FparserModel/Props/Rest.lean", "statement": stmt,
                    "serves": serves, "strength": strength, "note": note})
    axioms.append(props)

out.append("/-! ## `X_rejects_unbalanced` (C08): corollaries of the token theorems (`net` is a function of `toks`) -/\n")
out.append("theorem balanced_of_tokens {t s : Str} (h : toks t = toks s) (hb : net t = 0) : net s = 0 := by\n"
           "  rw [← net_eq_of_toks h]; exact hb\n")
for k, cname in UNB:
    proof = k + "_tostr_match_tokens"
    try:
        f, binders, concl = find_stmt(proof)
    except KeyError:
        continue
    if "toks t = toks s ∧" not in concl or "∀ i ∈ items" not in concl:
        print("no corollary for", proof)
        continue
    names = binder_names(binders)
    hyp = "(hbal : ∀ i ∈ items, net (i.text o) = 0)"
    nm = cname + "_rejects_unbalanced"
    out.append("theorem %s %s\n    %s : net s = 0 := by\n  obtain ⟨t, _, h1, h2⟩ := _root_.Fp.Rest.%s %s\n  exact balanced_of_tokens h1 (h2 hbal)\n"
               % (nm, binders, hyp, proof, " ".join(names)))
    stmt = re.sub(r"\s+", " ", binders + " " + hyp + " : net s = 0")
    entries.append({"name": "Fp.Rest.Props." + nm, "file": "FparserModel/Props/Rest.lean", "statement": stmt,
                    "serves": ["C08"], "strength": "partial" if "SrmOK" in binders else "full",
                    "note": "the matched text is balanced whenever the children's printed texts are: no parenthesis of the input is silently discarded"})
    axioms.append(nm)
out.append(FOOTER)
out.append("end Fp.Rest.Props\n")
for n_ in axioms:
    out.append("#print axioms Fp.Rest.Props.%s" % n_)
os.makedirs(os.path.join(ROOT, "FparserModel", "Props"), exist_ok=True)
open(os.path.join(ROOT, "FparserModel", "Props", "Rest.lean"), "w", encoding="utf-8").write("\n".join(out) + "\n")
os.makedirs(os.path.join(ROOT, "theorems"), exist_ok=True)
json.dump(entries, open(os.path.join(ROOT, "theorems", "Rest.json"), "w", encoding="utf-8"), indent=1, ensure_ascii=False)
print(len(entries), "theorems")
