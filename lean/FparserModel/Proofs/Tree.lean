import FparserModel.Tree
/-!
Helper lemmas for `Props/Tree.lean`.
-/
namespace Fp.Tree

/-- `node.parent` of node `n` (`none` also when `n` is not allocated) -/
def parentOf (a : Arena) (n : Nat) : Option Nat := (a[n]?).bind (·.parent)

theorem length_setParent (a : Arena) (m : Nat) (p : Option Nat) : (setParent a m p).length = a.length := by
  simp [setParent]

theorem parentOf_setParent (a : Arena) (m n : Nat) (p : Option Nat) :
    parentOf (setParent a m p) n = if m = n ∧ n < a.length then p else parentOf a n := by
  unfold parentOf setParent
  rw [List.getElem?_modify]
  by_cases h : m = n
  · subst h
    by_cases hl : m < a.length
    · simp [hl, List.getElem?_eq_getElem hl]
    · have : a[m]? = none := by simp; omega
      simp [hl, this]
  · cases a[n]? <;> simp [h]

theorem length_foldl_setParent (ms : List Nat) (p : Option Nat) (a : Arena) :
    (ms.foldl (fun a n => setParent a n p) a).length = a.length := by
  induction ms generalizing a with
  | nil => rfl
  | cons m ms ih => simp [List.foldl, ih, length_setParent]

theorem parentOf_foldl_setParent (ms : List Nat) (p : Option Nat) (a : Arena) (n : Nat) :
    parentOf (ms.foldl (fun a n => setParent a n p) a) n
      = if n ∈ ms ∧ n < a.length then p else parentOf a n := by
  induction ms generalizing a with
  | nil => simp
  | cons m ms ih =>
    simp only [List.foldl, ih, length_setParent, parentOf_setParent, List.mem_cons]
    by_cases h1 : n ∈ ms
    · by_cases hl : n < a.length <;> simp [h1, hl]
    · by_cases h2 : m = n
      · subst h2; by_cases hl : m < a.length <;> simp [h1, hl]
      · have : ¬ n = m := fun h => h2 h.symm
        simp [h1, h2, this]

/-- the events that assign `n.parent` -/
def Ev.touches (n : Nat) : Ev → Bool
  | .attach _ items => (spList items).contains n
  | .reset m => m == n
  | _ => false

theorem parentOf_step_untouched (a : Arena) (ev : Ev) (n : Nat) (h : ev.touches n = false) :
    parentOf (step a ev) n = parentOf a n := by
  cases ev with
  | alloc cls =>
    unfold parentOf step
    by_cases hl : n < a.length
    · simp [List.getElem?_append_left hl]
    · have h1 : a[n]? = none := by simp; omega
      by_cases h2 : n = a.length
      · subst h2; simp
      · have : (a ++ [({ cls := cls } : Node)])[n]? = none := by simp; omega
        simp [h1, this]
  | attach p items =>
    simp only [Ev.touches, List.contains_eq_mem, decide_eq_false_iff_not] at h
    simp [step, parentOf_foldl_setParent, h]
  | reset m =>
    simp only [Ev.touches, beq_eq_false_iff_ne] at h
    simp [step, parentOf_setParent, h]
  | children m items =>
    unfold parentOf step
    rw [List.getElem?_modify]
    cases a[n]? <;> simp
    split <;> rfl

theorem length_step_ge (a : Arena) (ev : Ev) : a.length ≤ (step a ev).length := by
  cases ev <;> simp [step, length_foldl_setParent, length_setParent]

theorem parentOf_run_untouched (evs : List Ev) (a : Arena) (n : Nat)
    (h : ∀ ev ∈ evs, ev.touches n = false) : parentOf (run a evs) n = parentOf a n := by
  induction evs generalizing a with
  | nil => rfl
  | cons ev evs ih =>
    simp only [run, List.foldl] at ih ⊢
    rw [ih (step a ev) (fun e he => h e (by simp [he]))]
    exact parentOf_step_untouched a ev n (h ev (by simp))

theorem run_append (a : Arena) (e1 e2 : List Ev) : run a (e1 ++ e2) = run (run a e1) e2 := by
  simp [run, List.foldl_append]

/-! ## get_root -/

/-- `k` parent steps lead from `n` to `r`, and `r` has no parent -/
inductive UpChain (a : Arena) : Nat → Nat → Nat → Prop where
  | root (r : Nat) (h : parentOf a r = none) : UpChain a r r 0
  | up (n p r k : Nat) (h : parentOf a n = some p) (rest : UpChain a p r k) : UpChain a n r (k + 1)

theorem getRootF_of_chain (a : Arena) (n r k : Nat) (h : UpChain a n r k) :
    ∀ fuel, k < fuel → getRootF a fuel n = some r := by
  induction h with
  | root r h =>
    intro fuel hf
    cases fuel with
    | zero => omega
    | succ f =>
      unfold getRootF
      unfold parentOf at h
      cases ha : a[r]? with
      | none => rfl
      | some nd =>
        simp [ha] at h
        simp [h]
  | up n p r k h rest ih =>
    intro fuel hf
    cases fuel with
    | zero => omega
    | succ f =>
      unfold getRootF
      unfold parentOf at h
      cases ha : a[n]? with
      | none => simp [ha] at h
      | some nd =>
        simp [ha] at h
        simp [h]
        exact ih f (by omega)

end Fp.Tree
