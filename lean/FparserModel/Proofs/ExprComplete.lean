import FparserModel.Proofs.ExprSplit

/-! completeness of the chain on derivations of the standard grammar (inside the boundary) -/
set_option linter.unusedSimpArgs false

namespace Fp.Expr

/-! ### rows -/
theorem rowOf_expr : rowOf .expr = ⟨.expr, .binL, .defined, some .expr, some .l5, some .l5, true⟩ := rfl
theorem rowOf_l5 : rowOf .l5 = ⟨.l5, .binL, .equiv, some .l5, some .equivOp, some .equivOp, false⟩ := rfl
theorem rowOf_equivOp : rowOf .equivOp = ⟨.equivOp, .binL, .or, some .equivOp, some .orOp, some .orOp, false⟩ := rfl
theorem rowOf_orOp : rowOf .orOp = ⟨.orOp, .binL, .and, some .orOp, some .andOp, some .andOp, false⟩ := rfl
theorem rowOf_andOp : rowOf .andOp = ⟨.andOp, .unary, .not, none, some .l4, some .l4, false⟩ := rfl
theorem rowOf_l4 : rowOf .l4 = ⟨.l4, .binL, .rel, some .l3, some .l3, some .l3, false⟩ := rfl
theorem rowOf_l3 : rowOf .l3 = ⟨.l3, .binL, .concat, some .l3, some .l2, some .l2, false⟩ := rfl
theorem rowOf_l2 : rowOf .l2 = ⟨.l2, .binL, .add, some .l2, some .addOp, some .l2u, false⟩ := rfl
theorem rowOf_l2u : rowOf .l2u = ⟨.l2u, .unary, .add, none, some .addOp, some .addOp, false⟩ := rfl
theorem rowOf_addOp : rowOf .addOp = ⟨.addOp, .binL, .mult, some .addOp, some .multOp, some .multOp, false⟩ := rfl
theorem rowOf_multOp : rowOf .multOp = ⟨.multOp, .binR, .power, some .l1, some .multOp, some .l1, false⟩ := rfl
theorem rowOf_l1 : rowOf .l1 = ⟨.l1, .unary, .defined, none, some .prim, some .prim, false⟩ := rfl
theorem rowOf_prim : rowOf .prim = ⟨.prim, .prim, .none, none, some .expr, none, false⟩ := rfl

/-! ### one `match`, generically -/

theorem matchStep_binL_none {rec : Lv → List T → Option Ex} {row : Row} {ts : List T} {a b : Lv}
    (hk : row.kind = .binL) (hl : row.lhs = some a) (hr : row.rhs = some b)
    (h : ∀ l o r, splitLast row.cls.test ts 0 = some (l, o, r) →
      l = [] ∨ r = [] ∨ (row.excl = true ∧ o.excluded = true) ∨ rec b r = none ∨ rec a l = none) :
    matchStep rec row ts = none := by
  unfold matchStep
  rw [hk, hl, hr]
  simp only
  split
  · rfl
  · cases hs : splitLast row.cls.test ts 0 with
    | none => rfl
    | some x =>
      obtain ⟨l, o, r⟩ := x
      simp only
      rcases h l o r hs with h1 | h1 | h1 | h1 | h1
      · simp [h1]
      · simp [h1]
      · simp [h1]
      · split
        · rfl
        · split
          · rfl
          · rw [h1]
      · split
        · rfl
        · split
          · rfl
          · rw [h1]; cases rec b r <;> rfl

theorem matchStep_binL_some {rec : Lv → List T → Option Ex} {row : Row} {ts : List T} {a b : Lv}
    {l r : List T} {o : T} {L R : Ex}
    (hk : row.kind = .binL) (hl : row.lhs = some a) (hr : row.rhs = some b)
    (hg : gluedPair row.cls.test ts 0 = false)
    (hs : splitLast row.cls.test ts 0 = some (l, o, r)) (hl0 : l ≠ []) (hr0 : r ≠ [])
    (hex : row.excl = false ∨ o.excluded = false)
    (hR : rec b r = some R) (hL : rec a l = some L) :
    matchStep rec row ts = some (.bin o L R) := by
  unfold matchStep
  rw [hk, hl, hr]
  simp only [hg, hs, hR, hL]
  rcases hex with h | h <;> simp [hl0, hr0, h]

theorem matchStep_binR_none {rec : Lv → List T → Option Ex} {row : Row} {ts : List T} {a b : Lv}
    (hk : row.kind = .binR) (hl : row.lhs = some a) (hr : row.rhs = some b)
    (h : splitFirst row.cls.test ts 0 = none) : matchStep rec row ts = none := by
  unfold matchStep
  rw [hk, hl, hr]
  simp only [h]

theorem matchStep_binR_some {rec : Lv → List T → Option Ex} {row : Row} {ts : List T} {a b : Lv}
    {l r : List T} {o : T} {L R : Ex}
    (hk : row.kind = .binR) (hl : row.lhs = some a) (hr : row.rhs = some b)
    (hs : splitFirst row.cls.test ts 0 = some (l, o, r)) (hl0 : l ≠ []) (hr0 : r ≠ [])
    (hex : row.excl = false ∨ o.excluded = false)
    (hL : rec a l = some L) (hR : rec b r = some R) :
    matchStep rec row ts = some (.bin o L R) := by
  unfold matchStep
  rw [hk, hl, hr]
  simp only [hs, hR, hL]
  rcases hex with h | h <;> simp [hl0, hr0, h]

theorem matchStep_unary_none {rec : Lv → List T → Option Ex} {row : Row} {o : T} {r : List T} {b : Lv}
    (hk : row.kind = .unary) (hr : row.rhs = some b)
    (h : row.cls.test o = false ∨ r = []) : matchStep rec row (o :: r) = none := by
  unfold matchStep
  rw [hk, hr]
  rcases h with h | h <;> simp [h]

theorem matchStep_unary_some {rec : Lv → List T → Option Ex} {row : Row} {o : T} {r : List T} {b : Lv}
    {R : Ex} (hk : row.kind = .unary) (hr : row.rhs = some b)
    (ht : row.cls.test o = true) (hr0 : r ≠ []) (hR : rec b r = some R) :
    matchStep rec row (o :: r) = some (.un o R) := by
  unfold matchStep
  rw [hk, hr]
  simp [ht, hr0, hR]

/-! ### ranks: which tokens can be visible in a derivation of a nonterminal -/

def tokRank : T → Nat
  | .op (.dot _) _ => 1
  | .op .pow _ => 2
  | .op .mul _ => 3
  | .op .div _ => 3
  | .op .plus _ => 4
  | .op .minus _ => 4
  | .op .concat _ => 5
  | .op (.rel _ _) _ => 6
  | .op .not _ => 7
  | .op .and _ => 8
  | .op .or _ => 9
  | .op .eqv _ => 10
  | .op .neqv _ => 10
  | _ => 0

def SLv.rank : SLv → Nat
  | .prim => 0 | .l1 => 1 | .mult => 2 | .add => 3 | .l2 => 4 | .l3 => 5 | .l4 => 6
  | .andOp => 7 | .orOp => 8 | .equivOp => 9 | .l5 => 10 | .expr => 11

def OpCls.rank : OpCls → Nat
  | .power => 2 | .mult => 3 | .add => 4 | .concat => 5 | .rel => 6 | .not => 7 | .and => 8
  | .or => 9 | .equiv => 10 | .defined => 0 | .none => 0

theorem test_rank {c : OpCls} {t : T} (hc : c ≠ .defined) (h : c.test t = true) :
    tokRank t = c.rank := by
  cases c <;> cases t <;> simp [OpCls.test] at h hc ⊢ <;>
    (rename_i o g; cases o <;> simp [OpCls.test, tokRank, OpCls.rank] at h ⊢)

theorem test_lp (c : OpCls) : c.test .lp = false := by
  cases c <;> simp [OpCls.test, T.isDotted]

/-- every operator of the tree is an operator token -/
def opsOp : Ex → Prop
  | .atom _ _ _ => True
  | .paren e => opsOp e
  | .un o e => (∃ o' g, o = .op o' g) ∧ opsOp e
  | .bin o l r => (∃ o' g, o = .op o' g) ∧ opsOp l ∧ opsOp r

theorem opsOK_of_opsOp : ∀ e, opsOp e → opsOK e := by
  intro e
  induction e with
  | atom => intro _; trivial
  | paren e ih => intro h; exact ih h
  | un o e ih =>
    intro h
    obtain ⟨⟨o', g, rfl⟩, h2⟩ := h
    exact ⟨rfl, ih h2⟩
  | bin o l r ihl ihr =>
    intro h
    obtain ⟨⟨o', g, rfl⟩, h2, h3⟩ := h
    exact ⟨rfl, ihl h2, ihr h3⟩

theorem derives_opsOp {s : SLv} {e : Ex} (h : Derives s e) : opsOp e := by
  induction h <;> simp_all [opsOp]

theorem derives_opsOK {s : SLv} {e : Ex} (h : Derives s e) : opsOK e :=
  opsOK_of_opsOp e (derives_opsOp h)

theorem rank_multOp {o : Op} (g : Bool) (h : o.isMultOp = true) : tokRank (.op o g) = 3 := by
  cases o <;> simp [Op.isMultOp] at h <;> rfl
theorem rank_addOp {o : Op} (g : Bool) (h : o.isAddOp = true) : tokRank (.op o g) = 4 := by
  cases o <;> simp [Op.isAddOp] at h <;> rfl
theorem rank_relOp {o : Op} (g : Bool) (h : o.isRelOp = true) : tokRank (.op o g) = 6 := by
  cases o <;> simp [Op.isRelOp] at h <;> rfl
theorem rank_equivOp {o : Op} (g : Bool) (h : o.isEquivOp = true) : tokRank (.op o g) = 10 := by
  cases o <;> simp [Op.isEquivOp] at h <;> rfl

/-- "all depth-0 operators of a tree derived at level s have level ≤ s" -/
theorem derives_top {s : SLv} {e : Ex} (h : Derives s e) : ∀ t ∈ topToks e, tokRank t ≤ s.rank := by
  induction h with
  | operand i d g => intro t ht; simp [topToks] at ht; subst ht; simp [tokRank]
  | parens _ _ => intro t ht; simp [topToks] at ht
  | l1_prim _ ih => intro t ht; have := ih t ht; simp [SLv.rank] at *; omega
  | l1_defun n g _ ih =>
    intro t ht; simp [topToks] at ht
    rcases ht with rfl | ht
    · simp [tokRank, SLv.rank]
    · have := ih t ht; simp [SLv.rank] at *; omega
  | mult_l1 _ ih => intro t ht; have := ih t ht; simp [SLv.rank] at *; omega
  | mult_pow g _ _ iha ihb =>
    intro t ht; simp [topToks] at ht
    rcases ht with ht | rfl | ht
    · have := iha t ht; simp [SLv.rank] at *; omega
    · simp [tokRank, SLv.rank]
    · have := ihb t ht; simp [SLv.rank] at *; omega
  | add_mult _ ih => intro t ht; have := ih t ht; simp [SLv.rank] at *; omega
  | add_bin o g ho _ _ iha ihb =>
    intro t ht; simp [topToks] at ht
    rcases ht with ht | rfl | ht
    · have := iha t ht; simp [SLv.rank] at *; omega
    · simp [rank_multOp g ho, SLv.rank]
    · have := ihb t ht; simp [SLv.rank] at *; omega
  | l2_add _ ih => intro t ht; have := ih t ht; simp [SLv.rank] at *; omega
  | l2_sign o g ho _ ih =>
    intro t ht; simp [topToks] at ht
    rcases ht with rfl | ht
    · simp [rank_addOp g ho, SLv.rank]
    · have := ih t ht; simp [SLv.rank] at *; omega
  | l2_bin o g ho _ _ iha ihb =>
    intro t ht; simp [topToks] at ht
    rcases ht with ht | rfl | ht
    · have := iha t ht; simp [SLv.rank] at *; omega
    · simp [rank_addOp g ho, SLv.rank]
    · have := ihb t ht; simp [SLv.rank] at *; omega
  | l3_l2 _ ih => intro t ht; have := ih t ht; simp [SLv.rank] at *; omega
  | l3_bin g _ _ iha ihb =>
    intro t ht; simp [topToks] at ht
    rcases ht with ht | rfl | ht
    · have := iha t ht; simp [SLv.rank] at *; omega
    · simp [tokRank, SLv.rank]
    · have := ihb t ht; simp [SLv.rank] at *; omega
  | l4_l3 _ ih => intro t ht; have := ih t ht; simp [SLv.rank] at *; omega
  | l4_bin o g ho _ _ iha ihb =>
    intro t ht; simp [topToks] at ht
    rcases ht with ht | rfl | ht
    · have := iha t ht; simp [SLv.rank] at *; omega
    · simp [rank_relOp g ho, SLv.rank]
    · have := ihb t ht; simp [SLv.rank] at *; omega
  | and_l4 _ ih => intro t ht; have := ih t ht; simp [SLv.rank] at *; omega
  | and_not g _ ih =>
    intro t ht; simp [topToks] at ht
    rcases ht with rfl | ht
    · simp [tokRank, SLv.rank]
    · have := ih t ht; simp [SLv.rank] at *; omega
  | or_and _ ih => intro t ht; have := ih t ht; simp [SLv.rank] at *; omega
  | or_bin g _ _ iha ihb =>
    intro t ht; simp [topToks] at ht
    rcases ht with ht | rfl | ht
    · have := iha t ht; simp [SLv.rank] at *; omega
    · simp [tokRank, SLv.rank]
    · have := ihb t ht; simp [SLv.rank] at *; omega
  | equiv_or _ ih => intro t ht; have := ih t ht; simp [SLv.rank] at *; omega
  | equiv_bin g _ _ iha ihb =>
    intro t ht; simp [topToks] at ht
    rcases ht with ht | rfl | ht
    · have := iha t ht; simp [SLv.rank] at *; omega
    · simp [tokRank, SLv.rank]
    · have := ihb t ht; simp [SLv.rank] at *; omega
  | l5_equiv _ ih => intro t ht; have := ih t ht; simp [SLv.rank] at *; omega
  | l5_bin o g ho _ _ iha ihb =>
    intro t ht; simp [topToks] at ht
    rcases ht with ht | rfl | ht
    · have := iha t ht; simp [SLv.rank] at *; omega
    · simp [rank_equivOp g ho, SLv.rank]
    · have := ihb t ht; simp [SLv.rank] at *; omega
  | expr_l5 _ ih => intro t ht; have := ih t ht; simp [SLv.rank] at *; omega
  | expr_bin n g _ _ iha ihb =>
    intro t ht; simp [topToks] at ht
    rcases ht with ht | rfl | ht
    · have := iha t ht; simp [SLv.rank] at *; omega
    · simp [tokRank, SLv.rank]
    · have := ihb t ht; simp [SLv.rank] at *; omega

theorem no_test_of_rank {s : SLv} {e : Ex} {c : OpCls} (h : Derives s e) (hc : c ≠ .defined)
    (hlt : s.rank < c.rank) : ∀ t ∈ topToks e, c.test t = false := by
  intro t ht
  cases htest : c.test t with
  | false => rfl
  | true =>
    have h1 := test_rank hc htest
    have h2 := derives_top h t ht
    omega

/-! ### generic fall-through / production steps of `parse` -/

theorem fall_binL {k a b nx : Lv} {c : OpCls} {ex : Bool}
    (hrow : rowOf k = ⟨k, .binL, c, some a, some b, some nx, ex⟩) (e : Ex) (hok : opsOK e)
    (htop : ∀ t ∈ topToks e, c.test t = false) : parse k (render e) = parse nx (render e) := by
  rw [parse_eq k]
  have : matchStep parse (rowOf k) (render e) = none := by
    apply matchStep_binL_none (a := a) (b := b) <;> simp only [hrow]
    intro l o r hs
    rw [splitLast_none_of_top _ e hok htop] at hs
    exact absurd hs (by simp)
  rw [this]
  simp [hrow]

theorem prod_binL {k a b : Lv} {nx : Option Lv} {c : OpCls} {ex : Bool}
    (hrow : rowOf k = ⟨k, .binL, c, some a, some b, nx, ex⟩) (o : Op) (g : Bool) (L R : Ex)
    (hL : opsOK L) (hR : opsOK R) (hc : c.test (.op o g) = true)
    (htop : ∀ t ∈ topToks R, c.test t = false)
    (hex : ex = false ∨ (T.op o g).excluded = false)
    (hglue : glueFree (render (.bin (.op o g) L R)) = true)
    (hpl : parse a (render L) = some L) (hpr : parse b (render R) = some R) :
    parse k (render (.bin (.op o g) L R)) = some (.bin (.op o g) L R) := by
  rw [parse_eq k]
  have : matchStep parse (rowOf k) (render (.bin (.op o g) L R)) = some (.bin (.op o g) L R) := by
    apply matchStep_binL_some (a := a) (b := b) (l := render L) (r := render R) <;>
      try simp only [hrow, render]
    · exact gluedPair_of_touching _ _ _ (glueFree_touching hglue c)
    · exact splitLast_root _ _ L R hL hR rfl hc htop
    · exact render_ne_nil L
    · exact render_ne_nil R
    · exact hex
    · exact hpr
    · exact hpl
  rw [this]

theorem fall_unary {k b nx : Lv} {c : OpCls}
    (hrow : rowOf k = ⟨k, .unary, c, none, some b, some nx, false⟩) (e : Ex)
    (htop : ∀ t ∈ topToks e, c.test t = false) : parse k (render e) = parse nx (render e) := by
  rw [parse_eq k]
  have : matchStep parse (rowOf k) (render e) = none := by
    cases hre : render e with
    | nil => exact absurd hre (render_ne_nil e)
    | cons t rest =>
      apply matchStep_unary_none (b := b) <;> simp only [hrow]
      left
      rcases render_first e t rest hre with rfl | h
      · exact test_lp c
      · exact htop t h
  rw [this]
  simp [hrow]

theorem prod_unary {k b : Lv} {nx : Option Lv} {c : OpCls}
    (hrow : rowOf k = ⟨k, .unary, c, none, some b, nx, false⟩) (o : T) (e : Ex)
    (hc : c.test o = true) (hp : parse b (render e) = some e) :
    parse k (o :: render e) = some (.un o e) := by
  rw [parse_eq k]
  have : matchStep parse (rowOf k) (o :: render e) = some (.un o e) := by
    apply matchStep_unary_some (b := b) <;> try simp only [hrow]
    · exact hc
    · exact render_ne_nil e
    · exact hp
  rw [this]

/-! ### hypotheses of sub-trees -/

theorem ndr_bin {o : T} {l r : Ex} (h : noDottedRightOfDefinedBinary (.bin o l r) = true) :
    noDottedRightOfDefinedBinary l = true ∧ noDottedRightOfDefinedBinary r = true := by
  simp only [noDottedRightOfDefinedBinary, Bool.and_eq_true] at h
  exact ⟨h.1.2, h.2⟩

theorem glue_bin {o : T} {l r : Ex} (h : glueFree (render (.bin o l r)) = true) :
    glueFree (render l) = true ∧ glueFree (render r) = true := by
  simp only [render] at h
  have h1 := glueFree_append h
  exact ⟨h1.1, glueFree_cons h1.2⟩

theorem glue_un {o : T} {e : Ex} (h : glueFree (render (.un o e)) = true) :
    glueFree (render e) = true := glueFree_cons h

theorem glue_paren {e : Ex} (h : glueFree (render (.paren e)) = true) :
    glueFree (render e) = true := by
  simp only [render] at h
  exact (glueFree_append (glueFree_cons h)).1

/-! ### `Expr.match` on a level-5 expression: the only delicate fall-through -/

def noTopDefBin : Ex → Prop
  | .atom _ _ _ => True
  | .paren _ => True
  | .un _ e => noTopDefBin e
  | .bin o l r => (∀ n g, o ≠ .op (.dot n) g) ∧ noTopDefBin l ∧ noTopDefBin r

theorem derives_noTopDefBin {s : SLv} {e : Ex} (h : Derives s e) : s.rank ≤ 10 → noTopDefBin e := by
  induction h with
  | operand => intro _; trivial
  | parens => intro _; trivial
  | add_bin o g ho _ _ iha ihb =>
    intro _
    refine ⟨?_, iha (by simp [SLv.rank]), ihb (by simp [SLv.rank])⟩
    intro n g' h; cases h; simp [Op.isMultOp] at ho
  | l2_bin o g ho _ _ iha ihb =>
    intro _
    refine ⟨?_, iha (by simp [SLv.rank]), ihb (by simp [SLv.rank])⟩
    intro n g' h; cases h; simp [Op.isAddOp] at ho
  | l4_bin o g ho _ _ iha ihb =>
    intro _
    refine ⟨?_, iha (by simp [SLv.rank]), ihb (by simp [SLv.rank])⟩
    intro n g' h; cases h; simp [Op.isRelOp] at ho
  | l5_bin o g ho _ _ iha ihb =>
    intro _
    refine ⟨?_, iha (by simp [SLv.rank]), ihb (by simp [SLv.rank])⟩
    intro n g' h; cases h; simp [Op.isEquivOp] at ho
  | expr_l5 => intro h; simp [SLv.rank] at h
  | expr_bin => intro h; simp [SLv.rank] at h
  | _ => simp_all [noTopDefBin, SLv.rank]

/-- empty, or ending in an operator token -/
def endsOp (l : List T) : Prop := l = [] ∨ ∃ o g, l.getLast? = some (.op o g)

theorem endsOp_cons {o' : Op} {g' : Bool} {l : List T} (h : endsOp l) : endsOp (.op o' g' :: l) := by
  right
  rcases h with rfl | ⟨o, g, h⟩
  · exact ⟨o', g', rfl⟩
  · refine ⟨o, g, ?_⟩
    cases l with
    | nil => simp at h
    | cons a as => rw [List.getLast?_cons_cons]; exact h

theorem endsOp_append {xs l : List T} (hne : l ≠ []) (h : endsOp l) : endsOp (xs ++ l) := by
  right
  rcases h with rfl | ⟨o, g, h⟩
  · exact absurd rfl hne
  · refine ⟨o, g, ?_⟩
    rw [List.getLast?_append, h]; rfl

/-- in a tree without visible defined-binary operator, a visible `.name.` that `rsplit` picks
is a unary operator: the text to its left is empty or ends in an operator -/
theorem prevOp : ∀ (e : Ex), opsOp e → noTopDefBin e → ∀ l n g r,
    splitLast T.isDotted (render e) 0 = some (l, .op (.dot n) g, r) → endsOp l := by
  intro e
  induction e with
  | atom i d g' =>
    intro _ _ l n g r h
    simp only [render, splitLast_single] at h
    split at h
    · simp at h
    · simp at h
  | paren e _ =>
    intro hop _ l n g r h
    rw [splitLast_none_of_top _ (.paren e) (opsOK_of_opsOp _ hop) (by simp [topToks])] at h
    simp at h
  | un o e ih =>
    intro hop hnd l n g r h
    obtain ⟨⟨o', g', rfl⟩, hop2⟩ := hop
    simp only [render] at h
    rw [splitLast, step_of_not_paren rfl] at h
    cases hs : splitLast T.isDotted (render e) 0 with
    | some x =>
      obtain ⟨l', t, r'⟩ := x
      rw [hs] at h
      simp only [Option.some.injEq, Prod.mk.injEq] at h
      obtain ⟨rfl, rfl, rfl⟩ := h
      exact endsOp_cons (ih hop2 hnd _ _ _ _ hs)
    | none =>
      rw [hs] at h
      simp only at h
      split at h
      · simp only [Option.some.injEq, Prod.mk.injEq] at h
        left; exact h.1.symm
      · simp at h
  | bin o a b iha ihb =>
    intro hop hnd l n g r h
    obtain ⟨⟨o', g', rfl⟩, hopa, hopb⟩ := hop
    obtain ⟨hno, hnda, hndb⟩ := hnd
    simp only [render] at h
    rw [splitLast_append, depthAfter_render a (opsOK_of_opsOp _ hopa), splitLast,
      step_of_not_paren rfl] at h
    cases hs : splitLast T.isDotted (render b) 0 with
    | some x =>
      obtain ⟨l', t, r'⟩ := x
      rw [hs] at h
      simp only [Option.some.injEq, Prod.mk.injEq] at h
      obtain ⟨rfl, rfl, rfl⟩ := h
      exact endsOp_append (by simp) (endsOp_cons (ihb hopb hndb _ _ _ _ hs))
    | none =>
      rw [hs] at h
      by_cases hd : (T.op o' g').isDotted = true
      · simp only [hd, T.isParen, Bool.not_false, and_self, ↓reduceIte, Option.some.injEq,
          Prod.mk.injEq] at h
        exact absurd h.2.1 (hno n g)
      · simp only [hd, and_false, ↓reduceIte] at h
        cases hsa : splitLast T.isDotted (render a) 0 with
        | some x =>
          obtain ⟨l', t, r'⟩ := x
          rw [hsa] at h
          simp only [Option.some.injEq, Prod.mk.injEq] at h
          obtain ⟨rfl, rfl, rfl⟩ := h
          exact iha hopa hnda _ _ _ _ hsa
        | none => rw [hsa] at h; simp at h

theorem excluded_false {o : T} (h : o.excluded = false) : ∃ n g, o = .op (.dot n) g := by
  cases o with
  | op o' g => cases o' <;> simp [T.excluded] at h; exact ⟨_, _, rfl⟩
  | _ => simp [T.excluded] at h

/-- `Expr.match` returns `None` (possibly after failing nested calls) on a level-5-expr -/
theorem fall_expr {s : SLv} {e : Ex} (h : Derives s e) (hs : s.rank ≤ 10) :
    parse .expr (render e) = parse .l5 (render e) := by
  rw [parse_eq .expr]
  have : matchStep parse (rowOf .expr) (render e) = none := by
    apply matchStep_binL_none (a := .expr) (b := .l5) <;> simp only [rowOf_expr]
    intro l o r hsp
    by_cases hl : l = []
    · exact Or.inl hl
    · by_cases hex : o.excluded = true
      · exact Or.inr (Or.inr (Or.inl ⟨trivial, hex⟩))
      · simp only [Bool.not_eq_true] at hex
        obtain ⟨n, g, rfl⟩ := excluded_false hex
        right; right; right; right
        rcases prevOp e (derives_opsOp h) (derives_noTopDefBin h hs) l n g r hsp with h1 | ⟨o', g', h1⟩
        · exact absurd h1 hl
        · exact parse_none_of_last h1 rfl .expr
  rw [this]
  simp [rowOf_expr]

end Fp.Expr
