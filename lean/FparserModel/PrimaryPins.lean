/-!
# PrimaryPins - what FparserModel/Primary.lean was validated against

Hand-maintained (written by `python -m fv.extract_primary --write-pins <lean dir> [<method>…]` AFTER the
mirror of an edited method / regex has been re-validated; never as part of a normal build).
Generated/PrimaryTables.lean proves that the live fingerprints and patterns equal these.
-/
namespace Fp.Primary

/-- `live = expected`; the message is part of the statement so that it shows in the error -/
def Pinned (_msg : String) (live expected : Option (String × String)) : Prop := live = expected
instance (m : String) (a b : Option (String × String)) : Decidable (Pinned m a b) :=
  inferInstanceAs (Decidable (a = b))
def PinnedN (_msg : String) (live expected : Nat) : Prop := live = expected
instance (m : String) (a b : Nat) : Decidable (PinnedN m a b) :=
  inferInstanceAs (Decidable (a = b))
def PinnedP (_msg : String) (live expected : List (String × String)) : Prop := live = expected
instance (m : String) (a b : List (String × String)) : Decidable (PinnedP m a b) :=
  inferInstanceAs (Decidable (a = b))

namespace Pins

/-- fingerprints of the mirrored methods (same order as `Generated.PrimaryTables.liveFingerprints`) -/
def expected : List (String × String) := [
  ("Fortran2003.<module>.class_generator_loop", "111803d92482f4dc"),
  ("Fortran2003.Ac_Implied_Do.match", "1ddfc4559cfcb447"),
  ("Fortran2003.Ac_Implied_Do.tostr", "4b48087c4babebde"),
  ("Fortran2003.Ac_Implied_Do_Control.match", "e19660dfc02ce013"),
  ("Fortran2003.Ac_Implied_Do_Control.tostr", "9af5c253664f7b8f"),
  ("Fortran2003.Ac_Spec.match", "2d8c5a73e7b7c38f"),
  ("Fortran2003.Ac_Spec.tostr", "484d256098aa8da5"),
  ("Fortran2003.Ac_Value_List.match", "generated:SequenceBase.match.Ac_Value(',')"),
  ("Fortran2003.Actual_Arg_Spec.match", "43ec6543efbd0b36"),
  ("Fortran2003.Actual_Arg_Spec_List.match", "generated:SequenceBase.match.Actual_Arg_Spec(',')"),
  ("Fortran2003.Alt_Return_Spec.match", "53946fe6be2c5040"),
  ("Fortran2003.Alt_Return_Spec.tostr", "9e3a05a96d8298b5"),
  ("Fortran2003.Array_Constructor.match", "edd9f1b611cdd59d"),
  ("Fortran2003.Array_Section.match", "4bd7ad5eb5d6368b"),
  ("Fortran2003.Assignment_Stmt.match", "63b8b702b92bd431"),
  ("Fortran2003.Binary_Constant.match", "b8472f573d3e5e94"),
  ("Fortran2003.Bounds_Remapping.match", "3091ba07ead08ee6"),
  ("Fortran2003.Bounds_Remapping_List.match", "generated:SequenceBase.match.Bounds_Remapping(',')"),
  ("Fortran2003.Bounds_Spec.match", "f4f122ab7ea4337d"),
  ("Fortran2003.Bounds_Spec_List.match", "generated:SequenceBase.match.Bounds_Spec(',')"),
  ("Fortran2003.Char_Literal_Constant.match", "1541fb462d101246"),
  ("Fortran2003.Char_Literal_Constant.tostr", "d557575c61174d1c"),
  ("Fortran2003.Complex_Literal_Constant.match", "da7c1c237cb474c5"),
  ("Fortran2003.Complex_Literal_Constant.tostr", "4b48087c4babebde"),
  ("Fortran2003.Component_Spec.match", "bbc2064804d32fa6"),
  ("Fortran2003.Component_Spec_List.match", "generated:SequenceBase.match.Component_Spec(',')"),
  ("Fortran2003.Data_Pointer_Object.match", "bf2c5990cdb1d108"),
  ("Fortran2003.Data_Ref.match", "97288483c2be0a9d"),
  ("Fortran2003.Derived_Type_Spec.match", "6aa35988681d6da9"),
  ("Fortran2003.Function_Reference.match", "216b4c01d4a689ab"),
  ("Fortran2003.Hex_Constant.match", "3e049e169b787b10"),
  ("Fortran2003.Int_Literal_Constant.match", "eeca59f4fe8250b9"),
  ("Fortran2003.Intrinsic_Function_Reference.match", "06c30310c1788f22"),
  ("Fortran2003.Intrinsic_Name.match", "9066595856b378ed"),
  ("Fortran2003.Logical_Literal_Constant.match", "94720de10d216039"),
  ("Fortran2003.Name.match", "84a8ebf46c2b163e"),
  ("Fortran2003.Octal_Constant.match", "7ef4898db6191942"),
  ("Fortran2003.Parenthesis.match", "978fd548c875e410"),
  ("Fortran2003.Part_Ref.match", "be57ff954f28a913"),
  ("Fortran2003.Pointer_Assignment_Stmt.match", "ec5e1aefdc3cb732"),
  ("Fortran2003.Pointer_Assignment_Stmt.tostr", "997b3d2ae0a4e57c"),
  ("Fortran2003.Proc_Component_Ref.match", "f7a047ff7945b9a6"),
  ("Fortran2003.Procedure_Designator.match", "e436b297491a2beb"),
  ("Fortran2003.Real_Literal_Constant.match", "d2402b2f5a8b9dbf"),
  ("Fortran2003.Section_Subscript_List.match", "generated:SequenceBase.match.Section_Subscript(',')"),
  ("Fortran2003.Signed_Int_Literal_Constant.match", "d48c2eddead856b2"),
  ("Fortran2003.Signed_Real_Literal_Constant.match", "1a6725c4b173d2e5"),
  ("Fortran2003.Structure_Constructor.match", "cb93d18b7321b603"),
  ("Fortran2003.Subscript_Triplet.match", "91deec2856e7dd0e"),
  ("Fortran2003.Subscript_Triplet.tostr", "0a69c7e6d6f0e722"),
  ("Fortran2003.Substring.match", "7242dac9ddfe5ddd"),
  ("Fortran2003.Substring_Range.match", "cbd5a2f80eb9a2e0"),
  ("Fortran2003.Type_Name.match", "2c126a858e8970ea"),
  ("Fortran2003.Type_Param_Inquiry.match", "15e3d8020e283893"),
  ("Fortran2008.<module>.class_generator_loop", "bc6ac5ddb3d91692"),
  ("Fortran2008.Actual_Arg_Spec_List.match", "generated:SequenceBase.match.Actual_Arg_Spec(',')"),
  ("parser.ParserFactory._setup", "1be94223669f661a"),
  ("parser.ParserFactory.create", "81582828745d4341"),
  ("pattern_tools.Pattern.lsplit", "1337adf8e1c37421"),
  ("pattern_tools.Pattern.rsplit", "cb32f015c2288f04"),
  ("utils.Base.__new__", "b1803e1bd63b9277"),
  ("utils.Base.init", "66d1e2f29d6560f9"),
  ("utils.BinaryOpBase.match", "4ed358c598b6b9f3"),
  ("utils.BinaryOpBase.tostr", "2dcbb0cca9f6a9fc"),
  ("utils.BracketBase.match", "b0ea600bc1dabfd6"),
  ("utils.BracketBase.tostr", "54fe27c24dccb195"),
  ("utils.CallBase.match", "2a52e65f27bd087d"),
  ("utils.CallBase.tostr", "2e4b80dd7de9ebec"),
  ("utils.KeywordValueBase.match", "87d0f3faee19f12a"),
  ("utils.KeywordValueBase.tostr", "90c4fe9165b5ccd2"),
  ("utils.NumberBase.match", "7609a22837165e17"),
  ("utils.NumberBase.tostr", "92f3072b90e8aa58"),
  ("utils.STRINGBase.match", "db96f61a290af301"),
  ("utils.SeparatorBase.match", "e2dc3cfb930ed926"),
  ("utils.SeparatorBase.tostr", "066df08a1d4fe288"),
  ("utils.SequenceBase.init", "0acf50b1aec1448d"),
  ("utils.SequenceBase.match", "f9401adaa8568a22"),
  ("utils.SequenceBase.tostr", "c3c2e7d5da0b497d"),
  ("utils.StringBase.init", "661def2a8e35ac55"),
  ("utils.StringBase.match", "fbffdebfc59d2876"),
  ("utils.StringBase.tostr", "3a80c79b95abcbb0")
]

/-- `<re flags>:<sha1[:16] of the pattern text>` of the literal-constant regexes the hand scanners were
    written against -/
def patterns : List (String × String) := [
  ("abs_name", "34:4f6abf6596f91e4e"),
  ("abs_int_literal_constant_named", "34:0b3bff6699dd68fb"),
  ("abs_signed_int_literal_constant_named", "34:9262b0615160c0a8"),
  ("abs_real_literal_constant_named", "34:1ee72020245b0606"),
  ("abs_signed_real_literal_constant_named", "34:7022dc475f4b3b90"),
  ("abs_logical_literal_constant_named", "34:c3ff7c38a2441e0d"),
  ("abs_a_n_char_literal_constant_named1", "34:837083d2e89a9bce"),
  ("abs_a_n_char_literal_constant_named2", "34:3bc21347298254e1"),
  ("abs_binary_constant", "34:f180c3e65b5afcc8"),
  ("abs_octal_constant", "34:e0463f9639168d16"),
  ("abs_hex_constant", "34:1364fee5a4058048"),
  ("abs_complex_literal_constant", "34:bf2414e83593afe8"),
  ("abs_intrinsic_type_name", "34:be993f45a8124a89")
]

/-- the pattern texts those digests were taken from -/
def patternText : List (String × String) := [
  ("abs_name", "\\A[A-Z][\\w$]*\\Z"),
  ("abs_int_literal_constant_named", "\\A(?P<value>\\d+)\\s*(_\\s*(?P<kind_param>(\\d+|[A-Z][\\w$]*)))?\\Z"),
  ("abs_signed_int_literal_constant_named", "\\A(?P<value>([+-])?\\s*\\d+)\\s*(_\\s*(?P<kind_param>(\\d+|[A-Z][\\w$]*)))?\\Z"),
  ("abs_real_literal_constant_named", "\\A(?P<value>((\\d+\\s*[.]\\s*(\\d+)?|[.]\\s*\\d+)\\s*([ED]\\s*([+-])?\\s*\\d+)?|\\d+\\s*[ED]\\s*([+-])?\\s*\\d+))\\s*(_\\s*(?P<kind_param>(\\d+|[A-Z][\\w$]*)))?\\Z"),
  ("abs_signed_real_literal_constant_named", "\\A(?P<value>([+-])?\\s*((\\d+\\s*[.]\\s*(\\d+)?|[.]\\s*\\d+)\\s*([ED]\\s*([+-])?\\s*\\d+)?|\\d+\\s*[ED]\\s*([+-])?\\s*\\d+))\\s*(_\\s*(?P<kind_param>(\\d+|[A-Z][\\w$]*)))?\\Z"),
  ("abs_logical_literal_constant_named", "\\A(?P<value>[.]\\s*(TRUE|FALSE)\\s*[.])\\s*(_\\s*(?P<kind_param>(\\d+|[A-Z][\\w$]*)))?\\Z"),
  ("abs_a_n_char_literal_constant_named1", "\\A((?P<kind_param>(\\d+|[A-Z][\\w$]*))\\s*_)?\\s*(?P<value>('\\s*(\\w)*\\s*')+)\\Z"),
  ("abs_a_n_char_literal_constant_named2", "\\A((?P<kind_param>(\\d+|[A-Z][\\w$]*))\\s*_)?\\s*(?P<value>(\"\\s*(\\w)*\\s*\")+)\\Z"),
  ("abs_binary_constant", "\\AB\\s*('[01]+'|\"[01]+\")\\Z"),
  ("abs_octal_constant", "\\AO\\s*('[0-7]+'|\"[0-7]+\")\\Z"),
  ("abs_hex_constant", "\\AZ\\s*('[\\dA-F]+'|\"[\\dA-F]+\")\\Z"),
  ("abs_complex_literal_constant", "\\A\\(\\s*((([+-])?\\s*\\d+\\s*(_\\s*(\\d+|[A-Z][\\w$]*))?|([+-])?\\s*((\\d+\\s*[.]\\s*(\\d+)?|[.]\\s*\\d+)\\s*([ED]\\s*([+-])?\\s*\\d+)?\\s*(_\\s*(\\d+|[A-Z][\\w$]*))?|\\d+\\s*[ED]\\s*([+-])?\\s*\\d+\\s*(_\\s*(\\d+|[A-Z][\\w$]*))?))|[A-Z][\\w$]*)\\s*,\\s*((([+-])?\\s*\\d+\\s*(_\\s*(\\d+|[A-Z][\\w$]*))?|([+-])?\\s*((\\d+\\s*[.]\\s*(\\d+)?|[.]\\s*\\d+)\\s*([ED]\\s*([+-])?\\s*\\d+)?\\s*(_\\s*(\\d+|[A-Z][\\w$]*))?|\\d+\\s*[ED]\\s*([+-])?\\s*\\d+\\s*(_\\s*(\\d+|[A-Z][\\w$]*))?))|[A-Z][\\w$]*)\\s*\\)\\Z"),
  ("abs_intrinsic_type_name", "\\A(INTEGER|REAL|COMPLEX|LOGICAL|CHARACTER|DOUBLE\\s*COMPLEX|DOUBLE\\s*PRECISION|BYTE)\\Z")
]

/-- alternatives of classes of the layer that are knowingly NOT classes of the model -/
def unmodelledSubclasses2003 : List (String × String) := []
def unmodelledSubclasses2008 : List (String × String) := []

end Pins
end Fp.Primary
