import FparserModel.Proofs.ExprLex2Chk3

/-! `strip` on the text of a segment list = trimming its first and last gap -/
set_option linter.unusedSimpArgs false
set_option linter.unusedVariables false
namespace Fp.ExprLex
open Fp Fp.Expr

theorem endsBlank_eq (u : Str) : endsBlank u = startsBlank u.reverse := by
  unfold endsBlank startsBlank
  rw [← List.head?_reverse]
  cases u.reverse <;> rfl

theorem startsBlank_dropWhile (l : Str) : startsBlank (l.dropWhile isSpace) = false := by
  cases h : l.dropWhile isSpace with
  | nil => rfl
  | cons c t => exact dropWhile_head _ c t h

theorem startsBlank_lstrip (s : Str) : startsBlank (lstrip s) = false := startsBlank_dropWhile s

theorem endsBlank_rstrip (s : Str) : endsBlank (rstrip s) = false := by
  rw [endsBlank_eq]; unfold rstrip; rw [List.reverse_reverse]; exact startsBlank_dropWhile _

theorem rstrip_of_not_endsBlank (t : Str) (h : endsBlank t = false) : rstrip t = t := by
  rw [endsBlank_eq] at h
  unfold rstrip
  have := lstrip_of_not_startsBlank _ h
  unfold lstrip at this
  rw [this, List.reverse_reverse]

theorem allBlank_takeWhile : ∀ (l : Str), allBlank (l.takeWhile isSpace) = true
  | [] => rfl
  | c :: t => by
    by_cases hc : isSpace c = true
    · simp only [List.takeWhile_cons, hc, ↓reduceIte, allBlank, List.all_cons, Bool.true_and]
      exact allBlank_takeWhile t
    · simp [List.takeWhile_cons, hc, allBlank]

theorem allBlank_reverse (l : Str) : allBlank l.reverse = allBlank l := by simp [allBlank]

theorem lstrip_decomp (s : Str) : ∃ a, s = a ++ lstrip s ∧ allBlank a = true :=
  ⟨s.takeWhile isSpace, (List.takeWhile_append_dropWhile).symm, allBlank_takeWhile s⟩

theorem rstrip_decomp (s : Str) : ∃ b, s = rstrip s ++ b ∧ allBlank b = true := by
  refine ⟨(s.reverse.takeWhile isSpace).reverse, ?_, ?_⟩
  · unfold rstrip
    rw [← List.reverse_append, List.takeWhile_append_dropWhile, List.reverse_reverse]
  · rw [allBlank_reverse]; exact allBlank_takeWhile _

theorem lstrip_blank_app {a : Str} (t : Str) (h : allBlank a = true) : lstrip (a ++ t) = lstrip t :=
  allBlank_dropSp t h

theorem rstrip_app_of_end {u : Str} (v : Str) (hne : u ≠ []) (he : endsBlank u = false) :
    rstrip (u ++ v) = u ++ rstrip v := by
  unfold rstrip
  rw [List.reverse_append]
  by_cases hv : v.reverse.dropWhile isSpace = []
  · rw [dw_app_nil isSpace _ _ hv, hv]
    have := rstrip_of_not_endsBlank u he
    unfold rstrip at this
    rw [this]; simp
  · rw [(dw_app_ne isSpace _ _ hv).1]; simp

theorem dw_ne_of_head_rev (c : Char) (t : Str) (hc : isSpace c = false) :
    (c :: t).reverse.dropWhile isSpace ≠ [] := by
  rw [List.reverse_cons]
  by_cases h : t.reverse.dropWhile isSpace = []
  · rw [dw_app_nil isSpace _ _ h]; simp [hc]
  · rw [(dw_app_ne isSpace _ _ h).1]; simp

theorem rstrip_app_of_start (a : Str) {t : Str} (hne : t ≠ []) (hs : startsBlank t = false) :
    rstrip (a ++ t) = a ++ rstrip t := by
  cases t with
  | nil => exact absurd rfl hne
  | cons c t' =>
    simp only [startsBlank] at hs
    unfold rstrip
    rw [List.reverse_append, (dw_app_ne isSpace _ _ (dw_ne_of_head_rev c t' hs)).1]
    simp

theorem strip_rstrip (s : Str) : strip (rstrip s) = strip s := by
  unfold strip
  rw [rstrip_of_not_endsBlank _ (endsBlank_rstrip s)]

theorem strip_lstrip (s : Str) : strip (lstrip s) = strip s := by
  obtain ⟨a, hs, ha⟩ := lstrip_decomp s
  by_cases ht : lstrip s = []
  · rw [ht]
    have : allBlank s = true := by rw [hs, ht, List.append_nil]; exact ha
    rw [(strip_nil_iff s).mpr this]; rfl
  · conv => rhs; rw [hs]
    unfold strip
    rw [rstrip_app_of_start a ht (startsBlank_lstrip s), lstrip_blank_app _ ha]

theorem endsBlank_lstrip (s : Str) (h : lstrip s ≠ []) : endsBlank (lstrip s) = endsBlank s := by
  unfold endsBlank lstrip at *
  rw [dw_getLast isSpace s h]

theorem startsBlank_rstrip (s : Str) (h : rstrip s ≠ []) : startsBlank (rstrip s) = startsBlank s := by
  obtain ⟨b, hs, _⟩ := rstrip_decomp s
  conv => rhs; rw [hs]
  rw [startsBlank_append h]

theorem rstrip_ne_of_strip {s : Str} (h : strip s ≠ []) : rstrip s ≠ [] := by
  intro h0; apply h; unfold strip; rw [h0]; rfl

theorem lstrip_ne_of_strip {s : Str} (h : strip s ≠ []) : lstrip s ≠ [] := by
  intro h0
  apply h
  rw [← strip_lstrip, h0]; rfl

/-! ### trimming segment lists -/

def mapFirst (f : Str → Str) : List Seg → List Seg
  | .gap s :: rest => .gap (f s) :: rest
  | x => x

def mapLast (f : Str → Str) : List Seg → List Seg
  | [] => []
  | [.gap s] => [.gap (f s)]
  | x :: y :: rest => x :: mapLast f (y :: rest)
  | [x] => [x]

theorem alt_mapFirst (f : Str → Str) (sg : List Seg) : alt (mapFirst f sg) = alt sg := by
  cases sg with
  | nil => rfl
  | cons x r => cases x with
    | gap s => exact alt_gap_irrel _ _ _
    | word _ _ => rfl

theorem alt_mapLast (f : Str → Str) : ∀ (sg : List Seg), alt (mapLast f sg) = alt sg
  | [] => rfl
  | [.gap s] => rfl
  | [.word _ _] => rfl
  | .gap s :: .word k m :: rest => by
    cases rest with
    | nil => rfl
    | cons z r =>
      have := alt_mapLast f (z :: r)
      simp only [mapLast, alt] at this ⊢
      exact this
  | .gap s :: .gap _ :: rest => by cases rest <;> simp [mapLast, alt]
  | .word _ _ :: y :: rest => by simp [mapLast, alt]

theorem alt_last : ∀ (sg : List Seg), alt sg = true → ∃ A s, sg = A ++ [.gap s]
  | [.gap s], _ => ⟨[], s, rfl⟩
  | .gap s :: .word k m :: rest, h => by
    obtain ⟨A, s', e⟩ := alt_last rest (by simpa [alt] using h)
    exact ⟨.gap s :: .word k m :: A, s', by rw [e]; rfl⟩
  | [], h => by simp [alt] at h
  | .word _ _ :: _, h => by simp [alt] at h
  | .gap _ :: .gap _ :: _, h => by simp [alt] at h

theorem mapLast_snoc (f : Str → Str) (s : Str) : ∀ (A : List Seg),
    mapLast f (A ++ [.gap s]) = A ++ [.gap (f s)]
  | [] => rfl
  | [x] => by simp [mapLast]
  | x :: y :: A => by
    have := mapLast_snoc f s (y :: A)
    simp only [List.cons_append, mapLast] at this ⊢
    rw [this]

theorem alt_split : ∀ (L : List Seg) (k : TK) (m : Str) (R : List Seg),
    alt (L ++ .word k m :: R) = true → alt L = true ∧ alt R = true
  | [], _, _, _, h => by simp [alt] at h
  | [.gap s], _, _, _, h => by simpa [alt] using h
  | .gap s :: .word k' m' :: L', k, m, R, h => by
    simp only [List.cons_append, alt] at h ⊢
    exact alt_split L' k m R h
  | .word _ _ :: _, _, _, _, h => by simp [alt] at h
  | .gap _ :: .gap _ :: _, _, _, _, h => by simp [alt] at h

end Fp.ExprLex
