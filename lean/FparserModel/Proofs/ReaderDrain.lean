import FparserModel.Proofs.ReaderChunks

/-!
# ReaderDrain — from `_next` steps to `drain`; INCLUDE lines that resolve nowhere (C11–C13)
-/
namespace Fp.Reader
open Fp

/-- at the end of the source the comment-skipping loop stops, whatever the fuel -/
theorem After_eof (r : Rd) (hfifo : r.fifo = []) (h1 : r.filo = []) (h2 : r.closed = false)
    (hsrc : r.src = []) : After r 1 (.stop, { r with closed := true }) := by
  intro n hn
  obtain ⟨m, rfl⟩ : ∃ m, n = m + 1 := ⟨n - 1, by omega⟩
  obtain ⟨src, closed, filo, fifo, lc, linesRev, isFree, ic, omp, dirs⟩ := r
  simp only [] at hfifo h1 h2 hsrc
  subst hfifo h1 h2 hsrc
  unfold nextRaw popOrRead getSourceItem getSingleLine
  simp [pull]

/-- the text of the item is not an INCLUDE line -/
def NoInc (x : Item) : Prop :=
  ∀ text l n s e, x.lineView = some (text, l, n, s, e) → includeRe text = none

theorem NoInc.comment (t : Str) (s e : Nat) (b : Bool) : NoInc (.comment t s e b) :=
  fun _ _ _ _ _ h => by simp [Item.lineView] at h

/-- `next` of a reader without active include reader, for an item that is not an INCLUDE line -/
theorem getItem_of_next1 (d : Nat) (fs : Fs) (r r1 : Rd) (x : Item) (h : next1 r = (.ok x, r1))
    (hn : NoInc x) : getItem (d + 1) fs [r] = (.ok x, [r1]) := by
  unfold getItem next nextChain nextMain
  simp only [h]
  cases hv : x.lineView with
  | none => rfl
  | some v =>
    obtain ⟨text, l, n, s, e⟩ := v
    simp only [hn text l n s e hv, Option.isSome_none, Bool.false_eq_true, if_false]

/-- C13 `include_missing_kept`: an INCLUDE line whose file is found nowhere (not in the include
    directories, or the path is not a regular file) is delivered as the ordinary `Line` it is, at
    its position, and no include reader is started. -/
theorem getItem_include_missing (d : Nat) (fs : Fs) (r r1 : Rd) (x : Item) (text : Str)
    (l : Option Nat) (n : Option Str) (s e : Nat) (h : next1 r = (.ok x, r1))
    (hv : x.lineView = some (text, l, n, s, e))
    (hm : resolveInclude fs r1 text = .missing) : getItem (d + 1) fs [r] = (.ok x, [r1]) := by
  unfold getItem next nextChain nextMain
  simp only [h, hv, hm, ite_self]

/-- when does an INCLUDE line resolve nowhere: the path finally tested is not a regular file -/
theorem resolveInclude_missing (fs : Fs) (r : Rd) (text : Str)
    (h : ∀ a b ls, fs.get (searchPath fs (includeFilename text) r.includeDirs (includeFilename text))
      ≠ some (.file a b ls)) : resolveInclude fs r text = .missing := by
  unfold resolveInclude
  simp only []

theorem drains_of_steps (d : Nat) (fs : Fs) {r rm : Rd} {xs : List Item} (rf : Rd)
    (hs : Steps r xs rm) (hni : ∀ x ∈ xs, NoInc x) (hstop : next1 rm = (.stop, rf))
    (hex : exhausted [rf] = true) : Drains (d + 1) fs [r] (evItems xs) [rf] := by
  induction hs with
  | nil r =>
    refine ⟨1, ?_⟩
    unfold drainEv getItem next nextChain nextMain
    simp only [hstop, errToStop, hex, if_true, evItems, List.map_nil]
  | cons h _ ih =>
    exact Drains_cons (getItem_of_next1 d fs _ _ _ h (hni _ List.mem_cons_self))
      (ih (fun y hy => hni y (List.mem_cons_of_mem _ hy)) hstop)

/-- C11/C12: a source that consists of chunks is drained to exactly `chunkItems` -/
theorem drains_chunks (d : Nat) (fs : Fs) (o : Bool) (cs : List Chunk) (r : Rd)
    (hok : ∀ c ∈ cs, c.ok o) (h0 : r.omp = o) (hfifo : r.fifo = []) (h1 : r.filo = [])
    (h2 : r.closed = false) (h3 : r.isFree = true) (hsrc : r.src = srcOf cs)
    (hni : ∀ x ∈ chunkItems r.ignoreComments r.linecount cs, NoInc x) :
    Drains (d + 1) fs [r] (evItems (chunkItems r.ignoreComments r.linecount cs))
      [{ r with src := [], linecount := r.linecount + totalLines cs,
                linesRev := ((srcOf cs).map cook).reverse ++ r.linesRev, closed := true }] := by
  have hend := endState_fields cs r [] hfifo (by simpa using hsrc)
  have hafter : After (endState r cs []) 1 (.stop, { endState r cs [] with closed := true }) :=
    After_eof _ (by rw [hend]; exact hfifo) (by rw [hend]; exact h1) (by rw [hend]; exact h2)
      (by rw [hend])
  have hruns := runs_chunks o cs r [] _ hok h0 hfifo h1 h2 h3 (by simpa using hsrc)
    ⟨endState r cs [], 1, Steps.nil _, hafter, by simp [nextRawFuel]⟩
  obtain ⟨rm, k, hsteps, ha, hk⟩ := hruns
  have hstop : next1 rm = (.stop, { endState r cs [] with closed := true }) := by
    have hraw := ha (nextRawFuel rm) hk
    rw [next1_of_nextRaw_other rm (fun it => by rw [hraw]; simp)]
    exact hraw
  have := drains_of_steps d fs _ hsteps hni hstop
    (by rw [hend]; simp [exhausted, h1, hfifo])
  rw [hend] at this
  exact this

end Fp.Reader
