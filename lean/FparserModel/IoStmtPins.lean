/-!
# IoStmtPins - the fingerprints FparserModel/IoStmt.lean was validated against

Hand-maintained (written by `python -m fv.extract_iostmt --write-pins` AFTER the mirror of an
edited method has been re-validated; never as part of a normal build).
Generated/IoStmtTables.lean proves that the live fingerprints equal these.
-/
namespace Fp.IoStmt

/-- `live = expected`; the message is part of the statement so that it shows in the error -/
def Pinned (_msg : String) (live expected : Option (String × String)) : Prop := live = expected
instance (m : String) (a b : Option (String × String)) : Decidable (Pinned m a b) :=
  inferInstanceAs (Decidable (a = b))
def PinnedS (_msg : String) (live expected : String) : Prop := live = expected
instance (m : String) (a b : String) : Decidable (PinnedS m a b) :=
  inferInstanceAs (Decidable (a = b))
def PinnedN (_msg : String) (live expected : Nat) : Prop := live = expected
instance (m : String) (a b : Nat) : Decidable (PinnedN m a b) :=
  inferInstanceAs (Decidable (a = b))
def PinnedT (_msg : String) (live expected : List (String × Nat)) : Prop := live = expected
instance (m : String) (a b : List (String × Nat)) : Decidable (PinnedT m a b) :=
  inferInstanceAs (Decidable (a = b))

namespace Pins

def expected : List (String × String) := [
  ("Fortran2003.Actual_Arg_Spec.match", "43ec6543efbd0b36"),
  ("Fortran2003.Actual_Arg_Spec_List.match", "generated"),
  ("Fortran2003.Alloc_Opt.match", "10d76311b7de6afc"),
  ("Fortran2003.Alloc_Opt_List.match", "generated"),
  ("Fortran2003.Allocate_Stmt.alloc_opt_list", "00bbcd6009df409a"),
  ("Fortran2003.Allocate_Stmt.match", "0f2e58b9e97f1561"),
  ("Fortran2003.Allocate_Stmt.tostr", "5708f2240da51fdd"),
  ("Fortran2003.Allocation.match", "09cbeb7779c844a8"),
  ("Fortran2003.Allocation_List.match", "generated"),
  ("Fortran2003.Arithmetic_If_Stmt.match", "7c2d552d540e2f0c"),
  ("Fortran2003.Arithmetic_If_Stmt.tostr", "e4b9cf8fba18f6e8"),
  ("Fortran2003.Call_Stmt.match", "33e7b071e78f4436"),
  ("Fortran2003.Call_Stmt.tostr", "2697e4931d108db2"),
  ("Fortran2003.Case_Selector.match", "ccd6835286cbd963"),
  ("Fortran2003.Case_Selector.tostr", "3de0976d4e16b80e"),
  ("Fortran2003.Case_Stmt.match", "df3632a7ddd4b3cc"),
  ("Fortran2003.Case_Stmt.tostr", "d453a9e36ce4830c"),
  ("Fortran2003.Case_Value_Range.match", "4900364d44576198"),
  ("Fortran2003.Case_Value_Range_List.match", "generated"),
  ("Fortran2003.Close_Spec.match", "bc711102ddc2b162"),
  ("Fortran2003.Close_Spec_List.match", "generated"),
  ("Fortran2003.Close_Stmt.match", "9c32402fbf3148aa"),
  ("Fortran2003.Computed_Goto_Stmt.match", "50f0bce50933ce46"),
  ("Fortran2003.Computed_Goto_Stmt.tostr", "7fc3b86604c6b503"),
  ("Fortran2003.Connect_Spec._keyword_value_list", "6b15a22bfd9b30b6"),
  ("Fortran2003.Connect_Spec.match", "aefc26a20494f106"),
  ("Fortran2003.Connect_Spec_List.match", "generated"),
  ("Fortran2003.Control_Edit_Desc.match", "86019047b7144529"),
  ("Fortran2003.Control_Edit_Desc.tostr", "c75fa933cc8a62e9"),
  ("Fortran2003.Dealloc_Opt.match", "f2d8fcbc643f47ad"),
  ("Fortran2003.Dealloc_Opt_List.match", "generated"),
  ("Fortran2003.Deallocate_Stmt.match", "221a23191f7bd464"),
  ("Fortran2003.Deallocate_Stmt.tostr", "d6aac214dc935717"),
  ("Fortran2003.Else_If_Stmt.match", "72a1f5586fa6615f"),
  ("Fortran2003.Else_If_Stmt.tostr", "aa44fae99acda0c8"),
  ("Fortran2003.Forall_Construct_Stmt.match", "3ee38bb991a35f62"),
  ("Fortran2003.Forall_Header.match", "8521585802f1dbef"),
  ("Fortran2003.Forall_Header.tostr", "2842650c6702e002"),
  ("Fortran2003.Forall_Stmt.match", "1deaeaf3fcafe855"),
  ("Fortran2003.Forall_Stmt.tostr", "44b893fc87227e39"),
  ("Fortran2003.Forall_Triplet_Spec.match", "5c201f7f72ab2b66"),
  ("Fortran2003.Forall_Triplet_Spec.tostr", "f7a4c34f6a72e479"),
  ("Fortran2003.Forall_Triplet_Spec_List.match", "generated"),
  ("Fortran2003.Format_Item.match", "a4af5fdd219ce38f"),
  ("Fortran2003.Format_Item.tostr", "96d2809ac9a41de0"),
  ("Fortran2003.Format_Item_List.match", "d87748eb0270ac94"),
  ("Fortran2003.Format_Specification.match", "6c05e85d5602bfd5"),
  ("Fortran2003.Format_Stmt.match", "42ba1e43c3dd6de0"),
  ("Fortran2003.Goto_Stmt.match", "b0b12550296594e8"),
  ("Fortran2003.Goto_Stmt.tostr", "46bd1b63b21c003a"),
  ("Fortran2003.If_Stmt.action_stmt_cls", "3e4d7616608fcd86"),
  ("Fortran2003.If_Stmt.match", "f4ff2a602e90f912"),
  ("Fortran2003.If_Stmt.tostr", "7692b1a200c8415d"),
  ("Fortran2003.If_Then_Stmt.match", "fc3c41e0c6c14959"),
  ("Fortran2003.If_Then_Stmt.tostr", "44c5ce95496bbe57"),
  ("Fortran2003.Inquire_Spec.match", "ebcd8c4a70f796e9"),
  ("Fortran2003.Inquire_Spec_List.match", "generated"),
  ("Fortran2003.Inquire_Stmt.match", "c2afe32cff545b81"),
  ("Fortran2003.Inquire_Stmt.tostr", "17585f3942bdf8ea"),
  ("Fortran2003.Io_Control_Spec.match", "862975c1e7874a44"),
  ("Fortran2003.Io_Control_Spec_List.match", "b5eba79f45dce3f5"),
  ("Fortran2003.Label_Do_Stmt.loop_control_cls", "63ca726b587ab235"),
  ("Fortran2003.Label_Do_Stmt.match", "84eaa59b332b006c"),
  ("Fortran2003.Label_Do_Stmt.tostr", "9236918be99abd72"),
  ("Fortran2003.Loop_Control.match", "33734dd012eb807f"),
  ("Fortran2003.Loop_Control.tostr", "fa81143b1b5838be"),
  ("Fortran2003.Nonlabel_Do_Stmt.loop_control_cls", "63ca726b587ab235"),
  ("Fortran2003.Nonlabel_Do_Stmt.match", "724f209aef1ff58d"),
  ("Fortran2003.Nullify_Stmt.match", "b9d44a3695f8b9aa"),
  ("Fortran2003.Open_Stmt.match", "f348501f31efdbf7"),
  ("Fortran2003.Print_Stmt.match", "1495627d5998ee1e"),
  ("Fortran2003.Print_Stmt.tostr", "a4b32a2433f45a58"),
  ("Fortran2003.Read_Stmt.match", "3d892cfe83e517ab"),
  ("Fortran2003.Read_Stmt.tostr", "4339379c2d7bec94"),
  ("Fortran2003.Select_Case_Stmt.match", "03110563d1756e97"),
  ("Fortran2003.Select_Case_Stmt.tostr", "af10192a0753c057"),
  ("Fortran2003.Stop_Stmt.match", "9460e2905a13aebc"),
  ("Fortran2003.Where_Stmt.match", "633d14163dafc346"),
  ("Fortran2003.Where_Stmt.tostr", "70836f303ba8e30d"),
  ("Fortran2003.Write_Stmt.match", "5d3db8a68a5d94ac"),
  ("Fortran2003.Write_Stmt.tostr", "86d9014041fdf3f6"),
  ("Fortran2003.skip_digits", "ab5f2a70d656c965"),
  ("Fortran2008.Actual_Arg_Spec_List.match", "generated"),
  ("Fortran2008.Alloc_Opt_List.match", "generated"),
  ("Fortran2008.Allocate_Stmt.alloc_opt_list", "a33cf3ca59b1c2c9"),
  ("Fortran2008.Allocation_List.match", "generated"),
  ("Fortran2008.Connect_Spec._keyword_value_list", "6d48fda052f4ae4e"),
  ("Fortran2008.Connect_Spec_List.match", "generated"),
  ("Fortran2008.Error_Stop_Stmt.match", "819ec574d3d235c6"),
  ("Fortran2008.Format_Item.match", "bd014ea3cc3f933a"),
  ("Fortran2008.Format_Item_List.match", "generated"),
  ("Fortran2008.If_Stmt.action_stmt_cls", "2b0ab5280f9bf89c"),
  ("Fortran2008.Label_Do_Stmt.loop_control_cls", "da58d33f2e277e58"),
  ("Fortran2008.Loop_Control.match", "f8304e8e81825117"),
  ("Fortran2008.Loop_Control.tostr", "0128d5b41665c4b9"),
  ("Fortran2008.Nonlabel_Do_Stmt.loop_control_cls", "63ca726b587ab235"),
  ("Fortran2008.Open_Stmt.match", "70f5e5c8c0f0c825"),
  ("utils.Base.__new__", "b1803e1bd63b9277"),
  ("utils.Base.init", "66d1e2f29d6560f9"),
  ("utils.BracketBase.tostr", "54fe27c24dccb195"),
  ("utils.CallBase.tostr", "2e4b80dd7de9ebec"),
  ("utils.KeywordValueBase.match", "87d0f3faee19f12a"),
  ("utils.KeywordValueBase.tostr", "90c4fe9165b5ccd2"),
  ("utils.SeparatorBase.tostr", "066df08a1d4fe288"),
  ("utils.SequenceBase.init", "0acf50b1aec1448d"),
  ("utils.SequenceBase.tostr", "c3c2e7d5da0b497d"),
  ("utils.WORDClsBase.tostr", "af2afdcf9063c31a")
]

def labelPattern : String := "\\d{1,5}"
def hollerithPattern : String := "^[1-9][0-9 ]*[hH]"

end Pins
end Fp.IoStmt
