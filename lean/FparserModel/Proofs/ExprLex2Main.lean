import FparserModel.Proofs.ExprLex2Ind
import FparserModel.Proofs.ExprLex2Render
import FparserModel.Props.Expr

/-! fuel, the token-level form of the `/=` side condition -/
set_option linter.unusedSimpArgs false
set_option linter.unusedVariables false
namespace Fp.ExprLex
open Fp Fp.Expr

/-- `cls(line)` on strings with a built-in fuel that is always enough (`parseS_fuel_enough`) -/
def parseS (k : Lv) (s : Str) : Option Ex := parseSF (k.rank + 13 * s.length + 1) k false s

/-- the token list has no `/=` -/
def noNeT (ts : List T) : Bool :=
  ts.all fun t => match t with
    | .op (.rel 1 false) _ => false
    | _ => true

theorem noNe_of_toks : ∀ (sg : List Seg) (g : Bool), noNeT (toksOf g sg) = true → noNe sg = true
  | [], _, _ => rfl
  | .gap s :: rest, g, h => by
    simp only [toksOf] at h
    have : noNe (.gap s :: rest) = noNe rest := by simp [noNe]
    rw [this]
    split at h
    · exact noNe_of_toks rest _ h
    · simp only [noNeT, List.all_cons, Bool.true_and] at h
      exact noNe_of_toks rest _ h
  | .word k m :: rest, g, h => by
    simp only [toksOf, noNeT, List.all_cons, Bool.and_eq_true] at h
    have hr := noNe_of_toks rest true h.2
    cases k
    case ne => simp [tokOf] at h
    all_goals (simp only [noNe, List.all_cons, Bool.true_and] at hr ⊢; exact hr)

theorem toksOf_length : ∀ (sg : List Seg) (g : Bool), wordsNB sg → (toksOf g sg).length ≤ (flat sg).length
  | [], _, _ => by simp [toksOf, flat_nil]
  | .gap s :: rest, g, hw => by
    simp only [toksOf, flat_cons, Seg.text, List.length_append]
    split
    · have := toksOf_length rest (g && s == []) hw; omega
    · rename_i hb
      have hs : 0 < s.length := by
        cases s with
        | nil => simp [strip, lstrip, rstrip] at hb
        | cons c t => simp
      have := toksOf_length rest (!endsBlank s) hw
      simp only [List.length_cons]; omega
  | .word k m :: rest, g, hw => by
    simp only [toksOf, flat_cons, Seg.text, List.length_append, List.length_cons]
    have hm : 0 < m.length := List.length_pos_iff.mpr hw.1.1
    have := toksOf_length rest true hw.2
    omega

end Fp.ExprLex
