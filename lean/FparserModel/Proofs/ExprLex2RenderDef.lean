import FparserModel.ExprLex

/-!
Rendering a token list of `Fp.Expr` to a text (definitions only; the theorems are in
`Proofs/ExprLex2Render.lean`): `lexExpr (renderStr N ts) = some ts`.
-/
namespace Fp.ExprLex
open Fp Fp.Expr

structure Names where
  atom : Nat → Str     -- spelling of operand number i
  dot : Nat → Str      -- the (upper-case) letters of defined operator number n

def relWord : Nat → Str
  | 0 => ['E','Q'] | 1 => ['N','E'] | 2 => ['L','T'] | 3 => ['L','E'] | 4 => ['G','T'] | _ => ['G','E']
def relSymS : Nat → Str
  | 0 => ['=','='] | 1 => ['/','='] | 2 => ['<'] | 3 => ['<','='] | 4 => ['>'] | _ => ['>','=']
def dotted (w : Str) : Str := '.' :: w ++ ['.']

def spellT (N : Names) : T → Str
  | .atom i false _ => N.atom i
  | .atom i true _ => if i = idOf ['T','R','U','E'] then dotted ['T','R','U','E'] else dotted ['F','A','L','S','E']
  | .op (.dot n) _ => dotted (N.dot n)
  | .op .eqv _ => dotted ['E','Q','V'] | .op .neqv _ => dotted ['N','E','Q','V']
  | .op .or _ => dotted ['O','R'] | .op .and _ => dotted ['A','N','D'] | .op .not _ => dotted ['N','O','T']
  | .op (.rel n true) _ => dotted (relWord n)
  | .op (.rel n false) _ => relSymS n
  | .op .concat _ => ['/','/'] | .op .plus _ => ['+'] | .op .minus _ => ['-']
  | .op .mul _ => ['*'] | .op .div _ => ['/'] | .op .pow _ => ['*','*']
  | .lp => ['('] | .rp => [')']

/-- one blank before every token that is not glued -/
def renderTail (N : Names) : List T → Str
  | [] => []
  | t :: rest => (if t.glued then [] else [' ']) ++ spellT N t ++ renderTail N rest
def renderStr (N : Names) : List T → Str
  | [] => []
  | t :: rest => spellT N t ++ renderTail N rest

def plainChar (c : Char) : Bool :=
  !(c == '.' || c == '*' || c == '/' || c == '+' || c == '-' || c == '=' || c == '<' || c == '>') && !isSpace c

def _root_.Fp.Expr.T.isPlain : T → Bool | .atom _ false _ => true | _ => false

/-- the token can be spelled and read back -/
def tokOK (N : Names) : T → Bool
  | .atom i false _ => N.atom i != [] && (N.atom i).all plainChar && idOf (N.atom i) == i
      && dotClass (upper (N.atom i)) == .other
  | .atom i true _ => i == idOf ['T','R','U','E'] || i == idOf ['F','A','L','S','E']
  | .op (.dot n) _ => N.dot n != [] && (N.dot n).all isAlpha && upper (N.dot n) == N.dot n
      && numOf (N.dot n) == n && dotClass (N.dot n) == .other
  | .op (.rel n _) _ => n < 6
  | .op _ _ => true
  | .lp | .rp => false

/-- the division sign `/` -/
def _root_.Fp.Expr.T.isDiv : T → Bool | .op .div _ => true | _ => false
/-- a word that begins with a single `/` not followed by `/`: `/` and `/=` -/
def _root_.Fp.Expr.T.slashFirst : T → Bool | .op .div _ => true | .op (.rel 1 false) _ => true | _ => false

/-- where tokens may touch: a glued token and its predecessor are one plain operand and one
operator word (in either order); two plain operands are never neighbours; a `/` is not
followed (after the blank) by `/` or `/=`, which `concat_op` (`[/]\s*[/]`) reads as `//` -/
def gluePairs : List T → Bool
  | t1 :: t2 :: rest =>
    (if t2.glued then (t1.isPlain != t2.isPlain) else !(t1.isPlain && t2.isPlain))
      && !(t1.isDiv && t2.slashFirst) && gluePairs (t2 :: rest)
  | _ => true
def glueOK : List T → Bool
  | [] => true
  | t :: rest => !t.glued && gluePairs (t :: rest)

/-- `gluePairs` when no token is glued: no two neighbouring plain operands, no `/` before `/`, `/=` -/
def spacedOK : List T → Bool
  | t1 :: t2 :: rest =>
    !(t1.isPlain && t2.isPlain) && !(t1.isDiv && t2.slashFirst) && spacedOK (t2 :: rest)
  | _ => true

end Fp.ExprLex
