import FparserModel.Proofs.SplitlineParen
/-!
`splitparen` and balance.  `Scan` / `sstep` is the specification-level reader of the
parenthesis structure of a text: which characters are *active* (not a backslash, not escaped by
a backslash, not inside quotes, not a quote) and the stack of closers still owed.  It carries no
items and no positions.  The predicates `flatB` / `openB` / `parenOK` talk about the stack after
every prefix of an item.
-/
namespace Fp.Splitline
open Fp

structure Scan where
  nb : Bool := false
  inq : Option Char := none
  stack : List Char := []
deriving Repr, DecidableEq

def sstep (pairs : List (Char × Char)) (s : Scan) (c : Char) : Scan :=
  if c == '\\' then { s with nb := !s.nb }
  else if s.nb then { s with nb := false }
  else match s.inq with
  | some q => if c == q then { s with inq := none } else s
  | none =>
    if c == '\'' || c == '"' then { s with inq := some c }
    else match closerOf pairs c with
    | some cl => { s with stack := cl :: s.stack }
    | none =>
      match s.stack with
      | top :: rest => if c == top then { s with stack := rest } else s
      | [] => s

def srun (pairs : List (Char × Char)) (s : Scan) (l : Str) : Scan := l.foldl (sstep pairs) s

@[simp] theorem srun_nil (pairs : List (Char × Char)) (s : Scan) : srun pairs s [] = s := rfl
@[simp] theorem srun_cons (pairs : List (Char × Char)) (s : Scan) (c : Char) (l : Str) :
    srun pairs s (c :: l) = srun pairs (sstep pairs s c) l := rfl
theorem srun_append (pairs : List (Char × Char)) (s : Scan) (a b : Str) :
    srun pairs s (a ++ b) = srun pairs (srun pairs s a) b := by simp [srun, List.foldl_append]
theorem srun_snoc (pairs : List (Char × Char)) (s : Scan) (a : Str) (c : Char) :
    srun pairs s (a ++ [c]) = sstep pairs (srun pairs s a) c := by simp [srun_append]

/-- the stack is empty after every prefix of `t` (the empty one included) -/
def flatB (pairs : List (Char × Char)) : Scan → Str → Bool
  | s, [] => s.stack.isEmpty
  | s, c :: t => s.stack.isEmpty && flatB pairs (sstep pairs s c) t

/-- the stack is non-empty after every non-empty prefix of `t` -/
def openB (pairs : List (Char × Char)) : Scan → Str → Bool
  | _, [] => true
  | s, c :: t => !(sstep pairs s c).stack.isEmpty && openB pairs (sstep pairs s c) t

theorem flatB_snoc (pairs : List (Char × Char)) (s : Scan) (t : Str) (c : Char) :
    flatB pairs s (t ++ [c]) = (flatB pairs s t && (srun pairs s (t ++ [c])).stack.isEmpty) := by
  induction t generalizing s with
  | nil => simp [flatB]
  | cons d t ih => simp [flatB, ih, Bool.and_assoc]

theorem openB_snoc (pairs : List (Char × Char)) (s : Scan) (t : Str) (c : Char) :
    openB pairs s (t ++ [c]) = (openB pairs s t && !(srun pairs s (t ++ [c])).stack.isEmpty) := by
  induction t generalizing s with
  | nil => simp [openB]
  | cons d t ih => simp [openB, ih, Bool.and_assoc]

/-- a `ParenString` item read from scan state `s`: it starts at depth 0, the stack is non-empty
    after every non-empty proper prefix and empty again exactly at its last character -/
def parenOK (pairs : List (Char × Char)) (s : Scan) (t : Str) : Prop :=
  s.stack = [] ∧ ∃ t' c, t = t' ++ [c] ∧ t' ≠ [] ∧ openB pairs s t' = true ∧
    (srun pairs s t).stack = []

def itemOK (pairs : List (Char × Char)) (s : Scan) : PItem → Prop
  | .plain t => flatB pairs s t = true
  | .paren t => parenOK pairs s t

/-- every item is well-formed w.r.t. the scan state reached at its start -/
def itemsOK (pairs : List (Char × Char)) : Scan → List PItem → Prop
  | _, [] => True
  | s, it :: r => itemOK pairs s it ∧ itemsOK pairs (srun pairs s it.str) r

theorem itemsOK_snoc (pairs : List (Char × Char)) (s : Scan) (l : List PItem) (it : PItem) :
    itemsOK pairs s (l ++ [it]) ↔ itemsOK pairs s l ∧ itemOK pairs (srun pairs s (pjoin l)) it := by
  induction l generalizing s with
  | nil => simp [itemsOK]
  | cons a l ih => simp [itemsOK, ih, srun_append, and_assoc]

def PState.scan (st : PState) : Scan := ⟨st.nb, st.inq, st.stack⟩

theorem parenStep_scan (pairs : List (Char × Char)) (st : PState) (c : Char) :
    (parenStep pairs st c).scan = sstep pairs st.scan c := by
  unfold parenStep sstep PState.scan
  repeat' split
  all_goals simp_all

/-- loop invariant of `splitparen` -/
structure PInv (pairs : List (Char × Char)) (st : PState) : Prop where
  items : itemsOK pairs {} st.items.reverse
  run : srun pairs (srun pairs {} (pjoin st.items.reverse)) st.cur.reverse = st.scan
  flat : st.stack = [] → flatB pairs (srun pairs {} (pjoin st.items.reverse)) st.cur.reverse = true
  opn : st.stack ≠ [] → (srun pairs {} (pjoin st.items.reverse)).stack = [] ∧ st.cur ≠ [] ∧
      openB pairs (srun pairs {} (pjoin st.items.reverse)) st.cur.reverse = true

theorem PInv_init (pairs : List (Char × Char)) : PInv pairs {} := by
  constructor <;> simp [itemsOK, PState.scan, flatB]


theorem PInv_append (pairs : List (Char × Char)) (st st' : PState) (c : Char) (inv : PInv pairs st)
    (hs : st'.scan = sstep pairs st.scan c) (hi : st'.items = st.items) (hc : st'.cur = c :: st.cur)
    (h1 : st.stack = [] → st'.stack = []) (h2 : st.stack ≠ [] → st'.stack ≠ []) : PInv pairs st' := by
  have hrun : srun pairs (srun pairs {} (pjoin st.items.reverse)) (st.cur.reverse ++ [c]) = st'.scan := by
    rw [srun_snoc, inv.run, hs]
  have hst : st'.scan.stack = st'.stack := rfl
  constructor
  · rw [hi]; exact inv.items
  · rw [hi, hc]; simpa using hrun
  · intro h
    rw [hi, hc, List.reverse_cons, flatB_snoc, hrun, hst, h]
    by_cases h0 : st.stack = []
    · simp [inv.flat h0]
    · exact absurd h (h2 h0)
  · intro h
    by_cases h0 : st.stack = []
    · exact absurd (h1 h0) h
    · obtain ⟨a, _, b⟩ := inv.opn h0
      rw [hi, hc, List.reverse_cons, openB_snoc, hrun, hst]
      refine ⟨a, by simp, ?_⟩
      simp [b, h]

theorem PInv_open (pairs : List (Char × Char)) (st st' : PState) (c : Char) (inv : PInv pairs st)
    (hs : st'.scan = sstep pairs st.scan c) (hi : st'.items = .plain st.cur.reverse :: st.items)
    (hc : st'.cur = [c]) (h1 : st.stack = []) (h2 : st'.stack ≠ []) : PInv pairs st' := by
  have hst : st'.scan.stack = st'.stack := rfl
  have hI : srun pairs {} (pjoin st'.items.reverse) = st.scan := by
    rw [hi]; simp [PItem.str, srun_append, inv.run]
  constructor
  · rw [hi, List.reverse_cons, itemsOK_snoc]
    exact ⟨inv.items, inv.flat h1⟩
  · rw [hI, hc]; simp [hs]
  · intro h; exact absurd h h2
  · intro _
    rw [hI, hc]
    refine ⟨h1, by simp, ?_⟩
    simp [openB, ← hs, hst, h2]

theorem PInv_close (pairs : List (Char × Char)) (st st' : PState) (c : Char) (inv : PInv pairs st)
    (hs : st'.scan = sstep pairs st.scan c) (hi : st'.items = .paren (c :: st.cur).reverse :: st.items)
    (hc : st'.cur = []) (h1 : st.stack ≠ []) (h2 : st'.stack = []) : PInv pairs st' := by
  have hst : st'.scan.stack = st'.stack := rfl
  obtain ⟨a, b, d⟩ := inv.opn h1
  have hrun : srun pairs (srun pairs {} (pjoin st.items.reverse)) (st.cur.reverse ++ [c]) = st'.scan := by
    rw [srun_snoc, inv.run, hs]
  have hI : srun pairs {} (pjoin st'.items.reverse) = st'.scan := by
    rw [hi]; simp [PItem.str, srun_append]; rw [← srun_snoc]; exact hrun
  constructor
  · rw [hi, List.reverse_cons, itemsOK_snoc]
    refine ⟨inv.items, a, st.cur.reverse, c, by simp, by simpa using b, d, ?_⟩
    rw [List.reverse_cons, hrun, hst, h2]
  · rw [hI, hc]; rfl
  · intro _; rw [hI, hc]; simp [flatB, hst, h2]
  · intro h; exact absurd h2 h

theorem PInv_step (pairs : List (Char × Char)) (st : PState) (c : Char) (inv : PInv pairs st) :
    PInv pairs (parenStep pairs st c) := by
  have hs := parenStep_scan pairs st c
  generalize h : parenStep pairs st c = st' at hs ⊢
  unfold parenStep at h
  repeat' split at h
  all_goals subst h
  all_goals first
    | exact PInv_append pairs st _ c inv hs rfl rfl (by simp_all) (by simp_all)
    | exact PInv_open pairs st _ c inv hs rfl rfl (by simp_all [List.isEmpty_iff]) (by simp)
    | exact PInv_close pairs st _ c inv hs rfl rfl (by simp_all) (by simp)

theorem PInv_foldl (pairs : List (Char × Char)) (l : Str) (st : PState) (inv : PInv pairs st) :
    PInv pairs (l.foldl (parenStep pairs) st) := by
  induction l generalizing st with
  | nil => exact inv
  | cons c cs ih => exact ih _ (PInv_step pairs st c inv)


/-! ### the result of `splitparen` -/

theorem foldl_scan (pairs : List (Char × Char)) (l : Str) (st : PState) :
    (l.foldl (parenStep pairs) st).scan = srun pairs st.scan l := by
  induction l generalizing st with
  | nil => rfl
  | cons c cs ih => simp [ih, parenStep_scan]

/-- no unmatched opener: every item is well-formed (plain items never leave depth 0, so an
    unmatched *closer* is an ordinary character of a plain item) -/
theorem splitparen_closed (l : Str) (pairs : List (Char × Char))
    (h : (srun pairs {} l).stack = []) : itemsOK pairs {} (splitparen l pairs) := by
  have inv := PInv_foldl pairs l {} (PInv_init pairs)
  have hsc := foldl_scan pairs l {}
  unfold splitparen
  generalize l.foldl (parenStep pairs) {} = st at inv hsc ⊢
  have hst : st.stack = [] := by
    have : st.scan.stack = st.stack := rfl
    rw [← this, hsc]; exact h
  unfold parenFinish
  split
  · exact inv.items
  · rw [List.reverse_cons, itemsOK_snoc]
    exact ⟨inv.items, inv.flat hst⟩

/-- an unmatched opener: everything from the outermost unmatched opener to the end of the line
    is ONE plain item (`str`, not `ParenString`), preceded by well-formed items -/
theorem splitparen_open (l : Str) (pairs : List (Char × Char))
    (h : (srun pairs {} l).stack ≠ []) :
    ∃ body t, splitparen l pairs = body ++ [.plain t] ∧ itemsOK pairs {} body ∧ t ≠ [] ∧
      (srun pairs {} (pjoin body)).stack = [] ∧
      openB pairs (srun pairs {} (pjoin body)) t = true := by
  have inv := PInv_foldl pairs l {} (PInv_init pairs)
  have hsc := foldl_scan pairs l {}
  unfold splitparen
  generalize l.foldl (parenStep pairs) {} = st at inv hsc ⊢
  have hst : st.stack ≠ [] := by
    have : st.scan.stack = st.stack := rfl
    rw [← this, hsc]; exact h
  obtain ⟨a, b, d⟩ := inv.opn hst
  refine ⟨st.items.reverse, st.cur.reverse, ?_, inv.items, by simpa using b, a, d⟩
  unfold parenFinish
  split
  · simp_all [List.isEmpty_iff]
  · simp

/-! ### shape of a `ParenString`: opener … its own closer -/

theorem sstep_push (pairs : List (Char × Char)) (s : Scan) (o : Char)
    (h0 : s.stack = []) (h1 : (sstep pairs s o).stack ≠ []) :
    ∃ cl, closerOf pairs o = some cl ∧ (sstep pairs s o).stack = [cl] := by
  unfold sstep at h1 ⊢
  repeat' split at h1
  all_goals simp_all

theorem sstep_pop (pairs : List (Char × Char)) (s : Scan) (c : Char)
    (h0 : s.stack ≠ []) (h1 : (sstep pairs s c).stack = []) : s.stack = [c] := by
  unfold sstep at h1
  repeat' split at h1
  all_goals simp_all

theorem sstep_bottom (pairs : List (Char × Char)) (s : Scan) (c : Char)
    (h0 : s.stack ≠ []) (h1 : (sstep pairs s c).stack ≠ []) :
    (sstep pairs s c).stack.getLast? = s.stack.getLast? := by
  unfold sstep at h1 ⊢
  repeat' split at h1
  all_goals simp_all [List.getLast?_cons_cons]
  all_goals grind [List.getLast?_cons_cons]

theorem srun_bottom (pairs : List (Char × Char)) (s : Scan) (u : Str)
    (h0 : s.stack ≠ []) (h1 : openB pairs s u = true) :
    (srun pairs s u).stack.getLast? = s.stack.getLast? := by
  induction u generalizing s with
  | nil => rfl
  | cons c u ih =>
    simp [openB] at h1
    have hne : (sstep pairs s c).stack ≠ [] := by simpa using h1.1
    rw [srun_cons, ih _ hne h1.2, sstep_bottom pairs s c h0 hne]

theorem parenOK_shape (pairs : List (Char × Char)) (s : Scan) (t : Str) (h : parenOK pairs s t) :
    ∃ o mid cl, t = o :: (mid ++ [cl]) ∧ closerOf pairs o = some cl := by
  obtain ⟨h0, t', c, rfl, hne, hop, hfin⟩ := h
  cases t' with
  | nil => exact absurd rfl hne
  | cons o mid =>
    simp [openB] at hop
    have hne1 : (sstep pairs s o).stack ≠ [] := by simpa using hop.1
    obtain ⟨cl, hcl, hstack⟩ := sstep_push pairs s o h0 hne1
    have hb := srun_bottom pairs _ mid hne1 hop.2
    have hne2 : (srun pairs (sstep pairs s o) mid).stack ≠ [] := by
      intro h; rw [h, hstack] at hb; simp at hb
    have hfin' : (sstep pairs (srun pairs (sstep pairs s o) mid) c).stack = [] := by
      simpa [srun_append] using hfin
    have := sstep_pop pairs _ c hne2 hfin'
    rw [this, hstack] at hb
    simp at hb
    exact ⟨o, mid, cl, by simp [hb], hcl⟩

end Fp.Splitline
