import FparserModel.Block
import FparserModel.Generated.Blocks2003
import FparserModel.Generated.Blocks2008

/-!
# M-D: kernel-checked obligations over the generated class tables

Re-checked by `lake build` whenever `fv/extract_block.py` regenerates the tables.
-/
namespace Fp.Block

/-- the facts about a generated table that the property theorems are instantiated with -/
def programShape (tbl : Table) (prog : Cls) : Bool :=
  match tbl.kind prog with
  | .program _ _ [] => true
  | _ => false

/-- every block whose start class can carry a construct name checks names strictly; the
label-DO constructs check labels and use the DO hook -/
def cfgFlagsOK (k : Kind) : Bool :=
  match k with
  | .block cfg _ =>
    (!cfg.strictNames || cfg.matchNames) && (!cfg.doHook || cfg.matchLabels) &&
    (cfg.nameClasses.isEmpty || cfg.matchNames) &&
    (cfg.end_.isNone || !cfg.endAll.isEmpty) && (!cfg.matchLabels || (cfg.start.isSome && cfg.end_.isSome))
  | .main0 cfg _ _ => cfg.start.isNone && cfg.end_.isSome && !cfg.matchNames && !cfg.matchLabels
  | _ => true

theorem program_shape_2003 : programShape Generated.F2003.table Generated.F2003.program = true := by
  decide +kernel
theorem program_shape_2008 : programShape Generated.F2008.table Generated.F2008.program = true := by
  decide +kernel
theorem cfg_flags_2003 : Generated.F2003.kinds.toList.all cfgFlagsOK = true := by decide +kernel
theorem cfg_flags_2008 : Generated.F2008.kinds.toList.all cfgFlagsOK = true := by decide +kernel

end Fp.Block
