import FparserModel.Wire
import FparserModel.ExprLex
import FparserModel.Generated.ExprLexTables

/-!
# driver commands of the string level of model M-C (FparserModel/ExprLex.lean)

`exprlex.split`   pat mode text          mode = r | l | ra (rsplit with is_add=True)
                  reply: `none`  or  `some` lhs op rhs          (Pattern.rsplit / lsplit)
`exprlex.pieces`  pat text               reply: the pieces of `compiled.split(text)`
`exprlex.enum`    pat mode maxlen alphabet
                  reply: one field, a line per string of ≤ maxlen letters of the alphabet in the
                  canonical enumeration (by length, then lexicographic by alphabet index):
                  `-` for None, else `lhs|op|rhs`
`exprlex.bin`     pat right excl line    reply: `none` or `some` lhs oper rhs   (binStepS)
`exprlex.un`      pat line               reply: `none` or `some` oper rhs       (unStepS)
`exprlex.lex`     line                   reply: `none` or `some` words (format of command `expr`,
                  operands `@n`/`@.n`, `~` = glued)
`exprlex.parse`   line [class]           reply: S-expression of `parseSF` or `reject`
`exprlex.table`   name                   reply: mismatches total first-bad  (Generated/ExprLexTables)
`exprlex.nondef`  text                   reply: 1 | 0      (non_defined_binary_op.match)
`exprlex.reallit` text                   reply: 1 | 0      (abs_real_literal_constant.match)

pat = power | mult | add | concat | rel | not | and | or | equiv | defined
-/
namespace FpDriver.ExprLex
open Fp Fp.Expr Fp.ExprLex Fp.Wire

def ok (fs : List String) : String := "\t".intercalate ("OK" :: fs)

def opt3 (r : Option (Str × Str × Str)) : String :=
  match r with
  | none => ok [enc "none"]
  | some (l, o, x) => ok [enc "some", encL l, encL o, encL x]

def splitMode (p : Pat) (mode : String) (s : Str) : Option (Option (Str × Str × Str)) :=
  match mode with
  | "r" => some (rsplitS p s)
  | "l" => some (lsplitS p s)
  | "ra" => some (rsplitS p s true)
  | _ => none

def wordOf (t : T) : String := (if t.glued then "~" else "") ++ t.spell

def lvOfName (s : String) : Option Lv :=
  [Lv.expr, .l5, .equivOp, .orOp, .andOp, .l4, .l3, .l2, .l2u, .addOp, .multOp, .l1, .prim].find?
    (fun k => k.name == s)

def parseLine (k : Lv) (s : Str) : String :=
  match lexExpr s with
  | none => "unlexable"
  | some ts =>
    match parseSF (need k ts) k false s with
    | some e => e.sexp
    | none => "reject"

def handle (cmd : String) (args : List String) : Option String :=
  match cmd, args with
  | "exprlex.split", [p, mode, text] =>
    match ExprLexTables.patOfName (dec p), splitMode ((ExprLexTables.patOfName (dec p)).getD .add) (dec mode) (decL text) with
    | some _, some r => some (opt3 r)
    | _, _ => some ("ERR\t" ++ enc "bad pattern or mode")
  | "exprlex.pieces", [p, text] =>
    match ExprLexTables.patOfName (dec p) with
    | some q => some (ok ((splitAll q (decL text)).map encL))
    | none => some ("ERR\t" ++ enc "bad pattern")
  | "exprlex.enum", [p, mode, maxlen, alphabet] =>
    match ExprLexTables.patOfName (dec p) with
    | some q =>
      let ins := ExprLexTables.enumInputs ((decL alphabet).map fun c => String.singleton c) (dec maxlen).toNat!
      let lines := ins.map fun s =>
        match splitMode q (dec mode) s.toList with
        | some (some (l, o, r)) => String.ofList l ++ "|" ++ String.ofList o ++ "|" ++ String.ofList r
        | _ => "-"
      some (ok [enc ("\n".intercalate lines)])
    | none => some ("ERR\t" ++ enc "bad pattern")
  | "exprlex.bin", [p, right, excl, line] =>
    match ExprLexTables.patOfName (dec p) with
    | some q => some (opt3 (binStepS q (dec right == "1") (dec excl == "1") (decL line)))
    | none => some ("ERR\t" ++ enc "bad pattern")
  | "exprlex.un", [p, line] =>
    match ExprLexTables.patOfName (dec p) with
    | some q =>
      match unStepS q (decL line) with
      | none => some (ok [enc "none"])
      | some (o, r) => some (ok [enc "some", encL o, encL r])
    | none => some ("ERR\t" ++ enc "bad pattern")
  | "exprlex.lex", [line] =>
    match lexExpr (decL line) with
    | none => some (ok [enc "none"])
    | some ts => some (ok [enc "some", enc (" ".intercalate (ts.map wordOf))])
  | "exprlex.parse", [line] => some (ok [enc (parseLine .expr (decL line))])
  | "exprlex.parse", [line, cls] =>
    match lvOfName (dec cls) with
    | some k => some (ok [enc (parseLine k (decL line))])
    | none => some (ok [enc "badclass"])
  | "exprlex.table", [name] =>
    match ExprLexTables.check (dec name) with
    | some (bad, total, first) => some (ok [enc (toString bad), enc (toString total), enc first])
    | none => some ("ERR\t" ++ enc "unknown table")
  | "exprlex.nondef", [text] => some (ok [enc (if nonDefinedMatch (decL text) then "1" else "0")])
  | "exprlex.reallit", [text] => some (ok [enc (if absRealLit (decL text) then "1" else "0")])
  | _, _ => none

end FpDriver.ExprLex
