"""Co-simulation of the Lean model One3 (lean/FparserModel/One3.lean) with the STATEMENT classes of
fparser1 (fparser/one/statements.py, typedecl_statements.py).

    python -m fv.cosim_one3 --seed S --n N        (honours FV_MODEL_EXE; deterministic in the seed)

Streams
  zoo      hand-written lines per class (every optional part, the known defects, error paths)
  shape    a random shape generator per class: all optional parts, names that begin with keywords
           (`only_n`, `operator_x`, `if_flag`, `do_count`, `result_v`, `bind_c`), string literals with
           commas/parentheses/quotes, nested parentheses, >= 10 parenthesised groups in one statement
           (F2PY_EXPR_TUPLE_1 and _10 coexist), labels
  mutant   a shape line with one character deleted / inserted / replaced (error behaviour)
  harvest  the statements of `gen.gen_program(std='f2003')` programs as fparser1 itself sees them
           (`api.parse(..., analyze=False|True)`): class, item text, label, parent name, depth
  round2   the printed text of every accepted statement, processed again
Compared per (class, line, context): match / isvalid / exception class, the class of the node
(`Read`→`Read0|Read1`, `GeneralAssignment`→…), every field set by `process_item`, the printed text
(exact, including the label tab and indentation), the `put_item`/`clone` texts of the `<type> function`
dance, `ignore`; for a sample of lines every translated regex against the live compiled one
(`match` and `m.end()`); for harvested statements the class CHOSEN by the real parser must be accepted
by the model, and with analyze=True the text printed AFTER `analyze()` must be the model's text.
Negative controls: seven realistic changes of the real code and one of the model input must each alarm.
"""
import argparse
import inspect
import logging
import os
import random
import re
import sys
import textwrap
import time

from fv import repo

repo.activate()
from fparser.common.readfortran import FortranStringReader, Line  # noqa: E402
from fparser.common.sourceinfo import FortranFormat  # noqa: E402
from fparser.common import splitline as SL  # noqa: E402
from fparser.common.base_classes import Statement, BeginStatement, EndStatement  # noqa: E402
from fparser.one import statements as S, typedecl_statements as T, block_statements as B  # noqa: E402
from fv.model import Model, get_model  # noqa: E402

try:
    from fv import extract_one3 as X
except ImportError:  # private development copy
    import extract_one3 as X

logging.disable(logging.CRITICAL)

# ---------------------------------------------------------------------------------------------
# the real code, one class on one line
# ---------------------------------------------------------------------------------------------
_reader = None


def reader():
    global _reader
    if _reader is None:
        _reader = FortranStringReader("x=1\n", ignore_comments=True)
        _reader.set_format(FortranFormat(True, False))
    return _reader


class FakeParent:
    """enough of a block for the statement classes; not a Statement, so depth 0"""

    def __init__(self, name=""):
        self.name = name
        self.put = []
        self.reader = reader()
        self.typedecl = None
        self.prefix = ""

    def put_item(self, item):
        self.put.append(item.line)


class FakeFunction(B.Function):
    """a Function parent (a Statement: depth 1) without running its constructor"""

    def __init__(self, name):
        self.name = name
        self.put = []
        self.reader = reader()
        self.typedecl = None
        self.item = None
        self.parent = None

    def put_item(self, item):
        self.put.append(item.line)


def cls_of(name):
    for mod in (S, T, B):
        if hasattr(mod, name):
            return getattr(mod, name)
    raise KeyError(name)


SKIP = {"parent", "reader", "top", "item", "isvalid", "ignore", "a", "programblock", "raw_selector"}


def qs(s):
    return '"' + s.replace("\\", "\\\\").replace('"', '\\"') + '"'


def cval(v):
    if v is None:
        return "None"
    if v is True:
        return "True"
    if v is False:
        return "False"
    if isinstance(v, str):
        return qs(v)
    if isinstance(v, Statement):
        return cnode(v) if v.isvalid else "?"
    if isinstance(v, (list, tuple)):
        return "[" + ",".join(cval(x) for x in v) + "]"
    return repr(v)


def cnode(stmt):
    cls = type(stmt).__name__
    skip = SKIP | ({"label"} if cls == "Continue" else set())
    return cls + "{" + ";".join("%s=%s" % (k, cval(v)) for k, v in sorted(stmt.__dict__.items()) if k not in skip) + "}"


def real_one(clsname, line, label=None, pname="", pfn=False):
    out = dict(status=None, cls="", dump="", text="", exc="", put="-", clone="-", ignore="0", mapped="")
    cls = cls_of(clsname)
    parent = FakeFunction(pname) if pfn else FakeParent(pname)
    try:
        item = Line(line, (1, 1), label, None, reader())
        ml = item.get_line()
    except Exception as e:  # noqa: BLE001
        out["status"], out["exc"] = "raised", type(e).__name__
        return out
    out["mapped"] = ml
    if not cls.match(ml):
        out["status"] = "nomatch"
        return out
    try:
        stmt = cls(parent, item)
    except Exception as e:  # noqa: BLE001
        out["status"], out["exc"] = "raised", type(e).__name__
        return out
    if parent.put:
        out["put"] = "=" + parent.put[0]
        out["clone"] = "=" + item.line
    out["ignore"] = "1" if stmt.ignore else "0"
    if not stmt.isvalid:
        out["status"] = "invalid"
        return out
    out["status"] = "ok"
    out["cls"] = type(stmt).__name__
    out["dump"] = cnode(stmt)
    try:
        out["text"] = stmt.tofortran()
    except Exception as e:  # noqa: BLE001
        out["text"] = "!EXC:" + type(e).__name__
    return out


KEYS = ["status", "cls", "dump", "text", "exc", "put", "clone", "ignore", "mapped"]


def model_one(m, clsname, line, label=None, depth=0, pname="", pfn=False, ptd=False):
    r = m.ask("one3.process", clsname, "-" if label is None else str(label), str(depth), pname,
              "1" if pfn else "0", "1" if ptd else "0", line)
    return dict(zip(KEYS, r))


def compare(m, clsname, line, label=None, pname="", pfn=False):
    a = real_one(clsname, line, label, pname, pfn)
    b = model_one(m, clsname, line, label, 1 if pfn else 0, pname, pfn, False)
    if a["status"] == "raised" and a["exc"] == "FortranReaderError" and b["status"] == "raised":
        a["mapped"] = b["mapped"]
    diffs = [k for k in KEYS if a[k] != b[k]]
    return a, b, diffs


# ---------------------------------------------------------------------------------------------
# shapes
# ---------------------------------------------------------------------------------------------
NAMES = ["a", "b", "x1", "n", "only_n", "operator_x", "if_flag", "do_count", "result_v", "bind_c", "to_go",
         "default_v", "then_x", "kind_of", "len_s", "function_f", "none_x", "is_ok", "stat_v", "e1", "d2"]
TYPES = ["integer", "real", "double precision", "complex", "double complex", "character", "logical", "byte",
         "doubleprecision"]


class Sh:
    def __init__(self, rng):
        self.r = rng

    def name(self):
        return self.r.choice(NAMES)

    def sp(self):
        return self.r.choice(["", " ", "  "])

    def lit(self):
        return self.r.choice(["'abc'", "'a,b'", "'x (y'", "\"it's\"", "'(a, i3)'", "''", "' '", "'A = B'", "\"q\"\"r\"",
                              "'don''t'", "'Abc'"])

    def num(self):
        return self.r.choice(["1", "42", "3.5", "1.0e5", "2.d0", "1e-3_dp", "7_8", "10"])

    def atom(self, d):
        k = self.r.random()
        if k < 0.3 or d <= 0:
            return self.r.choice([self.name(), self.num(), self.lit() if self.r.random() < 0.3 else self.name()])
        if k < 0.6:
            return "%s(%s)" % (self.name(), ", ".join(self.expr(d - 1) for _ in range(self.r.randint(1, 3))))
        if k < 0.75:
            return "(%s)" % self.expr(d - 1)
        if k < 0.85:
            return "%s%%%s" % (self.name(), self.atom(d - 1))
        if k < 0.93:
            return "(/%s, %s/)" % (self.expr(d - 1), self.expr(d - 1))
        return "%s(%s:%s)" % (self.name(), self.expr(d - 1), self.expr(d - 1))

    def expr(self, d=2):
        n = self.r.randint(1, 3)
        ops = [" + ", "*", " - ", "/", " .and. ", " .eq. ", " > ", "**", "//", " <= ", " == ", " /= "]
        s = self.atom(d)
        for _ in range(n - 1):
            s += self.r.choice(ops) + self.atom(d)
        return s

    def exprs(self, lo=1, hi=3, d=2):
        return self.cs([self.expr(d) for _ in range(self.r.randint(lo, hi))])

    def cs(self, xs):
        return self.r.choice([", ", ",", " , "]).join(xs)

    def names(self, lo=1, hi=3):
        return self.cs([self.name() for _ in range(self.r.randint(lo, hi))])

    def kw(self, k):
        """keyword with random case and inner blanks where free form tolerates them"""
        c = self.r.random()
        return k.upper() if c < 0.2 else (k.capitalize() if c < 0.3 else k)

    def dc(self):
        return self.r.choice([" :: ", "::", " ", " "])

    def specs(self, keys):
        out = []
        if self.r.random() < 0.6:
            out.append(self.r.choice(["*", "5", self.name(), self.expr(1)]))
        for k in self.r.sample(keys, self.r.randint(0, min(3, len(keys)))):
            out.append("%s%s=%s%s" % (k, self.sp(), self.sp(), self.r.choice([self.expr(1), self.lit(), "10"])))
        if not out:
            out.append("unit = 6")
        return self.cs(out)

    def decl(self):
        s = self.name()
        if self.r.random() < 0.4:
            s += "(%s)" % self.cs([self.r.choice([":", "3", "n+1", "0:n", "*"]) for _ in range(self.r.randint(1, 2))])
        if self.r.random() < 0.15:
            s += "*%s" % self.r.choice(["8", "(*)", "(n+1)"])
        if self.r.random() < 0.3:
            s += self.r.choice([" = ", "="]) + self.expr(1)
        elif self.r.random() < 0.1:
            s += " => null()"
        return s

    def wide(self):
        m = self.r.randint(10, 14)
        terms = ["a(%d-i)" % j if j % 3 else "(b%d*c + %d)" % (j, j) for j in range(1, m + 1)]
        return terms

    def typespec(self):
        t = self.r.choice(TYPES)
        k = self.r.random()
        if t.startswith("character"):
            sel = self.r.choice(["", "*10", "*(*)", "(len=*)", "(10)", "(len=n+1, kind=1)", "(kind=1)", "(*, 1)",
                                 "(kind=1, len=3)", "*(n+1)", "(len=:)", "*10,"])
        elif t.startswith("double") or t == "byte":
            sel = ""
        else:
            sel = "" if k < 0.4 else self.r.choice(["*8", "(8)", "(kind=8)", "(kind = dp)", "*4", "(kind(1.0d0))",
                                                    "(selected_real_kind(6, 37))", "(kind=kind(1))"])
        return t + sel

    # ---- one line per class ----
    def gen(self, c):
        r = self.r
        f = getattr(self, "g_" + c, None)
        if f is None:
            return None
        return f()

    def g_Assignment(self):
        if self.r.random() < 0.15:
            return "y = " + " + ".join(self.wide())
        lhs = self.r.choice([self.name(), "%s(%s)" % (self.name(), self.exprs(1, 2, 1)), "%s%%%s" % (self.name(), self.name()),
                             "%s(%s)%%%s(%s)" % (self.name(), self.expr(1), self.name(), self.expr(1)), "a (1) (2:3)"])
        return lhs + self.r.choice([" = ", "=", " =  "]) + self.expr(3)

    def g_PointerAssignment(self):
        return "%s => %s" % (self.r.choice([self.name(), "p%q", "p(1:)"]), self.r.choice([self.expr(1), "null()"]))

    g_GeneralAssignment = g_Assignment

    def g_Call(self):
        d = self.r.choice([self.name(), "%s%%%s" % (self.name(), self.name()), "a(1)%b", "obj % meth"])
        k = self.r.random()
        if k < 0.15:
            return "call " + d
        if k < 0.25:
            return "call %s()" % d
        if k < 0.4:
            return "call foo(" + ", ".join("f(%d*x)" % j for j in range(1, self.r.randint(11, 14))) + ")"
        args = [self.r.choice([self.expr(2), "%s=%s" % (self.name(), self.expr(1)), self.lit(), "*10"]) for _ in range(self.r.randint(1, 4))]
        return "%s %s%s(%s)" % (self.kw("call"), d, self.sp(), self.cs(args))

    def g_Goto(self):
        return self.r.choice(["go to", "goto", "GO TO", "go  to"]) + self.sp() + str(self.r.randint(1, 999))

    def g_ComputedGoto(self):
        return "%s (%s)%s%s" % (self.r.choice(["go to", "goto"]), self.cs(["10", "20", "30"][:self.r.randint(1, 3)]),
                                self.r.choice([", ", " ", ","]), self.expr(1))

    def g_Continue(self):
        return self.kw("continue")

    def g_Return(self):
        return self.kw("return") + self.r.choice(["", " 1", " " + self.expr(1)])

    def g_Stop(self):
        return self.kw("stop") + self.r.choice(["", " 1", " 'abc'", ' "x"', "123", " 'a''b'"])

    def g_Pause(self):
        return "pause" + self.r.choice(["", " 1", " 'abc'"])

    def g_Print(self):
        f = self.r.choice(["*", "'(a)'", "10", "fmt", "'(a, i3)'", '"(2x,a)"'])
        k = self.r.random()
        items = "" if k < 0.2 else self.r.choice([", ", ","]) + self.exprs(1, 3)
        if k > 0.9:
            items += ", (a(i), i=1,n)"
        return "%s%s%s%s" % (self.kw("print"), self.r.choice([" ", ""]) if f[0] in "*'\"" else " ", f, items)

    def g_Read(self):
        if self.r.random() < 0.5:
            return "read (%s)%s" % (self.specs(["fmt", "end", "err", "iostat", "advance", "nml"]),
                                    self.r.choice(["", " " + self.exprs(1, 3, 1)]))
        return "read %s%s" % (self.r.choice(["*", "'(a)'", "10", "fmt"]), self.r.choice(["", ", " + self.exprs(1, 2, 1)]))

    def g_Write(self):
        return "%s%s(%s)%s" % (self.kw("write"), self.sp(), self.specs(["fmt", "err", "iostat", "advance", "rec"]),
                               self.r.choice(["", " " + self.exprs(1, 3)]))

    def g_Flush(self):
        return "flush" + self.r.choice([" 6", "(6)", " (unit=6, iostat = ios)", " (%s)" % self.specs(["iostat", "err", "iomsg"]), " " + self.name()])

    def g_Wait(self):
        return "wait%s(%s)" % (self.sp(), self.specs(["id", "end", "eor", "err", "iomsg", "iostat"]))

    def g_Contains(self):
        return self.kw("contains")

    def g_Allocate(self):
        k = self.r.random()
        ts = ""
        if k < 0.3:
            ts = self.r.choice([self.typespec(), "foo", "real(8)", "character(len=10)"]) + self.r.choice([" :: ", "::"])
        objs = [self.r.choice(["%s(%s)" % (self.name(), self.exprs(1, 2, 1)), self.name(), "a%b(n+1)", "x(3)%y(0:n)"]) for _ in range(self.r.randint(1, 3))]
        opts = self.r.sample(["stat=ierr", "errmsg = msg", "source=%s" % self.expr(1), "stat = %s" % self.name()], self.r.randint(0, 2))
        return "%s%s(%s%s)" % (self.kw("allocate"), self.sp(), ts, self.cs(objs + opts))

    def g_Deallocate(self):
        return "deallocate%s(%s)" % (self.sp(), self.cs([self.name(), "a%b"][:self.r.randint(1, 2)] + self.r.sample(["stat=ierr", "errmsg=m"], self.r.randint(0, 2))))

    def g_ModuleProcedure(self):
        return self.r.choice(["module procedure ", "moduleprocedure ", "procedure ", "module procedure :: ", "MODULE PROCEDURE "]) + self.names()

    def _access(self, kw):
        k = self.r.random()
        if k < 0.25:
            return kw
        items = [self.r.choice([self.name(), "operator(+)", "operator (.x.)", "assignment(=)", "operator(==)", "read(formatted)"]) for _ in range(self.r.randint(1, 3))]
        return self.kw(kw) + self.dc() + self.cs(items)

    def g_Public(self):
        return self._access("public")

    def g_Private(self):
        return self._access("private")

    def g_Close(self):
        return "close%s(%s)" % (self.sp(), self.specs(["iostat", "err", "status", "iomsg"]))

    def g_Open(self):
        return "%s%s(%s)" % (self.kw("open"), self.sp(), self.specs(["file", "status", "access", "form", "recl", "err", "iostat", "action"]))

    def g_Cycle(self):
        return self.kw("cycle") + self.r.choice(["", " " + self.name(), "  outer "])

    def g_Exit(self):
        return self.kw("exit") + self.r.choice(["", " " + self.name()])

    def _fpos(self, kw):
        return kw + self.r.choice([" 5", " (5)", "(unit=5, err = 10)", " (%s)" % self.specs(["iostat", "err", "iomsg"]), " " + self.name(), " n + 1"])

    def g_Backspace(self):
        return self._fpos("backspace")

    def g_Endfile(self):
        return self._fpos("endfile")

    def g_Rewind(self):
        return self._fpos(self.kw("rewind"))

    def g_Format(self):
        return "format%s(%s)" % (self.sp(), self.cs([self.r.choice(["1x", "i3", "'a,b'", "2(f8.3, 1x)", "a", "/", "'it''s'", "3(i2, 2(a))", "e12.4e2"]) for _ in range(self.r.randint(0, 4))]))

    def g_Save(self):
        k = self.r.random()
        if k < 0.2:
            return "save"
        return "save" + self.dc() + self.cs([self.r.choice([self.name(), "/blk/", "/ c1 /"]) for _ in range(self.r.randint(1, 3))])

    def g_Data(self):
        sets = []
        for _ in range(self.r.randint(1, 3)):
            objs = self.cs([self.r.choice([self.name(), "a(1)", "(b(i), i=1,3)", "c(1:2)"]) for _ in range(self.r.randint(1, 2))])
            vals = self.cs([self.r.choice(["1", "3*0.0", "'x/y'", ".true.", "(1.0, 2.0)", "2*'a,b'"]) for _ in range(self.r.randint(1, 3))])
            sets.append("%s %s/%s%s/" % (objs, self.sp(), self.sp(), vals))
        return "data " + self.r.choice([", ", " ", ","]).join(sets)

    def g_Nullify(self):
        return "nullify%s(%s)" % (self.sp(), self.cs([self.name(), "a%b", "p(1)%q"][:self.r.randint(1, 3)]))

    def g_Use(self):
        nat = self.r.choice(["", "", ", intrinsic :: ", ", non_intrinsic ::", " :: ", ",intrinsic::"])
        mod = self.r.choice(["m", "iso_c_binding", "only_mod", "mod_1"])
        k = self.r.random()
        s = self.kw("use") + (nat if nat else " ") + mod
        ren = lambda: self.r.choice(["%s => %s" % (self.name(), self.name()), "operator(.x.) => operator(.y.)", "only_a=>b"])  # noqa: E731
        if k < 0.25:
            return s
        if k < 0.6:
            only = [self.r.choice([self.name(), ren(), "operator(+)", "assignment(=)"]) for _ in range(self.r.randint(0, 4))]
            return s + self.r.choice([", only: ", ",only:", ", ONLY : ", ", only :", " , Only: "]) + self.cs(only)
        return s + self.r.choice([", ", ","]) + self.cs([ren() for _ in range(self.r.randint(1, 3))])

    def g_Parameter(self):
        return "parameter%s(%s)" % (self.sp(), self.cs(["%s%s=%s%s" % (self.name(), self.sp(), self.sp(), self.expr(2)) for _ in range(self.r.randint(1, 3))]))

    def g_Equivalence(self):
        return "equivalence " + self.cs(["(%s)" % self.cs([self.r.choice([self.name(), "a(1)", "b(2,3)", "c(1:2)"]) for _ in range(self.r.randint(2, 3))]) for _ in range(self.r.randint(1, 2))])

    def _arrs(self, kw, need_paren=True):
        return self.kw(kw) + self.dc() + self.cs(["%s(%s)" % (self.name(), self.cs([self.r.choice([":", "3", "n+1", "0:n", "f(2)"]) for _ in range(self.r.randint(1, 2))]))
                                                  if (need_paren or self.r.random() < 0.6) else self.name() for _ in range(self.r.randint(1, 3))])

    def g_Dimension(self):
        return self._arrs("dimension")

    def g_Target(self):
        return self._arrs("target", False)

    def g_Pointer(self):
        return self._arrs("pointer", False)

    def g_Allocatable(self):
        return self._arrs("allocatable", False)

    def _nl(self, kw):
        k = self.r.random()
        if k < 0.1:
            return kw + self.dc() + self.name() + "(3)"
        return self.kw(kw) + self.dc() + self.names()

    def g_Protected(self):
        return self._nl("protected")

    def g_Volatile(self):
        return self._nl("volatile")

    def g_Value(self):
        return self._nl("value")

    def g_Intrinsic(self):
        return self._nl("intrinsic")

    def g_External(self):
        return self._nl("external")

    def g_Optional(self):
        return self._nl("optional")

    def g_Asynchronous(self):
        return self._nl("asynchronous")

    def g_FinalBinding(self):
        return self._nl("final")

    def g_Import(self):
        return self.r.choice(["import", "import :: " + self.names(), "import " + self.names()])

    def g_ArithmeticIf(self):
        return "if%s(%s)%s10,%s20 , 30" % (self.sp(), self.expr(2), self.sp(), self.sp())

    def g_Inquire(self):
        if self.r.random() < 0.3:
            return "inquire (iolength = %s) %s" % (self.name(), self.exprs(1, 3, 1))
        return "inquire%s(%s)" % (self.sp(), self.specs(["file", "exist", "opened", "number", "iostat", "name"]))

    def g_Sequence(self):
        return self.kw("sequence")

    def g_Namelist(self):
        gs = ["/%s/ %s" % (self.r.choice(["nml", "n2", " g "]), self.names()) for _ in range(self.r.randint(1, 3))]
        return "namelist " + self.r.choice([" ", ", ", ","]).join(gs)

    def g_Common(self):
        gs = []
        if self.r.random() < 0.3:
            gs.append(self.cs([self.name(), "b(3)"][:self.r.randint(1, 2)]))
        for _ in range(self.r.randint(0 if gs else 1, 3)):
            gs.append("/%s/ %s" % (self.r.choice(["blk", " c ", "", " "]), self.cs([self.r.choice([self.name(), "v(3, n+1)"]) for _ in range(self.r.randint(1, 3))])))
        return "common " + self.r.choice([" ", ", ", ","]).join(gs)

    def g_Intent(self):
        return "intent%s(%s)%s%s" % (self.sp(), self.r.choice(["in", "out", "inout", "in out", "IN", " in "]), self.dc(), self.names())

    def g_Entry(self):
        s = "entry " + self.name()
        k = self.r.random()
        if k < 0.2:
            return s
        s += "%s(%s)" % (self.sp(), self.cs([self.r.choice([self.name(), "*"]) for _ in range(self.r.randint(0, 3))]))
        suf = self.r.choice(["", " result(r)", " bind(c)", " result (r) bind(c, name='x y')", " bind(c, name = 'e') result(res_v)", " bind ( c ) "])
        return s + suf

    def g_Forall(self):
        tr = ["%s%s=%s%s:%s%s" % (self.name(), self.sp(), self.sp(), self.expr(1), self.expr(1), self.r.choice(["", ":2", " : " + self.expr(1)])) for _ in range(self.r.randint(1, 3))]
        if self.r.random() < 0.4:
            tr.append(self.r.choice(["a(i) > 0", "mask(i, j)", "a(i) /= 0", "a(i) .ne. b(i)"]))
        return "forall%s(%s) %s" % (self.sp(), self.cs(tr), self.r.choice([self.g_Assignment(), self.g_PointerAssignment()]))

    def g_SpecificBinding(self):
        s = "procedure"
        if self.r.random() < 0.3:
            s += "%s(%s)" % (self.sp(), self.name())
        attrs = self.r.sample(["pass", "nopass", "pass(self)", "pass ( me )", "non_overridable", "deferred", "public", "private"], self.r.randint(0, 3))
        k = self.r.random()
        if attrs:
            s += ", " + self.cs(attrs) + " :: "
        else:
            s += self.r.choice([" :: ", " ", "::"])
        s += self.name()
        if k < 0.5:
            s += self.r.choice([" => ", "=>"]) + self.name()
        return s

    def g_GenericBinding(self):
        return "generic%s :: %s => %s" % (self.r.choice(["", ", public", ", private", " , PUBLIC"]),
                                          self.r.choice([self.name(), "operator(+)", "assignment(=)", "operator(.x.)", "write(formatted)", "operator(==)"]),
                                          self.names())

    def g_Bind(self):
        return "bind%s(%s)%s%s" % (self.sp(), self.r.choice(["c", "C, name='foo'", "c, name = \"a b\"", " c "]), self.dc(),
                                   self.cs([self.r.choice([self.name(), "/blk/", "/ b2 /"]) for _ in range(self.r.randint(1, 3))]))

    def g_Else(self):
        return self.kw("else") + self.r.choice(["", " nm", "  nm "])

    def g_ElseIf(self):
        return "%s%s(%s)%sthen%s" % (self.r.choice(["else if", "elseif", "ELSE IF", "else  if"]), self.sp(), self.expr(2), self.sp(), self.r.choice(["", " nm"]))

    def _ranges(self):
        return self.cs([self.r.choice(["1", "2:3", ":5", "7:", "'a'", "'a':'f'", "(1)", "n+1", ".true.", "f(2):g(3)"]) for _ in range(self.r.randint(1, 4))])

    def g_Case(self):
        if self.r.random() < 0.25:
            return self.r.choice(["case default", "CASE DEFAULT", "casedefault", "case default nm"])
        return "case%s(%s)%s" % (self.sp(), self._ranges(), self.r.choice(["", " nm"]))

    def g_TypeIs(self):
        return "type is%s(%s)%s" % (self.sp(), self.r.choice(["integer", "real(8)", "foo", "character(len=*)", "real(kind=dp)"]), self.r.choice(["", " nm"]))

    def g_ClassIs(self):
        if self.r.random() < 0.3:
            return self.r.choice(["class default", "class default nm", "CLASS DEFAULT"])
        return "class is%s(%s)%s" % (self.sp(), self.r.choice(["foo", "bar_t", "t(3)"]), self.r.choice(["", " nm"]))

    def g_Where(self):
        return "where%s(%s) %s" % (self.sp(), self.expr(2), self.g_Assignment())

    def g_ElseWhere(self):
        return self.r.choice(["elsewhere", "else where", "ELSEWHERE"]) + self.r.choice(["", " (%s)" % self.expr(2), "(%s) nm" % self.expr(1), " nm"])

    def g_Enumerator(self):
        return "enumerator" + self.dc() + self.cs(["%s%s" % (self.name(), self.r.choice(["", " = 1", "=%s" % self.expr(1)])) for _ in range(self.r.randint(1, 3))])

    def _typedecl(self, spec):
        k = self.r.random()
        if k < 0.12:
            return "%s %sfunction %s(%s)" % (spec, self.r.choice(["", "pure ", "recursive "]), self.name(), self.names(0, 2) if self.r.random() < 0.7 else "")
        attrs = self.r.sample(["public", "private", "save", "parameter", "dimension(n+1)", "dimension(3, 0:n)", "intent(in)", "intent(in out)",
                               "allocatable", "pointer", "target", "optional", "bind(c)", "PUBLIC", "codimension[*]"], self.r.randint(0, 3))
        decls = self.cs([self.decl() for _ in range(self.r.randint(1, 3))])
        if attrs:
            return "%s, %s :: %s" % (spec, self.cs(attrs), decls)
        return spec + self.r.choice([" :: ", " ", "::"]) + decls

    def g_Integer(self):
        return self._typedecl("integer" + self.r.choice(["", "*8", "(8)", "(kind=8)", "(kind = i_def)", "*4", "(kind(1))", "*(8)"]))

    def g_Real(self):
        return self._typedecl("real" + self.r.choice(["", "*8", "(8)", "(kind=dp)", "(selected_real_kind(6, 37))", "(kind=kind(1.0d0))"]))

    def g_DoublePrecision(self):
        return self._typedecl(self.r.choice(["double precision", "doubleprecision", "DOUBLE PRECISION", "double  precision"]))

    def g_Complex(self):
        return self._typedecl("complex" + self.r.choice(["", "*16", "(8)", "(kind=dp)"]))

    def g_DoubleComplex(self):
        return self._typedecl(self.r.choice(["double complex", "doublecomplex"]))

    def g_Character(self):
        return self._typedecl("character" + self.r.choice(["", "*10", "*(*)", "(len=*)", "(10)", "(len=n+1, kind=1)", "(kind=1)", "(*, 1)", "(kind=1, len=3)",
                                                           "*(n+1)", "(len=:)", "(len=10, kind=c_char)", "(len = 5)", "*5,", "*(*),", "(LEN=3)", "(3, kind=1)"]))

    def g_Logical(self):
        return self._typedecl("logical" + self.r.choice(["", "*4", "(4)", "(kind=1)"]))

    def g_Byte(self):
        return self._typedecl("byte")

    def g_Type(self):
        return self._typedecl("type%s(%s)" % (self.sp(), self.r.choice(["foo", "bar_t", " t1 ", "Foo", "t(3)", "t(k=4)"])))

    def g_Class(self):
        return self._typedecl("class%s(%s)" % (self.sp(), self.r.choice(["foo", "*", "bar_t", " t1 "])))

    def g_Implicit(self):
        if self.r.random() < 0.25:
            return self.r.choice(["implicit none", "IMPLICIT NONE", "implicit  none"])
        items = []
        for _ in range(self.r.randint(1, 3)):
            sp = self.r.choice(["integer", "real", "double precision", "character", "logical", "complex", "real(8)", "integer*8", "character*10",
                                "type(foo)", "character(len=3)", "real(kind=dp)"])
            ls = self.cs([self.r.choice(["a-h", "o-z", "i-n", "x", "a - c", "q"]) for _ in range(self.r.randint(1, 2))])
            items.append("%s%s(%s)" % (sp, self.sp() or " ", ls))
        return "implicit " + self.cs(items)


ZOO = [
    ("Use", "use m, only_x => y"), ("Use", "use m, only: a, b => c"), ("Use", "use, intrinsic :: iso_c_binding, only : c_int"),
    ("Use", "use m, only:"), ("Use", "use m, ONLY : only_n"), ("Use", "use m , operator(.x.) => operator(.y.)"), ("Use", "use :: m"),
    ("Use", "use, bad nature :: m"), ("Use", "use , intrinsic m"), ("Use", "use m,"),
    ("Flush", "flush (a"), ("Flush", "flush"), ("Flush", "flush 6"), ("Rewind", "rewind (5"), ("Backspace", "rewind 5"),
    ("Call", "call foo(a(1), b(2), 'x, y', c(3)%d(4))"), ("Call", "call a(1)%b(2)"), ("Call", "call a)"), ("Call", "call x(1)(2)"),
    ("Integer", "integer*8, dimension(n+1) :: a(3), b = 4"), ("Integer", "integer(kind = 8) function f(x)"), ("Integer", "integer f"),
    ("Integer", "integer*"), ("Integer", "integer*x"), ("Integer", "integer(kind) a"), ("Integer", "integer(kind(1)) a"),
    ("Integer", "integer(8 a"), ("Integer", "integer, a"), ("Integer", "integer :: 1a"), ("Integer", "integer pure function f()"),
    ("Character", "character(len=*, kind=1) :: s"), ("Character", "character*(*) s"), ("Character", "character*10 s*5"),
    ("Character", "character() s"), ("Character", "character(1, 2, 3) s"), ("Character", "character(kind=1, 3) s"),
    ("Character", "character*(len=3) s"), ("Character", "character(len=3, len=4) s"), ("Character", "character*10, s"),
    ("Type", "type(foo(3)) :: x"), ("Type", "type(foo) x"), ("Type", "type (Foo), pointer :: x => null()"),
    ("Class", "class(*) :: x"), ("Class", "class(foo), intent(in) :: x"),
    ("DoublePrecision", "double precision x"), ("DoublePrecision", "doubleprecision x"), ("DoublePrecision", "d ouble precision x"),
    ("Implicit", "implicit real(8) (a-h, o-z), integer (i-n)"), ("Implicit", "implicit none"), ("Implicit", "implicit real (a-h)"),
    ("Implicit", "implicit foo (a)"), ("Implicit", "implicit real (a-b-c)"), ("Implicit", "implicit real (ab)"), ("Implicit", "implicit real a"),
    ("Implicit", "implicit integer*x (a)"), ("Implicit", "implicit character*10 (c)"), ("Implicit", "implicit type(t) (t)"),
    ("Allocate", "allocate(real(8) :: a(n+1), stat=ierr)"), ("Allocate", "allocate(foo :: a)"), ("Allocate", "allocate(a(3)%b(n+1), stat = ierr)"),
    ("Allocate", "allocate()"), ("Allocate", "allocate(1x :: a)"), ("Allocate", "allocate(pure :: a)"), ("Allocate", "allocate(pure real :: a)"),
    ("Allocate", "allocate(integer*x :: a)"), ("Allocate", "allocate(character(len=10) :: s)"), ("Allocate", "allocate(integer function f :: a)"),
    ("Case", "case (1:3, 5, 7:)"), ("Case", "case default"), ("Case", "case ((1))"), ("Case", "case (1) (2)"), ("Case", "case default nm"),
    ("Case", "case (f(1):g(2))"), ("Case", "case ('a':'f')"),
    ("TypeIs", "type is (real(8))"), ("TypeIs", "type is (integer) nm"), ("ClassIs", "class is (foo)"), ("ClassIs", "class default"),
    ("Data", "data a, b /1, 2/, c(1) /3*4.0/"), ("Data", "data a /1"), ("Data", "data"), ("Data", "data a / '/' /"),
    ("Equivalence", "equivalence (a, b(1)), (c, d)"), ("Equivalence", "equivalence (a, b),"), ("Equivalence", "equivalence (a, b) x"),
    ("Common", "common /blk/ a, b(3) /c/ d, // e"), ("Common", "common a, b"), ("Common", "common a /b/ c"), ("Common", "common /b/ c, d /"),
    ("Common", "common // a"), ("Common", "common /b"), ("Common", "common // a, b /c/ d"), ("Common", "common /c/ d // e // f, g / h / i"),
    ("Namelist", "namelist /nml/ a, b, /n2/ c"), ("Namelist", "namelist /nml/ a"), ("Namelist", "namelist a"), ("Namelist", "namelist /a"),
    ("Entry", "entry foo(a, b) result(r) bind(c, name='x y')"), ("Entry", "entry foo"), ("Entry", "entry foo() bind(c) result(r)"),
    ("Entry", "entry foo(a) junk"), ("Entry", "entry foo result(1x)"), ("Entry", "entry foo bind(c) bind(c)"), ("Entry", "entry foo(a"),
    ("SpecificBinding", "procedure(iface), pass(self), deferred :: p => q"), ("SpecificBinding", "procedure :: p"),
    ("SpecificBinding", "procedure, 1x :: p"), ("SpecificBinding", "procedure(a :: p"), ("SpecificBinding", "procedure p => q"),
    ("GenericBinding", "generic, public :: operator(+) => a, b"), ("GenericBinding", "generic :: g => a"),
    ("Bind", "bind(c, name='foo') :: a, /blk/"), ("Bind", "BIND(C) :: x"), ("Bind", "bind(c) /a"),
    ("Stop", "stop 'abc'"), ("Stop", "stop"), ("Stop", "stop 12"), ("Print", "print *, a(1), 'x,y'"), ("Print", "print '(a)', x"),
    ("Print", "print*"), ("Print", "print 10"), ("Print", "print fmt, a <= b"),
    ("Read", "read (5, *, end = 10) a, b(1)"), ("Read", "read *, a"), ("Read", "read (5"), ("Read", "read 'x'"),
    ("Write", "write (*, '(a, i3)') 'hello, world', n(1)"), ("Write", "write (6"), ("Write", "write(*,*)"),
    ("ArithmeticIf", "if (a(1) - b) 10, 20, 30"), ("ComputedGoto", "go to (10, 20), i+1"), ("ComputedGoto", "goto (10"),
    ("Intent", "intent(in out) :: a, b"), ("Intent", "intent(in) a,"), ("Intent", "intent(in"),
    ("ElseIf", "else if (a .eq. (b+1)) then"), ("ElseIf", "else if (a) then nm"), ("ElseWhere", "elsewhere (a > (b))"), ("ElseWhere", "else where"),
    ("Save", "save /blk/, a"), ("Save", "save"), ("Save", "save /blk"), ("Save", "save / /"), ("Save", "save a(1)"), ("Save", "save 1x"), ("Save", "save a, , b"),
    ("Format", "format (1x, 'a,b', i3)"), ("Assignment", "a(1)%b(2) = c(3) + 'x = y'"), ("PointerAssignment", "p => q(1)"),
    ("Assignment", "a(1) (2) x = 3"), ("Assignment", "a <= b"), ("Assignment", "a == b"), ("Assignment", "a /= b"), ("Assignment", "a => b"),
    ("PointerAssignment", "a = b"), ("GeneralAssignment", "a(i) = b >= c"), ("Assignment", "if_flag = .true."), ("Assignment", "do_count = do_count + 1"),
    ("Protected", "protected :: a, b"), ("Protected", "protected a(1)"), ("Import", "import"), ("Import", "import :: a"), ("FinalBinding", "final :: f1, f2"),
    ("Parameter", "parameter (a = 1, b = (/1, 2/))"), ("Inquire", "inquire (iolength = n) a, b(1)"), ("Inquire", "inquire (unit = 5"),
    ("Dimension", "dimension a(3, 4), b(n+1)"), ("ModuleProcedure", "module procedure :: a, b"), ("ModuleProcedure", "procedure a, 1b"),
    ("Wait", "wait (unit = 3, id = n(1))"), ("Rewind", "rewind 5"), ("Rewind", "rewind (unit = 5, err = 10)"),
    ("Enumerator", "enumerator :: a = 1, b"), ("Public", "public :: a, operator(+), assignment(=)"), ("Public", "public"), ("Private", "public"),
    ("Where", "where (a > 0) b(i+1) = c(i+2)"), ("Where", "where (a) b => c"), ("Where", "where (a)"), ("Where", "where (a) b <= c"),
    ("Forall", "forall (i=1:n, j=1:m:2, a(i,j) > 0) a(i,j) = b(i+1)*c(j+2)"), ("Forall", "forall (i=1:n, m1, m2) a(i) = 0"),
    ("Forall", "forall (i=1) a(i) = 0"), ("Forall", "forall (i=1:2:3:4) a(i) = 0"), ("Forall", "forall (i=) a(i) = 0"), ("Forall", "forall (i=1:n) p(i) => q"),
    ("Goto", "go to 10"), ("Goto", "goto10"), ("Cycle", "cycle outer"), ("Exit", "exit"), ("Return", "return n+1"), ("Continue", "continue"),
    ("Contains", "contains"), ("Sequence", "sequence"), ("Else", "else"), ("Else", "else nm"), ("Deallocate", "deallocate(a, stat=i)"),
    ("Close", "close(5, status='keep')"), ("Open", "open(unit=5, file='a,b.txt', status = \"old\")"), ("Nullify", "nullify(a, b%c)"),
    ("Target", "target :: a(3), b"), ("Pointer", "pointer a, b(:)"), ("Allocatable", "allocatable :: a(:,:)"), ("Volatile", "volatile a"),
    ("Value", "value :: a"), ("Intrinsic", "intrinsic sin, cos"), ("External", "external f"), ("Optional", "optional :: a"), ("Asynchronous", "asynchronous a"),
    ("Pause", "pause 1"),
]
ZOO_LABELLED = [("Format", "format (1x, 'a,b', i3)", 10), ("Format", "format ()", 20), ("Format", "format (", 30), ("Continue", "continue", 20),
                ("Where", "where (a > 0) b = c", 13), ("Forall", "forall (i=1:n) a(i) = 0", 7), ("Assignment", "x = 1", 12345), ("Else", "else", 5)]
ZOO_PARENT = [("Integer", "integer f, g", "f", True), ("Integer", "integer g", "f", True), ("Else", "else nm", "nm", False), ("ElseIf", "else if (a) then nm", "nm", False),
              ("Case", "case (1) nm", "nm", False), ("Case", "case default nm", "nm", False), ("ElseWhere", "elsewhere (a) nm", "nm", False),
              ("TypeIs", "type is (integer) nm", "nm", False), ("ClassIs", "class default nm", "nm", False), ("Real", "real(8) f", "f", True),
              ("Real", "real :: x, f, y(3)", "f", True), ("Character", "character(len=3) :: f, f", "f", True), ("Integer", "integer, save :: f = 1, f", "f", True)]

MUT_CHARS = "(),:=/'* %<>-+\"1a_"


def mutate(rng, s):
    if not s:
        return s
    k = rng.random()
    i = rng.randrange(len(s))
    if k < 0.4:
        return s[:i] + s[i + 1:]
    if k < 0.8:
        return s[:i] + rng.choice(MUT_CHARS) + s[i:]
    return s[:i] + rng.choice(MUT_CHARS) + s[i + 1:]


# ---------------------------------------------------------------------------------------------
# harvest
# ---------------------------------------------------------------------------------------------
def gen_sources(seed, n):
    from fv import gen
    out = []
    for k in range(n):
        try:
            p = gen.gen_program(seed * 100003 + k, std="f2003", max_depth=3, size=0.6)
            out.append(p.text())
        except Exception:  # noqa: BLE001
            continue
    return out


ANALYZE_SAMPLES = [
    "module m\n  implicit none\n  integer, public :: counter\n  real, private, save :: w(10)\n  integer, parameter, public :: n = 3\ncontains\n  subroutine s(a)\n    real, intent(in) :: a\n    counter = counter + 1\n  end subroutine s\nend module m\n",
    "module m2\n  private\n  public :: f\n  real, public, dimension(3) :: v\ncontains\n  function f(x)\n    real :: f, x\n    f = x\n  end function f\nend module m2\n",
    "subroutine t(a, b)\n  integer, intent(inout) :: a\n  real, optional, intent(in) :: b\n  common /blk/ c, d\n  data c /1.0/\n  a = 1\n  where (c > 0) d = 1\n  forall (i=1:3) e(i) = i\n  if (a > 0) a = a(i+1) + (b*2)\n13 continue\nend subroutine t\n",
]


def harvest(src, analyze):
    """-> list of (class name, item text, label, depth, parent name, parent is Function, text, dump) or None"""
    from fparser import api
    try:
        tree = api.parse(src, isfree=True, isstrict=False, analyze=analyze, ignore_comments=True)
    except BaseException:  # noqa: BLE001
        return None
    out = []

    def depth_of(st):
        d, p = 0, st.parent
        while isinstance(p, Statement):
            d += 1
            p = p.parent
        return d

    def walk(node):
        for st in getattr(node, "content", []):
            if isinstance(st, BeginStatement):
                walk(st)
                continue
            if isinstance(st, (EndStatement, S.Comment)) or not isinstance(st, Statement):
                continue
            if type(st).__name__ not in X.CLASSES or st.item is None:
                continue
            par = st.parent
            pfn = isinstance(par, B.Function)
            pname = getattr(par, "name", "")
            if not isinstance(pname, str):
                pname = ""
            try:
                text = st.tofortran()
            except Exception as e:  # noqa: BLE001
                text = "!EXC:" + type(e).__name__
            out.append((type(st).__name__, st.item.line, st.item.label, depth_of(st), pname, pfn, text, cnode(st)))
            for sub in getattr(st, "content", []) or []:
                if isinstance(sub, Statement) and sub.item is not None and type(sub).__name__ in X.CLASSES:
                    out.append((type(sub).__name__, sub.item.line, sub.item.label, depth_of(sub), "", False, sub.tofortran(), cnode(sub)))
    walk(tree)
    return out


def check_harvest(m, src, analyze, stats, bad):
    hs = harvest(src, analyze)
    if hs is None:
        stats["harvest:not-accepted"] = stats.get("harvest:not-accepted", 0) + 1
        return
    for cls, line, label, depth, pname, pfn, text, dump in hs:
        # the class the model is asked for is the one `process_item` was entered with
        ask = {"Read0": "Read", "Read1": "Read"}.get(cls, cls)
        b = model_one(m, ask, line, label, depth, pname if cls in ("Else", "ElseIf", "Case", "TypeIs", "ClassIs", "ElseWhere") or pfn else "", pfn, False)
        key = "harvest%s:%s" % (":analyze" if analyze else "", cls)
        stats[key] = stats.get(key, 0) + 1
        if cls in ("Else", "ElseIf", "Case", "TypeIs", "ClassIs", "ElseWhere") and not pname:
            pass
        if b["status"] != "ok" or b["cls"] != cls or b["dump"] != dump or b["text"] != text:
            bad.append(("harvest" + (":analyze" if analyze else ""), cls, line,
                        "real %r / %r\n      model %s %r / %r" % (text, dump, b["status"], b["text"], b["dump"])))


# ---------------------------------------------------------------------------------------------
# regexes: translated vs live
# ---------------------------------------------------------------------------------------------
def check_regexes(m, text, stats, bad):
    reqs = [("one3.match", c, text) for c in X.CLASSES + X.BLOCK_CLASSES]
    reps = m.ask_many(reqs)
    for c, rep in zip(X.CLASSES + X.BLOCK_CLASSES, reps):
        mm = cls_of(c).match(text)
        want = ["1", str(mm.end())] if mm else ["0", "-"]
        stats["regex-checks"] = stats.get("regex-checks", 0) + 1
        if rep != want:
            bad.append(("regex", c, text, "live %r translated %r" % (want, rep)))


# ---------------------------------------------------------------------------------------------
# negative controls
# ---------------------------------------------------------------------------------------------
class Patched:
    """replace a substring of a method's source; the patch MUST apply"""

    def __init__(self, owner, meth, old, new):
        self.owner, self.meth = owner, meth
        fn = owner.__dict__[meth]
        fn = X._unwrap(fn)
        src = textwrap.dedent(inspect.getsource(fn))
        assert old in src, (owner, meth, old)
        ns = {}
        mod = sys.modules[owner.__module__]
        exec(compile(src.replace(old, new), "<patched>", "exec"), mod.__dict__, ns)
        self.new = ns[meth]
        self.old = owner.__dict__[meth]

    def __enter__(self):
        setattr(self.owner, self.meth, self.new)
        SL.string_replace_map.__dict__.get("cache_clear", lambda: None)()

    def __exit__(self, *a):
        setattr(self.owner, self.meth, self.old)


def negative_controls(m):
    fails = []

    def expect_diff(name, clsname, line, **kw):
        a, b, d = compare(m, clsname, line, **kw)
        if not d:
            fails.append("%s: no alarm" % name)

    # sanity: unpatched, the probes agree
    probes = [("Use", "use m, only_x => y"), ("Integer", "integer, public :: a"), ("Where", "where (a > 0) b(i+1) = c(i+2)"),
              ("Assignment", "y = " + " + ".join("a(%d-i)" % j for j in range(1, 13)))]
    for c, l in probes:
        a, b, d = compare(m, c, l)
        if d:
            fails.append("probe %s %r disagrees before patching: %s" % (c, l, d))
    with Patched(S.Use, "process_item", 'line.lower().startswith("only") and line[4:].lstrip().startswith(":")', 'line.lower().startswith("only")'):
        expect_diff("Use startswith('only') without ':'", "Use", "use m, only_x => y")
    with Patched(SL.StringReplaceDict, "__call__", "line.replace(key, self[key], 1)", "line.replace(key, self[key])"):
        expect_diff("StringReplaceDict replaces every occurrence", "Assignment", probes[3][1])
    with Patched(T.TypeDeclarationStatement, "tofortran", 's += ", " + ", ".join(self.attrspec)',
                 's += ", " + ", ".join(a for a in self.attrspec if a.lower() not in ("public", "private"))'):
        expect_diff("printer drops PUBLIC/PRIVATE", "Integer", "integer, public :: a")
    with Patched(S.Where, "process_item", "newitem = self.item.copy(line, True)", "newitem = self.item.copy(line)"):
        expect_diff("WHERE body printed as placeholder", "Where", "where (a > 0) b(i+1) = c(i+2)")
    with Patched(S.Common, "tofortran", "elif bits:", "elif False:"):
        expect_diff("COMMON drops the slashes of a blank block", "Common", "common /c/ d, // e")
    with Patched(T.TypeDeclarationStatement, "process_item", "if others:", "if False:"):
        expect_diff("function typedecl drops the other entities", "Integer", "integer f, g", pname="f", pfn=True)
    # analyze() mutating attrspec: program level
    with Patched(T.TypeDeclarationStatement, "analyze", "attrspec = self.attrspec[:]", "attrspec = self.attrspec"):
        bad, st = [], {}
        check_harvest(m, ANALYZE_SAMPLES[0], True, st, bad)
        if not bad:
            fails.append("analyze() mutating attrspec: no alarm")
    # the model given another line than the real code
    a = real_one("Use", "use m, only: a")
    b = model_one(m, "Use", "use m, only: b")
    if all(a[k] == b[k] for k in KEYS):
        fails.append("model input changed: no alarm")
    return fails


# ---------------------------------------------------------------------------------------------
def main(argv=None):
    ap = argparse.ArgumentParser()
    ap.add_argument("--seed", type=int, default=1)
    ap.add_argument("--n", type=int, default=200)
    ap.add_argument("--verbose", action="store_true")
    a = ap.parse_args(argv)
    t0 = time.time()
    rng = random.Random(a.seed)
    m = Model(os.environ["FV_MODEL_EXE"]) if os.environ.get("FV_MODEL_EXE") else get_model()
    stats, bad, notes = {}, [], {}
    sh = Sh(rng)
    LIMIT = 50.0

    def one(tag, c, line, label=None, pname="", pfn=False, second=True):
        if time.time() - t0 > LIMIT:
            stats["time-cut"] = stats.get("time-cut", 0) + 1
            return
        ra, rb, d = compare(m, c, line, label, pname, pfn)
        stats["%s:%s" % (tag, ra["status"])] = stats.get("%s:%s" % (tag, ra["status"]), 0) + 1
        if ra["status"] == "raised":
            k = "real-raises:%s:%s" % (c, ra["exc"])
            notes.setdefault(k, line)
        if d:
            bad.append((tag, c, line, "; ".join("%s: real %r model %r" % (k, ra[k], rb[k]) for k in d)))
            return
        if second and ra["status"] == "ok" and not ra["text"].startswith("!EXC"):
            body = ra["text"]
            if label is not None:
                body = body[len(str(label)):]
            c2 = ra["cls"] if ra["cls"] not in ("Read0", "Read1") else "Read"
            r2a, r2b, d2 = compare(m, c2, body.strip(), None, pname, pfn)
            stats["round2:%s" % r2a["status"]] = stats.get("round2:%s" % r2a["status"], 0) + 1
            if d2:
                bad.append(("round2", c2, body, "; ".join("%s: real %r model %r" % (k, r2a[k], r2b[k]) for k in d2)))
            elif r2a["status"] != "ok" or r2a["text"].strip() != body.strip():
                notes.setdefault("no-fixpoint:%s:%s:%d" % (c, r2a["status"], len(line) % 7), "%r -> %r -> %s %r" % (line, body, r2a["status"], r2a["text"]))
                stats["round2:no-fixpoint"] = stats.get("round2:no-fixpoint", 0) + 1

    for c, l in ZOO:
        one("zoo", c, l)
    for c, l, lab in ZOO_LABELLED:
        one("zoo", c, l, label=lab)
    for c, l, pn, pfn in ZOO_PARENT:
        one("zoo", c, l, pname=pn, pfn=pfn)
    classes = [c for c in X.CLASSES if hasattr(sh, "g_" + c)]
    regex_lines = []
    for k in range(a.n):
        for c in classes:
            if time.time() - t0 > LIMIT * 0.55:
                stats["time-cut"] = stats.get("time-cut", 0) + 1
                break
            line = sh.gen(c)
            lab = rng.choice([None, None, None, 10, 12345]) if c != "Format" else rng.choice([10, 99999])
            one("shape", c, line, label=lab)
            if rng.random() < 0.5:
                one("mutant", c, mutate(rng, line), label=lab, second=False)
            if rng.random() < 0.03:
                regex_lines.append(line)
    for line in regex_lines[:max(10, a.n // 2)] + [l for _, l in ZOO[::7]]:
        if time.time() - t0 > LIMIT * 0.7:
            break
        try:
            ml = Line(line, (1, 1), None, None, reader()).get_line()
        except Exception:  # noqa: BLE001
            continue
        check_regexes(m, ml, stats, bad)
    srcs = ANALYZE_SAMPLES + gen_sources(a.seed, max(2, a.n // 8))
    for s in srcs:
        for an in (False, True):
            if time.time() - t0 > LIMIT * 0.95:
                stats["time-cut"] = stats.get("time-cut", 0) + 1
                continue
            check_harvest(m, s, an, stats, bad)
    fails = negative_controls(m)
    print("== one3 co-simulation: seed %d, n %d, %.1f s" % (a.seed, a.n, time.time() - t0))
    agg = {}
    for k, v in stats.items():
        if k.startswith("harvest"):
            k2 = k.rsplit(":", 1)[0] + ":*"
            agg[k2] = agg.get(k2, 0) + v
            agg.setdefault("harvest classes", set()).add(k.rsplit(":", 1)[1])
        else:
            agg[k] = v
    for k in sorted(agg):
        v = agg[k]
        print("   %-40s %s" % (k, len(v) if isinstance(v, set) else v))
    if a.verbose:
        for k in sorted(notes):
            print("   note %-50s %s" % (k, notes[k][:160]))
    else:
        print("   real code raises (class:exception kinds)   %d" % len([k for k in notes if k.startswith("real-raises")]))
        print("   classes with a non-fixpoint witness        %d" % len({k.split(":")[1] for k in notes if k.startswith("no-fixpoint")}))
    print("   negative controls: %s" % ("all alarm" if not fails else "; ".join(fails)))
    for tag, c, line, what in bad[:12 if not a.verbose else 1000]:
        print("DISAGREE [%s] %s %r\n      %s" % (tag, c, line, what))
    okay = not bad and not fails and stats.get("shape:ok", 0) > 0 and any(k.startswith("harvest") for k in stats)
    print("disagreements: %d" % len(bad))
    print("RESULT: %s" % ("PASS" if okay else "FAIL"))
    return 0 if okay else 1


if __name__ == "__main__":
    sys.exit(main())
