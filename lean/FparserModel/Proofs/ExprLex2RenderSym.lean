import FparserModel.Proofs.ExprLex2RenderChar

/-!
`lex_render`, the symbolic operator words: in a quiet context each of `** * / // + - == /= < <= > >=`
passes `segC`.
-/
namespace Fp.ExprLex
open Fp Fp.Expr

/-- after the blanks there is no single `/` (what `concat_op`, `[/]\s*[/]`, would join to a
preceding `/`) -/
def slashA (after : Str) : Bool :=
  match dropSp after with
  | '/' :: r2 => headIs r2 '/'
  | _ => true

theorem concat_div_none (prev : Option Char) (after : Str) (h : slashA after = true) :
    matchAt .concat prev ('/' :: after) = none := by
  simp only [matchAt]
  unfold slashA at h
  split at h <;> simp_all

syntax "sym_word" : tactic
macro_rules
  | `(tactic| sym_word) => `(tactic|
      (rename_i prev after hp ha
       obtain ⟨hp1, hp2⟩ := quietP_ne hp
       cases after with
       | nil =>
         simp [segC, segOK, allPats, inCls, tolerated, noHit, matchAt, tokAt, dotIn, dotWord, headIs,
           startsBlank, endsBlank, hp1, hp2, isSpace, dropSp]
       | cons c r =>
         simp only [quietA, Bool.not_eq_true'] at ha
         obtain ⟨h1, h2, h3, h4, h5, h6, h7, h8⟩ := opChar_ne ha
         simp [segC, segOK, allPats, inCls, tolerated, noHit, matchAt, tokAt, dotIn, dotWord, headIs,
           startsBlank, endsBlank, hp1, hp2, isSpace, dropSp, *]))

set_option linter.unusedSimpArgs false

theorem segC_pow (prev : Option Char) (after : Str) (hp : quietP prev = true) (ha : quietA after = true) :
    segC prev (.word .pow ['*','*']) after = true := by sym_word
theorem segC_mul (prev : Option Char) (after : Str) (hp : quietP prev = true) (ha : quietA after = true) :
    segC prev (.word .mul ['*']) after = true := by sym_word
theorem segC_concat (prev : Option Char) (after : Str) (hp : quietP prev = true) (ha : quietA after = true) :
    segC prev (.word .concat ['/','/']) after = true := by sym_word
theorem segC_plus (prev : Option Char) (after : Str) (hp : quietP prev = true) (ha : quietA after = true) :
    segC prev (.word .plus ['+']) after = true := by sym_word
theorem segC_minus (prev : Option Char) (after : Str) (hp : quietP prev = true) (ha : quietA after = true) :
    segC prev (.word .minus ['-']) after = true := by sym_word
theorem segC_eq (prev : Option Char) (after : Str) (hp : quietP prev = true) (ha : quietA after = true) :
    segC prev (.word .eq ['=','=']) after = true := by sym_word
theorem segC_ne (prev : Option Char) (after : Str) (hp : quietP prev = true) (ha : quietA after = true) :
    segC prev (.word .ne ['/','=']) after = true := by sym_word
theorem segC_lt (prev : Option Char) (after : Str) (hp : quietP prev = true) (ha : quietA after = true) :
    segC prev (.word .lt ['<']) after = true := by sym_word
theorem segC_le (prev : Option Char) (after : Str) (hp : quietP prev = true) (ha : quietA after = true) :
    segC prev (.word .le ['<','=']) after = true := by sym_word
theorem segC_gt (prev : Option Char) (after : Str) (hp : quietP prev = true) (ha : quietA after = true) :
    segC prev (.word .gt ['>']) after = true := by sym_word
theorem segC_ge (prev : Option Char) (after : Str) (hp : quietP prev = true) (ha : quietA after = true) :
    segC prev (.word .ge ['>','=']) after = true := by sym_word

theorem segC_div (prev : Option Char) (after : Str) (hp : quietP prev = true) (ha : quietA after = true)
    (hs : slashA after = true) : segC prev (.word .div ['/']) after = true := by
  have hc := concat_div_none prev after hs
  obtain ⟨hp1, hp2⟩ := quietP_ne hp
  simp only [segC, segOK, allPats, List.all_cons, List.all_nil, inCls, tolerated, noHit, List.cons_append,
    List.nil_append, hc]
  cases after with
  | nil =>
    simp [matchAt, tokAt, dotIn, dotWord, headIs, startsBlank, endsBlank, hp1, hp2, isSpace]
  | cons c r =>
    simp only [quietA, Bool.not_eq_true'] at ha
    obtain ⟨h1, h2, h3, h4, h5, h6, h7, h8⟩ := opChar_ne ha
    simp [matchAt, tokAt, dotIn, dotWord, headIs, startsBlank, endsBlank, hp1, hp2, isSpace, *]

end Fp.ExprLex
