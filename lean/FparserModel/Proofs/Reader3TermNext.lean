import FparserModel.Proofs.Reader3TermLoops

/-!
# Reader3TermNext — every `_next` call makes progress

`Prog r p` (for `p = op r`): the weight never grows; it strictly drops unless the answer is
`stop`; a `stop` either drops it or leaves an exhausted reader; `unsup` is never answered.

`get_source_item` (called with an empty FIFO), `popOrRead`, the comment-skipping loop `nextRaw`
(with fuel `> weight`, in particular `nextRawFuel`) and — when the raw item has no top-level `;`
— `_next` itself (`next1`) all satisfy it.
-/
namespace Fp.Reader
open Fp

structure Prog (r : Rd) (p : Res Item × Rd) : Prop where
  le : p.2.weight ≤ r.weight
  lt : p.1 ≠ .stop → p.2.weight < r.weight
  stop : p.1 = .stop → exhausted [p.2] = true ∨ p.2.weight < r.weight
  sup : p.1 ≠ .unsup

theorem Prog.of_lt {r : Rd} {p : Res Item × Rd} (h : p.2.weight < r.weight) (hs : p.1 ≠ .unsup) :
    Prog r p :=
  ⟨Nat.le_of_lt h, fun _ => h, fun _ => Or.inr h, hs⟩

theorem Prog.chain {a b : Rd} {p : Res Item × Rd} (h : b.weight ≤ a.weight) (hp : Prog b p) :
    Prog a p :=
  ⟨Nat.le_trans hp.le h, fun hs => Nat.lt_of_lt_of_le (hp.lt hs) h,
   fun hs => (hp.stop hs).imp id (fun x => Nat.lt_of_lt_of_le x h), hp.sup⟩

theorem getSourceItem_prog (r : Rd) (hfifo : r.fifo = []) : Prog r (getSourceItem r) := by
  unfold getSourceItem
  cases hq : getSingleLine r with
  | mk o r1 =>
    cases o with
    | none =>
      obtain ⟨h1, h2, h3, _⟩ := getSingleLine_none_term r r1 hq
      refine ⟨getSingleLine_weight_none r r1 hq, fun h => absurd rfl h, fun _ => Or.inl ?_, by simp⟩
      simp only [exhausted, h1, h2, h3, hfifo, List.isEmpty_nil, Bool.and_self]
    | some line0 =>
      have hw := getSingleLine_weight_some r r1 line0 hq
      simp only []
      by_cases c0 : (line0 != [] && startsWith (lstrip line0) ['#']) = true
      · simp only [c0, if_true]
        have hc := cppLoop_weight (r1.src.length + r1.filo.length + 2) line0 [] r1.linecount r1
        generalize cppLoop (r1.src.length + r1.filo.length + 2) line0 [] r1.linecount r1 = p at hc ⊢
        exact Prog.of_lt (by omega) hc.2
      · simp only [c0]
        generalize (if (r1.isFree && r1.omp) = true then replaceSentinelFree line0 else (line0, false)) = om
        by_cases c1 : (!r1.isFree) = true
        · simp only [c1, if_true]
          by_cases c2 : isFixCommentS om.1 = true
          · simp only [c2, if_true]
            exact Prog.of_lt (by show r1.weight < _; omega) (by simp)
          · simp only [c2, Bool.false_eq_true, if_false]
            cases colCheck om.1 with
            | comment =>
              simp only []
              exact Prog.of_lt (by show r1.weight < _; omega) (by simp)
            | synerr =>
              simp only []
              exact Prog.of_lt (by show r1.weight < _; omega) (mkSynErr_sup _ _ _)
            | switch =>
              simp only []
              have hp := freeItem_weight { r1 with isFree := true } om.1 om.2 r1.linecount
              generalize freeItem { r1 with isFree := true } om.1 om.2 r1.linecount = p at hp ⊢
              have hsf : ({ r1 with isFree := true } : Rd).weight = r1.weight := rfl
              exact Prog.of_lt (by omega) hp.2
            | fine =>
              simp only []
              have hp := fixedItem_weight r1 om.1 r1.linecount
              generalize fixedItem r1 om.1 r1.linecount = p at hp ⊢
              exact Prog.of_lt (by omega) hp.2
        · simp only [c1, Bool.false_eq_true, if_false]
          have hp := freeItem_weight r1 om.1 om.2 r1.linecount
          generalize freeItem r1 om.1 om.2 r1.linecount = p at hp ⊢
          exact Prog.of_lt (by omega) hp.2

theorem popOrRead_prog (r : Rd) : Prog r (popOrRead r) := by
  unfold popOrRead
  cases hf : r.fifo with
  | nil => exact getSourceItem_prog r hf
  | cons x f =>
    have := weight_setFifo r f
    rw [hf] at this
    simp only [List.length_cons] at this
    exact Prog.of_lt (by show ({ r with fifo := f } : Rd).weight < _; omega) (by simp)

/-- the comment-skipping loop of `_next`: with fuel above the weight (`nextRawFuel` is
    `weight + 3`) the fuel is never the reason for its `stop` -/
theorem nextRaw_prog : ∀ (n : Nat) (r : Rd), r.weight < n → Prog r (nextRaw n r)
  | 0, r, h => absurd h (Nat.not_lt_zero _)
  | n + 1, r, h => by
    unfold nextRaw
    have hp := popOrRead_prog r
    generalize popOrRead r = p at hp ⊢
    simp only []
    cases h1 : p.1 with
    | ok it =>
      simp only []
      split
      · have hlt := hp.lt (by rw [h1]; simp)
        exact Prog.chain hp.le (nextRaw_prog n p.2 (by omega))
      · exact hp
    | stop => exact hp
    | err => exact hp
    | exit => exact hp
    | unsup => exact hp

theorem weight_lt_nextRawFuel (r : Rd) : r.weight < nextRawFuel r := by
  simp only [Rd.weight, nextRawFuel]; omega

theorem nextRaw_fuel_prog (r : Rd) : Prog r (nextRaw (nextRawFuel r) r) :=
  nextRaw_prog _ r (weight_lt_nextRawFuel r)

/-- when the raw item is not split at `;`, `_next` is one round of the comment-skipping loop -/
theorem next1_eq_nextRaw (r : Rd)
    (h : ∀ it r', nextRaw (nextRawFuel r) r = (.ok it, r') → NoSemi it) :
    next1 r = nextRaw (nextRawFuel r) r := by
  cases hp : nextRaw (nextRawFuel r) r with
  | mk res r' =>
    cases res with
    | ok it =>
      exact next1_of_nextRaw r r' it _ hp (splitSemicolon_stable it r' (h it r' hp))
    | stop => rw [← hp]; exact next1_of_nextRaw_other r (fun it => by rw [hp]; simp)
    | err => rw [← hp]; exact next1_of_nextRaw_other r (fun it => by rw [hp]; simp)
    | exit => rw [← hp]; exact next1_of_nextRaw_other r (fun it => by rw [hp]; simp)
    | unsup => rw [← hp]; exact next1_of_nextRaw_other r (fun it => by rw [hp]; simp)

theorem next1_prog (r : Rd)
    (h : ∀ it r', nextRaw (nextRawFuel r) r = (.ok it, r') → NoSemi it) : Prog r (next1 r) := by
  rw [next1_eq_nextRaw r h]; exact nextRaw_fuel_prog r

/-! ### (H2) no logical line of the run is split at `;` -/

/-- the reader state after one `_next` call -/
def stepRd (r : Rd) : Rd := (next1 r).2

/-- the reader state after `k` `_next` calls -/
def iterRd : Nat → Rd → Rd
  | 0, r => r
  | k + 1, r => iterRd k (stepRd r)

/-- (H2): at every `_next` call of the run from `r`, the raw item that the comment-skipping loop
    delivers (popped from the FIFO or freshly read by `get_source_item`) has no top-level `;`
    (`NoSemi`: the `;` test of `_next` on `item.get_line()` is negative) -/
def NoSplit (r : Rd) : Prop :=
  ∀ k it r', nextRaw (nextRawFuel (iterRd k r)) (iterRd k r) = (.ok it, r') → NoSemi it

theorem NoSplit.head {r : Rd} (h : NoSplit r) :
    ∀ it r', nextRaw (nextRawFuel r) r = (.ok it, r') → NoSemi it := h 0

/-- `NoSplit` is closed under `_next` -/
theorem NoSplit.step {r : Rd} (h : NoSplit r) : NoSplit (stepRd r) := fun k => h (k + 1)

theorem NoSplit.prog {r : Rd} (h : NoSplit r) : Prog r (next1 r) := next1_prog r h.head

end Fp.Reader
