import FparserModel.Proofs.RefineMore
import FparserModel.Proofs.RefineGenuine

/-!
# RefineExist — every run of the block model can be FOLLOWED by the reader

`block_run_represented`: start the block model on the stream of a reader chain `st0` that
delivers `xs0`; whatever class is called and whatever the outcome, there IS a reader chain
represented (`Abs`) by the final stream — provided the items of `xs0` may be put back
(`returnable`) at the chains the reader goes through.  Ingredients: the matcher only handles
items it got (`run_in`), it touches the stream by `get` / `put` only (`opsR_ok`), and the shape
invariant `ShapeOK` of such streams.
-/
namespace Fp.Block

/-- shape of a stream reached from `St.init full` by `get` / `put`: `rest` is what is left of
    `full` after `pulled` items; `eof` only once everything has been pulled -/
def ShapeOK (full : List Item) (s : Stream) : Prop :=
  s.rest = full.drop s.pulled ∧ s.pulled ≤ full.length ∧ (s.eof = true → full.length ≤ s.pulled)

theorem drop_succ_of_cons {α} : ∀ (l : List α) (k : Nat) (y : α) (ys : List α),
    l.drop k = y :: ys → l.drop (k + 1) = ys ∧ k < l.length
  | [], k, y, ys, h => by simp at h
  | a :: l, 0, y, ys, h => by
    simp only [List.drop_zero, List.cons.injEq] at h
    simp [h.2]
  | a :: l, k + 1, y, ys, h => by
    simp only [List.drop_succ_cons] at h
    have := drop_succ_of_cons l k y ys h
    simp only [List.drop_succ_cons, List.length_cons]
    exact ⟨this.1, by omega⟩

theorem ShapeOK.get {full : List Item} {s : Stream} (h : ShapeOK full s) : ShapeOK full s.get.2 := by
  obtain ⟨h1, h2, h3⟩ := h
  unfold Stream.get
  cases hb : s.buf with
  | cons y b => exact ⟨h1, h2, h3⟩
  | nil =>
    cases hr : s.rest with
    | cons y r =>
      simp only
      rw [hr] at h1
      obtain ⟨hd, hlt⟩ := drop_succ_of_cons full s.pulled y r h1.symm
      refine ⟨hd.symm, ?_, fun he => ?_⟩
      · show s.pulled + 1 ≤ full.length; omega
      · have := h3 he; omega
    | nil =>
      simp only
      rw [hr] at h1
      refine ⟨h1, h2, fun _ => ?_⟩
      show full.length ≤ s.pulled
      have := congrArg List.length h1
      simp at this; omega

theorem ShapeOK.put {full : List Item} {s : Stream} (h : ShapeOK full s) (x : Item) :
    ShapeOK full (s.put x) := h

theorem ShapeOK.steps {full : List Item} {a b : Stream} (hs : SSteps a b) (h : ShapeOK full a) :
    ShapeOK full b := by
  induction hs with
  | refl => exact h
  | get _ ih => exact ih.get
  | put x _ ih => exact ih.put x

theorem ShapeOK.init (full : List Item) : ShapeOK full (St.init full).stream :=
  ⟨rfl, Nat.zero_le _, fun he => by cases he⟩

end Fp.Block

namespace Fp.Refine
open Fp Fp.Reader

variable {dir : Item → Bool} {d : Nat} {fs : Fs} {st0 : List Rd} {xs0 : List Item} {fin0 : List Rd}

theorem absItems_drop (dir : Item → Bool) : ∀ (xs : List Item) (n k : Nat),
    (absItems dir n xs).drop k = absItems dir (n + k) (xs.drop k)
  | xs, n, 0 => by simp
  | [], n, k + 1 => by simp [absItems]
  | x :: xs, n, k + 1 => by
    simp only [absItems, List.drop_succ_cons, absItems_drop dir xs (n + 1) k]
    congr 1; omega

/-- "is the image of the reader item at its position" -/
def Genuine (dir : Item → Bool) (xs0 : List Item) (a : Block.Item) : Prop :=
  ∃ x, xs0[a.id]? = some x ∧ a = absItem dir a.id x

theorem absItems_genuine (dir : Item → Bool) (xs0 : List Item) : ∀ (ys : List Item) (n : Nat),
    (∀ j, ys[j]? = xs0[n + j]?) → ∀ a ∈ absItems dir n ys, Genuine dir xs0 a
  | [], _, _, a, ha => by cases ha
  | y :: ys, n, h, a, ha => by
    simp only [absItems, List.mem_cons] at ha
    rcases ha with rfl | ha
    · refine ⟨y, ?_, rfl⟩
      have := h 0
      simp only [List.getElem?_cons_zero, Nat.add_zero] at this
      exact this.symm
    · exact absItems_genuine dir xs0 ys (n + 1) (fun j => by
        have := h (j + 1)
        simp only [List.getElem?_cons_succ] at this
        rw [this]; congr 1; omega) a ha

theorem decode_buf (dir : Item → Bool) (xs0 : List Item) : ∀ (l : List Block.Item),
    (∀ a ∈ l, Genuine dir xs0 a) →
    ∃ bx : List (Nat × Item), l = bx.map (fun p => absItem dir p.1 p.2) ∧
      ∀ p ∈ bx, xs0[p.1]? = some p.2
  | [], _ => ⟨[], rfl, fun p hp => by cases hp⟩
  | a :: l, h => by
    obtain ⟨bx, h1, h2⟩ := decode_buf dir xs0 l (fun b hb => h b (List.mem_cons_of_mem _ hb))
    obtain ⟨x, hx, ha⟩ := h a List.mem_cons_self
    refine ⟨(a.id, x) :: bx, by simp only [List.map_cons, ← ha, ← h1], fun p hp => ?_⟩
    rcases List.mem_cons.mp hp with rfl | hp
    · exact hx
    · exact h2 p hp

/-- a drain can be cut after any number of items -/
theorem getN_of_drains (d : Nat) (fs : Fs) : ∀ (k : Nat) (st : List Rd) (xs : List Item) (fin : List Rd),
    Drains d fs st (evItems xs) fin → k ≤ xs.length →
    ∃ hw, getN d fs k st = some (xs.take k, hw) ∧ Drains d fs hw (evItems (xs.drop k)) fin
  | 0, st, xs, fin, h, _ => ⟨st, by simp [getN], by simpa using h⟩
  | k + 1, st, [], fin, _, hk => by simp at hk
  | k + 1, st, x :: xs, fin, h, hk => by
    obtain ⟨st', hg, hd⟩ := Drains_inv_cons (by simpa [evItems] using h)
    obtain ⟨hw, h1, h2⟩ := getN_of_drains d fs k st' xs fin hd (by simpa using hk)
    refine ⟨hw, ?_, by simpa using h2⟩
    unfold getN
    simp only [hg, h1, Option.map_some, List.take_succ_cons]

theorem getN_ne_nil (d : Nat) (fs : Fs) : ∀ (k : Nat) (st hw : List Rd) (zs : List Item),
    getN d fs k st = some (zs, hw) → st ≠ [] → hw ≠ []
  | 0, st, hw, zs, h, hne => by
    simp only [getN, Option.some.injEq, Prod.mk.injEq] at h
    rw [← h.2]; exact hne
  | k + 1, st, hw, zs, h, hne => by
    obtain ⟨zs', stk, x, h1, h2, _⟩ := getN_unsnoc d fs k st hw zs h
    have := getItem_ne_nil d fs stk (getN_ne_nil d fs k st stk zs' h1 hne)
    rw [h2] at this; exact this

/-- EVERY well-shaped stream whose put-back items are genuine is the abstraction of a reader
    chain (the items must be `returnable` at the chains in question) -/
theorem abs_of_shape (hd : Drains (d + 1) fs st0 (evItems xs0) fin0) (hne : st0 ≠ [])
    (s : Block.Stream) (hsh : Block.ShapeOK (absItems dir 0 xs0) s)
    (hbuf : ∀ a ∈ s.buf, Genuine dir xs0 a)
    (hret : ∀ k zs hw r, k ≤ xs0.length → getN (d + 1) fs k st0 = some (zs, hw) →
      innermost hw = some r → ∀ x ∈ xs0, returnable fs r x = true)
    (hretF : ∀ r, innermost fin0 = some r → ∀ x ∈ xs0, returnable fs r x = true) :
    ∃ rd, Abs dir d fs st0 xs0 fin0 rd s := by
  obtain ⟨h1, h2, h3⟩ := hsh
  rw [absItems_length] at h2 h3
  rw [absItems_drop, Nat.zero_add] at h1
  obtain ⟨bx, hbx, hknown⟩ := decode_buf dir xs0 s.buf hbuf
  have hmem : ∀ p ∈ bx, p.2 ∈ xs0 := fun p hp => List.mem_of_getElem? (hknown p hp)
  obtain ⟨hw, hg, hdr⟩ := getN_of_drains (d + 1) fs s.pulled st0 xs0 fin0 hd h2
  have hwne := getN_ne_nil (d + 1) fs s.pulled st0 hw _ hg hne
  cases he : s.eof with
  | false =>
    obtain ⟨r, hr⟩ := innermost_isSome hw hwne
    refine ⟨putMany (bx.map Prod.snd) hw, bx, hw, r, rfl, hr, fun p hp => ⟨?_, hknown p hp⟩, hbx, h1, hdr,
      (fun _ => hg), (fun e => by rw [he] at e; cases e), h2⟩
    exact hret s.pulled _ hw r h2 hg hr p.2 (hmem p hp)
  | true =>
    have hle := h3 he
    have hnil : xs0.drop s.pulled = [] := List.drop_eq_nil_iff.mpr hle
    rw [hnil] at hdr
    obtain ⟨hfin, hex, _⟩ := Drains_inv_nil (by simpa [evItems] using hdr)
    have hfne : fin0 ≠ [] := by
      have := getItem_ne_nil (d + 1) fs hw hwne
      rw [hfin] at this; exact this
    obtain ⟨r, hr⟩ := innermost_isSome fin0 hfne
    refine ⟨putMany (bx.map Prod.snd) fin0, bx, fin0, r, rfl, hr, fun p hp => ⟨?_, hknown p hp⟩, hbx, h1, ?_,
      (fun e => by rw [he] at e; cases e), (fun _ => ⟨hle, hex⟩), h2⟩
    · exact hretF r hr p.2 (hmem p hp)
    · rw [hnil]; exact Drains_exhausted d fs fin0 hex

/-- a represented stream is well-shaped and all its items are genuine -/
theorem abs_shape {rd : List Rd} {s : Block.Stream} (h : Abs dir d fs st0 xs0 fin0 rd s) :
    Block.ShapeOK (absItems dir 0 xs0) s ∧ ∀ a ∈ s.all, Genuine dir xs0 a := by
  obtain ⟨bx, hw, r, hrd, hi, hb, hbuf, hrest, hdr, he0, he1, hle⟩ := h
  refine ⟨⟨?_, by rw [absItems_length]; exact hle, fun he => by rw [absItems_length]; exact (he1 he).1⟩, ?_⟩
  · rw [absItems_drop, Nat.zero_add]; exact hrest
  · intro a ha
    simp only [Block.Stream.all, List.mem_append] at ha
    rcases ha with ha | ha
    · rw [hbuf] at ha
      obtain ⟨p, hp, rfl⟩ := List.mem_map.mp ha
      exact ⟨p.2, (hb p hp).2, rfl⟩
    · rw [hrest] at ha
      exact absItems_genuine dir xs0 _ s.pulled (fun j => by simp) a ha

/-- REPRESENTATION IS PRESERVED BY EVERY CLASS CALL: if the stream of the state is represented
    by a reader chain, so is the stream after the call, whatever the class, table, oracle, fuel
    and outcome; the leaves of a returned tree are images of reader items at their positions -/
theorem abs_preserved_by_run (hd : Drains (d + 1) fs st0 (evItems xs0) fin0) (hne : st0 ≠ [])
    (hret : ∀ k zs hw r, k ≤ xs0.length → getN (d + 1) fs k st0 = some (zs, hw) →
      innermost hw = some r → ∀ x ∈ xs0, returnable fs r x = true)
    (hretF : ∀ r, innermost fin0 = some r → ∀ x ∈ xs0, returnable fs r x = true)
    (env : Block.Env) (fuel : Nat) (c : Block.Cls) (st : Block.St) (rd : List Rd)
    (h : Abs dir d fs st0 xs0 fin0 rd st.stream) :
    (∃ rd', Abs dir d fs st0 xs0 fin0 rd' (Block.run env fuel c st).2.stream) ∧
    (∀ t, (Block.run env fuel c st).1 = .tree t → ∀ a ∈ t.frontier, Genuine dir xs0 a) := by
  obtain ⟨hsh0, hgen0⟩ := abs_shape h
  have hrun := Block.run_in (P := Genuine dir xs0) env fuel c st hgen0
  have hops := Block.run_rel (Block.opsR_ok env) fuel c st
  have hsh := Block.ShapeOK.steps hops hsh0
  refine ⟨abs_of_shape hd hne _ hsh (fun a ha => hrun.1 a ?_) hret hretF, fun t ht => ?_⟩
  · simp [Block.Stream.all, ha]
  · have := hrun.2
    rw [ht] at this
    exact this

/-- THE READER CAN FOLLOW EVERY RUN OF THE BLOCK MODEL: run any class of any table with any
    oracle on the stream of the reader chain `st0`; for every outcome there is a reader chain
    represented by the final stream, and every leaf of a returned tree is the image of a reader
    item at its position -/
theorem block_run_represented (hd : Drains (d + 1) fs st0 (evItems xs0) fin0) (hne : st0 ≠ [])
    (hret : ∀ k zs hw r, k ≤ xs0.length → getN (d + 1) fs k st0 = some (zs, hw) →
      innermost hw = some r → ∀ x ∈ xs0, returnable fs r x = true)
    (hretF : ∀ r, innermost fin0 = some r → ∀ x ∈ xs0, returnable fs r x = true)
    (env : Block.Env) (fuel : Nat) (c : Block.Cls) :
    (∃ rd, Abs dir d fs st0 xs0 fin0 rd
      (Block.run env fuel c (Block.St.init (absItems dir 0 xs0))).2.stream) ∧
    (∀ t, (Block.run env fuel c (Block.St.init (absItems dir 0 xs0))).1 = .tree t →
      ∀ a ∈ t.frontier, Genuine dir xs0 a) := by
  have hin : Block.SIn (Genuine dir xs0) (Block.St.init (absItems dir 0 xs0)) := by
    intro a ha
    exact absItems_genuine dir xs0 xs0 0 (fun j => by simp) a
      (by simpa [Block.St.init, Block.Stream.all] using ha)
  have hrun := Block.run_in env fuel c _ hin
  have hops := Block.run_rel (Block.opsR_ok env) fuel c (Block.St.init (absItems dir 0 xs0))
  have hsh := Block.ShapeOK.steps hops (Block.ShapeOK.init _)
  refine ⟨abs_of_shape hd hne _ hsh (fun a ha => hrun.1 a ?_) hret hretF, fun t ht => ?_⟩
  · simp [Block.Stream.all, ha]
  · have := hrun.2
    rw [ht] at this
    exact this

end Fp.Refine
