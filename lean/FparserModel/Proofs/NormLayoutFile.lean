import FparserModel.Proofs.NormLayout

/-! `lexF_layout`, assembly: tokens → chains → statements → files -/
namespace Fp.Norm
open Fp

/-- modes in which a token may be met: a label only at the beginning of a statement, a
    numeral starting with a digit not there -/
def modeOK (m : Mode) : WTok → Prop
  | .label _ => m = .bol
  | .num n => m ≠ .bol ∨ n.int = []
  | _ => True

theorem Lexes.tok {t : WTok} {s : Str} {ts : List Tok} (m : Mode) (hok : t.ok = true)
    (hm : modeOK m t) (ha : okAfter t s = true) (h : Lexes .mid s ts) :
    Lexes m (t.text ++ s) (t.tok :: ts) := by
  cases t with
  | name w => exact Lexes.name m hok ha h
  | num n => exact Lexes.num m hok hm ha h
  | chr pfx q raw =>
    simp only [WTok.ok, Bool.and_eq_true, Bool.or_eq_true, beq_iff_eq] at hok
    obtain ⟨⟨hq, hraw⟩, hp⟩ := hok
    rcases hp with rfl | ⟨hp, hl⟩
    · simpa [WTok.text, WTok.tok] using Lexes.chr0 m hq hraw ha h
    · simpa [WTok.text, WTok.tok] using Lexes.chrP m hq hraw hp hl ha h
  | boz w q raw => simpa [WTok.text, WTok.tok] using Lexes.boz m hok ha h
  | dot ls kd => simpa [WTok.text, WTok.tok] using Lexes.dot m hok ha h
  | op1 c => exact Lexes.op1 m hok ha h
  | op2 a b => exact Lexes.op2 m hok h
  | label ds =>
    simp only [WTok.ok, Bool.and_eq_true, Bool.not_eq_true', List.isEmpty_eq_false_iff] at hok
    simp only [modeOK] at hm
    subst hm
    exact Lexes.label hok.1 hok.2 ha h

/-! ### what may follow a token -/

def sepChar (c : Char) : Bool := c == ' ' || c == '&' || c == '!' || c == '\n' || c == ';'

theorem sepChar_cases {c : Char} (h : sepChar c = true) :
    c = ' ' ∨ c = '&' ∨ c = '!' ∨ c = '\n' ∨ c = ';' := by
  simpa [sepChar, or_assoc] using h

theorem isOp2_sep {a c : Char} (h : sepChar c = true) : isOp2 a c = false := by
  rcases sepChar_cases h with rfl | rfl | rfl | rfl | rfl <;> simp [isOp2]

theorem quote_ne_sep {q c : Char} (hq : isQuote q = true) (h : sepChar c = true) :
    (c == q) = false := by
  have : isQuote c = false := by
    rcases sepChar_cases h with rfl | rfl | rfl | rfl | rfl <;> decide
  cases hcq : c == q
  · rfl
  · simp at hcq; subst hcq; rw [hq] at this; cases this

theorem okAfter_sep {t : WTok} (hok : t.ok = true) {c : Char} (hc : sepChar c = true) (r : Str) :
    okAfter t (c :: r) = true := by
  have hw : isWord c = false := by
    rcases sepChar_cases hc with rfl | rfl | rfl | rfl | rfl <;> decide
  have hq : isQuote c = false := by
    rcases sepChar_cases hc with rfl | rfl | rfl | rfl | rfl <;> decide
  have hdot : dotCond (c :: r) = true := by
    rcases sepChar_cases hc with rfl | rfl | rfl | rfl | rfl <;> simp [dotCond]
  cases t with
  | name w => simp [okAfter, headIs, hw, hq]
  | num n => simp [okAfter, headIs, hw, hdot]
  | chr pfx q raw =>
    simp only [WTok.ok, Bool.and_eq_true] at hok
    simp [okAfter, headIs, quote_ne_sep hok.1.1 hc]
  | boz w q raw =>
    simp only [WTok.ok, Bool.and_eq_true] at hok
    simp [okAfter, headIs, quote_ne_sep hok.1.1.1 hc]
  | dot ls kd =>
    have : (c == '_') = false := by
      rcases sepChar_cases hc with rfl | rfl | rfl | rfl | rfl <;> decide
    cases kd <;> simp [okAfter, headIs, hw, this]
  | op1 a => simp [okAfter, headIs, isOp2_sep hc]
  | op2 a b => simp [okAfter]
  | label ds => simp [okAfter, headIs, notWord_not_digit hw]

theorem okAfter_nil (t : WTok) : okAfter t [] = true := by
  cases t with
  | dot ls kd => cases kd <;> simp [okAfter, headIs]
  | _ => simp [okAfter, headIs, dotCond]

/-- the text of a well-formed token is not empty -/
theorem WTok.text_cons {t : WTok} (hok : t.ok = true) : ∃ c r, t.text = c :: r := by
  cases t with
  | name w =>
    cases w with
    | nil => simp [WTok.ok, nameOK] at hok
    | cons c r => exact ⟨c, r, rfl⟩
  | num n =>
    obtain ⟨c, cs, h, _⟩ := num_head hok []
    exact ⟨c, cs, by simpa [WTok.text] using h⟩
  | chr pfx q raw =>
    cases pfx with
    | nil => exact ⟨_, _, rfl⟩
    | cons c r => exact ⟨c, _, rfl⟩
  | boz w q raw => exact ⟨_, _, rfl⟩
  | dot ls kd => exact ⟨_, _, rfl⟩
  | op1 c => exact ⟨_, _, rfl⟩
  | op2 a b => exact ⟨_, _, rfl⟩
  | label ds =>
    cases ds with
    | nil => simp [WTok.ok] at hok
    | cons c r => exact ⟨c, r, rfl⟩

theorem dotCond_append {t : WTok} (hok : t.ok = true) (s : Str) :
    dotCond (t.text ++ s) = dotCond t.text := by
  obtain ⟨c, r, hcr⟩ := WTok.text_cons hok
  by_cases hc : c = '.'
  · subst hc
    cases t with
    | name w =>
      cases w with
      | nil => simp [WTok.ok, nameOK] at hok
      | cons c r =>
        simp [WTok.text] at hcr
        simp only [WTok.ok, nameOK, hcr.1, Bool.and_eq_true] at hok
        exact absurd hok.1 (by decide)
    | num n =>
      obtain ⟨hint, _, _, hfrac⟩ := NumLit.ok_parts hok
      obtain ⟨c', cs', h', hc'⟩ := num_head hok []
      simp only [List.append_nil] at h'
      simp only [WTok.text] at hcr ⊢
      rw [hcr] at h'
      simp at h'
      obtain ⟨rfl, rfl⟩ := h'
      rcases hc' with hc' | ⟨_, _, hd⟩
      · exact absurd hc' (by decide)
      · rw [hcr]
        cases r with
        | nil => simp at hd
        | cons d0 dr =>
          simp at hd
          have h1 : dottedLen (d0 :: dr ++ s) = none :=
            dottedLen_none_of_head (by simp [headIs, digit_not_alpha hd])
          have h2 : dottedLen (d0 :: dr) = none :=
            dottedLen_none_of_head (by simp [headIs, digit_not_alpha hd])
          simp only [List.cons_append, dotCond] at h1 ⊢
          rw [h1, h2]
    | chr pfx q raw =>
      simp only [WTok.ok, Bool.and_eq_true, Bool.or_eq_true, beq_iff_eq] at hok
      obtain ⟨⟨hq, _⟩, hp⟩ := hok
      rcases hp with rfl | ⟨hp, _⟩
      · simp [WTok.text] at hcr; rw [hcr.1] at hq; exact absurd hq (by decide)
      · cases pfx with
        | nil => simp [nameOK] at hp
        | cons c0 r0 =>
          simp [WTok.text] at hcr
          simp [nameOK, hcr.1] at hp
          exact absurd hp.1 (by decide)
    | boz w q raw =>
      simp only [WTok.ok, Bool.and_eq_true] at hok
      simp [WTok.text] at hcr
      have := hok.2
      rw [hcr.1] at this
      exact absurd this (by decide)
    | dot ls kd =>
      simp only [WTok.ok, Bool.and_eq_true, Bool.not_eq_true', List.isEmpty_eq_false_iff] at hok
      have h1 := dottedLen_letters ls (kindText kd ++ s) hok.1.1 hok.1.2
      have h2 := dottedLen_letters ls (kindText kd) hok.1.1 hok.1.2
      simp only [WTok.text, List.cons_append, List.append_assoc, dotCond] at h1 ⊢
      rw [h1, h2]
    | op1 c =>
      simp [WTok.text] at hcr
      simp only [WTok.ok, hcr.1] at hok
      exact absurd hok (by decide)
    | op2 a b =>
      simp [WTok.text] at hcr
      have := isOp2_first hok
      rw [hcr.1] at this
      exact absurd this (by decide)
    | label ds =>
      simp only [WTok.ok, Bool.and_eq_true] at hok
      simp only [WTok.text] at hcr
      rw [hcr] at hok
      simp only [List.all_cons, Bool.and_eq_true] at hok
      exact absurd hok.2.1 (by decide)
  · rw [hcr]
    simp only [List.cons_append, dotCond]
    split
    · rename_i heq; simp at heq; exact absurd heq.1 hc
    · split
      · rename_i heq; simp at heq; exact absurd heq.1 hc
      · rfl

theorem okAfter_append {t1 t2 : WTok} (hok : t2.ok = true) (s : Str) :
    okAfter t1 (t2.text ++ s) = okAfter t1 t2.text := by
  obtain ⟨c, r, hcr⟩ := WTok.text_cons hok
  have hh : ∀ p : Char → Bool, headIs p (t2.text ++ s) = headIs p t2.text := by
    intro p; rw [hcr]; rfl
  cases t1 with
  | num n => simp only [okAfter, hh, dotCond_append hok]
  | dot ls kd => cases kd <;> simp only [okAfter, hh]
  | _ => simp only [okAfter, hh]

/-! ### gaps -/

theorem Lexes.fill {s : Str} {ts : List Tok} (fl : List (Nat × Option Str)) (hok : fillOK fl = true)
    (h : Lexes .cont s ts) : Lexes .cont (fillText fl ++ s) ts := by
  induction fl with
  | nil => simpa [fillText] using h
  | cons p r ih =>
    obtain ⟨k, cm⟩ := p
    simp only [fillOK, List.all_cons, Bool.and_eq_true] at hok
    have := Lexes.blanks k (Lexes.cmt cm hok.1 (Lexes.nl_cont (ih (by simpa [fillOK] using hok.2))))
    simpa [fillText, List.append_assoc] using this

theorem Lexes.gap {s : Str} {ts : List Tok} (g : Gap) (hg : g.ok = true)
    (h : ∀ m, m ≠ .bol → Lexes m s ts) : Lexes .mid (g.text ++ s) ts := by
  cases g with
  | blanks k => exact Lexes.blanks k (h .mid (by decide))
  | cont k1 k2 cm fl k3 amp =>
    simp only [Gap.ok, Bool.and_eq_true] at hg
    have hA : Lexes .cont (ampText amp ++ s) ts := by
      cases amp with
      | none => simpa [ampText] using h .cont (by decide)
      | some k4 =>
        simpa [ampText] using Lexes.amp_cont (Lexes.blanks k4 (h .mid (by decide)))
    have hC := Lexes.fill fl hg.2 (Lexes.blanks k3 hA)
    have hG := Lexes.amp_mid k2 cm (Lexes.blanks k2 (Lexes.cmt cm hg.1 (Lexes.nl_cont hC)))
    have := Lexes.blanks k1 hG
    simpa [Gap.text, List.append_assoc] using this

theorem gap_head {g : Gap} (h : g.isEmpty = false) : ∃ c r, g.text = c :: r ∧ sepChar c = true := by
  cases g with
  | blanks k =>
    cases k with
    | zero => simp [Gap.isEmpty] at h
    | succ k => exact ⟨' ', Fp.Norm.blanks k, by simp [Gap.text, Fp.Norm.blanks, List.replicate_succ], by decide⟩
  | cont k1 k2 cm fl k3 amp =>
    cases k1 with
    | zero => exact ⟨'&', _, by simp [Gap.text, Fp.Norm.blanks]; rfl, by decide⟩
    | succ k => exact ⟨' ', _, by simp [Gap.text, Fp.Norm.blanks, List.replicate_succ]; rfl, by decide⟩

theorem gap_empty_text {g : Gap} (h : g.isEmpty = true) : g.text = [] := by
  cases g with
  | blanks k =>
    cases k with
    | zero => rfl
    | succ k => simp [Gap.isEmpty] at h
  | cont k1 k2 cm fl k3 amp => simp [Gap.isEmpty] at h

/-! ### a chain of tokens up to the end of the statement -/

theorem modeOK_inner {t : WTok} (h : innerOK t = true) {m : Mode} (hm : m ≠ .bol) : modeOK m t := by
  cases t <;> simp_all [modeOK, innerOK]

theorem Lexes.chain (tail : Str) (ts : List Tok)
    (htail : tail = [] ∨ ∃ c r, tail = c :: r ∧ sepChar c = true) (h : Lexes .mid tail ts) :
    ∀ (rest : List (Gap × WTok)) (t1 : WTok) (m : Mode), t1.ok = true → modeOK m t1 →
      chainOK t1 rest = true →
      Lexes m (t1.text ++ (restText rest ++ tail)) (t1.tok :: (rest.map (·.2.tok) ++ ts)) := by
  intro rest
  induction rest with
  | nil =>
    intro t1 m hok hm _
    rcases htail with rfl | ⟨c, r, rfl, hc⟩
    · simpa [restText] using Lexes.tok m hok hm (okAfter_nil t1) h
    · simpa [restText] using Lexes.tok m hok hm (okAfter_sep hok hc r) h
  | cons p rest ih =>
    intro t1 m hok hm hch
    obtain ⟨g, t2⟩ := p
    simp only [chainOK, Bool.and_eq_true, Bool.or_eq_true, Bool.not_eq_true'] at hch
    obtain ⟨⟨⟨⟨hg, hok2⟩, hin⟩, hglue⟩, hch2⟩ := hch
    have hnext : ∀ m', m' ≠ .bol →
        Lexes m' (t2.text ++ (restText rest ++ tail)) (t2.tok :: (rest.map (·.2.tok) ++ ts)) :=
      fun m' hm' => ih t2 m' hok2 (modeOK_inner hin hm') hch2
    have hgap := Lexes.gap g hg hnext
    have hafter : okAfter t1 (g.text ++ (t2.text ++ (restText rest ++ tail))) = true := by
      cases hge : g.isEmpty
      · obtain ⟨c, r, hcr, hc⟩ := gap_head hge
        rw [hcr]
        exact okAfter_sep hok hc _
      · rw [gap_empty_text hge, List.nil_append, okAfter_append hok2]
        rcases hglue with h' | h'
        · rw [hge] at h'; cases h'
        · exact h'
    have := Lexes.tok m hok hm hafter hgap
    simpa [restText, List.append_assoc] using this

/-! ### lines without statement, statements, files -/

theorem Lexes.lines {s : Str} {ts : List Tok} (ls : List (Nat × LineEnd)) (hok : linesOK ls = true)
    (h : Lexes .bol s ts) : Lexes .bol (linesText ls ++ s) ts := by
  induction ls with
  | nil => simpa [linesText] using h
  | cons p r ih =>
    obtain ⟨k, e⟩ := p
    simp only [linesOK, List.all_cons, Bool.and_eq_true] at hok
    have hr := ih (by simpa [linesOK] using hok.2)
    have he : Lexes .bol (e.text ++ (linesText r ++ s)) ts := by
      cases e with
      | nl => exact Lexes.nl_bol hr
      | semi => exact Lexes.semi_bol hr
      | cmt cm =>
        have := Lexes.cmt (some cm) (by simpa [cmtOK, LineEnd.ok] using hok.1) (Lexes.nl_bol hr)
        simpa [LineEnd.text, cmtText] using this
    simpa [linesText, List.append_assoc] using Lexes.blanks k he

theorem modeOK_first {t : WTok} (h : firstOK t = true) : modeOK .bol t := by
  cases t <;> simp_all [modeOK, firstOK]

theorem Lexes.eos_nil : Lexes .mid [] [.eos] := by
  intro n hn
  cases n with
  | zero => simp at hn
  | succ n => simp [lexGo]

theorem Lexes.stmt {s : Str} {ts : List Tok} (st : Stmt) (hok : st.ok = true)
    (he : st.term = .eof → s = []) (h : Lexes .bol s ts) :
    Lexes .bol (st.text ++ s) (st.toks ++ ts) := by
  simp only [Stmt.ok, Bool.and_eq_true] at hok
  obtain ⟨⟨⟨⟨hpre, hfirst⟩, hfo⟩, hch⟩, hterm⟩ := hok
  -- the end of the statement
  have hT : Lexes .mid (st.term.text ++ s) (.eos :: ts) := by
    cases hte : st.term with
    | semi => exact Lexes.semi_mid h
    | nl cm =>
      rw [hte] at hterm
      simpa [Term.text] using Lexes.cmt cm (by simpa [Term.ok] using hterm) (Lexes.nl_mid h)
    | eof =>
      have hs := he hte
      subst hs
      have hts : ts = [] := by
        have := h 1 (by simp)
        simpa [lexGo] using this.symm
      subst hts
      simpa [Term.text] using Lexes.eos_nil
  have htail : Lexes .mid (Fp.Norm.blanks st.trail ++ (st.term.text ++ s)) (.eos :: ts) :=
    Lexes.blanks _ hT
  have hhead : Fp.Norm.blanks st.trail ++ (st.term.text ++ s) = [] ∨
      ∃ c r, Fp.Norm.blanks st.trail ++ (st.term.text ++ s) = c :: r ∧ sepChar c = true := by
    cases st.trail with
    | succ k => exact Or.inr ⟨' ', _, by simp [Fp.Norm.blanks, List.replicate_succ]; rfl, by decide⟩
    | zero =>
      cases hte : st.term with
      | semi => exact Or.inr ⟨';', s, by simp [Fp.Norm.blanks, Term.text], by decide⟩
      | nl cm =>
        cases cm with
        | none => exact Or.inr ⟨'\n', s, by simp [Fp.Norm.blanks, Term.text, cmtText], by decide⟩
        | some c => exact Or.inr ⟨'!', _, by simp [Fp.Norm.blanks, Term.text, cmtText]; rfl, by decide⟩
      | eof => exact Or.inl (by simp [Fp.Norm.blanks, Term.text, he hte])
  have hc := Lexes.chain _ _ hhead htail st.rest st.first .bol hfirst (modeOK_first hfo) hch
  have := Lexes.lines st.pre hpre (Lexes.blanks st.lead hc)
  simpa [Stmt.text, Stmt.toks, List.append_assoc] using this

theorem Lexes.stmts {ts : List Tok} (post : List (Nat × LineEnd)) (sts : List Stmt)
    (hok : sts.all Stmt.ok = true) (heof : eofOK sts post = true)
    (h : Lexes .bol (linesText post) ts) :
    Lexes .bol (stmtsText sts ++ linesText post) (sts.flatMap Stmt.toks ++ ts) := by
  induction sts with
  | nil => simpa [stmtsText] using h
  | cons st r ih =>
    simp only [List.all_cons, Bool.and_eq_true] at hok
    cases r with
    | nil =>
      have he : st.term = .eof → stmtsText [] ++ linesText post = [] := by
        intro e
        simp only [eofOK, e, bne_self_eq_false, Bool.false_or, List.isEmpty_iff] at heof
        simp [stmtsText, heof, linesText]
      have := Lexes.stmt st hok.1 he (ih hok.2 (by simp [eofOK]))
      simpa [stmtsText, List.append_assoc] using this
    | cons st2 r2 =>
      simp only [eofOK, Bool.and_eq_true, bne_iff_ne, ne_eq] at heof
      have := Lexes.stmt st hok.1 (fun e => absurd e heof.1) (ih hok.2 heof.2)
      simpa [stmtsText, List.append_assoc] using this

theorem Lexes.file (f : File) (hok : f.ok = true) : Lexes .bol f.text f.toks := by
  simp only [File.ok, Bool.and_eq_true] at hok
  have hp : Lexes .bol (linesText f.post) [] := by
    simpa using Lexes.lines f.post hok.1.2 Lexes.nil_bol
  simpa [File.text, File.toks] using Lexes.stmts f.post f.stmts hok.1.1 hok.2 hp

end Fp.Norm
