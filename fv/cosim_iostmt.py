"""Co-simulation of the IoStmt model (lean/FparserModel/IoStmt.lean) against the real hand-written
leaf classes of the execution part (fparser/two/Fortran2003.py + Fortran2008/), with the REAL child
classes as oracle.

For every modelled class, both standards, every sample string:

* the real `cls.match(string)` runs with `Base.__new__` wrapped, recording the DIRECT child calls
  (child class, text handed over, node / NoMatchError / other exception);
* the compiled model is asked `iostmt.match std cls text <answered calls>`; whenever it needs a
  child call that is not answered yet it replies `ask cls text`, the harness answers it from the
  recording (or, if the real code never made that call, by calling the real class - and counts a
  disagreement) and asks again: the sequence of `ask`s is the model's call sequence;
* required: the same child calls in the same order with the same texts, the same outcome (tuple /
  no match / WHICH exception escapes), item-wise the same tuple (None / str / the very object the
  k-th call returned / a list of them / a KeywordValue node with its keyword blanked), and, when
  the class accepts, the model's `tostr` of those items == `str(node)` of the real object;
* leaf round trip on the real code (statistics; C01 leaf findings, not part of the exit code):
  `t1 = str(cls(text))`, `cls(t1)` accepted with `str(...) == t1`.

Samples: `(type(node).__name__, node.string)` for every node of a modelled class in the trees of
`--n` generated programs (`fv.gen.gen_program`, parsed under f2003 when possible and f2008),
statements of `gen.G(...).io_stmt()/format_stmt()/action()/loop_control()`, a shape generator that
covers every optional part of every class (`shapes`), the probes listed in the brief
(`format(*)`, `write(*,*)`, `deallocate(a stat=i)`, `do while (c))`, `allocate(a, mold=)` …), and
for each of them: one-token deletions / duplications, parenthesis insertions, blank/case layout
variants, empty pieces.

Run time is bounded: every sample obeys `admissible` (length, bracket depth) and runs under a
per-sample SIGALRM limit raising a BaseException; `--max-seconds` (default 12 + 0.16*n) is a wall
clock budget after which sampling stops (reported).  Deterministic in (seed, n).

NEGATIVE CONTROL (every invocation, `negative_control`): on fixed cases
  (0) unmodified real code and driver -> no disagreement;
  (1..k) the real method is replaced IN THIS PROCESS by a copy of its own source with one
      realistic edit (source patched with str.replace and re-exec'ed in the module namespace):
        Write_Stmt.match        "no output list" decided by `line.endswith(")")`
        Loop_Control.match      the matching `)` of WHILE no longer has to be the last character
        Format_Item(2008).match the `len(strip_string) > 1` guard dropped (IndexError on `*`)
        Loop_Control(2008).match CONCURRENT tested before the F2003 forms
        Arithmetic_If_Stmt.match `rfind` -> `find`
        Format_Item_List.match  the repair fa6d1cf reverted (`int("1 2")`: ValueError escapes again)
        Read_Stmt.tostr         an assert that fires on parsed input
      each must be REPORTED as a disagreement on at least one fixed case;
  (last) one driver answer flipped -> reported.
A control that does not behave like this makes the exit code 1.

    timeout 600 /venv/bin/python -m fv.cosim_iostmt --seed 0 --n 200
"""
import argparse
import collections
import inspect
import os
import random
import signal
import sys
import textwrap
import time

from fv import repo
from fv import model as fvmodel

repo.activate()

from fparser.two import utils as U                     # noqa: E402
from fparser.two import Fortran2003 as F3              # noqa: E402
from fparser.two import Fortran2008 as F8              # noqa: E402
from fparser.two.parser import ParserFactory           # noqa: E402

STDS = ("f2003", "f2008")

MODELLED = [
    "Write_Stmt", "Read_Stmt", "Print_Stmt", "Io_Control_Spec_List", "Io_Control_Spec",
    "Open_Stmt", "Close_Stmt", "Inquire_Stmt", "Connect_Spec", "Close_Spec", "Inquire_Spec",
    "Connect_Spec_List", "Close_Spec_List", "Inquire_Spec_List",
    "Format_Stmt", "Format_Specification", "Format_Item", "Format_Item_List", "Control_Edit_Desc",
    "Loop_Control", "Label_Do_Stmt", "Nonlabel_Do_Stmt", "If_Stmt", "If_Then_Stmt", "Else_If_Stmt",
    "Select_Case_Stmt", "Case_Stmt", "Case_Selector", "Case_Value_Range", "Case_Value_Range_List",
    "Where_Stmt", "Forall_Header", "Forall_Triplet_Spec", "Forall_Triplet_Spec_List", "Forall_Stmt",
    "Forall_Construct_Stmt", "Allocate_Stmt", "Alloc_Opt", "Alloc_Opt_List", "Allocation",
    "Allocation_List", "Deallocate_Stmt", "Dealloc_Opt", "Dealloc_Opt_List", "Nullify_Stmt",
    "Stop_Stmt", "Error_Stop_Stmt", "Goto_Stmt", "Computed_Goto_Stmt", "Arithmetic_If_Stmt",
    "Call_Stmt", "Actual_Arg_Spec", "Actual_Arg_Spec_List",
]
ONLY_2008 = {"Error_Stop_Stmt"}

MAX_LEN = 110
MAX_DEPTH = 3
MAX_GROUPS = 6


def admissible(s):
    if len(s) > MAX_LEN or "\n" in s:
        return False
    depth = best = groups = 0
    for ch in s:
        if ch in "([":
            depth += 1
            groups += 1
            best = max(best, depth)
        elif ch in ")]":
            depth = max(0, depth - 1)
    if "F2PY" in s and best > 0:
        return False      # placeholder-looking text inside a group: minutes in the real matcher
    return best <= MAX_DEPTH and groups <= MAX_GROUPS


# ------------------------------------------------------------------------------- time limit

class CaseTimeout(BaseException):
    """per-sample limit; a BaseException so that `except Exception` clauses cannot swallow it"""


def _alarm(signum, frame):
    raise CaseTimeout()


class time_limit:
    def __init__(self, seconds=2.0):
        self.seconds = seconds

    def __enter__(self):
        self.old = signal.signal(signal.SIGALRM, _alarm)
        signal.setitimer(signal.ITIMER_REAL, self.seconds, 1.0)

    def __exit__(self, *a):
        signal.setitimer(signal.ITIMER_REAL, 0)
        signal.signal(signal.SIGALRM, self.old)
        return False


# ------------------------------------------------------------------------------- real side

# exec-generated `*_List` classes of the Fortran2008 package that no rule of a parse refers to
# (the F2003 rules bind the F2003 lists by name); two of them raise NameError on every input
# (finding of the Combi slice), `Format_Item_List` there is a plain SequenceBase list
F2008_UNREACHABLE = {"Format_Item_List", "Allocation_List", "Actual_Arg_Spec_List"}


def cls_of(std, name):
    if std == "f2008" and name not in F2008_UNREACHABLE:
        c = getattr(F8, name, None)
        if c is not None:
            return c
    if name in ONLY_2008:
        return None
    return getattr(F3, name, None)


class Recorder:
    """wraps Base.__new__; records the calls made at depth 1"""

    def __init__(self):
        self.depth = 0
        self.calls = []

    def __enter__(self):
        self.orig = U.Base.__dict__["__new__"]
        orig = self.orig.__func__ if isinstance(self.orig, staticmethod) else self.orig
        rec = self

        def new(cls, string, parent_cls=None, _deepcopy=False):
            rec.depth += 1
            top = rec.depth == 1
            try:
                try:
                    r = orig(cls, string, parent_cls, _deepcopy)
                except U.NoMatchError:
                    if top:
                        rec.calls.append((cls.__name__, string, "nomatch", None))
                    raise
                except Exception as e:  # noqa: BLE001
                    if top:
                        rec.calls.append((cls.__name__, string, "raises", type(e).__name__))
                    raise
                if top:
                    rec.calls.append((cls.__name__, string, "ok", r))
                return r
            finally:
                rec.depth -= 1

        U.Base.__new__ = new
        return self

    def __exit__(self, *a):
        U.Base.__new__ = self.orig
        return False


def real_match(cls, text):
    """-> (outcome, result, calls); outcome = ok | nomatch | raises:<Type>"""
    with Recorder() as rec:
        try:
            r = cls.match(text)
            if r is None:
                out = "nomatch"
            elif isinstance(r, tuple):
                out = "ok"
            else:
                out = "raises:NotATuple"
        except U.NoMatchError:
            r, out = None, "nomatch"
        except Exception as e:  # noqa: BLE001
            r, out = None, "raises:" + type(e).__name__
    return out, r, rec.calls


def build_obj(cls, text, result):
    """what Base.__new__ does with a tuple"""
    obj = object.__new__(cls)
    obj.string = text
    obj.item = None
    U._set_parent(obj, result)
    if hasattr(cls, "init"):
        obj.init(*result)
    return obj


def answer_fields(call):
    """the 5 answer fields of a recorded call: str rhsStr head heads flag"""
    name, text, kind, r = call
    if kind == "nomatch":
        return ["", "", "-", "", ""]
    if kind == "raises":
        return ["", "", "-", "", r]
    try:
        s = str(r)
    except Exception as e:  # noqa: BLE001
        s = "<str raises %s>" % type(e).__name__
    rhs, head, heads, flag = "", "-", "", "0"
    items = getattr(r, "items", None)
    if isinstance(items, tuple) and len(items) == 2 and isinstance(r, U.KeywordValueBase):
        try:
            rhs = str(items[1])
        except Exception:  # noqa: BLE001
            rhs = ""
        if isinstance(items[0], str):
            head = "+" + items[0]
        elif items[0] is None and type(r).__name__ == "Io_Control_Spec":
            # blanked by Io_Control_Spec_List after the call: the call itself is pure, redo it
            try:
                r2 = type(r)(text)
                if isinstance(r2.items[0], str):
                    head = "+" + r2.items[0]
                s = str(r2)
            except Exception:  # noqa: BLE001
                pass
    if isinstance(r, U.SequenceBase):
        hs = []
        for c in r.children:
            ch = getattr(c, "children", None)
            if ch and isinstance(ch[0], str):
                hs.append("+" + ch[0])
            else:
                hs.append("-")
        heads = ",".join(hs)
    if isinstance(r, (F3.Data_Edit_Desc, F3.Data_Edit_Desc_C1002)):
        flag = "1"
    return [s, rhs, head, heads, flag]


def flatten_items(name, std, obj, result):
    """`self.items` in the conventions of the model (Loop_Control's pair flattened)"""
    items = list(obj.items)
    if name == "Loop_Control" and len(items) >= 3 and isinstance(items[1], tuple):
        var, exprs = items[1]
        items = [items[0], var, list(exprs)] + items[2:]
    return items


# ------------------------------------------------------------------------------- one sample

class Checker:
    def __init__(self, mdl, verbose=False):
        self.m = mdl
        self.stats = collections.Counter()
        self.per_cls = collections.Counter()
        self.per_cls_ok = collections.Counter()
        self.bad = []
        self.leaf = {}
        self.exc = {}
        self.verbose = verbose

    def disagree(self, std, name, text, msg):
        self.stats["disagree"] += 1
        if len(self.bad) < 60:
            self.bad.append("%s %s(%r): %s" % (std, name, text, msg))

    def check(self, std, name, text):
        cls = cls_of(std, name)
        if cls is None:
            return
        self.stats["samples"] += 1
        self.per_cls[name] += 1
        out, result, calls = real_match(cls, text)
        # ---- the model, answered from the recording
        table = []          # answered entries: (name, text, kind, fields)
        asked = []
        used = [False] * len(calls)
        reply = None
        for _round in range(200):
            req = ["iostmt.match", std, name, text]
            for (n, t, k, f) in table:
                req += [n, t, k] + f
            reply = self.m.ask(*req)
            if reply[0] != "ask":
                break
            qn, qt = reply[1], reply[2]
            asked.append((qn, qt))
            idx = None
            for i, c in enumerate(calls):
                if c[0] == qn and c[1] == qt:
                    idx = i
                    break
            if idx is None:
                # the model makes a call the real code did not make
                self.disagree(std, name, text, "model calls %s(%r), real calls: %r"
                              % (qn, qt, [(c[0], c[1], c[2]) for c in calls]))
                return
            used[idx] = True
            c = calls[idx]
            table.append((qn, qt, c[2], answer_fields(c) + []))
            # remember which object answered
            table[-1] = table[-1] + ()
        else:
            self.disagree(std, name, text, "ask loop did not end")
            return
        if reply[0] == "unmodelled":
            self.stats["unmodelled"] += 1
            return
        # ---- call sequence
        real_seq = []
        for c in calls:
            if (c[0], c[1]) not in real_seq:
                real_seq.append((c[0], c[1]))
        if asked != real_seq:
            self.disagree(std, name, text, "call sequence: model %r, real %r" % (asked, real_seq))
            return
        # ---- outcome
        if reply[0] == "nomatch":
            mout = "nomatch"
        elif reply[0] == "raises":
            e = reply[1]
            mout = "raises:" + (e[6:] if e.startswith("child:") else e)
        else:
            mout = "ok"
        if out.startswith("raises:"):
            key = (name, out)
            if key not in self.exc or len(text) < len(self.exc[key][1]):
                self.exc[key] = (std, text)
        if mout != out:
            self.disagree(std, name, text, "outcome: model %s, real %s" % (mout, out))
            return
        self.stats["agree_" + out.split(":")[0]] += 1
        if out != "ok":
            return
        self.per_cls_ok[name] += 1
        # ---- items
        try:
            obj = build_obj(cls, text, result)
        except Exception as e:  # noqa: BLE001
            self.disagree(std, name, text, "real init raises %s" % type(e).__name__)
            return
        ritems = flatten_items(name, std, obj, result)
        n = int(reply[1])
        pos = 2
        mitems = []
        for _ in range(n):
            k = reply[pos]
            if k == "N":
                mitems.append(("N",))
                pos += 1
            else:
                mitems.append((k, reply[pos + 1]))
                pos += 2
        tail = reply[pos:]

        class _Key:
            """the (class, text) of the call that produced an object"""
            def __init__(self, k):
                self.k = k

            def __eq__(self, other):
                return self.k is not None and self.k == other

        def entry_obj(i):
            return (table[int(i)][0], table[int(i)][1])

        def key_of(obj):
            for c in calls:
                if c[3] is obj and c[2] == "ok":
                    return (c[0], c[1])
            return None

        ok = len(mitems) == len(ritems)
        if ok:
            for mi, ri in zip(mitems, ritems):
                if mi[0] == "N":
                    ok = ri is None
                elif mi[0] == "S":
                    ok = isinstance(ri, str) and ri == mi[1]
                elif mi[0] == "T":
                    ok = key_of(ri) == entry_obj(mi[1]) and key_of(ri) is not None and not _is_bare(ri)
                elif mi[0] == "B":
                    ok = key_of(ri) == entry_obj(mi[1]) and key_of(ri) is not None and _is_bare(ri)
                elif mi[0] == "L":
                    ids = [x for x in mi[1].split(",") if x]
                    ok = isinstance(ri, list) and len(ri) == len(ids) and \
                        all(key_of(a) is not None and key_of(a) == entry_obj(b) for a, b in zip(ri, ids))
                if not ok:
                    break
        if not ok:
            self.disagree(std, name, text, "items: model %r, real %r" % (mitems, ritems))
            return
        # ---- printed text
        try:
            rstr = ("str", str(obj))
        except Exception as e:  # noqa: BLE001
            rstr = ("strraises", type(e).__name__)
        if tuple(tail[:2]) != rstr:
            self.disagree(std, name, text, "tostr: model %r, real %r" % (tuple(tail[:2]), rstr))
            return
        self.stats["agree_str"] += 1
        # ---- leaf round trip on the real code (statistics only)
        if rstr[0] == "str":
            self.leaf_roundtrip(std, name, cls, text, rstr[1])

    def leaf_roundtrip(self, std, name, cls, text, t1):
        try:
            o1 = cls(text)
            if type(o1) is not cls:
                return
            s1 = str(o1)
            o2 = cls(s1)
            good = str(o2) == s1 and type(o2) is cls
        except U.NoMatchError:
            good = False
        except Exception:  # noqa: BLE001
            good = False
        self.stats["leaf_rt"] += 1
        if not good:
            self.stats["leaf_rt_fail"] += 1
            if name not in self.leaf or len(text) < len(self.leaf[name][1]):
                self.leaf[name] = (std, text)


def _is_bare(node):
    items = getattr(node, "items", None)
    return isinstance(node, U.KeywordValueBase) and isinstance(items, tuple) and len(items) == 2 \
        and items[0] is None and type(node).__name__ == "Io_Control_Spec"


# ------------------------------------------------------------------------------- samples

PROBES = {
    "Format_Stmt": ["format(*)", "FORMAT(1 2habc)", "format(1 2habcdefghijkl, i3)", "format(1 2 habcdefghijkl)", "format(1 0h          )", "format()", "format(*(i5))", "format(i5,*(i5,1x))",
                    "format(3habc, i2)", "format(2/, a)", "format(a/b:c)", "format(1p,e10.3)",
                    "format('a,b)(', i3)", "format(i5,)", "format((a)", "format(a))"],
    "Format_Item": ["*", "*(a)", "* (a)", "2(a)", "2 (a, i5)", "2", "", " ", "(a)", "a", "1pe10.3", "*()", "*a"],
    "Format_Item_List": ["1 2habc", "1 0h", "1 2habcdefghijkl, i3", "1 2 habcdefghijkl/", "1  0habcdefghij:a", "3habc", "3habcd", "3habc/", "/,a", "a//b", "2/", "2 /a", "2",
                         "a,", ",a", "a,,b", ":", "a:b", "12 habcdefghijkl,a", "'x,y',a", "i5,2(a,b)/"],
    "Control_Edit_Desc": ["/", ":", "$", "2/", "2 /", "1p", "-1 P", "p", "", " ", "//", "x"],
    "Write_Stmt": ["write(*,*)", "write(*,*) a(1)", "write(*,*) a, b(i)", "WRITE (6, '(a)') 'x)'",
                   "write(*,*) a)", "write((*,*) a", "write()", "write( )", "write", "write(*,*)) a",
                   "write(unit=6, fmt=*) f(x), g(y)", "write(6) (a(i), i=1,n)"],
    "Read_Stmt": ["read(*,*)", "read(5,*) a, b", "read *, a", "read '(a)', x", "read 10, a", "read(5)",
                  "read x, a", "read *", "read *,", "read", "read(5,*)) a", "read ( ) a"],
    "Print_Stmt": ["print *", "print *, a", "print*,a(1)", "print 10, a", "print '(a,b)', x", "print *,",
                   "print", "printx", "print (a), b"],
    "Inquire_Stmt": ["inquire(unit=1, exist=l)", "inquire(iolength=n) a, b", "inquire(iolength=n) a(1)",
                     "inquire(iolength = n) x", "inquire()", "inquire(10)", "inquire(x) y", "inquire(iolength n) y",
                     "inquire(iolengthx=n) y"],
    "Open_Stmt": ["open(10)", "open(unit=10, file='x')", "open(newunit=u, file='x')", "open(unit=1, newunit=u)",
                  "open(file='x')", "open(unit=1, unit=2)", "open()", "open(10", "open 10)"],
    "Close_Stmt": ["close(10)", "close(unit=10, status='keep')", "close()", "close(10))", "close((10)"],
    "Io_Control_Spec_List": ["*", "*,*", "6, '(a)'", "unit=6", "6, nml=grp", "6, grp", "fmt=*", "6, fmt=*, nml=g",
                             "6, *, fmt=*", "unit=6, fmt=*", "6,", ",6", "6, 100, iostat=ios", "6, *, err=9",
                             "x, y, z", "unit=6, unit=7", ""],
    "Io_Control_Spec": ["unit=6", "UNIT = 6", "fmt=*", "end=10", "iostat=ios", "foo=1", "unit=", "=6", "6", "rec = i+1",
                        "advance='no'", "end=x"],
    "Connect_Spec": ["10", "unit=10", "file='a=b'", "newunit=u", "convert='big'", "status=", "foo=1", "err=x", ""],
    "Close_Spec": ["10", "unit=10", "status='keep'", "err=x", "foo=1", "iostat=", ""],
    "Inquire_Spec": ["10", "unit=10", "exist=l", "file='f'", "foo=l", "recl=", ""],
    "Loop_Control": ["i = 1, n", "i=1,n,2", ", i = 1, n", "while (c)", ", while (c)", "while (c))", "while ((c)",
                     "while (a) .and. (b)", "WHILE(x>0)", "concurrent (i=1:n)", ", concurrent (i=1:n, j=1:m, i/=j)",
                     "concurrent", "i = 1", "i = 1,2,3,4", "i = 1, f(a,b)", "i == 1, 2", "while", "whilex = 1, 2",
                     "concurrent = 1, 2", " ", "", ",", "while (c) x", "i = a(1,2), b"],
    "Label_Do_Stmt": ["do 10 i = 1, n", "do 10", "do 10, i=1,n", "do 10 while (c)", "do 10 while (c))",
                      "do 123456 i=1,2", "do10i=1,2", "do i = 1, n", "do 10 concurrent (i=1:n)", "do"],
    "Nonlabel_Do_Stmt": ["do", "do i = 1, n", "do while (c)", "do while (c))", "do, i=1,n", "doi=1,n", "do concurrent (i=1:n)",
                         "do 10 i=1,n"],
    "If_Stmt": ["if (a) x = 1", "if (a(1)) call s(b)", "if (a) ) x = 1", "if ((a) x = 1", "if (a)", "if a x = 1",
                "if (a .and. (b)) goto 10", "if(x)y=1", "if (a) if (b) x = 1", "if ('a)' == c) x = 1"],
    "If_Then_Stmt": ["if (a) then", "if (a .and. (b)) then", "if (a) .and. (b) then", "if a then", "if () then",
                     "if (a)) then", "ifthen", "if (a) the", "IF(X)THEN", "if ((a) then"],
    "Else_If_Stmt": ["else if (a) then", "elseif (a) then", "else if (a) then nm", "else if (a)) then", "else if (a then",
                     "else if (a) (b) then", "else if a then", "else if (a)", "else if (a) thenx", "elseif(a)then"],
    "Select_Case_Stmt": ["select case (i)", "selectcase(i)", "select case (i))", "select case i", "select case ()",
                         "select case ((i)", "select type (i)", "select case (a) (b)"],
    "Case_Stmt": ["case (1)", "case (1, 2:3)", "case default", "case default nm", "case (1) nm", "casedefault",
                  "case (1))", "case ((1)", "case", "case 1", "case ('a)')", "case defaultx", "CASE DEFAULT", "case (1) (2)"],
    "Case_Selector": ["(1)", "default", "DEFAULT", "(1:2, 5)", "()", "1", "(1", "1)", "(1))", "defaults"],
    "Case_Value_Range": ["1:2", ":2", "1:", "1", ":", "1:2:3", "'a:b':'c'"],
    "Where_Stmt": ["where (a > 0) b = 1", "where (a) ", "where () b = 1", "where (a)) b = 1", "where ((a) b = 1",
                   "where a b = 1", "where (m(1)) x(1) = 2", "where(a)b=1"],
    "Forall_Header": ["(i=1:n)", "(i=1:n, j=1:m)", "(i=1:n, a(i) > 0)", "(i=1:n, j=1:m, i /= j)", "()", "( )", "(i=1:n",
                      "i=1:n)", "(i=1:n))", "(i)", "(i=1:n,)", "(,i=1:n)"],
    "Forall_Triplet_Spec": ["i=1:n", "i = 1 : n : 2", "i=1", "i=1:2:3:4", "=1:2", "i=:", "i=a(1:2):3", "i", "i=1:n:", "i==1:2"],
    "Forall_Stmt": ["forall (i=1:n) a(i) = 0", "forall (i=1:n)", "forall (i=1:n)) a(i) = 0", "forall i=1:n a(i)=0",
                    "forall(i=1:n,j=1:m)a(i,j)=0", " forall (i=1:n) a(i) = b(i) ", "forall ((i=1:n) a(i)=0"],
    "Forall_Construct_Stmt": ["forall (i=1:n)", "forall", "forall (i=1:n, a(i)>0)", "forall x"],
    "Allocate_Stmt": ["allocate(a)", "allocate(a(n), b(m))", "allocate(a(n), stat=i)", "allocate(real :: a(n))",
                      "allocate(real::a(n), stat=i, errmsg=e)", "allocate(a, mold=)", "allocate(a, mold=b)",
                      "allocate(a, source=b)", "allocate(stat=i)", "allocate(a stat=i)", "allocate()", "allocate(a))",
                      "allocate((a)", "allocate a", "allocate(t(k=1) :: a)", "allocate(a(n) , stat = i )"],
    "Alloc_Opt": ["stat=i", "errmsg=e", "source=b", "mold=b", "mold=", "foo=b", "stat", "STAT = i", "stat=1+"],
    "Allocation": ["a(n)", "a", "a(n)(m)", "a()", "a(n", "a%b(1:2)", "(n)"],
    "Deallocate_Stmt": ["deallocate(a)", "deallocate(a, b)", "deallocate(a, stat=i)", "deallocate(a stat=i)",
                        "deallocate(stat=i)", "deallocate()", "deallocate(a))", "deallocate(a, stat=i, errmsg=e)",
                        "deallocate(a,)", "deallocate a"],
    "Dealloc_Opt": ["stat=i", "errmsg=e", "source=b", "stat=", "stat", "STAT=i"],
    "Nullify_Stmt": ["nullify(p)", "nullify(p, q%r)", "nullify()", "nullify(p))", "nullify p", "NULLIFY (p)"],
    "Stop_Stmt": ["stop", "stop 1", "stop 'msg'", "stop 1 ", "stopx", "stop 123456", "stop -1", "stop a//b"],
    "Error_Stop_Stmt": ["error stop", "error stop 1", "error stop 'x'", "errorstop", "error  stop", "error stop 1 "],
    "Goto_Stmt": ["goto 10", "go to 10", "goto", "go to x", "GO TO 99999", "goto 10 20", "goto (10) i"],
    "Computed_Goto_Stmt": ["goto (10, 20) i", "go to (10,20), i+1", "goto (10) , i", "goto () i", "goto (10)", "goto (10,",
                           "goto (10)) i", "goto (10) (i)", "goto 10, i", "goto (10,20) ,"],
    "Arithmetic_If_Stmt": ["if (x) 10, 20, 30", "if (a(1)) 1,2,3", "if (x) 10, 20", "if (x) 10,20,30,40", "if x 1,2,3",
                           "if (x)) 1,2,3", "if ((x) 1,2,3", "if (x) 1,2,(3)", "if (x) , ,", "if (x) 1 , 2 , 3 "],
    "Call_Stmt": ["call s", "call s()", "call s(a)", "call s(a, b=c)", "call a%b(1)%c(x)", "call s(a))", "call s((a)",
                  "call", "callfoo(x)", "call s(a) b", "call s ( )", "call s(')')", "call s(a(1), 'x(')", "call (s)"],
    "Actual_Arg_Spec": ["a", "k=a", "k=", "=a", "k = a + 1", "a == b", "*10"],
    "Actual_Arg_Spec_List": ["a", "a, b", "a, k=b", "a,,b", ", a", "f(a,b), c", "'a,b', c"],
    "Connect_Spec_List": ["10", "unit=10, file='x'", "10, status='old', iostat=i", "", "10,"],
    "Close_Spec_List": ["10", "unit=10, status='keep'", "10,"],
    "Inquire_Spec_List": ["unit=10, exist=l", "10", "file='f', opened=o"],
    "Alloc_Opt_List": ["stat=i", "stat=i, errmsg=e", "stat=i,"],
    "Dealloc_Opt_List": ["stat=i", "stat=i, errmsg=e"],
    "Allocation_List": ["a", "a(n), b(m)", "a(n,m)"],
    "Case_Value_Range_List": ["1", "1, 2:3", "1,"],
    "Forall_Triplet_Spec_List": ["i=1:n", "i=1:n, j=1:m", "i=1:n, a(i)>0"],
    "Format_Specification": ["()", "(a)", "(i5, a)", "( )", "(a", "a)", "((a))"],
}

ATOMS = ["a", "b(1)", "x%y", "f(a, b)", "n+1", "'s t'", "'p)q'", "\"q(\"", "1.0e3", "i", "10", "c(i:j)", "(a+b)*c"]
LOGS = ["a", "x > 0", "a .and. (b .or. c)", ".not. f(x)", "s == 'a)'", "(p)"]


def shapes(rng, k):
    """statements of every modelled shape with every optional part switched on/off"""
    A = lambda: rng.choice(ATOMS)      # noqa: E731
    L = lambda: rng.choice(LOGS)       # noqa: E731
    lab = lambda: str(rng.randint(1, 99999))     # noqa: E731
    sp = lambda: rng.choice(["", " ", "  "])    # noqa: E731
    kw = lambda s: rng.choice([s, s.upper(), s.capitalize()])    # noqa: E731
    out = collections.defaultdict(list)
    for _ in range(k):
        ctl = rng.choice(["*,*", "6, '(a)'", "unit=6, fmt=*", "6, 100, iostat=ios", "u, nml=grp", "*, %s" % lab(),
                          "6", "unit = 6 , advance = 'no', fmt = '(a)'", "6, grp", "6, fmt=100, err=%s" % lab()])
        items = rng.choice(["", A(), "%s, %s" % (A(), A()), "(%s, i=1,n)" % A()])
        out["Write_Stmt"].append("%s%s(%s)%s%s" % (kw("write"), sp(), ctl, sp(), items))
        out["Io_Control_Spec_List"].append(ctl)
        out["Read_Stmt"].append(rng.choice([
            "%s%s(%s)%s%s" % (kw("read"), sp(), ctl, sp(), items),
            "%s %s, %s" % (kw("read"), rng.choice(["*", lab(), "'(a)'"]), A()),
            "%s %s" % (kw("read"), rng.choice(["*", lab()]))]))
        out["Print_Stmt"].append("%s%s%s%s" % (kw("print"), sp() or " ", rng.choice(["*", lab(), "'(a, i3)'", "fmtv"]),
                                               rng.choice(["", ", %s" % A(), ",%s , %s" % (A(), A())])))
        cs = rng.sample(["unit=10", "file='f.dat'", "status='old'", "iostat=ios", "err=%s" % lab(), "newunit=u",
                         "action='read'", "convert='native'", "recl=n*4", "iomsg=msg"], rng.randint(1, 4))
        if rng.random() < 0.3:
            cs = ["10"] + [c for c in cs if not c.startswith("unit")]
        out["Open_Stmt"].append("%s%s(%s)" % (kw("open"), sp(), (","+sp()).join(cs)))
        out["Connect_Spec"].extend(cs[:2])
        out["Close_Stmt"].append("%s(%s)" % (kw("close"), rng.choice(["10", "unit=10", "u, status='delete'", "unit=u, iostat=i, err=9"])))
        out["Inquire_Stmt"].append(rng.choice([
            "%s(%s)" % (kw("inquire"), rng.choice(["unit=10, exist=l", "file='x', opened=o, number=n", "10, name=nm"])),
            "%s(%s%s=%s%s)%s%s" % (kw("inquire"), kw("iolength"), sp(), sp(), rng.choice(["n", "len(1)"]), sp(),
                                   rng.choice([A(), "%s, %s" % (A(), A())]))]))
        fitems = [rng.choice(["i5", "f10.3", "a", "2x", "/", ":", "3(i2,1x)", "'lit'", "1p,e10.3", "2/", "es12.4e2",
                              "3habc", "*(i5)", "(a)", "2 (a)", "t10", "$", "10 hello wrld", "'a,b)('"])
                  for _ in range(rng.randint(0, 4))]
        fl = ""
        for i, it in enumerate(fitems):
            if i and not (rng.random() < 0.3 and (it in "/:" or fitems[i - 1] in ("/", ":", "2/"))):
                fl += "," + sp()
            fl += it
        out["Format_Stmt"].append("%s%s(%s%s%s)" % (kw("format"), sp(), sp(), fl, sp()))
        out["Format_Item_List"].append(fl)
        out["Format_Item"].extend(fitems[:2])
        out["Format_Specification"].append("(%s)" % fl)
        for it in fitems[:2]:
            out["Control_Edit_Desc"].append(it)
        lc = rng.choice(["%s%s=%s%s,%s%s" % ("i", sp(), sp(), A(), sp(), A()),
                         "i = %s, %s, %s" % (A(), A(), A()),
                         "%s%s(%s)" % (kw("while"), sp(), L()),
                         "%s%s(i=1:n%s)" % (kw("concurrent"), sp(), rng.choice(["", ", j=1:m", ", %s" % L(), ", j=1:m:2, i/=j"]))])
        if rng.random() < 0.25:
            lc = "," + sp() + lc
        out["Loop_Control"].append(lc)
        out["Label_Do_Stmt"].append("%s %s%s%s" % (kw("do"), lab(), sp() or " ", rng.choice([lc, ""])))
        out["Nonlabel_Do_Stmt"].append("%s %s" % (kw("do"), rng.choice([lc, ""])))
        act = rng.choice(["x = %s" % A(), "call s(%s)" % A(), "goto %s" % lab(), "stop", "y(i) = y(i) + 1",
                          "print *, %s" % A(), "write(*,*) %s" % A(), "exit", "cycle"])
        out["If_Stmt"].append("%s%s(%s)%s%s" % (kw("if"), sp(), L(), sp(), act))
        out["If_Then_Stmt"].append("%s%s(%s)%s%s" % (kw("if"), sp(), L(), sp(), kw("then")))
        out["Else_If_Stmt"].append("%s%s%s%s(%s)%s%s%s" % (kw("else"), sp(), kw("if"), sp(), L(), sp(), kw("then"),
                                                           rng.choice(["", " nm"])))
        out["Select_Case_Stmt"].append("%s%s%s%s(%s)" % (kw("select"), sp(), kw("case"), sp(), A()))
        sel = rng.choice(["(1)", "(1, 3:5)", "(:0)", "('a':'f', 'x')", "(%s:)" % lab(), kw("default")])
        out["Case_Stmt"].append("%s%s%s%s" % (kw("case"), sp() or " ", sel, rng.choice(["", " nm"])))
        out["Case_Selector"].append(sel)
        out["Case_Value_Range"].append(rng.choice(["1:2", ":2", "1:", "1", "'a':'b'"]))
        out["Where_Stmt"].append("%s%s(%s)%s%s" % (kw("where"), sp(), L(), sp(), "a = %s" % A()))
        hdr = "(i=1:n%s)" % rng.choice(["", ", j=1:m", ", %s" % L(), ":2", ", j = 1 : m : 2, i /= j"])
        out["Forall_Header"].append(hdr)
        out["Forall_Stmt"].append("%s%s%s%sa(i) = %s" % (kw("forall"), sp(), hdr, sp(), A()))
        out["Forall_Construct_Stmt"].append("%s %s" % (kw("forall"), hdr))
        out["Forall_Triplet_Spec"].append(rng.choice(["i=1:n", "i = %s : %s" % (A(), A()), "j=1:n:2"]))
        objs = rng.choice(["a", "a(n)", "a(n), b(m,k)", "p%q(2)"])
        opts = rng.sample(["stat=ist", "errmsg=msg", "source=src", "mold=mld"], rng.randint(0, 2))
        ts = rng.choice(["", "", "real :: ", "type(t)::", "character(len=5) :: "])
        out["Allocate_Stmt"].append("%s%s(%s%s%s)" % (kw("allocate"), sp(), ts, objs, "".join(", " + o for o in opts)))
        out["Alloc_Opt"].extend(opts[:1])
        out["Allocation"].append(rng.choice(["a(n)", "a(n,m)", "p%q(2)"]))
        dop = rng.sample(["stat=ist", "errmsg=msg"], rng.randint(0, 2))
        out["Deallocate_Stmt"].append("%s%s(%s%s)" % (kw("deallocate"), sp(), rng.choice(["a", "a, b", "p%q"]),
                                                      "".join("," + sp() + o for o in dop)))
        out["Dealloc_Opt"].extend(dop[:1])
        out["Nullify_Stmt"].append("%s%s(%s)" % (kw("nullify"), sp(), rng.choice(["p", "p, q", "a%p"])))
        out["Stop_Stmt"].append("%s%s" % (kw("stop"), rng.choice(["", " 1", " 'done'", " 12345"])))
        out["Error_Stop_Stmt"].append("%s %s%s" % (kw("error"), kw("stop"), rng.choice(["", " 1", " 'bad'"])))
        out["Goto_Stmt"].append("%s%s%s %s" % (kw("go"), sp(), kw("to"), lab()))
        out["Computed_Goto_Stmt"].append("%s%s%s%s(%s)%s%s" % (kw("go"), sp(), kw("to"), sp(),
                                                               ", ".join(lab() for _ in range(rng.randint(1, 3))),
                                                               rng.choice(["", ",", " , "]), " " + A()))
        out["Arithmetic_If_Stmt"].append("%s%s(%s)%s%s,%s%s,%s" % (kw("if"), sp(), A(), sp(), lab(), sp(), lab(), lab()))
        args = rng.choice([None, "", A(), "%s, %s" % (A(), A()), "k=%s" % A(), "%s, k = %s" % (A(), A())])
        out["Call_Stmt"].append("%s %s%s" % (kw("call"), rng.choice(["s", "obj%m", "a(1)%p"]),
                                              "" if args is None else "%s(%s)" % (sp(), args)))
        if args:
            out["Actual_Arg_Spec_List"].append(args)
            out["Actual_Arg_Spec"].append(args.split(",")[0])
    return out


def tokens_of(s):
    toks, cur = [], ""
    for ch in s:
        if ch.isalnum() or ch in "_.'\"":
            cur += ch
        else:
            if cur:
                toks.append(cur)
                cur = ""
            toks.append(ch)
    if cur:
        toks.append(cur)
    return toks


def mutants(rng, s, k=4):
    out = []
    toks = tokens_of(s)
    for _ in range(k):
        r = rng.random()
        t = list(toks)
        if not t:
            break
        i = rng.randrange(len(t))
        if r < 0.3:
            del t[i]
        elif r < 0.5:
            t.insert(i, t[i])
        elif r < 0.75:
            t.insert(i, rng.choice(["(", ")", ")", "(", ",", "=", ":", "'", " "]))
        elif r < 0.85:
            t[i] = rng.choice(["", " ", "()", "*", "/"])
        else:
            t.insert(i, " ")
        out.append("".join(t))
    return out


def harvest_generated(seed, n, deadline):
    from fv import gen, real
    out = {std: collections.defaultdict(set) for std in STDS}
    parsed = 0
    want = set(MODELLED)
    for i in range(n):
        if time.time() > deadline:
            break
        try:
            with time_limit(5.0):
                p = gen.gen_program(seed * 100003 + i, std="f2008")
                src = p.text()
                std = "f2008"
                o = real.try_parse(src, std=std)
        except CaseTimeout:
            continue
        except Exception:  # noqa: BLE001
            continue
        if o.kind != "tree":
            continue
        parsed += 1
        for node in U.walk(o.tree):
            nm = type(node).__name__
            if nm in want and isinstance(getattr(node, "string", None), str):
                t = node.string
                if admissible(t):
                    for std in STDS:
                        out[std][nm].add(t)
    return out, parsed


def gen_statements(seed, n):
    from fv import gen
    out = collections.defaultdict(set)
    rng = random.Random(seed * 7919 + 11)
    g = gen.G(rng, std="f2008")
    first = {"write": "Write_Stmt", "read": "Read_Stmt", "print": "Print_Stmt", "open": "Open_Stmt",
             "close": "Close_Stmt", "inquire": "Inquire_Stmt", "format": "Format_Stmt", "call": "Call_Stmt",
             "allocate": "Allocate_Stmt", "deallocate": "Deallocate_Stmt", "nullify": "Nullify_Stmt",
             "stop": "Stop_Stmt", "goto": "Goto_Stmt", "if": "If_Stmt", "where": "Where_Stmt", "forall": "Forall_Stmt"}
    for _ in range(n):
        for mk in (g.io_stmt, g.format_stmt, g.action, g.action):
            try:
                st = mk()
            except Exception:  # noqa: BLE001
                continue
            sts = st if isinstance(st, list) else [st]
            for s in sts:
                if not hasattr(s, "toks") or not s.toks:
                    continue
                t = gen.join_natural(s.toks)
                k = first.get(s.toks[0].lower())
                if k and admissible(t):
                    out[k].add(t)
        try:
            lc = g.loop_control()
            if lc:
                out["Loop_Control"].add(gen.join_natural(lc))
        except Exception:  # noqa: BLE001
            pass
    return out


# ------------------------------------------------------------------------------- tostr on arbitrary items

class _Txt:
    """a stand-in child node that prints a given text"""

    def __init__(self, t):
        self.t = t

    def __str__(self):
        return self.t


def _data_node(t):
    class _D(F3.Data_Edit_Desc):
        def tostr(self):
            return t
    o = object.__new__(_D)
    o.items = ("A", None, None, None)
    o.string = t
    o.item = None
    o.parent = None
    return o


# (std, class, items) with items = None | ("S", text) | ("T", text) | ("D", text) | ("L", [texts]);
# `match` never builds most of these tuples: they exercise the asserts / InternalErrors of the
# separately written `tostr` methods
TOSTR_PROBES = [
    ("f2003", "Read_Stmt", [("T", "5, *"), None, None]),
    ("f2003", "Read_Stmt", [("T", "5, *"), None, ("T", "a")]),
    ("f2003", "Read_Stmt", [None, ("T", "*"), ("T", "a")]),
    ("f2003", "Read_Stmt", [None, ("T", "*"), None]),
    ("f2003", "Read_Stmt", [("T", "5"), ("T", "*"), None]),          # AssertionError
    ("f2003", "Read_Stmt", [None, None, ("T", "a")]),                 # AssertionError
    ("f2003", "Inquire_Stmt", [None, ("T", "n"), ("T", "a")]),
    ("f2003", "Inquire_Stmt", [None, None, ("T", "a")]),              # AssertionError
    ("f2003", "Inquire_Stmt", [None, ("T", "n"), None]),              # AssertionError
    ("f2003", "Inquire_Stmt", [("T", "UNIT = 1"), None, None]),
    ("f2003", "Label_Do_Stmt", [None, ("T", "10"), None]),
    ("f2003", "Label_Do_Stmt", [None, ("T", "10"), ("T", "i = 1, n")]),
    ("f2003", "Label_Do_Stmt", [("T", "nm"), ("T", "10"), None]),     # TypeError
    ("f2003", "Write_Stmt", [("T", "*, *"), None]),
    ("f2003", "Write_Stmt", [("T", "*, *"), ("T", "a, b")]),
    ("f2003", "Print_Stmt", [("T", "*"), None]),
    ("f2003", "Print_Stmt", [("T", "*"), ("T", "a")]),
    ("f2003", "Format_Item", [None, ("D", "I5")]),
    ("f2003", "Format_Item", [("T", "3"), ("D", "I5")]),
    ("f2003", "Format_Item", [("T", "3"), ("T", "I5, A")]),
    ("f2008", "Format_Item", [("S", "*"), ("T", "I5, A")]),
    ("f2003", "Control_Edit_Desc", [None, ("S", "/")]),
    ("f2003", "Control_Edit_Desc", [("T", "2"), ("S", "/")]),
    ("f2003", "Control_Edit_Desc", [("T", "2"), ("S", "")]),          # InternalError
    ("f2003", "Forall_Header", [("T", "i = 1 : n"), None]),
    ("f2003", "Forall_Header", [("T", "i = 1 : n"), ("T", "a(i) > 0")]),
    ("f2003", "Forall_Header", [None, ("T", "x")]),                   # InternalError
    ("f2003", "Allocate_Stmt", [None, ("T", "a(n)"), None]),
    ("f2003", "Allocate_Stmt", [("T", "REAL"), ("T", "a(n)"), ("T", "STAT = i")]),
    ("f2003", "Allocate_Stmt", [("T", "REAL"), ("T", "a(n)"), None]),
    ("f2003", "Allocate_Stmt", [None, ("T", "a(n)"), ("T", "STAT = i")]),
    ("f2003", "Deallocate_Stmt", [("T", "a"), None]),
    ("f2003", "Deallocate_Stmt", [("T", "a"), ("T", "STAT = i")]),
    ("f2003", "Case_Stmt", [("T", "(1)"), None]),
    ("f2003", "Case_Stmt", [("T", "DEFAULT"), ("T", "nm")]),
    ("f2003", "Case_Selector", [None]),
    ("f2003", "Case_Selector", [("T", "1, 2 : 3")]),
    ("f2003", "Call_Stmt", [("T", "s"), None]),
    ("f2003", "Call_Stmt", [("T", "s"), ("T", "a, b")]),
    ("f2003", "Else_If_Stmt", [("T", "a"), None]),
    ("f2003", "Else_If_Stmt", [("T", "a"), ("T", "nm")]),
    ("f2003", "Forall_Triplet_Spec", [("T", "i"), ("T", "1"), ("T", "n"), None]),
    ("f2003", "Forall_Triplet_Spec", [("T", "i"), ("T", "1"), ("T", "n"), ("T", "2")]),
    ("f2003", "Arithmetic_If_Stmt", [("T", "x"), ("T", "1"), ("T", "2"), ("T", "3")]),
    ("f2003", "Computed_Goto_Stmt", [("T", "1, 2"), ("T", "i")]),
    ("f2008", "Loop_Control", [None, None, ("S", ","), ("T", "(i = 1 : n)")]),
    ("f2008", "Loop_Control", [None, None, None, ("T", "(i = 1 : n)")]),
    ("f2003", "Loop_Control", [("T", "x > 0"), None, ("S", ",")]),
    ("f2003", "Loop_Control", [("T", "x > 0"), None, None]),
    ("f2003", "Loop_Control", [None, ("T", "i"), ("L", ["1", "n", "2"]), None]),
    ("f2008", "Loop_Control", [None, ("T", "i"), ("L", ["1", "n"]), ("S", ","), None]),
]


def check_tostr_probes(mdl):
    """-> (number checked, list of disagreements)"""
    bad = []
    n = 0
    for std, name, items in TOSTR_PROBES:
        cls = cls_of(std, name)
        real_items, fields = [], []
        for it in items:
            if it is None:
                real_items.append(None)
                fields.append("N")
            elif it[0] == "S":
                real_items.append(it[1])
                fields += ["S", it[1]]
            elif it[0] == "T":
                real_items.append(_Txt(it[1]))
                fields += ["T", it[1]]
            elif it[0] == "D":
                real_items.append(_data_node(it[1]))
                fields += ["D", it[1]]
            elif it[0] == "L":
                real_items.append([_Txt(x) for x in it[1]])
                fields += ["L", "\x1f".join(it[1])]
        obj = object.__new__(cls)
        if name == "Loop_Control" and len(real_items) >= 3 and isinstance(real_items[2], list):
            real_items = [real_items[0], (real_items[1], real_items[2])] + real_items[3:]
        obj.items = tuple(real_items)
        try:
            r = ["str", obj.tostr()]
        except Exception as e:  # noqa: BLE001
            r = ["strraises", type(e).__name__]
        m = mdl.ask("iostmt.str", std, name, *fields)
        n += 1
        if m != r:
            bad.append("%s %s.tostr%r: model %r, real %r" % (std, name, items, m, r))
    return n, bad


# ------------------------------------------------------------------------------- negative control

MUTATIONS = [
    ("Write_Stmt.match endswith", "f2003", F3, "Write_Stmt", "match",
     "if i == len(line) - 1:", "if line.endswith(\")\"):",
     [("Write_Stmt", "write(*,*) a(1)")]),
    ("Loop_Control.match while-close-not-last", "f2003", F3, "Loop_Control", "match",
     "if rbrack_index != -1 and rbrack_index == len(brackets) - 1:", "if rbrack_index != -1:",
     [("Loop_Control", "while (c) x")]),
    ("Format_Item(2008).match len guard", "f2008", "format_item", "Format_Item", "match",
     "if strip_string[0] == \"*\" and len(strip_string) > 1:", "if strip_string[0] == \"*\":",
     [("Format_Item", "*")]),
    ("Loop_Control(2008).match concurrent first", "f2008", "loop_control", "Loop_Control", "match",
     "result = Loop_Control_2003.match(string)\n",
     "result = None if string.lstrip().lstrip(',').lstrip()[:10].upper() == 'CONCURRENT' else Loop_Control_2003.match(string)\n",
     [("Loop_Control", "concurrent = 1, 2")]),
    ("Arithmetic_If_Stmt.match rfind->find", "f2003", F3, "Arithmetic_If_Stmt", "match",
     "i = line.rfind(\")\")", "i = line.find(\")\")",
     [("Arithmetic_If_Stmt", "if (a(1)) 1,2,3")]),
    ("Format_Item_List.match Hollerith count with blanks (fa6d1cf reverted: int('1 2'))", "f2003", F3,
     "Format_Item_List", "match",
     "hol_length_str = match_str[:-1].replace(\" \", \"\")", "hol_length_str = match_str[:-1]",
     [("Format_Item_List", "1 2habc"), ("Format_Item_List", "1 2habcdefghijkl, i3")]),
    ("Read_Stmt.tostr assert on input", "f2003", F3, "Read_Stmt", "tostr",
     "assert self.items[1] is None, repr(self.items)", "assert self.items[2] is not None, repr(self.items)",
     [("Read_Stmt", "read(5,*)")]),
]


def patched(cls, meth, old, new):
    """a copy of cls.<meth> with `old` replaced by `new` in its source; None if `old` is absent"""
    raw = cls.__dict__[meth]
    fn = raw.__func__ if isinstance(raw, (staticmethod, classmethod)) else raw
    src = textwrap.dedent(inspect.getsource(fn))
    if old not in src:
        return None
    src = src.replace(old, new, 1)
    lines = src.split("\n")
    while lines and lines[0].lstrip().startswith("@"):
        lines.pop(0)
    ns = {}
    exec(compile("\n".join(lines), "<mutation>", "exec"), fn.__globals__, ns)  # noqa: S102
    f = ns[fn.__name__]
    if isinstance(raw, staticmethod):
        return staticmethod(f)
    if isinstance(raw, classmethod):
        return classmethod(f)
    return f


class _FlippedModel:
    """the driver with one answer flipped: a printed text gets an extra character"""

    def __init__(self, mdl):
        self.m = mdl

    def ask(self, *a):
        r = self.m.ask(*a)
        if r and r[0] == "ok" and len(r) >= 2 and r[-2] == "str":
            r = r[:-1] + [r[-1] + "!"]
        elif r and r[0] == "nomatch":
            r = ["raises", "IndexError"]
        elif r and r[0] == "raises":
            r = ["nomatch"]
        return r


CONTROL_CASES = [("f2003", "Write_Stmt", "write(*,*) a(1)"), ("f2003", "Write_Stmt", "write(*,*)"),
                 ("f2003", "Loop_Control", "while (c) x"), ("f2003", "Loop_Control", "i = 1, n"),
                 ("f2008", "Format_Item", "*"), ("f2008", "Format_Item", "*(a)"),
                 ("f2008", "Loop_Control", "concurrent = 1, 2"), ("f2008", "Loop_Control", "concurrent (i=1:n)"),
                 ("f2003", "Arithmetic_If_Stmt", "if (a(1)) 1,2,3"), ("f2003", "Read_Stmt", "read(5,*)"),
                 ("f2003", "Call_Stmt", "call s(a, b)"), ("f2003", "Format_Item_List", "1 2habc"),
                 ("f2003", "Format_Item_List", "1 2habcdefghijkl, i3"), ("f2008", "Format_Stmt", "format(1 2habcdefghijkl, i3)")]


def set_std(std):
    ParserFactory().create(std=std)


def negative_control(mdl):
    lines = []
    good = True
    # (0) unmodified
    ck = Checker(mdl)
    for std in STDS:
        set_std(std)
        for s, n, t in CONTROL_CASES:
            if s == std:
                ck.check(std, n, t)
    lines.append("control 0 (unmodified): %d disagreements on %d cases" % (ck.stats["disagree"], ck.stats["samples"]))
    if ck.stats["disagree"]:
        good = False
        lines += ["   " + b for b in ck.bad[:5]]
    # (1..) source mutations of the real code
    import importlib
    for title, std, where, cname, meth, old, new, cases in MUTATIONS:
        if isinstance(where, str):
            mod = importlib.import_module("fparser.two.Fortran2008.%s_r%s" % (
                where, {"format_item": "1003", "loop_control": "818"}[where]))
            cls = getattr(mod, cname)
        else:
            cls = getattr(where, cname)
        repl = patched(cls, meth, old, new)
        if repl is None:
            lines.append("control %r: NOT APPLICABLE (the source no longer contains the line to edit)" % title)
            good = False
            continue
        orig = cls.__dict__[meth]
        setattr(cls, meth, repl)
        try:
            set_std(std)
            ck = Checker(mdl)
            for n, t in cases:
                ck.check(std, n, t)
        finally:
            setattr(cls, meth, orig)
        rep = ck.stats["disagree"]
        lines.append("control %r: %d/%d cases reported" % (title, rep, len(cases)))
        if rep == 0:
            good = False
    # (last) flipped driver
    ck = Checker(_FlippedModel(mdl))
    set_std("f2003")
    for s, n, t in CONTROL_CASES:
        if s == "f2003":
            ck.check("f2003", n, t)
    lines.append("control flipped driver: %d/%d cases reported" % (ck.stats["disagree"], ck.stats["samples"]))
    if ck.stats["disagree"] != ck.stats["samples"]:
        good = False
    return good, lines


# ------------------------------------------------------------------------------- main

def run(seed, n, exe=None, verbose=False, max_seconds=None):
    t0 = time.time()
    budget = max_seconds if max_seconds is not None else 12 + 0.16 * n
    deadline = t0 + budget
    mdl = fvmodel.Model(exe) if exe else fvmodel.get_model()
    good, lines = negative_control(mdl)
    for l in lines:
        print(l)
    nt, tbad = check_tostr_probes(mdl)
    print("tostr on arbitrary items (asserts / InternalErrors of the separately written tostr): %d probes, %d disagreements"
          % (nt, len(tbad)))
    for b in tbad:
        print("   " + b)
    if tbad:
        good = False
    rng = random.Random(seed)
    # ---- samples
    harvested, parsed = harvest_generated(seed, max(1, n // 10), t0 + 0.35 * budget)
    gs = gen_statements(seed, max(3, n // 4))
    sh = shapes(rng, max(4, n // 4))
    samples = {std: collections.defaultdict(list) for std in STDS}
    for std in STDS:
        for name in MODELLED:
            base = []
            base += PROBES.get(name, [])
            base += sorted(harvested[std].get(name, ()))[: 10 + n // 4]
            base += sorted(gs.get(name, ()))[: 10 + n // 4]
            base += sh.get(name, [])
            seen = set()
            lst = []
            r2 = random.Random("%s|%s|%s" % (seed, std, name))
            for b in base:
                for t in [b] + mutants(r2, b, 3) + [b.upper(), " " + b + " "]:
                    if t not in seen and admissible(t):
                        seen.add(t)
                        lst.append(t)
            r2.shuffle(lst)
            samples[std][name] = lst[: 60 + 2 * n]
    total = sum(len(v) for std in STDS for v in samples[std].values())
    print("programs parsed: %d; samples: %d (classes %d x 2 standards)" % (parsed, total, len(MODELLED)))
    ck = Checker(mdl, verbose)
    timeouts = 0
    stopped = False
    for std in STDS:
        set_std(std)
        # round-robin over the classes so that a budget stop leaves a uniform subset
        idx = 0
        while True:
            any_left = False
            for name in MODELLED:
                lst = samples[std][name]
                if idx < len(lst):
                    any_left = True
                    if time.time() > deadline - (0.3 * budget if std == "f2003" else 0):
                        stopped = True
                        break
                    try:
                        with time_limit(2.0):
                            ck.check(std, name, lst[idx])
                    except CaseTimeout:
                        timeouts += 1
            if stopped or not any_left:
                break
            idx += 1
        stopped = False
    st = ck.stats
    print("checked: %d samples; agree: ok %d (printed text %d), no match %d, raises %d; timeouts %d; unmodelled %d"
          % (st["samples"], st["agree_ok"], st["agree_str"], st["agree_nomatch"], st["agree_raises"], timeouts,
             st["unmodelled"]))
    print("per class (samples/accepted): " + ", ".join(
        "%s %d/%d" % (k, ck.per_cls[k], ck.per_cls_ok[k]) for k in MODELLED))
    if ck.exc:
        print("exceptions escaping from the real match (agreed with the model unless listed below):")
        for (name, out), (std, text) in sorted(ck.exc.items()):
            print("   %s %s(%r) -> %s" % (std, name, text, out))
    print("real leaf round trip: %d checked, %d fail%s" % (st["leaf_rt"], st["leaf_rt_fail"],
          "".join("\n   %s %s(%r)" % (v[0], k, v[1]) for k, v in sorted(ck.leaf.items()))))
    print("disagreements: %d" % st["disagree"])
    for b in ck.bad:
        print("   " + b)
    print("elapsed %.1f s" % (time.time() - t0))
    ok = good and st["disagree"] == 0 and st["samples"] > 0
    print("RESULT: %s" % ("PASS" if ok else "FAIL"))
    return 0 if ok else 1


def main(argv=None):
    ap = argparse.ArgumentParser()
    ap.add_argument("--seed", type=int, default=0)
    ap.add_argument("--n", type=int, default=40)
    ap.add_argument("--exe", default=os.environ.get("FV_MODEL_EXE"))
    ap.add_argument("--max-seconds", type=float, default=None)
    ap.add_argument("-v", "--verbose", action="store_true")
    a = ap.parse_args(argv)
    return run(a.seed, a.n, a.exe, a.verbose, a.max_seconds)


if __name__ == "__main__":
    sys.exit(main())
