import FparserModel.Proofs.ReaderDrain
import FparserModel.Proofs.RefineReader

/-!
# RefineChunks — where exactly the reader stands after delivering the item of a chunk (C07)

For the clean free-form layouts of `ReaderChunks.lean`: after the `k`-th delivery, `k` being the
position of the item of chunk `c`, the reader has read exactly the physical lines up to the last
line of `c` — which is the last line of the item's span (`Chunk.tight`).  Comment and blank lines
between continuation lines are inside that range: the comments are buffered on `fifo_item` and
delivered later without touching `linecount`.
-/
namespace Fp.Reader
open Fp

theorem Steps.append {r rm rf : Rd} {xs ys : List Item} (h1 : Steps r xs rm) (h2 : Steps rm ys rf) :
    Steps r (xs ++ ys) rf := by
  induction h1 with
  | nil => exact h2
  | cons h _ ih => exact Steps.cons h (ih h2)

/-- successive `_next` calls are successive `get_item` calls when no INCLUDE line is involved -/
theorem getN_of_steps (d : Nat) (fs : Fs) {r r' : Rd} {xs : List Item} (hs : Steps r xs r')
    (hni : ∀ x ∈ xs, NoInc x) : getN (d + 1) fs xs.length [r] = some (xs, [r']) := by
  induction hs with
  | nil => rfl
  | cons h _ ih =>
    simp only [List.length_cons, getN]
    rw [getItem_of_next1 d fs _ _ _ h (hni _ List.mem_cons_self)]
    simp only [ih (fun y hy => hni y (List.mem_cons_of_mem _ hy)), Option.map_some]

theorem srcOf_length : ∀ cs : List Chunk, (srcOf cs).length = totalLines cs
  | [] => rfl
  | c :: cs => by simp [srcOf, totalLines, srcOf_length cs]

theorem srcOf_append_rf : ∀ cs1 cs2 : List Chunk, srcOf (cs1 ++ cs2) = srcOf cs1 ++ srcOf cs2
  | [], _ => rfl
  | c :: cs1, cs2 => by simp [srcOf, srcOf_append_rf cs1 cs2]

theorem totalLines_append : ∀ cs1 cs2 : List Chunk,
    totalLines (cs1 ++ cs2) = totalLines cs1 + totalLines cs2
  | [], _ => by simp [totalLines]
  | c :: cs1, cs2 => by simp [totalLines, totalLines_append cs1 cs2]; omega

theorem chunkItems_append_rf (ic : Bool) : ∀ (cs1 cs2 : List Chunk) (lc : Nat),
    chunkItems ic lc (cs1 ++ cs2) = chunkItems ic lc cs1 ++ chunkItems ic (lc + totalLines cs1) cs2
  | [], _, _ => by simp [chunkItems, totalLines]
  | c :: cs1, cs2, lc => by
    simp only [List.cons_append, chunkItems, totalLines, chunkItems_append_rf ic cs1 cs2, List.append_assoc]
    rw [show lc + c.lines.length + totalLines cs1 = lc + (c.lines.length + totalLines cs1) from by omega]

/-- the span of the chunk's item ends at the last physical line of the chunk -/
def Chunk.tight (c : Chunk) : Prop := ∀ lc, (c.item lc).last = lc + c.lines.length

theorem commentChunk_tight (l body : Str) : (commentChunk l body).tight := fun _ => rfl
theorem stmtChunk_tight (l b1 : Str) (lab : Option Nat) (nam : Option Str) :
    (stmtChunk l b1 lab nam).tight := fun _ => rfl
theorem contChunk_tight (l1 l2 : Str) (ls : List Str) (b1 : Str) (lab : Option Nat) (nam : Option Str)
    (c : CLine) (cs : List CLine) (hck : Cooked ls cs) : (contChunk l1 l2 ls b1 lab nam c cs).tight :=
  fun lc => by
    have := hck.length
    simp only [contChunk, Item.last, List.length_cons]; omega
theorem cppChunk_tight (l0 : Str) (ls : List Str) : (cppChunk l0 ls).tight :=
  fun lc => by simp only [cppChunk, Item.last, List.length_cons]; omega

/-- comment lines between continuation lines: one item per line, with its own line number,
    strictly before the last line of the layout (which is a continuation line, `WFc`) -/
theorem joinComments_inside : ∀ (l : List CLine) (n : Nat), WFc l → ∀ x ∈ joinComments n l,
    x.isComment = true ∧ n ≤ x.first ∧ x.first = x.last ∧ x.last + 1 < n + l.length
  | [], _, h, _, _ => by cases h
  | [c], n, h, x, hx => by
    obtain ⟨_, hl⟩ := h
    cases c with
    | cont pre body amp more => simp [joinComments] at hx
    | comment t => simp [CLine.isLast] at hl
    | blank => simp [CLine.isLast] at hl
  | c :: c' :: cs, n, h, x, hx => by
    obtain ⟨_, _, hw⟩ := h
    have ih := joinComments_inside (c' :: cs) (n + 1) hw
    cases c with
    | comment t =>
      simp only [joinComments, List.mem_cons] at hx
      rcases hx with rfl | hx
      · simp [Item.isComment, Item.first, Item.last]
      · obtain ⟨a, b, e, f⟩ := ih x hx
        simp only [List.length_cons] at f ⊢; exact ⟨a, by omega, e, by omega⟩
    | cont pre body amp more =>
      obtain ⟨a, b, e, f⟩ := ih x (by simpa [joinComments] using hx)
      simp only [List.length_cons] at f ⊢; exact ⟨a, by omega, e, by omega⟩
    | blank =>
      obtain ⟨a, b, e, f⟩ := ih x (by simpa [joinComments] using hx)
      simp only [List.length_cons] at f ⊢; exact ⟨a, by omega, e, by omega⟩

/-- C07, continuation layouts: every comment buffered behind a continued statement comes from a
    physical line strictly inside the statement's span — it has been read BEFORE the statement
    is delivered and cannot move `linecount` past the statement's last line -/
theorem contChunk_comments_inside (l1 l2 : Str) (ls : List Str) (b1 : Str) (lab : Option Nat)
    (nam : Option Str) (c : CLine) (cs : List CLine) (hw : WFc (c :: cs)) (lc : Nat) :
    ∀ x ∈ (contChunk l1 l2 ls b1 lab nam c cs).comments lc,
      ((contChunk l1 l2 ls b1 lab nam c cs).item lc).first < x.first ∧ x.first = x.last ∧
      x.last < ((contChunk l1 l2 ls b1 lab nam c cs).item lc).last := by
  intro x hx
  obtain ⟨_, b, e, f⟩ := joinComments_inside (c :: cs) (lc + 2) hw x hx
  have h1 : ((contChunk l1 l2 ls b1 lab nam c cs).item lc).first = lc + 1 := rfl
  have h2 : ((contChunk l1 l2 ls b1 lab nam c cs).item lc).last = lc + 2 + cs.length := rfl
  rw [h1, h2]
  simp only [List.length_cons] at f
  exact ⟨by omega, e, by omega⟩

/-- buffered comments are delivered one by one (comments kept) without reading anything:
    only `fifo_item` changes -/
theorem steps_fifo_comments : ∀ (f : List Item) (r : Rd), r.fifo = f → r.ignoreComments = false →
    (∀ x ∈ f, x.isComment = true) → Steps r f { r with fifo := [] }
  | [], r, hf, _, _ => by
    have : ({ r with fifo := [] } : Rd) = r := by cases r; simp only [] at hf; subst hf; rfl
    rw [this]; exact Steps.nil r
  | x :: f, r, hf, hic, hc => by
    have hx := hc x List.mem_cons_self
    obtain ⟨t, s, e, b, rfl⟩ : ∃ t s e b, x = .comment t s e b := by
      cases x <;> simp [Item.isComment] at hx
      exact ⟨_, _, _, _, rfl⟩
    exact Steps.cons (next1_pop r _ f hf (by simp [hic]) (NoSemi.comment _ _ _ _))
      (steps_fifo_comments f { r with fifo := f } rfl hic (fun y hy => hc y (List.mem_cons_of_mem _ hy)))

/-- … and after `j` of them only `fifo_item` is shorter -/
theorem steps_fifo_prefix : ∀ (f : List Item) (j : Nat) (r : Rd), r.fifo = f → r.ignoreComments = false →
    (∀ x ∈ f, x.isComment = true) → Steps r (f.take j) { r with fifo := f.drop j }
  | f, 0, r, hf, _, _ => by
    have : ({ r with fifo := f.drop 0 } : Rd) = r := by cases r; simp only [] at hf; subst hf; rfl
    rw [this]; exact Steps.nil r
  | [], j + 1, r, hf, _, _ => by
    have : ({ r with fifo := ([] : List Item).drop (j + 1) } : Rd) = r := by
      cases r; simp only [] at hf; subst hf; rfl
    rw [this]; exact Steps.nil r
  | x :: f, j + 1, r, hf, hic, hc => by
    have hx := hc x List.mem_cons_self
    obtain ⟨t, s, e, b, rfl⟩ : ∃ t s e b, x = .comment t s e b := by
      cases x <;> simp [Item.isComment] at hx
      exact ⟨_, _, _, _, rfl⟩
    exact Steps.cons (next1_pop r _ f hf (by simp [hic]) (NoSemi.comment _ _ _ _))
      (steps_fifo_prefix f j { r with fifo := f } rfl hic (fun y hy => hc y (List.mem_cons_of_mem _ hy)))

/-- the reader that started as `r`, after it has read the chunks `cs1` and the chunk `c` and has
    delivered everything up to and including the item of `c`: exactly the physical lines of `cs1`
    and `c` have been read, the comments inside `c` are buffered on `fifo_item` -/
def afterItem (r : Rd) (cs1 : List Chunk) (c : Chunk) (rest : List Str) : Rd :=
  { r with src := rest, linecount := r.linecount + totalLines cs1 + c.lines.length,
           linesRev := ((srcOf cs1 ++ c.lines).map cook).reverse ++ r.linesRev,
           fifo := c.comments (r.linecount + totalLines cs1) }

/-- THE READER AFTER THE ITEM OF A CHUNK.  Source = `cs1`, then chunk `c`, then `rest`.  Repeated
    `_next` delivers the items of `cs1` and then the item of `c`; at that moment exactly the
    physical lines of `cs1` and `c` have been read (`src = rest`, `linecount`, `source_lines`), and
    the comments inside `c` are buffered. -/
theorem steps_to_item (o : Bool) (cs1 : List Chunk) (c : Chunk) (rest : List Str) (r : Rd)
    (hok1 : ∀ c' ∈ cs1, c'.ok o) (hokc : c.ok o) (h0 : r.omp = o) (hfifo : r.fifo = [])
    (h1 : r.filo = []) (h2 : r.closed = false) (h3 : r.isFree = true)
    (hsrc : r.src = srcOf cs1 ++ (c.lines ++ rest))
    (hkeep : ((c.item (r.linecount + totalLines cs1)).isComment && r.ignoreComments) = false) :
    Steps r (chunkItems r.ignoreComments r.linecount cs1 ++ [c.item (r.linecount + totalLines cs1)])
      (afterItem r cs1 c rest) := by
  have hend := endState_fields cs1 r (c.lines ++ rest) hfifo hsrc
  generalize hE : endState r cs1 (c.lines ++ rest) = E at hend
  have hg := hokc.read E rest (by rw [hend]; exact h0) (by rw [hend]; exact hfifo)
    (by rw [hend]; exact h1) (by rw [hend]; exact h2) (by rw [hend]; exact h3) (by rw [hend])
  have hlc : E.linecount = r.linecount + totalLines cs1 := by rw [hend]
  have hic : E.ignoreComments = r.ignoreComments := by rw [hend]
  have hEf : E.fifo = [] := by rw [hend]; exact hfifo
  generalize hE' : ({ afterChunk E c rest with fifo := c.comments E.linecount } : Rd) = E' at hg
  have hic' : E'.ignoreComments = r.ignoreComments := by rw [← hE', ← hic]; rfl
  have hafter : After E 1 (.ok (c.item E.linecount), E') := by
    intro n hn
    obtain ⟨m, rfl⟩ : ∃ m, n = m + 1 := ⟨n - 1, by omega⟩
    unfold nextRaw popOrRead
    simp only [hEf, hg, hlc, hic', hkeep, Bool.false_eq_true, if_false]
  have hruns := runs_chunks o cs1 r (c.lines ++ rest) _ hok1 h0 hfifo h1 h2 h3 hsrc
    (by rw [hE]; exact ⟨E, 1, Steps.nil _, hafter, by simp [nextRawFuel]⟩)
  obtain ⟨rm, k, hsteps, ha, hk⟩ := hruns
  have hn : next1 rm = (.ok (c.item E.linecount), E') :=
    next1_of_nextRaw rm E' _ _ (ha (nextRawFuel rm) hk)
      (splitSemicolon_stable _ E' (hokc.nosemi _))
  have := hsteps.append (Steps.cons hn (Steps.nil _))
  rw [hlc] at this
  have hfin : E' = afterItem r cs1 c rest := by
    rw [← hE', hend]
    simp [afterItem, afterChunk, List.map_append, List.reverse_append]
  rw [← hfin]; exact this

end Fp.Reader
