import FparserModel.Header
import FparserModel.Reader
/-!
`label_name_printed`: `StmtBase.tofortran` of a statement with label `l` and construct name `n`
prints `l n:text` (free form), for every combination of label / name present / absent, and the
reader's `extract_label` + `extract_construct_name` read the same label and name back.
-/
namespace Fp.Header
open Fp Fp.IoStmt

/-! ## character classes -/

theorem space_not_word {c : Char} (h : isSpace c = true) : isWord c = false := by
  simp only [isSpace, Bool.or_eq_true, beq_iff_eq] at h
  rcases h with (((((((((h | h) | h) | h) | h) | h) | h) | h) | h) | h) <;> subst h <;> decide

theorem word_not_space {c : Char} (h : isWord c = true) : isSpace c = false := by
  cases hs : isSpace c with
  | false => rfl
  | true => rw [space_not_word hs] at h; cases h

theorem digit_is_word {c : Char} (h : isDigit c = true) : isWord c = true := by
  simp only [isDigit] at h
  simp [isWord, Char.isAlphanum, h]

theorem colon_not_word : isWord ':' = false := by decide
theorem colon_not_space : isSpace ':' = false := by decide
theorem blank_is_space : isSpace ' ' = true := by decide
theorem blank_not_word : isWord ' ' = false := by decide

/-! ## `lstrip` -/

theorem lstrip_blanks_append {w : Str} (t : Str) (hw : ∀ c ∈ w, c = ' ') : lstrip (w ++ t) = lstrip t := by
  induction w with
  | nil => rfl
  | cons c w ih =>
    have hc : c = ' ' := hw c (by simp)
    subst hc
    have : lstrip (' ' :: (w ++ t)) = lstrip (w ++ t) := by simp [lstrip, blank_is_space]
    rw [List.cons_append, this]
    exact ih (fun c hc => hw c (by simp [hc]))

theorem lstrip_of_head {c : Char} {t : Str} (h : isSpace c = false) : lstrip (c :: t) = c :: t := by
  simp [lstrip, h]

/-! ## decimal numerals -/

theorem digitsToNat_eq_ofDigitChars (s : Str) : digitsToNat s = Nat.ofDigitChars 10 s 0 := by
  unfold digitsToNat Nat.ofDigitChars
  have : ∀ (s : Str) (i : Nat),
      s.foldl (fun n c => n * 10 + (c.toNat - '0'.toNat)) i =
      s.foldl (fun sofar c => 10 * sofar + (c.toNat - '0'.toNat)) i := by
    intro s
    induction s with
    | nil => intro i; rfl
    | cons c cs ih => intro i; simp only [List.foldl_cons]; rw [Nat.mul_comm]; exact ih _
  exact this s 0

theorem natToStr_eq (n : Nat) : natToStr n = Nat.toDigits 10 n := by
  simp [natToStr, Nat.toList_repr]

theorem digitsToNat_natToStr (n : Nat) : digitsToNat (natToStr n) = n := by
  rw [digitsToNat_eq_ofDigitChars, natToStr_eq]; exact Nat.ofDigitChars_ten_toDigits

theorem natToStr_digits (n : Nat) : ∀ c ∈ natToStr n, isDigit c = true := by
  intro c hc
  rw [natToStr_eq] at hc
  exact Nat.isDigit_of_mem_toDigits (by decide) (by decide) hc

theorem natToStr_ne_nil (n : Nat) : natToStr n ≠ [] := by
  rw [natToStr_eq]; exact Nat.toDigits_ne_nil

/-! ## the reader's two scanners on a printed line -/

theorem takeWhile_append_stop {p : Char → Bool} {a : Str} {c : Char} {t : Str}
    (ha : ∀ x ∈ a, p x = true) (hc : p c = false) :
    (a ++ c :: t).takeWhile p = a ∧ (a ++ c :: t).drop a.length = c :: t := by
  induction a with
  | nil => simp [hc]
  | cons x a ih =>
    have hx : p x = true := ha x (by simp)
    have := ih (fun y hy => ha y (by simp [hy]))
    simp [hx, this.1]

/-- `extract_label` on `digits ++ blank ++ …` -/
theorem extractLabel_digits {d : Str} (hd : ∀ c ∈ d, isDigit c = true) (hne : d ≠ []) (t : Str) :
    Reader.extractLabel (d ++ ' ' :: t) = (some (digitsToNat d), lstrip t) := by
  have hhead : lstrip (d ++ ' ' :: t) = d ++ ' ' :: t := by
    cases d with
    | nil => exact absurd rfl hne
    | cons c d' =>
      have : isSpace c = false := word_not_space (digit_is_word (hd c (by simp)))
      simp [lstrip, this]
  have hs := takeWhile_append_stop (p := isDigit) (a := d) (c := ' ') (t := t) hd (by decide)
  unfold Reader.extractLabel Reader.labelRe
  simp only [hhead, hs.1, hs.2, hne, if_false, blank_not_word, Bool.false_eq_true]
  simp [lstrip, blank_is_space]

/-- `extract_label` on a line that does not start (after blanks) with a digit -/
theorem extractLabel_none {c : Char} {t w : Str} (hw : ∀ x ∈ w, x = ' ')
    (hs : isSpace c = false) (hd : isDigit c = false) :
    Reader.extractLabel (w ++ c :: t) = (none, w ++ c :: t) := by
  unfold Reader.extractLabel Reader.labelRe
  rw [lstrip_blanks_append _ hw, lstrip_of_head hs]
  simp [List.takeWhile, hd]

/-- `extract_construct_name` on `name:text` -/
theorem extractName_named {n text : Str} {w : Str} (hw : ∀ x ∈ w, x = ' ')
    (hn : ∀ c ∈ n, isWord c = true) (hne : n ≠ [])
    {c : Char} {t : Str} (ht : text = c :: t) (hc : isWord c = true) :
    Reader.extractName (w ++ n ++ ':' :: text) = (some n, text) := by
  have hhead : lstrip (w ++ n ++ ':' :: text) = n ++ ':' :: text := by
    rw [List.append_assoc, lstrip_blanks_append _ hw]
    cases n with
    | nil => exact absurd rfl hne
    | cons x n' =>
      have : isSpace x = false := word_not_space (hn x (by simp))
      simp [lstrip, this]
  have hs := takeWhile_append_stop (p := isWord) (a := n) (c := ':') (t := text) hn colon_not_word
  unfold Reader.extractName Reader.nameRe
  simp only [hhead, hs.1, hs.2, hne, if_false]
  have h1 : lstrip (':' :: text) = ':' :: text := lstrip_of_head colon_not_space
  have h2 : lstrip text = text := by subst ht; exact lstrip_of_head (word_not_space hc)
  rw [h1]
  simp only [h2]
  subst ht
  simp [hc]

theorem nameRe_blanks {w : Str} (hw : ∀ x ∈ w, x = ' ') (t : Str) :
    Reader.nameRe (w ++ t) = Reader.nameRe t := by
  unfold Reader.nameRe
  rw [lstrip_blanks_append _ hw]

/-! ## the theorem -/

/-- a construct name as the reader produces it: word characters, not starting with a digit -/
def IsName (n : Str) : Prop :=
  (∀ c ∈ n, isWord c = true) ∧ ∃ c t, n = c :: t ∧ isDigit c = false

/-- what the printed text of a statement must satisfy to be re-read with the same label / name:
    it starts with a letter or `_` (every `tostr` of this slice starts with a keyword or a name) and
    is not itself of the shape `word :` (decidable) -/
def TextOK (text : Str) : Prop :=
  (∃ c t, text = c :: t ∧ isWord c = true ∧ isDigit c = false) ∧ Reader.nameRe text = none

instance (text : Str) : Decidable (TextOK text) := by
  unfold TextOK
  cases text with
  | nil => exact isFalse (fun h => by obtain ⟨⟨c, t, h, _⟩, _⟩ := h; cases h)
  | cons c t =>
    by_cases h1 : isWord c = true ∧ isDigit c = false
    · by_cases h2 : Reader.nameRe (c :: t) = none
      · exact isTrue ⟨⟨c, t, rfl, h1.1, h1.2⟩, h2⟩
      · exact isFalse (fun h => h2 h.2)
    · exact isFalse (fun h => by
        obtain ⟨⟨c', t', he, hw, hd⟩, _⟩ := h
        cases he; exact h1 ⟨hw, hd⟩)

/-- the free-form tab actually written after a label -/
def tabAfter (t tab : Str) : Str := if (tab.drop t.length).isEmpty then [' '] else tab.drop t.length

theorem tabAfter_shape {t tab : Str} (htab : ∀ c ∈ tab, c = ' ') :
    ∃ w, tabAfter t tab = ' ' :: w ∧ ∀ c ∈ w, c = ' ' := by
  unfold tabAfter
  split
  · exact ⟨[], rfl, by simp⟩
  · rename_i h
    cases hd : tab.drop t.length with
    | nil => simp [hd] at h
    | cons x w =>
      have hx : x = ' ' := htab x (List.mem_of_mem_drop (by rw [hd]; simp))
      subst hx
      exact ⟨w, rfl, fun c hc => htab c (List.mem_of_mem_drop (by rw [hd]; simp [hc]))⟩

/-- the free-form line `StmtBase.tofortran` writes: `[label][blanks][name:]text` -/
def printedLine (lbl : Option Nat) (name : Option Str) (text tab : Str) : Str :=
  (match lbl with
    | some l => natToStr l ++ tabAfter (natToStr l) tab
    | none => tab) ++
  (match name with | some n => n ++ [':'] | none => []) ++ text

theorem truthy_cons (c : Char) (t : Str) : truthy (some (c :: t)) = true := rfl

theorem tofortran_nn (text tab : Str) : tofortran none none text tab false = tab ++ text := by
  simp [tofortran, truthy]
theorem tofortran_ns (c : Char) (t text tab : Str) :
    tofortran none (some (c :: t)) text tab false = tab ++ (c :: t) ++ ':' :: text := by
  simp [tofortran, truthy, tofortran.getS]
theorem tofortran_ln (l : Nat) (text tab : Str) :
    tofortran (some (l + 1)) none text tab false
      = natToStr (l + 1) ++ tabAfter (natToStr (l + 1)) tab ++ text := by
  simp [tofortran, truthy, tabAfter]
theorem tofortran_ls (l : Nat) (c : Char) (t text tab : Str) :
    tofortran (some (l + 1)) (some (c :: t)) text tab false
      = natToStr (l + 1) ++ tabAfter (natToStr (l + 1)) tab ++ (c :: t) ++ ':' :: text := by
  simp [tofortran, truthy, tabAfter, tofortran.getS]

/-- **label_name_printed** (free form).  `lbl` is a label ≥ 1 (`none` = no label; label 0 is NOT
    printed: `label_zero_dropped`).  The printed line is exactly `[label][blanks][name:]text`
    (`printedLine`) and the reader's `extract_label` / `extract_construct_name` read the same
    label, name and text back — for all four combinations of label / name present / absent. -/
theorem label_name_printed (lbl : Option Nat) (name : Option Str) (text tab : Str)
    (hl : lbl ≠ some 0) (hn : ∀ n, name = some n → IsName n) (ht : TextOK text)
    (htab : ∀ c ∈ tab, c = ' ') :
    tofortran lbl name text tab false = printedLine lbl name text tab ∧
    (Reader.extractLabel (tofortran lbl name text tab false)).1 = lbl ∧
    (Reader.extractName (Reader.extractLabel (tofortran lbl name text tab false)).2).1 = name ∧
    lstrip (Reader.extractName (Reader.extractLabel (tofortran lbl name text tab false)).2).2 = text := by
  obtain ⟨⟨c0, t0, htx, hcw, hcd⟩, hnr⟩ := ht
  have hcs : isSpace c0 = false := word_not_space hcw
  have htext_l : lstrip text = text := by rw [htx]; exact lstrip_of_head hcs
  cases name with
  | none =>
    cases lbl with
    | none =>
      rw [tofortran_nn]
      have hl0 : Reader.extractLabel (tab ++ text) = (none, tab ++ text) := by
        rw [htx]; exact extractLabel_none htab hcs hcd
      rw [hl0]
      have hn0 : Reader.extractName (tab ++ text) = (none, tab ++ text) := by
        unfold Reader.extractName; rw [nameRe_blanks htab, hnr]
      rw [hn0]
      refine ⟨by simp [printedLine], rfl, rfl, ?_⟩
      show lstrip (tab ++ text) = text
      rw [lstrip_blanks_append _ htab, htext_l]
    | some l =>
      cases l with
      | zero => exact absurd rfl hl
      | succ l =>
        obtain ⟨w, hw, hwb⟩ := tabAfter_shape (t := natToStr (l + 1)) htab
        rw [tofortran_ln]
        refine ⟨by simp [printedLine], ?_⟩
        rw [hw]
        have e : natToStr (l + 1) ++ ' ' :: w ++ text = natToStr (l + 1) ++ ' ' :: (w ++ text) := by simp
        rw [e, extractLabel_digits (natToStr_digits _) (natToStr_ne_nil _), digitsToNat_natToStr]
        have hr : lstrip (w ++ text) = text := by rw [lstrip_blanks_append _ hwb, htext_l]
        have hn0 : Reader.extractName text = (none, text) := by
          unfold Reader.extractName; rw [hnr]
        refine ⟨rfl, ?_, ?_⟩
        · show (Reader.extractName (lstrip (w ++ text))).1 = none
          rw [hr, hn0]
        · show lstrip (Reader.extractName (lstrip (w ++ text))).2 = text
          rw [hr, hn0]; exact htext_l
  | some n =>
    obtain ⟨hnw, c1, t1, hn1, hnd⟩ := hn n rfl
    have hnne : n ≠ [] := by rw [hn1]; simp
    have hc1w : isWord c1 = true := hnw c1 (by rw [hn1]; simp)
    have hc1s : isSpace c1 = false := word_not_space hc1w
    cases lbl with
    | none =>
      rw [hn1, tofortran_ns, ← hn1]
      have hl0 : Reader.extractLabel (tab ++ n ++ ':' :: text) = (none, tab ++ n ++ ':' :: text) := by
        rw [List.append_assoc, hn1]
        exact extractLabel_none htab hc1s hnd
      rw [hl0, extractName_named htab hnw hnne htx hcw]
      exact ⟨by simp [printedLine], rfl, rfl, htext_l⟩
    | some l =>
      cases l with
      | zero => exact absurd rfl hl
      | succ l =>
        obtain ⟨w, hw, hwb⟩ := tabAfter_shape (t := natToStr (l + 1)) htab
        rw [hn1, tofortran_ls, ← hn1]
        refine ⟨by simp [printedLine], ?_⟩
        rw [hw]
        have e : natToStr (l + 1) ++ ' ' :: w ++ n ++ ':' :: text
            = natToStr (l + 1) ++ ' ' :: (w ++ n ++ ':' :: text) := by simp
        rw [e, extractLabel_digits (natToStr_digits _) (natToStr_ne_nil _), digitsToNat_natToStr]
        have hrest : lstrip (w ++ n ++ ':' :: text) = n ++ ':' :: text := by
          rw [List.append_assoc, lstrip_blanks_append _ hwb, hn1]
          exact lstrip_of_head hc1s
        have hnm : Reader.extractName (n ++ ':' :: text) = (some n, text) := by
          have := extractName_named (w := []) (by simp) hnw hnne htx hcw
          simpa using this
        refine ⟨rfl, ?_, ?_⟩
        · show (Reader.extractName (lstrip (w ++ n ++ ':' :: text))).1 = some n
          rw [hrest, hnm]
        · show lstrip (Reader.extractName (lstrip (w ++ n ++ ':' :: text))).2 = text
          rw [hrest, hnm]; exact htext_l

/-- `if label:` — a statement labelled `0` is printed WITHOUT its label (the reader accepts the
    label 0; the printed text re-reads with no label) -/
theorem label_zero_dropped (name : Option Str) (text tab : Str) :
    tofortran (some 0) name text tab false = tofortran none name text tab false := by
  simp [tofortran]

/-- fixed form: the label field is padded to six columns -/
theorem tofortran_fixed_label (l : Nat) (text tab : Str) :
    tofortran (some (l + 1)) none text tab true = padTo6 (' ' :: natToStr (l + 1)) ++ tab ++ text := by
  simp [tofortran, truthy]

/-! non-vacuity -/
example : TextOK "IF (a) THEN".toList := by decide
example : TextOK "END DO nam".toList := by decide
example : IsName "nam".toList := ⟨by decide, 'n', "am".toList, rfl, by decide⟩
example : tofortran (some 10) (some "nam".toList) "IF (a) THEN".toList [] false
    = "10 nam:IF (a) THEN".toList := by decide
example : tofortran (some 10) (some "nam".toList) "IF (a) THEN".toList "      ".toList false
    = "10    nam:IF (a) THEN".toList := by decide
example : tofortran none (some "nam".toList) "DO".toList "  ".toList false = "  nam:DO".toList := by decide
example : tofortran (some 7) none "CONTINUE".toList [] true = " 7    CONTINUE".toList := by decide
/-- the hypothesis `TextOK` is needed: a text of the shape `word : …` would be re-read as a name -/
example : ¬ TextOK "x : y".toList := by decide

end Fp.Header
