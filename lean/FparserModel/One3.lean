import FparserModel.Py
import FparserModel.Splitline
import FparserModel.One3Re

/-!
# One3 — the STATEMENT classes of fparser1 (`fparser/one/statements.py`,
# `fparser/one/typedecl_statements.py`), free form

`One2.lean` models the nesting of blocks and treats every non-block statement as a leaf.  This
file models the leaves: for every statement class its `process_item` (the ad-hoc slicing of the
placeholder-mapped line `item.get_line()`, the pieces restored with `item.apply_map`) and its
`tofortran`, branch for branch, including the defects.

* An item is its text (`Line.line`) and its label.  `getLine` is `Line.get_line()`:
  `Fp.Splitline.stringReplaceMap line (lower := true)`; `applyMap` is `StringReplaceDict.__call__`.
* `splitComma` is `utils.split_comma(line, item)`: the piece is RESTORED (`item.copy(line, True)`),
  mapped AGAIN, split at the commas of the new mapped text, every part restored and stripped.
* Exceptions of the Python code are values (`Exc`): `AssertionError` of the `assert`s, `IndexError`
  of `s[0]`/`s[-1]` on an empty string, `ValueError` of `str.index`/`rindex`/tuple unpacking,
  `AttributeError` of `m.end()` on a failed `re.match`, `TypeError` of the `%` in `Format`,
  `ParseError` (the documented one), `FortranReaderError` of `Line("")`, `KeyError` of
  `string_replace_map`.
* `isvalid = False` is `Ret.node = none`; the `<type> function` dance of the type declarations
  (`parent.put_item`, `item.clone`) is recorded in `Ret.put` / `Ret.clone`.
* The regular expressions come from the generated table `T` (`Generated/One3Tables.lean`,
  translated from the live classes) and are interpreted by `Re3.m`.

Not modelled: fixed form / f77 / pyf modes (Hollerith, `AssignedGoto`, `Assign` only as far as
free form reaches them), `analyze()` beyond "the statement text is a function of the fields set
by `process_item`" (see `analyze`), the logging side effects, the block classes (One2).
ASCII domain.  No Mathlib.
-/
namespace Fp.One3
open Fp Fp.Splitline

/-! ## Python `str` helpers -/

def str (s : String) : Str := s.toList

/-- `s[i]` for `i ≥ 0` -/
def at? (s : Str) (i : Nat) : Option Char := s[i]?
/-- `s[-1]` -/
def last? (s : Str) : Option Char := s.getLast?
/-- `s[1:-1]` -/
def inner (s : Str) : Str := (s.drop 1).dropLast
/-- `s[:-1]` -/
def dropLast1 (s : Str) : Str := s.dropLast
/-- `s[a:b]` for `0 ≤ a`, `0 ≤ b` -/
def slice (s : Str) (a b : Nat) : Str := (s.take b).drop a

/-- `s.find(sub)` -/
def findS (s sub : Str) : Option Nat := findSub s sub
/-- `s.find(sub, from)` -/
def findSFrom (s sub : Str) (i : Nat) : Option Nat :=
  match findSub (s.drop i) sub with
  | some j => if i ≤ s.length then some (i + j) else none
  | none => none
def hasS (s sub : Str) : Bool := (findS s sub).isSome

/-- `s.rfind(c)` for one character -/
def rfindC (s : Str) (c : Char) : Option Nat := rfind s c

def countC (s : Str) (c : Char) : Nat := (s.filter (· == c)).length

/-- `sep.join(xs)` -/
def join (sep : Str) : List Str → Str
  | [] => []
  | [x] => x
  | x :: xs => x ++ sep ++ join sep xs

def commaSp : Str := [',', ' ']

/-- `s.replace(" ", "")` -/
def noBlank (s : Str) : Str := s.filter (· != ' ')

/-- `s.strip(ch)` for one character -/
def stripC (ch : Char) (s : Str) : Str :=
  ((s.dropWhile (· == ch)).reverse.dropWhile (· == ch)).reverse

/-- `s.rsplit(",", 2)` : `none` unless it has exactly three parts (tuple unpacking) -/
def rsplit2 (s : Str) : Option (Str × Str × Str) :=
  match rfindC s ',' with
  | none => none
  | some j =>
    let a := s.take j
    let l3 := s.drop (j + 1)
    match rfindC a ',' with
    | none => none
    | some i => some (a.take i, a.drop (i + 1), l3)

/-- `is_name = re.compile(r"^[a-z_]\w*$", re.I).match` -/
def isName (s : Str) : Bool :=
  match s with
  | c :: cs => (isAlpha c || c == '_') &&
      (let r := cs.dropWhile isWord; r.isEmpty || r == ['\n'])
  | [] => false

/-- `is_entity_decl = re.compile(r"^[a-z_]\w*", re.I).match` -/
def isEntityDecl (s : Str) : Bool :=
  match s with
  | c :: _ => isAlpha c || c == '_'
  | [] => false

/-! ## exceptions, items -/

inductive Exc
  | keyError | assertion | indexError | valueError | attributeError | typeError
  | parseError | readerError
  deriving DecidableEq, Repr, Inhabited

def Exc.name : Exc → String
  | .keyError => "KeyError" | .assertion => "AssertionError" | .indexError => "IndexError"
  | .valueError => "ValueError" | .attributeError => "AttributeError" | .typeError => "TypeError"
  | .parseError => "ParseError" | .readerError => "FortranReaderError"

abbrev M := Except Exc

structure Item where
  line : Str
  label : Option Nat := none
  deriving DecidableEq, Repr, Inhabited

/-- `Line.__init__`: the text is stripped, an empty text raises `FortranReaderError` -/
def mkItem (line : Str) (label : Option Nat) : M Item :=
  let l := strip line
  if l.isEmpty then .error .readerError else .ok { line := l, label := label }

/-- `Line.get_line()` (free form): the mapped text and the map -/
def getLine (it : Item) : M SrmResult :=
  match stringReplaceMap it.line true with
  | some r => .ok r
  | none => .error .keyError

/-- `item.apply_map` (after `get_line()`) -/
def am (r : SrmResult) (s : Str) : Str := applyMap r.map s

/-- `Line.has_map()` -/
def hasMap (r : SrmResult) : Bool := !r.map.isEmpty

/-- `item.copy(line, apply_map)` -/
def copyItem (it : Item) (r : SrmResult) (line : Str) (apply : Bool) : M Item :=
  mkItem (if apply then am r line else line) it.label

/-- `str.split(",")`-then-strip loop shared by both branches of `split_comma` -/
def keepParts (keepEmpty : Bool) (parts : List Str) : List Str :=
  parts.filter fun s => keepEmpty || !s.isEmpty

/-- `split_comma(line)` (no item) -/
def splitComma0 (line : Str) : List Str :=
  let l := strip line
  if l.isEmpty then [] else
  keepParts false ((splitOnChar l ',').map strip)

/-- `split_comma(line, item, comma, keep_empty)` for a one-character `comma` -/
def splitCommaC (it : Item) (r : SrmResult) (line : Str) (comma : Char) (keepEmpty : Bool) :
    M (List Str) :=
  let l := strip line
  if l.isEmpty then .ok [] else do
  let ni ← copyItem it r l true
  let r2 ← getLine ni
  .ok (keepParts keepEmpty ((splitOnChar r2.text comma).map fun s => strip (am r2 s)))

/-- `split_comma(line, item)` -/
def splitComma (it : Item) (r : SrmResult) (line : Str) : M (List Str) :=
  splitCommaC it r line ',' false

/-- one element of `specs_split_comma` -/
def specOf (up : Bool) (spec : Str) : Str :=
  match find spec '=' with
  | some i => upper (strip (spec.take i)) ++ str " = " ++ strip (spec.drop (i + 1))
  | none => if up then upper spec else spec

/-- `specs_split_comma(line, item, upper)` -/
def specsSplitComma (it : Item) (r : SrmResult) (line : Str) (up : Bool := false) : M (List Str) := do
  let l ← splitComma it r line
  .ok (l.map (specOf up))

/-- `split_comma(line, item, brackets=("(", ")"))` -/
def splitCommaBr (it : Item) (r : SrmResult) (line : Str) : M (List Str) :=
  let l := strip line
  if l.isEmpty then .ok [] else
  if !(startsWith l ['('] && endsWith l [')']) then .ok [] else
  let l2 := stripC ')' (stripC '(' l)
  do
  let ni ← copyItem it r l2 true
  let r2 ← getLine ni
  .ok (keepParts false ((splitOnChar r2.text ',').map fun s => strip (am r2 s)))

/-- `extract_bracketed_list_items(line, item)`; `ParseError` is `.error .parseError` -/
def extractBracketed (it : Item) (r : SrmResult) (line : Str) : M (List (List Str)) :=
  if countC line '(' > 1 || countC line ')' > 1 then .error .parseError else
  match find line '(', rfindC line ')' with
  | some i1, some i2 =>
    if i2 < i1 then .error .parseError else do
    let items ← splitCommaBr it r (slice line i1 (i2 + 1))
    items.mapM fun x => do
      let itm ← copyItem it r x false
      let r2 ← getLine itm
      .ok ((splitOnChar r2.text ':').map fun p => am r2 (strip p))
  | _, _ => .error .parseError

/-- `parse_bind(line, item)` → (`None` | args, rest) -/
def parseBind (it : Item) (r : SrmResult) (line : Str) : M (Option (List Str) × Str) :=
  if !startsWith (lower line) (str "bind") then .ok (none, line) else do
  let ni ← copyItem it r line true
  let r2 ← getLine ni
  let nl := lstrip (r2.text.drop 4)
  match find nl ')' with
  | none => .error .assertion
  | some i =>
    let args ← specsSplitComma ni r2 (strip (slice nl 1 i)) true
    .ok (some args, am r2 (lstrip (nl.drop (i + 1))))

/-- `parse_result(line, item)` -/
def parseResult (line : Str) : M (Option Str × Str) :=
  if !startsWith (lower line) (str "result") then .ok (none, line) else
  let l := lstrip (line.drop 6)
  match find l ')' with
  | none => .error .assertion
  | some i =>
    let name := strip (slice l 1 i)
    if !isName name then .error .assertion else .ok (some name, lstrip (l.drop (i + 1)))

/-! ## classes -/

inductive ClassId
  | Assignment | PointerAssignment | GeneralAssignment | Assign | Call | Goto | ComputedGoto
  | AssignedGoto | Continue | Return | Stop | Print | Read | Read0 | Read1 | Write | Flush | Wait
  | Contains | Allocate | Deallocate | ModuleProcedure | Public | Private | Close | Cycle | Exit
  | Backspace | Endfile | Rewind | Open | Format | Save | Data | Nullify | Use | Parameter
  | Equivalence | Dimension | Target | Pointer | Protected | Volatile | Value | ArithmeticIf
  | Intrinsic | Inquire | Sequence | External | Namelist | Common | Optional | Intent | Entry
  | Import | Forall | SpecificBinding | GenericBinding | FinalBinding | Allocatable
  | Asynchronous | Bind | Else | ElseIf | Case | TypeIs | ClassIs | Where | ElseWhere
  | Enumerator | Pause
  | Integer | Real | DoublePrecision | Complex | DoubleComplex | Character | Logical | Byte
  | Type | Class | Implicit
  deriving DecidableEq, Repr, Inhabited

def ClassId.all : List ClassId :=
  [.Assignment, .PointerAssignment, .GeneralAssignment, .Assign, .Call, .Goto, .ComputedGoto,
   .AssignedGoto, .Continue, .Return, .Stop, .Print, .Read, .Read0, .Read1, .Write, .Flush, .Wait,
   .Contains, .Allocate, .Deallocate, .ModuleProcedure, .Public, .Private, .Close, .Cycle, .Exit,
   .Backspace, .Endfile, .Rewind, .Open, .Format, .Save, .Data, .Nullify, .Use, .Parameter,
   .Equivalence, .Dimension, .Target, .Pointer, .Protected, .Volatile, .Value, .ArithmeticIf,
   .Intrinsic, .Inquire, .Sequence, .External, .Namelist, .Common, .Optional, .Intent, .Entry,
   .Import, .Forall, .SpecificBinding, .GenericBinding, .FinalBinding, .Allocatable,
   .Asynchronous, .Bind, .Else, .ElseIf, .Case, .TypeIs, .ClassIs, .Where, .ElseWhere,
   .Enumerator, .Pause,
   .Integer, .Real, .DoublePrecision, .Complex, .DoubleComplex, .Character, .Logical, .Byte,
   .Type, .Class, .Implicit]

/-- `cls.__name__` -/
def ClassId.name : ClassId → String
  | .Assignment => "Assignment"
  | .PointerAssignment => "PointerAssignment"
  | .GeneralAssignment => "GeneralAssignment"
  | .Assign => "Assign"
  | .Call => "Call"
  | .Goto => "Goto"
  | .ComputedGoto => "ComputedGoto"
  | .AssignedGoto => "AssignedGoto"
  | .Continue => "Continue"
  | .Return => "Return"
  | .Stop => "Stop"
  | .Print => "Print"
  | .Read => "Read"
  | .Read0 => "Read0"
  | .Read1 => "Read1"
  | .Write => "Write"
  | .Flush => "Flush"
  | .Wait => "Wait"
  | .Contains => "Contains"
  | .Allocate => "Allocate"
  | .Deallocate => "Deallocate"
  | .ModuleProcedure => "ModuleProcedure"
  | .Public => "Public"
  | .Private => "Private"
  | .Close => "Close"
  | .Cycle => "Cycle"
  | .Exit => "Exit"
  | .Backspace => "Backspace"
  | .Endfile => "Endfile"
  | .Rewind => "Rewind"
  | .Open => "Open"
  | .Format => "Format"
  | .Save => "Save"
  | .Data => "Data"
  | .Nullify => "Nullify"
  | .Use => "Use"
  | .Parameter => "Parameter"
  | .Equivalence => "Equivalence"
  | .Dimension => "Dimension"
  | .Target => "Target"
  | .Pointer => "Pointer"
  | .Protected => "Protected"
  | .Volatile => "Volatile"
  | .Value => "Value"
  | .ArithmeticIf => "ArithmeticIf"
  | .Intrinsic => "Intrinsic"
  | .Inquire => "Inquire"
  | .Sequence => "Sequence"
  | .External => "External"
  | .Namelist => "Namelist"
  | .Common => "Common"
  | .Optional => "Optional"
  | .Intent => "Intent"
  | .Entry => "Entry"
  | .Import => "Import"
  | .Forall => "Forall"
  | .SpecificBinding => "SpecificBinding"
  | .GenericBinding => "GenericBinding"
  | .FinalBinding => "FinalBinding"
  | .Allocatable => "Allocatable"
  | .Asynchronous => "Asynchronous"
  | .Bind => "Bind"
  | .Else => "Else"
  | .ElseIf => "ElseIf"
  | .Case => "Case"
  | .TypeIs => "TypeIs"
  | .ClassIs => "ClassIs"
  | .Where => "Where"
  | .ElseWhere => "ElseWhere"
  | .Enumerator => "Enumerator"
  | .Pause => "Pause"
  | .Integer => "Integer"
  | .Real => "Real"
  | .DoublePrecision => "DoublePrecision"
  | .Complex => "Complex"
  | .DoubleComplex => "DoubleComplex"
  | .Character => "Character"
  | .Logical => "Logical"
  | .Byte => "Byte"
  | .Type => "Type"
  | .Class => "Class"
  | .Implicit => "Implicit"

def ClassId.ofName? (n : String) : Option ClassId := ClassId.all.find? fun c => c.name == n

/-- `self.stmtname` if the class has one, else `cls.__name__` (StatementWithNamelist) -/
def ClassId.stmtName (c : ClassId) : String :=
  match c with
  | .FinalBinding => "final"
  | c => c.name

/-- one row of the generated table -/
structure Row where
  cls : String
  pattern : String
  ic : Bool                 -- `re.I`
  re : Re3
  deriving Repr, Inhabited

structure Tables where
  rows : List Row
  fingerprints : List (String × String)
  helperPatterns : List (String × String)   -- `is_name`, `name_re`, …: pattern strings
  deriving Repr, Inhabited

def Tables.row? (T : Tables) (n : String) : Option Row := T.rows.find? fun r => r.cls == n

/-- `cls.match(s)`: the remainder after the match -/
def Tables.run (T : Tables) (n : String) (s : Str) : Option Str :=
  match T.row? n with
  | some r => r.re.run r.ic s
  | none => none

def Tables.matches (T : Tables) (c : ClassId) (s : Str) : Bool := (T.run c.name s).isSome

/-! ## nodes -/

/-- a type declaration statement (`TypeDeclarationStatement`) -/
structure TypeDecl where
  cls : ClassId
  selector : Str × Str          -- (length, kind)
  attrspec : List Str
  entityDecls : List Str
  name : Str
  deriving DecidableEq, Repr, Inhabited

/-- the statement kept by `Implicit` for one item: valid, invalid with `selector` already set
    (`tostr` works), or invalid before that (`tostr` raises AttributeError) -/
inductive ImplDecl
  | valid (d : TypeDecl)
  | partial_ (cls : ClassId) (selector : Str × Str)
  | broken
  deriving DecidableEq, Repr, Inhabited

inductive AllocSpec
  | none
  | name (s : Str)
  | decl (d : TypeDecl)
  deriving DecidableEq, Repr, Inhabited

inductive Node
  | items (c : ClassId) (items : List Str)
  | specs (c : ClassId) (specs : List Str)
  | specsItems (c : ClassId) (specs items : List Str)
  | fmtItems (c : ClassId) (fmt : Str) (items : List Str)
  | one (c : ClassId) (s : Str)
  | bare (c : ClassId)
  | assign (c : ClassId) (var sign expr : Str)
  | assignTo (a b : Str)
  | call (designator : Str) (items : List Str)
  | cgoto (items : List Str) (expr : Str)
  | agoto (varname : Str) (items : List Str)
  | aif (expr : Str) (labels : List Str)
  | allocate (spec : AllocSpec) (items : List Str)
  | data (stmts : List (List Str × List Str))
  | use (nature name : Str) (isonly : Bool) (items : List Str)
  | namelist (items : List (Str × Str))
  | common (items : List (Str × List Str))
  | entry (name : Str) (items : List Str) (result : Option Str) (bind : Option (List Str))
  | forall_ (specs : List (Str × Str × Str × Str)) (mask : Str) (content : Node)
  | specific (iname : Str) (attrs : List Str) (name bname : Str)
  | generic (aspec spec : Str) (items : List Str)
  | elseif (expr name : Str)
  | caseLike (c : ClassId) (items : List (List Str)) (name : Str)
  | where_ (expr : Str) (content : Node)
  | elsewhere (expr : Option Str) (name : Str)
  | typedecl (d : TypeDecl)
  | implicit (items : List (ImplDecl × List (Str × Str)))
  deriving Repr, Inhabited

/-- what `cls(parent, item)` leaves behind -/
structure Ret where
  node : Option Node            -- `none` : `isvalid = False`
  put : Option Str := none      -- `parent.put_item(Line(put))`
  clone : Option Str := none    -- `item.clone(..)`: the new text of the item
  ignore : Bool := false
  typedeclSet : Bool := false   -- `parent.typedecl = self`
  partialSel : Option (Str × Str) := none   -- `self.selector` of an invalid type declaration
  deriving Repr, Inhabited

def valid (n : Node) : M Ret := .ok { node := some n }
def invalid : M Ret := .ok { node := none }

/-- the parent as far as the statement classes look at it -/
structure Ctx where
  label : Option Nat := none         -- `item.label`
  depth : Nat := 0                   -- number of `Statement` ancestors
  parentName : Str := []             -- `getattr(parent, "name", "")`
  parentIsFunction : Bool := false
  parentTypedecl : Bool := false     -- `parent.typedecl is not None`
  deriving Repr, Inhabited

/-! ## slicing with Python's `find` result (`none` = -1) -/

/-- `s[:i]` where `i = s.find(..)` -/
def upTo (s : Str) : Option Nat → Str
  | some i => s.take i
  | none => s.dropLast
/-- `s[i+1:]` where `i = s.find(..)` -/
def after (s : Str) : Option Nat → Str
  | some i => s.drop (i + 1)
  | none => s
/-- `s[1:i]` -/
def from1To (s : Str) (i : Option Nat) : Str := (upTo s i).drop 1
/-- `s[:i+1]` -/
def upToIncl (s : Str) : Option Nat → Str
  | some i => s.take (i + 1)
  | none => []

/-- `if line.startswith("::"): line = line[2:].lstrip()` -/
def dropColons (line : Str) : Str :=
  if startsWith line [':', ':'] then lstrip (line.drop 2) else line

/-- `s[0] + s[-1] == "()"`; `none` = IndexError -/
def parenEnds (s : Str) : Option Bool :=
  match s.head?, s.getLast? with
  | some a, some b => some (a == '(' && b == ')')
  | _, _ => none

/-! ## `GeneralAssignment` -/

/-- the `while True` loop over `v` -/
def varLoop : Nat → Str → Bool
  | 0, _ => true
  | fuel + 1, v =>
    match find v ')' with
    | none => true
    | some i =>
      let v' := v.drop (i + 1)
      if startsWith v' ['('] || startsWith v' ['%'] then varLoop fuel v'
      else if !v'.isEmpty then false
      else varLoop fuel v'

/-- `item_re`: (variable, sign, expr) -/
def assignRe (line : Str) : Option (Str × Str × Str) :=
  match line with
  | [] => none
  | c :: _ =>
    if !isWord c then none else
    match find line '=' with
    | none => none
    | some i =>
      let v := line.take i
      let rest := line.drop (i + 1)
      let (sign, rest) := match rest with
        | '>' :: t => (['=', '>'], t)
        | _ => (['='], rest)
      let e := lstrip rest
      if e.contains '\n' || v.contains '\n' then none else some (v, sign, e)

/-- `variable.rstrip()[-1:] in ("<", ">", "/")` : the `=` belongs to a relational operator -/
def relTail (v : Str) : Bool :=
  match v.getLast? with
  | some c => c == '<' || c == '>' || c == '/'
  | none => false

/-- `GeneralAssignment.process_item` for `self` of class `c` -/
def processAssign (c : ClassId) (it : Item) : M Ret := do
  let r ← getLine it
  match assignRe r.text with
  | none => invalid
  | some (v, sign, e) =>
    if relTail (rstrip v) || (sign == ['='] && startsWith e ['=']) then invalid
    else if c == .Assignment && sign != ['='] then invalid
    else if c == .PointerAssignment && sign != ['=', '>'] then invalid
    else
      let cls := if sign == ['=', '>'] then ClassId.PointerAssignment else ClassId.Assignment
      let v1 := noBlank v
      if !varLoop (v1.length + 1) v1 then invalid
      else valid (.assign cls (am r v1) sign (am r e))

/-! ## the simple execution statements -/

def processAssignTo (it : Item) : M Ret := do
  let r ← getLine it
  let line := lstrip (r.text.drop 6)
  let i := findS (lower line) ['t', 'o']
  if hasMap r then .error .assertion else
  valid (.assignTo (rstrip (upTo line i)) (lstrip (match i with | some i => line.drop (i + 2) | none => line.drop 1)))

/-- the backwards scan of `Call.process_item`: position of the matching `(` if it is > 0 -/
def callScan (line : Array Char) : Nat → Nat → Nat → Option Nat
  | 0, _, _ => none
  | fuel + 1, i, nopen =>
    if i == 0 then none else
    let ch := line[i]?.getD ' '
    let nopen := if ch == ')' then nopen + 1 else if ch == '(' then nopen - 1 else nopen
    if nopen == 0 then some i else callScan line fuel (i - 1) nopen

def processCall (it : Item) : M Ret := do
  let r ← getLine it
  let line := strip (r.text.drop 4)
  if endsWith line [')'] then
    if line.length < 2 then invalid else
    match callScan line.toArray line.length (line.length - 2) 1 with
    | none => invalid
    | some i =>
      let items ← splitComma it r (dropLast1 (line.drop (i + 1)))
      valid (.call (strip (am r (line.take i))) items)
  else valid (.call (strip (am r line)) [])

def afterGoTo (t : Str) : Str := lstrip ((lstrip (t.drop 2)).drop 2)

def processGoto (it : Item) : M Ret := do
  let r ← getLine it
  if hasMap r then .error .assertion else
  valid (.one .Goto (afterGoTo r.text))

def processCGoto (it : Item) : M Ret := do
  let r ← getLine it
  let line := afterGoTo r.text
  match find line ')' with
  | none => .error .valueError
  | some i =>
    let items ← splitComma it r (slice line 1 i)
    let rest := lstrip (line.drop (i + 1))
    let rest := if startsWith rest [','] then lstrip (rest.drop 1) else rest
    valid (.cgoto items (am r rest))

def processAGoto (it : Item) : M Ret := do
  let r ← getLine it
  let line := afterGoTo r.text
  match find line '(' with
  | none => valid (.agoto line [])
  | some i =>
    if last? line != some ')' then .error .assertion else do
    let items ← splitComma it r (dropLast1 (line.drop (i + 1)))
    valid (.agoto (rstrip (line.take i)) items)

/-- `self.x = item.apply_map(item.get_line()[n:].lstrip())` -/
def processOneAm (c : ClassId) (n : Nat) (it : Item) : M Ret := do
  let r ← getLine it
  valid (.one c (am r (lstrip (r.text.drop n))))

/-- `self.name = item.get_line()[n:].lstrip()` -/
def processOneRaw (c : ClassId) (n : Nat) (it : Item) : M Ret := do
  let r ← getLine it
  valid (.one c (lstrip (r.text.drop n)))

/-- `Print` / `Read1` -/
def processFmtItems (c : ClassId) (n : Nat) (it : Item) : M Ret := do
  let r ← getLine it
  let items ← splitComma it r (lstrip (r.text.drop n))
  match items with
  | [] => .error .indexError
  | f :: rest => valid (.fmtItems c f rest)

def processRead0 (it : Item) : M Ret := do
  let r ← getLine it
  let line := lstrip (r.text.drop 4)
  let i := find line ')'
  let specs ← specsSplitComma it r (from1To line i)
  let items ← splitComma it r (after line i)
  valid (.specsItems .Read0 specs items)

def processRead (it : Item) : M Ret := do
  let r ← getLine it
  if startsWith (lstrip (r.text.drop 4)) ['('] then processRead0 it
  else processFmtItems .Read1 4 it

def processWrite (it : Item) : M Ret := do
  let r ← getLine it
  let line := lstrip (r.text.drop 5)
  match find line ')' with
  | none => .error .assertion
  | some i =>
    let specs ← specsSplitComma it r (slice line 1 i)
    let items ← splitComma it r (line.drop (i + 1))
    valid (.specsItems .Write specs items)

def processFlush (it : Item) : M Ret := do
  let r ← getLine it
  let line := lstrip (r.text.drop 5)
  if line.isEmpty then invalid
  else if startsWith line ['('] then
    if last? line != some ')' then .error .assertion else do
    let specs ← specsSplitComma it r (inner line)
    valid (.specs .Flush specs)
  else do
    let specs ← specsSplitComma it r line
    valid (.specs .Flush specs)

/-- `KW ( … )`: `specs_split_comma(get_line()[n:].lstrip()[1:-1] (.strip()), item)` -/
def processParenSpecs (c : ClassId) (n : Nat) (it : Item) : M Ret := do
  let r ← getLine it
  let specs ← specsSplitComma it r (inner (lstrip (r.text.drop n)))
  valid (if c == .Deallocate then .items c specs else .specs c specs)

/-- `KW ( … )`: `split_comma(get_line()[n:].lstrip()[1:-1].strip(), item)` -/
def processParenItems (c : ClassId) (n : Nat) (it : Item) : M Ret := do
  let r ← getLine it
  let items ← splitComma it r (inner (lstrip (r.text.drop n)))
  valid (.items c items)

/-- `KW [::] list` : `split_comma(line, item)` -/
def processKwItems (c : ClassId) (n : Nat) (it : Item) : M Ret := do
  let r ← getLine it
  let items ← splitComma it r (dropColons (lstrip (r.text.drop n)))
  valid (.items c items)

/-- `StatementWithNamelist.process_item` -/
def processNamelistStmt (c : ClassId) (it : Item) : M Ret := do
  let r ← getLine it
  if hasMap r then invalid else
  let line := dropColons (lstrip (r.text.drop c.stmtName.length))
  let items := splitComma0 line
  if items.all isName then valid (.items c items) else invalid

def processModuleProcedure (T : Tables) (it : Item) : M Ret := do
  let r ← getLine it
  match T.run "ModuleProcedure" r.text with
  | none => .error .assertion
  | some rest =>
    let items ← splitComma it r (strip rest)
    if items.all isName then valid (.items .ModuleProcedure items) else invalid

/-- `Access.process_item` (`Public` / `Private`) -/
def processAccess (c : ClassId) (it : Item) : M Ret := do
  let r ← getLine it
  let clsname := (str c.name).map lowerC
  if !startsWith (lower r.text) clsname then invalid else do
  let items ← splitComma it r (dropColons (lstrip (r.text.drop clsname.length)))
  valid (.items c items)

def processFilePos (c : ClassId) (it : Item) : M Ret := do
  let r ← getLine it
  let clsname := (str c.name).map lowerC
  if !startsWith (lower r.text) clsname then invalid else
  let line := lstrip (r.text.drop clsname.length)
  if startsWith line ['('] then
    if last? line != some ')' then .error .assertion else do
    let specs ← specsSplitComma it r (strip (inner line))
    valid (.specs c specs)
  else do
    let specs ← specsSplitComma it r line
    valid (.specs c specs)

def processFormat (it : Item) : M Ret := do
  if it.label.isNone then .error .typeError else
  let r ← getLine it
  let line := lstrip (r.text.drop 6)
  match parenEnds line with
  | none => .error .indexError
  | some false => .error .assertion
  | some true =>
    let specs ← splitComma it r (inner line)
    valid (.specs .Format specs)

/-- the loop of `Save.process_item`, left to right: `none` = `isvalid = False` at the first
    element that is neither `/name/` nor a name; an assertion before it is raised first -/
def saveLoopLR : List Str → List Str → M (Option (List Str))
  | [], acc => .ok (some acc.reverse)
  | s :: rest, acc =>
    let s := strip s
    if s.isEmpty then saveLoopLR rest acc
    else if startsWith s ['/'] then
      if !endsWith s ['/'] then .error .assertion else
      let n := strip (inner s)
      if !isName n then .error .assertion else saveLoopLR rest (('/' :: n ++ ['/']) :: acc)
    else if isName s then saveLoopLR rest (s :: acc)
    else .ok none

def processSave (it : Item) : M Ret := do
  let r ← getLine it
  if hasMap r then .error .assertion else
  let line := dropColons (lstrip (r.text.drop 4))
  match ← saveLoopLR (splitOnChar line ',') [] with
  | some items => valid (.items .Save items)
  | none => invalid

def dataLoop (it : Item) (r : SrmResult) : Nat → Str → List (List Str × List Str) →
    M (Option (List (List Str × List Str)))
  | 0, _, acc => .ok (some acc.reverse)
  | fuel + 1, line, acc =>
    if line.isEmpty then .ok (some acc.reverse) else
    match find line '/' with
    | none => .ok none
    | some i =>
      match findSFrom line ['/'] (i + 1) with
      | none => .ok none
      | some j => do
        let l1 ← splitComma it r (rstrip (line.take i))
        let l2 ← splitComma it r (strip (slice line (i + 1) j))
        let rest := lstrip (line.drop (j + 1))
        let rest := if startsWith rest [','] then lstrip (rest.drop 1) else rest
        dataLoop it r fuel rest ((l1, l2) :: acc)

def processData (it : Item) : M Ret := do
  let r ← getLine it
  let line := lstrip (r.text.drop 4)
  match ← dataLoop it r (line.length + 1) line [] with
  | some stmts => valid (.data stmts)
  | none => invalid

def processUse (it : Item) : M Ret := do
  let r ← getLine it
  let line := lstrip (r.text.drop 3)
  let (nature, line) :=
    if startsWith line [','] then
      let i := findS line [':', ':']
      (upper (strip (from1To line i)),
       lstrip (match i with | some i => line.drop (i + 2) | none => line.drop 1))
    else ([], line)
  let line := dropColons line
  if !nature.isEmpty && !isName nature then invalid else
  match find line ',' with
  | none => valid (.use nature line false [])
  | some i =>
    let name := rstrip (line.take i)
    let line := lstrip (line.drop (i + 1))
    if startsWith (lower line) (str "only") && startsWith (lstrip (line.drop 4)) [':'] then do
      let items ← splitComma it r (lstrip ((lstrip (line.drop 4)).drop 1))
      valid (.use nature name true items)
    else do
      let items ← splitComma it r line
      valid (.use nature name false items)

def equivLoop (it : Item) (r : SrmResult) : List Str → M (List Str)
  | [] => .ok []
  | s :: rest => do
    let s := strip s
    match parenEnds s with
    | none => .error .indexError
    | some false => .error .assertion
    | some true =>
      let l ← splitComma it r (inner s)
      let tl ← equivLoop it r rest
      .ok (('(' :: join commaSp l ++ [')']) :: tl)

def processEquivalence (it : Item) : M Ret := do
  let r ← getLine it
  let items ← equivLoop it r (splitOnChar (lstrip (r.text.drop 11)) ',')
  valid (.items .Equivalence items)

def processAIf (it : Item) : M Ret := do
  let r ← getLine it
  let line := lstrip (r.text.drop 2)
  match rsplit2 line with
  | none => .error .valueError
  | some (line, l2, l3) =>
    match rfindC line ')' with
    | none => .error .valueError
    | some i =>
      valid (.aif (strip (am r (slice line 1 i))) [strip (line.drop (i + 1)), strip l2, strip l3])

def processInquire (it : Item) : M Ret := do
  let r ← getLine it
  let line := lstrip (r.text.drop 7)
  match find line ')' with
  | none => .error .valueError
  | some i =>
    let specs ← specsSplitComma it r (strip (slice line 1 i))
    let items ← splitComma it r (lstrip (line.drop (i + 1)))
    valid (.specsItems .Inquire specs items)

def namelistLoop : Nat → Str → List (Str × Str) → M (List (Str × Str))
  | 0, _, acc => .ok acc.reverse
  | fuel + 1, line, acc =>
    if line.isEmpty then .ok acc.reverse else
    if !startsWith line ['/'] then .error .assertion else
    match findSFrom line ['/'] 1 with
    | none => .error .assertion
    | some i =>
      let name := line.take (i + 1)
      let line := lstrip (line.drop (i + 1))
      match find line '/' with
      | none => .ok ((name, line) :: acc).reverse
      | some i =>
        let s := rstrip (line.take i)
        let s := if endsWith s [','] then rstrip (dropLast1 s) else s
        namelistLoop fuel (lstrip (line.drop i)) ((name, s) :: acc)

def processNamelist (it : Item) : M Ret := do
  let r ← getLine it
  let line := lstrip (r.text.drop 8)
  let items ← namelistLoop (line.length + 1) line []
  valid (.namelist items)

def commonLoop (it : Item) (r : SrmResult) : Nat → Str → List (Str × List Str) →
    M (List (Str × List Str))
  | 0, _, acc => .ok acc.reverse
  | fuel + 1, line, acc =>
    if line.isEmpty then .ok acc.reverse else do
    let (name, line) ←
      (if !startsWith line ['/'] then
        (if !acc.isEmpty then .error .assertion else .ok ([], line) : M (Str × Str))
      else
        match findSFrom line ['/'] 1 with
        | none => .error .assertion
        | some i => .ok (strip (slice line 1 i), lstrip (line.drop (i + 1))))
    match find line '/' with
    | none =>
      let l ← splitComma it r line
      .ok ((name, l) :: acc).reverse
    | some i =>
      let s := rstrip (line.take i)
      let s := if endsWith s [','] then rstrip (dropLast1 s) else s
      let l ← splitComma it r s
      commonLoop it r fuel (lstrip (line.drop i)) ((name, l) :: acc)

def processCommon (it : Item) : M Ret := do
  let r ← getLine it
  let line := lstrip (r.text.drop 6)
  let items ← commonLoop it r (line.length + 1) line []
  valid (.common items)

def processIntent (it : Item) : M Ret := do
  let r ← getLine it
  let line := lstrip (r.text.drop 6)
  let i := find line ')'
  let specs ← specsSplitComma it r (from1To line i) true
  let line := dropColons (lstrip (after line i))
  let items := (splitOnChar line ',').map strip
  if items.all isName then valid (.specsItems .Intent specs items) else invalid

def processEntry (it : Item) : M Ret := do
  let r ← getLine it
  let line := lstrip (r.text.drop 5)
  let name := line.takeWhile isWord
  if name.isEmpty then .error .attributeError else
  let line := lstrip (line.dropWhile isWord)
  let (items, line) ←
    (if startsWith line ['('] then
      match find line ')' with
      | none => .error .assertion
      | some i => do
        let items ← splitComma it r (slice line 1 i)
        .ok (items, lstrip (line.drop (i + 1)))
    else .ok ([], line) : M (List Str × Str))
  let (bind, line) ← parseBind it r line
  let (result, line) ← parseResult line
  let (bind, line) ←
    (if !line.isEmpty then
      (if bind.isSome then .error .assertion else parseBind it r line)
    else .ok (bind, line) : M (Option (List Str) × Str))
  if !line.isEmpty then .error .assertion else
  valid (.entry name items result bind)

def forallSpecs (it : Item) (r : SrmResult) :
    List Str → List (Str × Str × Str × Str) → Str → M (List (Str × Str × Str × Str) × Str)
  | [], specs, mask => .ok (specs.reverse, mask)
  | l :: rest, specs, mask =>
    match find l '=' with
    | none => if !mask.isEmpty then .error .assertion else forallSpecs it r rest specs l
    | some j => do
      let index := rstrip (l.take j)
      let it2 ← copyItem it r (lstrip (l.drop (j + 1))) false
      let r2 ← getLine it2
      match (splitOnChar r2.text ':').map fun p => am r2 (strip p) with
      | [s1, s2, s3] => forallSpecs it r rest ((index, s1, s2, s3) :: specs) mask
      | [s1, s2] => forallSpecs it r rest ((index, s1, s2, ['1']) :: specs) mask
      | _ => .error .assertion

def processForall (it : Item) : M Ret := do
  let r ← getLine it
  let line := lstrip (r.text.drop 6)
  match find line ')' with
  | none => .error .valueError
  | some i =>
    let line0 := slice line 1 i
    let rest := lstrip (line.drop (i + 1))
    let it2 ← copyItem it r rest true
    let it2 := { it2 with label := none }
    let st ← processAssign .GeneralAssignment it2
    match st.node with
    | none => invalid
    | some content =>
      let ls ← splitComma it r line0
      let (specs, mask) ← forallSpecs it r ls [] []
      valid (.forall_ specs mask content)

def bindingAttr (attr : Str) : M Str :=
  if isName attr then .ok (upper attr) else
  match find attr '(' with
  | none => .error .assertion
  | some i =>
    if !endsWith attr [')'] then .error .assertion else
    .ok (upper (rstrip (attr.take i)) ++ str " (" ++ strip (dropLast1 (attr.drop (i + 1))) ++ [')'])

def processSpecific (it : Item) : M Ret := do
  let r ← getLine it
  let line := lstrip (r.text.drop 9)
  let (iname, line) ←
    (if startsWith line ['('] then
      match find line ')' with
      | none => .error .valueError
      | some i => .ok (strip (slice line 1 i), lstrip (line.drop (i + 1)))
    else .ok ([], line) : M (Str × Str))
  let line := if startsWith line [','] then lstrip (line.drop 1) else line
  let (attrs, line) ←
    (match findS line [':', ':'] with
    | some i => do
      let a ← splitComma it r (line.take i)
      .ok (a, lstrip (line.drop (i + 2)))
    | none => .ok ([], line) : M (List Str × Str))
  let attrs1 ← attrs.mapM bindingAttr
  match find line '=' with
  | none => valid (.specific iname attrs1 line [])
  | some i => valid (.specific iname attrs1 (rstrip (line.take i)) (lstrip ((lstrip (line.drop (i + 1))).drop 1)))

def processGeneric (it : Item) : M Ret := do
  let r ← getLine it
  let line := lstrip (r.text.drop 7)
  let line := if startsWith line [','] then lstrip (line.drop 1) else line
  match findS line [':', ':'] with
  | none => .error .valueError
  | some i =>
    let aspec := upper (rstrip (line.take i))
    let line := lstrip (line.drop (i + 2))
    match findS line ['=', '>'] with
    | none => .error .valueError
    | some i =>
      valid (.generic aspec (am r (rstrip (line.take i))) (splitComma0 (lstrip (line.drop (i + 2)))))

def bindItems : List Str → M (List Str)
  | [] => .ok []
  | x :: rest =>
    if startsWith x ['/'] then
      if !endsWith x ['/'] then .error .assertion else do
      let tl ← bindItems rest
      .ok ((str "/ " ++ strip (inner x) ++ str " /") :: tl)
    else do
      let tl ← bindItems rest
      .ok (x :: tl)

/-- `Bind.process_item` works on `item.line`, not on the mapped line.  When the line does not
    start with `bind`, `parse_bind` returns `None` and the `TypeError` is raised by `tofortran`;
    the model raises it here (unreachable when `match` held). -/
def processBind (it : Item) : M Ret := do
  let r ← getLine it
  let (specs, line) ← parseBind it r it.line
  match specs with
  | none => .error .typeError
  | some specs =>
    let line := dropColons line
    let l ← splitComma it r line
    let items ← bindItems l
    valid (.specsItems .Bind specs items)

/-- `if self.name and self.name != parent_name: isvalid = False` -/
def nameOk (ctx : Ctx) (name : Str) : Bool := name.isEmpty || name == ctx.parentName

def processElse (ctx : Ctx) (it : Item) : M Ret := do
  let r ← getLine it
  let name := strip (r.text.drop 4)
  if nameOk ctx name then valid (.one .Else name) else invalid

def processElseIf (ctx : Ctx) (it : Item) : M Ret := do
  let r ← getLine it
  let line := lstrip ((lstrip (r.text.drop 4)).drop 2)
  let i := find line ')'
  match line.head? with
  | none => .error .indexError
  | some c =>
    if c != '(' then .error .assertion else
    let expr := am r (from1To line i)
    let name := strip ((lstrip (after line i)).drop 4)
    if nameOk ctx name then valid (.elseif expr name) else invalid

/-- `Case` / `ClassIs` : the `try … except ParseError` -/
def processCaseLike (c : ClassId) (n : Nat) (ctx : Ctx) (it : Item) : M Ret := do
  let r ← getLine it
  let line := lstrip (r.text.drop n)
  match extractBracketed it r line with
  | .ok items =>
    let name := lstrip (match rfindC line ')' with | some i => line.drop (i + 1) | none => line)
    if nameOk ctx name then valid (.caseLike c items name) else invalid
  | .error .parseError =>
    if !startsWith (lower line) (str "default") then invalid else
    let name := lstrip (line.drop 7)
    if nameOk ctx name then valid (.caseLike c [] name) else invalid
  | .error e => .error e

def processTypeIs (ctx : Ctx) (it : Item) : M Ret := do
  let r ← getLine it
  let line := r.text
  let items ← extractBracketed it r line
  let name := lstrip (match rfindC line ')' with | some i => line.drop (i + 1) | none => line)
  if nameOk ctx name then valid (.caseLike .TypeIs items name) else invalid

def processWhere (T : Tables) (it : Item) : M Ret := do
  let r ← getLine it
  let line := lstrip (r.text.drop 5)
  match find line ')' with
  | none => .error .valueError
  | some i =>
    let expr := am r (strip (slice line 1 i))
    let line := lstrip (line.drop (i + 1))
    let it2 ← copyItem it r line true
    let it2 := { it2 with label := none }
    if T.matches .Assignment line then do
      let st ← processAssign .Assignment it2
      match st.node with
      | some content => valid (.where_ expr content)
      | none => invalid
    else invalid

def processElseWhere (ctx : Ctx) (it : Item) : M Ret := do
  let r ← getLine it
  let line := lstrip ((lstrip (r.text.drop 4)).drop 5)
  let (expr, line) ←
    (if startsWith line ['('] then
      match find line ')' with
      | none => .error .valueError
      | some i => .ok (some (am r (strip (slice line 1 i))), lstrip (line.drop (i + 1)))
    else .ok (none, line) : M (Option Str × Str))
  if nameOk ctx line then valid (.elsewhere expr line) else invalid

/-! ## type declarations -/

def typeClasses : List ClassId :=
  [.Integer, .Real, .DoublePrecision, .Complex, .DoubleComplex, .Character, .Logical, .Byte,
   .Type, .Class]

def ClassId.lname (c : ClassId) : Str := (str c.name).map lowerC

/-- the `for c in line` loop: number of characters consumed until `n` non-blank ones were seen -/
def squeezeIdx : Str → Nat → Nat → Nat → Nat
  | [], i, _, _ => i
  | c :: cs, i, j, n =>
    if c == ' ' then squeezeIdx cs (i + 1) j n
    else if j + 1 == n then i + 1 else squeezeIdx cs (i + 1) (j + 1) n

/-- `re.match(r"\d+(_\w+|)|[*]", line)` : length of the match -/
def lenSelRe (line : Str) : Option Nat :=
  let d := line.takeWhile isDigit
  if !d.isEmpty then
    match line.dropWhile isDigit with
    | '_' :: t =>
      let w := t.takeWhile isWord
      if w.isEmpty then some d.length else some (d.length + 1 + w.length)
    | _ => some d.length
  else match line with
    | '*' :: _ => some 1
    | _ => none

/-- `_parse_kind_selector` -/
def parseKindSelector (sel : Str) : M (Str × Str) :=
  if sel.isEmpty then .ok ([], []) else
  if startsWith sel ['*'] then .ok (lstrip (sel.drop 1), []) else
  match parenEnds sel with
  | none => .error .indexError
  | some false => .error .assertion
  | some true =>
    let l := strip (inner sel)
    if startsWith (lower l) (str "kind") then
      let l := lstrip (l.drop 4)
      match parenEnds l with
      | none => .error .indexError
      | some true => .ok ([], str "kind" ++ l)
      | some false =>
        if !startsWith l ['='] then .error .assertion else .ok ([], lstrip (l.drop 1))
    else .ok ([], l)

/-- `_split_char_selector` : key (`some "len"`, `some "kind"`, `none`), value -/
def splitCharSelector (line : Str) : Option String × Str :=
  let try1 (name : String) : Option Str :=
    if lower (line.take name.length) == str name then
      let v := lstrip (line.drop name.length)
      if startsWith v ['='] then some (lstrip (v.drop 1)) else none
    else none
  match try1 "len" with
  | some v => (some "len", v)
  | none =>
    match try1 "kind" with
    | some v => (some "kind", v)
    | none => (none, line)

/-- `_parse_char_selector` -/
def parseCharSelector (it : Item) (r : SrmResult) (sel : Str) : M (Str × Str) :=
  if sel.isEmpty then .ok ([], []) else
  if startsWith sel ['*'] then
    let l := lstrip (sel.drop 1)
    if startsWith l ['('] then
      let l := if endsWith l [','] then rstrip (dropLast1 l) else l
      if !endsWith l [')'] then .error .assertion else
      let l := strip (inner l)
      let l := if startsWith (lower l) (str "len") then lstrip ((lstrip (l.drop 3)).drop 1) else l
      .ok (l, [])
    else .ok (l, [])
  else
    match parenEnds sel with
    | none => .error .indexError
    | some false => .error .assertion
    | some true => do
      let l ← splitComma it r (strip (inner sel))
      match l with
      | [x] =>
        match splitCharSelector x with
        | (some "len", v) => .ok (v, [])
        | (some "kind", v) => .ok ([], v)
        | _ => .ok (x, [])
      | [a, b] =>
        let (k0, v0) := splitCharSelector a
        let (k1, v1) := splitCharSelector b
        if k0 == some "len" then
          if k1 == none || k1 == some "kind" then .ok (v0, v1) else .error .assertion
        else if k0 == some "kind" then
          if k1 == some "len" then .ok (v1, v0) else .error .assertion
        else
          if k1 == none || k1 == some "kind" then .ok (v0, v1) else .error .assertion
      | _ => .error .assertion

/-- `TypeDeclarationStatement.process_item`; `hasPut` : the parent has a `put_item` method
    (a block; `Allocate` / `Implicit` statements as parents have none → AttributeError) -/
def processTypeDecl (T : Tables) (c : ClassId) (ctx : Ctx) (hasPut : Bool) (it : Item) : M Ret := do
  let r ← getLine it
  let clsname := c.lname
  let line := r.text
  let line :=
    if !startsWith (lower line) clsname then
      let i := squeezeIdx line 0 0 clsname.length
      noBlank (line.take i) ++ line.drop i
    else line
  if !startsWith (lower line) clsname then .error .assertion else
  let line := lstrip (line.drop clsname.length)
  let sel : Option (Str × Str) :=
    if startsWith line ['('] then
      let i := find line ')'
      some (am r (strip (upToIncl line i)), lstrip (after line i))
    else if startsWith line ['*'] then
      let line := lstrip (line.drop 1)
      if startsWith line ['('] then
        let i := find line ')'
        some ('*' :: am r (rstrip (upToIncl line i)), lstrip (after line i))
      else
        match lenSelRe line with
        | none => none
        | some e => some ('*' :: rstrip (line.take e), lstrip (line.drop e))
    else some ([], line)
  match sel with
  | none => invalid
  | some (selector, line) =>
  match T.run "Function" line with
  | some rest =>
    let l2 := line.take (line.length - rest.length)
    let w := (l2.reverse.takeWhile isWord).reverse
    let pre := l2.take (l2.length - w.length)
    if w.isEmpty || pre.contains '\n' then invalid else
    if !hasPut then .error .attributeError else do
    let fitem ← copyItem it r (clsname ++ selector ++ str " :: " ++ w) true
    .ok { node := none, put := some fitem.line, clone := some (am r line) }
  | none =>
  let line := if startsWith line [','] then lstrip (line.drop 1) else line
  let selp ← (if c == .Character then parseCharSelector it r selector else parseKindSelector selector)
  let (attrspec, decls) ←
    (match findS line [':', ':'] with
    | none => do
      let d ← splitComma it r line
      .ok ([], d)
    | some i => do
      let a ← splitComma it r (rstrip (line.take i))
      let d ← splitComma it r (lstrip (line.drop (i + 2)))
      .ok (a, d) : M (List Str × List Str))
  if !decls.all isEntityDecl then .ok { node := none, partialSel := some selp } else
  let isFn := ctx.parentIsFunction && decls.contains ctx.parentName
  if isFn && ctx.parentTypedecl then .error .assertion else
  let name ←
    (if c == .Type then
      let n := lower selp.2
      if isName n then .ok n else .error .assertion
    else .ok clsname : M Str)
  -- the statement that types the enclosing FUNCTION: ignored only when it declares nothing else;
  -- otherwise it stays, with the function name removed from `entity_decls`
  let others := decls.filter (· != ctx.parentName)
  let decls' := if isFn && !others.isEmpty then others else decls
  .ok { node := some (.typedecl { cls := c, selector := selp, attrspec := attrspec,
                                   entityDecls := decls', name := name }),
        ignore := isFn && others.isEmpty, typedeclSet := isFn }

/-- the `for cls in …: if cls.match(spec): stmt = cls(self, item.copy(spec)); if stmt.isvalid: break`
    loop of `Allocate` / `Implicit`: the last statement tried (`none` = `stmt is None`) -/
def typeSpecLoop (T : Tables) (ctx : Ctx) (it : Item) (spec : Str) :
    List ClassId → Option Ret → M (Option Ret)
  | [], acc => .ok acc
  | c :: cs, acc =>
    if T.matches c spec then do
      let r ← getLine it
      let it2 ← copyItem it r spec false
      let st ← processTypeDecl T c { ctx with depth := ctx.depth + 1 } false it2
      if st.node.isSome then .ok (some st) else typeSpecLoop T ctx it spec cs (some st)
    else typeSpecLoop T ctx it spec cs acc

def allocTypeClasses : List ClassId :=
  [.Integer, .Real, .DoublePrecision, .Complex, .DoubleComplex, .Character, .Logical, .Byte]

/-- `SubprogramPrefix(self, item2.copy(spec))` inside `Allocate`: text after the prefix →
    `self.parent.put_item` → AttributeError; otherwise invalid -/
def allocPrefix (T : Tables) (spec : Str) : M (Option Ret) :=
  match T.run "SubprogramPrefix" spec with
  | none => .ok none
  | some rest =>
    -- `item.copy(spec)` maps the text again; the match end is recomputed on that mapped line
    match stringReplaceMap (strip spec) true with
    | none => .error .keyError
    | some r2 =>
      match T.run "SubprogramPrefix" r2.text with
      | none => .error .attributeError
      | some rest2 =>
        let _ := rest
        if !(lstrip rest2).isEmpty then .error .attributeError else .ok (some { node := none })

def processAllocate (T : Tables) (ctx : Ctx) (it : Item) : M Ret := do
  let r ← getLine it
  let line := strip (inner (lstrip (r.text.drop 8)))
  let it2 ← copyItem it r line true
  let r2 ← getLine it2
  let line2 := r2.text
  match findS line2 [':', ':'] with
  | some i =>
    let spec := am r2 (rstrip (line2.take i))
    let st0 ← allocPrefix T spec
    let st ← typeSpecLoop T ctx it2 spec allocTypeClasses st0
    let aspec ←
      (match st with
      | some { node := some (.typedecl d), .. } => .ok (AllocSpec.decl d)
      | _ => if isName spec then .ok (AllocSpec.name spec) else .error .parseError : M AllocSpec)
    let items ← specsSplitComma it2 r2 (lstrip (line2.drop (i + 2)))
    valid (.allocate aspec items)
  | none =>
    let items ← specsSplitComma it2 r2 line2
    valid (.allocate .none items)

/-! ## `Implicit` -/

def letters : Str := str "abcdefghijklmnopqrstuvwxyz"

/-- `s in letters` (substring) -/
def inLetters (s : Str) : Bool := s.isEmpty || containsSub letters s

def letterSpec (spec : Str) : M (Str × Str) :=
  if spec.contains '-' then
    match splitOnChar (lower spec) '-' with
    | [s, e] =>
      let s := strip s
      let e := strip e
      if inLetters s && inLetters e then .ok (s, e) else .error .assertion
    | _ => .error .valueError
  else
    let s := strip (lower spec)
    if inLetters s then .ok (s, s) else .error .assertion

/-- the class of the last statement tried by the loop -/
def lastClass (T : Tables) (tspec : Str) : ClassId :=
  ((typeClasses.filter fun c => T.matches c tspec).getLast?).getD .Integer

def implicitItem (T : Tables) (ctx : Ctx) (it : Item) (r : SrmResult) (item : Str) :
    M (ImplDecl × List (Str × Str)) :=
  match find item '(' with
  | none => .error .assertion
  | some i =>
    if !endsWith item [')'] then .error .assertion else do
    let ls ← splitComma it r (strip (dropLast1 (item.drop (i + 1))))
    let specs ← ls.mapM letterSpec
    let tspec := rstrip (item.take i)
    let st ← typeSpecLoop T ctx it tspec typeClasses none
    match st with
    | none => .error .assertion
    | some { node := some (.typedecl d), .. } => .ok (.valid d, specs)
    | some { node := none, partialSel := some sp, .. } => .ok (.partial_ (lastClass T tspec) sp, specs)
    | some _ => .ok (.broken, specs)   -- an invalid statement is kept; `tostr` fails on it

def processImplicit (T : Tables) (ctx : Ctx) (it : Item) : M Ret := do
  let r ← getLine it
  let line := lstrip (r.text.drop 8)
  if lower line == str "none" then valid (.implicit []) else do
  let ls ← splitComma it r line
  let items ← ls.mapM (implicitItem T ctx it r)
  valid (.implicit items)

/-! ## dispatch -/

/-- `cls(parent, item)` : `Statement.__init__` → `process_item` -/
def processItem (T : Tables) (ctx : Ctx) (c : ClassId) (it : Item) : M Ret :=
  match c with
  | .Assignment | .PointerAssignment | .GeneralAssignment => processAssign c it
  | .Assign => processAssignTo it
  | .Call => processCall it
  | .Goto => processGoto it
  | .ComputedGoto => processCGoto it
  | .AssignedGoto => processAGoto it
  | .Continue | .Contains | .Sequence => do let _ ← getLine it; valid (.bare c)
  | .Return => processOneAm c 6 it
  | .Stop => processOneAm c 4 it
  | .Pause => processOneAm c 5 it
  | .Print => processFmtItems c 5 it
  | .Read => processRead it
  | .Read0 => processRead0 it
  | .Read1 => processFmtItems c 4 it
  | .Write => processWrite it
  | .Flush => processFlush it
  | .Wait => processParenSpecs c 4 it
  | .Close => do
      let r ← getLine it
      let specs ← specsSplitComma it r (strip (inner (lstrip (r.text.drop 5))))
      valid (.specs c specs)
  | .Open => do
      let r ← getLine it
      let specs ← specsSplitComma it r (strip (inner (lstrip (r.text.drop 4))))
      valid (.specs c specs)
  | .Deallocate => do
      let r ← getLine it
      let specs ← specsSplitComma it r (strip (inner (lstrip (r.text.drop 10))))
      valid (.items c specs)
  | .Allocate => processAllocate T ctx it
  | .ModuleProcedure => processModuleProcedure T it
  | .Public | .Private => processAccess c it
  | .Cycle => processOneRaw c 5 it
  | .Exit => processOneRaw c 4 it
  | .Backspace | .Endfile | .Rewind => processFilePos c it
  | .Format => processFormat it
  | .Save => processSave it
  | .Data => processData it
  | .Nullify => do
      let r ← getLine it
      let items ← splitComma it r (strip (inner (lstrip (r.text.drop 7))))
      valid (.items c items)
  | .Parameter => do
      let r ← getLine it
      let items ← splitComma it r (strip (inner (lstrip (r.text.drop 9))))
      valid (.items c items)
  | .Use => processUse it
  | .Equivalence => processEquivalence it
  | .Dimension => processKwItems c 9 it
  | .Target => processKwItems c 6 it
  | .Pointer => processKwItems c 7 it
  | .Allocatable => processKwItems c 11 it
  | .Enumerator => processKwItems c 10 it
  | .Protected | .Volatile | .Value | .Intrinsic | .External | .Optional | .Import
  | .FinalBinding | .Asynchronous => processNamelistStmt c it
  | .ArithmeticIf => processAIf it
  | .Inquire => processInquire it
  | .Namelist => processNamelist it
  | .Common => processCommon it
  | .Intent => processIntent it
  | .Entry => processEntry it
  | .Forall => processForall it
  | .SpecificBinding => processSpecific it
  | .GenericBinding => processGeneric it
  | .Bind => processBind it
  | .Else => processElse ctx it
  | .ElseIf => processElseIf ctx it
  | .Case => processCaseLike c 4 ctx it
  | .ClassIs => processCaseLike c 5 ctx it
  | .TypeIs => processTypeIs ctx it
  | .Where => processWhere T it
  | .ElseWhere => processElseWhere ctx it
  | .Integer | .Real | .DoublePrecision | .Complex | .DoubleComplex | .Character | .Logical
  | .Byte | .Type | .Class => processTypeDecl T c ctx true it
  | .Implicit => processImplicit T ctx it

/-- the outcome of offering the line `s` to class `c` -/
inductive Outcome
  | nomatch
  | invalid (r : Ret)
  | ok (n : Node) (r : Ret)
  | raised (e : Exc)
  deriving Repr, Inhabited

/-- `if cls.match(item.get_line()): stmt = cls(parent, item)` -/
def process (T : Tables) (ctx : Ctx) (c : ClassId) (s : Str) : Outcome :=
  match mkItem s ctx.label with
  | .error e => .raised e
  | .ok it =>
    match getLine it with
    | .error e => .raised e
    | .ok r =>
      if !T.matches c r.text then .nomatch else
      match processItem T ctx c it with
      | .error e => .raised e
      | .ok ret =>
        match ret.node with
        | some n => .ok n ret
        | none => .invalid ret

/-! ## printing -/

/-- `Statement.get_indent_tab(deindent, isfix=False)` -/
def indentTab (ctx : Ctx) (deindent : Bool := false) : Str :=
  let tab := List.replicate (2 * ctx.depth) ' '
  let tab := if deindent then tab.take (tab.length - 2) else tab
  match ctx.label with
  | none => tab
  | some l =>
    let s := natStr l
    let tab := tab.drop s.length
    s ++ (if tab.isEmpty then [' '] else tab)

/-- `TypeDeclarationStatement.tostr` -/
def TypeDecl.tostr (d : TypeDecl) : Str :=
  let clsname := upper (str d.cls.name)
  let (length, kind) := d.selector
  let text :=
    if d.cls == .Character then
      if !length.isEmpty && !kind.isEmpty then str "(LEN=" ++ length ++ str ", KIND=" ++ kind ++ [')']
      else if !length.isEmpty then str "(LEN=" ++ length ++ [')']
      else if !kind.isEmpty then str "(KIND=" ++ kind ++ [')']
      else []
    else if d.cls == .Type then '(' :: kind ++ [')']
    else if d.cls == .Class then (if !kind.isEmpty then '(' :: kind ++ [')'] else [])
    else
      (if !length.isEmpty then '*' :: length else []) ++
      (if !kind.isEmpty then str "(KIND=" ++ kind ++ [')'] else [])
  clsname ++ text

/-- `TypeDeclarationStatement.tofortran` without the tab -/
def TypeDecl.body (d : TypeDecl) : Str :=
  let s := d.tostr
  let s := if !d.attrspec.isEmpty then s ++ commaSp ++ join commaSp d.attrspec else s
  let s := if !d.attrspec.isEmpty || d.entityDecls.any (·.contains '=') then s ++ str " ::" else s
  if !d.entityDecls.isEmpty then s ++ [' '] ++ join commaSp d.entityDecls else s

/-- `" : ".join(item).strip()` of every range, joined by `", "` -/
def rangesText (items : List (List Str)) : Str :=
  join commaSp (items.map fun i => strip (join (str " : ") i))

def withItems (kw : Str) (items : List Str) : Str :=
  if items.isEmpty then kw else kw ++ [' '] ++ join commaSp items

def withName (s name : Str) : Str := if name.isEmpty then s else s ++ [' '] ++ name

/-- the `bits` of `Common.tofortran`; `first` = `bits` is still empty: a blank common block prints
    its `//` unless it is the first block of the statement -/
def commonBits : Bool → List (Str × List Str) → List Str
  | _, [] => []
  | first, (n, l) :: rest =>
    let s := join commaSp l
    (if !n.isEmpty then str "/ " ++ n ++ str " / " ++ s
     else if !first then str "// " ++ s else s) :: commonBits false rest

/-- does `tofortran` of this class call `get_indent_tab(deindent=True)`? -/
def deindents : Node → Bool
  | .bare .Continue => true
  | .one .Else _ => true
  | .elseif _ _ => true
  | _ => false

/-- `tofortran()` without the leading `get_indent_tab()`;
    `.error` = the exception raised by the printer -/
def body (ctx : Ctx) : Node → M Str
  | .items c items =>
    let kw := upper (str c.stmtName)
    match c with
    | .Deallocate | .Nullify | .Parameter => .ok (kw ++ str " (" ++ join commaSp items ++ [')'])
    | .ModuleProcedure => .ok (str "MODULE PROCEDURE " ++ join commaSp items)
    | .Public | .Private | .Save => .ok (withItems kw items)
    | .Protected | .Volatile | .Value | .Intrinsic | .External | .Optional | .Import
    | .FinalBinding | .Asynchronous => .ok (withItems kw items)
    | _ => .ok (kw ++ [' '] ++ join commaSp items)     -- Equivalence, Dimension, Target, …
  | .specs c specs => .ok (upper (str c.name) ++ str " (" ++ join commaSp specs ++ [')'])
  | .specsItems c specs items =>
    match c with
    | .Read0 | .Write =>
      let kw := if c == .Write then str "WRITE" else str "READ"
      let s := kw ++ str " (" ++ join commaSp specs ++ [')']
      .ok (if items.isEmpty then s else s ++ [' '] ++ join commaSp items)
    | .Inquire =>
      let s := str "INQUIRE (" ++ join commaSp specs ++ [')']
      .ok (if items.isEmpty then s else s ++ [' '] ++ join commaSp items)
    | _ => .ok (upper (str c.name) ++ str " (" ++ join commaSp specs ++ str ") " ++ join commaSp items)
  | .fmtItems c fmt items =>
    .ok ((if c == .Print then str "PRINT " else str "READ ") ++ join commaSp (fmt :: items))
  | .one c s =>
    match c with
    | .Goto => .ok (str "GO TO " ++ s)
    | _ => .ok (withName (upper (str c.name)) s)
  | .bare c => .ok (upper (str c.name))
  | .assign _ v sign e => .ok (v ++ [' '] ++ sign ++ [' '] ++ e)
  | .assignTo a b => .ok (str "ASSIGN " ++ a ++ str " TO " ++ b)
  | .call d items =>
    .ok (if items.isEmpty then str "CALL " ++ d else str "CALL " ++ d ++ ['('] ++ join commaSp items ++ [')'])
  | .cgoto items e => .ok (str "GO TO (" ++ join commaSp items ++ str ") " ++ e)
  | .agoto v items =>
    .ok (if items.isEmpty then str "GO TO " ++ v else str "GO TO " ++ v ++ str " (" ++ join commaSp items ++ [')'])
  | .aif e labels => .ok (str "IF (" ++ e ++ str ") " ++ join commaSp labels)
  | .allocate spec items =>
    let ts := match spec with
      | .none => []
      | .name s => if s.isEmpty then [] else s ++ str " :: "
      | .decl d => d.tostr ++ str " :: "
    .ok (str "ALLOCATE (" ++ ts ++ join commaSp items ++ [')'])
  | .data stmts =>
    .ok (str "DATA " ++ join [' '] (stmts.map fun (o, v) =>
      join commaSp o ++ str " / " ++ join commaSp v ++ str " /"))
  | .use nature name isonly items =>
    let s := str "USE"
    let s := if !nature.isEmpty then s ++ commaSp ++ nature ++ str " ::" else s
    let s := s ++ [' '] ++ name
    let s := if isonly then s ++ str ", ONLY:" else if !items.isEmpty then s ++ [','] else s
    .ok (if !items.isEmpty then s ++ [' '] ++ join commaSp items else s)
  | .namelist items =>
    .ok (str "NAMELIST " ++ join commaSp (items.map fun (n, s) => n ++ [' '] ++ s))
  | .common items => .ok (str "COMMON " ++ join [' '] (commonBits true items))
  | .entry name items result bind =>
    let s := str "ENTRY " ++ name
    let s := if !items.isEmpty then s ++ str " (" ++ join commaSp items ++ [')'] else s
    let s := match result with
      | some r => if r.isEmpty then s else s ++ str " RESULT (" ++ r ++ [')']
      | none => s
    .ok (match bind with
      | some b => if b.isEmpty then s else s ++ str " BIND (" ++ join commaSp b ++ [')']
      | none => s)
  | .forall_ specs mask content => do
    let lines := specs.map fun (index, s1, s2, s3) =>
      let s := index ++ str " = " ++ s1 ++ str " : " ++ s2
      if s3 != ['1'] then s ++ str " : " ++ s3 else s
    let s := join commaSp lines
    let s := if !mask.isEmpty then s ++ commaSp ++ mask else s
    let ctx' := { ctx with depth := ctx.depth + 1, label := none }
    let c ← body ctx' content
    .ok (str "FORALL (" ++ s ++ str ") " ++ lstrip (indentTab ctx' (deindents content) ++ c))
  | .specific iname attrs name bname =>
    let s := str "PROCEDURE "
    let s := if !iname.isEmpty then s ++ ['('] ++ iname ++ str ") " else s
    let s := if !attrs.isEmpty then s ++ commaSp ++ join commaSp attrs ++ str " :: " else s
    .ok (if !bname.isEmpty then s ++ name ++ str " => " ++ bname else s ++ name)
  | .generic aspec spec items =>
    let s := str "GENERIC"
    let s := if !aspec.isEmpty then s ++ commaSp ++ aspec else s
    .ok (s ++ str " :: " ++ spec ++ str " => " ++ join commaSp items)
  | .elseif e name =>
    .ok (str "ELSE IF (" ++ e ++ str ") THEN" ++ (if name.isEmpty then [] else ' ' :: name))
  | .caseLike c items name =>
    match c with
    | .TypeIs =>
      if items.isEmpty then .error .parseError else
      .ok (withName (str "TYPE IS ( " ++ rangesText items ++ str " )") name)
    | .ClassIs =>
      .ok (withName (if items.isEmpty then str "CLASS DEFAULT"
                     else str "CLASS IS ( " ++ rangesText items ++ str " )") name)
    | _ =>
      .ok (withName (if items.isEmpty then str "CASE DEFAULT"
                     else str "CASE ( " ++ rangesText items ++ str " )") name)
  | .where_ e content => do
    let ctx' := { ctx with depth := ctx.depth + 1, label := none }
    let c ← body ctx' content
    .ok (str "WHERE ( " ++ e ++ str " ) " ++ lstrip (indentTab ctx' (deindents content) ++ c))
  | .elsewhere e name =>
    let s := str "ELSE WHERE"
    let s := match e with
      | some e => s ++ str " ( " ++ e ++ str " )"
      | none => s
    .ok (withName s name)
  | .typedecl d => .ok d.body
  | .implicit items =>
    if items.isEmpty then .ok (str "IMPLICIT NONE") else
    if items.any (·.1 == .broken) then .error .attributeError else
    .ok (str "IMPLICIT " ++ join commaSp (items.map fun (d, specs) =>
      (match d with
        | .valid d => d.tostr
        | .partial_ c sel => ({ cls := c, selector := sel, attrspec := [], entityDecls := [], name := [] } : TypeDecl).tostr
        | .broken => []) ++ str " ( " ++ join commaSp (specs.map fun (s, e) =>
        if s == e then s else s ++ ['-'] ++ e) ++ str " )"))

/-- `stmt.tofortran()` (free form) -/
def tofortran (ctx : Ctx) (n : Node) : M Str := do
  let b ← body ctx n
  .ok (indentTab ctx (deindents n) ++ b)

/-- `analyze()` never assigns to the attributes that `tofortran` reads (it fills `parent.a`):
    on the statement itself it is the identity. -/
def analyze (n : Node) : Node := n

end Fp.One3
