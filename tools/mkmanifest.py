#!/usr/bin/env python3
"""Regenerate /verif/MANIFEST.json from the table below (kept in one place so that the
claims, the notes and the not_applicable list stay consistent)."""
import json
import os

HERE = os.path.dirname(os.path.dirname(os.path.abspath(__file__)))
PROPS = [json.loads(l)["id"] for l in open(os.path.join(HERE, "properties.jsonl"))]

COMMON_NOTE = ("Trusted: Lean 4.33 kernel (axioms of every theorem audited by #print axioms on each run: subset of propext, "
               "Classical.choice, Quot.sound; no sorry/native_decide/added axioms), the translator fv/extract_*.py, the co-simulation "
               "harness fv/cosim_*.py with the compiled driver fpmodel, CPython. The ~600 leaf rule classes are an oracle parameter "
               "of the block-level theorems (not modelled); regex engines are replaced by hand scanners tied by exhaustive tables. ")

# id -> (text, note, technique, design_ref)
CLAIMS = {
 "C01": ("Kernel-checked theorems about the Lean models of the block matcher (fail_restores, frontier_eq_consumed: every consumed item is in the tree once, in order, for every class table and leaf oracle), the reader (get_put_inverse, join_continuation) and the expression chain (parse_sound, parse_render_partial), tied to the code by regenerated tables and co-simulation; the round trip itself is decided on generated programs (both standards, comments dropped/kept). PARTIAL: leaf match/tostr pairs are exercised, not proved.",
         "Round-trip of hand-written leaf classes is tested on generated inputs only.", "Lean 4 proof of model + translator/co-simulation tie + differential search", "§5 C01"),
 "C02": ("Theorems norm_idem, norm_never_invents, norm_only_drops_droppable, norm_literals_exact (the comparison itself is sound and exact on literals), splitquote_join, srm_lower_preserves_literals, parse_sound (expressions), frontier_eq_consumed (no statement dropped/duplicated/reordered); oracle normeq(source, printed) computed by the Lean model for every generated program and layout. srm_roundtrip_partial (string_replace_map followed by re-application is lossless modulo blanks inside parentheses, under two decidable hypotheses whose negations have decide'd witnesses), srm_literals_in_map, srm_hides_groups. PARTIAL: leaf classes are exercised only.",
         "The normaliser's canonicalisation list is calibrated against the real printer (negative controls 100%).", "Lean 4 proof of model + Lean-computed token oracle", "§5 C02"),
 "C03": ("parse_sound, parse_render_partial (for every tree derivable by the standard's grammar R701-R722 inside the stated boundary, the model parser returns exactly that tree), parse_groups, boundary necessity + decide'd witnesses of the failing family; string level: rsplit_sound/lsplit_sound and string_step_refines_token_step (the regex-and-slice match step of every operator level refines the token-level step); level table tied by kernel obligation levels_tie_f2003/f2008 on the table regenerated from the repo; model == real Fortran2003.Expr on bounded-exhaustive + random expressions every run.",
         "Operator regexes are hand scanners tied by exhaustive tables (560k inputs) and co-simulation; the last lemma of the full string-to-token refinement (re-lexing of halves) is co-simulated only. Known finding F-C03-1 is the negated hypothesis of parse_render_partial.", "Lean 4 proof (induction over expression trees) + kernel-checked generated-table tie + co-simulation", "§5 C03"),
 "C04": ("Reader theorems join_continuation (continuation lines with comments/blank lines in between join to one item with exact span, for every such layout), get_put_inverse, splitquote_join/splitquote_state (quote state across cuts); model == real reader by co-simulation; property decided on generated programs x seeded layouts incl. ';' joins and keyword-pair stress. PARTIAL: cuts inside literals and multi-statement induction are co-simulated only.",
         "'same items => same tree' needs blank-insensitive leaf matchers: exercised only.", "Lean 4 proof of reader model + co-simulation + differential search", "§5 C04"),
 "C05": ("detect_fixed / detect_free / detect_free_only_if (format detection, all sources) with decide'd misdetection witnesses; fixed_items / fixed_items_drain / fixed_spans_ordered (fixed-form statements with label, column-6 continuation and comment lines in between read as one item with exact span, any list of statements); regex tables kernel/exhaustively tied; property decided on fixed-form renderings (wrap, continuation char, comment style, label placement).",
         "fixed_items covers clean columns 7+ (no quotes/!/;): literals crossing the wrap are co-simulated only.", "Lean 4 proof of detection model + co-simulation + differential search", "§5 C05"),
 "C06": ("outcome_classified and systemExit_only_via_reader_error (block level, every class table and leaf oracle: if leaves only return match/none/NoMatch/Syntax/InternalSyntax the outcome is tree or FortranSyntaxError, SystemExit only through reader.error); drain_total (the modelled reader terminates within 2*lines+pending+1 calls on every source without ';'-splitting and INCLUDE resolution), eval_fuel_mono, parse_fuel_enough; fuzz stream (mutants + random text, both standards, comments kept/dropped, invalid UTF-8 file) is the search for leaf escapes, classified by call site. PARTIAL by nature.",
         "Leaf classes' own stray exceptions and the wall-clock bound are outside the model.", "Lean 4 proof of block model (plumbing) + fuzz search", "§5 C06"),
 "C07": ("no_read_past_unmatched, unmatched_rejects_program (block level: an item matched by no leaf class is never read past and the outcome is an error, for every table/oracle/nesting) + linecount_monotone / linecount_is_lines_read / item_span_bounds (reader) + the composition error_line_is_last_line_of_g (reader_refines_stream: the block model's abstract stream is implemented by the reader; when the matcher raises because of unmatched item g the reader's linecount is g's last physical line and source_lines[linecount-1] is that line, for free-form chunk layouts; lower bound error_line_not_before_g for all sources); property decided exhaustively per generated program (every statement replaced by garbage).",
         "", "Lean 4 proof (block + reader models) + exhaustive per-program search", "§5 C07"),
 "C08": ("block_closed, endOK_names, program_consumes_all, unmatched_rejects_program, nomatch_restores (block level, every class table and leaf oracle), cfg_flags/named_strict/program_shape on the block tables regenerated from the repo (kernel-checked), splitparen_balanced/splitparen_paren_shape, srm_unmatched_opener_visible; property decided on every single structural mutation of generated programs.",
         "CloserOnly/OpenerOnly leaf exclusivity is exercised, not proved.", "Lean 4 proof (block + tokeniser models) + kernel-checked generated-table tie + exhaustive per-program mutation search", "§5 C08"),
 "C09": ("create_overwrites / registry_depends_only_on_last_create / create_clears_tables (registry model, every history), program_failure_rolls_back (every table/oracle: any exception of Program restores the scope chain and leaves no new top-level table), scope_balanced_partial, enter_exit_balanced, clear_resets; registry and symbol-table models co-simulated; property decided on exhaustive/random create-parse histories against fresh interpreter processes.",
         "memoisation of string_replace_map is outside the model (values are immutable by convention).", "Lean 4 proof (registry, symbol-table, block models) + co-simulation + history enumeration vs fresh processes", "§5 C09"),
 "C10": ("parents_consistent / parent_of_lastAttachedBy / parent_of_lastReset (arena model of _set_parent, every construction history), walk_preorder (walk lists every reachable node once in pre-order, through tuples and lists), walk_statement_order (= the block model's frontier), items_once_in_order / frontier_eq_consumed (statement order = source order); arena model co-simulated on recorded construction events of real trees; invariants decided directly on every tree of generated programs and of their re-parse.",
         "freshness of construction events for string-level nodes is checked on observed trees (partial).", "Lean 4 proof (tree arena + block models) + co-simulation + direct structural check", "§5 C10"),
 "C11": ("read_comments_once / read_ignore_comments / read_spans_ordered (reader, every chunk list), join_continuation (comments between continuation lines), comments_are_leaves_once (composition through reader_refines_stream), comments_once_in_order / items_once_in_order / fail_restores (block level, every table/oracle: every comment item of the input is a tree leaf once, in order; back-tracking restores them); property decided on generated comment placements.",
         "directive retyping is decided on generated inputs only.", "Lean 4 proof (reader + block models) + co-simulation + placement search", "§5 C11"),
 "C12": ("get_put_inverse, lookahead_restore, walk_restore (any well-bracketed read-ahead/restore walk, include delegation included), reader_refines_stream + block_backtracking_is_invisible (a block-matcher run that fails leaves the reader's future unchanged), drain_unique, item_span_bounds, read_spans_ordered, join_continuation, linecount theorems; regex scanners tied by exhaustive tables; model == real reader on the layout generators every run; items compared with the expectation by construction.",
         "Known finding F-C12-1 has decide'd witnesses.", "Lean 4 proof (reader model) + exhaustive regex tables + co-simulation", "§5 C12"),
 "C13": ("include_transparent (nested, clean chunk layouts, on (kind,text,label,name)), include_first_dir_wins, include_missing_kept, include_boundary_putback (reader), fail_restores/items_once_in_order (block level), detect_free/detect_fixed (format of the included file); transparency decided on splits of generated programs into nested include files (file and string readers, decoy directories).",
         "include files must be format-stable (C05 boundary) and deliver at least one item (include_empty_file_witness).", "Lean 4 proof (reader + block + detection models) + co-simulation + split enumeration", "§5 C13"),
 "C14": ("cpp_line_item / cpp_line_item_free (a '#' line with k backslash continuations is exactly one item spanning k+1 lines, every reader state), items_once_in_order / fail_restores (block level: each cpp item is a tree leaf once, in order); property decided on insertions of every directive kind at statement boundaries.",
         "Cpp_* leaf match/tostr pairs are exercised, not proved (F-C14-1 is such a leaf defect).", "Lean 4 proof (reader + block models) + co-simulation + insertion search", "§5 C14"),
 "C15": ("omp_sentinel_blanked, omp_directive_untouched, omp_nomatch_unchanged, omp_fixed_column6, omp_disabled, omp_enabled_single, omp_enabled_directive_is_comment, omp_join_continuation, omp_fixed_disabled, omp_fixed_enabled, omp_fixed_enabled_any_source, omp_fixed_enabled_drain (reader model, every line / reader state, free and fixed form); sentinel regexes tied by exhaustive tables; reader co-simulated in both modes on every generated source; property decided on subsets of statements hidden behind sentinels, free and fixed form.",
         "an `!$omp` line between the continuation lines of a sentinel statement is swallowed (noted defect, outside the generated class).", "Lean 4 proof (reader model) + exhaustive regex tables + co-simulation", "§5 C15"),
 "C16": ("lookup_parents_only (a lookup depends only on the tables on the path to the root: sibling/inner declarations cannot change it), intrinsic_iff_not_shadowed, intrinsic_parents_only, enter_exit_balanced, scope_balanced_partial, program_failure_rolls_back; symbol-table model co-simulated on random operation scripts; forest == scope tree and intrinsic resolution decided on generated scope nests with shadowing at chosen levels.",
         "tables_mirror_tree is decided on generated nests, not proved; F-C16-1 has a decide'd witness.", "Lean 4 proof (symbol-table + block models) + co-simulation + ground-truth-by-construction search", "§5 C16"),
 "C17": ("registry_f2008_covers_f2003_partial, f2008_has_every_f2003_rule, f2003_has_no_f2008_class, intr2003_subset_intr2008 (kernel-checked on the class tables regenerated from the repo), setup model == live Base.subclasses (exhaustive executable check); differential parse of generated F2003 programs under both standards and one probe per F2008-only construct.",
         "table inclusion does not imply language inclusion (ordered choice): the differential run covers the rest.", "Lean 4 proof over regenerated tables (decide +kernel) + differential search", "§5 C17"),
 "C18": ("copyok_generated (every rule class of the regenerated class table satisfies the copy protocol: kernel-checked, flips if a class loses _deepcopy/.string), copyok_custom_new, deepcopy_iso / deepcopy_iso_tree / deepcopy_frame (a copy started at the root is isomorphic, id-disjoint, leaves the original untouched and is itself well formed); copy model co-simulated incl. grafted broken classes; deepcopy/pickle decided directly on trees of generated programs incl. comment, directive, include and cpp nodes.",
         "deepcopy_iso is proved for copies started at the root; copies from inner nodes are co-simulated.", "Lean 4 proof over regenerated tables + co-simulation + direct copy check", "§5 C18"),
 "C19": ("nest1_flatten, nest1_print_stable (unconditional at HEAD), fill_input (fparser1 block nesting model: nesting the flattened statement list gives back the tree, nothing dropped/duplicated/reordered, every depth), norm theorems for the statement-text comparison; model == real fparser1 nesting on generated F77/F90 sources (free/fixed, incl. broken ones); round trip decided directly.",
         "fparser1's per-statement regex parsers are leaves.", "Lean 4 proof (nesting model) + co-simulation + direct round trip", "§5 C19"),
 "C20": ("eval_fuel_mono, parse_cache_once, queries_le_gets (block model), parse_fuel_enough, parse_calls_le_exp (expression model: explicit bounds) and the NEGATIVE results parse_calls_not_polynomial / parse_calls_exponential_witness (no polynomial bound exists for the expression chain on valid input) and cost_doubles_witness (block model, distinct-label non-block DO nests); deterministic count of rule-constructor calls on a fixed catalogue of families at doubling sizes under a budget. PARTIAL: the property is FALSE for three catalogue families (known findings F-C20-1..3), two of them proved exponential in the models.",
         "a bound for unseen n is an extrapolation; per-family degree k_f = 1 is fixed from the pinned tree.", "Lean 4 proof (termination/fuel bounds of the models) + deterministic call counting", "§5 C20"),
}


def main():
    checks = []
    na = []
    for p in PROPS:
        if p in CLAIMS:
            text, note, tech, ref = CLAIMS[p]
            checks.append({
                "property_id": p,
                "quick_cmd": "./check %s quick" % p,
                "thorough_cmd": "./check %s thorough" % p,
                "evidence_file": "evidence/%s.json" % p,
                "replay_cmd_template": "./check %s --replay {path}" % p,
                "engine": "lean-models",
                "level_claimed": {"category": "proof", "text": text, "design_ref": ref},
                "level_note": COMMON_NOTE + note,
                "technique": tech,
            })
        else:
            na.append({"property_id": p, "reason": "check not built yet (work in progress; see DESIGN.md)"})
    m = {
        "version": 1,
        "setup_cmd": "./check setup",
        "hooks": {"guard": "FPARSER_VERIF", "enable": "no source hooks: observation is by wrapping callables from the harness process",
                  "baseline_off_cmd": "cd /repo && /venv/bin/python -m pytest -q -p no:cacheprovider -n 8 --timeout=900",
                  "source_commits": [], "add_only": True},
        "engines": [{"name": "lean-models", "path": "lean/", "serves_properties": sorted(CLAIMS),
                     "kind_free_text": "Lean 4 library FparserModel (executable models + theorems), compiled driver fpmodel, translator fv/extract_*.py, co-simulation fv/cosim_*.py"}],
        "checks": checks,
        "not_applicable": na,
        "notes": "All checks: ./check <id> quick|thorough; exit 0 = held (KNOWN-FINDING lines for listed findings), 1 = VIOLATION, 2 = harness error/time-out.",
    }
    with open(os.path.join(HERE, "MANIFEST.json"), "w") as f:
        json.dump(m, f, indent=1)
    print("claimed:", len(checks), "not applicable:", len(na))


if __name__ == "__main__":
    main()
