"""Named predicates identifying the known findings (see known_findings.json and DESIGN.md
§8).  A failure found by a check is first minimised, then offered to the predicates of
its property; the first that recognises it gives the signature `pred:<name>` under which
the finding is listed.  Anything no predicate recognises keeps its generic signature and
is reported as a VIOLATION."""
import re

_LABEL_DO = re.compile(r"^\s*(\w+\s*:\s*)?do\s+(\d+)\b", re.I)


def _lines(src):
    return [l for l in src.split("\n") if l.strip()]


def strip_comment(line):
    """remove a trailing '!' comment (quote-aware); '' for a full comment line"""
    q = None
    for i, c in enumerate(line):
        if q:
            if c == q:
                q = None
        elif c in "'\"":
            q = c
        elif c == "!":
            return line[:i].rstrip()
    return line


def shared_label_do_inline_comment(src, ctx):
    """comments kept: a non-block DO nest sharing its terminal label, with a comment
    (trailing or full-line) between the first DO statement and the terminal statement, makes
    the enclosing valid program a syntax error.  Recognised semantically: removing the
    comments inside such regions (and nothing else) makes the program parse."""
    if ctx.get("ignore_comments", True):
        return False
    from fv import real
    L = src.split("\n")
    regions = []
    # logical lines with their physical spans, from the reader itself (comments ignored)
    try:
        items = [it for it in real.make_reader(src, ignore_comments=True, free=True)]
    except Exception:  # noqa: BLE001
        return False
    for a, it in enumerate(items):
        ma = _LABEL_DO.match(getattr(it, "line", "") or "")
        if not ma or getattr(it, "label", None) is not None and False:
            continue
        lab = ma.group(2)
        shared = False
        for jt in items[a + 1:]:
            mb = _LABEL_DO.match(getattr(jt, "line", "") or "")
            if mb and mb.group(2) == lab:
                shared = True
            if str(getattr(jt, "label", "")) == lab:
                if shared:
                    regions.append((it.span[0] - 1, jt.span[1] - 1))
                break
    if not regions:
        return False
    out = list(L)
    touched = False
    drop = set()
    for (i, j) in regions:
        for k in range(i, j + 1):
            t = strip_comment(out[k])
            if t != out[k] or not t.strip():
                touched = True
            out[k] = t
            if not t.strip():
                drop.add(k)      # blank lines are (empty) comment items too
    if not touched:
        return False
    out = [l for k, l in enumerate(out) if k not in drop]
    o = real.try_parse("\n".join(out), std=ctx.get("std", "f2008"), ignore_comments=False, free=True)
    return o.kind == "tree"


def common_blank_invents_slashes(src, ctx):
    """blank COMMON (`common a, b`) is printed as `COMMON // a, b`: two '/' tokens invented"""
    t = src.strip()
    return bool(re.match(r"^(\d+\s+)?common\s+[A-Za-z_]", t, re.I)) and "//" in ctx.get("printed", "")


def common_drops_optional_comma(src, ctx):
    """`common /b1/ a, b, /b2/ q`: the optional comma before the next block name is dropped"""
    t = src.strip()
    return bool(re.match(r"^(\d+\s+)?common\b", t, re.I)) and re.search(r",\s*/", t) is not None \
        and re.search(r",\s*/", ctx.get("printed", "")) is None


def fixed_trailing_amp_flips_to_free(src, ctx):
    """a fixed-form source with any non-'!' line ending in '&' (a C/c/* comment or a statement
    text that happens to end in '&') is detected as free form"""
    if ctx.get("expect") != "fixed":
        return False
    return any(l.rstrip().endswith("&") and not l.startswith("!") for l in src.split("\n") if l.strip())


def free_all_lines_fixed_shaped(src, ctx):
    """free-form source in which no line 'votes free' (every line starts with c/C/*/!, or has
    only blanks/digits in columns 1-5 before its first letter, e.g. a labelled first statement
    or statements indented by >= 5 blanks) is detected as fixed form"""
    if ctx.get("expect") != "free":
        return False
    for l in src.split("\n"):
        l = l.rstrip()
        if not l or l[0] == "!":
            continue
        if (l[0] != "\t" and re.match(r"[^c*!]\s*[^\s\d\t]", l[:5], re.I)) or l.endswith("&"):
            return False
    return True


def fixed_construct_name_alone(src, ctx):
    """fixed form: an initial line that consists of `word :` only (construct name whose
    construct starts on the continuation line, or a `::` wrapped between its colons) makes the
    reader call error() -> sys.exit"""
    return any(re.match(r"^[ \d]{5}[ 0]\s*\w+\s*:\s*$", l) for l in src.split("\n"))


_XOP = re.compile(r"(?i)\boperator\s*\(\s*(\*\*|//|==|/=|<=|>=|[*/+\-<>]|\.\w+\.)\s*\)\s*\)")


def _paren_net(t):
    n, q = 0, None
    for c in t:
        if q:
            if c == q:
                q = None
        elif c in "'\"":
            q = c
        elif c in "([":
            n += 1
        elif c in ")]":
            n -= 1
    return n


def extended_intrinsic_op_unanchored(src, ctx):
    """`operator(+))`, `operator(//, assignment(=)`, `operator .lop.) => operator(.rop.)`:
    Generic_Spec.match takes any text that starts with OPERATOR and ends with `)` and hands the
    inside to Extended_Intrinsic_Op / Defined_Operator, whose patterns are not anchored at the
    end, so text that merely STARTS with an operator is accepted.  True when the surplus or
    missing parenthesis of the mutated line lies inside comma-separated entries that contain
    an OPERATOR generic-spec (the rest of the line is balanced)."""
    if ctx.get("kind") not in ("add-paren", "del-paren"):
        return False
    for l in src.split("\n"):
        l = strip_comment(l)
        if _paren_net(l) == 0 or not re.search(r"(?i)\b(operator|assignment)\b", l):
            continue
        head = re.split(r"(?i)\bonly\s*:|\binterface\b|\bgeneric\b.*?::|\buse\b[^,]*,", l, maxsplit=1)
        body = head[-1]
        parts = body.split(",")
        # greedy regrouping: an unbalanced entry extends to the following ones
        rest = [x for x in parts if not re.search(r"(?i)\b(operator|assignment)\b", x)]
        if _paren_net(",".join(rest)) == 0 or len(parts) == 1:
            return True
        # the imbalance may spill over the comma (`operator(//, assignment(=)`)
        bad = [k for k, x in enumerate(parts) if re.search(r"(?i)\b(operator|assignment)\b", x) and _paren_net(x) != 0]
        if not bad:
            continue
        i = bad[0]
        for j in range(i + 1, len(parts) + 1):
            others = parts[:i] + parts[j:]
            if _paren_net(",".join(others)) == 0 and not any(re.search(r"(?i)\b(operator|assignment)\b", x) and _paren_net(x) for x in others):
                return True
    return False


def one_spec_equals_inside_positional(src, ctx):
    """fparser1: `specs_split_comma` takes the first `=` anywhere in a positional specification
    (inside a character literal such as a format string, in `==`, inside parentheses) for
    `keyword =`: the text in front of it is upper-cased and blanks are put round the `=`
    (`write (*, '("x=", i3)') n` -> `'("X = ", i3)'`).  src = the source statement."""
    printed = ctx.get("printed")
    if not printed:
        return False
    m = re.match(r"(?i)^\s*(?:\d+\s+)?(?:if\s*\(.*\)\s*)?(write|read|open|close|inquire|allocate|deallocate|flush|wait|rewind|backspace|endfile)\s*\(", src)
    if not m:
        return False
    # a positional spec (no leading `name =`) that contains `=`
    body = src[m.end():]
    depth, cur, specs = 0, "", []
    q = None
    for ch in body:
        if q:
            cur += ch
            if ch == q:
                q = None
            continue
        if ch in "'\"":
            q = ch
        if ch == "(":
            depth += 1
        if ch == ")":
            if depth == 0:
                specs.append(cur)
                break
            depth -= 1
        if ch == "," and depth == 0:
            specs.append(cur)
            cur = ""
            continue
        cur += ch
    return any("=" in sp and not re.match(r"\s*\w+\s*=(?!=)", sp) for sp in specs)


PREDICATES = {
    "C19": [one_spec_equals_inside_positional],
    "C08": [extended_intrinsic_op_unanchored],
    "C01": [shared_label_do_inline_comment],
    "C11": [shared_label_do_inline_comment],
    "C04": [shared_label_do_inline_comment],
    "C14": [],
    "C05": [fixed_trailing_amp_flips_to_free, free_all_lines_fixed_shaped, fixed_construct_name_alone],
    "C02": [common_blank_invents_slashes, common_drops_optional_comma],
}


def classify(prop, src, ctx):
    for p in PREDICATES.get(prop, []):
        try:
            if p(src, ctx):
                return "pred:" + p.__name__
        except Exception:  # noqa: BLE001
            pass
    return None
