"""Co-simulation of the Lean models `Fp.Norm` (independent lexer + C02 token normaliser)
and `Fp.One` (fparser1 block nesting) against the real code.

(i)  check_roundtrip(model, src, std): parse `src` with the REAL fparser2, print the tree,
     ask the model `normeq(src, printed)`.  SAMPLES (>= 150 valid statements/programs that
     cover every canonicalisation of the printer and every statement kind of DESIGN.md
     "generated valid class") calibrate the normaliser: each must compare `eq`.
     KNOWN_DEVIATIONS are valid inputs on which the real printer changes the token
     sequence beyond the documented canonicalisations: they must compare `ne` (findings).
     Negative controls: single-token mutations of the printed text must compare `ne`.
(ii) check_nest1(model, src, isfree): run the REAL fparser.api.parse(analyze=False), read the
     nesting off `.content` of the BeginStatement instances, classify every source line
     independently (regexes below, not fparser's), compare with the model `nest1`; plus
     the direct C19 oracle body(str(parse1(str(parse1 P)))) == body(str(parse1 P)), which
     must hold on EVERY accepted source (HEAD: the shared-DO-label duplication and the lost
     FORALL / ASSOCIATE header are fixed; `Fp.One.nest1_print_stable` is unconditional).

Run:  /venv/bin/python -m fv.cosim_norm --seed 1 --n 300
"""
import argparse
import logging
import os
import random
import re
import sys

from fv import repo

repo.activate()

from fv.model import Model, get_model  # noqa: E402

logging.disable(logging.CRITICAL)

# --------------------------------------------------------------------------------------
# real fparser2 printer
# --------------------------------------------------------------------------------------
_parsers = {}


def parser2(std):
    from fparser.two.parser import ParserFactory

    # ParserFactory().create() rebinds class-level state: always (re)create for the std used
    if _parsers.get("cur") != std:
        _parsers["p"] = ParserFactory().create(std=std)
        _parsers["cur"] = std
    return _parsers["p"]


def printed2(src, std="f2008"):
    """str(parse(src)) with the real fparser2, or None when the parser rejects src."""
    from fparser.common.readfortran import FortranStringReader

    try:
        tree = parser2(std)(FortranStringReader(src, ignore_comments=True))
        return str(tree)
    except SystemExit:
        return None
    except Exception:
        return None


def normeq(model, a, b):
    r = model.ask("normeq", a, b)
    return r[0] == "eq", r


def check_roundtrip(model, src, std="f2008"):
    """-> (status, detail): status in {'eq','ne','invalid'}"""
    out = printed2(src, std)
    if out is None:
        return "invalid", None
    ok, r = normeq(model, src, out)
    return ("eq" if ok else "ne"), (r, out)


# --------------------------------------------------------------------------------------
# calibration samples
# --------------------------------------------------------------------------------------
def _wrap(stmts):
    return "subroutine s\n" + "".join(" " + s.replace("\\n", "\n") + "\n" for s in stmts) + "end subroutine s\n"


# one statement (or small group) per entry, each wrapped in a subroutine
STMTS = r"""
real(8)::x
real*8 y
real(kind=8) :: x
character(10) c
character*10 d
character(len=10,kind=1) e
character(10,1) f
character(len=*) f
character*(*) g
character*(10) h
character(len=:), allocatable :: k
character(*) l
character c*10, d(3)*5
real x*8
integer(kind=4), dimension(3) :: a
integer b
double precision dd
doubleprecision de
double complex z
doublecomplex z
integer, intent(in out) :: a
integer, intent(inout) :: b
integer, intent( in ) :: b2
namelist /a/ x, y /b/ z
namelist /a/ x, y, /b/ z
namelist /n1/ a, b
common /a/ x, y /b/ z
common // q
common / / q2
common /blk/ a(10), b
data x /1/, y /2/
data x /1/ y /2/
data a, b /1, 2/
data a /3*1.0/, b /'x'/
data (a(i), i=1,10,2) /5*0/
data x /-1/
save /a/, x
save
save a
implicit real(8) (a-h), integer (i-n)
implicit none
implicit double precision (a-h, o-z)
implicit character(len=2) (c), logical (l)
implicit type(t) (t)
x = real(y, 8)
x = real(y, kind=8)
x = (/ 1, 2 /)
x = [1, 2]
x = [integer :: 1, 2]
x = [real(8) :: 1, 2]
x = (/ (i, i=1,3) /)
x = [ (i*2, i=1,3) ]
allocate(real(8) :: x(10))
allocate(x(10), stat=i)
allocate(a(10), b(n, m))
allocate(a(10), stat=ierr, errmsg=msg)
allocate(t :: x)
allocate(x, source=y)
allocate(x, mold=y)
allocate(character(len=10) :: s)
deallocate(x)
deallocate(x, stat=i)
deallocate(a, b)
nullify(x)
nullify(p, q)
a(::2) = a(1::2)
call s()
call s
call s(1)
call a%b()
call a%b
call a(1)%b()
call s(*10, a=1)
call s(a, *10)
call s(a, b=2, c=x+1)
call s(f(x), 'str', .true., 1.0e0)
call obj%method(a)
if (x) call s()
if (x) close(10)
if (a > b) x = 1
if (a .and. (b .or. c)) goto 10
if (i) 10, 20, 30
close(10)
close(unit=10, status='keep')
close(10, status='keep')
close(10, iostat=ios, err=99)
open(unit=10, file='x')
open(10, file='x')
open(unit=10, file='f.dat', status='old', action='read', iostat=ios)
open(10, file=fn, form='unformatted', access='direct', recl=100)
inquire(unit=10, exist=l)
inquire(10, exist=l)
inquire(file='x', exist=l)
inquire(iolength=n) a, b
rewind(unit=10)
rewind(10, iostat=i)
rewind(10)
rewind 10
endfile 10
endfile(10)
endfile(unit=10)
backspace 10
backspace(10)
backspace(unit=10, iostat=ios)
flush 10
flush(10)
wait(10)
wait(unit=10, id=i)
read *, x
read '(a)', x
read(10) x
read(10,*) x
read(10,*,end=10) x
read(10,fmt=*,end=10) x
read(unit=10,fmt=*) x
read(10,nml=a)
read(5, 100) a
read(unit=5, fmt=100, iostat=ios) a
read(10, rec=3) a
read(*, '(i3)', advance='no') i
write(10,a)
write(10,'(a)') x
write(*,fmt='(a)') x
write(unit=10,nml=a)
write(6, *) 'x=', x
write(unit=6, fmt='(a, i3)') 'n', n
write(*, "(a)") "hello"
write(s, '(i3)') i
write(*,*) (a(i), i=1,3)
print *, x
print *, 'a', "b", 1, 2.0
print '(a)', x
print *
print 10, x
goto 10
go to 10
goto (10,20), i
go to (10,20) i
go to (10, 20) i+1
10 continue
20 x = 1
x = 1.eq.2
x = 1..eq.2.
x = 1.e5.eq.2.d0
x = a.and..not.b
x = a .myop. b
x = .5 + 1. + 1.e-3 + 1.0_dp + 1_8
x = 1.0d0 + 1e5_8 + z'ff' + b"01" + .true. + .false._4
x = b'01' + o"17" + z'1f'
x = 'It''s' // "a""b" // 1_'abc'
x = ck_'abc' // 1_"d"
x = 'a&b' // 'c!d'
x = 'abc&\n     &def'
x = 1 + &\n  2
x = 1 + & ! comment\n  & 2
x = a .eqv. b .neqv. c .or. d
x = a < b .and. c <= d .or. e > f .or. g >= h
x = a .lt. b .and. c .le. d .or. e .gt. f .or. g .ge. h .and. i .ne. j
x = a == b .or. c /= d
x = (1.0, 2.0)
x = a(:, 1)
x = a(1:, :n:2)
x = s(1:2)
x = 'abc'(1:2)
x = -a + (+b) * c ** d ** e / f
x = .not. a
x = a%b%c(1, 2)%d
x = a//b
x = a(1:2)(3:4)
x = "&"
x = '!'
x = f()
x = 1; y = 2
real, dimension(:,:), allocatable :: a, b(:)
real, parameter :: pi = 3.14159_8, e = 2.718d0
integer :: a(3) = (/1, 2, 3/), b = 2
integer, dimension(2,2) :: m = reshape([1,2,3,4], [2,2])
character(len=*), parameter :: s = "It's", t = 'say "hi"'
character(len=5, kind=ck) :: u
logical(kind=4) :: l = .true.
logical(4) :: l2
complex(kind=8) :: z = (1.0d0, -2.0d0)
complex(8) z2
integer*4 i4
logical*1 l1
complex*16 c16
type(t) x
type(t), pointer :: x
type(t(k=4)) :: x
class(t), allocatable :: x
class(*), pointer :: x
integer, save, target :: a
real, pointer, contiguous :: p(:)
integer, volatile, asynchronous :: v
integer, bind(c, name='v') :: v
integer, intent(out), optional :: a
integer(c_int), value :: a
real, external :: f
real, intrinsic :: sin
integer, public, protected :: a
integer, private :: a
integer, codimension[*] :: a
parameter (a=1, b=2.0)
dimension a(10), b(2,3)
dimension :: a(10)
allocatable a
allocatable :: a(:)
intent(in) a
intent(in) :: a
optional a
pointer a
target :: a
external f, g
intrinsic sin, cos
public
public a
public :: a, operator(+), assignment(=)
private :: a
private
volatile a
asynchronous a
value a
protected a
bind(c) :: a
equivalence (a,b), (c,d)
equivalence (a(1), b), (c, d(2))
procedure(f) p
procedure(f), pointer :: p
procedure(), pointer :: p
procedure(real(8)) :: p
procedure(iface), pointer :: pp => null()
procedure(real) :: f
f(x) = x+1
x => y
x%y => null()
p => a(1:3)
p(1:) => a
stop
stop 1
stop 'abc'
error stop
error stop 'bad'
return
return 1
cycle
exit
continue
where (a>0) a=1
where (a > 0) b = 1/a
forall (i=1:3) a(i)=1
forall (i=1:3, a(i)>0) a(i)=1
forall (i=1:n, j=1:m) a(i,j) = 0
entry e
entry e()
entry e(a,b)
use m
use :: m
use, intrinsic :: iso_c_binding
use, non_intrinsic :: m1
use m, only: a, b=>c
use m, only : operator(+), assignment(=)
use m1, only: operator(.myop.)
use m, x=>y
import x
import :: x
import a, b
import
enum, bind(c) \n enumerator :: a=1, b \n enumerator c \n end enum
enum, bind(c) \n enumerator a \n endenum
10 format(1x,a/i3)
10 format(1x,a//i3)
10 format(1pe10.3,2x,f8.2)
10 format(1p,e10.3)
10 format(a,/,i3)
10 format('abc',i3,"x""y")
10 format(3(i2,1x),:,a)
10 format(i3.3,es12.4e3,t10,tr2,bn,bz,ss,sp,l1)
10 format(5hhello)
10 format(2(/))
10 format(a/)
10 format(/a)
10 format()
100 format (a, 2(i3, 1x), f10.3, e12.4, es12.4, en12.4, g12.4, d12.4)
100 format ('x = ', i0, /, "y", 2/, 3x)
100 format (t5, tl2, tr3, 2p, f8.2, sp, ss, s, bn, bz, a5, l2)
100 format (1x,3(a,:,', '))
100 format (i3/i4//i5)
100 format (1p,e10.3,0pf8.2)
100 format (b8.8, o3, z4.4)
100 format (*(i3))
"""

PROGRAMS = [
    "subroutine s\n ; z = 3\n ;; y = 4 ; x = 5\nend subroutine s\n",
    "program p\n real(8)::x\n close(10)\nendprogram\n",
    "program p\n integer i\nend program p\n",
    "subroutine s() bind(c)\nend subroutine\n",
    "subroutine s(a,*)\nendsubroutine s\n",
    "pure recursive subroutine s()\nend\n",
    "function f()\nendfunction f\n",
    "real(8) function f(x) result(r)\nend function\n",
    "elemental integer function f(x)\n integer, intent(in) :: x\n f = x\nend function f\n",
    "function f(x) bind(c, name='ff')\nend function\n",
    "character(len=10) function f()\nend\n",
    "module m\n interface\n  subroutine s()\n  end subroutine\n end interface\n interface g\n"
    "  module procedure s1, s2\n  procedure s3\n  module procedure :: s4\n endinterface g\n"
    " interface operator(+)\n  module procedure s5\n end interface operator(+)\n abstract interface\n end interface\n"
    " type t\n  sequence\n  integer x\n endtype t\n type, public :: t2\n  private\n"
    "  integer, pointer :: p => null()\n  procedure(f), pointer, nopass :: pp\n contains\n"
    "  procedure :: a\n  procedure, pass(x) :: b => c\n  procedure b2\n  generic :: g => a, b\n"
    "  final :: fin\n  final fin2\n end type t2\n type, extends(t2) :: t3\n end type\ncontains\n"
    " subroutine s1()\n contains\n  subroutine inner\n  end subroutine inner\n end subroutine s1\nendmodule m\n",
    "block data bd\n common /c/ x\nend block data bd\n",
    "blockdata\nendblockdata\n",
    "submodule (m) sm\ncontains\n subroutine p()\n end subroutine p\nendsubmodule sm\n",
    "submodule (m:n) sm\nend submodule\n",
    "program p\n n1: if (a) then\n elseif (b) then n1\n else if (c) then n1\n else n1\n endif n1\n"
    " d1: do i=1,3\n  cycle d1\n  exit d1\n enddo d1\n do 10 i=1,3\n10 continue\n do 20, i=1,3\n20 x = 1\n"
    " do while (a)\n end do\n do\n enddo\n do concurrent (i=1:3)\n end do\n"
    " s1: select case (i)\n case (1:2, 5) s1\n case (:0) s1\n case default s1\n end select s1\n"
    " select type (x)\n type is (integer)\n type is (real(8))\n class is (t)\n class default\n endselect\n"
    " selecttype (y => x)\n end select\n selectcase (i)\n case (1)\n endselect\n"
    " where (a>0)\n  a = 1\n elsewhere (a<0)\n  a = 2\n else where\n  a = 3\n endwhere\n"
    " w: where (a>0)\n elsewhere w\n end where w\n forall (i=1:3)\n  a(i) = 1\n endforall\n"
    " associate (z => x+1, q=>r)\n endassociate\n block\n  integer i\n endblock\n critical\n endcritical\nend program p\n",
    "program p\n if (x.eq.1) then\n elseif (x==2) then\n else\n endif\n do i=1,10\n enddo\nend\n",
    "module m\n implicit none\n integer, parameter :: dp = kind(1.0d0)\ncontains\n"
    " pure function add(a, b) result(c)\n  real(dp), intent(in) :: a, b\n  real(dp) :: c\n  c = a + b\n end function add\nend module m\n",
    "subroutine s(n, a)\n integer n\n real a(n)\n do 10 i = 1, n\n  do 10 j = 1, n\n   a(i) = a(i) + j\n10 continue\n end\n",
    "program p\n ! a comment\n x = 1 ! trailing\n\n y = 'a ! not comment' ! c2\nend\n",
    "PROGRAM Mixed\n INTEGER :: Foo, bAr\n Foo = bAr + 1\n IF (Foo .GT. 1) THEN\n  PRINT *, 'Mixed Case'\n ENDIF\nEND PROGRAM Mixed\n",
]

# valid inputs whose printed form is NOT the same token sequence modulo the documented
# canonicalisations: (description, source)
# (a free-form line starting with ';' used to lose its statements, F-C12-1: fixed at HEAD, now
#  a positive sample in PROGRAMS)
KNOWN_DEVIATIONS = [
    ("CHARACTER(KIND=k, LEN=n) is printed LEN first: two tokens reordered",
     _wrap(["character(kind=1,len=10) e"])),
    ("COMMON without // is printed with an invented // (blank common name)",
     _wrap(["common q3"])),
    ("statement label with leading zeros is printed without them (label not char-for-char)",
     _wrap(["010 continue"])),
]


def samples():
    out = []
    for line in STMTS.strip().split("\n"):
        if line.strip():
            out.append(("f2008", _wrap([line])))
    for p in PROGRAMS:
        out.append(("f2008", p))
    # a few under the f2003 grammar too
    for line in ["real(8)::x", "close(10)", "call s()", "10 format(1pe10.3)", "character(10) c",
                 "namelist /a/ x /b/ y", "goto 10", "x = 1.0d0 .eq. y"]:
        out.append(("f2003", _wrap([line])))
    return out


# --------------------------------------------------------------------------------------
# negative controls: single-token mutations of the printed text
# --------------------------------------------------------------------------------------
_TOK = re.compile(r"""
    (?P<chr>(?:\w+_)?'(?:[^'\n]|'')*'|(?:\w+_)?"(?:[^"\n]|"")*")
  | (?P<num>(?:\d+\.\d*|\.\d+|\d+)(?:[EDed][+-]?\d+)?(?:_\w+)?)
  | (?P<dot>\.[A-Za-z]+\.)
  | (?P<name>[A-Za-z_]\w*)
  | (?P<op>\*\*|==|/=|<=|>=|=>|::|//|\(/|/\)|[^\s\w])
""", re.X)


def ptoks(text):
    """tokens of a printed text: list of (kind, start, end)"""
    return [(m.lastgroup, m.start(), m.end()) for m in _TOK.finditer(text)]


def mutations(text, rng, per_kind=3):
    """-> list of (kind, mutated_text, info).  info describes what was touched."""
    toks = ptoks(text)
    if not toks:
        return []
    res = []

    def pick(pred, k):
        c = [i for i, t in enumerate(toks) if pred(i, t)]
        rng.shuffle(c)
        return c[:k]

    for i in pick(lambda i, t: True, per_kind):
        k, a, b = toks[i]
        res.append(("drop", text[:a] + text[b:], text[a:b]))
    for i in pick(lambda i, t: True, per_kind):
        k, a, b = toks[i]
        res.append(("dup", text[:b] + " " + text[a:b] + text[b:], text[a:b]))
    for i in pick(lambda i, t: i + 1 < len(toks) and "\n" not in text[t[2]:toks[i + 1][1]]
                  and text[t[1]:t[2]] != text[toks[i + 1][1]:toks[i + 1][2]], per_kind):
        k, a, b = toks[i]
        k2, a2, b2 = toks[i + 1]
        res.append(("swap", text[:a] + text[a2:b2] + text[b:a2] + text[a:b] + text[b2:],
                    text[a:b] + " <-> " + text[a2:b2]))
    for i in pick(lambda i, t: t[0] == "chr" and t[2] - t[1] >= 3 and "_" not in text[t[1]:t[1] + 1], per_kind):
        k, a, b = toks[i]
        s = text[a:b]
        q = s.index("'") if "'" in s and (('"' not in s) or s.index("'") < s.index('"')) else s.index('"')
        body = list(range(q + 1, len(s) - 1))
        body = [j for j in body if s[j] not in "'\""]
        if not body:
            continue
        j = rng.choice(body)
        c = s[j]
        new = c.swapcase() if c.isalpha() else ("#" if c != "#" else "%")
        res.append(("lit", text[:a] + s[:j] + new + s[j + 1:] + text[b:], s))
    for i in pick(lambda i, t: t[0] == "num", per_kind):
        k, a, b = toks[i]
        s = text[a:b]
        ds = [j for j, c in enumerate(s) if c.isdigit()]
        j = rng.choice(ds)
        new = str((int(s[j]) + 1) % 10)
        res.append(("digit", text[:a] + s[:j] + new + s[j + 1:] + text[b:], s))
    for i in pick(lambda i, t: t[0] == "name" and t[2] - t[1] >= 1, per_kind):
        k, a, b = toks[i]
        s = text[a:b]
        res.append(("rename", text[:a] + s + "q" + text[b:], s))
    return res


_ALLOWED_TOK = {"::", "KIND", "LEN", "UNIT"}
_COMMA_STMT = re.compile(r"^\s*(\d+\s+FORMAT\b|NAMELIST\b|DATA\b|(IF\s*\(.*\)\s*)?GO TO\s*\()")


def _line_of(text, mutated):
    """the line of `text` where it first differs from `mutated`"""
    i = 0
    n = min(len(text), len(mutated))
    while i < n and text[i] == mutated[i]:
        i += 1
    a = text.rfind("\n", 0, i) + 1
    b = text.find("\n", i)
    return text[a:b if b >= 0 else len(text)]


def allowed_mutation(kind, info, text, mutated):
    """Mutations that only touch what the documented canonicalisations allow (so `eq` is a
    correct answer).  Decided from the mutation itself, never from the model:
    * a `::`, `KIND`, `LEN`, `UNIT` token dropped / duplicated / moved;
    * a comma dropped / duplicated / moved inside a FORMAT, NAMELIST, DATA or computed-GOTO
      statement (optional-comma positions);
    * the case of a BOZ digit (`Z'ff'` is printed `Z'FF'`: keyword case)."""
    parts = [info] if kind in ("drop", "dup") else info.split(" <-> ") if kind == "swap" else []
    if any(p in _ALLOWED_TOK for p in parts):
        return True
    line = _line_of(text, mutated)
    if "," in parts or (kind == "swap" and "/" in parts):
        if _COMMA_STMT.match(line.upper()):
            return True
    if kind == "lit" and re.search(r"\b[BOZX]" + re.escape(info), line):
        return True
    return False


# --------------------------------------------------------------------------------------
# fparser1 nesting
# --------------------------------------------------------------------------------------
_KINDS = [
    ("blockdata", r"block\s*data"), ("program", "program"), ("subroutine", "subroutine"),
    ("function", "function"), ("module", "module"), ("interface", "interface"), ("type", "type"),
    ("ifthen", "if"), ("do", "do"), ("select", "select"), ("where", "where"), ("forall", "forall"),
    ("associate", "associate"), ("enum", "enum"),
]
_END_RE = re.compile(r"end\s*(?:(" + "|".join(k[1] for k in _KINDS) + r")\b\s*(\w*))?\s*$", re.I)
_SPEC_RE = re.compile(
    r"(integer|real|double\s*precision|complex|logical|character|type\s*\(|class\s*\(|implicit|use\b|"
    r"parameter|dimension|save|common|external|intrinsic|public|private|sequence|namelist|"
    r"equivalence|allocatable|pointer|target|optional|intent|procedure|module\s+procedure|import)",
    re.I)
_ASSIGN_RE = re.compile(r"\w+(\s*\([^=]*\))?(\s*%\s*\w+(\s*\([^=]*\))?)*\s*=(?!=)", re.I)


def classify_line(text):
    """Independent classification of one statement line (no label, no construct name).
    -> ('O', kind, name, endlabel) | ('C', kind|None, name) | ('I',) | ('S', cat)"""
    t = text.strip()
    low = t.lower()
    m = _END_RE.match(low)
    if m and not _ASSIGN_RE.match(low):
        if m.group(1) is None:
            return ("C", None, "")
        kw = re.sub(r"\s+", "", m.group(1))
        kind = {"if": "ifthen"}.get(kw, kw)
        return ("C", kind, m.group(2) or "")
    if re.match(r"program\s+\w+\s*$", low):
        return ("O", "program", low.split()[1], None)
    m = re.match(r"((?:recursive|pure|elemental)\s+)*subroutine\s+(\w+)", low)
    if m:
        return ("O", "subroutine", m.group(2), None)
    m = re.match(r"(?:(?:recursive|pure|elemental|integer|real|logical|complex|double\s*precision|"
                 r"character)(?:\s*\([^)]*\))?\s+)*function\s+(\w+)", low)
    if m:
        return ("O", "function", m.group(1), None)
    m = re.match(r"module\s+(\w+)\s*$", low)
    if m and m.group(1) != "procedure":
        return ("O", "module", m.group(1), None)
    m = re.match(r"block\s*data\s*(\w*)\s*$", low)
    if m:
        return ("O", "blockdata", m.group(1), None)
    m = re.match(r"(?:abstract\s+)?interface\b\s*(\w*)\s*$", low)
    if m:
        return ("O", "interface", m.group(1), None)
    m = re.match(r"type\b(?!\s*\()\s*(?:,[^:]*)?(?:::)?\s*(\w+)\s*$", low)
    if m and not re.match(r"type\s+is\b", low):
        return ("O", "type", m.group(1), None)
    if re.match(r"enum\s*,\s*bind", low):
        return ("O", "enum", "", None)
    if re.match(r"if\s*\(.*\)\s*then$", low):
        return ("O", "ifthen", "", None)
    if re.match(r"if\s*\(", low):
        return ("I",)
    m = re.match(r"do\b\s*(\d+)?", low)
    if m and not _ASSIGN_RE.match(low.replace(" ", "")) or re.match(r"do\s+(\d+\s+)?\w+\s*=", low) or low == "do":
        lab = re.match(r"do\b\s*(\d+)", low)
        return ("O", "do", "", int(lab.group(1)) if lab else None)
    if re.match(r"select\s*(case|type)\s*\(", low):
        return ("O", "select", "", None)
    if re.match(r"where\s*\([^)]*\)$", low):
        return ("O", "where", "", None)
    if re.match(r"forall\s*\(.*\)$", low) and not re.search(r"\)\s*\w[\w()]*\s*=", low):
        return ("O", "forall", "", None)
    if re.match(r"associate\s*\(", low):
        return ("O", "associate", "", None)
    if re.match(r"else\s*where\b", low):
        return ("S", "elsw")
    if re.match(r"else\s*if\s*\(|else\b", low):
        return ("S", "els")
    if re.match(r"(case\b|type\s+is\b|class\s+is\b|class\s+default\b)", low):
        return ("S", "cas")
    if low == "contains":
        return ("S", "cont")
    if re.match(r"enumerator\b", low):
        return ("S", "enumr")
    if _SPEC_RE.match(low) and not _ASSIGN_RE.match(low):
        return ("S", "spec")
    if _ASSIGN_RE.match(low):
        return ("S", "assign")
    return ("S", "exec")


def source_lines(src, isfree):
    """-> list of (lineno, label|None, construct_name, text) for every statement line"""
    out = []
    for n, raw in enumerate(src.split("\n"), 1):
        if isfree:
            t = raw.split("!")[0] if "'" not in raw and '"' not in raw else raw
            if not t.strip():
                continue
        else:
            if not raw.strip() or raw[0] in "cC*!":
                continue
            t = raw
        t = t.strip()
        lab = None
        m = re.match(r"(\d+)\s+(.*)$", t)
        if m:
            lab, t = int(m.group(1)), m.group(2)
        cname = ""
        m = re.match(r"(\w+)\s*:\s*(?!:)(.*)$", t)
        if m and not t.lower().startswith(("use", "case")):
            cname, t = m.group(1), m.group(2)
        out.append((n, lab, cname, t))
    return out


def encode_lines(src, isfree):
    rows = []
    for n, lab, cname, t in source_lines(src, isfree):
        c = classify_line(t)
        l = "-" if lab is None else str(lab)
        if c[0] == "O":
            name = cname if c[1] in ("ifthen", "do", "select", "where", "forall", "associate") else c[2]
            rows.append("%d;%s;O;%s;%s;%s" % (n, l, c[1], name, "-" if c[3] is None else c[3]))
        elif c[0] == "C":
            rows.append("%d;%s;C;%s;%s" % (n, l, c[1] or "-", c[2]))
        elif c[0] == "I":
            rows.append("%d;%s;I" % (n, l))
        else:
            rows.append("%d;%s;S;%s" % (n, l, c[1]))
    return "\n".join(rows)


def parse1(src, isfree):
    """real fparser1; -> (tree, None) or (None, (lineno, blockclass) | 'other:...')"""
    from fparser import api
    from fparser.common.utils import AnalyzeError

    try:
        t = api.parse(src, isfree=isfree, isstrict=False, analyze=False, ignore_comments=True)
        return t, None
    except AnalyzeError as e:
        msg = str(e)
        m = re.search(r"^\s*(\d+):.*<== no parse pattern found for .* in '(\w+)' block", msg, re.M)
        if m:
            return None, (int(m.group(1)), m.group(2))
        return None, "other:" + msg[-200:]
    except SystemExit:
        return None, "other:sys.exit"
    except Exception as e:  # noqa
        return None, "other:%s:%s" % (type(e).__name__, str(e)[-200:])


def real_nesting(tree):
    from fparser.common.base_classes import BeginStatement

    def go(node):
        parts = []
        for c in node.content:
            n = c.item.span[0] if getattr(c, "item", None) is not None else c.span[0]
            if isinstance(c, BeginStatement):
                inner = go(c)
                parts.append("(%d%s)" % (n, (" " + inner) if inner else ""))
            else:
                parts.append(str(n))
        return " ".join(parts)

    inner = go(tree)
    return "(0" + ((" " + inner) if inner else "") + ")"


_SELECT_CLS = {"SelectCase": "Select", "SelectType": "Select"}


def body1(text, isfree):
    """printed fparser1 source modulo indentation, blanks after a label, header comment"""
    out = []
    for ln in text.split("\n")[1:]:
        s = ln.strip()
        if not s:
            continue
        s = re.sub(r"^(\d+)\s+", r"\1 ", s)
        out.append(s)
    return out


def check_nest1(model, src, isfree=True):
    """-> dict(agree=bool, real=…, model=…, c19=bool|None, shared=bool)"""
    tree, err = parse1(src, isfree)
    enc = encode_lines(src, isfree)
    # `shared`: a DO-terminating statement was handed to the enclosing DO (same label).
    # `lost_header` is kept (always False) for callers written when fparser1 still printed the
    # header of FORALL / ASSOCIATE as a tokeniser placeholder; that defect is fixed at HEAD.
    res = {"shared": False, "c19": None, "lost_header": False,
           "has_forall_assoc": bool(re.search(r";O;(forall|associate);", enc))}
    rep = model.ask("nest1", enc)
    if tree is not None:
        res["real"] = ("ok", real_nesting(tree))
    elif isinstance(err, tuple):
        res["real"] = ("err", str(err[0]), _SELECT_CLS.get(err[1], err[1]))
    else:
        res["real"] = ("other", err)
    if rep[0] == "ok":
        res["model"] = ("ok", rep[1])
        res["shared"] = rep[2] == "true"
    else:
        res["model"] = ("err", rep[2], rep[3])
    res["agree"] = res["real"] == res["model"]
    if tree is not None:
        s1 = str(tree)
        t2, e2 = parse1("\n".join(s1.split("\n")[1:]) + "\n", isfree)
        if t2 is None:
            res["c19"] = False
            res["c19_detail"] = "reparse failed: %r" % (e2,)
        else:
            b1, b2 = body1(s1, isfree), body1(str(t2), isfree)
            res["c19"] = b1 == b2
            if b1 != b2:
                res["c19_detail"] = "bodies differ"
            else:
                # same block structure
                res["c19_struct"] = _shape(tree) == _shape(t2)
    return res


def _shape(tree):
    from fparser.common.base_classes import BeginStatement

    def go(node):
        return [(type(c).__name__, go(c)) if isinstance(c, BeginStatement) else type(c).__name__
                for c in node.content]

    return go(tree)


# --------------------------------------------------------------------------------------
# generator for the F77/F90 subset of fparser1
# --------------------------------------------------------------------------------------
class Gen:
    def __init__(self, rng, broken):
        self.rng = rng
        self.lab = 10
        self.broken = broken
        self.nm = 0

    def name(self, p):
        self.nm += 1
        return "%s%d" % (p, self.nm)

    def simple(self):
        r = self.rng
        return r.choice(["x = x + 1", "call sub(x, 1)", "y(i) = 2*i", "print *, 'v', x", "continue",
                         "a%b = c", "write(*,*) x", "x = f(y) ** 2", "if (x > 0) x = 0",
                         "if (l) call sub(x, 2)", "z = 'end do'"])

    def body(self, depth, inloop=False):
        r = self.rng
        out = []
        for _ in range(r.randint(0, 3)):
            k = r.random()
            if depth <= 0 or k < 0.4:
                out.append(self.simple())
            elif k < 0.55:
                out += self.ifthen(depth)
            elif k < 0.68:
                out += self.do(depth)
            elif k < 0.78:
                out += self.labeldo(depth)
            elif k < 0.86:
                out += self.select(depth)
            elif k < 0.92:
                out += self.where()
            elif k < 0.96:
                out += self.forall()
            else:
                out += self.associate(depth)
        return out

    def endw(self, a, b):
        return self.rng.choice([a + " " + b, a + b])

    def ifthen(self, d):
        r = self.rng
        cn = self.name("blk") if r.random() < 0.25 else ""
        out = [(cn + ": " if cn else "") + "if (x > %d) then" % r.randint(0, 9)] + self.body(d - 1)
        for _ in range(r.randint(0, 2)):
            # fparser1's ElseIf pattern rejects a trailing construct name: never generated
            out += [r.choice(["else if", "elseif"]) + " (x < 3) then"]
            out += self.body(d - 1)
        if r.random() < 0.5:
            out += ["else"] + self.body(d - 1)
        out += [self.endw("end", "if") + (" " + cn if cn and r.random() < 0.7 else "")]
        return out

    def do(self, d):
        r = self.rng
        cn = self.name("lp") if r.random() < 0.25 else ""
        head = r.choice(["do i = 1, 10", "do j = 1, n, 2", "do while (x < 10)", "do"])
        return [(cn + ": " if cn else "") + head] + self.body(d - 1) + [self.endw("end", "do") + (" " + cn if cn else "")]

    def labeldo(self, d):
        r = self.rng
        self.lab += 10
        lab = self.lab
        k = r.random()
        if k < 0.2 and d > 1:   # shared label: the terminal statement closes both (or three) loops
            heads = ["do %d i = 1, 3" % lab, "do %d j = 1, 3" % lab]
            if r.random() < 0.3:
                heads.append("do %d k = 1, 3" % lab)
            mid = self.body(d - 2) if r.random() < 0.5 else []
            return heads[:1] + mid + heads[1:] + self.body(d - 2) + ["%d %s" % (lab, r.choice(["continue", "x = x + 1"]))]
        term = r.choice(["continue", "x = x + 1", "end do", "enddo"])
        return ["do %d%s i = 1, 3" % (lab, r.choice(["", ","]))] + self.body(d - 1) + ["%d %s" % (lab, term)]

    def select(self, d):
        r = self.rng
        out = ["select case (i)"]
        for c in range(r.randint(1, 3)):
            out += ["case (%d)" % c] + self.body(d - 1)
        if r.random() < 0.5:
            out += ["case default"] + self.body(d - 1)
        return out + [self.endw("end", "select")]

    def where(self):
        r = self.rng
        out = ["where (y > 0)", "y = 1"]
        if r.random() < 0.5:
            out += [r.choice(["elsewhere", "else where"]), "y = 2"]
        return out + [self.endw("end", "where")]

    def forall(self):
        r = self.rng
        cn = self.name("fa") if r.random() < 0.25 else ""
        head = r.choice(["forall (i = 1:n)", "forall (i = 1:n, j = 1:3, y(i) > 0)", "forall (i=1:n:2)"])
        return [(cn + ": " if cn else "") + head, "y(i) = i", self.endw("end", "forall") + (" " + cn if cn and r.random() < 0.7 else "")]

    def associate(self, d):
        r = self.rng
        cn = self.name("as") if r.random() < 0.25 else ""
        head = r.choice(["associate (v => x + 1)", "associate (v => y(1), w => a%b)", "associate(v=>f(x, 'a)b'))"])
        return ([(cn + ": " if cn else "") + head] + self.body(d - 1)
                + [self.endw("end", "associate") + (" " + cn if cn and r.random() < 0.7 else "")])

    def decls(self):
        r = self.rng
        out = []
        if r.random() < 0.5:
            out.append("implicit none")
        for _ in range(r.randint(0, 3)):
            out.append(r.choice(["integer i, j, n", "real :: x, y(10)", "logical l", "character(len=10) z",
                                 "real, parameter :: pi = 3.14", "common /blk/ q", "integer, dimension(3) :: v"]))
        if r.random() < 0.25:
            tn = self.name("t")
            out += [r.choice(["type %s", "type :: %s", "type, public :: %s"]) % tn, "integer :: c1", "real c2",
                    self.endw("end", "type") + r.choice(["", " " + tn])]
        if r.random() < 0.2:
            sn = self.name("ext")
            out += ["interface", "subroutine %s(a)" % sn, "real a", "end subroutine " + sn,
                    self.endw("end", "interface")]
        return out

    def unit(self, kind, depth, inner=True):
        r = self.rng
        n = self.name(kind[0])
        head = {"program": "program " + n, "subroutine": r.choice(["", "recursive ", "pure "]) + "subroutine %s(a, b)" % n,
                "function": r.choice(["", "real ", "integer "]) + "function %s(a)" % n,
                "module": "module " + n}[kind]
        out = [head] + self.decls()
        if kind != "module":
            out += self.body(depth)
        if inner and r.random() < 0.4:
            out += ["contains"]
            for _ in range(r.randint(1, 2)):
                out += self.unit(r.choice(["subroutine", "function"]), max(depth - 1, 0), inner=False)
        e = r.random()
        if e < 0.5:
            out += ["end %s %s" % (kind, n)]
        elif e < 0.7:
            out += ["end " + kind]
        elif e < 0.85:
            out += ["end"]
        else:
            out += ["end%s %s" % (kind, n)]
        return out

    def program(self):
        r = self.rng
        out = []
        for _ in range(r.randint(1, 3)):
            out += self.unit(r.choice(["program", "subroutine", "function", "module"]), r.randint(0, 3))
        if self.broken:
            k = r.random()
            # (ends of WHERE/FORALL are left alone: inside those blocks fparser1's Assignment
            #  pattern accepts lines such as `do 30, i = 1, 3`, a leaf-regex matter)
            ends = [i for i, s in enumerate(out) if s.startswith("end") and "where" not in s and "forall" not in s]
            if k < 0.3 and ends:          # remove one END
                del out[r.choice(ends)]
            elif k < 0.55 and ends:       # wrong END name
                i = r.choice(ends)
                w = out[i].split()
                out[i] = " ".join(w[:-1] + ["wrongname"]) if len(w) >= 3 else out[i]
            elif k < 0.75 and ends:       # bare end in place of construct end
                out[r.choice(ends)] = "end"
            elif k < 0.9:                 # cut the tail
                cut = r.randint(1, len(out))
                opened = [x for x in out[:cut] if x.startswith(("where", "forall"))]
                closed = [x for x in out[:cut] if x.startswith(("endwhere", "end where", "endforall", "end forall"))]
                if len(opened) == len(closed):
                    out = out[:cut]
            else:                         # stray END
                out.insert(r.randint(0, len(out)), r.choice(["end if", "end do", "end subroutine"]))
        return out


def render1(lines, isfree, rng):
    out = []
    depth = 0
    for s in lines:
        m = re.match(r"(\d+) (.*)$", s)
        lab, t = (m.group(1), m.group(2)) if m else ("", s)
        if rng.random() < 0.3:
            t = t.upper() if "'" not in t else t
        if isfree:
            out.append((lab + " " if lab else "") + " " * rng.randint(0, 4) + t)
        else:
            out.append("%-5s %s%s" % (lab, " " * rng.randint(0, 3), t))
        if rng.random() < 0.08:
            out.append("! a comment line" if isfree else "C a comment line")
        if rng.random() < 0.05:
            out.append("")
    return "\n".join(out) + "\n"


def gen_sources(rng, n, p_broken=0.2):
    """-> list of (src, isfree)"""
    res = []
    for _ in range(n):
        g = Gen(rng, rng.random() < p_broken)
        isfree = rng.random() < 0.6
        res.append((render1(g.program(), isfree, rng), isfree))
    return res


# --------------------------------------------------------------------------------------
def run_roundtrip(model, rng, verbose=False):
    st = {"samples": 0, "eq": 0, "ne": [], "invalid": [], "mut": {}, "missed": [], "allowed": 0,
          "known_dev_ok": 0, "known_dev_bad": []}
    for std, src in samples():
        st["samples"] += 1
        status, det = check_roundtrip(model, src, std)
        if status == "invalid":
            st["invalid"].append(src)
            continue
        if status == "ne":
            st["ne"].append((src, det[0]))
            continue
        st["eq"] += 1
        out = det[1]
        for kind, mutated, info in mutations(out, rng):
            if mutated == out:
                continue
            tot, det_ = st["mut"].get(kind, (0, 0))
            ok, r = normeq(model, out, mutated)
            if allowed_mutation(kind, info, out, mutated):
                st["allowed"] += 1
                st["allowed_eq"] = st.get("allowed_eq", 0) + (1 if ok else 0)
                continue
            st["mut"][kind] = (tot + 1, det_ + (0 if ok else 1))
            if ok:
                st["missed"].append((kind, info, out, mutated))
    for desc, src in KNOWN_DEVIATIONS:
        status, det = check_roundtrip(model, src)
        if status == "ne":
            st["known_dev_ok"] += 1
        else:
            st["known_dev_bad"].append((desc, status))
    return st


def run_nest(model, rng, n):
    st = {"n": 0, "agree": 0, "disagree": [], "real_ok": 0, "real_err": 0, "real_other": [],
          "c19_ok": 0, "c19_fail": [], "shared": 0, "shared_stable": 0, "fa": 0, "fa_stable": 0,
          "struct_diff": 0}
    for src, isfree in gen_sources(rng, n):
        st["n"] += 1
        r = check_nest1(model, src, isfree)
        if r["real"][0] == "other":
            st["real_other"].append((src, r["real"][1]))
            continue
        st["real_ok" if r["real"][0] == "ok" else "real_err"] += 1
        if r["agree"]:
            st["agree"] += 1
        else:
            st["disagree"].append((src, isfree, r["real"], r["model"]))
        acc = r["real"][0] == "ok"
        if r["shared"] and acc:
            st["shared"] += 1
        if r["has_forall_assoc"] and acc:
            st["fa"] += 1
        if r["c19"] is True:
            st["c19_ok"] += 1
            if r["shared"]:
                st["shared_stable"] += 1
            if r["has_forall_assoc"]:
                st["fa_stable"] += 1
            if r.get("c19_struct") is False:
                st["struct_diff"] += 1
        elif r["c19"] is False:
            st["c19_fail"].append((src, isfree, r.get("c19_detail")))
    return st


def main(argv=None):
    ap = argparse.ArgumentParser()
    ap.add_argument("--seed", type=int, default=1)
    ap.add_argument("--n", type=int, default=300)
    ap.add_argument("--exe", default=os.environ.get("FV_MODEL_EXE"))
    ap.add_argument("-v", action="store_true")
    a = ap.parse_args(argv)
    model = Model(a.exe) if a.exe else get_model()
    rng = random.Random(a.seed)
    bad = 0
    st = run_roundtrip(model, rng)
    print("== C02 calibration: %d samples, %d eq, %d ne, %d rejected by the real parser"
          % (st["samples"], st["eq"], len(st["ne"]), len(st["invalid"])))
    for src, r in st["ne"]:
        bad += 1
        print("  NE  %r -> %s" % (src, r))
    for src in st["invalid"]:
        bad += 1
        print("  INVALID SAMPLE %r" % src)
    tot = sum(v[0] for v in st["mut"].values())
    det = sum(v[1] for v in st["mut"].values())
    print("== negative controls: %d mutations, %d detected (%.2f%%); %d mutations that only touch a documented "
          "canonicalisation set aside (%d of them compare eq)"
          % (tot, det, 100.0 * det / max(tot, 1), st["allowed"], st.get("allowed_eq", 0)))
    bad += tot - det
    for k, (t, d) in sorted(st["mut"].items()):
        print("   %-7s %5d / %5d" % (k, d, t))
    for kind, info, out, mutated in st["missed"]:
        print("  MISSED %s %r" % (kind, info))
        if a.v:
            print("     " + mutated.replace("\n", "\n     "))
    print("== known printer deviations reported ne: %d / %d" % (st["known_dev_ok"], len(KNOWN_DEVIATIONS)))
    for d in st["known_dev_bad"]:
        bad += 1
        print("  KNOWN DEVIATION NOT SEEN: %s (%s)" % d)
    sn = run_nest(model, rng, a.n)
    print("== C19 nest1: %d sources (%d accepted, %d AnalyzeError, %d other), model agrees on %d"
          % (sn["n"], sn["real_ok"], sn["real_err"], len(sn["real_other"]), sn["agree"]))
    for src, isfree, real, mod in sn["disagree"][:10]:
        bad += 1
        print("  DISAGREE free=%s real=%s model=%s\n%s" % (isfree, real, mod, src))
    for src, why in sn["real_other"][:5]:
        print("  OTHER %s\n%s" % (why, src))
    print("== C19 direct oracle: %d stable, %d not stable, structure differs %d; formerly unstable classes: "
          "shared DO label %d accepted / %d stable, FORALL/ASSOCIATE %d accepted / %d stable"
          % (sn["c19_ok"], len(sn["c19_fail"]), sn["struct_diff"], sn["shared"], sn["shared_stable"],
             sn["fa"], sn["fa_stable"]))
    bad += sn["struct_diff"]
    if a.n >= 200 and (sn["shared"] == 0 or sn["fa"] == 0):
        bad += 1
        print("  GENERATOR COVERAGE: no accepted shared-label / FORALL-ASSOCIATE source")
    for src, isfree, why in sn["c19_fail"][:5]:
        bad += 1
        print("  C19 FAIL free=%s %s\n%s" % (isfree, why, src))
    print("RESULT", "OK" if bad == 0 else "FAIL(%d)" % bad)
    return 0 if bad == 0 else 1


if __name__ == "__main__":
    sys.exit(main())
