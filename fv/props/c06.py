"""C06 — parsing ends in a tree or a FortranSyntaxError, for any input."""
import os
import random
import shutil
import tempfile
import time
from fv import real, gen, layout, engine, findings
from fv.props import util

RULE = ("(a) 1-3 token/character/line mutations (delete, duplicate, swap, replace by punctuation/keywords/garbage) of generated "
        "valid programs; (b) unstructured random text over the Fortran character set; (c) probes for every listed escape; "
        "x std in {f2003,f2008} x comments {ignored,kept}; print(tree) included; per-input alarm 20 s; plus a file with invalid "
        "UTF-8 through FortranFileReader. Escapes are classified by (exception type, raising function). "
        "non-trivial = the mutated text differs from the original and is >= 3 lines")
ASSUMPTIONS = ["the leaf classes' own stray exceptions and the wall-clock bound live outside the model: the block-level theorem "
               "outcome_classified proves the plumbing, this stream is the search"]
TIE_MODULES = ["FparserModel.Block", "FparserModel.IoStmt", "FparserModel.IoStmtPins", "FparserModel.Generated.IoStmtTables", "FparserModel.Rest", "FparserModel.RestPins", "FparserModel.Generated.RestTables"]

PUNCT = list("()[],:;=+-*/%&!'\".<>_$#@?\\~^{}|`") + ["::", "=>", "**", "//", "(/", "/)", "==", "/=", ".and.", ".x.", "1.0e", "'", '"']
KW = ["end", "if", "then", "else", "do", "program", "function", "subroutine", "module", "contains", "type", "select", "case",
      "where", "forall", "interface", "use", "implicit none", "real", "integer", "character(", "call", "print *,", "format(",
      "100", "block", "associate", "enddo", "endif", "data", "common", "include 'x'", "#if", "#endif", "!$omp", "go to"]
CHARS = "abcxyzEND IFDO0123456789 ()=+-*/,.:;'\"!&%_<>[]\t$#"

PROBES = [
    "subroutine s\nend subroutine q\n",
    "module m\ncontains\nsubroutine s\nend subroutine q\nend module m\n",
    "subroutine s\ninteger ( k ) j\nend subroutine s\n",
    "subroutine s\nreal, intent(in) :if: x\nend subroutine s\n",
    "subroutine s\nx = (/ (a <= b) /)\nend subroutine s\n",
    "subroutine s\nx = f(F2PY_EXPR_TUPLE_7 + 1)\nend subroutine s\n",
    "program p\n; x = 1\nend program p\n",
    "program p\n  x = 1\n  sel1:\nend program p\n",
]


def mutate(src, rng):
    lines = src.split("\n")
    k = rng.randint(1, 3)
    for _ in range(k):
        kind = rng.random()
        if not lines:
            break
        i = rng.randrange(len(lines))
        if kind < 0.12:
            del lines[i]
        elif kind < 0.2:
            lines.insert(i, lines[i])
        elif kind < 0.28 and len(lines) > 1:
            j = rng.randrange(len(lines))
            lines[i], lines[j] = lines[j], lines[i]
        elif kind < 0.36:
            lines.insert(i, rng.choice(KW + PUNCT))
        else:
            # token / character level inside line i
            l = lines[i]
            toks = l.split(" ")
            r = rng.random()
            if r < 0.2 and len(toks) > 1:
                del toks[rng.randrange(len(toks))]
                l = " ".join(toks)
            elif r < 0.35 and toks:
                j = rng.randrange(len(toks))
                toks.insert(j, toks[j])
                l = " ".join(toks)
            elif r < 0.5 and len(toks) > 1:
                a, b = rng.randrange(len(toks)), rng.randrange(len(toks))
                toks[a], toks[b] = toks[b], toks[a]
                l = " ".join(toks)
            elif r < 0.7 and toks:
                toks[rng.randrange(len(toks))] = rng.choice(PUNCT + KW)
                l = " ".join(toks)
            elif l:
                j = rng.randrange(len(l))
                r2 = rng.random()
                if r2 < 0.4:
                    l = l[:j] + l[j + 1:]
                elif r2 < 0.7:
                    l = l[:j] + rng.choice(PUNCT) + l[j:]
                else:
                    l = l[:j] + rng.choice(CHARS) + l[j + 1:]
            lines[i] = l
    return "\n".join(lines)


def random_text(rng):
    n = rng.randint(1, 12)
    out = []
    for _ in range(n):
        if rng.random() < 0.5:
            out.append("".join(rng.choice(CHARS) for _ in range(rng.randint(0, 40))))
        else:
            out.append(" ".join(rng.choice(KW + PUNCT + ["a", "b1", "x_y", "1", "2.5"]) for _ in range(rng.randint(1, 8))))
    return "\n".join(out) + "\n"


def classify(o, src, case, std, keep, dt):
    out = []
    if o.kind in ("tree", "syntax"):
        if dt > 20:
            out.append({"signature": "slow:%s" % util.stmt_kind(src.split("\n")[0]), "what": "parse took %.1fs" % dt,
                        "replay": {"case": case, "source": src, "std": std, "keep": keep}})
        return out
    site = real.exc_site(o.exc)
    sig = "escape:%s@%s:%s" % site
    known = findings.classify("C06", src, {"outcome": "other", "site": site, "std": std})
    out.append({"signature": known or sig, "what": "%s escaped from %s (%s): %s | input %r" % (site[0], site[1], site[2], str(o.exc)[:150], src[:300]),
                "replay": {"case": case, "source": src, "std": std, "keep": keep}})
    return out


def one(src, case, std, keep, res):
    import hashlib
    if len(src.splitlines()) >= 3:
        res.setdefault("keys", []).append(hashlib.sha256((std + str(keep) + src).encode("utf-8", "replace")).hexdigest()[:10])
    t0 = time.time()
    try:
        o = engine.time_limited(lambda: real.try_parse(src, std=std, ignore_comments=not keep), 20)
    except engine.InputTimeout:
        res["findings"].append({"signature": "slow:fuzz-input", "what": "no result within 20 s on %r" % src[:200],
                                "replay": {"case": case, "source": src, "std": std, "keep": keep}})
        return
    if o.kind == "tree":
        try:
            str(o.tree)
            repr(o.tree)
        except Exception as e:  # noqa: BLE001
            o = real.Outcome("other", exc=e)
    dt = time.time() - t0
    res["counts"]["outcome:" + o.kind] = res["counts"].get("outcome:" + o.kind, 0) + 1
    fs = classify(o, src, case, std, keep, dt)
    # minimise escapes by lines (any text is a legal input here, so plain ddmin is sound)
    for f in fs:
        if f["signature"].startswith("escape:") or f["signature"].startswith("pred:"):
            sig0 = f["signature"]

            def still(t):
                o_ = real.try_parse(t, std=std, ignore_comments=not keep)
                if o_.kind == "tree":
                    try:
                        str(o_.tree)
                    except Exception as e:  # noqa: BLE001
                        o_ = real.Outcome("other", exc=e)
                fs_ = classify(o_, t, case, std, keep, 0)
                return bool(fs_) and fs_[0]["signature"] == sig0
            mini = util.ddmin_lines(src, still, max_tests=120)
            f["replay"]["minimal"] = mini
            f["what"] += " | minimal %r" % mini[:300]
    res["findings"] += fs


def run_case(case):
    rng = random.Random(case["seed"])
    res = {"key": [case["kind"], case["seed"]], "counts": {"kind:" + case["kind"]: 1}, "findings": [], "nontrivial": True, "keys": []}
    std = case.get("std", "f2008")
    keep = case.get("keep", False)
    n = 0
    if case["kind"] == "probe":
        for src in PROBES:
            for st_ in ("f2003", "f2008"):
                one(src, case, st_, keep, res)
                n += 1
    elif case["kind"] == "intrinsics":
        # every name of the live intrinsic tables of BOTH standards (generic and specific) with
        # 0 .. max+1 arguments, as a reference and as a CALL argument: tree or FortranSyntaxError
        for st_ in ("f2003", "f2008"):
            real.get_parser(st_, force=True)
            from fparser.two.utils import Base as _B
            I = _B.subclasses and real.F03.Intrinsic_Name
            try:
                from fparser.two.Fortran2008 import Intrinsic_Name as I08
            except Exception:  # noqa: BLE001
                I08 = None
            tab = dict(I.generic_function_names)
            names = set(tab) | set(I.specific_function_names)
            if I08 is not None and st_ == "f2008":
                tab.update(getattr(I08, "generic_function_names", {}))
                names |= set(getattr(I08, "function_names", [])) | set(getattr(I08, "generic_function_names", {}))
            for nm in sorted(names)[case["lo"]:case["hi"]]:
                mx = (tab.get(nm) or {}).get("max")
                top = min((mx if mx is not None else 3) + 1, 6)
                for k in range(0, top + 1):
                    args = ", ".join("a%d" % j for j in range(1, k + 1))
                    one("program p\n  r = %s(%s)\nend program p\n" % (nm.lower(), args), case, st_, keep, res)
                    n += 1
    elif case["kind"] == "mutant":
        p = gen.gen_program(case["seed"], std=std, size=0.7)
        base = p.text()
        if keep:
            base = layout.render_free(p, case["seed"], layout.FreeOpts(comments=True)).text()
        for j in range(case["n"]):
            src = mutate(base, rng)
            one(src, case, std, keep, res)
            if j % 8 == 0:
                fs, info = util.block_cosim(src, std=std, ignore_comments=not keep, case=case)
                res["findings"] += fs
                res["counts"]["block-cosim"] = res["counts"].get("block-cosim", 0) + 1
            n += 1
        res["sample"] = {"kind": "mutant", "seed": case["seed"], "text": src[:200]}
    elif case["kind"] == "random":
        for _ in range(case["n"]):
            src = random_text(rng)
            one(src, case, std, keep, res)
            n += 1
        res["sample"] = {"kind": "random", "text": src[:200]}
    elif case["kind"] == "stmt":
        # every statement of a generated program on its own (inside a minimal wrapper): delete
        # each token in turn / replace it by a few punctuation tokens (exhaustive per statement)
        p = gen.gen_program(case["seed"], std=std, size=0.7)
        seen = set()
        # every statement of one program + a zoo of statements of every kind the generator knows
        g = gen.G(random.Random(case["seed"] ^ 0x200), std=std, max_depth=2)
        zoo = list(p.flat())
        zoo += [g.format_stmt() for _ in range(6)] + [g.io_stmt() for _ in range(8)] + [g.type_decl()[0] for _ in range(8)]
        zoo += [x for x in (g.spec_misc() for _ in range(12)) if isinstance(x, gen.St)]
        zoo += [g.action() for _ in range(12)] + [g.use_stmt()[0] for _ in range(3)]
        for st_ in zoo:
            toks = st_.all_toks()
            if len(toks) > 24:
                continue
            key0 = util.stmt_kind(st_.text())
            for i in range(len(toks)):
                for rep in ("", "*", "(", ")", ",", "=", ":"):
                    t2 = toks[:i] + ([rep] if rep else []) + toks[i + 1:]
                    txt = gen.join_natural(t2) if t2 else ""
                    if (key0, txt) in seen:
                        continue
                    seen.add((key0, txt))
                    wrap = "subroutine s_w\n" + txt + "\nend subroutine s_w\n"
                    if st_.role == "open" and st_.cons in ("subroutine", "function", "program", "module", "submodule", "blockdata"):
                        wrap = txt + "\nend\n"
                    one(wrap, case, std, False, res)
                    n += 1
        res["sample"] = {"kind": "stmt", "seed": case["seed"], "mutants": n}
    elif case["kind"] == "scale":
        # structured inputs of moderate size: must come back within the time bound
        from fv.props import c20
        for name, (genf, k, nq, nt) in sorted(c20.FAMILIES.items()):
            if name in ("nested-refs", "nonblock-do-distinct-labels", "paren-pow-defined-unary"):
                continue      # listed exponential families (C20 known findings)
            src = genf(24)
            for st_ in ("f2003", "f2008"):
                if st_ == "f2003" and name == "nested-block":
                    continue
                t0 = time.time()
                try:
                    engine.time_limited(lambda: real.try_parse(src, std=st_, free=True), 20)
                    dt = time.time() - t0
                except engine.InputTimeout:
                    dt = 21.0
                n += 1
                if dt > 20:
                    res["findings"].append({"signature": "slow:" + name, "what": "%s(24) under %s did not return within 20 s" % (name, st_),
                                            "replay": {"case": case, "source": src, "std": st_}})
        res["sample"] = {"kind": "scale"}
    elif case["kind"] == "utf8":
        d = tempfile.mkdtemp(prefix="fv_c06_")
        try:
            path = os.path.join(d, "bad.f90")
            with open(path, "wb") as f:
                f.write(b"program p\n  ! caf\xe9 \xff\xfe comment\n  x = 'na\xefve'\nend program p\n")
            try:
                r = real.make_reader(None, path=path, ignore_comments=False)
                t = real.get_parser(std)(r)
                str(t)
            except real.U.FortranSyntaxError:
                pass
            except UnicodeDecodeError as e:
                res["findings"].append({"signature": "escape:UnicodeDecodeError", "what": "decoding error reading invalid UTF-8: %s" % e,
                                        "replay": {"case": case}})
            except Exception as e:  # noqa: BLE001
                res["findings"].append({"signature": "escape:%s@%s:%s" % real.exc_site(e), "what": "invalid UTF-8 file: %s" % e,
                                        "replay": {"case": case}})
            n += 1
        finally:
            shutil.rmtree(d, ignore_errors=True)
    res["evals"] = n
    return res


def cases(tier, seed):
    out = [{"kind": "probe", "seed": 0}, {"kind": "utf8", "seed": 0}, {"kind": "scale", "seed": 0, "_timeout": 1500}]
    out += [{"kind": "intrinsics", "seed": 0, "lo": lo, "hi": lo + 25, "_timeout": 900} for lo in range(0, 225, 25)]
    nb = util.tier_n(tier, 48, 600)
    for i, s in enumerate(util.seeds(seed, nb, 6)):
        out.append({"kind": "mutant", "seed": s, "n": 25, "std": "f2008" if i % 2 else "f2003", "keep": i % 4 == 3, "_timeout": 600})
    for i, s in enumerate(util.seeds(seed, max(4, nb // 4), 66)):
        out.append({"kind": "random", "seed": s, "n": 60, "std": "f2008" if i % 2 else "f2003", "keep": i % 3 == 0, "_timeout": 600})
    for i, s in enumerate(util.seeds(seed, util.tier_n(tier, 16, 160), 67)):
        out.append({"kind": "stmt", "seed": s, "std": "f2008" if i % 3 else "f2003", "_timeout": 1200})
    return out


def run(tier, rep, st):
    util.sub_cosim(rep, tier, "cosim_rest", "Fp.Rest", 60, 600)
    util.sub_cosim(rep, tier, "cosim_iostmt", "Fp.IoStmt", 50, 600)
    results = engine.run_cases(__name__, cases(tier, rep.seed), rep)
    rep.evaluations = sum(r.get("evals", 0) for r in results)
