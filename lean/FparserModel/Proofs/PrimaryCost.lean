import FparserModel.Primary
import FparserModel.Generated.PrimaryTables
/-!
# PrimaryCost — the cost (number of `Base.__new__` calls) of `Primary(text)` for references

**Finding F-C20-1 (exponential cost of nested references) — REPAIRED in /repo 2a636f5.**
`Primary("f(<arg>)")` reaches the alternative `Data_Ref` of `Primary`/`Designator` after ten failing
alternatives.

* BEFORE 2a636f5 `Data_Ref.match` was `SequenceBase.match("%", Part_Ref, string)`: it built
  `Part_Ref(string)` — which parses the whole argument list, i.e. `Section_Subscript(<arg>)` →
  `Int_Expr(<arg>)` → … → `Level_1_Expr(<arg>)` → the alternatives of `Primary` on `<arg>` — and then
  returned `None` because the sequence has a single entry; `Base.__new__` then ran the subclass loop
  of `Data_Ref`, whose only entry is `Part_Ref`: `Part_Ref(string)` was built a SECOND time.  Every
  nesting level doubled the work:

      T_old(0) = 11,  T_old(d+1) = 2·T_old(d) + 49,  T_old(d) = 60·2^d − 49   (11, 71, 191, 431, 911, …)

* SINCE 2a636f5 `Data_Ref.match` begins with `line, _ = string_replace_map(string)`;
  `if "%" not in line: return None`: a text without a top-level `%` makes no child call, the subclass
  `Part_Ref` parses it ONCE:

      T(0) = 11,  T(d+1) = T(d) + 31,  T(d) = 11 + 31·d      (11, 42, 73, 104, 135, 166, 197, 228)

  and in general the cost of ANY reference is LINEAR IN ITS SIZE: `refCalls r ≤ 31 · size r`
  (`refCalls_linear_in_size`).  A reference with `n ≥ 1` plain arguments costs `17 + 25·n` calls.

(all numbers measured on the real parser at 2a636f5 / at its parent; the compiled model gives the
same: driver `primary.nest`, `primary.closed`, and their `…old` variants).

This file proves the recurrences on the shape-level cost models `refCalls` (current code) and
`refCallsOld` (the code before the repair: the COUNTER-FACTUAL, kept so that the repaired bound can be
read next to what the repair removed) of `FparserModel/Primary.lean`, for all depths / all argument
counts / all references, and TIES both to the string-level mirrors of `Base.__new__` (`new` /
`primaryCalls`, `newOld` / `primaryCallsOld`, over the real subclass table and the real intrinsic
tables) by kernel evaluation on the first levels.
-/
namespace Fp.Primary
open Fp.IoStmt (Std)

/-! ## 1. the CURRENT code: nested references are linear -/

theorem altCalls_name : altCalls .name = 10 := by simp [altCalls]

theorem altCalls_call (args : List Ref) :
    altCalls (.call args) = 16 + altCalls.argsCalls args := by
  simp [altCalls]; omega

theorem argsCalls_nil : altCalls.argsCalls [] = 0 := by simp [altCalls.argsCalls]

theorem argsCalls_cons (a : Ref) (rest : List Ref) :
    altCalls.argsCalls (a :: rest) = 15 + altCalls a + altCalls.argsCalls rest := by
  simp [altCalls.argsCalls]

theorem argsCalls_append (l₁ l₂ : List Ref) :
    altCalls.argsCalls (l₁ ++ l₂) = altCalls.argsCalls l₁ + altCalls.argsCalls l₂ := by
  induction l₁ with
  | nil => simp [argsCalls_nil]
  | cons a l ih => simp [argsCalls_cons, ih]; omega

/-- a reference with the single argument `a` costs `a` plus 31:
    1 (`Primary`/the caller) is shared, 16 for the alternatives of the reference itself up to and
    including the ONE `Part_Ref`, 15 for `Section_Subscript`, `Subscript_Triplet` and the 13 classes
    of the expression chain -/
theorem refCalls_call_single (a : Ref) : refCalls (.call [a]) = refCalls a + 31 := by
  simp [refCalls, altCalls_call, argsCalls_cons, argsCalls_nil]; omega

/-- `T(d+1) = T(d) + 31` -/
theorem refCalls_nest_succ : ∀ d, refCalls (nestRef (d+1)) = refCalls (nestRef d) + 31 := by
  intro d; simp [nestRef, refCalls_call_single]

theorem refCalls_nest_zero : refCalls (nestRef 0) = 11 := by
  simp [nestRef, refCalls, altCalls_name]

/-- `T(d) = 11 + 31·d` -/
theorem refCalls_nest_closed : ∀ d, refCalls (nestRef d) = 11 + 31 * d := by
  intro d
  induction d with
  | zero => simp [refCalls_nest_zero]
  | succ d ih => rw [refCalls_nest_succ, ih]; omega

/-- the POLYNOMIAL (linear) bound for nested references -/
theorem refCalls_nest_linear : ∀ d, refCalls (nestRef d) ≤ 31 * (d + 1) := by
  intro d; rw [refCalls_nest_closed]; omega

/-- the measured series (real parser at /repo 2a636f5) -/
theorem refCalls_nest_values :
    (List.range 8).map (fun d => refCalls (nestRef d)) = [11, 42, 73, 104, 135, 166, 197, 228] := by
  decide

/-- number of nodes of a reference (names and calls) -/
def Ref.size : Ref → Nat
  | .name => 1
  | .call args => 1 + sizeList args
where
  sizeList : List Ref → Nat
    | [] => 0
    | a :: rest => Ref.size a + sizeList rest

theorem size_name : Ref.size .name = 1 := by simp [Ref.size]
theorem size_call (args : List Ref) : Ref.size (.call args) = 1 + Ref.size.sizeList args := by
  simp [Ref.size]
theorem sizeList_nil : Ref.size.sizeList [] = 0 := by simp [Ref.size.sizeList]
theorem sizeList_cons (a : Ref) (rest : List Ref) :
    Ref.size.sizeList (a :: rest) = Ref.size a + Ref.size.sizeList rest := by
  simp [Ref.size.sizeList]

theorem size_nest (d : Nat) : (nestRef d).size = d + 1 := by
  induction d with
  | zero => simp [nestRef, size_name]
  | succ d ih => simp [nestRef, size_call, sizeList_cons, sizeList_nil, ih]; omega

/-- GENERAL polynomial bound (every reference, any nesting, any number of arguments): the cost is
    LINEAR IN THE SIZE of the reference: at most 31 calls per name or call node -/
theorem refCalls_linear_in_size : ∀ r : Ref, refCalls r + 14 ≤ 31 * r.size := by
  intro r
  induction r using Ref.rec (motive_2 := fun args =>
      altCalls.argsCalls args ≤ 31 * Ref.size.sizeList args) with
  | name => simp [refCalls, altCalls_name, size_name]
  | call args ih =>
    rw [size_call]; simp only [refCalls, altCalls_call]; omega
  | nil => simp [argsCalls_nil, sizeList_nil]
  | cons a rest iha ihr =>
    rw [argsCalls_cons, sizeList_cons]
    simp only [refCalls] at iha
    omega

/-- … and no cheaper than 10 calls per node: the bound is tight up to the constant -/
theorem refCalls_ge_size : ∀ r : Ref, refCalls r ≥ 10 * r.size := by
  intro r
  induction r using Ref.rec (motive_2 := fun args =>
      altCalls.argsCalls args ≥ 10 * Ref.size.sizeList args) with
  | name => simp [refCalls, altCalls_name, size_name]
  | call args ih =>
    rw [size_call]; simp only [refCalls, altCalls_call]; omega
  | nil => simp [argsCalls_nil, sizeList_nil]
  | cons a rest iha ihr =>
    rw [argsCalls_cons, sizeList_cons]
    simp only [refCalls] at iha
    omega

-- non-vacuity: `f2(f1(x))` has 3 nodes and costs 73 ≤ 93 − 14 calls
example : (nestRef 2).size = 3 ∧ refCalls (nestRef 2) = 73 := by decide

/-! ## 2. non-nested argument lists: linear -/

theorem argsCalls_replicate_name (n : Nat) :
    altCalls.argsCalls (List.replicate n .name) = 25 * n := by
  induction n with
  | zero => simp [argsCalls_nil]
  | succ n ih => simp [List.replicate_succ, argsCalls_cons, altCalls_name, ih]; omega

theorem refCalls_flat : ∀ n, refCalls (flatRef n) = 17 + 25 * n := by
  intro n; simp [flatRef, refCalls, altCalls_call, argsCalls_replicate_name]; omega

theorem refCalls_flat_linear : ∀ n, refCalls (flatRef n) ≤ 25 * (n + 1) := by
  intro n; rw [refCalls_flat]; omega

/-- nesting depth: `x` ↦ 0, `f(args)` ↦ 1 + the deepest argument -/
def Ref.depth : Ref → Nat
  | .name => 0
  | .call args => 1 + depthList args
where
  depthList : List Ref → Nat
    | [] => 0
    | a :: rest => max (Ref.depth a) (depthList rest)

/-- number of arguments of the outermost reference -/
def Ref.nargs : Ref → Nat
  | .name => 0
  | .call args => args.length

theorem depth_name : Ref.depth .name = 0 := by simp [Ref.depth]
theorem depth_call (args : List Ref) : Ref.depth (.call args) = 1 + Ref.depth.depthList args := by
  simp [Ref.depth]
theorem depthList_nil : Ref.depth.depthList [] = 0 := by simp [Ref.depth.depthList]
theorem depthList_cons (a : Ref) (rest : List Ref) :
    Ref.depth.depthList (a :: rest) = max (Ref.depth a) (Ref.depth.depthList rest) := by
  simp [Ref.depth.depthList]

theorem depth_nest (d : Nat) : (nestRef d).depth = d := by
  induction d with
  | zero => simp [nestRef, depth_name]
  | succ d ih => simp [nestRef, depth_call, depthList_cons, depthList_nil, ih]; omega

theorem depth_eq_zero {r : Ref} (h : r.depth = 0) : r = .name := by
  cases r with
  | name => rfl
  | call args => simp [depth_call] at h

/-- a reference of depth ≤ 1 is `x` or `f(x, …, x)` -/
theorem argsCalls_of_depthList_zero (args : List Ref) (h : Ref.depth.depthList args = 0) :
    altCalls.argsCalls args = 25 * args.length := by
  induction args with
  | nil => simp [argsCalls_nil]
  | cons a rest ih =>
    rw [depthList_cons] at h
    have ha : a.depth = 0 := by omega
    have hr : Ref.depth.depthList rest = 0 := by omega
    rw [argsCalls_cons, depth_eq_zero ha, altCalls_name, ih hr]; simp; omega

/-- linear bound for NON-nested argument lists: every reference of nesting depth ≤ 1 costs at most
    `25·(nargs + 1)` calls (exactly `11` for a name, `17 + 25·nargs` for a reference) -/
theorem refCalls_shallow_linear (r : Ref) (h : r.depth ≤ 1) : refCalls r ≤ 25 * (r.nargs + 1) := by
  cases r with
  | name => simp [refCalls, altCalls_name, Ref.nargs]
  | call args =>
    rw [depth_call] at h
    have h0 : Ref.depth.depthList args = 0 := by omega
    simp [refCalls, altCalls_call, argsCalls_of_depthList_zero args h0, Ref.nargs]; omega

theorem refCalls_shallow_exact (args : List Ref) (h : (Ref.call args).depth ≤ 1) :
    refCalls (.call args) = 17 + 25 * args.length := by
  rw [depth_call] at h
  have h0 : Ref.depth.depthList args = 0 := by omega
  simp [refCalls, altCalls_call, argsCalls_of_depthList_zero args h0]; omega

-- non-vacuity: `f(x, x, x)` has depth 1, three arguments, and costs 92 ≤ 100 calls
example : (flatRef 3).depth ≤ 1 ∧ (flatRef 3).nargs = 3 ∧ refCalls (flatRef 3) = 92 := by decide
example : (Ref.call [.name, .name]).depth ≤ 1 := by decide

/-! ## 3. the COUNTER-FACTUAL: the code before /repo 2a636f5 doubles (what the repair removed) -/


theorem altCallsOld_name : altCallsOld .name = 10 := by simp [altCallsOld]

theorem altCallsOld_call (args : List Ref) :
    altCallsOld (.call args) = 20 + 2 * altCallsOld.argsCallsOld args := by
  simp [altCallsOld]; omega

theorem argsCallsOld_nil : altCallsOld.argsCallsOld [] = 0 := by simp [altCallsOld.argsCallsOld]

theorem argsCallsOld_cons (a : Ref) (rest : List Ref) :
    altCallsOld.argsCallsOld (a :: rest) = 15 + altCallsOld a + altCallsOld.argsCallsOld rest := by
  simp [altCallsOld.argsCallsOld]

theorem argsCallsOld_append (l₁ l₂ : List Ref) :
    altCallsOld.argsCallsOld (l₁ ++ l₂) = altCallsOld.argsCallsOld l₁ + altCallsOld.argsCallsOld l₂ := by
  induction l₁ with
  | nil => simp [argsCallsOld_nil]
  | cons a l ih => simp [argsCallsOld_cons, ih]; omega

/-- a reference with the single argument `a` costs twice `a` plus 49 -/
theorem refCallsOld_call_single (a : Ref) : refCallsOld (.call [a]) = 2 * refCallsOld a + 49 := by
  simp [refCallsOld, altCallsOld_call, argsCallsOld_cons, argsCallsOld_nil]; omega

/-- `T(d+1) = 2·T(d) + 49` -/
theorem refCallsOld_nest_succ : ∀ d, refCallsOld (nestRef (d+1)) = 2 * refCallsOld (nestRef d) + 49 := by
  intro d; simp [nestRef, refCallsOld_call_single]

theorem refCallsOld_nest_zero : refCallsOld (nestRef 0) = 11 := by
  simp [nestRef, refCallsOld, altCallsOld_name]

/-- `T(d) = 60·2^d − 49` -/
theorem refCallsOld_nest_closed : ∀ d, refCallsOld (nestRef d) + 49 = 60 * 2 ^ d := by
  intro d
  induction d with
  | zero => simp [refCallsOld_nest_zero]
  | succ d ih => rw [refCallsOld_nest_succ, Nat.pow_succ]; omega

theorem refCallsOld_nest_doubles : ∀ d, refCallsOld (nestRef (d+1)) ≥ 2 * refCallsOld (nestRef d) := by
  intro d; rw [refCallsOld_nest_succ]; omega

theorem refCallsOld_nest_exponential : ∀ d, refCallsOld (nestRef d) ≥ 2 ^ d := by
  intro d
  have h := refCallsOld_nest_closed d
  have h2 : 2 ^ d ≥ 1 := Nat.one_le_two_pow
  omega

/-- the measured series -/
theorem refCallsOld_nest_values :
    (List.range 8).map (fun d => refCallsOld (nestRef d)) = [11, 71, 191, 431, 911, 1871, 3791, 7631] := by
  decide

private theorem four_mul_sq_lt (k : Nat) : 4 * k * k < 2 ^ (4 * k) := by
  have h1 : 2 * k < 2 ^ (2 * k) := Nat.lt_two_pow_self
  have h2 : (2 * k) * (2 * k) < 2 ^ (2 * k) * 2 ^ (2 * k) := Nat.mul_lt_mul'' h1 h1
  have h3 : 2 ^ (2 * k) * 2 ^ (2 * k) = 2 ^ (4 * k) := by rw [← Nat.pow_add]; congr 1; omega
  have h4 : (2 * k) * (2 * k) = 4 * k * k := by
    rw [Nat.mul_mul_mul_comm]; simp [Nat.mul_assoc]
  omega

/-- NOT polynomial: for every exponent `k` some depth `d` costs more than `d ^ k` -/
theorem refCallsOld_nest_not_polynomial : ∀ k : Nat, ∃ d, refCallsOld (nestRef d) > d ^ k := by
  intro k
  refine ⟨2 ^ (4 * k), ?_⟩
  have h1 : (2 ^ (4 * k)) ^ k = 2 ^ (4 * k * k) := by rw [← Nat.pow_mul]
  have h2 : 2 ^ (4 * k * k) < 2 ^ (2 ^ (4 * k)) :=
    Nat.pow_lt_pow_right (by omega) (four_mul_sq_lt k)
  have h3 := refCallsOld_nest_exponential (2 ^ (4 * k))
  omega

/-- GENERAL exponential lower bound: a reference of nesting depth `d` costs at least `2^d` calls,
    whatever its other arguments are -/
theorem refCallsOld_ge_two_pow_depth : ∀ r : Ref, refCallsOld r ≥ 2 ^ r.depth := by
  intro r
  induction r using Ref.rec (motive_2 := fun args =>
      2 * altCallsOld.argsCallsOld args + 2 ≥ 2 ^ (1 + Ref.depth.depthList args)) with
  | name => simp [refCallsOld, depth_name]
  | call args ih =>
    rw [depth_call]; simp only [refCallsOld, altCallsOld_call]; omega
  | nil => simp [argsCallsOld_nil, depthList_nil]
  | cons a rest iha ihr =>
    rw [argsCallsOld_cons, depthList_cons]
    simp only [refCallsOld] at iha
    rcases Nat.le_total a.depth (Ref.depth.depthList rest) with h | h
    · rw [Nat.max_eq_right h]; omega
    · rw [Nat.max_eq_left h, Nat.pow_add]; simp; omega


/-- the repair in one line: from depth 1 on the old code made strictly more calls, and the gap grows
    without bound (`60·2^d − 49` against `11 + 31·d`) -/
theorem refCallsOld_gt_refCalls : ∀ d, d ≥ 1 → refCallsOld (nestRef d) > refCalls (nestRef d) := by
  intro d hd
  have h1 := refCallsOld_nest_closed d
  have h2 := refCalls_nest_closed d
  have h3 : 2 ^ d ≥ d + 1 := Nat.lt_two_pow_self
  have h4 : 2 ^ d ≥ 2 := by
    calc 2 ^ d ≥ 2 ^ 1 := Nat.pow_le_pow_right (by omega) hd
      _ = 2 := rfl
  omega

theorem refCalls_le_refCallsOld : ∀ r : Ref, refCalls r ≤ refCallsOld r := by
  intro r
  induction r using Ref.rec (motive_2 := fun args =>
      altCalls.argsCalls args ≤ altCallsOld.argsCallsOld args) with
  | name => simp [refCalls, refCallsOld, altCalls_name, altCallsOld_name]
  | call args ih =>
    simp only [refCalls, refCallsOld, altCalls_call, altCallsOld_call]; omega
  | nil => simp [argsCalls_nil, argsCallsOld_nil]
  | cons a rest iha ihr =>
    rw [argsCalls_cons, argsCallsOld_cons]
    simp only [refCalls, refCallsOld] at iha
    omega

/-! ## 4. the tie: shape models = string-level mirrors of `Base.__new__`, by kernel evaluation

The configuration is the real one: the subclass table read from `Generated/Classes2003.lean`, the
intrinsic tables of `Generated/Intrinsics.lean` with no scoping region (`ivNoScope`), and the
expression chain above the layer (`chainExt`, `d+1` levels are enough for `d` nested references). -/

/-- the real Fortran-2003 `Base.subclasses` table restricted to the layer -/
abbrev T2003 : Table := tableOf (realOf .f2003) Generated.allClasses Generated.PrimaryTables.nameIds

def nestCfg (d : Nat) : Cfg :=
  { std := .f2003, iv := ivNoScope .f2003, table := T2003, ext := chainExt .f2003 (ivNoScope .f2003) T2003 (d+1) }

/-- the same over the code before 2a636f5 -/
def nestCfgOld (d : Nat) : Cfg :=
  { std := .f2003, iv := ivNoScope .f2003, table := T2003, ext := chainExtOld .f2003 (ivNoScope .f2003) T2003 (d+1) }

theorem primaryCalls_nest_0 : primaryCalls (nestCfg 0) (nestStr 0) = refCalls (nestRef 0) := by decide +kernel
theorem primaryCalls_nest_1 : primaryCalls (nestCfg 1) (nestStr 1) = refCalls (nestRef 1) := by decide +kernel
theorem primaryCalls_nest_2 : primaryCalls (nestCfg 2) (nestStr 2) = refCalls (nestRef 2) := by decide +kernel
theorem primaryCalls_nest_3 : primaryCalls (nestCfg 3) (nestStr 3) = refCalls (nestRef 3) := by decide +kernel
theorem primaryCalls_nest_4 : primaryCalls (nestCfg 4) (nestStr 4) = refCalls (nestRef 4) := by decide +kernel

/-- the texts and the absolute numbers (as measured on the real parser at 2a636f5) -/
theorem primaryCalls_nest_values :
    nestStr 0 = "x".toList ∧ nestStr 1 = "f1(x)".toList ∧ nestStr 2 = "f2(f1(x))".toList ∧
    nestStr 3 = "f3(f2(f1(x)))".toList ∧
    primaryCalls (nestCfg 0) "x".toList = 11 ∧ primaryCalls (nestCfg 1) "f1(x)".toList = 42 ∧
    primaryCalls (nestCfg 2) "f2(f1(x))".toList = 73 ∧ primaryCalls (nestCfg 3) "f3(f2(f1(x)))".toList = 104 := by
  decide +kernel

theorem primaryCalls_flat_1 : primaryCalls (nestCfg 1) "f(x)".toList = refCalls (flatRef 1) := by decide +kernel
theorem primaryCalls_flat_2 : primaryCalls (nestCfg 1) "f(x, x)".toList = refCalls (flatRef 2) := by decide +kernel
theorem primaryCalls_flat_3 : primaryCalls (nestCfg 1) "f(x, x, x)".toList = refCalls (flatRef 3) := by decide +kernel

/-- LIMIT of the shape model: `flatRef 0` is NOT the text `f()` — `Part_Ref` refuses an empty
    subscript list, `f()` goes on to `Structure_Constructor` and costs 27 calls (real parser: 27;
    33 before 2a636f5) -/
theorem primaryCalls_flat_0_differs :
    primaryCalls (nestCfg 1) "f()".toList = 27 ∧ refCalls (flatRef 0) = 17 ∧
    primaryCallsOld (nestCfgOld 1) "f()".toList = 33 := by decide +kernel

/-- the second argument of `chainExt` only has to be LARGE ENOUGH: more levels give the same count -/
theorem primaryCalls_nest_2_more_levels : primaryCalls (nestCfg 5) (nestStr 2) = refCalls (nestRef 2) := by
  decide +kernel

/-- the nested result is a `Part_Ref` (the subclass loop of `Data_Ref` answers) — the SAME tree as
    before the repair -/
theorem construct_nest_2_shape :
    ((construct (nestCfg 2) C.Primary (nestStr 2)).res.map (·.shape)) =
      .ok "Part_Ref(Name('f2'), Section_Subscript_List(Part_Ref(Name('f1'), Section_Subscript_List(Name('x')))))".toList ∧
    (constructOld (nestCfgOld 2) C.Primary (nestStr 2)).res = (construct (nestCfg 2) C.Primary (nestStr 2)).res := by
  decide +kernel

/-- COUNTER-FACTUAL tie: the string-level model of the OLD code (`newOld`) doubles exactly as
    `refCallsOld` says: 11, 71, 191, 431 -/
theorem primaryCallsOld_nest_0 : primaryCallsOld (nestCfgOld 0) (nestStr 0) = refCallsOld (nestRef 0) := by decide +kernel
theorem primaryCallsOld_nest_1 : primaryCallsOld (nestCfgOld 1) (nestStr 1) = refCallsOld (nestRef 1) := by decide +kernel
theorem primaryCallsOld_nest_2 : primaryCallsOld (nestCfgOld 2) (nestStr 2) = refCallsOld (nestRef 2) := by decide +kernel
theorem primaryCallsOld_nest_3 : primaryCallsOld (nestCfgOld 3) (nestStr 3) = refCallsOld (nestRef 3) := by decide +kernel

theorem primaryCallsOld_nest_values :
    primaryCallsOld (nestCfgOld 0) "x".toList = 11 ∧ primaryCallsOld (nestCfgOld 1) "f1(x)".toList = 71 ∧
    primaryCallsOld (nestCfgOld 2) "f2(f1(x))".toList = 191 ∧
    primaryCallsOld (nestCfgOld 3) "f3(f2(f1(x)))".toList = 431 := by
  decide +kernel

#print axioms refCalls_nest_succ
#print axioms refCalls_nest_closed
#print axioms refCalls_nest_linear
#print axioms refCalls_linear_in_size
#print axioms refCalls_ge_size
#print axioms refCalls_flat
#print axioms refCalls_flat_linear
#print axioms refCalls_shallow_linear
#print axioms refCalls_shallow_exact
#print axioms refCallsOld_nest_succ
#print axioms refCallsOld_nest_closed
#print axioms refCallsOld_nest_doubles
#print axioms refCallsOld_nest_exponential
#print axioms refCallsOld_nest_not_polynomial
#print axioms refCallsOld_ge_two_pow_depth
#print axioms refCallsOld_gt_refCalls
#print axioms refCalls_le_refCallsOld
#print axioms primaryCalls_nest_0
#print axioms primaryCalls_nest_1
#print axioms primaryCalls_nest_2
#print axioms primaryCalls_nest_3
#print axioms primaryCalls_nest_4
#print axioms primaryCalls_nest_values
#print axioms primaryCalls_flat_1
#print axioms primaryCalls_flat_2
#print axioms primaryCalls_flat_3
#print axioms primaryCalls_flat_0_differs
#print axioms construct_nest_2_shape
#print axioms primaryCallsOld_nest_0
#print axioms primaryCallsOld_nest_1
#print axioms primaryCallsOld_nest_2
#print axioms primaryCallsOld_nest_3
#print axioms primaryCallsOld_nest_values

end Fp.Primary
