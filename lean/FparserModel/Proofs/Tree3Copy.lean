import FparserModel.Tree3
import FparserModel.Proofs.TreeFrontier
/-!
# `copy.deepcopy` started at ANY node: memoised DFS over children and `parent` (helper lemmas, C18)

No tree hypothesis is needed for the copy itself: for any set `C` of nodes closed under the
child and parent references, all of whose classes support the protocol, the copy started at a
node of `C` succeeds (the built-in fuel is enough) and every memo entry `(x, y)` ends up
filled with the renamed copy of `x`, all its references resolved in the memo.
-/
namespace Fp.Tree3
open Fp.Tree

/-- the renaming a memo induces -/
def phi (m : List (Nat × Nat)) (n : Nat) : Nat := (memoGet m n).getD 0

theorem memoGet_ext (m e : List (Nat × Nat)) (k y : Nat) (h : memoGet m k = some y) :
    memoGet (m ++ e) k = some y := by
  unfold memoGet at *
  induction m with
  | nil => simp [Registry.nGet] at h
  | cons p m ih =>
    obtain ⟨k', v⟩ := p
    simp only [List.cons_append, Registry.nGet] at h ⊢
    by_cases hk : (k' == k) = true
    · simpa [hk] using h
    · simp only [hk] at h ⊢
      exact ih h

theorem memoGet_none_of_ext (m e : List (Nat × Nat)) (k : Nat) (h : memoGet (m ++ e) k = none) :
    memoGet m k = none := by
  cases hm : memoGet m k with
  | none => rfl
  | some y => rw [memoGet_ext m e k y hm] at h; cases h

theorem memoGet_index (m : List (Nat × Nat)) (k y : Nat) (h : memoGet m k = some y) :
    ∃ i : Nat, m[i]? = some (k, y) := by
  unfold memoGet at h
  induction m with
  | nil => simp [Registry.nGet] at h
  | cons p m ih =>
    obtain ⟨k', v⟩ := p
    simp only [Registry.nGet] at h
    by_cases hk : (k' == k) = true
    · simp only [hk, if_true, Option.some.injEq] at h
      have : k' = k := by simpa using hk
      exact ⟨0, by simp [this, h]⟩
    · simp only [hk] at h
      obtain ⟨i, hi⟩ := ih h
      exact ⟨i + 1, by simpa using hi⟩

mutual
theorem mapItem_congr (f g : Nat → Nat) : ∀ it : Item, (∀ k ∈ spItem it, f k = g k) → mapItem f it = mapItem g it
  | .node id, h => by simp only [mapItem]; rw [h id (by simp [spItem])]
  | .tup xs, h => by simp only [mapItem]; rw [mapItems_congr f g xs (by simpa [spItem] using h)]
  | .lst xs, h => by simp only [mapItem]; rw [mapItems_congr f g xs (by simpa [spItem] using h)]
  | .str _, _ => rfl
  | .none, _ => rfl
  | .other _, _ => rfl
theorem mapItems_congr (f g : Nat → Nat) : ∀ l : List Item, (∀ k ∈ spList l, f k = g k) → mapItems f l = mapItems g l
  | [], _ => rfl
  | x :: xs, h => by
    simp only [mapItems]
    rw [mapItem_congr f g x (fun k hk => h k (by simp [spList, hk])),
      mapItems_congr f g xs (fun k hk => h k (by simp [spList, hk]))]
end

/-- all references of a node are resolved by the memo -/
def RefsIn (m : List (Nat × Nat)) (nd : Node) : Prop :=
  (∀ k ∈ spList nd.children, ∃ y, memoGet m k = some y) ∧ (∀ p, nd.parent = some p → ∃ y, memoGet m p = some y)

theorem phi_ext (m e : List (Nat × Nat)) (k y : Nat) (h : memoGet m k = some y) : phi (m ++ e) k = phi m k := by
  simp [phi, memoGet_ext m e k y h, h]

theorem expNode_mono (m e : List (Nat × Nat)) (nd : Node) (h : RefsIn m nd) :
    expNode (phi (m ++ e)) nd = expNode (phi m) nd ∧ RefsIn (m ++ e) nd := by
  obtain ⟨hk, hp⟩ := h
  refine ⟨?_, fun k hkm => ?_, fun p hpp => ?_⟩
  · unfold expNode
    rw [mapItems_congr (phi (m ++ e)) (phi m) nd.children (fun k hkm => by
      obtain ⟨y, hy⟩ := hk k hkm; exact phi_ext m e k y hy)]
    cases hpar : nd.parent with
    | none => rfl
    | some p =>
      obtain ⟨y, hy⟩ := hp p hpar
      simp [phi_ext m e p y hy]
  · obtain ⟨y, hy⟩ := hk k hkm; exact ⟨y, memoGet_ext m e k y hy⟩
  · obtain ⟨y, hy⟩ := hp p hpp; exact ⟨y, memoGet_ext m e p y hy⟩

/-! ## the measure -/

/-- the nodes allowed to be copied: closed under child and parent references, classes fine -/
def Closed (facts : Nat → CopyFacts) (a : Arena) (C : List Nat) : Prop :=
  ∀ z ∈ C, ∃ nd, a[z]? = some nd ∧ (facts nd.cls).ok = true
    ∧ (∀ k ∈ spList nd.children, k ∈ C) ∧ (∀ p, nd.parent = some p → p ∈ C)

/-- fuel still needed: every node of `C` not yet in the memo may cost `2 + |children|` -/
def W (a : Arena) (C : List Nat) (m : List (Nat × Nat)) : Nat :=
  (C.map fun z => if (memoGet m z).isSome then 0 else 2 + Item.sizeL (kidItems a z)).sum

theorem W_ext (a : Arena) (C : List Nat) (m e : List (Nat × Nat)) : W a C (m ++ e) ≤ W a C m := by
  unfold W
  induction C with
  | nil => simp
  | cons z C ih =>
    simp only [List.map_cons, List.sum_cons]
    have : (if (memoGet (m ++ e) z).isSome then 0 else 2 + Item.sizeL (kidItems a z))
        ≤ (if (memoGet m z).isSome then 0 else 2 + Item.sizeL (kidItems a z)) := by
      cases hm : memoGet m z with
      | none => simp; split <;> omega
      | some y => simp [memoGet_ext m e z y hm]
    omega

theorem W_add (a : Arena) (C : List Nat) (m : List (Nat × Nat)) (x y : Nat) (hx : x ∈ C)
    (hm : memoGet m x = none) :
    W a C (m ++ [(x, y)]) + (2 + Item.sizeL (kidItems a x)) ≤ W a C m := by
  induction C with
  | nil => simp at hx
  | cons z C ih =>
    have hstep : W a (z :: C) (m ++ [(x, y)])
        = (if (memoGet (m ++ [(x, y)]) z).isSome then 0 else 2 + Item.sizeL (kidItems a z)) + W a C (m ++ [(x, y)]) := by
      simp [W]
    have hstep' : W a (z :: C) m
        = (if (memoGet m z).isSome then 0 else 2 + Item.sizeL (kidItems a z)) + W a C m := by
      simp [W]
    rw [hstep, hstep']
    by_cases hz : z = x
    · subst hz
      have h1 : memoGet (m ++ [(z, y)]) z = some y := by
        rw [memoGet_append, hm]; simp
      have := W_ext a C m [(z, y)]
      simp only [h1, hm, Option.isSome_some, Option.isSome_none, if_true]
      simp only [Bool.false_eq_true, if_false]
      omega
    · have hxC : x ∈ C := by
        rcases List.mem_cons.1 hx with h | h
        · exact absurd h.symm hz
        · exact h
      have := ih hxC
      have hle : (if (memoGet (m ++ [(x, y)]) z).isSome then 0 else 2 + Item.sizeL (kidItems a z))
          ≤ (if (memoGet m z).isSome then 0 else 2 + Item.sizeL (kidItems a z)) := by
        cases hmz : memoGet m z with
        | none => simp; split <;> omega
        | some v => simp [memoGet_ext m [(x, y)] z v hmz]
      omega

theorem W_nil (a : Arena) (C : List Nat) : W a C [] = cost a 2 C := by
  simp [W, cost, memoGet, Registry.nGet]

/-! ## invariant and postcondition -/

structure MInv (C : List Nat) (base : Nat) (st : CopyState) : Prop where
  len : st.memo.length = st.out.length
  ent : ∀ i x y, st.memo[i]? = some (x, y) → y = base + i ∧ memoGet st.memo x = some y ∧ x ∈ C

structure Post (a : Arena) (C : List Nat) (base : Nat) (st st' : CopyState) : Prop where
  minv : MInv C base st'
  ext : ∃ e, st'.memo = st.memo ++ e
  frame : ∀ i, i < st.out.length → st'.out[i]? = st.out[i]?
  fill : ∀ i x y, st.out.length ≤ i → st'.memo[i]? = some (x, y) →
    ∃ nd, a[x]? = some nd ∧ st'.out[i]? = some (expNode (phi st'.memo) nd) ∧ RefsIn st'.memo nd

theorem Post.refl {a : Arena} {C : List Nat} {base : Nat} {st : CopyState} (h : MInv C base st) :
    Post a C base st st := by
  refine ⟨h, ⟨[], by simp⟩, fun _ _ => rfl, ?_⟩
  intro i x y hi hm
  have := (List.getElem?_eq_some_iff.1 hm).1
  have := h.len
  omega

theorem Post.len_le {a : Arena} {C : List Nat} {base : Nat} {st st' : CopyState}
    (h0 : MInv C base st) (h : Post a C base st st') : st.out.length ≤ st'.out.length := by
  obtain ⟨e, he⟩ := h.ext
  have h1 := h0.len
  have h2 := h.minv.len
  rw [he, List.length_append] at h2
  omega

theorem Post.trans {a : Arena} {C : List Nat} {base : Nat} {st st1 st2 : CopyState}
    (h0 : MInv C base st) (h1 : Post a C base st st1) (h2 : Post a C base st1 st2) :
    Post a C base st st2 := by
  obtain ⟨e1, he1⟩ := h1.ext
  obtain ⟨e2, he2⟩ := h2.ext
  have hl1 := Post.len_le h0 h1
  refine ⟨h2.minv, ⟨e1 ++ e2, by rw [he2, he1, List.append_assoc]⟩, ?_, ?_⟩
  · intro i hi
    rw [h2.frame i (by omega), h1.frame i hi]
  · intro i x y hi hm
    by_cases hlt : i < st1.out.length
    · have hm1 : st1.memo[i]? = some (x, y) := by
        rw [he2, List.getElem?_append_left (by rw [h1.minv.len]; exact hlt)] at hm
        exact hm
      obtain ⟨nd, hnd, hout, hrefs⟩ := h1.fill i x y hi hm1
      have := expNode_mono st1.memo e2 nd hrefs
      refine ⟨nd, hnd, ?_, by rw [he2]; exact this.2⟩
      rw [h2.frame i hlt, hout, he2, this.1]
    · exact h2.fill i x y (by omega) hm

/-! ## the copy -/

section
variable (facts : Nat → CopyFacts) (a : Arena) (C : List Nat) (base : Nat)

def CN (fuel : Nat) : Prop :=
  ∀ x st, MInv C base st → x ∈ C → 1 + W a C st.memo ≤ fuel →
    ∃ y st', copyNode facts a base fuel x st = .ok (y, st') ∧ Post a C base st st'
      ∧ memoGet st'.memo x = some y ∧ (memoGet st.memo x = none → y = base + st.out.length)

def CI (fuel : Nat) : Prop :=
  ∀ items st, MInv C base st → (∀ k ∈ spList items, k ∈ C) →
    1 + Item.sizeL items + W a C st.memo ≤ fuel →
    ∃ st', copyItems facts a base fuel items st = .ok (mapItems (phi st'.memo) items, st')
      ∧ Post a C base st st' ∧ ∀ k ∈ spList items, ∃ y, memoGet st'.memo k = some y

variable (hC : Closed facts a C)
include hC

theorem W_le_of_post {st st' : CopyState} (h : Post a C base st st') : W a C st'.memo ≤ W a C st.memo := by
  obtain ⟨e, he⟩ := h.ext
  rw [he]; exact W_ext a C st.memo e

theorem cn_step (f : Nat) (ihN : CN facts a C base f) (ihI : CI facts a C base f) :
    CN facts a C base (f + 1) := by
  intro x st hinv hx hfuel
  cases hmemo : memoGet st.memo x with
  | some y =>
    refine ⟨y, st, ?_, Post.refl hinv, hmemo, fun h => by cases h⟩
    rw [copyNode]; simp only [hmemo]
  | none =>
    obtain ⟨nd, hnd, hok, hkC, hpC⟩ := hC x hx
    unfold CopyFacts.ok at hok
    have h1 : ((facts nd.cls).argsNeedString && !(facts nd.cls).hasString) = false := by
      cases h3 : (facts nd.cls).argsNeedString <;> cases h4 : (facts nd.cls).hasString <;> simp_all
    have h2 : (facts nd.cls).newAccepts = true := by
      cases h3 : (facts nd.cls).newAccepts <;> simp_all
    let y := base + st.out.length
    let st1 : CopyState := { memo := st.memo ++ [(x, y)], out := st.out ++ [{ cls := nd.cls }] }
    have hinv1 : MInv C base st1 := by
      refine ⟨by simp [st1, hinv.len], ?_⟩
      intro i x' y' hi
      by_cases hlt : i < st.memo.length
      · have hi' : st.memo[i]? = some (x', y') := by
          simpa [st1, List.getElem?_append_left hlt] using hi
        obtain ⟨e1, e2, e3⟩ := hinv.ent i x' y' hi'
        exact ⟨e1, memoGet_ext _ _ _ _ e2, e3⟩
      · have hil := (List.getElem?_eq_some_iff.1 hi).1
        have hi_eq : i = st.memo.length := by
          simp [st1] at hil; omega
        subst hi_eq
        have : (x', y') = (x, y) := by
          simpa [st1] using hi.symm
        cases this
        refine ⟨by simp [y, hinv.len], ?_, hx⟩
        show memoGet (st.memo ++ [(x, y)]) x = some y
        rw [memoGet_append, hmemo]; simp
    have hW1 := W_add a C st.memo x y hx hmemo
    have hkid : kidItems a x = nd.children := by simp [kidItems, hnd]
    rw [hkid] at hW1
    obtain ⟨st2, hc2, hpost2, hres2⟩ := ihI nd.children st1 hinv1 hkC (by
      show 1 + Item.sizeL nd.children + W a C (st.memo ++ [(x, y)]) ≤ f
      omega)
    have hW2 : W a C st2.memo ≤ W a C (st.memo ++ [(x, y)]) := W_le_of_post facts a C base hC hpost2
    have hyb : base + st.out.length - base = st.out.length := by omega
    have hlen1 : st1.out.length = st.out.length + 1 := by simp [st1]
    have hmx1 : memoGet st1.memo x = some y := by
      show memoGet (st.memo ++ [(x, y)]) x = some y
      rw [memoGet_append, hmemo]; simp
    -- what remains once the parent has been copied (state `st3`, copy `p'`)
    have fin : ∀ (p' : Option Nat) (st3 : CopyState), Post a C base st2 st3 →
        p' = nd.parent.map (phi st3.memo) →
        (∀ p, nd.parent = some p → ∃ v, memoGet st3.memo p = some v) →
        Post a C base st
          { memo := st3.memo
            out := st3.out.modify (base + st.out.length - base) (fun _ =>
              { cls := nd.cls, children := mapItems (phi st2.memo) nd.children, parent := p' }) }
        ∧ memoGet st3.memo x = some y := by
      intro p' st3 hpost3 hp' hpres
      have hpost13 : Post a C base st1 st3 := Post.trans hinv1 hpost2 hpost3
      obtain ⟨e13, he13⟩ := hpost13.ext
      obtain ⟨e23, he23⟩ := hpost3.ext
      have hlen3 : st1.out.length ≤ st3.out.length := Post.len_le hinv1 hpost13
      have hmx3 : memoGet st3.memo x = some y := by
        rw [he13]; exact memoGet_ext _ _ _ _ hmx1
      refine ⟨⟨⟨by simp [hpost13.minv.len], hpost13.minv.ent⟩, ?_, ?_, ?_⟩, hmx3⟩
      · exact ⟨[(x, y)] ++ e13, by simp [he13, st1]⟩
      · intro i hi
        simp only [hyb, List.getElem?_modify]
        have hne : st.out.length ≠ i := by omega
        simp only [hne, if_false]
        rw [hpost13.frame i (by omega)]
        simp only [st1, List.getElem?_append_left hi]
        cases st.out[i]? <;> rfl
      · intro i x' y' hi hm
        simp only [] at hm
        by_cases hik : st.out.length = i
        · subst hik
          have hm1 : st3.memo[st.out.length]? = some (x, y) := by
            rw [he13, List.getElem?_append_left (by simp [st1, hinv.len])]
            simp [st1, hinv.len]
          rw [hm1] at hm
          cases hm
          refine ⟨nd, hnd, ?_, ?_, hpres⟩
          · simp only [hyb, List.getElem?_modify]
            have hlt : st.out.length < st3.out.length := by omega
            simp only [List.getElem?_eq_getElem hlt, if_true]
            have hkids : mapItems (phi st2.memo) nd.children = mapItems (phi st3.memo) nd.children := by
              apply mapItems_congr
              intro k hk
              obtain ⟨v, hv⟩ := hres2 k hk
              rw [he23, phi_ext st2.memo e23 k v hv]
            simp only [expNode, hkids, hp']
            rfl
          · intro k hk
            obtain ⟨v, hv⟩ := hres2 k hk
            exact ⟨v, by rw [he23]; exact memoGet_ext _ _ _ _ hv⟩
        · obtain ⟨nd', hnd', hout', hrefs'⟩ := hpost13.fill i x' y' (by omega) hm
          refine ⟨nd', hnd', ?_, hrefs'⟩
          simp only [hyb, List.getElem?_modify, hik, if_false]
          rw [hout']; rfl
    have hc2' : copyItems facts a base f nd.children
        { memo := st.memo ++ [(x, base + st.out.length)], out := st.out ++ [{ cls := nd.cls }] }
        = .ok (mapItems (phi st2.memo) nd.children, st2) := hc2
    rw [copyNode]
    simp only [hmemo, hnd, h1, h2, Bool.false_eq_true, if_false, Bool.not_true, hc2']
    cases hp : nd.parent with
    | none =>
      simp only []
      obtain ⟨hpost, hm⟩ := fin none st2 (Post.refl hpost2.minv) (by simp [hp]) (fun p h => by rw [hp] at h; cases h)
      exact ⟨_, _, rfl, hpost, hm, fun _ => rfl⟩
    | some p =>
      obtain ⟨p', st3, hc3, hpost3, hm3, _⟩ := ihN p st2 hpost2.minv (hpC p hp) (by omega)
      simp only [hc3]
      obtain ⟨hpost, hm⟩ := fin (some p') st3 hpost3 (by simp [hp, phi, hm3])
        (fun q hq => by rw [hp] at hq; cases hq; exact ⟨p', hm3⟩)
      exact ⟨_, _, rfl, hpost, hm, fun _ => rfl⟩

theorem ci_step (f : Nat) (ihN : CN facts a C base f) (ihI : CI facts a C base f) :
    CI facts a C base (f + 1) := by
  intro items st hinv hkC hfuel
  cases items with
  | nil =>
    refine ⟨st, ?_, Post.refl hinv, fun k hk => by simp [spList] at hk⟩
    rw [copyItems]; rfl
  | cons it rest =>
    simp only [Item.sizeL] at hfuel
    have hs := size_pos it
    have tail : ∀ st1, Post a C base st st1 →
        ∃ st2, copyItems facts a base f rest st1 = .ok (mapItems (phi st2.memo) rest, st2)
          ∧ Post a C base st st2 ∧ (∃ e, st2.memo = st1.memo ++ e)
          ∧ ∀ k ∈ spList rest, ∃ y, memoGet st2.memo k = some y := by
      intro st1 hp1
      have hW := W_le_of_post facts a C base hC hp1
      obtain ⟨st2, hc, hp2, hres⟩ := ihI rest st1 hp1.minv
        (fun k hk => hkC k (by simp [spList, hk])) (by omega)
      exact ⟨st2, hc, Post.trans hinv hp1 hp2, hp2.ext, hres⟩
    cases it with
    | node id =>
      simp only [Item.size] at hfuel
      obtain ⟨y, st1, hc1, hp1, hm1, _⟩ := ihN id st hinv (hkC id (by simp [spList, spItem])) (by omega)
      obtain ⟨st2, hc2, hp2, ⟨e, he⟩, hres2⟩ := tail st1 hp1
      have hm2 : memoGet st2.memo id = some y := by rw [he]; exact memoGet_ext _ _ _ _ hm1
      refine ⟨st2, ?_, hp2, ?_⟩
      · rw [copyItems]
        simp only [hc1, hc2]
        simp [mapItems, mapItem, phi, hm2]
      · intro k hk
        simp only [spList, spItem, List.cons_append, List.nil_append, List.mem_cons] at hk
        rcases hk with rfl | hk
        · exact ⟨y, hm2⟩
        · exact hres2 k hk
    | tup xs =>
      simp only [Item.size] at hfuel
      obtain ⟨st1, hc1, hp1, hres1⟩ := ihI xs st hinv
        (fun k hk => hkC k (by simp [spList, spItem, hk])) (by omega)
      obtain ⟨st2, hc2, hp2, ⟨e, he⟩, hres2⟩ := tail st1 hp1
      have hxs : mapItems (phi st1.memo) xs = mapItems (phi st2.memo) xs := by
        apply mapItems_congr
        intro k hk
        obtain ⟨v, hv⟩ := hres1 k hk
        rw [he, phi_ext st1.memo e k v hv]
      refine ⟨st2, ?_, hp2, ?_⟩
      · rw [copyItems]
        simp only [hc1, hc2]
        simp [mapItems, mapItem, hxs]
      · intro k hk
        simp only [spList, spItem, List.mem_append] at hk
        rcases hk with hk | hk
        · obtain ⟨v, hv⟩ := hres1 k hk
          exact ⟨v, by rw [he]; exact memoGet_ext _ _ _ _ hv⟩
        · exact hres2 k hk
    | lst xs =>
      simp only [Item.size] at hfuel
      obtain ⟨st1, hc1, hp1, hres1⟩ := ihI xs st hinv
        (fun k hk => hkC k (by simp [spList, spItem, hk])) (by omega)
      obtain ⟨st2, hc2, hp2, ⟨e, he⟩, hres2⟩ := tail st1 hp1
      have hxs : mapItems (phi st1.memo) xs = mapItems (phi st2.memo) xs := by
        apply mapItems_congr
        intro k hk
        obtain ⟨v, hv⟩ := hres1 k hk
        rw [he, phi_ext st1.memo e k v hv]
      refine ⟨st2, ?_, hp2, ?_⟩
      · rw [copyItems]
        simp only [hc1, hc2]
        simp [mapItems, mapItem, hxs]
      · intro k hk
        simp only [spList, spItem, List.mem_append] at hk
        rcases hk with hk | hk
        · obtain ⟨v, hv⟩ := hres1 k hk
          exact ⟨v, by rw [he]; exact memoGet_ext _ _ _ _ hv⟩
        · exact hres2 k hk
    | str s0 =>
      obtain ⟨st2, hc2, hp2, _, hres2⟩ := tail st (Post.refl hinv)
      refine ⟨st2, ?_, hp2, fun k hk => hres2 k (by simpa [spList, spItem] using hk)⟩
      rw [copyItems]
      · simp only [hc2]
        simp [mapItems, mapItem]
      all_goals (intro _ hh; cases hh)
    | none =>
      obtain ⟨st2, hc2, hp2, _, hres2⟩ := tail st (Post.refl hinv)
      refine ⟨st2, ?_, hp2, fun k hk => hres2 k (by simpa [spList, spItem] using hk)⟩
      rw [copyItems]
      · simp only [hc2]
        simp [mapItems, mapItem]
      all_goals (intro _ hh; cases hh)
    | other b =>
      obtain ⟨st2, hc2, hp2, _, hres2⟩ := tail st (Post.refl hinv)
      refine ⟨st2, ?_, hp2, fun k hk => hres2 k (by simpa [spList, spItem] using hk)⟩
      rw [copyItems]
      · simp only [hc2]
        simp [mapItems, mapItem]
      all_goals (intro _ hh; cases hh)

theorem copy_all3 : ∀ f, CN facts a C base f ∧ CI facts a C base f := by
  intro f
  induction f with
  | zero =>
    constructor
    · intro x st _ _ hfuel; omega
    · intro items st _ _ hfuel; omega
  | succ f ih =>
    exact ⟨cn_step facts a C base hC f ih.1 ih.2, ci_step facts a C base hC f ih.1 ih.2⟩

/-- **the copy of a closed set of nodes** (any graph): started at `n ∈ C` with an empty memo and
    the fuel built into `deepcopy`, the copy succeeds; the start node gets the first new id;
    every memo entry is a node of `C`, numbered in allocation order, and is filled with its
    renamed copy, all references resolved. -/
theorem copy_graph (hnd : C.Nodup) (n : Nat) (hn : n ∈ C) :
    ∃ st, copyNode facts a a.length (2 * arenaFuel a + 2) n {} = .ok (a.length, st)
      ∧ MInv C a.length st ∧ memoGet st.memo n = some a.length
      ∧ ∀ (i x y : Nat), st.memo[i]? = some (x, y) →
          ∃ nd, a[x]? = some nd ∧ st.out[i]? = some (expNode (phi st.memo) nd) ∧ RefsIn st.memo nd := by
  have hlt : ∀ z ∈ C, z < a.length := by
    intro z hz
    obtain ⟨nd, hnd', _⟩ := hC z hz
    by_contra hge
    have : a[z]? = none := by simp; omega
    rw [this] at hnd'; cases hnd'
  have hcost := cost_le a 2 C hnd hlt
  have hinv0 : MInv C a.length ({} : CopyState) := ⟨rfl, fun i x y h => by simp at h⟩
  obtain ⟨y, st, hc, hpost, hm, hy⟩ := (copy_all3 facts a C a.length hC (2 * arenaFuel a + 2)).1 n {} hinv0 hn (by
    show 1 + W a C [] ≤ _
    rw [W_nil]; unfold arenaFuel; omega)
  have hy0 : y = a.length := by
    have := hy (by simp [memoGet, Registry.nGet])
    simpa using this
  subst hy0
  exact ⟨st, hc, hpost.minv, hm, fun i x y h => hpost.fill i x y (by simp) h⟩

end

end Fp.Tree3
