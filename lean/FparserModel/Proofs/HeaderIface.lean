import FparserModel.Header
import FparserModel.Proofs.IoStmtLayoutCtl
import FparserModel.Proofs.IoStmtLayoutMisc
import FparserModel.Proofs.IoStmtLayoutCombi
import FparserModel.Proofs.IoStmtTotal
import FparserModel.Proofs.IoStmtFixpoint
/-!
Header slice, package p4 (tag `i_`): ELSE / ELSEWHERE, INTERFACE, generic specs, PROCEDURE statements,
SELECT TYPE / type guards, attribute specs, SUBMODULE: `*_tostr_match_tokens`, fixpoints, totality.
-/
namespace Fp.Header
open Fp Fp.Splitline Fp.IoStmt

variable {Node : Type}

/-! ## helpers -/

/-- the toy oracle of the witnesses: nodes are texts -/
def i_echoH : Oracle Str :=
  { call := fun _ t => .ok t, str := id, head := fun _ => none, rhsStr := fun _ => [],
    heads := fun _ => [], isDataEdit := fun _ => false }

theorem i_echoH_tok : OracleTok i_echoH := by
  intro c t n h
  cases h
  rfl

theorem i_kw {kw s : Str} (n : Nat) (hn : kw.length = n) (h : kwIs kw s = true) :
    toks s = toks kw ++ toks (lstrip (s.drop n)) := by
  subst hn
  rw [toks_lstrip]
  exact toks_of_kwIs h

theorem i_kw' {kw s : Str} (n : Nat) (hn : kw.length = n) (h : kwIs kw s = true) :
    toks s = toks kw ++ toks (s.drop n) := by
  subst hn
  exact toks_of_kwIs h

theorem i_empty {x : Str} (h : ¬ (!x.isEmpty) = true) : toks x = [] := by
  have : x = [] := by simpa using h
  subst this; rfl

theorem i_net_none (o : Oracle Node) : net ((Item.none : Item Node).text o) = 0 := by
  simp only [Item.text]; decide

/-! ## 1. Else_Stmt -/

theorem i_else_tostr_match_tokens (o : Oracle Node) (ho : OracleTok o) (s : Str)
    (items : List (Item Node)) (hm : (planElse s).bind (runSlots o) = .ok items) :
    ∃ t, tostrElse o items = .ok t ∧ toks t = toks s ∧
      ((∀ i ∈ items, net (i.text o) = 0) → net t = 0) := by
  obtain ⟨slots, hp, hr⟩ := Res.bind_eq_ok hm
  unfold planElse at hp
  split at hp
  · cases hp
  rename_i hkw
  have hkw' : kwIs "ELSE".toList s = true := by simpa using hkw
  have hS := i_kw 4 rfl hkw'
  dsimp only at hp
  split at hp
  · cases hp
    obtain ⟨i, rfl, hi⟩ := run1 hr
    have hi' := toks_item_of_child ho hi
    obtain ⟨n, rfl, _⟩ := runSlot_child_ok hi
    have k1 : toks "ELSE ".toList = toks "ELSE".toList := by decide
    refine ⟨"ELSE ".toList ++ o.str n, rfl, ?_, ?_⟩
    · rw [toks_append, hS, k1]
      exact congrArg _ hi'
    · intro hb
      have := hb (.node n) (by simp)
      simp only [Item.text] at this
      simp only [net_append, this]; decide
  · rename_i hemp
    cases hp
    obtain ⟨i, rfl, hi⟩ := run1 hr
    have := runSlot_none_ok hi; subst this
    refine ⟨"ELSE".toList, rfl, ?_, fun _ => by decide⟩
    rw [hS, i_empty hemp]; simp

/-- WITNESS (glued keyword): `elsenam` is accepted by `Else_Stmt` as ELSE with the construct name `nam` -/
theorem i_else_glued_witness :
    (planElse "elsenam".toList).bind (runSlots i_echoH) = .ok [.node "nam".toList] ∧
    tostrElse i_echoH [.node "nam".toList] = .ok "ELSE nam".toList := by decide

/-! ## Elsewhere_Stmt -/

theorem i_elsewhereRest_spec {s rest : Str} (h : elsewhereRest s = some rest) :
    toks s = toks "ELSEWHERE".toList ++ toks rest := by
  unfold elsewhereRest at h
  split at h
  · cases h
  rename_i hkw
  have hkw' : kwIs "ELSE".toList s = true := by simpa using hkw
  dsimp only at h
  split at h
  · cases h
  rename_i hkw2
  have hkw2' : kwIs "WHERE".toList (lstrip (s.drop 4)) = true := by simpa using hkw2
  cases h
  rw [i_kw 4 rfl hkw', i_kw' 5 rfl hkw2', ← List.append_assoc]
  rfl

/-- the printer of `Elsewhere_Stmt` (`WORDClsBase.tostr`) -/
abbrev i_specElsewhere : Combi.Spec := .word ["ELSEWHERE".toList] false none false false false

/-- **Elsewhere_Stmt**: `else  where nam` → `ELSEWHERE nam` -/
theorem i_elsewhere_tostr_match_tokens (o : Oracle Node) (ho : OracleTok o) (s : Str)
    (items : List (Item Node)) (hm : (planElsewhere s).bind (runSlots o) = .ok items) :
    ∃ t, combiStr o (.word ["ELSEWHERE".toList] false none false false false) items = .ok t ∧
      toks t = toks s ∧ ((∀ i ∈ items, net (i.text o) = 0) → net t = 0) := by
  obtain ⟨slots, hp, hr⟩ := Res.bind_eq_ok hm
  unfold planElsewhere at hp
  split at hp
  · cases hp
  rename_i rest hrest
  have hS := i_elsewhereRest_spec hrest
  dsimp only at hp
  split at hp
  · cases hp
    obtain ⟨i, j, rfl, hi, hj⟩ := run2 hr
    have := runSlot_str_ok hi; subst this
    have hj' := toks_item_of_child ho hj
    obtain ⟨n, rfl, _⟩ := runSlot_child_ok hj
    obtain ⟨w1, w2⟩ := wordStr_node "ELSEWHERE".toList (o.str n)
    refine ⟨Combi.wordStr textOracle [.str "ELSEWHERE".toList, .node (o.str n)], rfl, ?_, ?_⟩
    · rw [w1, hS]
      have : toks (o.str n) = toks (lstrip rest) := hj'
      rw [this, toks_lstrip]
    · intro hb
      have := hb (.node n) (by simp)
      simp only [Item.text] at this
      rw [w2, this]; decide
  · rename_i hemp
    cases hp
    obtain ⟨i, j, rfl, hi, hj⟩ := run2 hr
    have := runSlot_str_ok hi; subst this
    have := runSlot_none_ok hj; subst this
    refine ⟨"ELSEWHERE".toList, rfl, ?_, fun _ => by decide⟩
    rw [hS, ← toks_lstrip rest, i_empty hemp]; simp

/-! ## Masked_Elsewhere_Stmt -/

theorem i_maskedElsewhere_tostr_match_tokens (o : Oracle Node) (ho : OracleTok o) (s : Str)
    (items : List (Item Node)) (hm : (planMaskedElsewhere s).bind (runSlots o) = .ok items) :
    ∃ t, tostrMaskedElsewhere o items = .ok t ∧ toks t = toks s ∧
      ((∀ i ∈ items, net (i.text o) = 0) → net t = 0) := by
  obtain ⟨slots, hp, hr⟩ := Res.bind_eq_ok hm
  unfold planMaskedElsewhere at hp
  split at hp
  · cases hp
  rename_i rest hrest
  have hS := i_elsewhereRest_spec hrest
  dsimp only at hp
  split at hp
  · cases hp
  rename_i hst
  have hhead : (lstrip rest).head? = some '(' := by simpa [startsC] using hst
  split at hp
  · cases hp
  rename_i pre post hcut
  obtain ⟨htext, _⟩ := Combi.cutLast_spec _ _ _ hcut
  obtain ⟨pre', rfl⟩ : ∃ pre', pre = '(' :: pre' := by
    cases pre with
    | nil => rw [htext] at hhead; simp at hhead
    | cons d pre' => rw [htext] at hhead; simp at hhead; exact ⟨pre', by rw [hhead]⟩
  have hR : toks rest = toks "(".toList ++ (toks pre' ++ (toks ")".toList ++ toks post)) := by
    rw [← toks_lstrip rest, htext, List.cons_append, consL, consR]
    simp only [toks_append]
  simp only [List.drop_succ_cons, List.drop_zero] at hp
  split at hp
  · cases hp
  have k1 : toks "ELSEWHERE(".toList = toks "ELSEWHERE".toList ++ toks "(".toList := by decide
  have k2 : toks ") ".toList = toks ")".toList := by decide
  split at hp
  · cases hp
    obtain ⟨i, j, rfl, hi, hj⟩ := run2 hr
    have hi' := toks_item_of_child ho hi
    have hj' := toks_item_of_child ho hj
    obtain ⟨n, rfl, _⟩ := runSlot_child_ok hi
    obtain ⟨m, rfl, _⟩ := runSlot_child_ok hj
    refine ⟨"ELSEWHERE(".toList ++ o.str n ++ ") ".toList ++ o.str m, rfl, ?_, ?_⟩
    · have a1 : toks (o.str n) = toks (strip pre') := hi'
      have a2 : toks (o.str m) = toks (rstrip post) := hj'
      rw [hS, hR]
      simp only [toks_append, k1, k2, a1, a2, toks_strip, toks_rstrip, List.append_assoc]
    · intro hb
      have h1 := hb (.node n) (by simp)
      have h2 := hb (.node m) (by simp)
      simp only [Item.text] at h1 h2
      simp only [net_append, h1, h2]; decide
  · rename_i hemp
    cases hp
    obtain ⟨i, j, rfl, hi, hj⟩ := run2 hr
    have hi' := toks_item_of_child ho hi
    have := runSlot_none_ok hj; subst this
    obtain ⟨n, rfl, _⟩ := runSlot_child_ok hi
    refine ⟨"ELSEWHERE(".toList ++ o.str n ++ ")".toList, rfl, ?_, ?_⟩
    · have a1 : toks (o.str n) = toks (strip pre') := hi'
      have a3 : toks post = [] := by rw [← toks_rstrip]; exact i_empty hemp
      rw [hS, hR]
      simp only [toks_append, k1, a1, a3, toks_strip, List.append_assoc, List.append_nil]
    · intro hb
      have h1 := hb (.node n) (by simp)
      simp only [Item.text] at h1
      simp only [net_append, h1]; decide

/-! ## 2. Interface_Stmt -/

theorem i_interface_tostr_match_tokens (o : Oracle Node) (ho : OracleTok o) (s : Str)
    (items : List (Item Node)) (hm : (planInterface s).bind (runSlots o) = .ok items) :
    ∃ t, tostrInterface o items = .ok t ∧ toks t = toks s ∧
      ((∀ i ∈ items, net (i.text o) = 0) → net t = 0) := by
  obtain ⟨slots, hp, hr⟩ := Res.bind_eq_ok hm
  unfold planInterface at hp
  split at hp
  · rename_i hkw
    have hS := i_kw' 9 rfl hkw
    dsimp only at hp
    split at hp
    · rename_i hemp
      cases hp
      obtain ⟨i, rfl, hi⟩ := run1 hr
      have := runSlot_none_ok hi; subst this
      refine ⟨"INTERFACE".toList, rfl, ?_, fun _ => by decide⟩
      rw [hS, ← toks_strip (s.drop 9), toks_isEmpty hemp]; simp
    · cases hp
      obtain ⟨i, rfl, hi⟩ := run1 hr
      have hi' := toks_item_of_child ho hi
      obtain ⟨n, rfl, _⟩ := runSlot_child_ok hi
      have k1 : toks "INTERFACE ".toList = toks "INTERFACE".toList := by decide
      refine ⟨"INTERFACE ".toList ++ o.str n, rfl, ?_, ?_⟩
      · have a1 : toks (o.str n) = toks (strip (s.drop 9)) := hi'
        rw [toks_append, hS, k1, a1, toks_strip]
      · intro hb
        have := hb (.node n) (by simp)
        simp only [Item.text] at this
        simp only [net_append, this]; decide
  · split at hp
    · rename_i hkw
      have hS := i_kw' 8 rfl hkw
      dsimp only at hp
      split at hp
      · rename_i hup
        have hup' : upper (strip (s.drop 8)) = "INTERFACE".toList := by simpa using hup
        cases hp
        obtain ⟨i, rfl, hi⟩ := run1 hr
        have := runSlot_str_ok hi; subst this
        refine ⟨"ABSTRACT INTERFACE".toList, rfl, ?_, fun _ => by decide⟩
        rw [hS, ← toks_strip (s.drop 8), ← toks_upper (strip (s.drop 8)), hup']
        decide
      · cases hp
    · cases hp

/-- WITNESS (glued keyword): `interfacefoo` is accepted as `INTERFACE foo` -/
theorem i_interface_glued_witness :
    (planInterface "interfacefoo".toList).bind (runSlots i_echoH) = .ok [.node "foo".toList] ∧
    tostrInterface i_echoH [.node "foo".toList] = .ok "INTERFACE foo".toList := by decide

/-- `interface abstract`: the generic spec is a NODE, which never equals the str "ABSTRACT":
    printed `INTERFACE abstract`, not `ABSTRACT INTERFACE` -/
theorem i_interface_abstract_name_witness :
    (planInterface "interface abstract".toList).bind (runSlots i_echoH) = .ok [.node "abstract".toList] ∧
    tostrInterface i_echoH [.node "abstract".toList] = .ok "INTERFACE abstract".toList := by decide

/-! ## 3. Generic_Spec / Dtio_Generic_Spec / Extended_Intrinsic_Op -/

theorem i_parenEnds {line : Str} (h : parenEnds line = true) :
    line.head? = some '(' ∧ line.getLast? = some ')' := by
  unfold parenEnds at h
  split at h
  · rename_i a b ha hb
    simp only [Bool.and_eq_true, beq_iff_eq] at h
    rw [ha, hb, h.1, h.2]; exact ⟨rfl, rfl⟩
  · cases h

theorem i_toks_parenEnds {line : Str} (h : parenEnds line = true) :
    toks line = toks "(".toList ++ (toks (strip (inner line)) ++ toks ")".toList) :=
  toks_paren_shape (i_parenEnds h).1 (i_parenEnds h).2

theorem i_pe_of_not {line : Str} (h : ¬ (line.isEmpty || !parenEnds line) = true) :
    parenEnds line = true := by
  simp only [Bool.or_eq_true, Bool.not_eq_true', not_or, Bool.not_eq_false] at h
  exact h.2

theorem i_genericSpec_tostr_match_tokens (o : Oracle Node) (ho : OracleTok o) (s : Str)
    (items : List (Item Node)) (hm : (planGenericSpec s).bind (runSlots o) = .ok items) :
    ∃ t, tostrCallLike o items = .ok t ∧ toks t = toks s ∧
      ((∀ i ∈ items, net (i.text o) = 0) → net t = 0) := by
  obtain ⟨slots, hp, hr⟩ := Res.bind_eq_ok hm
  unfold planGenericSpec at hp
  split at hp
  · rename_i hkw
    have hS := i_kw 8 rfl hkw
    dsimp only at hp
    split at hp
    · cases hp
    rename_i hpe
    have hL := i_toks_parenEnds (i_pe_of_not hpe)
    cases hp
    obtain ⟨i, j, rfl, hi, hj⟩ := run2 hr
    have := runSlot_str_ok hi; subst this
    have hj' := toks_item_of_child ho hj
    obtain ⟨n, rfl, _⟩ := runSlot_child_ok hj
    refine ⟨"OPERATOR".toList ++ "(".toList ++ o.str n ++ ")".toList, rfl, ?_, ?_⟩
    · have a1 : toks (o.str n) = toks (strip (inner (lstrip (s.drop 8)))) := hj'
      rw [hS, hL]
      simp only [toks_append, a1, List.append_assoc]
    · intro hb
      have := hb (.node n) (by simp)
      simp only [Item.text] at this
      simp only [net_append, this]; decide
  · split at hp
    · rename_i hkw
      have hS := i_kw 10 rfl hkw
      dsimp only at hp
      split at hp
      · cases hp
      rename_i hpe
      have hL := i_toks_parenEnds (i_pe_of_not hpe)
      split at hp
      · rename_i heq
        have heq' : strip (inner (lstrip (s.drop 10))) = "=".toList := by simpa using heq
        cases hp
        obtain ⟨i, j, rfl, hi, hj⟩ := run2 hr
        have := runSlot_str_ok hi; subst this
        have := runSlot_str_ok hj; subst this
        refine ⟨"ASSIGNMENT(=)".toList, rfl, ?_, fun _ => by decide⟩
        rw [hS, hL, heq']; decide
      · cases hp
    · cases hp

/-- one keyword of the `for rw in ["READ", "WRITE"]` loop -/
theorem i_dtioOne_spec {rw s : Str} {slots : List Slot} (h : dtioOne rw s = some (.ok slots)) :
    ∃ t, slots = [.str t] ∧ toks t = toks s := by
  unfold dtioOne at h
  split at h
  · rename_i hkw
    have hS := i_kw rw.length rfl hkw
    dsimp only at h
    split at h
    · cases h
    split at h
    · cases h
    rename_i hpe
    have hpe' : parenEnds (lstrip (s.drop rw.length)) = true := by simpa using hpe
    have hL := i_toks_parenEnds hpe'
    split at h
    · cases h
      refine ⟨_, rfl, ?_⟩
      rw [hS, hL]
      simp only [toks_append, toks_upper, List.append_assoc]
    · cases h
  · cases h

/-- **Dtio_Generic_Spec**: `read ( formatted )` → `READ(FORMATTED)` -/
theorem i_dtio_tostr_match_tokens (o : Oracle Node) (_ho : OracleTok o) (s : Str)
    (items : List (Item Node)) (hm : (planDtio s).bind (runSlots o) = .ok items) :
    ∃ t, tostrString o items = .ok t ∧ toks t = toks s ∧
      ((∀ i ∈ items, net (i.text o) = 0) → net t = 0) := by
  obtain ⟨slots, hp, hr⟩ := Res.bind_eq_ok hm
  have key : ∃ t, slots = [.str t] ∧ toks t = toks s := by
    unfold planDtio at hp
    split at hp
    · rename_i r h1
      subst hp
      exact i_dtioOne_spec h1
    · split at hp
      · rename_i r h2
        subst hp
        exact i_dtioOne_spec h2
      · cases hp
  obtain ⟨t, rfl, ht⟩ := key
  obtain ⟨i, rfl, hi⟩ := run1 hr
  have := runSlot_str_ok hi; subst this
  exact ⟨t, rfl, ht, fun hb => hb (.str t) (by simp)⟩

theorem i_dtio_example :
    (planDtio "read ( formatted )".toList).bind (runSlots i_echoH) = .ok [.str "READ(FORMATTED)".toList] := by
  decide

/-- **Extended_Intrinsic_Op**: the text is kept as it is -/
theorem i_extendedIntrinsicOp_tostr_match_tokens (o : Oracle Node) (_ho : OracleTok o) (s : Str)
    (items : List (Item Node)) (hm : (planExtendedIntrinsicOp s).bind (runSlots o) = .ok items) :
    ∃ t, tostrString o items = .ok t ∧ t = s ∧ toks t = toks s ∧
      ((∀ i ∈ items, net (i.text o) = 0) → net t = 0) := by
  obtain ⟨slots, hp, hr⟩ := Res.bind_eq_ok hm
  unfold planExtendedIntrinsicOp at hp
  split at hp
  · cases hp
    obtain ⟨i, rfl, hi⟩ := run1 hr
    have := runSlot_str_ok hi; subst this
    exact ⟨s, rfl, rfl, rfl, fun hb => hb (.str s) (by simp)⟩
  · cases hp

/-- F-C08-3: `re.match` without `$`: the operator is accepted with ARBITRARY trailing text -/
theorem i_startsIntrinsicOp_plus (junk : Str) : startsIntrinsicOp ('+' :: junk) = true := by
  unfold startsIntrinsicOp; split <;> simp_all
theorem i_startsIntrinsicOp_minus (junk : Str) : startsIntrinsicOp ('-' :: junk) = true := by
  unfold startsIntrinsicOp; split <;> simp_all
theorem i_startsIntrinsicOp_lt (junk : Str) : startsIntrinsicOp ('<' :: junk) = true := by
  unfold startsIntrinsicOp; split <;> simp_all
theorem i_startsIntrinsicOp_gt (junk : Str) : startsIntrinsicOp ('>' :: junk) = true := by
  unfold startsIntrinsicOp; split <;> simp_all

/-- **Extended_Intrinsic_Op is not anchored** (F-C08-3): `+)` is an "operator", and so is `+`, `-`,
    `<`, `>` followed by ANY text -/
theorem i_Extended_Intrinsic_Op_unanchored :
    planExtendedIntrinsicOp "+)".toList = .ok [.str "+)".toList] ∧
    (∀ junk, planExtendedIntrinsicOp ('+' :: junk) = .ok [.str ('+' :: junk)]) ∧
    (∀ junk, planExtendedIntrinsicOp ('-' :: junk) = .ok [.str ('-' :: junk)]) ∧
    (∀ junk, planExtendedIntrinsicOp ('<' :: junk) = .ok [.str ('<' :: junk)]) ∧
    (∀ junk, planExtendedIntrinsicOp ('>' :: junk) = .ok [.str ('>' :: junk)]) := by
  refine ⟨by decide, ?_, ?_, ?_, ?_⟩ <;> intro junk <;> unfold planExtendedIntrinsicOp
  · rw [i_startsIntrinsicOp_plus]; rfl
  · rw [i_startsIntrinsicOp_minus]; rfl
  · rw [i_startsIntrinsicOp_lt]; rfl
  · rw [i_startsIntrinsicOp_gt]; rfl

/-- WITNESS: `operator(+))` is a Generic_Spec whenever the child `Defined_Operator` takes `+)` (and
    `Extended_Intrinsic_Op` does: see above); the child text `+)` is unbalanced (net −1) although the
    statement is printed unchanged -/
theorem i_Generic_Spec_accepts_unbalanced_witness :
    (planGenericSpec "operator(+))".toList).bind (runSlots i_echoH) =
      .ok [.str "OPERATOR".toList, .node "+)".toList] ∧
    tostrCallLike i_echoH [.str "OPERATOR".toList, .node "+)".toList] = .ok "OPERATOR(+))".toList ∧
    net "+)".toList = -1 ∧ net "OPERATOR(+))".toList = -1 := by decide

/-! ## 4. Procedure_Stmt -/

/-- **Procedure_Stmt (F2003)**: `MODULE` is printed ALWAYS: `procedure a` → `MODULE PROCEDURE a`
    (keyword INVENTED when the input has none).
    The natural statement `toks t = toks s` FAILS: `i_procedureStmt03_invents_module`. -/
theorem i_procedureStmt03_tostr_match_tokens (o : Oracle Node) (ho : OracleTok o) (s : Str)
    (items : List (Item Node)) (hm : (planProcedureStmt .f2003 s).bind (runSlots o) = .ok items) :
    ∃ t, tostrProcedureStmt .f2003 o items = .ok t ∧
      (kwIs "MODULE".toList s = true → toks t = toks s) ∧
      (kwIs "MODULE".toList s = false → toks t = toks "MODULE".toList ++ toks s) ∧
      ((∀ i ∈ items, net (i.text o) = 0) → net t = 0) := by
  obtain ⟨slots, hp, hr⟩ := Res.bind_eq_ok hm
  unfold planProcedureStmt at hp
  dsimp only at hp
  have k1 : toks "MODULE PROCEDURE ".toList = toks "MODULE".toList ++ toks "PROCEDURE".toList := by decide
  by_cases hmod : kwIs "MODULE".toList s = true
  · rw [if_pos hmod] at hp
    split at hp
    · cases hp
    rename_i hkw
    have hkw' : kwIs "PROCEDURE".toList (lstrip (s.drop 6)) = true := by simpa using hkw
    cases hp
    obtain ⟨i, rfl, hi⟩ := run1 hr
    have hi' := toks_item_of_child ho hi
    obtain ⟨n, rfl, _⟩ := runSlot_child_ok hi
    refine ⟨"MODULE PROCEDURE ".toList ++ o.str n, rfl, fun _ => ?_, fun h => ?_, ?_⟩
    · have a1 : toks (o.str n) = toks (lstrip ((lstrip (s.drop 6)).drop 9)) := hi'
      rw [toks_append, k1, a1, i_kw 6 rfl hmod, i_kw 9 rfl hkw', List.append_assoc]
    · rw [hmod] at h; cases h
    · intro hb
      have := hb (.node n) (by simp)
      simp only [Item.text] at this
      simp only [net_append, this]; decide
  · rw [if_neg hmod] at hp
    split at hp
    · cases hp
    rename_i hkw
    have hkw' : kwIs "PROCEDURE".toList s = true := by simpa using hkw
    cases hp
    obtain ⟨i, rfl, hi⟩ := run1 hr
    have hi' := toks_item_of_child ho hi
    obtain ⟨n, rfl, _⟩ := runSlot_child_ok hi
    refine ⟨"MODULE PROCEDURE ".toList ++ o.str n, rfl, fun h => absurd h hmod, fun _ => ?_, ?_⟩
    · have a1 : toks (o.str n) = toks (lstrip (s.drop 9)) := hi'
      rw [toks_append, k1, a1, i_kw 9 rfl hkw', List.append_assoc]
    · intro hb
      have := hb (.node n) (by simp)
      simp only [Item.text] at this
      simp only [net_append, this]; decide

/-- WITNESS (C02 under f2003): `procedure a` is printed `MODULE PROCEDURE a` -/
theorem i_procedureStmt03_invents_module :
    (planProcedureStmt .f2003 "procedure a".toList).bind (runSlots i_echoH) = .ok [.node "a".toList] ∧
    tostrProcedureStmt .f2003 i_echoH [.node "a".toList] = .ok "MODULE PROCEDURE a".toList ∧
    toks "MODULE PROCEDURE a".toList ≠ toks "procedure a".toList := by decide

/-! ### Procedure_Stmt (F2008) -/

def i_mtoks (om : Slot) : Str := if om = .none then [] else toks "MODULE".toList
def i_ctoks (oc : Slot) : Str := if oc = .none then [] else toks "::".toList

theorem i_proc08_fin (o : Oracle Node) (ho : OracleTok o) (l : Str) (om oc : Slot)
    (items : List (Item Node))
    (hom : om = .none ∨ om = .str "MODULE".toList) (hoc : oc = .none ∨ oc = .str "::".toList)
    (hr : runSlots o [.child C.Procedure_Name_List l, om, oc] = .ok items) :
    ∃ t, tostrProcedureStmt .f2008 o items = .ok t ∧
      toks t = i_mtoks om ++ (toks "PROCEDURE".toList ++ (i_ctoks oc ++ toks l)) ∧
      ((∀ i ∈ items, net (i.text o) = 0) → net t = 0) := by
  obtain ⟨i, j, k, rfl, hi, hj, hk⟩ := run3 hr
  have hi' := toks_item_of_child ho hi
  obtain ⟨n, rfl, _⟩ := runSlot_child_ok hi
  have a1 : toks (o.str n) = toks l := hi'
  have bal : (∀ i ∈ [Item.node n, j, k], net (i.text o) = 0) → net (o.str n) = 0 := by
    intro hb
    have := hb (.node n) (by simp)
    simpa only [Item.text] using this
  rcases hom with rfl | rfl <;> rcases hoc with rfl | rfl
  · have := runSlot_none_ok hj; subst this
    have := runSlot_none_ok hk; subst this
    refine ⟨"PROCEDURE".toList ++ " ".toList ++ o.str n, rfl, ?_, ?_⟩
    · simp only [toks_append, a1, toks_sp, i_mtoks, i_ctoks, if_true, List.nil_append, List.append_nil]
    · intro hb; simp only [net_append, bal hb]; decide
  · have := runSlot_none_ok hj; subst this
    have := runSlot_str_ok hk; subst this
    refine ⟨"PROCEDURE".toList ++ " ::".toList ++ " ".toList ++ o.str n, rfl, ?_, ?_⟩
    · have k1 : toks " ::".toList = toks "::".toList := by decide
      have e : i_ctoks (.str "::".toList) = toks "::".toList := by decide
      simp only [toks_append, a1, toks_sp, i_mtoks, e, k1, if_true, List.nil_append, List.append_assoc]
    · intro hb; simp only [net_append, bal hb]; decide
  · have := runSlot_str_ok hj; subst this
    have := runSlot_none_ok hk; subst this
    refine ⟨"MODULE ".toList ++ "PROCEDURE".toList ++ " ".toList ++ o.str n, rfl, ?_, ?_⟩
    · have k1 : toks "MODULE ".toList = toks "MODULE".toList := by decide
      have e : i_mtoks (.str "MODULE".toList) = toks "MODULE".toList := by decide
      simp only [toks_append, a1, toks_sp, i_ctoks, e, k1, if_true, List.nil_append, List.append_assoc]
    · intro hb; simp only [net_append, bal hb]; decide
  · have := runSlot_str_ok hj; subst this
    have := runSlot_str_ok hk; subst this
    refine ⟨"MODULE ".toList ++ "PROCEDURE".toList ++ " ::".toList ++ " ".toList ++ o.str n, rfl, ?_, ?_⟩
    · have k1 : toks "MODULE ".toList = toks "MODULE".toList := by decide
      have k2 : toks " ::".toList = toks "::".toList := by decide
      have e : i_mtoks (.str "MODULE".toList) = toks "MODULE".toList := by decide
      have e2 : i_ctoks (.str "::".toList) = toks "::".toList := by decide
      simp only [toks_append, a1, toks_sp, e, e2, k1, k2, List.nil_append, List.append_assoc]
    · intro hb; simp only [net_append, bal hb]; decide

/-- the shape of the F2008 plan -/
theorem i_proc08_shape {s : Str} {slots : List Slot} (hp : planProcedureStmt .f2008 s = .ok slots) :
    ∃ l om oc, slots = [.child C.Procedure_Name_List l, om, oc] ∧
      (om = .none ∨ om = .str "MODULE".toList) ∧ (oc = .none ∨ oc = .str "::".toList) ∧
      toks s = i_mtoks om ++ (toks "PROCEDURE".toList ++ (i_ctoks oc ++ toks l)) := by
  -- the tail after `PROCEDURE`
  have tail : ∀ (line : Str) (om : Slot), (om = .none ∨ om = .str "MODULE".toList) →
      toks s = i_mtoks om ++ toks line →
      (if (!kwIs "PROCEDURE".toList line) = true then Res.noMatch else
        match (if ((lstrip (line.drop 9)).take 2 == "::".toList) = true
               then (lstrip ((lstrip (line.drop 9)).drop 2), Slot.str "::".toList)
               else (lstrip (line.drop 9), Slot.none)) with
        | (line, oc) => Res.ok [Slot.child C.Procedure_Name_List line, om, oc]) = .ok slots →
      ∃ l om oc, slots = [.child C.Procedure_Name_List l, om, oc] ∧
        (om = .none ∨ om = .str "MODULE".toList) ∧ (oc = .none ∨ oc = .str "::".toList) ∧
        toks s = i_mtoks om ++ (toks "PROCEDURE".toList ++ (i_ctoks oc ++ toks l)) := by
    intro line om hom hS h
    split at h
    · cases h
    rename_i hkw
    have hkw' : kwIs "PROCEDURE".toList line = true := by simpa using hkw
    have hL := i_kw 9 rfl hkw'
    by_cases hcc : ((lstrip (line.drop 9)).take 2 == "::".toList) = true
    · rw [if_pos hcc] at h
      cases h
      refine ⟨_, om, _, rfl, hom, .inr rfl, ?_⟩
      have e : i_ctoks (.str "::".toList) = toks "::".toList := by decide
      have hcc' : (lstrip (line.drop 9)).take 2 = "::".toList := by simpa using hcc
      have : toks (lstrip (line.drop 9)) = toks "::".toList ++ toks ((lstrip (line.drop 9)).drop 2) := by
        conv => lhs; rw [← List.take_append_drop 2 (lstrip (line.drop 9))]
        rw [toks_append, hcc']
      rw [hS, hL, this, e, toks_lstrip]
    · rw [if_neg hcc] at h
      cases h
      refine ⟨_, om, _, rfl, hom, .inl rfl, ?_⟩
      have e : i_ctoks Slot.none = [] := by decide
      rw [hS, hL, e, List.nil_append]
  unfold planProcedureStmt at hp
  dsimp only at hp
  by_cases hmod : kwIs "MODULE".toList (lstrip s) = true
  · rw [if_pos hmod] at hp
    refine tail _ _ (.inr rfl) ?_ hp
    have e : i_mtoks (.str "MODULE".toList) = toks "MODULE".toList := by decide
    rw [e, ← i_kw 6 rfl hmod, toks_lstrip]
  · rw [if_neg hmod] at hp
    refine tail _ _ (.inl rfl) ?_ hp
    have e : i_mtoks Slot.none = [] := by decide
    rw [e, toks_lstrip]; rfl

/-- **Procedure_Stmt (F2008)**: `[MODULE] PROCEDURE [::] names`, both optional parts kept -/
theorem i_procedureStmt08_tostr_match_tokens (o : Oracle Node) (ho : OracleTok o) (s : Str)
    (items : List (Item Node)) (hm : (planProcedureStmt .f2008 s).bind (runSlots o) = .ok items) :
    ∃ t, tostrProcedureStmt .f2008 o items = .ok t ∧ toks t = toks s ∧
      ((∀ i ∈ items, net (i.text o) = 0) → net t = 0) := by
  obtain ⟨slots, hp, hr⟩ := Res.bind_eq_ok hm
  obtain ⟨l, om, oc, rfl, hom, hoc, hS⟩ := i_proc08_shape hp
  obtain ⟨t, h1, h2, h3⟩ := i_proc08_fin o ho l om oc items hom hoc hr
  exact ⟨t, h1, by rw [h2, hS], h3⟩

example : (planProcedureStmt .f2008 "module procedure :: a, b".toList).bind (runSlots i_echoH) =
    .ok [.node "a, b".toList, .str "MODULE".toList, .str "::".toList] := by decide
example : (planProcedureStmt .f2008 "procedure a".toList).bind (runSlots i_echoH) =
    .ok [.node "a".toList, .none, .none] := by decide

/-! ## 5. Select_Type_Stmt -/

theorem i_selectType_tostr_match_tokens (o : Oracle Node) (ho : OracleTok o) (s : Str)
    (items : List (Item Node)) (hm : (planSelectType s).bind (runSlots o) = .ok items) :
    ∃ t, tostrSelectType o items = .ok t ∧ toks t = toks s ∧
      ((∀ i ∈ items, net (i.text o) = 0) → net t = 0) := by
  obtain ⟨slots, hp, hr⟩ := Res.bind_eq_ok hm
  unfold planSelectType at hp
  split at hp
  · cases hp
  rename_i hkw
  have hkw' : kwIs "SELECT".toList s = true := by simpa using hkw
  dsimp only at hp
  split at hp
  · cases hp
  rename_i hkw2
  have hkw2' : kwIs "TYPE".toList (lstrip (s.drop 6)) = true := by simpa using hkw2
  split at hp
  · cases hp
  rename_i hpe
  have hL := i_toks_parenEnds (i_pe_of_not hpe)
  have hS : toks s = toks "SELECT TYPE(".toList ++
      (toks (strip (inner (lstrip ((lstrip (s.drop 6)).drop 4)))) ++ toks ")".toList) := by
    rw [i_kw 6 rfl hkw', i_kw 4 rfl hkw2', hL]
    have k : toks "SELECT TYPE(".toList = toks "SELECT".toList ++ (toks "TYPE".toList ++ toks "(".toList) := by
      decide
    rw [k]; simp only [List.append_assoc]
  split at hp
  · rename_i l r hcut
    have htext := cutSub2_spec _ _ _ hcut
    cases hp
    obtain ⟨i, j, rfl, hi, hj⟩ := run2 hr
    have hi' := toks_item_of_child ho hi
    have hj' := toks_item_of_child ho hj
    obtain ⟨n, rfl, _⟩ := runSlot_child_ok hi
    obtain ⟨m, rfl, _⟩ := runSlot_child_ok hj
    refine ⟨"SELECT TYPE(".toList ++ o.str n ++ "=>".toList ++ o.str m ++ ")".toList, rfl, ?_, ?_⟩
    · have a1 : toks (o.str n) = toks (rstrip l) := hi'
      have a2 : toks (o.str m) = toks (lstrip r) := hj'
      have e : l ++ '=' :: '>' :: r = l ++ ("=>".toList ++ r) := rfl
      rw [hS, htext, e]
      simp only [toks_append, a1, a2, toks_rstrip, toks_lstrip, List.append_assoc]
    · intro hb
      have h1 := hb (.node n) (by simp)
      have h2 := hb (.node m) (by simp)
      simp only [Item.text] at h1 h2
      simp only [net_append, h1, h2]; decide
  · cases hp
    obtain ⟨i, j, rfl, hi, hj⟩ := run2 hr
    have := runSlot_none_ok hi; subst this
    have hj' := toks_item_of_child ho hj
    obtain ⟨m, rfl, _⟩ := runSlot_child_ok hj
    refine ⟨"SELECT TYPE(".toList ++ o.str m ++ ")".toList, rfl, ?_, ?_⟩
    · have a2 : toks (o.str m) = toks (strip (inner (lstrip ((lstrip (s.drop 6)).drop 4)))) := hj'
      rw [hS]
      simp only [toks_append, a2, List.append_assoc]
    · intro hb
      have h2 := hb (.node m) (by simp)
      simp only [Item.text] at h2
      simp only [net_append, h2]; decide

/-! ## Type_Guard_Stmt -/

/-- the local function `withSpec` of `planTypeGuard` -/
def i_withSpec (kind : String) (line : Str) : Res (List Slot) :=
  if !startsC '(' line then .noMatch else
  match Combi.cutLast ')' line with
  | none => .noMatch
  | some (pre, post) =>
    let tmp := strip (pre.drop 1)
    if tmp.isEmpty then .noMatch else
    let line := lstrip post
    if !line.isEmpty then
      .ok [.str kind.toList, .child C.Type_Spec tmp, .child C.Select_Construct_Name line]
    else .ok [.str kind.toList, .child C.Type_Spec tmp, .none]

theorem i_withSpec_tokens (o : Oracle Node) (ho : OracleTok o) (kind : String) (line : Str)
    (slots : List Slot) (items : List (Item Node))
    (hp : i_withSpec kind line = .ok slots) (hr : runSlots o slots = .ok items) :
    ∃ t, tostrTypeGuard o items = .ok t ∧ toks t = toks kind.toList ++ toks line ∧
      ((∀ i ∈ items, net (i.text o) = 0) → net t = 0) := by
  unfold i_withSpec at hp
  split at hp
  · cases hp
  rename_i hst
  have hhead : line.head? = some '(' := by simpa [startsC] using hst
  split at hp
  · cases hp
  rename_i pre post hcut
  obtain ⟨htext, _⟩ := Combi.cutLast_spec _ _ _ hcut
  obtain ⟨pre', rfl⟩ : ∃ pre', pre = '(' :: pre' := by
    cases pre with
    | nil => rw [htext] at hhead; simp at hhead
    | cons d pre' => rw [htext] at hhead; simp at hhead; exact ⟨pre', by rw [hhead]⟩
  have hR : toks line = toks "(".toList ++ (toks pre' ++ (toks ")".toList ++ toks post)) := by
    rw [htext, List.cons_append, consL, consR]
    simp only [toks_append]
  simp only [List.drop_succ_cons, List.drop_zero] at hp
  split at hp
  · cases hp
  have k1 : toks " (".toList = toks "(".toList := by decide
  split at hp
  · cases hp
    obtain ⟨i, j, k, rfl, hi, hj, hk⟩ := run3 hr
    have := runSlot_str_ok hi; subst this
    have hj' := toks_item_of_child ho hj
    have hk' := toks_item_of_child ho hk
    obtain ⟨n, rfl, _⟩ := runSlot_child_ok hj
    obtain ⟨m, rfl, _⟩ := runSlot_child_ok hk
    refine ⟨kind.toList ++ " (".toList ++ o.str n ++ ")".toList ++ " ".toList ++ o.str m, rfl, ?_, ?_⟩
    · have a1 : toks (o.str n) = toks (strip pre') := hj'
      have a2 : toks (o.str m) = toks (lstrip post) := hk'
      rw [hR]
      simp only [toks_append, k1, toks_sp, a1, a2, toks_strip, toks_lstrip, List.append_assoc,
        List.nil_append]
    · intro hb
      have h0 := hb (.str kind.toList) (by simp)
      have h1 := hb (.node n) (by simp)
      have h2 := hb (.node m) (by simp)
      simp only [Item.text] at h0 h1 h2
      simp only [net_append, h0, h1, h2]; decide
  · rename_i hemp
    cases hp
    obtain ⟨i, j, k, rfl, hi, hj, hk⟩ := run3 hr
    have := runSlot_str_ok hi; subst this
    have hj' := toks_item_of_child ho hj
    have := runSlot_none_ok hk; subst this
    obtain ⟨n, rfl, _⟩ := runSlot_child_ok hj
    refine ⟨kind.toList ++ " (".toList ++ o.str n ++ ")".toList, rfl, ?_, ?_⟩
    · have a1 : toks (o.str n) = toks (strip pre') := hj'
      have a3 : toks post = [] := by rw [← toks_lstrip]; exact i_empty hemp
      rw [hR]
      simp only [toks_append, k1, a1, a3, toks_strip, List.append_assoc, List.append_nil]
    · intro hb
      have h0 := hb (.str kind.toList) (by simp)
      have h1 := hb (.node n) (by simp)
      simp only [Item.text] at h0 h1
      simp only [net_append, h0, h1]; decide

/-- **Type_Guard_Stmt**: `type is (t) nam`, `class is (t) nam`, `class default nam` -/
theorem i_typeGuard_tostr_match_tokens (o : Oracle Node) (ho : OracleTok o) (s : Str)
    (items : List (Item Node)) (hm : (planTypeGuard s).bind (runSlots o) = .ok items) :
    ∃ t, tostrTypeGuard o items = .ok t ∧ toks t = toks s ∧
      ((∀ i ∈ items, net (i.text o) = 0) → net t = 0) := by
  obtain ⟨slots, hp, hr⟩ := Res.bind_eq_ok hm
  unfold planTypeGuard at hp
  dsimp only at hp
  split at hp
  · rename_i hkw
    have hS := i_kw 4 rfl hkw
    split at hp
    · cases hp
    rename_i hkw2
    have hkw2' : kwIs "IS".toList (lstrip ((lstrip s).drop 4)) = true := by simpa using hkw2
    have hS2 := i_kw 2 rfl hkw2'
    change i_withSpec "TYPE IS" _ = _ at hp
    obtain ⟨t, h1, h2, h3⟩ := i_withSpec_tokens o ho _ _ _ _ hp hr
    refine ⟨t, h1, ?_, h3⟩
    rw [h2, ← toks_lstrip s, hS, hS2, ← List.append_assoc]; rfl
  · split at hp
    · rename_i hkw
      have hS := i_kw 5 rfl hkw
      split at hp
      · rename_i hkw2
        have hS2 := i_kw 2 rfl hkw2
        change i_withSpec "CLASS IS" _ = _ at hp
        obtain ⟨t, h1, h2, h3⟩ := i_withSpec_tokens o ho _ _ _ _ hp hr
        refine ⟨t, h1, ?_, h3⟩
        rw [h2, ← toks_lstrip s, hS, hS2, ← List.append_assoc]; rfl
      · split at hp
        · rename_i hkw2
          have hS2 := i_kw 7 rfl hkw2
          have k : toks "CLASS DEFAULT".toList = toks "CLASS".toList ++ toks "DEFAULT".toList := by decide
          split at hp
          · cases hp
            obtain ⟨i, j, k, rfl, hi, hj, hk⟩ := run3 hr
            have := runSlot_str_ok hi; subst this
            have := runSlot_none_ok hj; subst this
            have hk' := toks_item_of_child ho hk
            obtain ⟨m, rfl, _⟩ := runSlot_child_ok hk
            refine ⟨"CLASS DEFAULT".toList ++ " ".toList ++ o.str m, rfl, ?_, ?_⟩
            · have a2 : toks (o.str m) =
                  toks (lstrip ((lstrip ((lstrip s).drop 5)).drop 7)) := hk'
              rw [← toks_lstrip s, hS, hS2]
              simp only [toks_append, toks_sp, a2, k, List.append_assoc, List.nil_append]
            · intro hb
              have h2 := hb (.node m) (by simp)
              simp only [Item.text] at h2
              simp only [net_append, h2]; decide
          · rename_i hemp
            cases hp
            obtain ⟨i, j, k, rfl, hi, hj, hk⟩ := run3 hr
            have := runSlot_str_ok hi; subst this
            have := runSlot_none_ok hj; subst this
            have := runSlot_none_ok hk; subst this
            refine ⟨"CLASS DEFAULT".toList, rfl, ?_, fun _ => by decide⟩
            rw [← toks_lstrip s, hS, hS2, i_empty hemp, k]; simp
        · cases hp
    · cases hp

example : (planTypeGuard "type is (t) nam".toList).bind (runSlots i_echoH) =
    .ok [.str "TYPE IS".toList, .node "t".toList, .node "nam".toList] := by decide
example : (planTypeGuard "class default nam".toList).bind (runSlots i_echoH) =
    .ok [.str "CLASS DEFAULT".toList, .none, .node "nam".toList] := by decide

/-! ## Type_Attr_Spec / Proc_Attr_Spec -/

/-- a whole-text keyword: `len(s) == n and s.upper() == KW` -/
theorem i_kwWhole {s kw : Str} {n : Nat} (h : (s.length == n && upper s == kw) = true) :
    toks s = toks kw := by
  simp only [Bool.and_eq_true, beq_iff_eq] at h
  rw [← toks_upper s, h.2]

/-- the two-item `[.str kw, .none]` outcome -/
theorem i_attr_bare (o : Oracle Node) (kw s : Str) (items : List (Item Node)) (hk : net kw = 0)
    (hS : toks s = toks kw) (hr : runSlots o [.str kw, .none] = .ok items) :
    ∃ t, tostrAttrSpec o items = .ok t ∧ toks t = toks s ∧
      ((∀ i ∈ items, net (i.text o) = 0) → net t = 0) := by
  obtain ⟨i, j, rfl, hi, hj⟩ := run2 hr
  have := runSlot_str_ok hi; subst this
  have := runSlot_none_ok hj; subst this
  exact ⟨kw, rfl, hS.symm, fun _ => hk⟩

/-- the `KW ( child )` outcome -/
theorem i_attr_paren (o : Oracle Node) (ho : OracleTok o) (kw s : Str) (n : Nat) (c : ClassId)
    (items : List (Item Node)) (hn : kw.length = n) (hk : net kw = 0)
    (hkw : kwIs kw s = true) (hpe : parenEnds (lstrip (s.drop n)) = true)
    (hr : runSlots o [.str kw, .child c (strip (inner (lstrip (s.drop n))))] = .ok items) :
    ∃ t, tostrAttrSpec o items = .ok t ∧ toks t = toks s ∧
      ((∀ i ∈ items, net (i.text o) = 0) → net t = 0) := by
  obtain ⟨i, j, rfl, hi, hj⟩ := run2 hr
  have := runSlot_str_ok hi; subst this
  have hj' := toks_item_of_child ho hj
  obtain ⟨m, rfl, _⟩ := runSlot_child_ok hj
  refine ⟨kw ++ "(".toList ++ o.str m ++ ")".toList, rfl, ?_, ?_⟩
  · have a1 : toks (o.str m) = toks (strip (inner (lstrip (s.drop n)))) := hj'
    rw [i_kw n hn hkw, i_toks_parenEnds hpe]
    simp only [toks_append, a1, List.append_assoc]
  · intro hb
    have h1 := hb (.node m) (by simp)
    simp only [Item.text] at h1
    simp only [net_append, h1, hk]; decide

theorem i_typeAttrSpec_tostr_match_tokens (o : Oracle Node) (ho : OracleTok o) (s : Str)
    (items : List (Item Node)) (hm : (planTypeAttrSpec s).bind (runSlots o) = .ok items) :
    ∃ t, tostrAttrSpec o items = .ok t ∧ toks t = toks s ∧
      ((∀ i ∈ items, net (i.text o) = 0) → net t = 0) := by
  obtain ⟨slots, hp, hr⟩ := Res.bind_eq_ok hm
  unfold planTypeAttrSpec at hp
  split at hp
  · rename_i h
    cases hp
    exact i_attr_bare o _ s items (by decide) (i_kwWhole h) hr
  split at hp
  · rename_i hkw
    dsimp only at hp
    split at hp
    · cases hp
    rename_i hpe
    have hpe' := i_pe_of_not hpe
    split at hp
    · rename_i hc
      have hc' : upper (strip (inner (lstrip (s.drop 4)))) = "C".toList := by simpa using hc
      cases hp
      obtain ⟨i, j, rfl, hi, hj⟩ := run2 hr
      have := runSlot_str_ok hi; subst this
      have := runSlot_str_ok hj; subst this
      refine ⟨"BIND(C)".toList, rfl, ?_, fun _ => by decide⟩
      rw [i_kw 4 rfl hkw, i_toks_parenEnds hpe', ← toks_upper (strip _), hc']
      decide
    · cases hp
  split at hp
  · rename_i hkw
    dsimp only at hp
    split at hp
    · cases hp
    rename_i hpe
    cases hp
    exact i_attr_paren o ho _ s 7 _ items rfl (by decide) hkw (i_pe_of_not hpe) hr
  · cases hp

theorem i_procAttrSpec_tostr_match_tokens (o : Oracle Node) (ho : OracleTok o) (s : Str)
    (items : List (Item Node)) (hm : (planProcAttrSpec s).bind (runSlots o) = .ok items) :
    ∃ t, tostrAttrSpec o items = .ok t ∧ toks t = toks s ∧
      ((∀ i ∈ items, net (i.text o) = 0) → net t = 0) := by
  obtain ⟨slots, hp, hr⟩ := Res.bind_eq_ok hm
  unfold planProcAttrSpec at hp
  split at hp
  · rename_i hkw
    dsimp only at hp
    split at hp
    · cases hp
    split at hp
    · cases hp
    rename_i hpe
    have hpe' : parenEnds (lstrip (s.drop 6)) = true := by simpa using hpe
    cases hp
    exact i_attr_paren o ho _ s 6 _ items rfl (by decide) hkw hpe' hr
  split at hp
  · rename_i h; cases hp
    exact i_attr_bare o _ s items (by decide) (i_kwWhole h) hr
  split at hp
  · rename_i h; cases hp
    exact i_attr_bare o _ s items (by decide) (i_kwWhole h) hr
  split at hp
  · rename_i h; cases hp
    exact i_attr_bare o _ s items (by decide) (i_kwWhole h) hr
  split at hp
  · rename_i h; cases hp
    exact i_attr_bare o _ s items (by decide) (i_kwWhole h) hr
  · cases hp

example : (planTypeAttrSpec "extends ( base )".toList).bind (runSlots i_echoH) =
    .ok [.str "EXTENDS".toList, .node "base".toList] := by decide
example : (planProcAttrSpec "intent ( in )".toList).bind (runSlots i_echoH) =
    .ok [.str "INTENT".toList, .node "in".toList] := by decide

/-! ## Parent_Identifier -/

theorem i_toks_lrstrip (s : Str) : toks (lrstrip s) = toks s := by
  unfold lrstrip; rw [toks_rstrip, toks_lstrip]

theorem i_parentIdentifier_tostr_match_tokens (o : Oracle Node) (ho : OracleTok o) (s : Str)
    (items : List (Item Node)) (hm : (planParentIdentifier s).bind (runSlots o) = .ok items) :
    ∃ t, tostrParentIdentifier o items = .ok t ∧ toks t = toks s ∧
      ((∀ i ∈ items, net (i.text o) = 0) → net t = 0) := by
  obtain ⟨slots, hp, hr⟩ := Res.bind_eq_ok hm
  have hj : Combi.joinStr [':'] (splitC ':' s) = s := by
    have := Combi.joinStr_splitGo [':'] (by simp) s 0
    simpa [splitC] using this
  unfold planParentIdentifier at hp
  split at hp
  · rename_i a hsp
    rw [hsp] at hj
    have hj' : a = s := by simpa [Combi.joinStr] using hj
    subst hj'
    cases hp
    obtain ⟨i, j, rfl, hi, hj2⟩ := run2 hr
    have hi' := toks_item_of_child ho hi
    have := runSlot_none_ok hj2; subst this
    obtain ⟨n, rfl, _⟩ := runSlot_child_ok hi
    refine ⟨o.str n, rfl, ?_, ?_⟩
    · have a1 : toks (o.str n) = toks (lrstrip a) := hi'
      rw [a1, i_toks_lrstrip]
    · intro hb
      have h1 := hb (.node n) (by simp)
      simpa only [Item.text] using h1
  · rename_i a b hsp
    rw [hsp] at hj
    have hj' : a ++ (":".toList ++ b) = s := by simpa [Combi.joinStr] using hj
    subst hj'
    cases hp
    obtain ⟨i, j, rfl, hi, hj2⟩ := run2 hr
    have hi' := toks_item_of_child ho hi
    have hj2' := toks_item_of_child ho hj2
    obtain ⟨n, rfl, _⟩ := runSlot_child_ok hi
    obtain ⟨m, rfl, _⟩ := runSlot_child_ok hj2
    refine ⟨o.str n ++ ":".toList ++ o.str m, rfl, ?_, ?_⟩
    · have a1 : toks (o.str n) = toks (lrstrip a) := hi'
      have a2 : toks (o.str m) = toks (lrstrip b) := hj2'
      simp only [toks_append, a1, a2, i_toks_lrstrip, List.append_assoc]
    · intro hb
      have h1 := hb (.node n) (by simp)
      have h2 := hb (.node m) (by simp)
      simp only [Item.text] at h1 h2
      simp only [net_append, h1, h2]; decide
  · cases hp

example : (planParentIdentifier " a : b ".toList).bind (runSlots i_echoH) =
    .ok [.node "a".toList, .node "b".toList] := by decide

/-! ## 6. Submodule_Stmt -/

/-- the three pieces of `splitparen` concatenate to the text (`splitparen_join'`) -/
theorem i_pieces3 {x a b c : Str} (h : splitparenPieces x = [a, b, c]) : x = a ++ (b ++ c) := by
  have hj := splitparen_join' x defaultPairs
  unfold pjoin at hj
  unfold splitparenPieces at h
  rw [h] at hj
  simpa using hj.symm

theorem i_submodule_raises {s : Str} {e : Exc} (h : planSubmodule s = .raises e) : e = .indexError := by
  unfold planSubmodule at h
  split at h
  · cases h
  split at h
  · split at h
    · cases h
    split at h
    · split at h
      · cases h
      split at h
      · cases h
      · cases h
    · cases h; rfl
  · cases h

/-- **Submodule_Stmt**: `submodule(a:b)c` → `SUBMODULE (a:b) c` -/
theorem i_submodule_tostr_match_tokens (o : Oracle Node) (ho : OracleTok o) (s : Str)
    (items : List (Item Node)) (hm : (planSubmodule s).bind (runSlots o) = .ok items) :
    ∃ t, tostrSubmodule o items = .ok t ∧ toks t = toks s ∧
      ((∀ i ∈ items, net (i.text o) = 0) → net t = 0) := by
  obtain ⟨slots, hp, hr⟩ := Res.bind_eq_ok hm
  unfold planSubmodule at hp
  split at hp
  · cases hp
  rename_i hkw
  have hkw' : kwIs "SUBMODULE".toList s = true := by simpa using hkw
  have hS := i_kw 9 rfl hkw'
  split at hp
  · rename_i sp par nm hpieces
    have hx := i_pieces3 hpieces
    split at hp
    · cases hp
    rename_i hsp
    have hsp' : sp = [] := by simpa using hsp
    subst hsp'
    split at hp
    · rename_i h l hh hl
      split at hp
      · cases hp
      rename_i h1
      split at hp
      · cases hp
      rename_i h2
      have h1' : h = '(' := by simpa using h1
      have h2' : l = ')' := by simpa using h2
      subst h1' h2'
      cases hp
      obtain ⟨i, j, rfl, hi, hj⟩ := run2 hr
      have hi' := toks_item_of_child ho hi
      have hj' := toks_item_of_child ho hj
      obtain ⟨n, rfl, _⟩ := runSlot_child_ok hi
      obtain ⟨m, rfl, _⟩ := runSlot_child_ok hj
      have hpar := toks_paren_shape hh hl
      rw [toks_strip] at hpar
      have k1 : toks "SUBMODULE (".toList = toks "SUBMODULE".toList ++ toks "(".toList := by decide
      have k2 : toks ") ".toList = toks ")".toList := by decide
      refine ⟨"SUBMODULE (".toList ++ o.str n ++ ") ".toList ++ o.str m, rfl, ?_, ?_⟩
      · have a1 : toks (o.str n) = toks (lrstrip (inner par)) := hi'
        have a2 : toks (o.str m) = toks nm := hj'
        rw [hS, hx]
        simp only [toks_append, hpar, a1, a2, k1, k2, i_toks_lrstrip, List.nil_append, List.append_assoc]
      · intro hb
        have h1 := hb (.node n) (by simp)
        have h2 := hb (.node m) (by simp)
        simp only [Item.text] at h1 h2
        simp only [net_append, h1, h2]; decide
    · cases hp
  · cases hp

example : (planSubmodule "submodule(a:b)c".toList).bind (runSlots i_echoH) =
    .ok [.node "a:b".toList, .node "c".toList] := by decide

/-! ## 8. totality (C06): no exception of their own, no `Slot.raise` -/

theorem i_planElse_total : PlanTotal planElse := by
  apply planTotal_of_resTotal
  intro s
  unfold planElse
  repeat rt_step

theorem i_planElsewhere_total : PlanTotal planElsewhere := by
  apply planTotal_of_resTotal
  intro s
  unfold planElsewhere
  repeat rt_step

theorem i_planMaskedElsewhere_total : PlanTotal planMaskedElsewhere := by
  apply planTotal_of_resTotal
  intro s
  unfold planMaskedElsewhere
  repeat rt_step

theorem i_planInterface_total : PlanTotal planInterface := by
  apply planTotal_of_resTotal
  intro s
  unfold planInterface
  repeat rt_step

theorem i_planGenericSpec_total : PlanTotal planGenericSpec := by
  apply planTotal_of_resTotal
  intro s
  unfold planGenericSpec
  repeat rt_step

theorem i_dtioOne_total {rw s : Str} {r : Res (List Slot)} (h : dtioOne rw s = some r) : ResTotal r := by
  unfold dtioOne at h
  split at h
  · dsimp only at h
    split at h
    · cases h; exact ResTotal.noMatch
    split at h
    · cases h; exact ResTotal.noMatch
    split at h
    · cases h; rt_leaf
    · cases h
  · cases h

theorem i_planDtio_total : PlanTotal planDtio := by
  apply planTotal_of_resTotal
  intro s
  unfold planDtio
  split
  · rename_i r h; exact i_dtioOne_total h
  · split
    · rename_i r h; exact i_dtioOne_total h
    · exact ResTotal.noMatch

theorem i_planExtendedIntrinsicOp_total : PlanTotal planExtendedIntrinsicOp := by
  apply planTotal_of_resTotal
  intro s
  unfold planExtendedIntrinsicOp
  repeat rt_step

theorem i_planProcedureStmt_total (std : Std) : PlanTotal (planProcedureStmt std) := by
  apply planTotal_of_resTotal
  intro s
  constructor
  · intro e he
    cases std with
    | f2003 =>
      unfold planProcedureStmt at he
      dsimp only at he
      by_cases hmod : kwIs "MODULE".toList s = true
      · rw [if_pos hmod] at he
        split at he <;> cases he
      · rw [if_neg hmod] at he
        split at he <;> cases he
    | f2008 =>
      cases hp : planProcedureStmt .f2008 s with
      | ok slots => rw [hp] at he; cases he
      | noMatch => rw [hp] at he; cases he
      | raises e' =>
        exfalso
        unfold planProcedureStmt at hp
        dsimp only at hp
        by_cases hmod : kwIs "MODULE".toList (lstrip s) = true
        · rw [if_pos hmod] at hp
          dsimp only at hp
          split at hp
          · cases hp
          by_cases hcc : ((lstrip ((lstrip ((lstrip s).drop 6)).drop 9)).take 2 == "::".toList) = true
          · rw [if_pos hcc] at hp; cases hp
          · rw [if_neg hcc] at hp; cases hp
        · rw [if_neg hmod] at hp
          dsimp only at hp
          split at hp
          · cases hp
          by_cases hcc : ((lstrip ((lstrip s).drop 9)).take 2 == "::".toList) = true
          · rw [if_pos hcc] at hp; cases hp
          · rw [if_neg hcc] at hp; cases hp
  · intro slots hs
    cases std with
    | f2003 =>
      unfold planProcedureStmt at hs
      dsimp only at hs
      by_cases hmod : kwIs "MODULE".toList s = true
      · rw [if_pos hmod] at hs
        split at hs
        · cases hs
        · cases hs
          simp only [noRaise_cons, noRaise_nil, isRaise_child, and_self]
      · rw [if_neg hmod] at hs
        split at hs
        · cases hs
        · cases hs
          simp only [noRaise_cons, noRaise_nil, isRaise_child, and_self]
    | f2008 =>
      obtain ⟨l, om, oc, rfl, hom, hoc, _⟩ := i_proc08_shape hs
      rcases hom with rfl | rfl <;> rcases hoc with rfl | rfl <;>
        simp only [noRaise_cons, noRaise_nil, isRaise_child, isRaise_none, isRaise_str, and_self]

theorem i_planSelectType_total : PlanTotal planSelectType := by
  apply planTotal_of_resTotal
  intro s
  unfold planSelectType
  repeat rt_step

theorem i_planTypeGuard_total : PlanTotal planTypeGuard := by
  apply planTotal_of_resTotal
  intro s
  unfold planTypeGuard
  dsimp only
  repeat rt_step

theorem i_planTypeAttrSpec_total : PlanTotal planTypeAttrSpec := by
  apply planTotal_of_resTotal
  intro s
  unfold planTypeAttrSpec
  repeat rt_step

theorem i_planProcAttrSpec_total : PlanTotal planProcAttrSpec := by
  apply planTotal_of_resTotal
  intro s
  unfold planProcAttrSpec
  repeat rt_step

theorem i_planParentIdentifier_total : PlanTotal planParentIdentifier := by
  apply planTotal_of_resTotal
  intro s
  unfold planParentIdentifier
  repeat rt_step

/-! ## 7. fixpoints (C01): what a class prints is matched again by the class, with the same items -/

theorem i_strip_sp {A : Str} (hl : lstrip A = A) (hr : rstrip A = A) (h0 : A ≠ []) :
    strip (' ' :: A) = A := by
  have : rstrip (' ' :: A) = ' ' :: A := by
    simpa using Combi.rstrip_append_of_self [' '] hr h0
  rw [strip, this, Combi.lstrip_space_cons, hl]

theorem i_lstrip_sp {A : Str} (hl : lstrip A = A) : lstrip (' ' :: A) = A := by
  rw [Fp.Combi.lstrip_space_cons, hl]

theorem i_par_pe (A : Str) : parenEnds ('(' :: (A ++ [')'])) = true := by
  simp [parenEnds, par_last]

/-! ### Else_Stmt -/

theorem i_else_fixpoint_none (o : Oracle Node) :
    ∃ t, tostrElse o [.none] = .ok t ∧ (planElse t).bind (runSlots o) = .ok [.none] := by
  refine ⟨"ELSE".toList, rfl, ?_⟩
  have : planElse "ELSE".toList = .ok [.none] := by decide
  rw [this]; rfl

theorem i_planElse_printed (A : Str) (hl : lstrip A = A) (h0 : A ≠ []) :
    planElse ("ELSE ".toList ++ A) = .ok [.child C.If_Construct_Name A] := by
  simp +decide [planElse, kwIs, i_lstrip_sp hl, isEmpty_false h0]

/-- **Else_Stmt** with a construct name: the name's text must be left-tight and non-empty -/
theorem i_else_match_tostr_fixpoint (o : Oracle Node) (a : Node)
    (hrt : OracleRT o C.If_Construct_Name a)
    (hl : lstrip (o.str a) = o.str a) (h0 : o.str a ≠ []) :
    ∃ t, tostrElse o [.node a] = .ok t ∧ (planElse t).bind (runSlots o) = .ok [.node a] := by
  refine ⟨"ELSE ".toList ++ o.str a, rfl, ?_⟩
  rw [i_planElse_printed _ hl h0]
  simp [runSlots, run_child o hrt]

/-- side conditions are needed: an empty name text is lost, a blank-led one is stripped -/
theorem i_else_fixpoint_counter :
    (planElse ("ELSE ".toList ++ "".toList)).bind (runSlots i_echoH) = .ok [.none] ∧
    (planElse ("ELSE ".toList ++ " x".toList)).bind (runSlots i_echoH) = .ok [.node "x".toList] := by
  decide

/-! ### Elsewhere_Stmt -/

theorem i_elsewhere_fixpoint_none (o : Oracle Node) :
    ∃ t, combiStr o i_specElsewhere [.str "ELSEWHERE".toList, .none] = .ok t ∧
      (planElsewhere t).bind (runSlots o) = .ok [.str "ELSEWHERE".toList, .none] := by
  refine ⟨"ELSEWHERE".toList, rfl, ?_⟩
  have : planElsewhere "ELSEWHERE".toList = .ok [.str "ELSEWHERE".toList, .none] := by decide
  rw [this]; rfl

theorem i_elsewhereRest_printed (X : Str) : elsewhereRest ("ELSEWHERE".toList ++ X) = some X := rfl

theorem i_planElsewhere_printed1 (B : Str) (hl : lstrip B = B) (h0 : B ≠ []) :
    planElsewhere ("ELSEWHERE".toList ++ ' ' :: B) =
      .ok [.str "ELSEWHERE".toList, .child C.Where_Construct_Name B] := by
  unfold planElsewhere
  rw [i_elsewhereRest_printed]
  simp only [i_lstrip_sp hl, isEmpty_false h0]
  rfl

theorem i_planElsewhere_printed2 (B : Str) (hl : lstrip B = B) (h0 : B ≠ []) :
    planElsewhere ("ELSEWHERE".toList ++ B) =
      .ok [.str "ELSEWHERE".toList, .child C.Where_Construct_Name B] := by
  unfold planElsewhere
  rw [i_elsewhereRest_printed]
  simp only [hl, isEmpty_false h0]
  rfl

theorem i_wordStr_cons (w : Str) (c : Char) (r : Str) :
    Combi.wordStr textOracle [.str w, .node (c :: r)] =
      if (c == '(' || c == '*') = true then w ++ c :: r else w ++ ' ' :: c :: r := rfl

theorem i_run_sc {o : Oracle Node} {c : ClassId} {a : Node} (w : Str) (h : OracleRT o c a) :
    runSlots o [.str w, .child c (o.str a)] = .ok [.str w, .node a] := by
  simp [runSlots, run_child o h]

theorem i_run_scn {o : Oracle Node} {c : ClassId} {a : Node} (w : Str) (h : OracleRT o c a) :
    runSlots o [.str w, .child c (o.str a), .none] = .ok [.str w, .node a, .none] := by
  simp [runSlots, run_child o h]

theorem i_run_scc {o : Oracle Node} {c d : ClassId} {a b : Node} (w : Str) (h : OracleRT o c a)
    (h2 : OracleRT o d b) :
    runSlots o [.str w, .child c (o.str a), .child d (o.str b)] = .ok [.str w, .node a, .node b] := by
  simp [runSlots, run_child o h, run_child o h2]

theorem i_run_snc {o : Oracle Node} {c : ClassId} {a : Node} (w : Str) (h : OracleRT o c a) :
    runSlots o [.str w, .none, .child c (o.str a)] = .ok [.str w, .none, .node a] := by
  simp [runSlots, run_child o h]

/-- **Elsewhere_Stmt** with a construct name (`WORDClsBase.tostr`: no blank before `(` / `*`) -/
theorem i_elsewhere_match_tostr_fixpoint (o : Oracle Node) (b : Node)
    (hrt : OracleRT o C.Where_Construct_Name b)
    (hl : lstrip (o.str b) = o.str b) (h0 : o.str b ≠ []) :
    ∃ t, combiStr o i_specElsewhere [.str "ELSEWHERE".toList, .node b] = .ok t ∧
      (planElsewhere t).bind (runSlots o) = .ok [.str "ELSEWHERE".toList, .node b] := by
  refine ⟨Combi.wordStr textOracle [.str "ELSEWHERE".toList, .node (o.str b)], rfl, ?_⟩
  have e : (planElsewhere (Combi.wordStr textOracle [.str "ELSEWHERE".toList, .node (o.str b)])) =
      .ok [.str "ELSEWHERE".toList, .child C.Where_Construct_Name (o.str b)] := by
    obtain ⟨c, r, hb⟩ : ∃ c r, o.str b = c :: r := by
      cases hb : o.str b with
      | nil => exact absurd hb h0
      | cons c r => exact ⟨c, r, rfl⟩
    rw [hb] at hl h0
    rw [hb, i_wordStr_cons]
    split
    · exact i_planElsewhere_printed2 _ hl h0
    · exact i_planElsewhere_printed1 _ hl h0
  rw [e, Res.bind_ok, i_run_sc _ hrt]

theorem i_elsewhere_fixpoint_counter :
    (planElsewhere ("ELSEWHERE ".toList ++ "".toList)).bind (runSlots i_echoH) =
      .ok [.str "ELSEWHERE".toList, .none] ∧
    (planElsewhere ("ELSEWHERE ".toList ++ " x".toList)).bind (runSlots i_echoH) =
      .ok [.str "ELSEWHERE".toList, .node "x".toList] := by
  decide

/-! ### Masked_Elsewhere_Stmt -/

theorem i_planMaskedElsewhere_printed1 (A : Str) (hl : lstrip A = A) (hr : rstrip A = A) (h0 : A ≠ []) :
    planMaskedElsewhere ("ELSEWHERE(".toList ++ A ++ ")".toList) = .ok [.child C.Mask_Expr A, .none] := by
  have hc := cutLast_par A [] (by simp)
  simp +decide [planMaskedElsewhere, elsewhereRest, kwIs, startsC, lstrip_cons, hc,
    Combi.strip_self hl hr, isEmpty_false h0]

theorem i_planMaskedElsewhere_printed2 (A B : Str) (hl : lstrip A = A) (hr : rstrip A = A) (h0 : A ≠ [])
    (hB : ')' ∉ B) (hBr : rstrip B = B) (hB0 : B ≠ []) :
    planMaskedElsewhere ("ELSEWHERE(".toList ++ A ++ ") ".toList ++ B) =
      .ok [.child C.Mask_Expr A, .child C.Where_Construct_Name (' ' :: B)] := by
  have hc := cutLast_par A (' ' :: B) (by simp [hB])
  have hrs : rstrip (' ' :: B) = ' ' :: B := by
    simpa using Fp.Combi.rstrip_append_of_self [' '] hBr hB0
  simp +decide [planMaskedElsewhere, elsewhereRest, kwIs, startsC, lstrip_cons, hc,
    Combi.strip_self hl hr, isEmpty_false h0, hrs]

/-- **Masked_Elsewhere_Stmt**, no construct name -/
theorem i_maskedElsewhere_match_tostr_fixpoint_1 (o : Oracle Node) (a : Node)
    (hrt : OracleRT o C.Mask_Expr a)
    (hl : lstrip (o.str a) = o.str a) (hr : rstrip (o.str a) = o.str a) (h0 : o.str a ≠ []) :
    ∃ t, tostrMaskedElsewhere o [.node a, .none] = .ok t ∧
      (planMaskedElsewhere t).bind (runSlots o) = .ok [.node a, .none] := by
  refine ⟨"ELSEWHERE(".toList ++ o.str a ++ ")".toList, rfl, ?_⟩
  rw [i_planMaskedElsewhere_printed1 _ hl hr h0]
  simp [runSlots, run_child o hrt]

/-- **Masked_Elsewhere_Stmt** with a construct name.  The Python takes `line[i+1:].rstrip()` (not
    `.strip()`): the child `Where_Construct_Name` is handed the name WITH its separating blank, so
    the hypothesis on the child is "re-matches from `' ' ++ str`" (`hrtb`), not `OracleRT`. -/
theorem i_maskedElsewhere_match_tostr_fixpoint_2 (o : Oracle Node) (a b : Node)
    (hrt : OracleRT o C.Mask_Expr a)
    (hrtb : o.call C.Where_Construct_Name (' ' :: o.str b) = .ok b)
    (hl : lstrip (o.str a) = o.str a) (hr : rstrip (o.str a) = o.str a) (h0 : o.str a ≠ [])
    (hB : ')' ∉ o.str b) (hBr : rstrip (o.str b) = o.str b) (hB0 : o.str b ≠ []) :
    ∃ t, tostrMaskedElsewhere o [.node a, .node b] = .ok t ∧
      (planMaskedElsewhere t).bind (runSlots o) = .ok [.node a, .node b] := by
  refine ⟨"ELSEWHERE(".toList ++ o.str a ++ ") ".toList ++ o.str b, rfl, ?_⟩
  rw [i_planMaskedElsewhere_printed2 _ _ hl hr h0 hB hBr hB0]
  have h2 : runSlot o (.child C.Where_Construct_Name (' ' :: o.str b)) = .ok (.node b) := by
    simp [runSlot, hrtb]
  simp [runSlots, run_child o hrt, h2]

/-- counter-examples: the name is handed over with its blank (so plain `OracleRT` is not enough: the
    echo oracle gives ` n`); a `)` in the name moves the cut; an empty mask is refused -/
theorem i_maskedElsewhere_fixpoint_counter :
    (planMaskedElsewhere "ELSEWHERE(m) n".toList).bind (runSlots i_echoH) =
      .ok [.node "m".toList, .node " n".toList] ∧
    (planMaskedElsewhere ("ELSEWHERE(".toList ++ "m".toList ++ ") ".toList ++ "n)".toList)).bind
      (runSlots i_echoH) = .ok [.node "m) n".toList, .none] ∧
    (planMaskedElsewhere ("ELSEWHERE(".toList ++ "".toList ++ ")".toList)).bind (runSlots i_echoH) =
      .noMatch := by
  decide

/-! ### Interface_Stmt -/

theorem i_interface_fixpoint_none (o : Oracle Node) :
    ∃ t, tostrInterface o [.none] = .ok t ∧ (planInterface t).bind (runSlots o) = .ok [.none] := by
  refine ⟨"INTERFACE".toList, rfl, ?_⟩
  have : planInterface "INTERFACE".toList = .ok [.none] := by decide
  rw [this]; rfl

theorem i_interface_fixpoint_abstract (o : Oracle Node) :
    ∃ t, tostrInterface o [.str "ABSTRACT".toList] = .ok t ∧
      (planInterface t).bind (runSlots o) = .ok [.str "ABSTRACT".toList] := by
  refine ⟨"ABSTRACT INTERFACE".toList, rfl, ?_⟩
  have : planInterface "ABSTRACT INTERFACE".toList = .ok [.str "ABSTRACT".toList] := by decide
  rw [this]; rfl

theorem i_planInterface_printed (A : Str) (hl : lstrip A = A) (hr : rstrip A = A) (h0 : A ≠ []) :
    planInterface ("INTERFACE ".toList ++ A) = .ok [.child C.Generic_Spec A] := by
  simp +decide [planInterface, kwIs, i_strip_sp hl hr h0, isEmpty_false h0]

/-- **Interface_Stmt** with a generic spec -/
theorem i_interface_match_tostr_fixpoint (o : Oracle Node) (a : Node)
    (hrt : OracleRT o C.Generic_Spec a)
    (hl : lstrip (o.str a) = o.str a) (hr : rstrip (o.str a) = o.str a) (h0 : o.str a ≠ []) :
    ∃ t, tostrInterface o [.node a] = .ok t ∧ (planInterface t).bind (runSlots o) = .ok [.node a] := by
  refine ⟨"INTERFACE ".toList ++ o.str a, rfl, ?_⟩
  rw [i_planInterface_printed _ hl hr h0]
  simp [runSlots, run_child o hrt]

theorem i_interface_fixpoint_counter :
    (planInterface ("INTERFACE ".toList ++ "".toList)).bind (runSlots i_echoH) = .ok [.none] ∧
    (planInterface ("INTERFACE ".toList ++ "g ".toList)).bind (runSlots i_echoH) = .ok [.node "g".toList] ∧
    (planInterface ("INTERFACE ".toList ++ " g".toList)).bind (runSlots i_echoH) = .ok [.node "g".toList] := by
  decide

/-! ### Generic_Spec -/

theorem i_planGenericSpec_printed (A : Str) (hl : lstrip A = A) (hr : rstrip A = A) :
    planGenericSpec ("OPERATOR".toList ++ "(".toList ++ A ++ ")".toList) =
      .ok [.str "OPERATOR".toList, .child C.Defined_Operator A] := by
  simp +decide [planGenericSpec, kwIs, lstrip_cons, i_par_pe, par_inner, Combi.strip_self hl hr]

/-- **Generic_Spec**, `OPERATOR(defined-operator)` -/
theorem i_genericSpec_match_tostr_fixpoint (o : Oracle Node) (a : Node)
    (hrt : OracleRT o C.Defined_Operator a)
    (hl : lstrip (o.str a) = o.str a) (hr : rstrip (o.str a) = o.str a) :
    ∃ t, tostrCallLike o [.str "OPERATOR".toList, .node a] = .ok t ∧
      (planGenericSpec t).bind (runSlots o) = .ok [.str "OPERATOR".toList, .node a] := by
  refine ⟨"OPERATOR".toList ++ "(".toList ++ o.str a ++ ")".toList, rfl, ?_⟩
  rw [i_planGenericSpec_printed _ hl hr]
  simp [runSlots, run_child o hrt]

theorem i_genericSpec_fixpoint_assignment (o : Oracle Node) :
    ∃ t, tostrCallLike o [.str "ASSIGNMENT".toList, .str "=".toList] = .ok t ∧
      (planGenericSpec t).bind (runSlots o) = .ok [.str "ASSIGNMENT".toList, .str "=".toList] := by
  refine ⟨"ASSIGNMENT(=)".toList, rfl, ?_⟩
  have : planGenericSpec "ASSIGNMENT(=)".toList = .ok [.str "ASSIGNMENT".toList, .str "=".toList] := by
    decide
  rw [this]; rfl

theorem i_genericSpec_fixpoint_counter :
    (planGenericSpec ("OPERATOR".toList ++ "(".toList ++ " +".toList ++ ")".toList)).bind
      (runSlots i_echoH) = .ok [.str "OPERATOR".toList, .node "+".toList] := by
  decide

/-! ### Select_Type_Stmt -/

theorem i_cutSub2_append : ∀ (A B : Str), cutSub2 '=' '>' A = none →
    cutSub2 '=' '>' (A ++ '=' :: '>' :: B) = some (A, B)
  | [], B, _ => by simp [cutSub2]
  | [x], B, _ => by
    simp +decide [cutSub2]
  | x :: y :: rest, B, h => by
    unfold cutSub2 at h
    split at h
    · cases h
    rename_i hxy
    split at h
    · cases h
    rename_i hrec
    have ih := i_cutSub2_append (y :: rest) B hrec
    simp only [List.cons_append] at ih ⊢
    unfold cutSub2
    rw [if_neg hxy, ih]

theorem i_planSelectType_printed1 (B : Str) (hl : lstrip B = B) (hr : rstrip B = B)
    (hc : cutSub2 '=' '>' B = none) :
    planSelectType ("SELECT TYPE(".toList ++ B ++ ")".toList) = .ok [.none, .child C.Selector B] := by
  simp +decide [planSelectType, kwIs, lstrip_cons, i_par_pe, par_inner, Combi.strip_self hl hr, hc]

/-- **Select_Type_Stmt** without associate name: the selector text is tight and has no `=>` -/
theorem i_selectType_match_tostr_fixpoint_1 (o : Oracle Node) (b : Node)
    (hrt : OracleRT o C.Selector b)
    (hl : lstrip (o.str b) = o.str b) (hr : rstrip (o.str b) = o.str b)
    (hc : cutSub2 '=' '>' (o.str b) = none) :
    ∃ t, tostrSelectType o [.none, .node b] = .ok t ∧
      (planSelectType t).bind (runSlots o) = .ok [.none, .node b] := by
  refine ⟨"SELECT TYPE(".toList ++ o.str b ++ ")".toList, rfl, ?_⟩
  rw [i_planSelectType_printed1 _ hl hr hc]
  simp [runSlots, run_child o hrt]

/-- a selector text with `=>` is split at the re-match -/
theorem i_selectType_fixpoint_counter :
    (planSelectType ("SELECT TYPE(".toList ++ "a=>b".toList ++ ")".toList)).bind (runSlots i_echoH) =
      .ok [.node "a".toList, .node "b".toList] ∧
    (planSelectType ("SELECT TYPE(".toList ++ " b".toList ++ ")".toList)).bind (runSlots i_echoH) =
      .ok [.none, .node "b".toList] := by
  decide

/-! ### Type_Guard_Stmt -/

theorem i_planTypeGuard_printed_default :
    planTypeGuard "CLASS DEFAULT".toList = .ok [.str "CLASS DEFAULT".toList, .none, .none] := by decide

theorem i_planTypeGuard_printed_defaultN (N : Str) (hl : lstrip N = N) (h0 : N ≠ []) :
    planTypeGuard ("CLASS DEFAULT".toList ++ " ".toList ++ N) =
      .ok [.str "CLASS DEFAULT".toList, .none, .child C.Select_Construct_Name N] := by
  simp +decide [planTypeGuard, kwIs, lstrip_cons, i_lstrip_sp hl, hl, isEmpty_false h0]

theorem i_planTypeGuard_printed_type1 (T : Str) (hl : lstrip T = T) (hr : rstrip T = T) (h0 : T ≠ []) :
    planTypeGuard ("TYPE IS".toList ++ " (".toList ++ T ++ ")".toList) =
      .ok [.str "TYPE IS".toList, .child C.Type_Spec T, .none] := by
  have hc := cutLast_par T [] (by simp)
  simp +decide [planTypeGuard, kwIs, startsC, lstrip_cons, hc, Combi.strip_self hl hr, isEmpty_false h0]

theorem i_planTypeGuard_printed_type2 (T N : Str) (hl : lstrip T = T) (hr : rstrip T = T) (h0 : T ≠ [])
    (hN : ')' ∉ N) (hNl : lstrip N = N) (hN0 : N ≠ []) :
    planTypeGuard ("TYPE IS".toList ++ " (".toList ++ T ++ ")".toList ++ " ".toList ++ N) =
      .ok [.str "TYPE IS".toList, .child C.Type_Spec T, .child C.Select_Construct_Name N] := by
  have hc := cutLast_par T (' ' :: N) (by simp [hN])
  simp +decide [planTypeGuard, kwIs, startsC, lstrip_cons, hc, Combi.strip_self hl hr, isEmpty_false h0,
    hNl, isEmpty_false hN0]

theorem i_planTypeGuard_printed_class1 (T : Str) (hl : lstrip T = T) (hr : rstrip T = T) (h0 : T ≠ []) :
    planTypeGuard ("CLASS IS".toList ++ " (".toList ++ T ++ ")".toList) =
      .ok [.str "CLASS IS".toList, .child C.Type_Spec T, .none] := by
  have hc := cutLast_par T [] (by simp)
  simp +decide [planTypeGuard, kwIs, startsC, lstrip_cons, hc, Combi.strip_self hl hr, isEmpty_false h0]

theorem i_planTypeGuard_printed_class2 (T N : Str) (hl : lstrip T = T) (hr : rstrip T = T) (h0 : T ≠ [])
    (hN : ')' ∉ N) (hNl : lstrip N = N) (hN0 : N ≠ []) :
    planTypeGuard ("CLASS IS".toList ++ " (".toList ++ T ++ ")".toList ++ " ".toList ++ N) =
      .ok [.str "CLASS IS".toList, .child C.Type_Spec T, .child C.Select_Construct_Name N] := by
  have hc := cutLast_par T (' ' :: N) (by simp [hN])
  simp +decide [planTypeGuard, kwIs, startsC, lstrip_cons, hc, Combi.strip_self hl hr, isEmpty_false h0,
    hNl, isEmpty_false hN0]

/-- the two guard keywords that take a type spec -/
def i_isGuardKw (k : Str) : Prop := k = "TYPE IS".toList ∨ k = "CLASS IS".toList

/-- **Type_Guard_Stmt** `TYPE IS (t)` / `CLASS IS (t)` -/
theorem i_typeGuard_match_tostr_fixpoint_1 (o : Oracle Node) (k : Str) (t : Node)
    (hk : i_isGuardKw k) (hrt : OracleRT o C.Type_Spec t)
    (hl : lstrip (o.str t) = o.str t) (hr : rstrip (o.str t) = o.str t) (h0 : o.str t ≠ []) :
    ∃ x, tostrTypeGuard o [.str k, .node t, .none] = .ok x ∧
      (planTypeGuard x).bind (runSlots o) = .ok [.str k, .node t, .none] := by
  refine ⟨k ++ " (".toList ++ o.str t ++ ")".toList, rfl, ?_⟩
  rcases hk with rfl | rfl
  · rw [i_planTypeGuard_printed_type1 _ hl hr h0]
    simp [runSlots, run_child o hrt]
  · rw [i_planTypeGuard_printed_class1 _ hl hr h0]
    simp [runSlots, run_child o hrt]

/-- **Type_Guard_Stmt** `TYPE IS (t) name` / `CLASS IS (t) name` -/
theorem i_typeGuard_match_tostr_fixpoint_2 (o : Oracle Node) (k : Str) (t n : Node)
    (hk : i_isGuardKw k) (hrt : OracleRT o C.Type_Spec t) (hrn : OracleRT o C.Select_Construct_Name n)
    (hl : lstrip (o.str t) = o.str t) (hr : rstrip (o.str t) = o.str t) (h0 : o.str t ≠ [])
    (hN : ')' ∉ o.str n) (hNl : lstrip (o.str n) = o.str n) (hN0 : o.str n ≠ []) :
    ∃ x, tostrTypeGuard o [.str k, .node t, .node n] = .ok x ∧
      (planTypeGuard x).bind (runSlots o) = .ok [.str k, .node t, .node n] := by
  refine ⟨k ++ " (".toList ++ o.str t ++ ")".toList ++ " ".toList ++ o.str n, rfl, ?_⟩
  rcases hk with rfl | rfl
  · rw [i_planTypeGuard_printed_type2 _ _ hl hr h0 hN hNl hN0]
    simp [runSlots, run_child o hrt, run_child o hrn]
  · rw [i_planTypeGuard_printed_class2 _ _ hl hr h0 hN hNl hN0]
    simp [runSlots, run_child o hrt, run_child o hrn]

/-- **Type_Guard_Stmt** `CLASS DEFAULT [name]` -/
theorem i_typeGuard_match_tostr_fixpoint_default (o : Oracle Node) :
    ∃ x, tostrTypeGuard o [.str "CLASS DEFAULT".toList, .none, .none] = .ok x ∧
      (planTypeGuard x).bind (runSlots o) = .ok [.str "CLASS DEFAULT".toList, .none, .none] := by
  refine ⟨"CLASS DEFAULT".toList, rfl, ?_⟩
  rw [i_planTypeGuard_printed_default]; rfl

theorem i_typeGuard_match_tostr_fixpoint_defaultN (o : Oracle Node) (n : Node)
    (hrn : OracleRT o C.Select_Construct_Name n)
    (hNl : lstrip (o.str n) = o.str n) (hN0 : o.str n ≠ []) :
    ∃ x, tostrTypeGuard o [.str "CLASS DEFAULT".toList, .none, .node n] = .ok x ∧
      (planTypeGuard x).bind (runSlots o) = .ok [.str "CLASS DEFAULT".toList, .none, .node n] := by
  refine ⟨"CLASS DEFAULT".toList ++ " ".toList ++ o.str n, rfl, ?_⟩
  rw [i_planTypeGuard_printed_defaultN _ hNl hN0]
  simp [runSlots, run_child o hrn]

/-- counter-examples: a `)` in the name moves the `rfind`; an empty type spec is refused; an empty
    name is lost -/
theorem i_typeGuard_fixpoint_counter :
    (planTypeGuard ("TYPE IS".toList ++ " (".toList ++ "t".toList ++ ")".toList ++ " ".toList ++
      "n)".toList)).bind (runSlots i_echoH) = .ok [.str "TYPE IS".toList, .node "t) n".toList, .none] ∧
    (planTypeGuard ("TYPE IS".toList ++ " (".toList ++ "".toList ++ ")".toList)).bind
      (runSlots i_echoH) = .noMatch ∧
    (planTypeGuard ("CLASS DEFAULT".toList ++ " ".toList ++ "".toList)).bind (runSlots i_echoH) =
      .ok [.str "CLASS DEFAULT".toList, .none, .none] ∧
    (planTypeGuard ("TYPE IS".toList ++ " (".toList ++ " t".toList ++ ")".toList)).bind
      (runSlots i_echoH) = .ok [.str "TYPE IS".toList, .node "t".toList, .none] := by
  decide

/-! ### Select_Type_Stmt with an associate name -/

theorem i_planSelectType_inner (X : Str) (hs : strip X = X) :
    planSelectType ("SELECT TYPE(".toList ++ X ++ ")".toList) =
      match cutSub2 '=' '>' X with
      | some (l, r) => .ok [.child C.Associate_Name (rstrip l), .child C.Selector (lstrip r)]
      | none => .ok [.none, .child C.Selector X] := by
  simp +decide [planSelectType, kwIs, lstrip_cons, i_par_pe, par_inner, hs]
  cases cutSub2 '=' '>' X with
  | none => rfl
  | some p => obtain ⟨l, r⟩ := p; rfl

theorem i_planSelectType_printed2 (A B : Str) (hAl : lstrip A = A) (hAr : rstrip A = A)
    (hBl : lstrip B = B) (hBr : rstrip B = B) (hc : cutSub2 '=' '>' A = none) :
    planSelectType ("SELECT TYPE(".toList ++ A ++ "=>".toList ++ B ++ ")".toList) =
      .ok [.child C.Associate_Name A, .child C.Selector B] := by
  have hl : lstrip (A ++ '=' :: '>' :: B) = A ++ '=' :: '>' :: B := lstrip_append_ns '=' _ hAl (by decide)
  have hr : rstrip (A ++ '=' :: '>' :: B) = A ++ '=' :: '>' :: B := by
    cases B with
    | nil =>
      have := Combi.rstrip_append_of_self (A ++ ['=']) (b := ['>']) (by decide) (by decide)
      simpa using this
    | cons d B' =>
      have := Combi.rstrip_append_of_self (A ++ ['=', '>']) hBr (by simp)
      simpa using this
  have hs := Combi.strip_self hl hr
  have hcut := i_cutSub2_append A B hc
  have e : "SELECT TYPE(".toList ++ A ++ "=>".toList ++ B ++ ")".toList =
      "SELECT TYPE(".toList ++ (A ++ '=' :: '>' :: B) ++ ")".toList := by simp
  rw [e, i_planSelectType_inner _ hs, hcut]
  simp only [hAr, hBl]

/-- **Select_Type_Stmt** with associate name: both texts tight, no `=>` in the associate name -/
theorem i_selectType_match_tostr_fixpoint_2 (o : Oracle Node) (a b : Node)
    (hrta : OracleRT o C.Associate_Name a) (hrtb : OracleRT o C.Selector b)
    (hAl : lstrip (o.str a) = o.str a) (hAr : rstrip (o.str a) = o.str a)
    (hBl : lstrip (o.str b) = o.str b) (hBr : rstrip (o.str b) = o.str b)
    (hc : cutSub2 '=' '>' (o.str a) = none) :
    ∃ t, tostrSelectType o [.node a, .node b] = .ok t ∧
      (planSelectType t).bind (runSlots o) = .ok [.node a, .node b] := by
  refine ⟨"SELECT TYPE(".toList ++ o.str a ++ "=>".toList ++ o.str b ++ ")".toList, rfl, ?_⟩
  rw [i_planSelectType_printed2 _ _ hAl hAr hBl hBr hc]
  simp [runSlots, run_child o hrta, run_child o hrtb]

/-- an associate-name text with `=>` is cut earlier at the re-match -/
theorem i_selectType_fixpoint_counter2 :
    (planSelectType ("SELECT TYPE(".toList ++ "a=>c".toList ++ "=>".toList ++ "b".toList ++
      ")".toList)).bind (runSlots i_echoH) = .ok [.node "a".toList, .node "c=>b".toList] := by
  decide

/-! ### non-vacuity of the hypotheses (echo oracle) -/

theorem i_echoH_rt (c : ClassId) (n : Str) : OracleRT i_echoH c n := rfl

example : ∃ t, tostrElse i_echoH [.node "nam".toList] = .ok t ∧
    (planElse t).bind (runSlots i_echoH) = .ok [.node "nam".toList] :=
  i_else_match_tostr_fixpoint i_echoH "nam".toList (i_echoH_rt _ _) (by decide) (by decide)
example := i_elsewhere_match_tostr_fixpoint i_echoH "nam".toList (i_echoH_rt _ _) (by decide) (by decide)
example := i_maskedElsewhere_match_tostr_fixpoint_1 i_echoH "a > 0".toList (i_echoH_rt _ _)
  (by decide) (by decide) (by decide)
/-- the construct-name child of a masked ELSEWHERE must take the blank-led text: an oracle that strips -/
def i_stripH : Oracle Str :=
  { call := fun _ t => .ok (strip t), str := id, head := fun _ => none, rhsStr := fun _ => [],
    heads := fun _ => [], isDataEdit := fun _ => false }
example := i_maskedElsewhere_match_tostr_fixpoint_2 i_stripH "m".toList "nam".toList (by rfl)
  (by rfl) (by decide) (by decide) (by decide) (by decide) (by decide) (by decide)
example := i_interface_match_tostr_fixpoint i_echoH "operator(+)".toList (i_echoH_rt _ _)
  (by decide) (by decide) (by decide)
example := i_genericSpec_match_tostr_fixpoint i_echoH "+".toList (i_echoH_rt _ _) (by decide) (by decide)
example := i_selectType_match_tostr_fixpoint_1 i_echoH "x".toList (i_echoH_rt _ _)
  (by decide) (by decide) (by decide)
example := i_selectType_match_tostr_fixpoint_2 i_echoH "a".toList "x".toList (i_echoH_rt _ _)
  (i_echoH_rt _ _) (by decide) (by decide) (by decide) (by decide) (by decide)
example := i_typeGuard_match_tostr_fixpoint_1 i_echoH "TYPE IS".toList "t".toList (.inl rfl)
  (i_echoH_rt _ _) (by decide) (by decide) (by decide)
example := i_typeGuard_match_tostr_fixpoint_2 i_echoH "CLASS IS".toList "t".toList "nam".toList (.inr rfl)
  (i_echoH_rt _ _) (i_echoH_rt _ _) (by decide) (by decide) (by decide) (by decide) (by decide) (by decide)
example := i_typeGuard_match_tostr_fixpoint_defaultN i_echoH "nam".toList (i_echoH_rt _ _)
  (by decide) (by decide)

example : (planElsewhere "else  where nam".toList).bind (runSlots i_echoH) =
    .ok [.str "ELSEWHERE".toList, .node "nam".toList] ∧
    combiStr i_echoH i_specElsewhere [.str "ELSEWHERE".toList, .node "nam".toList] =
      .ok "ELSEWHERE nam".toList := by decide
example : (planMaskedElsewhere "elsewhere (a > 0) nam".toList).bind (runSlots i_echoH) =
    .ok [.node "a > 0".toList, .node " nam".toList] := by decide
example : (planInterface "abstract interface".toList).bind (runSlots i_echoH) =
    .ok [.str "ABSTRACT".toList] := by decide
example : (planGenericSpec "operator ( + )".toList).bind (runSlots i_echoH) =
    .ok [.str "OPERATOR".toList, .node "+".toList] ∧
    (planGenericSpec "assignment ( = )".toList).bind (runSlots i_echoH) =
    .ok [.str "ASSIGNMENT".toList, .str "=".toList] := by decide
example : (planSelectType "select type ( a => x )".toList).bind (runSlots i_echoH) =
    .ok [.node "a".toList, .node "x".toList] := by decide
example : (planProcedureStmt .f2003 "module procedure a".toList).bind (runSlots i_echoH) =
    .ok [.node "a".toList] := by decide
example : (planExtendedIntrinsicOp ".eq.".toList).bind (runSlots i_echoH) = .ok [.str ".eq.".toList] := by
  decide

/-! ## 6b. Submodule_Stmt raises nothing: the middle piece of a three-piece `splitparen` is a
`ParenString`, never empty, so `line[0]` / `line[-1]` cannot raise `IndexError` -/

/-- in the (reversed) item list of the `splitparen` loop every item at an odd position (counted from
    the start of the line) is non-empty: those are the `ParenString`s -/
def i_Good : List PItem → Prop
  | [] => True
  | x :: rest => (rest.length % 2 = 1 → x.str ≠ []) ∧ i_Good rest

def i_Inv (st : PState) : Prop := i_Good st.items ∧ (st.stack = [] ↔ st.items.length % 2 = 0)

theorem i_parenStep_inv (pairs : List (Char × Char)) (st : PState) (c : Char) (h : i_Inv st) :
    i_Inv (parenStep pairs st c) := by
  obtain ⟨hg, hp⟩ := h
  unfold parenStep
  repeat' split
  all_goals first
    | exact ⟨hg, hp⟩
    | (refine ⟨?_, ?_⟩ <;> simp_all [i_Good, PItem.str, List.isEmpty_iff] <;> omega)

theorem i_foldl_inv (pairs : List (Char × Char)) : ∀ (l : Str) (st : PState), i_Inv st →
    i_Inv (l.foldl (parenStep pairs) st)
  | [], st, h => h
  | c :: cs, st, h => i_foldl_inv pairs cs _ (i_parenStep_inv pairs st c h)

theorem i_parenFinish_good (st : PState) (h : i_Inv st) :
    ∃ L, parenFinish st = L.reverse ∧ i_Good L := by
  unfold parenFinish
  split
  · exact ⟨_, rfl, h.1⟩
  · rename_i hne
    refine ⟨_, rfl, ?_, h.1⟩
    intro _
    simpa [PItem.str, List.isEmpty_iff] using hne

theorem i_splitparen_good (x : Str) : ∃ L, splitparen x = L.reverse ∧ i_Good L := by
  unfold splitparen
  apply i_parenFinish_good
  apply i_foldl_inv
  exact ⟨trivial, by simp⟩

/-- the middle one of three pieces is not empty -/
theorem i_pieces3_mid {x a b c : Str} (h : splitparenPieces x = [a, b, c]) : b ≠ [] := by
  obtain ⟨L, hL, hg⟩ := i_splitparen_good x
  unfold splitparenPieces at h
  rw [hL] at h
  obtain ⟨pa, pb, pc, h1, _, h2, _⟩ := map_eq_three h
  have hL' : L = [pc, pb, pa] := by
    have := congrArg List.reverse h1
    simpa using this
  subst hL'
  rw [← h2]
  exact hg.2.1 rfl

/-- **Submodule_Stmt raises nothing** (the `IndexError` branch of the model is dead code) -/
theorem i_planSubmodule_not_raises (s : Str) (e : Exc) : planSubmodule s ≠ .raises e := by
  intro h
  unfold planSubmodule at h
  split at h
  · cases h
  split at h
  · rename_i sp par nm hpieces
    have hne := i_pieces3_mid hpieces
    split at h
    · cases h
    split at h
    · split at h
      · cases h
      split at h
      · cases h
      · cases h
    · rename_i hno
      obtain ⟨a, b, ha, hb⟩ := headLast_of_ne_nil hne
      exact hno a b ha hb
  · cases h

theorem i_planSubmodule_total : PlanTotal planSubmodule := by
  apply planTotal_of_resTotal
  intro s
  refine ⟨fun e he => absurd he (i_planSubmodule_not_raises s e), ?_⟩
  intro slots hs
  unfold planSubmodule at hs
  split at hs
  · cases hs
  split at hs
  · split at hs
    · cases hs
    split at hs
    · split at hs
      · cases hs
      split at hs
      · cases hs
      · cases hs
        simp only [noRaise_cons, noRaise_nil, isRaise_child, and_self]
    · cases hs
  · cases hs

end Fp.Header

#print axioms Fp.Header.i_else_tostr_match_tokens
#print axioms Fp.Header.i_elsewhere_tostr_match_tokens
#print axioms Fp.Header.i_maskedElsewhere_tostr_match_tokens
#print axioms Fp.Header.i_interface_tostr_match_tokens
#print axioms Fp.Header.i_genericSpec_tostr_match_tokens
#print axioms Fp.Header.i_dtio_tostr_match_tokens
#print axioms Fp.Header.i_extendedIntrinsicOp_tostr_match_tokens
#print axioms Fp.Header.i_Extended_Intrinsic_Op_unanchored
#print axioms Fp.Header.i_Generic_Spec_accepts_unbalanced_witness
#print axioms Fp.Header.i_procedureStmt03_tostr_match_tokens
#print axioms Fp.Header.i_procedureStmt08_tostr_match_tokens
#print axioms Fp.Header.i_selectType_tostr_match_tokens
#print axioms Fp.Header.i_typeGuard_tostr_match_tokens
#print axioms Fp.Header.i_typeAttrSpec_tostr_match_tokens
#print axioms Fp.Header.i_procAttrSpec_tostr_match_tokens
#print axioms Fp.Header.i_parentIdentifier_tostr_match_tokens
#print axioms Fp.Header.i_submodule_tostr_match_tokens
#print axioms Fp.Header.i_submodule_raises
#print axioms Fp.Header.i_planElse_total
#print axioms Fp.Header.i_planElsewhere_total
#print axioms Fp.Header.i_planMaskedElsewhere_total
#print axioms Fp.Header.i_planInterface_total
#print axioms Fp.Header.i_planGenericSpec_total
#print axioms Fp.Header.i_planDtio_total
#print axioms Fp.Header.i_planExtendedIntrinsicOp_total
#print axioms Fp.Header.i_planProcedureStmt_total
#print axioms Fp.Header.i_planSelectType_total
#print axioms Fp.Header.i_planTypeGuard_total
#print axioms Fp.Header.i_planTypeAttrSpec_total
#print axioms Fp.Header.i_planProcAttrSpec_total
#print axioms Fp.Header.i_planParentIdentifier_total
#print axioms Fp.Header.i_else_fixpoint_none
#print axioms Fp.Header.i_else_match_tostr_fixpoint
#print axioms Fp.Header.i_elsewhere_fixpoint_none
#print axioms Fp.Header.i_elsewhere_match_tostr_fixpoint
#print axioms Fp.Header.i_maskedElsewhere_match_tostr_fixpoint_1
#print axioms Fp.Header.i_maskedElsewhere_match_tostr_fixpoint_2
#print axioms Fp.Header.i_interface_fixpoint_none
#print axioms Fp.Header.i_interface_fixpoint_abstract
#print axioms Fp.Header.i_interface_match_tostr_fixpoint
#print axioms Fp.Header.i_genericSpec_match_tostr_fixpoint
#print axioms Fp.Header.i_genericSpec_fixpoint_assignment
#print axioms Fp.Header.i_selectType_match_tostr_fixpoint_1
#print axioms Fp.Header.i_typeGuard_match_tostr_fixpoint_1
#print axioms Fp.Header.i_typeGuard_match_tostr_fixpoint_2
#print axioms Fp.Header.i_typeGuard_match_tostr_fixpoint_default
#print axioms Fp.Header.i_typeGuard_match_tostr_fixpoint_defaultN
#print axioms Fp.Header.i_selectType_match_tostr_fixpoint_2
#print axioms Fp.Header.i_planSubmodule_not_raises
#print axioms Fp.Header.i_planSubmodule_total
