import FparserModel.Proofs.RestPlain
/-!
Token theorem of `Use_Stmt` (`_match` / `tostr`):
`USE [[, nature] ::] name [, rename-list | , ONLY: [only-list]]`.
-/
set_option linter.unusedSimpArgs false

namespace Fp.Rest
open Fp Fp.Splitline Fp.IoStmt
open Fp.Combi (noBlank)

variable {Node : Type}

/-! ## the printed head `USE[, nature ::| ::]` -/

def useHead (o : Oracle Node) (nat dc : Item Node) : Str :=
  if !nat.falsy && !dc.falsy then "USE, ".toList ++ nat.text o ++ " ".toList ++ dc.text o
  else if nat.falsy && !dc.falsy then "USE ".toList ++ dc.text o
  else "USE".toList

theorem tostrUse_eq (o : Oracle Node) (nat dc : Item Node) (nm : Node) (sep : Str) (lst : Item Node) :
    tostrUse o [nat, dc, .node nm, .str sep, lst] =
      .ok (useHead o nat dc ++ " ".toList ++ o.str nm ++ sep
        ++ (if lst.isNone then [] else " ".toList ++ lst.text o)) := rfl

theorem net_useHead (o : Oracle Node) {nat dc : Item Node} (h1 : net (nat.text o) = 0)
    (h2 : net (dc.text o) = 0) : net (useHead o nat dc) = 0 := by
  unfold useHead
  split
  · simp only [net_append, h1, h2]; decide
  · split
    · simp only [net_append, h2]; decide
    · decide

theorem consCm (X : Str) : ',' :: X = ",".toList ++ X := rfl

/-! ## the part after the (optional) `::` -/

theorem useTail_tostr (o : Oracle Node) (ho : OracleTok o) (nat dc : Item Node) (line : Str)
    (items : List (Item Node)) (hm : useTail o nat dc line = .ok items) :
    ∃ t, tostrUse o items = .ok t ∧ toks t = toks (useHead o nat dc) ++ toks line ∧
      ((∀ i ∈ items, net (i.text o) = 0) → net t = 0) := by
  unfold useTail at hm
  split at hm
  · -- `USE name`
    obtain ⟨n, hn, rfl⟩ := Res.map_eq_ok hm
    refine ⟨_, tostrUse_eq o nat dc n [] .none, ?_, ?_⟩
    · have := ho _ _ _ hn
      simp only [toks_append, this, toks_sp, toks_nil, List.append_nil, Item.isNone, if_true]
    · intro hb
      have b1 := hb nat (by simp)
      have b2 := hb dc (by simp)
      have b3 := hb (.node n) (by simp)
      simp only [Item.text] at b3
      simp only [net_append, net_useHead o b1 b2, b3, Item.isNone, if_true]; decide
  · rename_i a b hcut
    obtain ⟨hs, _⟩ := Combi.cutFirst_spec _ _ _ hcut
    dsimp only at hm
    split at hm
    · cases hm
    obtain ⟨nm, hnm, h2⟩ := Res.bind_eq_ok hm
    have hnm' : toks (o.str nm) = toks a := by rw [ho _ _ _ hnm, toks_rstrip]
    have e0 : toks line = toks a ++ toks ",".toList ++ toks (lstrip b) := by
      conv => lhs; rw [hs, consCm]
      simp only [toks_append, toks_lstrip, List.append_assoc]
    split at h2
    · cases h2
    split at h2
    all_goals
      split at h2
      · rename_i honly
        have hkw : kwIs "ONLY".toList (lstrip b) = true := by
          simp only [Bool.and_eq_true] at honly
          exact honly.1
        have e1 : toks (lstrip b) = toks "ONLY".toList ++ toks (lstrip ((lstrip b).drop 4)) := by
          rw [toks_of_kwIs hkw, toks_lstrip]; rfl
        generalize lstrip ((lstrip b).drop 4) = l1 at h2 e1
        split at h2
        · cases h2
        split at h2
        · cases h2
        rename_i hcol
        have hcol' : startsC ':' l1 = true := by simpa using hcol
        have e2 : toks l1 = toks ":".toList ++ toks (lstrip (l1.drop 1)) := by
          match l1, hcol' with
          | c :: r, h =>
            have : c = ':' := by simpa [startsC] using h
            subst this
            rw [toks_lstrip]
            exact toks_cons ':' r
        generalize lstrip (l1.drop 1) = l2 at h2 e2
        have k : toks ", ONLY:".toList = toks ",".toList ++ toks "ONLY".toList ++ toks ":".toList := by
          decide
        split at h2
        · rename_i hl2
          cases h2
          refine ⟨_, tostrUse_eq o nat dc nm ", ONLY:".toList .none, ?_, ?_⟩
          · rw [e0, e1, e2, toks_isEmpty' hl2]
            simp only [toks_append, hnm', toks_sp, toks_nil, List.append_nil, Item.isNone, if_true, k,
              List.append_assoc, List.nil_append]
          · intro hb
            have b1 := hb nat (by simp)
            have b2 := hb dc (by simp)
            have b3 := hb (.node nm) (by simp)
            simp only [Item.text] at b3
            simp only [net_append, net_useHead o b1 b2, b3, Item.isNone, if_true]; decide
        · obtain ⟨ol, hol, rfl⟩ := Res.map_eq_ok h2
          have hol' := ho _ _ _ hol
          refine ⟨_, tostrUse_eq o nat dc nm ", ONLY:".toList (.node ol), ?_, ?_⟩
          · rw [e0, e1, e2]
            simp only [toks_append, hnm', hol', toks_sp, toks_nil, List.append_nil, Item.isNone, k,
              List.append_assoc, List.nil_append, Item.text, Bool.false_eq_true, if_false]
          · intro hb
            have b1 := hb nat (by simp)
            have b2 := hb dc (by simp)
            have b3 := hb (.node nm) (by simp)
            have b4 := hb (.node ol) (by simp)
            simp only [Item.text] at b3 b4
            simp only [net_append, net_useHead o b1 b2, b3, b4, Item.isNone, Item.text,
              Bool.false_eq_true, if_false]; decide
      · obtain ⟨rl, hrl, rfl⟩ := Res.map_eq_ok h2
        have hrl' := ho _ _ _ hrl
        refine ⟨_, tostrUse_eq o nat dc nm ",".toList (.node rl), ?_, ?_⟩
        · rw [e0]
          simp only [toks_append, hnm', hrl', toks_sp, toks_nil, List.append_nil, Item.isNone,
            List.append_assoc, List.nil_append, Item.text, Bool.false_eq_true, if_false]
        · intro hb
          have b1 := hb nat (by simp)
          have b2 := hb dc (by simp)
          have b3 := hb (.node nm) (by simp)
          have b4 := hb (.node rl) (by simp)
          simp only [Item.text] at b3 b4
          simp only [net_append, net_useHead o b1 b2, b3, b4, Item.isNone, Item.text,
            Bool.false_eq_true, if_false]; decide

/-! ## Use_Stmt -/

theorem lstrip_head_ns {x y : Str} {c : Char} (h : lstrip x = c :: y) : isSpace c = false := by
  induction x with
  | nil => cases h
  | cons d x ih =>
    unfold lstrip at h ih
    rw [List.dropWhile_cons] at h
    split at h
    · exact ih h
    · rename_i hd
      cases h
      simpa using hd

theorem toks_ne_nil_of_head {c : Char} {y : Str} (h : isSpace c = false) : toks (c :: y) ≠ [] := by
  simp [toks, noBlank, h, upper]

/-- **Use_Stmt** (after the repair `elif line[:idx].strip(): return None` of `Use_Stmt._match`): every accepted form
    `USE [[, nature] ::] name [, rename-list | , ONLY: [only-list]]` keeps its tokens — UNCONDITIONALLY.
    (Before the repair a text between `USE` and `::` that did not start with `,` was never looked at and was dropped.) -/
theorem use_tostr_match_tokens (o : Oracle Node) (ho : OracleTok o) (s : Str)
    (items : List (Item Node)) (hm : matchUse o s = .ok items) :
    ∃ t, tostrUse o items = .ok t ∧ toks t = toks s ∧
      ((∀ i ∈ items, net (i.text o) = 0) → net t = 0) := by
  unfold matchUse at hm
  dsimp only at hm
  split at hm
  · cases hm
  rename_i hkw
  have hkw' : kwIs "USE".toList (strip s) = true := by simpa using hkw
  have e0 : toks s = toks "USE".toList ++ toks (lstrip ((strip s).drop 3)) := by
    rw [← toks_strip s, toks_of_kwIs hkw', toks_lstrip]; rfl
  split at hm
  · cases hm
  rename_i c rest hdrop
  split at hm
  · cases hm
  split at hm
  · rename_i pre post heq
    have hL := cutSub2_spec _ _ _ heq
    have e3 : ∀ X : Str, ':' :: ':' :: X = "::".toList ++ X := fun _ => rfl
    have eL : toks (lstrip ((strip s).drop 3)) = toks pre ++ toks "::".toList ++ toks post := by
      conv => lhs; rw [hL, e3]
      simp only [toks_append, List.append_assoc]
    obtain ⟨nat, hnat, h2⟩ := Res.bind_eq_ok hm
    split at h2
    · cases h2
    obtain ⟨t, ht1, ht2, ht3⟩ := useTail_tostr o ho nat (.str "::".toList) _ items h2
    refine ⟨t, ht1, ?_, ht3⟩
    by_cases hst : startsC ',' (lstrip ((strip s).drop 3)) = true
    · rw [if_pos hst] at hnat
      split at hnat
      · cases hnat
      obtain ⟨n, hn, rfl⟩ := Res.map_eq_ok hnat
      have hn' : toks (o.str n) = toks (pre.drop 1) := by rw [ho _ _ _ hn, toks_strip]
      have hpre : toks pre = toks ",".toList ++ toks (pre.drop 1) := by
        match pre, hL with
        | [], hL => rw [hL] at hst; simp [startsC] at hst
        | d :: p, hL =>
          rw [hL] at hst
          have : d = ',' := by simpa [startsC] using hst
          subst this
          exact toks_cons ',' p
      have eh : useHead o (.node n) (.str "::".toList) =
          "USE, ".toList ++ o.str n ++ " ".toList ++ "::".toList := rfl
      have k : toks "USE, ".toList = toks "USE".toList ++ toks ",".toList := by decide
      rw [ht2, e0, eL, hpre, eh]
      simp only [toks_append, toks_lstrip, hn', toks_sp, k, List.nil_append, List.append_assoc]
    · rw [if_neg hst] at hnat
      split at hnat
      · cases hnat
      rename_i hpe
      cases hnat
      -- nothing but blanks stands between USE and `::`
      have hp : toks pre = [] := by
        have : (strip pre).isEmpty = true := by simpa using hpe
        rw [← toks_strip]; exact toks_isEmpty' this
      have eh : useHead o (.none : Item Node) (.str "::".toList) = "USE ".toList ++ "::".toList := rfl
      have k : toks "USE ".toList = toks "USE".toList := by decide
      rw [ht2, e0, eL, hp, eh]
      simp only [toks_append, toks_lstrip, k, List.append_assoc, List.nil_append]
  · obtain ⟨f, hf, h2⟩ := Res.bind_eq_ok hm
    split at h2
    · cases h2
    obtain ⟨t, ht1, ht2, ht3⟩ := useTail_tostr o ho .none .none _ items h2
    refine ⟨t, ht1, ?_, ht3⟩
    have eh : useHead o (.none : Item Node) (.none : Item Node) = "USE".toList := rfl
    rw [ht2, e0, eh]

/-- REGRESSION witnesses for the repair: a text between `USE` and `::` other than `, nature` is REJECTED
    (before: accepted and silently dropped — `use x :: m` was printed `USE :: m`, `use (a + :: m` was accepted
    with its unbalanced parenthesis, `use intrinsic :: iso_c_binding` lost its nature); the regular forms are kept -/
theorem use_rejects_text_before_colons :
    matchUse echoOracle "use x :: m".toList = .noMatch ∧
    matchUse echoOracle "use (a + :: m".toList = .noMatch ∧
    matchUse echoOracle "use intrinsic :: iso_c_binding".toList = .noMatch ∧
    matchUse echoOracle "use :: m".toList = .ok [.none, .str "::".toList, .node "m".toList, .str [], .none] ∧
    matchUse echoOracle "use, intrinsic :: m".toList =
      .ok [.node "intrinsic".toList, .str "::".toList, .node "m".toList, .str [], .none] := by decide

end Fp.Rest

#print axioms Fp.Rest.useTail_tostr
#print axioms Fp.Rest.use_tostr_match_tokens
#print axioms Fp.Rest.use_rejects_text_before_colons
