import FparserModel.Proofs.Incl08Basic
import FparserModel.Props.Registry
/-!
# Incl08Rules — per-rule inclusion (`match03 ok → match08 ok`, same text) and the exact
characterisation of what the 2008 override accepts in addition.
-/
namespace Fp.Incl08
open Fp Fp.IoStmt

variable {N N' : Type} {f : N → N'} {o : Oracle N} {o' : Oracle N'}

/-! ## toy oracles for witnesses and non-vacuity -/

/-- children echo their text; a `*_Spec_List` node lists the keywords of its comma separated `k=v` pieces -/
def toy : Oracle Str :=
  { call := fun _ s => if s.isEmpty then .noMatch else .ok s, str := id, head := fun _ => none,
    rhsStr := id,
    heads := fun s => (splitC ',' s).map fun p => (kvKey p).map (·.1),
    isDataEdit := fun s => !s.contains ',' && !s.contains '(' }

theorem toy_sim : Sim id id toy toy :=
  ⟨fun _ _ _ h => h, fun _ => rfl, fun _ => rfl, fun _ => rfl, fun _ => rfl, fun _ => rfl⟩

/-- a 2008 side that accepts strictly more (also the empty text) and wraps every node -/
def toy8 : Oracle (Str × Bool) :=
  { call := fun _ s => .ok (s, true), str := fun n => n.1, head := fun _ => none,
    rhsStr := fun n => n.1, heads := fun n => toy.heads n.1, isDataEdit := fun n => toy.isDataEdit n.1 }

theorem toy_sim8 (ρ : ClassId → ClassId) : Sim ρ (fun s => (s, true)) toy toy8 := by
  refine ⟨?_, fun _ => rfl, fun _ => rfl, fun _ => rfl, fun _ => rfl, fun _ => rfl⟩
  intro c t n h
  simp only [toy] at h
  split at h
  · cases h
  · cases h; rfl

/-! ## keyword tables extended by one row (Connect_Spec: NEWUNIT, Alloc_Opt: MOLD) -/

theorem kvExt_incl (h : Sim id f o o') (b : Bool) (t : List (Str × ClassId)) (row : Str × ClassId)
    (s : Str) (items : List (Item N)) (hd : (t.map (·.1)).Nodup)
    (hm : tableOr (kvTable o b t s) .noMatch = .ok items) :
    tableOr (kvTable o' b (t ++ [row]) s) .noMatch = .ok (items.map (Item.map f)) := by
  cases hk : kvTable o b t s with
  | none => rw [hk] at hm; simp [tableOr] at hm
  | some r =>
    rw [hk] at hm; simp only [tableOr] at hm; subst hm
    rw [kvTable_append, kvTable_sim h b t s items hd hk]
    rfl

theorem kvExt_only08 (o : Oracle N) (b : Bool) (t : List (Str × ClassId)) (k : Str) (c : ClassId)
    (s : Str) (items : List (Item N)) :
    (tableOr (kvTable o b (t ++ [(k, c)]) s) .noMatch = .ok items
        ∧ tableOr (kvTable o b t s) .noMatch = .noMatch)
      ↔ (kvTable o b t s = none ∧ ∃ sl, kvOne k c s = some sl ∧ runSlots o sl = .ok items) := by
  rw [kvTable_append]
  cases hk : kvTable o b t s with
  | some r =>
    simp only [tableOr]
    constructor
    · rintro ⟨h1, h2⟩; rw [h1] at h2; cases h2
    · rintro ⟨h1, _⟩; cases h1
  | none =>
    simp only [tableOr, kvTable, true_and, and_true]
    cases hk1 : kvOne k c s with
    | none => simp
    | some sl =>
      have key : (∃ sl', some sl = some sl' ∧ runSlots o sl' = .ok items) ↔ runSlots o sl = .ok items := by
        constructor
        · rintro ⟨sl', h1, h2⟩; cases h1; exact h2
        · intro h; exact ⟨sl, rfl, h⟩
      rw [key]
      cases hr : runSlots o sl <;> cases b <;> simp [hr]

theorem connectTable_ext :
    connectTable .f2008 = connectTable .f2003 ++ [("NEWUNIT".toList, C.File_Unit_Number)] := by
  decide +kernel

theorem allocOptTable_ext :
    allocOptTable .f2008 = allocOptTable .f2003 ++ [("MOLD".toList, C.Source_Expr)] := by
  decide +kernel

theorem connect_nodup : ((connectTable .f2003).map (·.1)).Nodup := by decide +kernel
theorem connect08_nodup : ((connectTable .f2008).map (·.1)).Nodup := by decide +kernel
theorem allocOpt_nodup : ((allocOptTable .f2003).map (·.1)).Nodup := by decide +kernel
theorem allocOpt08_nodup : ((allocOptTable .f2008).map (·.1)).Nodup := by decide +kernel

/-! ### Connect_Spec -/

theorem Connect_Spec_incl (h : Sim id f o o') (s : Str) (items : List (Item N))
    (hm : matchConnectSpec .f2003 o s = .ok items) :
    matchConnectSpec .f2008 o' s = .ok (items.map (Item.map f))
      ∧ kvStr o' (items.map (Item.map f)) = kvStr o items := by
  refine ⟨?_, kvStr_sim h items⟩
  unfold matchConnectSpec at hm ⊢
  by_cases hc : s.contains '='
  · simp only [hc, Bool.not_true, Bool.false_eq_true, if_false] at hm ⊢
    rw [connectTable_ext]
    exact kvExt_incl h true _ _ s items connect_nodup hm
  · simp only [hc, Bool.not_false, if_true] at hm ⊢
    exact runSlots_sim_id h _ items hm

theorem Connect_Spec_only08 (o : Oracle N) (s : Str) (items : List (Item N)) :
    (matchConnectSpec .f2008 o s = .ok items ∧ matchConnectSpec .f2003 o s = .noMatch)
      ↔ (s.contains '=' = true ∧ kvTable o true (connectTable .f2003) s = none
          ∧ ∃ sl, kvOne "NEWUNIT".toList C.File_Unit_Number s = some sl ∧ runSlots o sl = .ok items) := by
  unfold matchConnectSpec
  by_cases hc : s.contains '='
  · simp only [hc, Bool.not_true, Bool.false_eq_true, if_false, true_and]
    rw [connectTable_ext]
    exact kvExt_only08 o true _ _ _ s items
  · simp only [hc, Bool.not_false, if_true, Bool.false_eq_true, false_and, iff_false]
    rintro ⟨h1, h2⟩; rw [h1] at h2; cases h2

/-- the 2008-only shape in words: the text before the first `=` is `NEWUNIT` (any case, blanks around) -/
theorem Connect_Spec_only08_shape (o : Oracle N) (s : Str) (items : List (Item N))
    (h : matchConnectSpec .f2008 o s = .ok items ∧ matchConnectSpec .f2003 o s = .noMatch) :
    ∃ p, Combi.cutFirst '=' s = some p ∧ upper (strip p.1) = "NEWUNIT".toList := by
  obtain ⟨_, _, sl, h1, _⟩ := (Connect_Spec_only08 o s items).1 h
  exact kvOne_key h1

/-! ### Alloc_Opt -/

theorem Alloc_Opt_incl (h : Sim id f o o') (s : Str) (items : List (Item N))
    (hm : matchAllocOpt .f2003 o s = .ok items) :
    matchAllocOpt .f2008 o' s = .ok (items.map (Item.map f))
      ∧ kvStr o' (items.map (Item.map f)) = kvStr o items := by
  refine ⟨?_, kvStr_sim h items⟩
  unfold matchAllocOpt at hm ⊢
  rw [allocOptTable_ext]
  exact kvExt_incl h false _ _ s items allocOpt_nodup hm

theorem Alloc_Opt_only08 (o : Oracle N) (s : Str) (items : List (Item N)) :
    (matchAllocOpt .f2008 o s = .ok items ∧ matchAllocOpt .f2003 o s = .noMatch)
      ↔ (kvTable o false (allocOptTable .f2003) s = none
          ∧ ∃ sl, kvOne "MOLD".toList C.Source_Expr s = some sl ∧ runSlots o sl = .ok items) := by
  unfold matchAllocOpt
  rw [allocOptTable_ext]
  exact kvExt_only08 o false _ _ _ s items

theorem Alloc_Opt_only08_shape (o : Oracle N) (s : Str) (items : List (Item N))
    (h : matchAllocOpt .f2008 o s = .ok items ∧ matchAllocOpt .f2003 o s = .noMatch) :
    ∃ p, Combi.cutFirst '=' s = some p ∧ upper (strip p.1) = "MOLD".toList := by
  obtain ⟨_, sl, h1, _⟩ := (Alloc_Opt_only08 o s items).1 h
  exact kvOne_key h1

/-! ## Open_Stmt — the 2008 override adds the constraints C903 / C904 / C906: it accepts LESS -/

theorem Open_Stmt_incl_partial (h : Sim id f o o') (s : Str) (items : List (Item N))
    (hm : matchOpen .f2003 o s = .ok items) (hc : OpenOK o items = true) :
    matchOpen .f2008 o' s = .ok (items.map (Item.map f))
      ∧ combiStr o' specOpen (items.map (Item.map f)) = combiStr o specOpen items := by
  constructor
  · unfold matchOpen at hm ⊢
    simp only at hm ⊢
    rw [plan_sim_id h _ items hm]
    simp only [Res.bind]
    match items, hc with
    | [a, .node n], hc =>
      simp only [OpenOK] at hc
      simp [Item.map, h.heads, hc]
  · simp only [combiStr, List.map_map]
    have : (toCombiItem o' ∘ Item.map f) = toCombiItem o := by
      funext i
      cases i <;> simp [toCombiItem, Item.map, Function.comp, Item.text, h.str, h.rhsStr, List.map_map,
        Function.comp_def]
    rw [this]

/-- the 2008 `Open_Stmt` accepts nothing the 2003 class rejects (NEWUNIT comes in through `Connect_Spec`) -/
theorem Open_Stmt_no_addition (o : Oracle N) (s : Str) (items : List (Item N))
    (hm : matchOpen .f2008 o s = .ok items) : matchOpen .f2003 o s = .ok items := by
  unfold matchOpen at hm ⊢
  simp only at hm ⊢
  cases hp : (combiPlan specOpen s).bind (runSlots o) with
  | ok its =>
    rw [hp] at hm
    simp only [Res.bind] at hm
    split at hm
    · split at hm
      · exact hm
      · cases hm
    · cases hm
  | noMatch => rw [hp] at hm; simp [Res.bind] at hm
  | raises e => rw [hp] at hm; simp [Res.bind] at hm

/-- DEFECT (C17): `OPEN(FILE='x')` — no unit — is accepted by the 2003 class and rejected by the 2008
    class; so are a repeated specifier and UNIT together with NEWUNIT -/
theorem Open_Stmt_incl_fails :
    matchOpen .f2003 toy "open(file='x')".toList = .ok [.str "OPEN".toList, .node "file='x'".toList]
    ∧ matchOpen .f2008 toy "open(file='x')".toList = .noMatch
    ∧ matchOpen .f2003 toy "open(10, err=1, err=2)".toList = .ok [.str "OPEN".toList, .node "10, err=1, err=2".toList]
    ∧ matchOpen .f2008 toy "open(10, err=1, err=2)".toList = .noMatch := by
  decide +kernel

/-! ## Format_Item -/

theorem Format_Item_incl (h : Sim id f o o') (s : Str) (items : List (Item N))
    (hm : matchFormatItem .f2003 o s = .ok items) :
    matchFormatItem .f2008 o' s = .ok (items.map (Item.map f)) := by
  unfold matchFormatItem at hm ⊢
  simp only at hm ⊢
  have h8 := plan_sim_id h _ items hm
  have hne : s.isEmpty = false := by
    cases hs : s.isEmpty with
    | false => rfl
    | true => simp [planFormatItem, hs, Res.bind] at hm
  simp [hne, h8]

theorem tostrFormatItem_sim {ρ : ClassId → ClassId} (h : Sim ρ f o o') (items : List (Item N)) :
    tostrFormatItem o' (items.map (Item.map f)) = tostrFormatItem o items := by
  match items with
  | [] => rfl
  | [a] => rfl
  | [r, b] =>
    cases b <;> cases r <;>
      simp [tostrFormatItem, Item.map, Item.text, h.str, h.isDataEdit, h.rhsStr, List.map_map, Function.comp_def]
  | a :: b :: c :: r => simp [tostrFormatItem]

theorem Format_Item_only08 (o : Oracle N) (s : Str) (items : List (Item N)) :
    (matchFormatItem .f2008 o s = .ok items ∧ matchFormatItem .f2003 o s = .noMatch)
      ↔ (s.isEmpty = false ∧ (planFormatItem s).bind (runSlots o) = .noMatch
          ∧ (planFormatItemStar s).bind (runSlots o) = .ok items) := by
  unfold matchFormatItem
  simp only
  cases hs : s.isEmpty with
  | true => simp
  | false =>
    cases h3 : (planFormatItem s).bind (runSlots o) with
    | ok its => simp
    | noMatch => simp
    | raises e => simp

/-- the additional shape: `*( … )`, matched as `("*", Format_Item_List(…))` -/
theorem Format_Item_only08_shape (o : Oracle N) (s : Str) (items : List (Item N))
    (h : (planFormatItemStar s).bind (runSlots o) = .ok items) :
    isStarItem s = true ∧ ∃ n, items = [.str "*".toList, .node n] := by
  unfold planFormatItemStar at h
  simp only at h
  unfold isStarItem
  simp only
  split at h
  · simp [Res.bind] at h
  · split at h
    · rename_i hstar
      split at h
      · rename_i hd lt hh hl
        split at h
        · rename_i hpar
          simp only [Res.bind, runSlots, runSlot] at h
          cases hc : o.call C.Format_Item_List (lstrip (inner (lstrip ((strip s).drop 1)))) with
          | ok n =>
            rw [hc] at h
            simp [Res.map] at h
            subst h
            refine ⟨?_, n, rfl⟩
            simp only [Bool.and_eq_true] at hstar
            rw [hstar.1, hstar.2, hh, hl]
            simpa using hpar
          | noMatch => rw [hc] at h; simp [Res.map] at h
          | raises e => rw [hc] at h; simp [Res.map] at h
        · simp [Res.bind] at h
      · simp [Res.bind] at h
    · simp [Res.bind] at h

/-! ## If_Stmt — the action statement class is renamed (C802 ↦ C828) -/

theorem planIf_ren (s : Str) :
    planIf .f2008 s = (planIf .f2003 s).map (List.map (Slot.ren renIf)) := by
  unfold planIf
  cases hk : kwIs "IF".toList s
  · simp only [Bool.not_false, if_true]; rfl
  · simp only [Bool.not_true, Bool.false_eq_true, if_false]
    cases ht : tok s with
    | ok r =>
      simp only [Res.bind]
      split
      · rfl
      · split
        · rfl
        · simp [Res.map, Slot.ren, renIf, actionStmtCls, C.Scalar_Logical_Expr, C.Action_Stmt_C802,
            C.Action_Stmt_C828]
    | noMatch => rfl
    | raises e => rfl

theorem tostrIf_sim {ρ : ClassId → ClassId} (h : Sim ρ f o o') (items : List (Item N)) :
    tostrIf o' (items.map (Item.map f)) = tostrIf o items := by
  match items with
  | [] => rfl
  | [a] => rfl
  | [a, b] => simp [tostrIf, text_sim h]
  | a :: b :: c :: r => simp [tostrIf]

theorem If_Stmt_incl (h : Sim renIf f o o') (s : Str) (items : List (Item N))
    (hm : (planIf .f2003 s).bind (runSlots o) = .ok items) :
    (planIf .f2008 s).bind (runSlots o') = .ok (items.map (Item.map f))
      ∧ tostrIf o' (items.map (Item.map f)) = tostrIf o items := by
  refine ⟨?_, tostrIf_sim h items⟩
  rw [planIf_ren]
  exact plan_sim h _ items hm

/-! ## Loop_Control -/

theorem nodesOf_map (l : List (Item N)) : nodesOf (l.map (Item.map f)) = (nodesOf l).map f := by
  induction l with
  | nil => rfl
  | cons a t ih => cases a <;> simp [nodesOf, Item.map, ih]

theorem Loop_Control_plan (s : Str) (slots : List Slot) (h : planLoopControl .f2003 s = .ok slots) :
    planLoopControl .f2008 s = .ok (slots ++ [.none]) := by
  simp only [planLoopControl] at h ⊢
  rw [h]

/-- `withDelim` of `Loop_Control.tostr` -/
theorem tostrLoop03_sim {ρ : ClassId → ClassId} (h : Sim ρ f o o') (items : List (Item N)) (tl : List (Item N'))
    (t : Str) (ht : tostrLoopControl03 o items = .ok t) :
    tostrLoopControl03 o' (items.map (Item.map f) ++ tl) = .ok t := by
  rw [← ht]
  match items with
  | [] => simp only [tostrLoopControl03] at ht; cases ht
  | [a] => cases a <;> (simp only [tostrLoopControl03] at ht; cases ht)
  | [a, b] => cases a <;> cases b <;> (simp only [tostrLoopControl03] at ht; cases ht)
  | a :: b :: d :: rest =>
    cases a with
    | node c =>
      cases b with
      | none =>
        cases d <;>
          simp only [tostrLoopControl03, List.map_cons, Item.map, List.cons_append, h.str]
      | _ => simp only [tostrLoopControl03] at ht; cases ht
    | none =>
      cases b with
      | node v =>
        cases d with
        | nodes ns =>
          cases rest with
          | nil => simp only [tostrLoopControl03] at ht; cases ht
          | cons e rest =>
            cases e <;>
              simp only [tostrLoopControl03, List.map_cons, Item.map, List.cons_append, h.str, List.map_map,
                Function.comp_def]
        | _ => simp only [tostrLoopControl03] at ht; cases ht
      | _ => simp only [tostrLoopControl03] at ht; cases ht
    | _ => simp only [tostrLoopControl03] at ht; cases ht

/-- a tuple the 2003 printer accepts is not of the CONCURRENT shape `[None, None, d, h]` -/
theorem tostr08_of_03 (o' : Oracle N') (items' : List (Item N')) (t : Str)
    (h3 : tostrLoopControl03 o' items' = .ok t) : tostrLoopControl .f2008 o' items' = .ok t := by
  unfold tostrLoopControl
  simp only
  split
  · simp only [tostrLoopControl03] at h3; cases h3
  · exact h3

theorem groupLoop_map_snoc (is : List (Item N)) :
    groupLoop 2 (is.map (Item.map f) ++ [.none]) = (groupLoop 1 is).map (Item.map f) ++ [.none] := by
  match is with
  | [] => rfl
  | [a] => cases a <;> rfl
  | a :: b :: rest =>
    cases a with
    | none =>
      cases b with
      | node v =>
        simp only [List.map_cons, Item.map, List.cons_append, groupLoop, List.length_append, List.length_map,
          List.length_cons, List.length_nil, List.map_append]
        have hk : rest.length + (0 + 1) - 2 = rest.length - 1 := by omega
        rw [hk]
        have hle : rest.length - 1 ≤ (rest.map (Item.map f)).length := by simp
        rw [List.take_append_of_le_length hle, List.drop_append_of_le_length hle, ← List.map_take,
          ← List.map_drop, nodesOf_map]
        simp [Item.map]
      | _ => simp [groupLoop, Item.map]
    | _ => simp [groupLoop, Item.map]

/-- the printed text of a 2003 match is the printed text of the 2008 tuple (the 2003 tuple + `None`) -/
theorem tostrLoop_sim {ρ : ClassId → ClassId} (h : Sim ρ f o o') (is : List (Item N)) (t : Str)
    (ht : tostrLoopControl .f2003 o (groupLoop 1 is) = .ok t) :
    tostrLoopControl .f2008 o' (groupLoop 2 (is.map (Item.map f) ++ [.none])) = .ok t := by
  rw [groupLoop_map_snoc]
  exact tostr08_of_03 o' _ t (tostrLoop03_sim h _ _ t ht)

theorem Loop_Control_incl (h : Sim id f o o') (s : Str) (items : List (Item N)) (t : Str)
    (hm : ((planLoopControl .f2003 s).bind (runSlots o)).map (groupLoop (loopTail .f2003)) = .ok items)
    (ht : tostrLoopControl .f2003 o items = .ok t) :
    ∃ items', ((planLoopControl .f2008 s).bind (runSlots o')).map (groupLoop (loopTail .f2008)) = .ok items'
      ∧ tostrLoopControl .f2008 o' items' = .ok t := by
  cases hp : planLoopControl .f2003 s with
  | ok slots =>
    rw [hp] at hm
    simp only [Res.bind] at hm
    cases hr : runSlots o slots with
    | ok is =>
      rw [hr] at hm
      simp only [Res.map, loopTail] at hm
      injection hm with hm
      subst hm
      refine ⟨groupLoop 2 (is.map (Item.map f) ++ [.none]), ?_, tostrLoop_sim h is t ht⟩
      rw [Loop_Control_plan s slots hp]
      simp only [Res.bind]
      rw [runSlots_append_none _ _ (runSlots_sim_id h slots is hr)]
      rfl
    | noMatch => rw [hr] at hm; simp [Res.map] at hm
    | raises e => rw [hr] at hm; simp [Res.map] at hm
  | noMatch => rw [hp] at hm; simp [Res.bind, Res.map] at hm
  | raises e => rw [hp] at hm; simp [Res.bind, Res.map] at hm

theorem runSlots_append_none_nm (o : Oracle N) (ss : List Slot) (hr : runSlots o ss = .noMatch) :
    runSlots o (ss ++ [.none]) = .noMatch := by
  induction ss with
  | nil => simp [runSlots] at hr
  | cons a t ih =>
    simp only [List.cons_append, runSlots] at hr ⊢
    cases h1 : runSlot o a with
    | ok i =>
      rw [h1] at hr
      cases h2 : runSlots o t with
      | ok is => rw [h2] at hr; simp at hr
      | noMatch => simp [ih h2]
      | raises e => rw [h2] at hr; simp at hr
    | noMatch => rfl
    | raises e => rw [h1] at hr; simp at hr

/-- what the 2008 `Loop_Control` accepts in addition: the CONCURRENT form, tried only when the 2003
    matcher RETURNED `None` -/
theorem Loop_Control_only08 (o : Oracle N) (s : Str) (flat : List (Item N)) :
    ((planLoopControl .f2008 s).bind (runSlots o) = .ok flat
        ∧ (planLoopControl .f2003 s).bind (runSlots o) = .noMatch)
      ↔ (planLoopControl .f2003 s = .noMatch ∧ (planConcurrent s).bind (runSlots o) = .ok flat) := by
  simp only [planLoopControl]
  cases hp : planLoopControl03 s with
  | ok slots =>
    simp only [Res.bind]
    constructor
    · rintro ⟨h1, h2⟩
      rw [runSlots_append_none_nm o slots h2] at h1
      cases h1
    · rintro ⟨h1, _⟩; cases h1
  | noMatch => simp [Res.bind]
  | raises e => simp [Res.bind]

theorem Loop_Control_only08_shape (o : Oracle N) (s : Str) (flat : List (Item N))
    (h : (planConcurrent s).bind (runSlots o) = .ok flat) : isConcurrent s = true := by
  unfold planConcurrent at h
  unfold isConcurrent
  cases hk : kwIs "CONCURRENT".toList
      (if startsC ',' (lstrip s) then lstrip ((lstrip s).drop 1) else lstrip s) with
  | true => rfl
  | false =>
    simp only [hk] at h
    simp [Res.bind] at h

/-! ## Proc_Decl / Procedure_Stmt (Header slice) -/

theorem Proc_Decl_incl (h : Sim id f o o') (s : Str) (items : List (Item N))
    (hm : Header.matchProcDecl .f2003 o s = .ok items) :
    Header.matchProcDecl .f2008 o' s = .ok (items.map (Item.map f))
      ∧ Header.tostrBinary o' (items.map (Item.map f)) = Header.tostrBinary o items := by
  constructor
  · unfold Header.matchProcDecl at hm ⊢
    simp only at hm ⊢
    cases hp : (Header.planBinaryArrow Header.C.Procedure_Entity_Name Header.C.Null_Init s).bind (runSlots o) with
    | ok its =>
      rw [hp] at hm
      simp only [Res.map] at hm
      injection hm with hm
      subst hm
      have hne : s.isEmpty = false := by
        cases hs : s.isEmpty with
        | false => rfl
        | true =>
          have : s = [] := by simpa using hs
          subst this
          have hnil : Header.planBinaryArrow Header.C.Procedure_Entity_Name Header.C.Null_Init [] = .noMatch := by
            decide +kernel
          rw [hnil] at hp
          simp [Res.bind] at hp
      rw [plan_sim_id h _ its hp]
      simp [hne, List.map_reverse]
    | noMatch => rw [hp] at hm; simp [Res.map] at hm
    | raises e => rw [hp] at hm; simp [Res.map] at hm
  · match items with
    | [] => rfl
    | [a] => rfl
    | [a, b] => rfl
    | [a, b, c] => simp [Header.tostrBinary, text_sim h]
    | a :: b :: c :: d :: r => simp [Header.tostrBinary]

theorem Proc_Decl_only08 (o : Oracle N) (s : Str) (items : List (Item N)) :
    (Header.matchProcDecl .f2008 o s = .ok items ∧ Header.matchProcDecl .f2003 o s = .noMatch)
      ↔ (s.isEmpty = false
          ∧ (Header.planBinaryArrow Header.C.Procedure_Entity_Name Header.C.Null_Init s).bind (runSlots o) = .noMatch
          ∧ ((Header.planBinaryArrow Header.C.Procedure_Entity_Name Header.C.Name s).bind (runSlots o)).map List.reverse
              = .ok items) := by
  unfold Header.matchProcDecl
  simp only
  cases hs : s.isEmpty with
  | true => simp
  | false =>
    cases hp : (Header.planBinaryArrow Header.C.Procedure_Entity_Name Header.C.Null_Init s).bind (runSlots o) with
    | ok its => simp [Res.map]
    | noMatch => simp [Res.map]
    | raises e => simp [Res.map]

theorem Procedure_Stmt_incl_partial (h : Sim id f o o') (s : Str) (items : List (Item N))
    (hm : (Header.planProcedureStmt .f2003 s).bind (runSlots o) = .ok items)
    (hp : ProcStmtPlain s = true) :
    ∃ items', (Header.planProcedureStmt .f2008 s).bind (runSlots o') = .ok items'
      ∧ (kwIs "MODULE".toList s = true →
          Header.tostrProcedureStmt .f2008 o' items' = Header.tostrProcedureStmt .f2003 o items) := by
  unfold ProcStmtPlain at hp
  simp only [Bool.and_eq_true, bne, Bool.not_eq_true'] at hp
  obtain ⟨hcol, hls⟩ := hp
  have hls : lstrip s = s := eq_of_beq hls
  unfold Header.planProcedureStmt at hm ⊢
  simp only at hm ⊢
  rw [hls]
  cases hmod : kwIs "MODULE".toList s
  · simp only [hmod, Bool.false_eq_true, if_false] at hm hcol ⊢
    cases hpr : kwIs "PROCEDURE".toList s
    · simp only [hpr, Bool.not_false, if_true, Res.bind] at hm; cases hm
    · simp only [hpr, Bool.not_true, Bool.false_eq_true, if_false, Res.bind] at hm ⊢
      simp only [hcol, Bool.false_eq_true, if_false]
      simp only [runSlots, runSlot] at hm ⊢
      cases hc : o.call Header.C.Procedure_Name_List (lstrip (s.drop 9)) with
      | ok n =>
        rw [hc] at hm
        have hc' := h.call _ _ _ hc
        simp only [id] at hc'
        rw [hc']
        exact ⟨_, rfl, fun hh => by cases hh⟩
      | noMatch => rw [hc] at hm; cases hm
      | raises e => rw [hc] at hm; cases hm
  · simp only [hmod, if_true] at hm hcol ⊢
    cases hpr : kwIs "PROCEDURE".toList (lstrip (s.drop 6))
    · simp only [hpr, Bool.not_false, if_true, Res.bind] at hm; cases hm
    · simp only [hpr, Bool.not_true, Bool.false_eq_true, if_false, Res.bind] at hm ⊢
      simp only [hcol, Bool.false_eq_true, if_false]
      simp only [runSlots, runSlot] at hm ⊢
      cases hc : o.call Header.C.Procedure_Name_List (lstrip ((lstrip (s.drop 6)).drop 9)) with
      | ok n =>
        rw [hc] at hm
        have hc' := h.call _ _ _ hc
        simp only [id] at hc'
        rw [hc']
        simp only [Res.map] at hm
        injection hm with hm
        subst hm
        refine ⟨_, rfl, fun _ => ?_⟩
        simp only [Header.tostrProcedureStmt, Item.text, h.str]
        rw [show "MODULE PROCEDURE ".toList = "MODULE ".toList ++ "PROCEDURE".toList ++ " ".toList from by
          decide +kernel]
      | noMatch => rw [hc] at hm; cases hm
      | raises e => rw [hc] at hm; cases hm

/-- DEFECT (C17, text): `procedure a` inside an interface block is printed `MODULE PROCEDURE a` by the
    2003 class and `PROCEDURE a` by the 2008 class -/
theorem Procedure_Stmt_text_differs :
    (Header.planProcedureStmt .f2003 "procedure a".toList).bind (runSlots toy) = .ok [.node "a".toList]
    ∧ Header.tostrProcedureStmt .f2003 toy [.node "a".toList] = .ok "MODULE PROCEDURE a".toList
    ∧ (Header.planProcedureStmt .f2008 "procedure a".toList).bind (runSlots toy) = .ok [.node "a".toList, .none, .none]
    ∧ Header.tostrProcedureStmt .f2008 toy [.node "a".toList, .none, .none] = .ok "PROCEDURE a".toList := by
  decide +kernel

/-- accepted by the 2008 class only: the `::` form and a statement with leading blanks -/
theorem Procedure_Stmt_only08_witness :
    (Header.planProcedureStmt .f2003 "procedure :: a".toList).bind (runSlots toy) = .ok [.node ":: a".toList]
    ∧ (Header.planProcedureStmt .f2008 "procedure :: a".toList).bind (runSlots toy)
        = .ok [.node "a".toList, .none, .str "::".toList]
    ∧ (Header.planProcedureStmt .f2003 " procedure a".toList).bind (runSlots toy) = .noMatch
    ∧ (Header.planProcedureStmt .f2008 " procedure a".toList).bind (runSlots toy) = .ok [.node "a".toList, .none, .none] := by
  decide +kernel

/-! ## word lists: Attr_Spec / Component_Attr_Spec -/

theorem matchWordOf_mono (l l' : List String) (hsub : ∀ w ∈ l, w ∈ l') (s w : Str)
    (h : Decl.matchWordOf l s = some w) : Decl.matchWordOf l' s = some w := by
  unfold Decl.matchWordOf at h ⊢
  split at h
  · rename_i hany
    cases h
    obtain ⟨n, hn, he⟩ := List.any_eq_true.1 hany
    have : l'.any (fun n => n.toList == upper s) = true := List.any_eq_true.2 ⟨n, hsub n hn, he⟩
    simp [this]
  · cases h

theorem Attr_Spec_incl (s w : Str) (h : matchAttrSpec .f2003 s = some w) : matchAttrSpec .f2008 s = some w :=
  matchWordOf_mono _ _ (by decide) s w h

theorem Component_Attr_Spec_incl (s w : Str) (h : matchComponentAttrSpec .f2003 s = some w) :
    matchComponentAttrSpec .f2008 s = some w :=
  matchWordOf_mono _ _ (by decide) s w h

theorem matchWordOf_only (l l' : List String) (x : String)
    (hx1 : l'.all (fun w => w == x || l.contains w) = true) (hx2 : l'.contains x = true)
    (hnx : l.all (fun w => w.toList != x.toList) = true) (s w : Str) :
    (Decl.matchWordOf l' s = some w ∧ Decl.matchWordOf l s = none) ↔ (upper s = x.toList ∧ w = x.toList) := by
  unfold Decl.matchWordOf
  constructor
  · rintro ⟨h1, h2⟩
    split at h1
    · rename_i hany'
      cases h1
      split at h2
      · cases h2
      · rename_i hany
        obtain ⟨n, hn, he⟩ := List.any_eq_true.1 hany'
        have hn' := List.all_eq_true.1 hx1 n hn
        simp only [Bool.or_eq_true, beq_iff_eq, List.contains_iff_mem] at hn'
        rcases hn' with rfl | hl
        · have : n.toList = upper s := eq_of_beq he
          exact ⟨this.symm, this.symm⟩
        · exact absurd (List.any_eq_true.2 ⟨n, hl, he⟩) hany
    · cases h1
  · rintro ⟨hu, rfl⟩
    have hxm : x ∈ l' := by simpa using hx2
    have h1 : l'.any (fun n => n.toList == upper s) = true :=
      List.any_eq_true.2 ⟨x, hxm, by rw [hu]; exact beq_self_eq_true _⟩
    have h2 : ¬ (l.any (fun n => n.toList == upper s) = true) := by
      intro hany
      obtain ⟨n, hn, he⟩ := List.any_eq_true.1 hany
      have h3 : n.toList = upper s := eq_of_beq he
      have h4 := List.all_eq_true.1 hnx n hn
      rw [h3, hu] at h4
      simp at h4
    rw [if_pos h1, if_neg h2]
    exact ⟨by rw [hu], rfl⟩

theorem Attr_Spec_only08 (s w : Str) :
    (matchAttrSpec .f2008 s = some w ∧ matchAttrSpec .f2003 s = none)
      ↔ (upper s = "CONTIGUOUS".toList ∧ w = "CONTIGUOUS".toList) :=
  matchWordOf_only _ _ "CONTIGUOUS" (by decide +kernel) (by decide +kernel) (by decide +kernel) s w

theorem Component_Attr_Spec_only08 (s w : Str) :
    (matchComponentAttrSpec .f2008 s = some w ∧ matchComponentAttrSpec .f2003 s = none)
      ↔ (upper s = "CONTIGUOUS".toList ∧ w = "CONTIGUOUS".toList) :=
  matchWordOf_only _ _ "CONTIGUOUS" (by decide +kernel) (by decide +kernel) (by decide +kernel) s w

/-! ## Intrinsic_Name -/

theorem Intrinsic_Name_incl (s : Str) (slots : List Slot)
    (h : Primary.planIntrinsicName .f2003 s = .ok slots) : Primary.planIntrinsicName .f2008 s = .ok slots := by
  unfold Primary.planIntrinsicName at h ⊢
  simp only at h ⊢
  split at h
  · rename_i hc
    have hmem : upper s ∈ (SymGlue.itOf .f2003).names := by simpa using hc
    simp only [SymGlue.itOf, SymGlue.cvIntr, List.mem_map] at hmem
    obtain ⟨a, ha, hau⟩ := hmem
    have h8 : upper s ∈ (SymGlue.itOf .f2008).names := by
      simp only [SymGlue.itOf, SymGlue.cvIntr, List.mem_map]
      exact ⟨a, Registry.intr2003_subset_intr2008.1 a ha, hau⟩
    have : (SymGlue.itOf .f2008).names.contains (upper s) = true := by simpa using h8
    rw [if_pos this]
    exact h
  · cases h

/-! ## ordered choice over the alternatives of a rule -/

/-- appended alternatives never matter for a text a 2003 alternative accepts, provided the 2008
    children keep the REJECTIONS of the 2003 alternatives tried before it -/
theorem choice_incl_append {ρ : ClassId → ClassId} (h : Sim ρ f o o') (a3 extra : List ClassId) (s : Str) (n : N)
    (hnm : ∀ c ∈ a3, o.call c s = .noMatch → o'.call (ρ c) s = .noMatch)
    (hm : choice o a3 s = .ok n) : choice o' (a3.map ρ ++ extra) s = .ok (f n) := by
  apply choice_append_ok
  induction a3 with
  | nil => simp [choice] at hm
  | cons c cs ih =>
    simp only [choice, List.map] at hm ⊢
    cases hc : o.call c s with
    | ok m =>
      rw [hc] at hm; simp at hm; subst hm
      simp [h.call c s m hc]
    | noMatch =>
      rw [hc] at hm
      simp only [hnm c (by simp) hc]
      exact ih (fun c' hc' => hnm c' (by simp [hc'])) hm
    | raises e => rw [hc] at hm; simp at hm

/-- inserted alternatives: the 2003 list (renamed) is a sublist of the duplicate-free 2008 list, the NEW
    alternatives reject the text, the 2008 children keep the rejections of the 2003 alternatives -/
theorem choice_incl_sublist {ρ : ClassId → ClassId} (h : Sim ρ f o o') (a3 a8 : List ClassId) (s : Str) (n : N)
    (hs : List.Sublist (a3.map ρ) a8) (hd : a8.Nodup)
    (hnm : ∀ c ∈ a3, o.call c s = .noMatch → o'.call (ρ c) s = .noMatch)
    (hnew : ∀ c ∈ a8, c ∉ a3.map ρ → o'.call c s = .noMatch)
    (hm : choice o a3 s = .ok n) : choice o' a8 s = .ok (f n) := by
  induction a8 generalizing a3 with
  | nil =>
    have : a3.map ρ = [] := List.sublist_nil.1 hs
    cases a3 with
    | nil => simp [choice] at hm
    | cons c cs => simp at this
  | cons b bs ih =>
    have hbn : b ∉ bs := (List.nodup_cons.1 hd).1
    have hd' : bs.Nodup := (List.nodup_cons.1 hd).2
    cases a3 with
    | nil => simp [choice] at hm
    | cons c cs =>
      simp only [List.map_cons] at hs
      by_cases hb : ρ c = b
      · subst hb
        have hs' : List.Sublist (cs.map ρ) bs := List.cons_sublist_cons.1 hs
        simp only [choice] at hm ⊢
        cases hc : o.call c s with
        | ok m =>
          rw [hc] at hm; simp at hm; subst hm
          simp [h.call c s m hc]
        | noMatch =>
          rw [hc] at hm
          simp only [hnm c (by simp) hc]
          refine ih cs hs' hd' (fun c' hc' => hnm c' (by simp [hc'])) ?_ hm
          intro x hx hnx
          apply hnew x (by simp [hx])
          intro hmem
          simp only [List.map_cons, List.mem_cons] at hmem
          rcases hmem with rfl | hmem
          · exact hbn hx
          · exact hnx hmem
        | raises e => rw [hc] at hm; simp at hm
      · have hs' : List.Sublist (ρ c :: cs.map ρ) bs := by
          cases hs with
          | cons _ h1 => exact h1
          | cons_cons _ h1 => exact absurd rfl hb
        have hrej : o'.call b s = .noMatch := by
          apply hnew b (by simp)
          intro hmem
          simp only [List.map_cons] at hmem
          exact hbn (hs'.subset hmem)
        simp only [choice, hrej]
        refine ih (c :: cs) (by simpa using hs') hd' hnm ?_ hm
        intro x hx hnx
        exact hnew x (by simp [hx]) hnx

/-! ## Stop_Code -/

/-- `Stop_Code`: the 2003 class object's own `match` (label, `Level_3_Expr`) runs under both standards;
    only the name-keyed fallback alternatives differ. Inclusion holds when the 2008 fallback accepts (and
    prints alike) what the 2003 fallback accepted, and `Level_3_Expr` keeps its rejection. -/
theorem Stop_Code_incl_partial (h : Sim id f o o') (lvl3 : ClassId) (a3 a8 : List ClassId) (s : Str)
    (r : StopRes N)
    (hlv : o.call lvl3 s = .noMatch → o'.call lvl3 s = .noMatch)
    (hfb : ∀ n, choice o a3 s = .ok n → ∃ n', choice o' a8 s = .ok n' ∧ o'.str n' = o.str n)
    (hm : matchStopCode o lvl3 a3 s = .ok r) :
    ∃ r', matchStopCode o' lvl3 a8 s = .ok r' ∧ r'.text o' = r.text o := by
  unfold matchStopCode at hm ⊢
  cases hl : isLabel s
  · simp only [hl, Bool.false_eq_true, if_false] at hm ⊢
    cases hc : o.call lvl3 s with
    | ok n =>
      rw [hc] at hm
      simp only at hm
      injection hm with hm
      subst hm
      have := h.call _ _ _ hc
      simp only [id] at this
      rw [this]
      exact ⟨_, rfl, h.str n⟩
    | noMatch =>
      rw [hc] at hm
      simp only at hm
      rw [hlv hc]
      simp only
      cases hch : choice o a3 s with
      | ok n =>
        rw [hch] at hm
        simp only [Res.map] at hm
        injection hm with hm
        subst hm
        obtain ⟨n', h1, h2⟩ := hfb n hch
        rw [h1]
        exact ⟨_, rfl, h2⟩
      | noMatch => rw [hch] at hm; cases hm
      | raises e => rw [hch] at hm; cases hm
    | raises e => rw [hc] at hm; cases hm
  · simp only [hl, if_true] at hm ⊢
    injection hm with hm
    subst hm
    exact ⟨_, rfl, rfl⟩

end Fp.Incl08
