import FparserModel.Proofs.ReaderPut

/-!
# ReaderWalk — `drain` as a relation, look-ahead / restore walks

`Drains d fs st evs fin` : repeated `get_item` on `st` yields exactly the events `evs` and ends
in state `fin` (for some amount of fuel; the result does not depend on the fuel).
-/
namespace Fp.Reader
open Fp

def Drains (d : Nat) (fs : Fs) (st : List Rd) (evs : List Ev) (fin : List Rd) : Prop :=
  ∃ n, drainEv d fs n st = some (evs, fin)

theorem drainEv_mono (d : Nat) (fs : Fs) : ∀ (n : Nat) (st : List Rd) (v : List Ev × List Rd),
    drainEv d fs n st = some v → drainEv d fs (n + 1) st = some v
  | 0, _, _, h => by simp [drainEv] at h
  | n + 1, st, v, h => by
    unfold drainEv at h ⊢
    simp only [] at h ⊢
    cases hp : (getItem d fs st).1 with
    | ok x =>
      rw [hp] at h; simp only [] at h ⊢
      cases hq : drainEv d fs n (getItem d fs st).2 with
      | none => rw [hq] at h; simp at h
      | some q => rw [drainEv_mono d fs n _ q hq]; rw [hq] at h; exact h
    | stop =>
      rw [hp] at h; simp only [] at h ⊢
      by_cases he : exhausted (getItem d fs st).2 = true
      · simp only [he, if_true] at h ⊢; exact h
      · simp only [he] at h ⊢
        cases hq : drainEv d fs n (getItem d fs st).2 with
        | none => rw [hq] at h; simp at h
        | some q => rw [drainEv_mono d fs n _ q hq]; rw [hq] at h; exact h
    | err =>
      rw [hp] at h; simp only [] at h ⊢
      by_cases he : exhausted (getItem d fs st).2 = true
      · simp only [he, if_true] at h ⊢; exact h
      · simp only [he] at h ⊢
        cases hq : drainEv d fs n (getItem d fs st).2 with
        | none => rw [hq] at h; simp at h
        | some q => rw [drainEv_mono d fs n _ q hq]; rw [hq] at h; exact h
    | exit => rw [hp] at h; exact h
    | unsup => rw [hp] at h; exact h

theorem drainEv_mono_add (d : Nat) (fs : Fs) (n k : Nat) (st : List Rd) (v : List Ev × List Rd)
    (h : drainEv d fs n st = some v) : drainEv d fs (n + k) st = some v := by
  induction k with
  | zero => exact h
  | succ k ih => exact drainEv_mono d fs (n + k) st v ih

/-- the drain of a state is unique -/
theorem Drains_det {d : Nat} {fs : Fs} {st : List Rd} {e1 e2 : List Ev} {f1 f2 : List Rd}
    (h1 : Drains d fs st e1 f1) (h2 : Drains d fs st e2 f2) : e1 = e2 ∧ f1 = f2 := by
  obtain ⟨n1, h1⟩ := h1
  obtain ⟨n2, h2⟩ := h2
  have a := drainEv_mono_add d fs n1 n2 st _ h1
  have b := drainEv_mono_add d fs n2 n1 st _ h2
  rw [Nat.add_comm] at b
  rw [a] at b
  simp only [Option.some.injEq, Prod.mk.injEq] at b
  exact b

/-- forward step: an item read from `st` is the head of its drain -/
theorem Drains_cons {d : Nat} {fs : Fs} {st st' : List Rd} {x : Item} {evs : List Ev} {fin : List Rd}
    (hg : getItem d fs st = (.ok x, st')) (h : Drains d fs st' evs fin) :
    Drains d fs st (.item x :: evs) fin := by
  obtain ⟨n, h⟩ := h
  refine ⟨n + 1, ?_⟩
  unfold drainEv
  simp only [hg, h, Option.map_some]

/-- inversion of the forward step -/
theorem Drains_uncons {d : Nat} {fs : Fs} {st st' : List Rd} {x : Item} {evs : List Ev} {fin : List Rd}
    (hg : getItem d fs st = (.ok x, st')) (h : Drains d fs st evs fin) :
    ∃ evs0, evs = .item x :: evs0 ∧ Drains d fs st' evs0 fin := by
  obtain ⟨n, h⟩ := h
  cases n with
  | zero => simp [drainEv] at h
  | succ n =>
    unfold drainEv at h
    simp only [hg] at h
    cases hq : drainEv d fs n st' with
    | none => rw [hq] at h; simp at h
    | some q =>
      rw [hq] at h
      simp only [Option.map_some, Option.some.injEq, Prod.mk.injEq] at h
      exact ⟨q.1, h.1.symm, n, by rw [hq, ← h.2]⟩

/-- `get_put_inverse`: `put_item x` then `get_item` returns `x` and restores the complete
    chain of readers (include-reader delegation included) -/
theorem getItem_putItem (d : Nat) (fs : Fs) (st : List Rd) (r : Rd) (x : Item)
    (hi : innermost st = some r) (hr : returnable fs r x = true) :
    getItem (d + 1) fs (putItem x st) = (.ok x, st) := by
  unfold getItem next
  exact nextChain_putItem (next d fs) fs x st r hi hr

/-- walks over `get_item` / `put_item` (put back the most recently read, not yet restored item) -/
inductive Op where
  | g
  | p
deriving DecidableEq, Repr

/-- run a walk; `none` when a `get_item` does not deliver an item, when `p` has nothing to put
    back, or when the item to put back is not `returnable` -/
def runWalk (d : Nat) (fs : Fs) : List Op → List Rd → List Item → Option (List Rd × List Item)
  | [], st, got => some (st, got)
  | .g :: w, st, got =>
    match getItem (d + 1) fs st with
    | (.ok x, st') => runWalk d fs w st' (x :: got)
    | _ => none
  | .p :: _, _, [] => none
  | .p :: w, st, x :: got =>
    match innermost st with
    | some r => if returnable fs r x then runWalk d fs w (putItem x st) got else none
    | none => none

def evItems (xs : List Item) : List Ev := xs.map Ev.item

/-- the invariant of a walk: (items held, oldest first) ++ (drain of the state) never changes -/
theorem runWalk_future (d : Nat) (fs : Fs) : ∀ (w : List Op) (st : List Rd) (got : List Item)
    (st' : List Rd) (got' : List Item) (evs : List Ev) (fin : List Rd),
    runWalk d fs w st got = some (st', got') → Drains (d + 1) fs st' evs fin →
    ∃ evs0, Drains (d + 1) fs st evs0 fin ∧
      evItems got.reverse ++ evs0 = evItems got'.reverse ++ evs
  | [], st, got, st', got', evs, fin, h, hd => by
    simp only [runWalk, Option.some.injEq, Prod.mk.injEq] at h
    obtain ⟨rfl, rfl⟩ := h
    exact ⟨evs, hd, rfl⟩
  | .g :: w, st, got, st', got', evs, fin, h, hd => by
    unfold runWalk at h
    cases hg : getItem (d + 1) fs st with
    | mk res st1 =>
      rw [hg] at h
      cases res with
      | ok x =>
        simp only [] at h
        obtain ⟨evs1, h1, h2⟩ := runWalk_future d fs w st1 (x :: got) st' got' evs fin h hd
        refine ⟨.item x :: evs1, Drains_cons hg h1, ?_⟩
        rw [← h2]
        simp [evItems]
      | stop => simp at h
      | err => simp at h
      | exit => simp at h
      | unsup => simp at h
  | .p :: w, st, [], st', got', evs, fin, h, hd => by simp [runWalk] at h
  | .p :: w, st, x :: got, st', got', evs, fin, h, hd => by
    unfold runWalk at h
    cases hi : innermost st with
    | none => rw [hi] at h; simp at h
    | some r =>
      rw [hi] at h
      simp only [] at h
      by_cases hr : returnable fs r x = true
      · simp only [hr, if_true] at h
        obtain ⟨evs1, h1, h2⟩ := runWalk_future d fs w (putItem x st) got st' got' evs fin h hd
        obtain ⟨evs0, he, h0⟩ := Drains_uncons (getItem_putItem d fs st r x hi hr) h1
        refine ⟨evs0, h0, ?_⟩
        rw [← h2, he]
        simp [evItems]
      · simp [hr] at h

/-- put back `xs` in reverse order of reading (`xs` = oldest first) -/
def putMany : List Item → List Rd → List Rd
  | [], st => st
  | x :: xs, st => putItem x (putMany xs st)

/-- read `k` items -/
def getN (d : Nat) (fs : Fs) : Nat → List Rd → Option (List Item × List Rd)
  | 0, st => some ([], st)
  | k + 1, st =>
    match getItem d fs st with
    | (.ok x, st') => (getN d fs k st').map fun q => (x :: q.1, q.2)
    | _ => none

theorem innermost_putItem (x : Item) : ∀ (st : List Rd) (r : Rd), innermost st = some r →
    innermost (putItem x st) = some (r.push x)
  | [], _, h => by cases h
  | [r0], r, h => by
    simp only [innermost, Option.some.injEq] at h
    subst h; rfl
  | r0 :: r2 :: rest, r, h => by
    have ih := innermost_putItem x (r2 :: rest) r h
    cases hp : putItem x (r2 :: rest) with
    | nil => cases rest <;> simp [putItem] at hp
    | cons a as =>
      simp only [putItem, hp]
      rw [hp] at ih
      exact ih

theorem returnable_push (fs : Fs) (r : Rd) (y x : Item) :
    returnable fs (r.push y) x = returnable fs r x := rfl

theorem Drains_putMany (d : Nat) (fs : Fs) (r : Rd) : ∀ (xs : List Item) (st : List Rd)
    (evs : List Ev) (fin : List Rd), innermost st = some r →
    (∀ x ∈ xs, returnable fs r x = true) → Drains (d + 1) fs st evs fin →
    ∃ r', innermost (putMany xs st) = some r' ∧ (∀ x, returnable fs r' x = returnable fs r x) ∧
      Drains (d + 1) fs (putMany xs st) (evItems xs ++ evs) fin
  | [], st, evs, fin, hi, _, hd => ⟨r, hi, fun _ => rfl, by simpa [putMany, evItems] using hd⟩
  | x :: xs, st, evs, fin, hi, hr, hd => by
    obtain ⟨r', hi', hq, hd'⟩ := Drains_putMany d fs r xs st evs fin hi
      (fun y hy => hr y (List.mem_cons_of_mem _ hy)) hd
    have hx : returnable fs r' x = true := by rw [hq]; exact hr x List.mem_cons_self
    refine ⟨r'.push x, innermost_putItem x _ r' hi', fun y => by rw [returnable_push, hq], ?_⟩
    have := Drains_cons (getItem_putItem d fs (putMany xs st) r' x hi' hx) hd'
    simpa [putMany, evItems] using this

theorem Drains_getN (d : Nat) (fs : Fs) : ∀ (k : Nat) (st st' : List Rd) (xs : List Item)
    (evs : List Ev) (fin : List Rd), getN d fs k st = some (xs, st') → Drains d fs st' evs fin →
    Drains d fs st (evItems xs ++ evs) fin
  | 0, st, st', xs, evs, fin, h, hd => by
    simp only [getN, Option.some.injEq, Prod.mk.injEq] at h
    obtain ⟨rfl, rfl⟩ := h
    simpa [evItems] using hd
  | k + 1, st, st', xs, evs, fin, h, hd => by
    unfold getN at h
    cases hg : getItem d fs st with
    | mk res st1 =>
      rw [hg] at h
      cases res with
      | ok x =>
        simp only [] at h
        cases hq : getN d fs k st1 with
        | none => rw [hq] at h; simp at h
        | some q =>
          rw [hq] at h
          simp only [Option.map_some, Option.some.injEq, Prod.mk.injEq] at h
          obtain ⟨rfl, rfl⟩ := h
          have := Drains_getN d fs k st1 q.2 q.1 evs fin (by rw [hq]) hd
          have := Drains_cons hg this
          simpa [evItems] using this
      | stop => simp at h
      | err => simp at h
      | exit => simp at h
      | unsup => simp at h

end Fp.Reader
