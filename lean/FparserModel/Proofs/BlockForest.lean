import FparserModel.Proofs.BlockClosed

/-!
# M-D proofs, part 7: a failed attempt leaves the symbol tables exactly as they were

For outcomes `none` / `NoMatchError` (and matches that are single statements) the top-level
tables and the whole chain of open tables — with all their children — are unchanged, unless
one of the boundary events was logged in the run:

* a leak (`scopeLeak`, `main0Leak`, `emptyScopeName`),
* `abandon`   : a completed block object was given back to the reader (F-C16-1: its tables stay),
* `nameClash` : `enter_scope(n)` next to an existing table `n`,
* a drop (`seqDrop`, `hookDrop`, `progDrop`, `noMatchDrop`).
-/
namespace Fp.Block

def isBad : Ev → Bool
  | .ghost .scopeLeak => true
  | .ghost .main0Leak => true
  | .ghost .emptyScopeName => true
  | .ghost .abandon => true
  | .ghost .nameClash => true
  | .ghost .seqDrop => true
  | .ghost .hookDrop => true
  | .ghost .progDrop => true
  | .ghost .noMatchDrop => true
  | _ => false

/-- number of boundary events in the log -/
def B (s : St) : Nat := (s.log.filter isBad).length

theorem B_mono {a b : St} (h : LogExt a b) : B a ≤ B b := by
  obtain ⟨new, e⟩ := h; simp [B, e, List.filter_append]

theorem B_ev_bad (s : St) (e : Ev) (h : isBad e = true) : B (s.ev e) = B s + 1 := by
  simp [B, St.ev, List.filter_cons, h]
theorem B_ev_ok (s : St) (e : Ev) (h : isBad e = false) : B (s.ev e) = B s := by
  simp [B, St.ev, List.filter_cons, h]

/-- top-level tables and open chain (with all children) are the same -/
def SymEq (s s' : St) : Prop := s'.sym.tops = s.sym.tops ∧ s'.sym.stack = s.sym.stack

theorem SymEq.refl (s : St) : SymEq s s := ⟨rfl, rfl⟩
theorem SymEq.trans {a b c : St} (h1 : SymEq a b) (h2 : SymEq b c) : SymEq a c :=
  ⟨h2.1.trans h1.1, h2.2.trans h1.2⟩
theorem SymEq.of_sym {s s' : St} (h : s'.sym = s.sym) : SymEq s s' := by
  unfold SymEq; rw [h]; exact ⟨rfl, rfl⟩

/-- the symbol tables are untouched -/
def SS (s s' : St) : Prop := s'.sym = s.sym

theorem ss_prim : PrimOK SS where
  refl := fun _ => rfl
  trans := fun h1 h2 => by unfold SS at *; rw [h2, h1]
  get := fun _ => rfl
  put := fun _ _ => rfl
  ev := fun _ _ _ => rfl
  seen := fun _ _ => rfl

variable {env : Env}

theorem leafFresh_ss (c : Cls) (s : St) : SS s (leafFresh env c s).2 := by
  unfold leafFresh; exact leafNew_prim ss_prim c [c] s

theorem firstLeaf_ss (cs : List Cls) (s : St) : SS s (firstLeaf env cs s).2 := by
  induction cs generalizing s with
  | nil => rfl
  | cons c cs ih =>
    simp only [firstLeaf]
    have h1 := leafFresh_ss (env := env) c s
    split
    · rename_i s1 heq; rw [heq] at h1; exact ss_prim.trans h1 (ih s1)
    · exact h1

theorem cppNew_ss (cs : List Cls) (s : St) : SS s (cppNew env cs s).2 := by
  unfold cppNew
  have hp := peek_prim ss_prim.toPrimOK0 s
  split
  · rename_i s1 heq; rw [heq] at hp; exact hp
  · rename_i it s1 heq
    rw [heq] at hp
    simp only at hp ⊢
    split
    · exact ss_prim.trans hp (firstLeaf_ss cs _)
    · exact hp

theorem cidRest_ss (s : St) : SS s (cidRest env s).2 := by
  unfold cidRest
  have h2 := commentNew_prim (env := env) ss_prim.toPrimOK0 s
  split
  · rename_i s2 heq2
    rw [heq2] at h2
    have h3 := leafFresh_ss (env := env) env.tbl.includeStmt s2
    split
    · rename_i s3 heq3
      rw [heq3] at h3
      exact ss_prim.trans h2 (ss_prim.trans h3 (cppNew_ss _ s3))
    · exact ss_prim.trans h2 h3
  · exact h2

theorem cidOne_ss (s : St) : SS s (cidOne env s).2 := by
  unfold cidOne
  split
  · have h1 := directiveNew_prim (env := env) ss_prim.toPrimOK0 s
    split
    · rename_i s1 heq; rw [heq] at h1; exact ss_prim.trans h1 (cidRest_ss s1)
    · exact h1
  · exact cidRest_ss s

theorem addCID_ss (k : Nat) (rc : List Tree) (s : St) : SS s (addCID env k rc s).2 := by
  induction k generalizing rc s with
  | zero => rfl
  | succ k ih =>
    simp only [addCID]
    have h1 := cidOne_ss (env := env) s
    split
    · rename_i t s1 heq; rw [heq] at h1; exact ss_prim.trans h1 (ih _ _)
    · rename_i s1 heq; rw [heq] at h1; exact h1
    · rename_i e s1 heq; rw [heq] at h1; exact h1

mutual
theorem restore_ss (t : Tree) (s : St) : SS s (restore t s) := by
  cases t with
  | leaf c i info => rfl
  | node c ks => simp only [restore]; exact ss_prim.trans (rfl : SS s _) (restoreRev_ss ks _)
theorem restoreRev_ss (ts : List Tree) (s : St) : SS s (restoreRev ts s) := by
  cases ts with
  | nil => rfl
  | cons t ts => simp only [restoreRev]; exact ss_prim.trans (restoreRev_ss ts s) (restore_ss t _)
end

theorem restoreRc_ss (ts : List Tree) (s : St) : SS s (restoreRc ts s) := by
  induction ts generalizing s with
  | nil => rfl
  | cons t ts ih => simp only [restoreRc]; exact ss_prim.trans (restore_ss t s) (ih _)

def AllLeaves (ts : List Tree) : Prop := ∀ t ∈ ts, isLeafT t

mutual
theorem restore_B (t : Tree) (s : St) :
    B s ≤ B (restore t s) ∧ (B (restore t s) = B s → isLeafT t) := by
  cases t with
  | leaf c i info => exact ⟨by simp [B, restore, St.put, List.filter_cons, isBad], fun _ => trivial⟩
  | node c ks =>
    simp only [restore]
    have h1 := (restoreRev_B ks (s.ev (.ghost .abandon)))
    rw [B_ev_bad _ _ rfl] at h1
    exact ⟨by omega, fun h => by omega⟩
theorem restoreRev_B (ts : List Tree) (s : St) : B s ≤ B (restoreRev ts s) := by
  cases ts with
  | nil => exact Nat.le_refl _
  | cons t ts =>
    simp only [restoreRev]
    exact Nat.le_trans (restoreRev_B ts s) (restore_B t _).1
end

theorem restoreRc_B (rc : List Tree) (s : St) :
    B s ≤ B (restoreRc rc s) ∧ (B (restoreRc rc s) = B s → AllLeaves rc) := by
  induction rc generalizing s with
  | nil => exact ⟨Nat.le_refl _, fun _ t ht => by cases ht⟩
  | cons t ts ih =>
    simp only [restoreRc]
    have h1 := restore_B t s
    have h2 := ih (restore t s)
    refine ⟨by omega, fun h => ?_⟩
    intro x hx
    simp only [List.mem_cons] at hx
    rcases hx with rfl | hx
    · exact h1.2 (by omega)
    · exact h2.2 (by omega) x hx

/-- spec of a call -/
def FSpec (s : St) (o : Outcome) (s' : St) : Prop :=
  B s' = B s →
    match o with
    | .none => SymEq s s'
    | .raise .noMatch => SymEq s s'
    | .tree t => isLeafT t → SymEq s s'
    | .raise _ => True

/-- spec of a `match` method (a tuple is a block object: no claim) -/
def MSpecF (s : St) (r : MRes) (s' : St) : Prop :=
  B s' = B s →
    match r with
    | .none => SymEq s s'
    | .raise .noMatch => SymEq s s'
    | _ => True

/-- content invariant: as long as only statements were collected nothing changed -/
def Inv (s0 : St) (rc : List Tree) (st : St) : Prop := AllLeaves rc → SymEq s0 st

theorem AllLeaves.cons {t : Tree} {rc : List Tree} (h : AllLeaves (t :: rc)) :
    isLeafT t ∧ AllLeaves rc :=
  ⟨h t (by simp), fun x hx => h x (by simp [hx])⟩

theorem AllLeaves.append {a b : List Tree} (h : AllLeaves (a ++ b)) : AllLeaves a ∧ AllLeaves b :=
  ⟨fun x hx => h x (by simp [hx]), fun x hx => h x (by simp [hx])⟩

structure FF (f : F) : Prop where
  log : FRel LogExt f
  spec : ∀ c s o s', f c s = (o, s') → FSpec s o s'

structure GF (g : G) : Prop where
  log : GRel LogExt g
  spec : ∀ c pc s o pc' s', g c pc s = (o, pc', s') → FSpec s o s'

theorem fresh_F {g : G} (hg : GF g) : FF (fresh g) :=
  ⟨fresh_rel hg.log, fun c s o s' h => by
    unfold fresh at h; inj2 h; exact hg.spec c [] s _ (g c [] s).2.1 _ rfl⟩

/-- leaf-level results never touch the tables -/
theorem FSpec.of_ss {s s' : St} {o : Outcome} (h : SS s s') : FSpec s o s' := by
  intro _
  have := SymEq.of_sym h
  cases o with
  | none => exact this
  | tree t => exact fun _ => this
  | raise e => cases e <;> first | exact this | trivial

theorem callCatch_F {f : F} (hf : FF f) {c : Cls} {s : St} {o : Outcome} {s' : St}
    (heq : callCatch f c s = (o, s')) : FSpec s o s' := by
  unfold callCatch at heq
  split at heq
  · rename_i s1 h1; inj2 heq; exact fun hb => hf.spec _ _ _ _ h1 hb
  · exact hf.spec _ _ _ _ heq

theorem hookLead_F {fuel : Nat} {s : St} {r : Except Exc (List Tree)} {s' : St}
    (heq : hookLead env fuel s = (r, s')) :
    SS s s' ∧ LogExt s s' ∧ ∀ lead, r = .ok lead → AllLeaves lead := by
  have hl : LogExt s s' := by
    have := hookLead_rel (logExt_ok env) fuel s; rw [heq] at this; exact this
  unfold hookLead at heq
  split at heq
  · refine ⟨by have := addCID_ss (env := env) fuel [] s; rw [heq] at this; exact this, hl, ?_⟩
    intro lead he; subst he
    obtain ⟨new, hn, hleaf⟩ := addCID_E heq
    simp at hn; subst hn; exact hleaf
  · inj2 heq
    exact ⟨rfl, hl, fun lead he => by cases he; intro t ht; cases ht⟩

theorem doHook_F {f : F} (hf : FF f) {fuel : Nat} {cfg : Cfg} {v : LoopVars} {s : St}
    {r : HookRes} {s' : St} (heq : doHook env f fuel cfg v s = (r, s')) (hB : B s' = B s) :
    match r with
    | .proceed => SymEq s s'
    | .append ts => AllLeaves ts → SymEq s s'
    | .raise _ => True := by
  unfold doHook at heq
  split at heq
  · split at heq
    · inj2 heq; trivial
    · rename_i lead s0 h0
      obtain ⟨ss0, l0, hlead⟩ := hookLead_F h0
      have m0 := B_mono l0
      have e0 : SymEq s s0 := SymEq.of_sym ss0
      split at heq
      · inj2 heq; trivial
      · rename_i sc _
        split at heq
        · inj2 heq; trivial
        · rename_i s1 h1
          inj2 heq
          have l1 : LogExt s0 s1 := by have := hf.log sc s0; rw [h1] at this; exact this
          have m1 := B_mono l1
          have hr := restoreRc_B lead s1
          have := hf.spec _ _ _ _ h1 (by omega)
          simp only at this ⊢
          exact e0.trans (this.trans (SymEq.of_sym (restoreRc_ss lead s1)))
        · rename_i t s1 h1
          have l1 : LogExt s0 s1 := by have := hf.log sc s0; rw [h1] at this; exact this
          have m1 := B_mono l1
          split at heq
          · split at heq
            · inj2 heq; trivial
            · split at heq
              · inj2 heq
                simp only
                intro hall
                have := hf.spec _ _ _ _ h1 (by omega)
                simp only at this
                exact e0.trans (this hall.cons.1)
              · inj2 heq
                have hr := restore_B t s1
                have hr2 := restoreRc_B lead (restore t s1)
                have := hf.spec _ _ _ _ h1 (by omega)
                simp only at this ⊢
                exact e0.trans ((this (hr.2 (by omega))).trans
                  ((SymEq.of_sym (restore_ss t s1)).trans (SymEq.of_sym (restoreRc_ss lead _))))
          · inj2 heq
            exfalso
            have hr2 := restoreRc_B lead (s1.ev (Ev.ghost Ghost.hookDrop))
            rw [B_ev_bad _ _ rfl] at hr2
            omega
  · inj2 heq; exact SymEq.refl _

theorem matchedStep_abort_state {cfg : Cfg} {startT : Option Tree} {sn : Option (Option Name)}
    {i : Nat} {v : LoopVars} {t : Tree} {s1 s2 : St}
    (heq : matchedStep env cfg startT sn i v t s1 = (.abort, s2)) :
    s2 = restoreRc v.rc (restore t s1) := by
  unfold matchedStep at heq
  simp only at heq
  split at heq
  · simp at heq
  · simp only [Prod.mk.injEq, true_and] at heq; exact heq.symm
  · split at heq
    · simp at heq
    · split at heq
      · split at heq
        · simp at heq
        · split at heq
          · simp only [Prod.mk.injEq, true_and] at heq; exact heq.symm
          · simp at heq
        · split at heq <;> simp at heq
      · simp at heq

theorem matchedStep_F {cfg : Cfg} {startT : Option Tree} {sn : Option (Option Name)} {i : Nat}
    {v : LoopVars} {t : Tree} {s1 : St} {st : Step} {s2 : St}
    (heq : matchedStep env cfg startT sn i v t s1 = (st, s2)) :
    SS s1 s2 ∧ LogExt s1 s2 ∧
    (match st with
     | .abort => B s2 = B s1 → AllLeaves (t :: v.rc)
     | .done v2 => v2.rc = t :: v.rc
     | .again _ v2 => v2.rc = t :: v.rc
     | .raise _ => True) := by
  have hl : LogExt s1 s2 := by
    have := matchedStep_rel (logExt_ok env) cfg startT sn i v t s1; rw [heq] at this; exact this
  cases st with
  | abort =>
    have hs := matchedStep_abort_state heq
    subst hs
    refine ⟨ss_prim.trans (restore_ss t s1) (restoreRc_ss _ _), hl, ?_⟩
    intro hb
    have h1 := restore_B t s1
    have h2 := restoreRc_B v.rc (restore t s1)
    intro x hx
    simp only [List.mem_cons] at hx
    rcases hx with rfl | hx
    · exact h1.2 (by omega)
    · exact h2.2 (by omega) x hx
  | raise e =>
    have hA := matchedStep_A heq
    simp only at hA; subst hA; exact ⟨rfl, hl, trivial⟩
  | done v2 =>
    have hA := matchedStep_A heq
    simp only at hA; obtain ⟨rfl, hv⟩ := hA; exact ⟨rfl, hl, hv⟩
  | again i2 v2 =>
    have hA := matchedStep_A heq
    simp only at hA; obtain ⟨rfl, hv⟩ := hA; exact ⟨rfl, hl, hv⟩

/-- what the loop guarantees, for a predicate `Q` on states that is stable under `SymEq` -/
def LoopSpecQ (Q : St → Prop) (res : LoopRes) (sL : St) : Prop :=
  match res with
  | .done v _ => AllLeaves v.rc → Q sL
  | .abort => Q sL
  | .raise _ => True

theorem blockLoop_F {f : F} (hf : FF f) {cfg : Cfg} {classes : List Cls} {startT : Option Tree}
    {sn : Option (Option Name)} {Q : St → Prop} (hQ : ∀ a b, Q a → SymEq a b → Q b)
    {k i : Nat} {v : LoopVars} {s : St} {res : LoopRes}
    {s' : St} (hinv : AllLeaves v.rc → Q s)
    (heq : blockLoop env f cfg classes startT sn k i v s = (res, s')) (hB : B s' = B s) :
    LoopSpecQ Q res s' := by
  induction k generalizing i v s with
  | zero => simp only [blockLoop] at heq; inj2 heq; trivial
  | succ k ih =>
    simp only [blockLoop] at heq
    split at heq
    · inj2 heq; exact hinv
    · rename_i cls _
      split at heq
      · inj2 heq; trivial
      · rename_i ts s1 h1
        have l1 : LogExt s s1 := by
          have := doHook_rel (L env) hf.log k cfg v s; rw [h1] at this; exact this
        have l2 : LogExt s1 s' := by
          have := blockLoop_rel (L env) hf.log cfg classes startT sn k i { v with rc := ts ++ v.rc } s1
          rw [heq] at this; exact this
        have m1 := B_mono l1; have m2 := B_mono l2
        have hh := doHook_F hf h1 (by omega)
        simp only at hh
        refine ih (v := { v with rc := ts ++ v.rc }) ?_ heq (by omega)
        intro hall
        exact hQ _ _ (hinv hall.append.2) (hh hall.append.1)
      · rename_i sa h1
        have l1 : LogExt s sa := by
          have := doHook_rel (L env) hf.log k cfg v s; rw [h1] at this; exact this
        have m1 := B_mono l1
        split at heq
        · inj2 heq; trivial
        · rename_i sb h2
          have l2 : LogExt sa sb := by
            have := callCatch_rel hf.log cls sa; rw [h2] at this; exact this
          have m2 := B_mono l2
          have l3 : LogExt sb s' := by
            have := blockLoop_rel (L env) hf.log cfg classes startT sn k (i + 1) v sb
            rw [heq] at this; exact this
          have m3 := B_mono l3
          have hh := doHook_F hf h1 (by omega)
          have hcc := callCatch_F hf h2 (by omega)
          simp only at hh hcc
          exact ih (fun hall => hQ _ _ (hQ _ _ (hinv hall) hh) hcc) heq (by omega)
        · rename_i t sb h2
          have l2 : LogExt sa sb := by
            have := callCatch_rel hf.log cls sa; rw [h2] at this; exact this
          have m2 := B_mono l2
          have hh := doHook_F hf h1
          have hcc := callCatch_F hf h2
          have hinv2 : B sb = B s → AllLeaves (t :: v.rc) → Q sb := by
            intro hb hall
            have h1' := hh (by omega); have h2' := hcc (by omega)
            simp only at h1' h2'
            exact hQ _ _ (hQ _ _ (hinv hall.cons.2) h1') (h2' hall.cons.1)
          split at heq
          · inj2 heq; trivial
          · rename_i sc h3
            inj2 heq
            obtain ⟨ss3, l3, hab⟩ := matchedStep_F h3
            have m3 := B_mono l3
            simp only at hab
            simp only [LoopSpecQ]
            exact hQ _ _ (hinv2 (by omega) (hab (by omega))) (SymEq.of_sym ss3)
          · rename_i v2 sc h3
            inj2 heq
            obtain ⟨ss3, l3, hv⟩ := matchedStep_F h3
            have m3 := B_mono l3
            simp only at hv
            simp only [LoopSpecQ]
            rw [hv]
            intro hall
            exact hQ _ _ (hinv2 (by omega) hall) (SymEq.of_sym ss3)
          · rename_i i2 v2 sc h3
            obtain ⟨ss3, l3, hv⟩ := matchedStep_F h3
            have m3 := B_mono l3
            simp only at hv
            have l4 : LogExt sc s' := by
              have := blockLoop_rel (L env) hf.log cfg classes startT sn k i2 v2 sc
              rw [heq] at this; exact this
            have m4 := B_mono l4
            refine ih (v := v2) ?_ heq (by omega)
            rw [hv]
            intro hall
            exact hQ _ _ (hinv2 (by omega) hall) (SymEq.of_sym ss3)

/-- the loop only ever adds to the content -/
theorem blockLoop_suffix {f : F} {cfg : Cfg} {classes : List Cls} {startT : Option Tree}
    {sn : Option (Option Name)} {k i : Nat} {v : LoopVars} {s : St} {v' : LoopVars} {fe : Bool}
    {s' : St} (heq : blockLoop env f cfg classes startT sn k i v s = (.done v' fe, s')) :
    ∃ new, v'.rc = new ++ v.rc := by
  induction k generalizing i v s with
  | zero => simp [blockLoop] at heq
  | succ k ih =>
    simp only [blockLoop] at heq
    split at heq
    · simp only [Prod.mk.injEq, LoopRes.done.injEq] at heq
      exact ⟨[], by rw [← heq.1.1]; rfl⟩
    · split at heq
      · simp at heq
      · rename_i ts s1 h1
        obtain ⟨new, hn⟩ := ih (v := { v with rc := ts ++ v.rc }) heq
        exact ⟨new ++ ts, by simp [hn]⟩
      · split at heq
        · simp at heq
        · exact ih heq
        · rename_i t sb h2
          split at heq
          · simp at heq
          · simp at heq
          · rename_i v2 sc h3
            simp only [Prod.mk.injEq, LoopRes.done.injEq] at heq
            have hrc := matchedStep_rc h3
            simp only at hrc
            exact ⟨[t], by rw [← heq.1.1, hrc]; rfl⟩
          · rename_i i2 v2 sc h3
            have hrc := matchedStep_rc h3
            simp only at hrc
            obtain ⟨new, hn⟩ := ih (v := v2) heq
            exact ⟨new ++ [t], by simp [hn, hrc]⟩

/-! ### entering a fresh name, leaving, removing: back where we were -/

theorem findNamed_append_new (n : Name) (l : List Scope) (x : Scope) (hx : x.name = n)
    (hl : findNamed n l = none) :
    findNamed n (l ++ [x]) = some x ∧ eraseFirstNamed n (l ++ [x]) = l := by
  induction l with
  | nil => simp [findNamed, eraseFirstNamed, hx]
  | cons y ys ih =>
    simp only [findNamed] at hl
    split at hl
    · cases hl
    · rename_i hy
      have := ih hl
      simp [findNamed, eraseFirstNamed, hy, this]

theorem isSome_false {α : Type} {o : Option α} (h : o.isSome = false) : o = none := by
  cases o <;> simp_all

/-- `enter_scope(n)` (no table `n` there yet), then nothing but statements, `exit_scope()`,
`remove(n)`: the tables are exactly as before -/
theorem SymTabs.undo (t u : SymTabs) (n : Name) (hc : t.clashes n = false)
    (h1 : u.tops = (t.enter n).tops) (h2 : u.stack = (t.enter n).stack) :
    ∃ y z, u.exit = some y ∧ y.remove n = some z ∧ z.tops = t.tops ∧ z.stack = t.stack := by
  unfold SymTabs.clashes at hc
  unfold SymTabs.enter at h1 h2
  cases hst : t.stack with
  | nil =>
    simp only [hst] at hc h1 h2
    have hn := isSome_false hc
    simp only [hn] at h1 h2
    have hf := findNamed_append_new n t.tops (Scope.mk t.next n []) rfl hn
    refine ⟨{ u with tops := u.tops ++ [Frame.close ⟨t.next, n, []⟩], stack := [] }, ?_⟩
    refine ⟨{ u with tops := t.tops, stack := [] }, ?_, ?_, rfl, rfl⟩
    · unfold SymTabs.exit; rw [h2]
    · unfold SymTabs.remove
      simp only [h1, Frame.close, hf.1, hf.2]
  | cons f fs =>
    simp only [hst] at hc h1 h2
    have hn := isSome_false hc
    have hf := findNamed_append_new n f.kids (Scope.mk t.next n []) rfl hn
    refine ⟨{ u with stack := { f with kids := f.kids ++ [Frame.close ⟨t.next, n, []⟩] } :: fs }, ?_⟩
    refine ⟨{ u with stack := f :: fs }, ?_, ?_, h1, rfl⟩
    · unfold SymTabs.exit; rw [h2]
    · unfold SymTabs.remove
      simp only [Frame.close, hf.1, hf.2]

/-- the same at state level, for the way `BlockBase.match` / `Main_Program0.match` do it -/
theorem undo_state {sp sL : St} {n : Name} (hc : sp.sym.clashes n = false)
    (he : SymEq (sp.enter n) sL) :
    ∃ s3 s4, sL.exit = (true, s3) ∧ s3.remove n = (true, s4) ∧ SymEq sp s4 := by
  obtain ⟨y, z, hy, hz, ht, hs⟩ := SymTabs.undo sp.sym sL.sym n hc he.1 he.2
  refine ⟨{ sL.ev .exit with sym := y }, { ({ sL.ev .exit with sym := y } : St).ev (.remove n) with sym := z }, ?_, ?_, ht, hs⟩
  · unfold St.exit; rw [hy]
  · unfold St.remove; simp only [St.ev]; rw [hz]


/-! ### `BlockBase.match` -/

theorem enterState_log (tn : Option Name) (s2 : St) : LogExt s2 (enterState tn s2) := by
  unfold enterState; split
  · exact ((ghostIf_log _ _ _).trans ⟨[Ev.enter _], rfl⟩).trans (ghostIf_log _ _ _)
  · exact LogExt.refl _

/-- the start phase -/
theorem blockStart_F {f : F} (hf : FF f) {fuel : Nat} {cfg : Cfg} {s : St} {r : StartRes} {s1 : St}
    (heq : blockStart env f fuel cfg s = (r, s1)) (hB : B s1 = B s) :
    match r with
    | .ret .none => SymEq s s1
    | .ret _ => True
    | .go rc _ tn _ _ =>
      ∃ s2, LogExt s s2 ∧ (AllLeaves rc → SymEq s s2) ∧ s1 = enterState tn s2 ∧
        (tn.isSome = true → rc ≠ []) := by
  unfold blockStart at heq
  split at heq
  · inj2 heq; exact ⟨s, LogExt.refl _, fun _ => SymEq.refl _, rfl, fun h => by cases h⟩
  · rename_i sc _
    split at heq
    · inj2 heq; trivial
    · rename_i rc0 sa h1
      have ss1 : SS s sa := by have := addCID_ss (env := env) fuel [] s; rw [h1] at this; exact this
      have l1 : LogExt s sa := by
        have := addCID_rel (L env) fuel [] s; rw [h1] at this; exact this
      have m1 := B_mono l1
      split at heq
      · inj2 heq; trivial
      · rename_i sb h2
        inj2 heq
        have l2 : LogExt sa sb := by
          have := callCatch_rel hf.log sc sa; rw [h2] at this; exact this
        have m2 := B_mono l2
        have hr := restoreRc_B rc0 sb
        have := callCatch_F hf h2 (by omega)
        simp only at this ⊢
        exact (SymEq.of_sym ss1).trans (this.trans (SymEq.of_sym (restoreRc_ss rc0 sb)))
      · rename_i t sb h2
        have l2 : LogExt sa sb := by
          have := callCatch_rel hf.log sc sa; rw [h2] at this; exact this
        have m2 := B_mono l2
        split at heq
        · inj2 heq; trivial
        · split at heq
          · inj2 heq; trivial
          · inj2 heq
            refine ⟨sb, l1.trans l2, ?_, rfl, fun _ => by simp⟩
            intro hall
            have m3 := B_mono (enterState_log (tableNameOf (infoOf env.tbl t)) sb)
            have := callCatch_F hf h2 (by omega)
            simp only at this
            exact (SymEq.of_sym ss1).trans (this hall.cons.1)

theorem condExit_log (b : Bool) (s : St) : LogExt s (condExit b s).2 := by
  unfold condExit; split
  · exact ⟨[Ev.exit], by simp⟩
  · exact LogExt.refl _

/-- leaving the scope entered by `enterState` after a failed attempt that collected statements
only: back to the tables before the attempt -/
theorem leave_undo (env : Env) {tn : Option Name} {s2 sL : St} (hl : LogExt (enterState tn s2) sL)
    (he : SymEq (enterState tn s2) sL) {s3 s4 : St} {b1 b2 : Bool}
    (h3 : condExit (truthy tn) sL = (b1, s3)) (h4 : condRemove (truthy tn) tn s3 = (b2, s4))
    (hB : B s4 = B s2) : SymEq s2 s4 := by
  have l3 : LogExt sL s3 := by have := condExit_log (truthy tn) sL; rw [h3] at this; exact this
  have l4 : LogExt s3 s4 := by
    have := condRemove_rel (L env) (truthy tn) tn s3; rw [h4] at this; exact this
  have m0 := B_mono (enterState_log tn s2)
  have m1 := B_mono hl; have m3 := B_mono l3; have m4 := B_mono l4
  cases tn with
  | none =>
    simp only [truthy, condExit, condRemove, Prod.mk.injEq] at h3 h4
    obtain ⟨_, rfl⟩ := h3; obtain ⟨_, rfl⟩ := h4
    simpa [enterState] using he
  | some n =>
    by_cases hn : n = 0
    · -- an empty scope name is a boundary event
      exfalso
      subst hn
      have hb : B (enterState (some 0) s2) =
          B ((ghostIf (s2.sym.clashes 0) Ghost.nameClash s2).enter 0) + 1 := by
        simp only [enterState, beq_self_eq_true, ghostIf, if_true]
        rw [B_ev_bad _ _ rfl]
      have : B s2 ≤ B ((ghostIf (s2.sym.clashes 0) Ghost.nameClash s2).enter 0) :=
        B_mono ((ghostIf_log _ _ _).trans ⟨[Ev.enter 0], rfl⟩)
      omega
    · have ht : truthy (some n) = true := by simp [truthy, hn]
      have hn' : (n == 0) = false := by simp [hn]
      cases hc : s2.sym.clashes n with
      | true =>
        exfalso
        have : B (enterState (some n) s2) = B s2 + 1 := by
          simp only [enterState, hn', ghostIf, hc, if_true, Bool.false_eq_true, if_false]
          have : B ((s2.ev (Ev.ghost Ghost.nameClash)).enter n)
              = B (s2.ev (Ev.ghost Ghost.nameClash)) := by
            simp [B, St.enter, List.filter_cons, isBad]
          rw [this, B_ev_bad _ _ rfl]
        omega
      | false =>
        simp only [enterState, hn', ghostIf, hc, Bool.false_eq_true, if_false] at he
        obtain ⟨t3, t4, e3, e4, hs⟩ := undo_state (n := n) hc he
        simp only [ht, condExit] at h3
        rw [e3] at h3
        cases h3
        simp only [ht, condRemove] at h4
        rw [e4] at h4
        cases h4
        exact hs

/-- an unnamed scope (`truthy tn = false`) is "no scope" unless the empty name was entered,
which is a boundary event -/
theorem unnamed_enter {tn : Option Name} {s2 : St} (ht : truthy tn = false)
    (hB : B (enterState tn s2) = B s2) : enterState tn s2 = s2 := by
  cases tn with
  | none => rfl
  | some n =>
    have hn : n = 0 := by simpa [truthy] using ht
    subst hn
    exfalso
    have hb : B (enterState (some 0) s2) =
        B ((ghostIf (s2.sym.clashes 0) Ghost.nameClash s2).enter 0) + 1 := by
      simp only [enterState, beq_self_eq_true, ghostIf, if_true]
      rw [B_ev_bad _ _ rfl]
    have : B s2 ≤ B ((ghostIf (s2.sym.clashes 0) Ghost.nameClash s2).enter 0) :=
      B_mono ((ghostIf_log _ _ _).trans ⟨[Ev.enter 0], rfl⟩)
    omega

theorem blockTail_F {cfg : Cfg} {startT : Option Tree} {tn : Option Name} {v : LoopVars}
    {fe : Bool} {s3 : St} {r : MRes} {s' : St}
    (heq : blockTail env cfg startT tn v fe s3 = (r, s')) :
    match r with
    | .none => (∃ s4, condRemove (truthy tn) tn s3 = (true, s4) ∧ s' = restoreRc v.rc s4) ∨
               (s' = s3 ∧ v.rc = [])
    | .raise e => e ≠ .noMatch
    | .tuple _ => True := by
  unfold blockTail at heq
  split at heq
  · split at heq
    · inj2 heq; simp
    · rename_i s4 h1
      inj2 heq
      exact Or.inl ⟨s4, h1, rfl⟩
  · split at heq
    · rename_i hemp
      inj2 heq
      exact Or.inr ⟨rfl, by simpa using hemp⟩
    · split at heq
      · inj2 heq; trivial
      · inj2 heq; simp
      · split at heq
        · split at heq <;> (inj2 heq; simp)
        · inj2 heq; simp
      · split at heq
        · split at heq <;> (inj2 heq; simp)
        · inj2 heq; simp

theorem blockStart_nm {f : F} {fuel : Nat} {cfg : Cfg} {s : St} {s1 : St}
    (h1 : blockStart env f fuel cfg s = (.ret (.raise .noMatch), s1)) : False := by
  unfold blockStart at h1
  split at h1
  · simp at h1
  · split at h1
    · rename_i e' sa h2
      simp only [Prod.mk.injEq, StartRes.ret.injEq, MRes.raise.injEq] at h1
      exact addCID_nm h2 h1.1
    · split at h1
      · rename_i e' sb h3
        simp only [Prod.mk.injEq, StartRes.ret.injEq, MRes.raise.injEq] at h1
        exact callCatch_nm h3 (by rw [h1.1])
      · simp at h1
      · split at h1
        · simp at h1
        · split at h1 <;> simp at h1

theorem blockMatch_F {f : F} (hf : FF f) {fuel : Nat} {cfg : Cfg} {s : St} {r : MRes} {s' : St}
    (heq : blockMatch env f fuel cfg s = (r, s')) : MSpecF s r s' := by
  intro hB
  unfold blockMatch at heq
  split at heq
  · rename_i r0 s1 h1
    inj2 heq
    have hs := blockStart_F hf h1 hB
    cases r0 with
    | none => exact hs
    | tuple c => trivial
    | raise e =>
      cases e with
      | noMatch => exact (blockStart_nm h1).elim
      | _ => trivial
  · rename_i rc0 startT tn sl sn s1 h1
    simp only at heq
    generalize hlr : blockLoop env f cfg (blockClasses env cfg) startT sn fuel 0
      (loopVars0 cfg rc0 sl) s1 = lr at heq
    obtain ⟨res, sL⟩ := lr
    simp only at heq
    have l1L : LogExt s1 sL := by
      have := blockLoop_rel (L env) hf.log cfg (blockClasses env cfg) startT sn fuel 0
        (loopVars0 cfg rc0 sl) s1
      rw [hlr] at this; exact this
    have lL' : LogExt sL s' := by
      have := blockFinish_log (env := env) cfg startT tn res sL
      rw [heq] at this; exact this
    obtain ⟨s2', l02', rfl⟩ := blockStart_rel (L env) hf.log fuel cfg s _ _ h1
    have me := B_mono (enterState_log tn s2')
    have m02' := B_mono l02'
    have m2 := B_mono l1L; have m3 := B_mono lL'
    obtain ⟨s2, l02, hinv0, hs1, hne⟩ := blockStart_F hf h1 (by omega)
    -- the two descriptions of the state after the start phase coincide
    have m02 := B_mono l02
    have me2 := B_mono (enterState_log tn s2)
    let Q : St → Prop := fun st => SymEq s s2 ∧ SymEq (enterState tn s2) st
    have hQ : ∀ a b, Q a → SymEq a b → Q b := fun a b h1 h2 => ⟨h1.1, h1.2.trans h2⟩
    rw [hs1] at hlr l1L
    have hloop := blockLoop_F hf (Q := Q) hQ (v := loopVars0 cfg rc0 sl)
      (fun hall => ⟨hinv0 hall, SymEq.refl _⟩) hlr (by rw [← hs1]; omega)
    have l1L2 : LogExt (enterState tn s2) sL := l1L
    have mL := B_mono l1L2
    unfold blockFinish at heq
    cases res with
    | raise e =>
      simp only at heq
      split at heq
      · rename_i hc
        unfold blockCleanup at heq
        split at heq
        · inj2 heq; trivial
        · split at heq
          · inj2 heq; trivial
          · inj2 heq
            cases e <;> first | trivial | simp at hc
      · inj2 heq
        cases e with
        | noMatch =>
          exfalso
          simp only [beq_self_eq_true, ghostIf, if_true] at hB
          rw [B_ev_bad _ _ rfl] at hB
          have : B sL ≤ B (if truthy tn = true then sL.ev (Ev.ghost Ghost.scopeLeak) else sL) := by
            split
            · rw [B_ev_bad _ _ rfl]; omega
            · exact Nat.le_refl _
          omega
        | _ => trivial
    | abort =>
      simp only at heq
      inj2 heq
      simp only [LoopSpecQ] at hloop
      cases ht : truthy tn with
      | true =>
        exfalso
        simp only [ht, ghostIf, if_true] at hB
        rw [B_ev_bad _ _ rfl] at hB
        omega
      | false =>
        simp only [ht, ghostIf, Bool.false_eq_true, if_false] at hB ⊢
        have hu := unnamed_enter (tn := tn) (s2 := s2) ht (by omega)
        have hq : SymEq s s2 ∧ SymEq (enterState tn s2) sL := hloop
        rw [hu] at hq
        exact hq.1.trans hq.2
    | done v fe =>
      simp only at heq
      simp only [LoopSpecQ] at hloop
      obtain ⟨new, hnew⟩ := blockLoop_suffix hlr
      simp only [loopVars0] at hnew
      split at heq
      · inj2 heq; trivial
      · rename_i s3 h3
        have l3 : LogExt sL s3 := by
          have := condExit_log (truthy tn) sL; rw [h3] at this; exact this
        have m3' := B_mono l3
        have l3' : LogExt s3 s' := by
          have := blockTail_rel (L env) cfg startT tn v fe s3; rw [heq] at this; exact this
        have m4 := B_mono l3'
        have ht := blockTail_F heq
        cases r with
        | tuple c => trivial
        | raise e =>
          simp only at ht
          cases e <;> first | trivial | exact absurd rfl ht
        | none =>
          simp only at ht ⊢
          rcases ht with ⟨s4, h4, rfl⟩ | ⟨rfl, hemp⟩
          · have l4 : LogExt s3 s4 := by
              have := condRemove_rel (L env) (truthy tn) tn s3; rw [h4] at this; exact this
            have m5 := B_mono l4
            have hr := restoreRc_B v.rc s4
            have hall := hr.2 (by omega)
            have hq := hloop hall
            have := leave_undo env l1L2 hq.2 h3 h4 (by omega)
            exact hq.1.trans (this.trans (SymEq.of_sym (restoreRc_ss v.rc s4)))
          · -- no content at all: there was no start class, hence no scope
            have hrc0 : rc0 = [] := by
              rw [hemp] at hnew
              have := congrArg List.length hnew
              simp at this
              exact List.eq_nil_of_length_eq_zero (by omega)
            have htn : tn = none := by
              cases tn with
              | none => rfl
              | some n => exact absurd hrc0 (hne rfl)
            subst htn
            have hq := hloop (by rw [hemp]; intro t ht; cases ht)
            simp only [truthy, condExit, Prod.mk.injEq] at h3
            obtain ⟨_, rfl⟩ := h3
            simpa [enterState] using hq.1.trans (by simpa [enterState] using hq.2)

/-! ### the other `match` methods and `Base.__new__` -/

def MRelF (s0 : St) (r : MRes) (s' : St) : Prop :=
  match r with
  | .none => SymEq s0 s'
  | .raise .noMatch => SymEq s0 s'
  | _ => True

theorem MSpecF.rel {s : St} {r : MRes} {s' : St} (h : MSpecF s r s') (hB : B s' = B s) :
    MRelF s r s' := h hB

theorem manyLoop_F (env : Env) {f : F} (hf : FF f) {c : Cls} {k : Nat} {rc : List Tree} {s0 s : St}
    {r : MRes} {s' : St} (hinv : rc = [] → SymEq s0 s)
    (heq : manyLoop f c k rc s = (r, s')) (hB : B s' = B s) : MRelF s0 r s' := by
  induction k generalizing rc s with
  | zero => simp only [manyLoop] at heq; inj2 heq; trivial
  | succ k ih =>
    simp only [manyLoop] at heq
    split at heq
    · rename_i e s1 h1
      inj2 heq
      have := callCatch_nm h1
      cases e <;> first | trivial | exact absurd rfl this
    · rename_i s1 h1
      inj2 heq
      have hc := callCatch_F hf h1 hB
      simp only at hc
      cases hrc : rc with
      | nil => simp only [List.isEmpty_nil, if_true, MRelF]; exact (hinv hrc).trans hc
      | cons t0 rc0 => simp [MRelF]
    · rename_i t s1 h1
      have l1 : LogExt s s1 := by have := callCatch_rel hf.log c s; rw [h1] at this; exact this
      have l2 : LogExt s1 s' := by
        have := manyLoop_rel (L env) hf.log c k (t :: rc) s1; rw [heq] at this; exact this
      have m1 := B_mono l1; have m2 := B_mono l2
      exact ih (fun h => by cases h) heq (by omega)

theorem seqNR_F (env : Env) {f : F} (hf : FF f) {cs : List Cls} {rc : List Tree}
    {s0 s : St} {r : MRes} {s' : St} (hinv : AllLeaves rc → SymEq s0 s)
    (heq : seqNR env.tbl.quirks f cs rc s = (r, s')) (hB : B s' = B s) : MRelF s0 r s' := by
  induction cs generalizing rc s with
  | nil => simp only [seqNR] at heq; inj2 heq; trivial
  | cons c cs ih =>
    simp only [seqNR] at heq
    split at heq
    · split at heq
      · rename_i e s1 h1
        inj2 heq
        have := callCatch_nm h1
        cases e <;> first | trivial | exact absurd rfl this
      · rename_i s1 h1
        inj2 heq
        have l1 : LogExt s s1 := by have := callCatch_rel hf.log c s; rw [h1] at this; exact this
        have m1 := B_mono l1
        have hr := restoreRc_B rc s1
        have hc := callCatch_F hf h1 (by omega)
        simp only at hc ⊢
        exact ((hinv (hr.2 (by omega))).trans hc).trans (SymEq.of_sym (restoreRc_ss rc s1))
      · rename_i t s1 h1
        have l1 : LogExt s s1 := by have := callCatch_rel hf.log c s; rw [h1] at this; exact this
        have l2 : LogExt s1 s' := by
          have := seqNR_log env hf.log env.tbl.quirks cs (t :: rc) s1; rw [heq] at this; exact this
        have m1 := B_mono l1; have m2 := B_mono l2
        have hc := callCatch_F hf h1 (by omega)
        simp only at hc
        exact ih (fun hall => (hinv hall.cons.2).trans (hc hall.cons.1)) heq (by omega)
    · split at heq
      · rename_i e s1 h1
        inj2 heq
        have l1 : LogExt s s1 := by have := hf.log c s; rw [h1] at this; exact this
        have m1 := B_mono l1
        cases hrc : rc with
        | nil =>
          subst hrc
          simp only [List.isEmpty_nil, Bool.not_true, ghostIf, Bool.false_eq_true, if_false] at hB ⊢
          have := hf.spec _ _ _ _ h1 hB
          cases e with
          | noMatch => exact (hinv (fun t ht => by cases ht)).trans this
          | _ => trivial
        | cons t0 rc0 =>
          subst hrc
          exfalso
          simp only [List.isEmpty_cons, Bool.not_false, ghostIf, if_true] at hB
          rw [B_ev_bad _ _ rfl] at hB
          omega
      · rename_i s1 h1
        inj2 heq
        have l1 : LogExt s s1 := by have := hf.log c s; rw [h1] at this; exact this
        have m1 := B_mono l1
        cases hrc : rc with
        | nil =>
          subst hrc
          simp only [List.isEmpty_nil, Bool.not_true, ghostIf, Bool.false_eq_true, if_false] at hB ⊢
          have := hf.spec _ _ _ _ h1 hB
          exact (hinv (fun t ht => by cases ht)).trans this
        | cons t0 rc0 =>
          subst hrc
          exfalso
          simp only [List.isEmpty_cons, Bool.not_false, ghostIf, if_true] at hB
          rw [B_ev_bad _ _ rfl] at hB
          omega
      · rename_i t s1 h1
        have l1 : LogExt s s1 := by have := hf.log c s; rw [h1] at this; exact this
        have l2 : LogExt s1 s' := by
          have := seqNR_log env hf.log env.tbl.quirks cs (t :: rc) s1; rw [heq] at this; exact this
        have m1 := B_mono l1; have m2 := B_mono l2
        have hc := hf.spec _ _ _ _ h1 (by omega)
        simp only at hc
        exact ih (fun hall => (hinv hall.cons.2).trans (hc hall.cons.1)) heq (by omega)

theorem main0Match_F {f : F} (hf : FF f) {fuel : Nat} {cfg : Cfg} {scope : Name} {s : St}
    {r : MRes} {s' : St} (heq : main0Match env f fuel cfg scope s = (r, s')) : MSpecF s r s' := by
  intro hB
  have lall : LogExt s s' := by
    have := main0Match_rel (L env) hf.log fuel cfg scope s; rw [heq] at this; exact this
  unfold main0Match at heq
  have lp : LogExt s (ghostIf (s.sym.clashes scope) Ghost.nameClash s) := ghostIf_log _ _ _
  generalize hb : blockMatch env f fuel cfg
    ((ghostIf (s.sym.clashes scope) Ghost.nameClash s).enter scope) = br at heq
  obtain ⟨r0, s2⟩ := br
  have lb : LogExt ((ghostIf (s.sym.clashes scope) Ghost.nameClash s).enter scope) s2 := by
    have := blockMatch_rel (L env) hf.log fuel cfg
      ((ghostIf (s.sym.clashes scope) Ghost.nameClash s).enter scope)
    rw [hb] at this; exact this
  have le : LogExt (ghostIf (s.sym.clashes scope) Ghost.nameClash s)
      ((ghostIf (s.sym.clashes scope) Ghost.nameClash s).enter scope) := ⟨[Ev.enter scope], rfl⟩
  have mp := B_mono lp; have me := B_mono le; have mb := B_mono lb
  have hbm := blockMatch_F hf hb
  -- no clash, else a boundary event
  have hexit : ∀ b s3, s2.exit = (b, s3) → LogExt s2 s3 := by
    intro b s3 h; exact ⟨[Ev.exit], by have := St.exit_log s2; rw [h] at this; simpa using this⟩
  have hrm : ∀ s3 b s4, s3.remove scope = (b, s4) → LogExt s3 s4 := by
    intro s3 b s4 h
    exact ⟨[Ev.remove scope], by have := St.remove_log s3 scope; rw [h] at this; simpa using this⟩
  -- the common ending: exit, remove after an inner result with unchanged tables
  have key : ∀ s3 s4 b1 b2, s2.exit = (b1, s3) → s3.remove scope = (b2, s4) → B s4 = B s →
      SymEq ((ghostIf (s.sym.clashes scope) Ghost.nameClash s).enter scope) s2 → SymEq s s4 := by
    intro s3 s4 b1 b2 h3 h4 hb4 he
    have m3 := B_mono (hexit _ _ h3); have m4 := B_mono (hrm _ _ _ h4)
    cases hc : s.sym.clashes scope with
    | true =>
      exfalso
      have : B (ghostIf (s.sym.clashes scope) Ghost.nameClash s) = B s + 1 := by
        rw [hc]; simp only [ghostIf, if_true]; exact B_ev_bad _ _ rfl
      omega
    | false =>
      simp only [hc, ghostIf, Bool.false_eq_true, if_false] at he
      obtain ⟨t3, t4, e3, e4, hs⟩ := undo_state (n := scope) hc he
      rw [e3] at h3; cases h3
      rw [e4] at h4; cases h4
      exact hs
  cases r0 with
  | raise e =>
    simp only at heq
    split at heq
    · inj2 heq
      rename_i hc
      have : e = .outOfFuel := by simpa using hc
      subst this; trivial
    split at heq
    · split at heq
      · inj2 heq; trivial
      · rename_i s3 h3
        split at heq
        · inj2 heq; trivial
        · rename_i s4 h4
          inj2 heq
          cases e with
          | noMatch =>
            have m3 := B_mono (hexit _ _ h3); have m4 := B_mono (hrm _ _ _ h4)
            have := hbm (by omega)
            simp only at this ⊢
            exact key _ _ _ _ h3 h4 hB this
          | _ => trivial
    · inj2 heq
      cases e with
      | noMatch =>
        exfalso
        rw [B_ev_bad _ _ rfl] at hB
        omega
      | _ => trivial
  | none =>
    simp only at heq
    split at heq
    · inj2 heq; trivial
    · rename_i s3 h3
      split at heq
      · inj2 heq; trivial
      · rename_i s4 h4
        inj2 heq
        have m3 := B_mono (hexit _ _ h3); have m4 := B_mono (hrm _ _ _ h4)
        have := hbm (by omega)
        simp only at this ⊢
        exact key _ _ _ _ h3 h4 hB this
  | tuple c0 =>
    simp only at heq
    split at heq
    · inj2 heq; trivial
    · inj2 heq; trivial

theorem MRelF.shift {s0 s1 : St} {r : MRes} {s' : St} (h : MRelF s1 r s') (e : SymEq s0 s1) :
    MRelF s0 r s' := by
  unfold MRelF at *
  cases r with
  | none => exact e.trans h
  | tuple c => trivial
  | raise x => cases x <;> first | trivial | exact e.trans h

theorem blockMatch_tuple_ne {f : F} {fuel : Nat} {cfg : Cfg} {s : St} {c0 : List Tree} {s' : St}
    (heq : blockMatch env f fuel cfg s = (.tuple c0, s')) : c0 ≠ [] := by
  unfold blockMatch at heq
  split at heq
  · rename_i r0 s1 h1
    exfalso
    simp only [Prod.mk.injEq] at heq
    obtain ⟨rfl, _⟩ := heq
    unfold blockStart at h1
    split at h1
    · simp at h1
    · split at h1
      · simp at h1
      · split at h1
        · simp at h1
        · simp at h1
        · split at h1
          · simp at h1
          · split at h1 <;> simp at h1
  · simp only at heq
    unfold blockFinish at heq
    split at heq
    · split at heq
      · unfold blockCleanup at heq
        split at heq
        · simp at heq
        · split at heq <;> simp at heq
      · simp at heq
    · simp at heq
    · rename_i v fe
      split at heq
      · simp at heq
      · unfold blockTail at heq
        split at heq
        · split at heq <;> simp at heq
        · rename_i hne
          split at heq
          · simp at heq
          · rename_i hemp
            split at heq
            · simp only [Prod.mk.injEq, MRes.tuple.injEq] at heq
              rw [← heq.1]
              intro h
              apply hemp
              simpa using h
            · simp at heq
            · split at heq
              · split at heq <;> simp at heq
              · simp at heq
            · split at heq
              · split at heq <;> simp at heq
              · simp at heq

def PSpecF (q : Quirks) (s0 : St) (r : PRes) (s' : St) : Prop :=
  match r with
  | .done _ => True
  | .retNone => SymEq s0 s'
  | .fail rc' .noMatch => (q.programContinues = true ∨ rc' = []) → SymEq s0 s'
  | .fail _ _ => True

def USpecF (q : Quirks) (s0 : St) (u : UnitStep) (s' : St) : Prop :=
  match u with
  | .go rc1 => rc1 = [] → SymEq s0 s'
  | .stop r => PSpecF q s0 r s'

theorem unitStep_F {f : F} (hf : FF f) {fuel : Nat} {unit main0 : Cls} {rc : List Tree}
    {s0 s : St} {u : UnitStep} {s' : St} (hinv : rc = [] → SymEq s0 s)
    (heq : unitStep env f fuel unit main0 rc s = (u, s')) (hB : B s' = B s) :
    USpecF env.tbl.quirks s0 u s' := by
  have lall : LogExt s s' := by
    have := unitStep_rel (L env) hf.log fuel unit main0 rc s; rw [heq] at this; exact this
  unfold unitStep at heq
  split at heq
  · rename_i e s1 h1
    have l1 : LogExt s s1 := by have := hf.log unit s; rw [h1] at this; exact this
    have m1 := B_mono l1
    split at heq
    · rename_i hc
      simp only [Bool.and_eq_true, beq_iff_eq] at hc
      obtain ⟨rfl, hq⟩ := hc
      have df : B (s1.ev (Ev.ghost Ghost.fallback)) = B s1 := B_ev_ok _ _ rfl
      generalize hb : blockMatch env f fuel (fallbackCfg main0) (s1.ev (Ev.ghost Ghost.fallback))
        = br at heq
      obtain ⟨r2, s2⟩ := br
      have l2 : LogExt (s1.ev (Ev.ghost Ghost.fallback)) s2 := by
        have := blockMatch_rel (L env) hf.log fuel (fallbackCfg main0)
          (s1.ev (Ev.ghost Ghost.fallback))
        rw [hb] at this; exact this
      have m2 := B_mono l2
      have e01 : B s1 = B s → rc = [] → SymEq s0 (s1.ev (Ev.ghost Ghost.fallback)) := by
        intro hb1 hrc
        have := hf.spec _ _ _ _ h1 hb1
        simp only at this
        exact ((hinv hrc).trans this).trans (SymEq.of_sym rfl)
      cases r2 with
      | tuple c0 =>
        simp only at heq
        inj2 heq
        simp only [USpecF]
        intro hnil
        exfalso
        have := blockMatch_tuple_ne hb
        simp at hnil
        exact this hnil.1
      | none =>
        simp only at heq
        inj2 heq
        have m3 := B_mono (ghostIf_log (!rc.isEmpty) Ghost.progDrop s2)
        cases hrc : rc with
        | cons t0 rc1 =>
          exfalso
          subst hrc
          simp only [List.isEmpty_cons, Bool.not_false, ghostIf, if_true] at hB
          rw [B_ev_bad _ _ rfl] at hB
          omega
        | nil =>
          subst hrc
          simp only [List.isEmpty_nil, Bool.not_true, ghostIf, Bool.false_eq_true, if_false] at hB ⊢
          have hbm := (blockMatch_F hf hb).rel (by omega)
          simp only [MRelF] at hbm
          simp only [USpecF, PSpecF]
          exact (e01 (by omega) rfl).trans hbm
      | raise e2 =>
        simp only at heq
        inj2 heq
        simp only [USpecF, PSpecF]
        cases e2 with
        | noMatch =>
          intro _
          cases hrc : rc with
          | cons t0 rc1 =>
            exfalso
            subst hrc
            simp only [beq_self_eq_true, List.isEmpty_cons, Bool.not_false, Bool.and_self,
              ghostIf, if_true] at hB
            rw [B_ev_bad _ _ rfl] at hB
            omega
          | nil =>
            subst hrc
            simp only [List.isEmpty_nil, Bool.not_true, Bool.and_false, ghostIf,
              Bool.false_eq_true, if_false] at hB ⊢
            have hbm := (blockMatch_F hf hb).rel (by omega)
            simp only [MRelF] at hbm
            exact (e01 (by omega) rfl).trans hbm
        | _ => trivial
    · rename_i hc
      inj2 heq
      simp only [USpecF, PSpecF]
      cases e with
      | noMatch =>
        have hq : env.tbl.quirks.programContinues = false := by simpa using hc
        intro h
        rcases h with h | h
        · rw [hq] at h; cases h
        · have := hf.spec _ _ _ _ h1 hB
          simp only at this
          exact (hinv h).trans this
      | _ => trivial
  · rename_i o s1 hne h1
    inj2 heq
    have := hf.spec _ _ _ _ h1 hB
    simp only [USpecF]
    intro hnil
    cases o with
    | none =>
      simp only [pushTree] at hnil
      exact (hinv hnil).trans this
    | tree t => simp [pushTree] at hnil
    | raise e => exact (hne e rfl).elim

theorem programLoop_F {f : F} (hf : FF f) {unit main0 : Cls} {fuel k : Nat} {rc : List Tree}
    {s0 s : St} {r : PRes} {s' : St} (hinv : rc = [] → SymEq s0 s)
    (heq : programLoop env f unit main0 fuel k rc s = (r, s')) (hB : B s' = B s) :
    PSpecF env.tbl.quirks s0 r s' := by
  induction k generalizing rc s with
  | zero => simp only [programLoop] at heq; inj2 heq; trivial
  | succ k ih =>
    simp only [programLoop] at heq
    split at heq
    · rename_i r1 s1 h1
      inj2 heq
      exact unitStep_F hf hinv h1 hB
    · rename_i rc1 s1 h1
      have l1 : LogExt s s1 := by
        have := unitStep_rel (L env) hf.log fuel unit main0 rc s; rw [h1] at this; exact this
      have m1 := B_mono l1
      split at heq
      · rename_i e s2 h2
        inj2 heq
        have := addCID_nm h2
        cases e <;> first | trivial | exact absurd rfl this
      · rename_i rc2 s2 h2
        have ss2 : SS s1 s2 := by
          have := addCID_ss (env := env) fuel rc1 s1; rw [h2] at this; exact this
        have l2 : LogExt s1 s2 := by
          have := addCID_rel (L env) fuel rc1 s1; rw [h2] at this; exact this
        have m2 := B_mono l2
        obtain ⟨new, hn, _⟩ := addCID_E h2
        split at heq
        · inj2 heq; trivial
        · rename_i it s3 h3
          have l3 : LogExt s2 (s3.put it) := by
            have := (L env).peek s2; rw [h3] at this; exact this
          have m3 := B_mono l3
          have ss3 : SS s2 (s3.put it) := by
            have := peek_prim ss_prim.toPrimOK0 s2; rw [h3] at this; exact this
          have l4 : LogExt (s3.put it) s' := by
            have := programLoop_rel (L env) hf.log unit main0 fuel k rc2 (s3.put it)
            rw [heq] at this; exact this
          have m4 := B_mono l4
          refine ih ?_ heq (by omega)
          intro hnil
          have h1nil : rc1 = [] := by
            rw [hn] at hnil
            simp at hnil
            exact hnil.2
          have hu : USpecF env.tbl.quirks s0 (.go rc1) s1 := unitStep_F hf hinv h1 (by omega)
          simp only [USpecF] at hu
          exact ((hu h1nil).trans (SymEq.of_sym ss2)).trans (SymEq.of_sym ss3)

theorem programMatch_F {f : F} (hf : FF f) {fuel : Nat} {unit main0 : Cls} {s : St} {r : MRes}
    {s' : St} (heq : programMatch env f fuel unit main0 s = (r, s')) : MSpecF s r s' := by
  intro hB
  show MRelF s r s'
  unfold programMatch at heq
  split at heq
  · rename_i e s1 h1
    inj2 heq
    have := addCID_nm h1
    simp only [MRelF]
    cases e <;> first | trivial | exact absurd rfl this
  · rename_i rc0 s1 h1
    have ss1 : SS s s1 := by
      have := addCID_ss (env := env) fuel [] s; rw [h1] at this; exact this
    have l1 : LogExt s s1 := by
      have := addCID_rel (L env) fuel [] s; rw [h1] at this; exact this
    have m1 := B_mono l1
    have hinv0 : rc0 = [] → SymEq s s1 := fun _ => SymEq.of_sym ss1
    split at heq
    · inj2 heq; trivial
    · rename_i s2 h2
      inj2 heq
      have l2 : LogExt s1 s2 := by
        have := programLoop_rel (L env) hf.log unit main0 fuel fuel rc0 s1
        rw [h2] at this; exact this
      have m2 := B_mono l2
      have := programLoop_F hf hinv0 h2 (by omega)
      simp only [PSpecF] at this
      exact this
    · rename_i rc e s2 h2
      have l2 : LogExt s1 s2 := by
        have := programLoop_rel (L env) hf.log unit main0 fuel fuel rc0 s1
        rw [h2] at this; exact this
      have m2 := B_mono l2
      split at heq
      · rename_i hc
        simp only [Bool.and_eq_true, beq_iff_eq, Bool.not_eq_true'] at hc
        obtain ⟨rfl, hq⟩ := hc
        generalize hs3 : ghostIf (!rc.isEmpty) Ghost.progDrop (s2.ev (Ev.ghost Ghost.fallback)) = s3
          at heq
        have l3 : LogExt s3 s' := by
          have := blockMatch_rel (L env) hf.log fuel (fallbackCfg main0) s3
          rw [heq] at this; exact this
        have m3 := B_mono l3
        have df : B (s2.ev (Ev.ghost Ghost.fallback)) = B s2 := B_ev_ok _ _ rfl
        cases hrc : rc with
        | cons t0 rc1 =>
          exfalso
          subst hrc
          simp only [List.isEmpty_cons, Bool.not_false, ghostIf, if_true] at hs3
          subst hs3
          have : B ((s2.ev (Ev.ghost Ghost.fallback)).ev (Ev.ghost Ghost.progDrop)) = B s2 + 1 := by
            rw [B_ev_bad _ _ rfl, df]
          omega
        | nil =>
          subst hrc
          simp only [List.isEmpty_nil, Bool.not_true, ghostIf, Bool.false_eq_true, if_false] at hs3
          subst hs3
          have hp := programLoop_F hf hinv0 h2 (by omega)
          have hp' : SymEq s s2 :=
            (hp : (env.tbl.quirks.programContinues = true ∨ ([] : List Tree) = []) → SymEq s s2)
              (Or.inr rfl)
          have e2 : SymEq s (s2.ev (Ev.ghost Ghost.fallback)) := hp'.trans (SymEq.of_sym rfl)
          exact ((blockMatch_F hf heq).rel (by omega)).shift e2
      · rename_i hc
        inj2 heq
        simp only [MRelF]
        cases e with
        | noMatch =>
          have hq : env.tbl.quirks.programContinues = true := by simpa using hc
          have hp := programLoop_F hf hinv0 h2 (by omega)
          simp only [PSpecF] at hp
          exact hp (Or.inl hq)
        | _ => trivial

def FRelF (s0 : St) (o : Outcome) (s' : St) : Prop :=
  match o with
  | .none => SymEq s0 s'
  | .raise .noMatch => SymEq s0 s'
  | .tree t => isLeafT t → SymEq s0 s'
  | .raise _ => True

theorem FSpec.rel {s : St} {o : Outcome} {s' : St} (h : FSpec s o s') (hB : B s' = B s) :
    FRelF s o s' := h hB

theorem FRelF.shift {s0 s1 : St} {o : Outcome} {s' : St} (h : FRelF s1 o s') (e : SymEq s0 s1) :
    FRelF s0 o s' := by
  unfold FRelF at *
  cases o with
  | none => exact e.trans h
  | tree t => exact fun ht => e.trans (h ht)
  | raise x => cases x <;> first | trivial | exact e.trans h

theorem altLoop_F {g : G} (hg : GF g) {ds pc : List Cls} {s0 s : St} {o : Outcome}
    {pc' : List Cls} {s' : St} (h0 : SymEq s0 s)
    (heq : altLoop env g ds pc s = (o, pc', s')) (hB : B s' = B s) : FRelF s0 o s' := by
  induction ds generalizing pc s with
  | nil =>
    simp only [altLoop] at heq
    inj3 heq
    unfold blankRule
    split
    · exact h0
    · exact h0
  | cons d ds ih =>
    simp only [altLoop] at heq
    split at heq
    · exact ih h0 heq hB
    · split at heq
      · rename_i t pc1 s1 h1
        inj3 heq
        exact ((hg.spec _ _ _ _ _ _ h1).rel hB).shift h0
      · rename_i pc1 s1 h1
        have l1 : LogExt s s1 := by have := hg.log d pc s; rw [h1] at this; exact this
        have l2 : LogExt s1 s' := by
          have := altLoop_rel (L env) hg.log ds pc1 s1; rw [heq] at this; exact this
        have m1 := B_mono l1; have m2 := B_mono l2
        have : SymEq s s1 := (hg.spec _ _ _ _ _ _ h1).rel (by omega)
        exact ih (h0.trans this) heq (by omega)
      · rename_i pc1 s1 h1
        have l1 : LogExt s s1 := by have := hg.log d pc s; rw [h1] at this; exact this
        have l2 : LogExt s1 s' := by
          have := altLoop_rel (L env) hg.log ds pc1 s1; rw [heq] at this; exact this
        have m1 := B_mono l1; have m2 := B_mono l2
        have : SymEq s s1 := (hg.spec _ _ _ _ _ _ h1).rel (by omega)
        exact ih (h0.trans this) heq (by omega)
      · rename_i e pc1 s1 hne h1
        inj3 heq
        cases e <;> first | trivial | exact (hne _ _ rfl).elim

theorem finish_F {g : G} (hg : GF g) {c : Cls} {subs : List Cls} {r : MRes} {s s1 : St}
    {pc : List Cls} {o : Outcome} {pc' : List Cls} {s' : St}
    (hr : MSpecF s r s1) (hl : LogExt s s1)
    (heq : finish env g c subs (r, s1) pc = (o, pc', s')) : FSpec s o s' := by
  intro hB
  show FRelF s o s'
  unfold finish at heq
  split at heq
  · inj3 heq
    simp only [FRelF]
    intro h; exact absurd h id
  · rename_i sa hh
    simp only [Prod.mk.injEq] at hh
    obtain ⟨rfl, rfl⟩ := hh
    have l2 : LogExt s1 s' := by
      have := altLoop_rel (L env) hg.log subs pc s1; rw [heq] at this; exact this
    have m1 := B_mono hl; have m2 := B_mono l2
    have h1 : SymEq s s1 := hr.rel (by omega)
    exact altLoop_F hg h1 heq (by omega)
  · rename_i sa hh
    simp only [Prod.mk.injEq] at hh
    obtain ⟨rfl, rfl⟩ := hh
    have l2 : LogExt s1 s' := by
      have := altLoop_rel (L env) hg.log subs pc s1; rw [heq] at this; exact this
    have m1 := B_mono hl; have m2 := B_mono l2
    have h1 : SymEq s s1 := hr.rel (by omega)
    exact altLoop_F hg h1 heq (by omega)
  · rename_i e sa hne hh
    simp only [Prod.mk.injEq] at hh
    obtain ⟨rfl, rfl⟩ := hh
    inj3 heq
    cases e <;> first | trivial | exact (hne _ rfl).elim

theorem eval_F (env : Env) (fuel : Nat) : GF (eval env fuel) := by
  induction fuel with
  | zero =>
    refine ⟨eval_log env 0, fun c pc s o pc' s' heq => ?_⟩
    simp only [eval] at heq; inj3 heq; intro _; trivial
  | succ fuel ih =>
    refine ⟨eval_log env (fuel + 1), fun c pc s o pc' s' heq => ?_⟩
    have hf : FF (fresh (eval env fuel)) := fresh_F ih
    simp only [eval] at heq
    split at heq
    · have := leafNew_prim (env := env) ss_prim c (if pc.contains c = true then pc else pc ++ [c]) s
      rw [heq] at this
      exact FSpec.of_ss this
    · intro hB
      exact altLoop_F ih (SymEq.refl s) heq hB
    · rename_i cfg subs _
      generalize hb : blockMatch env (fresh (eval env fuel)) fuel cfg s = br at heq
      obtain ⟨r, s1⟩ := br
      exact finish_F ih (blockMatch_F hf hb)
        (by have := blockMatch_rel (L env) hf.log fuel cfg s; rw [hb] at this; exact this) heq
    · rename_i item subs _
      generalize hb : manyLoop (fresh (eval env fuel)) item fuel [] s = br at heq
      obtain ⟨r, s1⟩ := br
      exact finish_F ih (fun hB => manyLoop_F env hf (fun _ => SymEq.refl s) hb hB)
        (by have := manyLoop_rel (L env) hf.log item fuel [] s; rw [hb] at this; exact this) heq
    · rename_i cs subs _
      generalize hb : seqNR env.tbl.quirks (fresh (eval env fuel)) cs [] s = br at heq
      obtain ⟨r, s1⟩ := br
      exact finish_F ih (fun hB => seqNR_F env hf (fun _ => SymEq.refl s) hb hB)
        (by have := seqNR_log env hf.log env.tbl.quirks cs [] s; rw [hb] at this; exact this) heq
    · rename_i cfg scope subs _
      generalize hb : main0Match env (fresh (eval env fuel)) fuel cfg scope s = br at heq
      obtain ⟨r, s1⟩ := br
      exact finish_F ih (main0Match_F hf hb)
        (by have := main0Match_rel (L env) hf.log fuel cfg scope s; rw [hb] at this; exact this) heq
    · rename_i unit main0 subs _
      generalize hb : programMatch env (fresh (eval env fuel)) fuel unit main0 s = br at heq
      obtain ⟨r, s1⟩ := br
      generalize hfin : finish env (eval env fuel) c subs (r, s1) [c] = fr at heq
      obtain ⟨o1, pc1, s2⟩ := fr
      inj3 heq
      have := finish_F ih (programMatch_F hf hb)
        (by have := programMatch_rel (L env) hf.log fuel unit main0 s; rw [hb] at this; exact this) hfin
      intro hB
      show FRelF s (programConvert o1) (programExit env s (programConvert o1) s2)
      cases o1 with
      | none => exact this hB
      | tree t => exact this hB
      | raise e => cases e <;> trivial
    · inj3 heq
      exact FSpec.of_ss (commentNew_prim (env := env) ss_prim.toPrimOK0 s)
    · inj3 heq
      exact FSpec.of_ss (directiveNew_prim (env := env) ss_prim.toPrimOK0 s)
    · rename_i cs _
      inj3 heq
      exact FSpec.of_ss (cppNew_ss cs s)

end Fp.Block
