import FparserModel.Py
import FparserModel.ReaderSrm

/-!
# Reader — model M-B of `common/readfortran.py`

Branch-for-branch mirror of `FortranReaderBase` for the two non-strict modes
(free form, non-strict fixed form) with f2py handling disabled; strict f77 and pyf are
`unsup`. ASCII domain plus the `\xa0` rule of `get_single_line`.

A reader with its (possibly nested) INCLUDE readers is a non-empty `List Rd`:
head = the reader the user holds, last = innermost active include reader
(`self.reader` chain). Python exceptions are explicit results:

* `Res.err`   an `Exception` raised inside `next` (turned into `stop` by `next`: F-C12-1)
* `Res.exit`  `SystemExit` from `self.error(...)` (not an `Exception`, escapes `next`)
* `Res.stop`  `StopIteration`
* `Res.unsup` outside the modelled domain (strict modes, include depth budget)
-/
namespace Fp.Reader
open Fp

inductive Item where
  | line (text : Str) (label : Option Nat) (name : Option Str) (s e : Nat)
  | synerr (text : Str) (s e : Nat)           -- `SyntaxErrorLine` (a `Line` subclass)
  | cpp (text : Str) (s e : Nat)              -- `CppDirective` (a `Line` subclass)
  | comment (text : Str) (s e : Nat) (inline : Bool)
deriving DecidableEq, Repr

inductive Res (α : Type) where
  | ok (a : α)
  | stop
  | err
  | exit
  | unsup
deriving DecidableEq, Repr

def Item.isComment : Item → Bool
  | .comment .. => true
  | _ => false

/-- the `Line` view of an item: `(line, label, name, span)` for every `isinstance(item, Line)` -/
def Item.lineView : Item → Option (Str × Option Nat × Option Str × Nat × Nat)
  | .line t l n s e => some (t, l, n, s, e)
  | .synerr t s e => some (t, none, none, s, e)
  | .cpp t s e => some (t, none, none, s, e)
  | .comment .. => none

def Item.first : Item → Nat
  | .line _ _ _ s _ => s | .synerr _ s _ => s | .cpp _ s _ => s | .comment _ s _ _ => s
def Item.last : Item → Nat
  | .line _ _ _ _ e => e | .synerr _ _ e => e | .cpp _ _ e => e | .comment _ _ e _ => e

/-! ### lexical helpers (regex scanners) -/

/-- `str.expandtabs()`; `\n` and `\r` reset the column like CPython does -/
def expandtabsAux : Str → Nat → Str → Str
  | [], _, acc => acc.reverse
  | c :: cs, col, acc =>
    if c == '\t' then
      let n := 8 - col % 8
      expandtabsAux cs (col + n) (List.replicate n ' ' ++ acc)
    else if c == '\n' || c == '\r' then expandtabsAux cs 0 (c :: acc)
    else expandtabsAux cs (col + 1) (c :: acc)
def expandtabs (s : Str) : Str := expandtabsAux s 0 []

/-- `line.expandtabs().replace("\xa0", " ").rstrip()` -/
def cook (l : Str) : Str := rstrip ((expandtabs l).map fun c => if c == '\xa0' then ' ' else c)

/-- `_LABEL_RE.match(line)`: `some (digits, line[match.end():])`.
    `\s*(\d+)\s*(\b|(?=&)|\Z)` matches iff the maximal digit run is not directly followed by a
    word character; then the match ends after the digits (if blanks follow, possibly later,
    which is immaterial because every caller `lstrip`s the remainder). -/
def labelRe (line : Str) : Option (Str × Str) :=
  let l1 := lstrip line
  let ds := l1.takeWhile isDigit
  if ds = [] then none else
  let after := l1.drop ds.length
  match after with
  | c :: _ => if isWord c then none else some (ds, after)
  | [] => some (ds, after)

/-- `extract_label` -/
def extractLabel (line : Str) : Option Nat × Str :=
  match labelRe line with
  | some (ds, rest) => (some (digitsToNat ds), lstrip rest)
  | none => (none, line)

/-- `_CONSTRUCT_NAME_RE.match(line)`: `some (name, lstrip of line[match.end():])`.
    `\s*(\w+)\s*:\s*(\b|(?=&)|\Z)`: after the colon and all blanks the next character must be a
    word character, `&`, or the end. -/
def nameRe (line : Str) : Option (Str × Str) :=
  let l1 := lstrip line
  let w := l1.takeWhile isWord
  if w = [] then none else
  match lstrip (l1.drop w.length) with
  | ':' :: a2 =>
    let a3 := lstrip a2
    match a3 with
    | [] => some (w, a3)
    | c :: _ => if isWord c || c == '&' then some (w, a3) else none
  | _ => none

/-- `extract_construct_name` -/
def extractName (line : Str) : Option Str × Str :=
  match nameRe line with
  | some (w, rest) => (some w, rest)
  | none => (none, line)

def kInclude : Str := "include".toList

/-- `_IS_INCLUDE_LINE(line)`: `\s*include\s*("[^"]+"|'[^']+')\s*\Z`, re.I; returns the file name -/
def includeRe (line : Str) : Option Str :=
  let l1 := lstrip line
  if lower (l1.take 7) != kInclude then none else
  match lstrip (l1.drop 7) with
  | q :: body =>
    if isQuote q then
      let f := body.takeWhile (· != q)
      if f = [] then none else
      match body.drop f.length with
      | _ :: rest => if lstrip rest = [] then some f else none
      | [] => none
    else none
  | [] => none

/-- `item.line.strip()[7:].lstrip()[1:-1]` -/
def includeFilename (text : Str) : Str := inner (lstrip ((strip text).drop 7))

/-- `_is_fix_cont` -/
def isFixCont (l : Option Str) : Bool :=
  match l with
  | none => false
  | some line => line.length > 5 && (line.drop 5).head? != some (Char.ofNat 32) && line.take 5 == List.replicate 5 (Char.ofNat 32)

/-- `_is_fix_comment(line, isstrict=False, f2py_enabled=False)` -/
def isFixCommentS (line : Str) : Bool :=
  match line with
  | [] => true
  | c :: _ =>
    if c == '*' || c == 'c' || c == 'C' || c == '!' then true
    else match find line '!' with
      | some i => if lstrip (line.take i) = [] then i != 5 else false
      | none => false

def isFixComment (l : Option Str) : Bool :=
  match l with
  | none => false
  | some line => isFixCommentS line

/-- fixed-form sentinel regex `^([\!\*c]\$)([ 0-9]{3}[ 0]|   [^ 0])` (re.I) -/
def sentinelFixedMatch (line : Str) : Bool :=
  match line with
  | a :: b :: c2 :: c3 :: c4 :: c5 :: _ =>
    (a == '!' || a == '*' || a == 'c' || a == 'C') && b == '$' &&
    (( (c2 == ' ' || isDigit c2) && (c3 == ' ' || isDigit c3) && (c4 == ' ' || isDigit c4) && (c5 == ' ' || c5 == '0'))
     || (c2 == ' ' && c3 == ' ' && c4 == ' ' && c5 != ' ' && c5 != '0'))
  | _ => false

def replaceSentinelFixed (line : Str) : Str × Bool :=
  if sentinelFixedMatch line then (' ' :: ' ' :: line.drop 2, true) else (line, false)

/-- free-form initial sentinel `^ *(\!\$) ` -/
def replaceSentinelFree (line : Str) : Str × Bool :=
  let sp := line.takeWhile (· == ' ')
  match line.drop sp.length with
  | '!' :: '$' :: ' ' :: rest => (sp ++ ' ' :: ' ' :: ' ' :: rest, true)
  | _ => (line, false)

/-- free-form continuation sentinel `^ *(\!\$) *&?` -/
def replaceSentinelFreeCont (line : Str) : Str × Bool :=
  let sp := line.takeWhile (· == ' ')
  match line.drop sp.length with
  | '!' :: '$' :: rest => (sp ++ ' ' :: ' ' :: rest, true)
  | _ => (line, false)

/-! ### reader state -/

inductive FsEntry where
  | file (isFree : Bool) (isStrict : Bool) (lines : List Str)
  | dir
deriving Repr

abbrev Fs := List (Str × FsEntry)
def Fs.get (fs : Fs) (p : Str) : Option FsEntry := (fs.find? (·.1 == p)).map (·.2)

structure Rd where
  src : List Str
  closed : Bool := false
  filo : List Str := []
  fifo : List Item := []
  linecount : Nat := 0
  linesRev : List Str := []        -- `source_lines`, reversed
  isFree : Bool
  ignoreComments : Bool
  omp : Bool
  includeDirs : List Str
deriving Repr, DecidableEq

def Rd.sourceLines (r : Rd) : List Str := r.linesRev.reverse

/-- `FortranReaderBase.__init__` (mode forced, non-strict) -/
def Rd.mk' (src : List Str) (isFree ignoreComments omp processDirectives : Bool) (dirs : List Str) : Rd :=
  { src := src, isFree := isFree, ignoreComments := if processDirectives then false else ignoreComments,
    omp := omp, includeDirs := dirs }

/-- pulling from the source, with the fixed-form recursion that skips comment lines -/
def pull (fixedOmp skipFixComments : Bool) : List Str → Nat → List Str → Option Str × List Str × Nat × List Str
  | [], lc, ls => (none, [], lc, ls)
  | l :: rest, lc, ls =>
    let l1 := cook l
    let l2 := if fixedOmp then (replaceSentinelFixed l1).1 else l1
    if skipFixComments && isFixCommentS l2 then pull fixedOmp skipFixComments rest (lc + 1) (l2 :: ls)
    else (some l2, rest, lc + 1, l2 :: ls)

/-- `get_single_line()` -/
def getSingleLine (r : Rd) : Option Str × Rd :=
  match r.filo with
  | l :: f => (some l, { r with filo := f, linecount := r.linecount + 1 })
  | [] =>
    if r.closed then (none, r) else
    match pull (r.omp && !r.isFree) (r.ignoreComments && !r.isFree) r.src r.linecount r.linesRev with
    | (none, src', lc, ls) => (none, { r with src := src', linecount := lc, linesRev := ls, closed := true })
    | (some l, src', lc, ls) => (some l, { r with src := src', linecount := lc, linesRev := ls })

/-- `put_single_line` -/
def putSingleLine (r : Rd) (l : Str) : Rd := { r with filo := l :: r.filo, linecount := r.linecount - 1 }

/-- `get_next_line()` -/
def getNextLine (r : Rd) : Option Str × Rd :=
  match getSingleLine r with
  | (none, r') => (none, r')
  | (some l, r') => (some l, putSingleLine r' l)

/-- does `self.warning(msg)` / the message part of `self.error(msg)` raise `IndexError`?
    (`format_message` with `startlineno = len(source_lines) - 2` indexes `source_lines[-2]`
    when exactly one line has been read) -/
def warnRaises (r : Rd) : Bool := r.linesRev.length == 1

/-! ### handle_inline_comment -/

structure Hic where
  line : Str
  q : Option Char
  had : Bool
  comments : List Item

def hicWalk : List Seg → Str → Option (Str × Str)
  | [], _ => none
  | .quoted s :: rest, acc => hicWalk rest (acc ++ s)
  | .plain s :: rest, acc =>
    match find s '!' with
    | none => hicWalk rest (acc ++ s)
    | some j => some (acc ++ s.take j, s.drop j ++ (rest.map Seg.str).flatten)

def kF2py : Str := "!f2py".toList

/-- the "quick method" of `handle_inline_comment` (no quote before the first `!`) -/
def hicQuick (line : Str) (lineno : Nat) (q : Option Char) : Option Hic :=
  match q, find line '!' with
  | none, some idx =>
    let newline := line.take idx
    if !newline.contains '"' && !newline.contains '\'' then
      if !startsWith (line.drop idx) kF2py then
        let isInline := !(lstrip line == line.drop idx)
        some ⟨newline, q, true, [.comment (line.drop idx) lineno lineno isInline]⟩
      else none
    else none
  | _, _ => none

/-- the `splitquote` path of `handle_inline_comment` -/
def hicSlow (line : Str) (lineno : Nat) (q : Option Char) : Hic :=
  let sq := splitquote line q
  match hicWalk sq.1 [] with
  | some (nc, comment) => ⟨nc, none, true, [.comment comment lineno lineno false]⟩
  | none => ⟨(sq.1.map Seg.str).flatten, sq.2, false, []⟩

/-- `handle_inline_comment(line, lineno, quotechar)` with f2py disabled, not f77 -/
def handleInlineComment (line : Str) (lineno : Nat) (q : Option Char) : Hic :=
  if q.isNone && !line.contains '!' && !line.contains '"' && !line.contains '\'' then ⟨line, q, false, []⟩
  else
    match hicQuick line lineno q with
    | some r => r
    | none => hicSlow line lineno q

/-! ### get_source_item -/

/-- `Line.__init__` for the three Line classes: strips, raises on empty -/
def mkLine (text : Str) (label : Option Nat) (name : Option Str) (s e : Nat) : Res Item :=
  let t := strip text
  if t = [] then .err else .ok (.line t label name s e)
def mkCpp (text : Str) (s e : Nat) : Res Item :=
  let t := strip text
  if t = [] then .err else .ok (.cpp t s e)
def mkSynErr (text : Str) (s e : Nat) : Res Item :=
  let t := strip text
  if t = [] then .err else .ok (.synerr t s e)

/-- the cpp-directive loop -/
def cppLoop : Nat → Str → Str → Nat → Rd → Res Item × Rd
  | 0, _, _, _, r => (.err, r)
  | fuel+1, line, acc, s, r =>
    let lr := rstrip line
    if lr.getLast? == some '\\' then
      match getSingleLine r with
      | (some l2, r') => cppLoop fuel l2 (acc ++ lr.dropLast) s r'
      | (none, r') => (.err, r')           -- `None.rstrip()` : AttributeError
    else (mkCpp (acc ++ line) s r.linecount, r)

structure FreeOut where
  acc : Str
  label : Option Nat
  name : Option Str
  endl : Nat
  r : Rd

/-- what one non-skipped physical line contributes to a free-form statement -/
structure FreeStep where
  label : Option Nat
  name : Option Str
  h : Hic                -- inline-comment handling of the line
  piece : Str            -- text appended to the statement
  more : Bool            -- a continuation line follows

/-- the body of the free-form loop for a line that is not skipped. `started` = `bool(lines)` -/
def freeStep (started : Bool) (line : Str) (lineno : Nat) (q : Option Char) (label : Option Nat)
    (name : Option Str) : FreeStep :=
  let lab := if started then (label, line) else extractLabel line
  let nam := if started then (name, lab.2) else extractName lab.2
  let h := handleInlineComment nam.2 lineno q
  let line2 := h.line
  let i := rfind line2 '&'
  let noCont : Bool := match i with
    | none => true
    | some i => rstrip (line2.drop (i + 1)) != []
  if !started then
    ⟨lab.1, nam.1, h, if noCont then line2 else line2.take (i.getD 0), !noCont⟩
  else
    let iEnd := if noCont then line2.length else i.getD 0
    -- `k = line[:i].find("&"); if k != -1 and line[:k].lstrip(): k = -1`
    let startIdx : Nat :=
      match find (line2.take iEnd) '&' with
      | some k => if lstrip (line2.take k) != [] then 0 else k + 1
      | none => 0
    ⟨lab.1, nam.1, h, (line2.take iEnd).drop startIdx, !noCont⟩

/-- the `while line is not None` loop of the free-form part. `started` = `bool(lines)` -/
def freeLoop (hadOmp : Bool) : Nat → Option Str → Bool → Str → Option Char → Option Nat → Option Str →
    Nat → Rd → FreeOut
  | 0, _, _, acc, _, label, name, endl, r => ⟨acc, label, name, endl, r⟩
  | _, none, _, acc, _, label, name, endl, r => ⟨acc, label, name, endl, r⟩
  | fuel+1, some line0, started, acc, q, label, name, endl, r =>
    let line := if hadOmp then (replaceSentinelFreeCont line0).1 else line0
    let lineL := lstrip line
    if started && startsWith lineL ['!'] then
      let r1 := { r with fifo := r.fifo ++ [.comment lineL r.linecount r.linecount false] }
      let g := getSingleLine r1
      freeLoop hadOmp fuel g.1 started acc q label name endl g.2
    else if started && lineL == [] then
      let g := getSingleLine r
      freeLoop hadOmp fuel g.1 started acc q label name endl g.2
    else
      let stp := freeStep started line r.linecount q label name
      let r1 := { r with fifo := r.fifo ++ stp.h.comments }
      if stp.more then
        let g := getSingleLine r1
        freeLoop hadOmp fuel g.1 true (acc ++ stp.piece) stp.h.q stp.label stp.name r1.linecount g.2
      else ⟨acc ++ stp.piece, stp.label, stp.name, if started then r1.linecount else endl, r1⟩

/-- everything after the format-specific prologue for a free-form line -/
def freeItem (r : Rd) (line : Str) (hadOmp : Bool) (s : Nat) : Res Item × Rd :=
  let o := freeLoop hadOmp (r.src.length + r.filo.length + 2) (some line) false [] none none none r.linecount r
  let content := strip o.acc
  if content != [] then (.ok (.line content o.label o.name s o.endl), o.r)
  else if o.label.isSome && warnRaises o.r then (.err, o.r)
  else if o.name.isSome then (if warnRaises o.r then .err else .exit, o.r)
  else match o.r.fifo with
    | it :: rest => (.ok it, { o.r with fifo := rest })
    | [] => (.ok (.comment [] s o.endl false), o.r)

def isSpaceDigit (c : Char) : Bool := c == ' ' || isDigit c

inductive ColCheck where
  | fine | comment | switch | synerr
deriving DecidableEq, Repr

/-- the `for i in range(min(5, len(line)))` column check of the fixed-form branch -/
def colCheck (line : Str) : ColCheck :=
  let cols := line.take 5
  match cols with
  | [] => .fine
  | c :: rest =>
    if !isSpaceDigit c then .comment else
    match (rest.filter (fun c => !isSpaceDigit c)).length with
    | 0 => .fine
    | 1 => .switch
    | _ => .synerr

/-- the fix-format continuation loop -/
def fixLoop : Nat → Option Str → Str → Option Char → Nat → Rd → Str × Nat × Rd
  | 0, _, acc, _, endl, r => (acc, endl, r)
  | fuel+1, nl, acc, qc, endl, r =>
    if isFixCont nl || isFixComment nl then
      match getSingleLine r with
      | (none, r1) => (acc, endl, r1)
      | (some line2, r1) =>
        if isFixCommentS line2 then
          let r2 := { r1 with fifo := r1.fifo ++ [.comment line2 r1.linecount r1.linecount false] }
          let g := getNextLine r2
          fixLoop fuel g.1 acc qc endl g.2
        else
          let h := handleInlineComment (line2.drop 6) r1.linecount qc
          let r2 := { r1 with fifo := r1.fifo ++ h.comments }
          let g := getNextLine r2
          fixLoop fuel g.1 (acc ++ h.line) h.q r2.linecount g.2
    else (acc, endl, r)

/-- `s = line[:5].strip(); label = int(s) if s else None`; outer `none` = `ValueError`
    (`int("1 2")`: a label field with an embedded blank) -/
def fixedLabel (line : Str) : Option (Option Nat) :=
  let lab := strip (line.take 5)
  if lab != [] && !lab.all isDigit then none
  else some (if lab = [] then none else some (digitsToNat lab))

/-- construct name of a fixed-form line: `(name, line[:6] + line[6:][m.end():].lstrip())` -/
def fixedName (line : Str) : Option Str × Str :=
  match nameRe (line.drop 6) with
  | some (n, rest) => (some n, line.take 6 ++ rest)
  | none => (none, line)

/-- the `is_fixed` part of `get_source_item` once the columns 1-5 are valid -/
def fixedItem (r : Rd) (line : Str) (s : Nat) : Res Item × Rd :=
  match fixedLabel line with
  | none => (.err, r)
  | some label =>
    let nl := fixedName line
    if strip (nl.2.drop 6) = [] then
      if nl.1.isSome then (if warnRaises r then .err else .exit, r)
      else if label.isSome && warnRaises r then (.err, r)
      else (.ok (.comment [] s r.linecount false), r)
    else
      let h := handleInlineComment (nl.2.drop 6) s none
      let r1 := { r with fifo := r.fifo ++ h.comments }
      let g := getNextLine r1
      let out := fixLoop (r1.src.length + r1.filo.length + 2) g.1 h.line h.q r.linecount g.2
      (mkLine out.1 label nl.1 s out.2.1, out.2.2)

/-- `get_source_item()` -/
def getSourceItem (r0 : Rd) : Res Item × Rd :=
  match getSingleLine r0 with
  | (none, r) => (.stop, r)
  | (some line0, r1) =>
    let s := r1.linecount
    if line0 != [] && startsWith (lstrip line0) ['#'] then
      cppLoop (r1.src.length + r1.filo.length + 2) line0 [] s r1
    else
      let om := if r1.isFree && r1.omp then replaceSentinelFree line0 else (line0, false)
      let line := om.1
      if !r1.isFree then
        if isFixCommentS line then (.ok (.comment line s s false), r1)
        else match colCheck line with
          | .comment => (.ok (.comment line s s false), r1)
          | .synerr => (mkSynErr (line.drop 6) s r1.linecount, { r1 with isFree := true })
          | .switch => freeItem { r1 with isFree := true } line om.2 s
          | .fine => fixedItem r1 line s
      else freeItem r1 line om.2 s

/-! ### _next -/

/-- `try: item = self.fifo_item.popleft() except IndexError: item = self.get_source_item()` -/
def popOrRead (r : Rd) : Res Item × Rd :=
  match r.fifo with
  | x :: f => (.ok x, { r with fifo := f })
  | [] => getSourceItem r

/-- the `while 1` loop of `_next`: FIFO first, skip comments when ignoring them -/
def nextRaw : Nat → Rd → Res Item × Rd
  | 0, r => (.stop, r)
  | fuel+1, r =>
    let p := popOrRead r
    match p.1 with
    | .ok it => if it.isComment && p.2.ignoreComments then nextRaw fuel p.2 else p
    | _ => p

def nextRawFuel (r : Rd) : Nat := r.fifo.length + 2 * (r.src.length + r.filo.length) + 3

/-- the new `Line` objects for the parts after the first `;` -/
def splitRest (m : SMap) (s e : Nat) : List Str → Option (List Item)
  | [] => some []
  | p :: ps =>
    let line := strip p
    if line = [] then splitRest m s e ps else
    let lab := extractLabel line
    let nam := extractName lab.2
    match mkLine (applyMap m nam.2) lab.1 nam.1 s e, splitRest m s e ps with
    | .ok it, some rest => some (it :: rest)
    | _, _ => none

/-- the first `;`-separated part: `first = first.strip(); if first or item.label is not None or
    item.name is not None: items.append(item.copy(repmap(first)))`; `none` = `Line("")` raised -/
def splitFirst (m : SMap) (f : Str) (label : Option Nat) (name : Option Str) (s e : Nat) :
    Option (List Item) :=
  if f != [] || label.isSome || name.isSome then
    match mkLine (applyMap m f) label name s e with
    | .ok x => some [x]
    | _ => none
  else some []

/-- the `;` resolution of `_next` for an item that passed the emptiness filter.
    `none` = the line consisted of statement separators only (`if not items: return self._next(…)`).
    An empty first part is skipped unless the line carries a label or a construct name
    (then `Line("")` still raises). -/
def splitSemicolon (it : Item) (r : Rd) : Option (Res Item × Rd) :=
  match it.lineView with
  | none => some (.ok it, r)
  | some (text, label, name, s, e) =>
    -- trigger: `";" in item.get_line()` (the lower-cased tokenisation)
    if !(stringReplaceMap text true).1.contains ';' then some (.ok it, r) else
    -- `tokenised, repmap = string_replace_map(item.line, lower=False)`
    let tm := stringReplaceMap text false
    match splitOnChar tm.1 ';' with
    | [] => some (.err, r)
    | first :: rest =>
      match splitFirst tm.2 (strip first) label name s e, splitRest tm.2 s e rest with
      | some h, some others =>
        match h ++ others with
        | [] => none
        | x :: xs => some (.ok x, { r with fifo := xs ++ r.fifo })
      | _, _ => some (.err, r)

/-- `_next()`; the recursion is `return self._next(ignore_comments)` after a separators-only line -/
def next1Loop : Nat → Rd → Res Item × Rd
  | 0, r => (.stop, r)
  | fuel+1, r =>
    let p := nextRaw (nextRawFuel r) r
    match p.1 with
    | .ok it =>
      match splitSemicolon it p.2 with
      | some q => q
      | none => next1Loop fuel p.2
    | _ => p

def next1 (r : Rd) : Res Item × Rd := next1Loop (nextRawFuel r) r

/-! ### next / get_item / put_item with INCLUDE readers -/

/-- `os.path.join(dir, filename)` -/
def pathJoin (d f : Str) : Str :=
  if startsWith f ['/'] then f
  else if d = [] || d.getLast? == some '/' then d ++ f
  else d ++ '/' :: f

/-- the directory search of `next`: the path that is finally tested with `isfile` -/
def searchPath (fs : Fs) (filename : Str) : List Str → Str → Str
  | [], path => path
  | d :: ds, _ =>
    let p := pathJoin d filename
    if (fs.get p).isSome then p else searchPath fs filename ds p

inductive Resolved where
  | missing
  | unsup
  | reader (r : Rd)

def resolveInclude (fs : Fs) (r : Rd) (text : Str) : Resolved :=
  let filename := includeFilename text
  let path := searchPath fs filename r.includeDirs filename
  match fs.get path with
  | some (.file isFree isStrict lines) =>
    if isStrict then .unsup
    else .reader (Rd.mk' lines isFree r.ignoreComments false false r.includeDirs)
  | _ => .missing

/-- `except Exception: raise StopIteration` -/
def errToStop {α} : Res α → Res α
  | .err => .stop
  | x => x

/-- the part of `next` executed when `self.reader is None` (or has just been dropped) -/
def nextMain (newNext : List Rd → Res Item × List Rd) (fs : Fs) (r : Rd) : Res Item × List Rd :=
  let p := next1 r
  match p.1 with
  | .ok it =>
    match it.lineView with
    | some (text, _, _, _, _) =>
      if (includeRe text).isSome then
        match resolveInclude fs p.2 text with
        | .missing => (.ok it, [p.2])
        | .unsup => (.unsup, [p.2])
        | .reader nr =>
          let q := newNext [nr]
          (errToStop q.1, p.2 :: q.2)
      else (.ok it, [p.2])
    | none => (.ok it, [p.2])
  | x => (errToStop x, [p.2])

/-- `next()` on a reader with its chain of active include readers; `newNext` reads the first
    item of a freshly created include reader (one level deeper). -/
def nextChain (newNext : List Rd → Res Item × List Rd) (fs : Fs) : List Rd → Res Item × List Rd
  | [] => (.stop, [])
  | [r] => nextMain newNext fs r
  | r :: r2 :: rest =>
    let q := nextChain newNext fs (r2 :: rest)
    match q.1 with
    | .stop => nextMain newNext fs r          -- `self.reader = None`
    | .err => nextMain newNext fs r           -- (not produced: inner `next` already mapped it)
    | x => (x, r :: q.2)

/-- `next()` with an include-depth budget `d` -/
def next : Nat → Fs → List Rd → Res Item × List Rd
  | 0, _ => fun st => (.unsup, st)
  | d+1, fs => nextChain (next d fs) fs

/-- `get_item()`: `stop` is Python's `None` -/
def getItem (d : Nat) (fs : Fs) (st : List Rd) : Res Item × List Rd := next d fs st

/-- `put_item(item)`: into the FIFO of the innermost reader -/
def putItem (x : Item) : List Rd → List Rd
  | [] => []
  | [r] => [{ r with fifo := x :: r.fifo }]
  | r :: r2 :: rest => r :: putItem x (r2 :: rest)

/-- `reader.linecount` of the reader the user holds -/
def linecount (st : List Rd) : Nat := match st with | r :: _ => r.linecount | [] => 0
def sourceLines (st : List Rd) : List Str := match st with | r :: _ => r.sourceLines | [] => []

/-- nothing more can come: no include reader, source closed, both buffers empty -/
def exhausted (st : List Rd) : Bool :=
  match st with
  | [r] => r.closed && r.filo.isEmpty && r.fifo.isEmpty
  | [] => true
  | _ => false

/-- one observable event of draining: an item, or a `None` from `get_item` before the end -/
inductive Ev where
  | item (x : Item)
  | none
  | exit
  | unsup
deriving DecidableEq, Repr

/-- repeated `get_item` until the reader is exhausted; `none` = out of fuel
    (`Proofs/ReaderDrain.lean` gives a sufficient amount) -/
def drainEv (d : Nat) (fs : Fs) : Nat → List Rd → Option (List Ev × List Rd)
  | 0, _ => none
  | fuel+1, st =>
    let p := getItem d fs st
    match p.1 with
    | .ok x => (drainEv d fs fuel p.2).map fun q => (.item x :: q.1, q.2)
    | .stop => if exhausted p.2 then some ([], p.2) else
        (drainEv d fs fuel p.2).map fun q => (.none :: q.1, q.2)
    | .err => if exhausted p.2 then some ([], p.2) else
        (drainEv d fs fuel p.2).map fun q => (.none :: q.1, q.2)
    | .exit => some ([.exit], p.2)
    | .unsup => some ([.unsup], p.2)

def Ev.item? : Ev → Option Item
  | .item x => some x
  | _ => Option.none

end Fp.Reader
