"""Translator for the One2 model (lean/FparserModel/One2.lean): the block tables of fparser1.

From the LIVE classes of fparser/one/block_statements.py (never re-typed here):

* one row per `BeginStatement` subclass reachable from `BeginSource.get_classes()`:
  the ordered class list `get_classes()` (free-form mode filter of `fill()` applied), the END
  class, the `blocktype` strings of both, the default `name`, whether `tostr` is the base
  `BLOCKTYPE name`, the `match` pattern strings, and the patterns translated with
  `re._parser.parse` into the `Fp.One2.Re` syntax tree that the Lean matcher `Re.m` interprets;
* sha1 fingerprints of the methods that `One2.lean` mirrors branch for branch;
* `endLineQuiet`: no class of a block's class list matches the END line that block prints.

`generate(outdir)` writes `<outdir>/One2Tables.lean` (outdir = lean/FparserModel/Generated); the kernel
obligations over it are in `FparserModel/Proofs/One2Generated.lean`.
"""
import hashlib
import inspect
import os
import re
import sys

from fv import repo

try:
    import re._parser as sre_parse
    import re._constants as sre_c
except ImportError:  # < 3.11
    import sre_parse
    import sre_constants as sre_c

MAXREPEAT = sre_c.MAXREPEAT


class _Fmt:
    is_pyf = False
    is_f77 = False
    is_fixed = False
    mode = "free"


class _Reader:
    format = _Fmt()


class _Stub:
    reader = _Reader()


def load():
    repo.activate()
    from fparser.one import block_statements as B
    from fparser.common import base_classes as BC
    return B, BC


# ---------------------------------------------------------------------------------------
# regex -> Re
# ---------------------------------------------------------------------------------------
def _lean_char(c):
    ch = chr(c)
    if ch == "'":
        return "'\\''"
    if ch == "\\":
        return "'\\\\'"
    if ch == "\n":
        return "'\\n'"
    if ch == "\t":
        return "'\\t'"
    return "'%s'" % ch


def _lean_str(s):
    return '"' + s.replace("\\", "\\\\").replace('"', '\\"').replace("\n", "\\n").replace("\t", "\\t") + '"'


_CATS = {
    sre_c.CATEGORY_SPACE: ".space",
    sre_c.CATEGORY_WORD: ".word",
    sre_c.CATEGORY_DIGIT: ".digit",
}


def _cc(item):
    """a one-character item -> Lean CC term or None"""
    op, av = item
    if op is sre_c.LITERAL:
        return "(.lit %s)" % _lean_char(av)
    if op is sre_c.NOT_LITERAL:
        return "(.nlit %s)" % _lean_char(av)
    if op is sre_c.ANY:
        return ".any"
    if op is sre_c.IN and len(av) == 1:
        o2, a2 = av[0]
        if o2 is sre_c.CATEGORY and a2 in _CATS:
            return _CATS[a2]
        if o2 is sre_c.LITERAL:
            return "(.lit %s)" % _lean_char(a2)
    return None


def _seq(terms):
    terms = [t for t in terms if t != ".eps"]
    if not terms:
        return ".eps"
    out = terms[-1]
    for t in reversed(terms[:-1]):
        out = "(.seq %s %s)" % (t, out)
    return out


def _is_word(c):
    return chr(c).isalnum() or chr(c) == "_"


def _items(items):
    """list of sre items -> Lean Re term"""
    terms = []
    lit = []
    prev_word_lit = False

    def flush():
        if lit:
            terms.append("(.str %s.toList)" % _lean_str("".join(chr(c) for c in lit)))
            del lit[:]

    for op, av in items:
        if op is sre_c.LITERAL:
            lit.append(av)
            prev_word_lit = _is_word(av)
            continue
        flush()
        if op is sre_c.AT:
            if av is sre_c.AT_END_STRING:
                terms.append(".eoi")
            elif av is sre_c.AT_END:
                terms.append(".eol")
            elif av is sre_c.AT_BOUNDARY and prev_word_lit:
                terms.append(".nwl")
            else:
                terms.append(".unsupported")
        elif op in (sre_c.MAX_REPEAT,):
            lo, hi, sub = av
            sub = list(sub)
            one = _cc(sub[0]) if len(sub) == 1 else None
            if lo == 0 and hi == MAXREPEAT and one:
                terms.append("(.many %s)" % one)
            elif lo == 1 and hi == MAXREPEAT and one:
                terms.append("(.many1 %s)" % one)
            elif lo == 0 and hi == 1:
                terms.append("(.opt %s)" % _items(sub))
            elif lo == 0 and hi == MAXREPEAT:
                terms.append("(.star %s)" % _items(sub))
            else:
                terms.append(".unsupported")
        elif op is sre_c.SUBPATTERN:
            terms.append(_items(list(av[3])))
        elif op is sre_c.BRANCH:
            alts = [_items(list(a)) for a in av[1]]
            out = alts[-1]
            for a in reversed(alts[:-1]):
                out = "(.alt %s %s)" % (a, out)
            terms.append(out)
        else:
            one = _cc((op, av))
            terms.append("(.chr %s)" % one if one else ".unsupported")
        prev_word_lit = False
    flush()
    return _seq(terms)


def regex_to_re(pattern, flags=0):
    if pattern is None:
        return ".unsupported"
    return _items(list(sre_parse.parse(pattern, flags)))


# ---------------------------------------------------------------------------------------
# tables
# ---------------------------------------------------------------------------------------
def _pattern(match):
    obj = getattr(match, "__self__", None)
    return getattr(obj, "pattern", None), getattr(obj, "flags", 0)


FINGERPRINTED = [
    ("BC", "BeginStatement", "__init__"), ("BC", "BeginStatement", "tostr"),
    ("BC", "BeginStatement", "tofortran"), ("BC", "BeginStatement", "process_item"),
    ("BC", "BeginStatement", "fill"), ("BC", "BeginStatement", "process_subitem"),
    ("BC", "BeginStatement", "handle_unknown_item_and_raise"),
    ("BC", "EndStatement", "__init__"), ("BC", "EndStatement", "process_item"),
    ("BC", "EndStatement", "tofortran"), ("BC", "EndStatement", "get_indent_tab"),
    ("BC", "Statement", "get_indent_tab"),
    ("B", "BeginSource", "process_item"), ("B", "BeginSource", "process_subitem"),
    ("B", "BeginSource", "get_classes"),
    ("B", "Module", "process_item"), ("B", "Program", "process_item"),
    ("B", "BlockData", "process_item"), ("B", "Interface", "process_item"),
    ("B", "SubProgramStatement", "process_item"), ("B", "Select", "process_item"),
    ("B", "Where", "process_item"), ("B", "Forall", "process_item"),
    ("B", "IfThen", "process_item"), ("B", "Do", "process_item"),
    ("B", "Do", "process_subitem"), ("B", "Associate", "process_item"),
    ("B", "Type", "process_item"), ("B", "Enum", "process_item"),
    ("B", "EndDo", "process_item"), ("B", "SubprogramPrefix", "process_item"),
    ("B", "Enum", "tostr"), ("B", "If", "process_item"),
    ("TD", "TypeDeclarationStatement", "process_item"),
]


def fingerprint(fn):
    src = inspect.getsource(fn)
    # layout-insensitive: strip comments-only lines? no - the exact source text
    return hashlib.sha1(src.encode("utf-8")).hexdigest()[:16]


def collect():
    B, BC = load()
    Begin, End = BC.BeginStatement, BC.EndStatement
    order = [B.BeginSource]
    lists = {}
    i = 0
    while i < len(order):
        cls = order[i]
        i += 1
        if cls is B.If:
            lists[cls] = []          # `If.get_classes` is used by its process_item, not by fill()
            continue
        cl = [c for c in cls.get_classes(_Stub()) if "free" in c.modes]
        lists[cls] = cl
        for c in cl:
            if isinstance(c, type) and issubclass(c, Begin) and c not in order:
                order.append(c)
    names = []
    keys = []

    def idx(c):
        # class identity, not __name__: statements.Where / statements.Forall (the one-line
        # WHERE / FORALL statements) are shadowed by the block classes of the same name
        if c not in keys:
            keys.append(c)
            n = c.__name__
            if n in names:
                n = n + "Stmt"
            names.append(n)
        return keys.index(c)

    for cls in order:
        idx(cls)
    for cls in order:
        for c in lists[cls]:
            idx(c)
    if "Comment" not in names:          # `classes.Comment(self, item)` of fill()
        keys.append(B.Comment)
        names.append("Comment")
    rows = []
    quiet = True
    for cls in order:
        endc = getattr(cls, "end_stmt_cls", None)
        bpat, bfl = _pattern(getattr(cls, "match", None))
        epat, efl = _pattern(getattr(endc, "match", None)) if endc else (None, 0)
        bbt = getattr(cls, "blocktype", None) or cls.__name__.lower()
        ebt = ""
        if endc is not None:
            ebt = getattr(endc, "blocktype", None) or endc.__name__.lower()[3:]
        nm = getattr(cls, "name", None)
        defname = nm if isinstance(nm, str) else "__" + bbt.upper() + "__"
        base = cls.tostr is BC.BeginStatement.tostr or (
            cls.tostr.__code__.co_code == BC.BeginStatement.tostr.__code__.co_code and cls is not B.BeginSource)
        rows.append(dict(cls=cls.__name__, id=idx(cls), classes=[idx(c) for c in lists[cls]],
                         endCls=endc.__name__ if endc else "", beginBt=bbt, endBt=ebt,
                         defName=defname, baseTostr=bool(base), beginPat=bpat or "", endPat=epat or "",
                         beginRe=regex_to_re(bpat, bfl), endRe=regex_to_re(epat, efl)))
        if endc is not None and epat:
            for name in ("", "foo", "n_1"):
                line = ("end " + ebt + " " + name).strip()
                for c in lists[cls]:
                    if c.match(line):
                        quiet = False
    fps = []
    for mod, cn, meth in FINGERPRINTED:
        if mod == "TD":
            import fparser.one.typedecl_statements as TD
            c = getattr(TD, cn)
        else:
            c = getattr(B if mod == "B" else BC, cn)
        fps.append(("%s.%s" % (cn, meth), fingerprint(c.__dict__[meth])))
    return dict(names=names, rows=rows, fps=fps, quiet=quiet, keys=keys)


def render(t):
    L = []
    L.append("import FparserModel.One2Re")
    L.append("/-!")
    L.append("GENERATED by fv/extract_one2.py - do not edit.")
    L.append("Block tables of fparser1 (fparser/one/block_statements.py), read from the live classes:")
    for r in t["rows"]:
        L.append("    %-12s end=%-14s begin=%r end=%r" % (r["cls"], r["endCls"], r["beginPat"], r["endPat"]))
    L.append("-/")
    L.append("namespace Fp.One2.Gen")
    L.append("open Fp Fp.One2")
    L.append("")
    L.append("def classNames : List String := [")
    L.append("  " + ", ".join(_lean_str(n) for n in t["names"]))
    L.append("]")
    L.append("")
    for k, r in enumerate(t["rows"]):
        L.append("def row%d : BlockRow :=" % k)
        L.append("  { cls := %s, id := %d," % (_lean_str(r["cls"]), r["id"]))
        L.append("    classes := [%s]," % ", ".join(str(c) for c in r["classes"]))
        L.append("    endCls := %s, beginBt := %s, endBt := %s, defName := %s, baseTostr := %s," % (
            _lean_str(r["endCls"]), _lean_str(r["beginBt"]), _lean_str(r["endBt"]), _lean_str(r["defName"]),
            "true" if r["baseTostr"] else "false"))
        L.append("    beginPat := %s," % _lean_str(r["beginPat"]))
        L.append("    endPat := %s," % _lean_str(r["endPat"]))
        L.append("    beginRe := %s," % r["beginRe"])
        L.append("    endRe := %s }" % r["endRe"])
        L.append("")
    L.append("def fingerprints : List (String × String) := [")
    L.append(",\n".join("  (%s, %s)" % (_lean_str(a), _lean_str(b)) for a, b in t["fps"]))
    L.append("]")
    L.append("")
    L.append("def tables : Tables :=")
    L.append("  { classNames := classNames,")
    L.append("    rows := [%s]," % ", ".join("row%d" % k for k in range(len(t["rows"]))))
    L.append("    fingerprints := fingerprints,")
    L.append("    endLineQuiet := %s }" % ("true" if t["quiet"] else "false"))
    L.append("")
    L.append("end Fp.One2.Gen")
    return "\n".join(L) + "\n"


def generate(outdir=None):
    """Write One2Tables.lean into `outdir` (default: lean/FparserModel/Generated of this tree)."""
    if outdir is None:
        outdir = os.path.join(os.path.dirname(os.path.dirname(os.path.abspath(__file__))),
                              "lean", "FparserModel", "Generated")
    os.makedirs(outdir, exist_ok=True)
    t = collect()
    path = os.path.join(outdir, "One2Tables.lean")
    text = render(t)
    old = None
    if os.path.exists(path):
        with open(path, encoding="utf-8") as f:
            old = f.read()
    if old != text:
        with open(path, "w", encoding="utf-8") as f:
            f.write(text)
    return path


if __name__ == "__main__":
    print(generate(sys.argv[1] if len(sys.argv) > 1 else None))
