import FparserModel.Proofs.ReaderStep

/-!
# Reader3TermWeight — the termination measure of the reader (property C06, reader part)

`r.weight = len(fifo_item) + 2 * (pending source lines + len(filo_line))`.

Every physical line that `get_single_line` hands out pays 2 units; the line may later put at most
ONE comment item on the FIFO (`handle_inline_comment` yields at most one comment, a comment line
inside a continued statement yields one), which costs 1 unit. Peeking (`get_next_line`) moves a
line from the source to `filo_line` and leaves the weight unchanged (or lowers it when fixed-form
comment lines are skipped on the way).
-/
namespace Fp.Reader
open Fp

def Rd.weight (r : Rd) : Nat := r.fifo.length + 2 * (r.src.length + r.filo.length)

/-- 1 for a line in hand, 0 for `None` -/
def optW : Option Str → Nat
  | some _ => 1
  | none => 0

theorem weight_setFifo (r : Rd) (f : List Item) :
    ({ r with fifo := f } : Rd).weight + r.fifo.length = r.weight + f.length := by
  simp only [Rd.weight]; omega

theorem weight_append (r : Rd) (xs : List Item) :
    ({ r with fifo := r.fifo ++ xs } : Rd).weight = r.weight + xs.length := by
  simp only [Rd.weight, List.length_append]; omega

theorem weight_setFree (r : Rd) (b : Bool) : ({ r with isFree := b } : Rd).weight = r.weight := rfl

/-- `get_single_line()` returning `None`: the reader is closed, nothing is pushed back -/
theorem getSingleLine_none_term (r r1 : Rd) (h : getSingleLine r = (none, r1)) :
    r1.closed = true ∧ r1.filo = [] ∧ r1.fifo = r.fifo ∧ r1.src.length ≤ r.src.length := by
  unfold getSingleLine at h
  cases hf : r.filo with
  | cons l0 f => rw [hf] at h; simp at h
  | nil =>
    rw [hf] at h
    simp only [] at h
    by_cases hc : r.closed = true
    · simp only [hc, if_true, Prod.mk.injEq, true_and] at h
      subst h; exact ⟨hc, hf, rfl, Nat.le_refl _⟩
    · have hc' : r.closed = false := by simpa using hc
      simp only [hc', Bool.false_eq_true, if_false] at h
      obtain ⟨k, _, _, _, h4⟩ := pull_spec (r.omp && !r.isFree) (r.ignoreComments && !r.isFree)
        r.src r.linecount r.linesRev
      cases hp : pull (r.omp && !r.isFree) (r.ignoreComments && !r.isFree) r.src r.linecount r.linesRev with
      | mk o rest1 =>
        obtain ⟨src', lc', ls'⟩ := rest1
        rw [hp] at h h4
        cases o with
        | some l' => simp at h
        | none =>
          simp only [Prod.mk.injEq, true_and] at h
          subst h
          refine ⟨rfl, rfl, rfl, ?_⟩
          simp only [] at h4 ⊢
          omega

/-- a line handed out pays 2 units; `None` costs nothing -/
theorem getSingleLine_weight (r : Rd) :
    (getSingleLine r).2.weight + 2 * optW (getSingleLine r).1 ≤ r.weight := by
  cases hg : getSingleLine r with
  | mk o r1 =>
    have hfifo := getSingleLine_fifo r
    rw [hg] at hfifo
    simp only [] at hfifo ⊢
    cases o with
    | some l =>
      have := getSingleLine_measure r r1 l hg
      simp only [Rd.weight, optW, hfifo]; omega
    | none =>
      obtain ⟨_, h2, _, h4⟩ := getSingleLine_none_term r r1 hg
      simp only [Rd.weight, optW, hfifo, h2, List.length_nil]; omega

theorem getSingleLine_weight_le (r : Rd) : (getSingleLine r).2.weight ≤ r.weight := by
  have := getSingleLine_weight r; omega

theorem getSingleLine_weight_some (r r1 : Rd) (l : Str) (h : getSingleLine r = (some l, r1)) :
    r1.weight + 2 ≤ r.weight := by
  have := getSingleLine_weight r
  rw [h] at this
  simpa [optW] using this

theorem getSingleLine_weight_none (r r1 : Rd) (h : getSingleLine r = (none, r1)) :
    r1.weight ≤ r.weight := by
  have := getSingleLine_weight_le r
  rw [h] at this
  exact this

/-- peeking never raises the weight -/
theorem getNextLine_weight (r : Rd) : (getNextLine r).2.weight ≤ r.weight := by
  unfold getNextLine
  cases hg : getSingleLine r with
  | mk o r1 =>
    cases o with
    | none => exact getSingleLine_weight_none r r1 hg
    | some l =>
      have := getSingleLine_weight_some r r1 l hg
      simp only [putSingleLine, Rd.weight, List.length_cons] at this ⊢
      omega

/-! ### `handle_inline_comment` buffers at most one comment -/

theorem hicQuick_weight (line : Str) (n : Nat) (q : Option Char) (h : Hic)
    (hq : hicQuick line n q = some h) : h.comments.length ≤ 1 := by
  unfold hicQuick at hq
  cases q with
  | some c => simp at hq
  | none =>
    cases hf : find line '!' with
    | none => rw [hf] at hq; simp at hq
    | some idx =>
      rw [hf] at hq
      simp only [] at hq
      simp at hq
      obtain ⟨_, _, rfl⟩ := hq
      simp

theorem hicSlow_weight (line : Str) (n : Nat) (q : Option Char) :
    (hicSlow line n q).comments.length ≤ 1 := by
  unfold hicSlow
  simp only []
  split <;> simp

theorem hic_weight (line : Str) (n : Nat) (q : Option Char) :
    (handleInlineComment line n q).comments.length ≤ 1 := by
  unfold handleInlineComment
  split
  · simp
  · split
    · rename_i r hr; exact hicQuick_weight line n q r hr
    · exact hicSlow_weight line n q

theorem freeStep_weight (started : Bool) (line : Str) (n : Nat) (q : Option Char)
    (label : Option Nat) (name : Option Str) :
    (freeStep started line n q label name).h.comments.length ≤ 1 := by
  unfold freeStep
  simp only []
  split <;> exact hic_weight _ _ _

end Fp.Reader
